/-
Helper lemmas and proofs for C10 (Model.Signature, with Proofs.Regex for the pattern side).
-/
import SqliteDissect.Model.Signature
import SqliteDissect.Proofs.Regex
import Mathlib.Data.List.Dedup
import SqliteDissect.Spec.AffinityStorage

namespace SqliteDissect.Proofs.Signature
open SqliteDissect SqliteDissect.Model SqliteDissect.Model.Signature

/-! ### insertion sort is a permutation -/

theorem insertBy_perm {α : Type} (le : α → α → Bool) (a : α) : ∀ l : List α, (insertBy le a l).Perm (a :: l) := by
  intro l
  induction l with
  | nil => exact List.Perm.refl _
  | cons b l ih =>
    unfold insertBy
    split
    · exact List.Perm.refl _
    · exact ((List.Perm.cons b ih).trans (List.Perm.swap a b l))

theorem isort_perm {α : Type} (le : α → α → Bool) : ∀ l : List α, (isort le l).Perm l := by
  intro l
  induction l with
  | nil => exact List.Perm.refl _
  | cons a l ih => exact (insertBy_perm le a _).trans (List.Perm.cons a ih)

/-! ### dictionaries -/

def keys (d : List (Int × Nat)) : List Int := d.map (·.1)
def total (d : List (Int × Nat)) : Nat := (d.map (·.2)).sum

theorem dictAdd_keys (d : List (Int × Nat)) (k : Int) (n : Nat) (x : Int) :
    x ∈ keys (dictAdd d k n) ↔ x ∈ keys d ∨ x = k := by
  induction d with
  | nil => simp [dictAdd, keys]
  | cons e rest ih =>
    obtain ⟨k', n'⟩ := e
    unfold dictAdd
    by_cases h : k' = k
    · subst h
      simp only [if_true, keys, List.map_cons, List.mem_cons]
      constructor
      · rintro (h | h); exact Or.inl (Or.inl h); exact Or.inl (Or.inr h)
      · rintro ((h | h) | h); exact Or.inl h; exact Or.inr h; exact Or.inl h
    · simp only [h, if_false, keys, List.map_cons, List.mem_cons]
      simp only [keys] at ih
      rw [ih]
      constructor
      · rintro (h | h | h); exact Or.inl (Or.inl h); exact Or.inl (Or.inr h); exact Or.inr h
      · rintro ((h | h) | h); exact Or.inl h; exact Or.inr (Or.inl h); exact Or.inr (Or.inr h)

theorem dictAdd_total (d : List (Int × Nat)) (k : Int) (n : Nat) : total (dictAdd d k n) = total d + n := by
  induction d with
  | nil => simp [dictAdd, total]
  | cons e rest ih =>
    obtain ⟨k', n'⟩ := e
    unfold dictAdd
    by_cases h : k' = k
    · simp only [h, if_true, total, List.map_cons, List.sum_cons]; omega
    · simp only [h, if_false, total, List.map_cons, List.sum_cons]
      simp only [total] at ih
      rw [ih]; omega

theorem dictMerge_keys : ∀ (d' d : List (Int × Nat)) (x : Int),
    x ∈ keys (dictMerge d d') ↔ x ∈ keys d ∨ x ∈ keys d' := by
  intro d'
  induction d' with
  | nil => intro d x; simp [dictMerge, keys]
  | cons e rest ih =>
    intro d x
    obtain ⟨k, n⟩ := e
    unfold dictMerge
    rw [ih, dictAdd_keys]
    simp only [keys, List.map_cons, List.mem_cons]
    constructor
    · rintro ((h | h) | h); exact Or.inl h; exact Or.inr (Or.inl h); exact Or.inr (Or.inr h)
    · rintro (h | h | h); exact Or.inl (Or.inl h); exact Or.inl (Or.inr h); exact Or.inr h

theorem dictMerge_total : ∀ (d' d : List (Int × Nat)), total (dictMerge d d') = total d + total d' := by
  intro d'
  induction d' with
  | nil => intro d; simp [dictMerge, total]
  | cons e rest ih =>
    intro d
    obtain ⟨k, n⟩ := e
    unfold dictMerge
    rw [ih, dictAdd_total]
    simp only [total, List.map_cons, List.sum_cons]; omega

/-! ### column signatures: well-formedness and what they admit -/

/-- invariant of every column signature the code builds -/
def ColWF : ColSig → Prop
  | .fixed t n => 0 ≤ t ∧ t ≤ 9 ∧ 1 ≤ n
  | .var s n vls => (s = -1 ∨ s = -2) ∧ 1 ≤ n ∧ vls ≠ [] ∧ total vls = n ∧
      ∀ k ∈ keys vls, 12 ≤ k ∧ serialTypeSignature k = s

/-- the serial types a column signature stands for -/
def ColAdmits : ColSig → Int → Prop
  | .fixed t _, st => t = st
  | .var s _ vls, st => 12 ≤ st ∧ serialTypeSignature st = s ∧ st ∈ keys vls

theorem sts_ge12 (st : Int) (h : 12 ≤ st) :
    serialTypeSignature st = if st % 2 = 0 then -1 else -2 := by
  unfold serialTypeSignature; rw [if_pos h]

theorem newColSig_spec (st : Int) (c : ColSig) (h : newColSig st = .ok c) :
    ColWF c ∧ ColAdmits c st ∧ c.count = 1 := by
  unfold newColSig at h
  split at h
  · rename_i h09
    cases h
    exact ⟨⟨h09.1, h09.2, Nat.le_refl _⟩, rfl, rfl⟩
  · split at h
    · rename_i h12
      cases h
      have h12' : 12 ≤ st := h12
      refine ⟨⟨?_, Nat.le_refl _, by simp, by simp [total], ?_⟩, ⟨h12', ?_, by simp [keys]⟩, rfl⟩
      · by_cases he : st % 2 = 0 <;> simp [he]
      · intro k hk
        simp only [keys, List.map_cons, List.map_nil, List.mem_singleton] at hk
        subst hk
        exact ⟨h12', sts_ge12 k h12'⟩
      · exact sts_ge12 st h12'
    · cases h

theorem dictAdd_ne_nil (d : List (Int × Nat)) (k : Int) (n : Nat) : dictAdd d k n ≠ [] := by
  cases d with
  | nil => simp [dictAdd]
  | cons e rest =>
    obtain ⟨k', n'⟩ := e
    unfold dictAdd
    split <;> simp

theorem updColSig_spec (c c' : ColSig) (st : Int) (hwf : ColWF c) (h : updColSig c st = .ok c') :
    ColWF c' ∧ ColAdmits c' st ∧ (∀ st', ColAdmits c st' → ColAdmits c' st') ∧ c'.count = c.count + 1
      ∧ c'.serialType = c.serialType := by
  cases c with
  | fixed t n =>
    simp only [updColSig] at h
    split at h
    · cases h
    · rename_i hne
      have ht : t = st := by simpa using hne
      cases h
      obtain ⟨h0, h9, h1⟩ := hwf
      exact ⟨⟨h0, h9, by omega⟩, ht, fun _ h => h, rfl, rfl⟩
  | var s n vls =>
    obtain ⟨hs, h1, hne, htot, hkeys⟩ := hwf
    simp only [updColSig] at h
    have key : ∀ (hst : 12 ≤ st) (hss : serialTypeSignature st = s),
        ColWF (.var s (n + 1) (dictAdd vls st 1)) ∧ ColAdmits (.var s (n + 1) (dictAdd vls st 1)) st ∧
        (∀ st', ColAdmits (.var s n vls) st' → ColAdmits (.var s (n + 1) (dictAdd vls st 1)) st') := by
      intro hst hss
      refine ⟨⟨hs, by omega, dictAdd_ne_nil _ _ _, by rw [dictAdd_total, htot], ?_⟩,
        ⟨hst, hss, (dictAdd_keys _ _ _ _).2 (Or.inr rfl)⟩, ?_⟩
      · intro k hk
        rcases (dictAdd_keys _ _ _ _).1 hk with hk | hk
        · exact hkeys k hk
        · subst hk; exact ⟨hst, hss⟩
      · intro st' ⟨a, b, c⟩
        exact ⟨a, b, (dictAdd_keys _ _ _ _).2 (Or.inl c)⟩
    split at h
    · rename_i hev
      split at h
      · cases h
      · rename_i hs1
        have hs1' : s = -1 := by simpa using hs1
        cases h
        have hss : serialTypeSignature st = s := by rw [sts_ge12 st hev.1, if_pos hev.2, hs1']
        obtain ⟨a, b, c⟩ := key hev.1 hss
        exact ⟨a, b, c, rfl, rfl⟩
    · split at h
      · rename_i hod
        split at h
        · cases h
        · rename_i hs2
          have hs2' : s = -2 := by simpa using hs2
          cases h
          have hst : 12 ≤ st := by omega
          have hss : serialTypeSignature st = s := by
            rw [sts_ge12 st hst, if_neg (by omega), hs2']
          obtain ⟨a, b, c⟩ := key hst hss
          exact ⟨a, b, c, rfl, rfl⟩
      · cases h

/-! ### row signatures -/

def RowWF (rs : RowSig) : Prop := (∀ c ∈ rs.cols, ColWF c ∧ c.count = rs.count) ∧ 1 ≤ rs.count

def RowAdmits (cols : List ColSig) (ts : List Int) : Prop := List.Forall₂ ColAdmits cols ts

theorem newColSigs_spec : ∀ (ts : List Int) (cs : List ColSig), newColSigs ts = .ok cs →
    (∀ c ∈ cs, ColWF c ∧ c.count = 1) ∧ RowAdmits cs ts := by
  intro ts
  induction ts with
  | nil => intro cs h; simp only [newColSigs] at h; cases h; exact ⟨by simp, List.Forall₂.nil⟩
  | cons t ts ih =>
    intro cs h
    unfold newColSigs at h
    split at h
    · cases h
    · rename_i c hc
      split at h
      · cases h
      · rename_i cs' hcs'
        cases h
        obtain ⟨hwf, had, hcnt⟩ := newColSig_spec t c hc
        obtain ⟨h1, h2⟩ := ih cs' hcs'
        refine ⟨?_, List.Forall₂.cons had h2⟩
        intro x hx
        rcases List.mem_cons.1 hx with hx | hx
        · subst hx; exact ⟨hwf, hcnt⟩
        · exact h1 x hx

theorem updColSigs_spec : ∀ (cs : List ColSig) (ts : List Int) (cs' : List ColSig) (n : Nat),
    cs.length = ts.length → (∀ c ∈ cs, ColWF c ∧ c.count = n) → updColSigs cs ts = .ok cs' →
    (∀ c ∈ cs', ColWF c ∧ c.count = n + 1) ∧ RowAdmits cs' ts ∧
      (∀ ts', RowAdmits cs ts' → RowAdmits cs' ts') := by
  intro cs
  induction cs with
  | nil =>
    intro ts cs' n hl _ h
    cases ts with
    | nil => simp only [updColSigs] at h; cases h; exact ⟨by simp, List.Forall₂.nil, fun _ h => h⟩
    | cons => simp at hl
  | cons c cs ih =>
    intro ts cs' n hl hwf h
    cases ts with
    | nil => simp at hl
    | cons t ts =>
      simp only [updColSigs] at h
      split at h
      · cases h
      · rename_i c' hc'
        split at h
        · cases h
        · rename_i cs'' hcs''
          cases h
          have hc := hwf c (List.mem_cons_self ..)
          obtain ⟨a1, a2, a3, a4, _⟩ := updColSig_spec c c' t hc.1 hc'
          obtain ⟨b1, b2, b3⟩ := ih ts cs'' n (by simpa using hl)
            (fun x hx => hwf x (List.mem_cons_of_mem _ hx)) hcs''
          refine ⟨?_, List.Forall₂.cons a2 b2, ?_⟩
          · intro x hx
            rcases List.mem_cons.1 hx with hx | hx
            · subst hx; exact ⟨a1, by rw [a4, hc.2]⟩
            · exact b1 x hx
          · intro ts' h'
            cases h' with
            | cons hh ht => exact List.Forall₂.cons (a3 _ hh) (b3 _ ht)

def Covered (rows : List RowSig) (ts : List Int) : Prop := ∃ rs ∈ rows, RowAdmits rs.cols ts

theorem processRecord_spec (nDefs : Nat) : ∀ (rows rows' : List RowSig) (r : Rec),
    (∀ rs ∈ rows, RowWF rs) → processRecord nDefs rows r = .ok rows' →
    (∀ rs ∈ rows', RowWF rs) ∧ Covered rows' r.types ∧ (∀ ts, Covered rows ts → Covered rows' ts) := by
  intro rows
  induction rows with
  | nil =>
    intro rows' r _ h
    simp only [processRecord] at h
    split at h
    · cases h
    · rename_i rs hrs
      cases h
      unfold newRowSig at hrs
      split at hrs
      · cases hrs
      · split at hrs
        · cases hrs
        · rename_i cs hcs
          cases hrs
          obtain ⟨h1, h2⟩ := newColSigs_spec _ _ hcs
          refine ⟨?_, ⟨_, List.mem_cons_self .., h2⟩, ?_⟩
          · intro x hx
            simp only [List.mem_singleton] at hx
            subst hx
            exact ⟨h1, Nat.le_refl _⟩
          · rintro ts ⟨rs, hrs, _⟩; cases hrs
  | cons rs rest ih =>
    intro rows' r hwf h
    simp only [processRecord] at h
    have hrs := hwf rs (List.mem_cons_self ..)
    split at h
    · -- same key: update
      split at h
      · cases h
      · rename_i rs' hrs'
        cases h
        unfold updRowSig at hrs'
        split at hrs'
        · cases hrs'
        · rename_i hlen
          split at hrs'
          · cases hrs'
          · rename_i cs hcs
            cases hrs'
            have hlen' : rs.cols.length = r.types.length := by
              by_contra hc; exact hlen hc
            obtain ⟨a1, a2, a3⟩ := updColSigs_spec rs.cols r.types cs rs.count hlen' hrs.1 hcs
            refine ⟨?_, ⟨_, List.mem_cons_self .., a2⟩, ?_⟩
            · intro x hx
              rcases List.mem_cons.1 hx with hx | hx
              · subst hx; exact ⟨a1, by simp⟩
              · exact hwf x (List.mem_cons_of_mem _ hx)
            · rintro ts ⟨x, hx, hxa⟩
              rcases List.mem_cons.1 hx with hx | hx
              · subst hx; exact ⟨_, List.mem_cons_self .., a3 _ hxa⟩
              · exact ⟨x, List.mem_cons_of_mem _ hx, hxa⟩
    · split at h
      · cases h
      · rename_i rest' hrest'
        cases h
        obtain ⟨b1, ⟨y, hy, hya⟩, b3⟩ := ih rest' r (fun x hx => hwf x (List.mem_cons_of_mem _ hx)) hrest'
        refine ⟨?_, ⟨y, List.mem_cons_of_mem _ hy, hya⟩, ?_⟩
        · intro x hx
          rcases List.mem_cons.1 hx with hx | hx
          · subst hx; exact hrs
          · exact b1 x hx
        · rintro ts ⟨x, hx, hxa⟩
          rcases List.mem_cons.1 hx with hx | hx
          · subst hx; exact ⟨_, List.mem_cons_self .., hxa⟩
          · obtain ⟨z, hz, hza⟩ := b3 ts ⟨x, hx, hxa⟩
            exact ⟨z, List.mem_cons_of_mem _ hz, hza⟩

theorem processRecords_spec (nDefs : Nat) : ∀ (recs : List Rec) (rows rows' : List RowSig),
    (∀ rs ∈ rows, RowWF rs) → processRecords nDefs rows recs = .ok rows' →
    (∀ rs ∈ rows', RowWF rs) ∧ (∀ r ∈ recs, Covered rows' r.types) ∧
      (∀ ts, Covered rows ts → Covered rows' ts) := by
  intro recs
  induction recs with
  | nil => intro rows rows' hwf h; simp only [processRecords] at h; cases h; exact ⟨hwf, by simp, fun _ h => h⟩
  | cons r recs ih =>
    intro rows rows' hwf h
    simp only [processRecords] at h
    split at h
    · cases h
    · rename_i rows1 h1
      obtain ⟨a1, a2, a3⟩ := processRecord_spec nDefs rows rows1 r hwf h1
      obtain ⟨b1, b2, b3⟩ := ih rows1 rows' a1 h
      refine ⟨b1, ?_, fun ts h => b3 ts (a3 ts h)⟩
      intro x hx
      rcases List.mem_cons.1 hx with hx | hx
      · subst hx; exact b3 _ a2
      · exact b2 x hx

/-! ### accumulation over versions -/

theorem aggregate_spec : ∀ (cells : List Rec) (acc : List Nat),
    (∀ d, d ∈ (aggregate cells acc).2 ↔ d ∈ acc ∨ d ∈ cells.map (·.digest)) ∧
    (∀ d ∈ (aggregate cells acc).2, d ∈ acc ∨ ∃ r ∈ (aggregate cells acc).1, r.digest = d) ∧
    (∀ r ∈ (aggregate cells acc).1, r ∈ cells) ∧
    (aggregate cells acc).2.length = acc.length + (aggregate cells acc).1.length ∧
    (acc.Nodup → (aggregate cells acc).2.Nodup) := by
  intro cells
  induction cells with
  | nil => intro acc; simp [aggregate]
  | cons r rs ih =>
    intro acc
    unfold aggregate
    by_cases h : r.digest ∈ acc
    · simp only [h, if_true]
      obtain ⟨a1, a2, a3, a4, a5⟩ := ih acc
      refine ⟨?_, a2, fun x hx => List.mem_cons_of_mem _ (a3 x hx), a4, a5⟩
      intro d
      rw [a1 d]
      simp only [List.map_cons, List.mem_cons]
      constructor
      · rintro (h' | h'); exact Or.inl h'; exact Or.inr (Or.inr h')
      · rintro (h' | h' | h'); exact Or.inl h'; exact Or.inl (h' ▸ h); exact Or.inr h'
    · simp only [h, if_false]
      obtain ⟨a1, a2, a3, a4, a5⟩ := ih (r.digest :: acc)
      refine ⟨?_, ?_, ?_, ?_, ?_⟩
      · intro d
        rw [a1 d]
        simp only [List.map_cons, List.mem_cons]
        constructor
        · rintro ((h' | h') | h'); exact Or.inr (Or.inl h'); exact Or.inl h'; exact Or.inr (Or.inr h')
        · rintro (h' | h' | h'); exact Or.inl (Or.inr h'); exact Or.inl (Or.inl h'); exact Or.inr h'
      · intro d hd
        rcases a2 d hd with h' | ⟨x, hx, hxd⟩
        · rcases List.mem_cons.1 h' with h'' | h''
          · exact Or.inr ⟨r, List.mem_cons_self .., h''.symm⟩
          · exact Or.inl h''
        · exact Or.inr ⟨x, List.mem_cons_of_mem _ hx, hxd⟩
      · intro x hx
        rcases List.mem_cons.1 hx with hx | hx
        · subst hx; exact List.mem_cons_self ..
        · exact List.mem_cons_of_mem _ (a3 x hx)
      · rw [a4]; simp only [List.length_cons]; omega
      · intro hnd; exact a5 (List.nodup_cons.2 ⟨h, hnd⟩)

/-- invariant of the accumulation loop; `seen` = every cell visited so far -/
structure AccInv (a : Acc) (seen : List Rec) : Prop where
  rowsWF : ∀ rs ∈ a.rows, RowWF rs
  mem : ∀ d, d ∈ a.accounted ↔ d ∈ seen.map (·.digest)
  cov : ∀ d ∈ a.accounted, ∃ r ∈ seen, r.digest = d ∧ Covered a.rows r.types
  nodup : a.accounted.Nodup
  uniq : a.unique = a.accounted.length
  tot : a.total = seen.length
  emp : seen = [] → a.rows = []

theorem accInv_init : AccInv Acc.init [] :=
  ⟨by simp [Acc.init], by simp [Acc.init], by simp [Acc.init], by simp [Acc.init], rfl, rfl, fun _ => rfl⟩

theorem stepVersion_inv (nDefs : Nat) (a a' : Acc) (seen cells : List Rec) (hinv : AccInv a seen)
    (h : stepVersion nDefs a cells = .ok a') : AccInv a' (seen ++ cells) := by
  unfold stepVersion at h
  simp only at h
  split at h
  · cases h
  · rename_i rows hrows
    cases h
    obtain ⟨a1, a2, a3, a4, a5⟩ := aggregate_spec cells a.accounted
    obtain ⟨b1, b2, b3⟩ := processRecords_spec nDefs _ _ _ hinv.rowsWF hrows
    refine ⟨b1, ?_, ?_, a5 hinv.nodup, ?_, ?_, ?_⟩
    rotate_left 4
    · intro hnil
      obtain ⟨hs, hc⟩ := List.append_eq_nil_iff.1 hnil
      subst hc
      simp only [aggregate, processRecords] at hrows
      cases hrows
      exact hinv.emp hs
    · intro d
      simp only
      rw [a1 d, hinv.mem d]
      simp only [List.map_append, List.mem_append]
    · intro d hd
      simp only at hd
      rcases a2 d hd with h' | ⟨x, hx, hxd⟩
      · obtain ⟨r, hr, hrd, hcov⟩ := hinv.cov d h'
        exact ⟨r, List.mem_append_left _ hr, hrd, b3 _ hcov⟩
      · exact ⟨x, List.mem_append_right _ (a3 x hx), hxd, b2 x hx⟩
    · simp only; rw [a4, hinv.uniq]
    · simp only [List.length_append]; rw [hinv.tot]

theorem runVersions_inv (nDefs : Nat) : ∀ (vs : List (List Rec)) (a a' : Acc) (seen : List Rec),
    AccInv a seen → runVersions nDefs a vs = .ok a' → AccInv a' (seen ++ vs.flatten) := by
  intro vs
  induction vs with
  | nil => intro a a' seen hinv h; simp only [runVersions] at h; cases h; simpa using hinv
  | cons v vs ih =>
    intro a a' seen hinv h
    simp only [runVersions] at h
    split at h
    · cases h
    · rename_i a1 h1
      have := ih a1 a' (seen ++ v) (stepVersion_inv nDefs a a1 seen v hinv h1) h
      simpa [List.append_assoc] using this

/-- equal digests stand for equal cells (md5 is collision-free on what was seen) -/
def DigestFaithful (rs : List Rec) : Prop :=
  ∀ r ∈ rs, ∀ r' ∈ rs, r.digest = r'.digest → r.types = r'.types

theorem all_covered (a : Acc) (seen : List Rec) (hinv : AccInv a seen) (hd : DigestFaithful seen) :
    ∀ r ∈ seen, Covered a.rows r.types := by
  intro r hr
  have : r.digest ∈ a.accounted := (hinv.mem _).2 (List.mem_map.2 ⟨r, hr, rfl⟩)
  obtain ⟨r', hr', hdig, hcov⟩ := hinv.cov _ this
  rw [hd r hr r' hr' hdig.symm]
  exact hcov

theorem unique_eq_dedup (a : Acc) (seen : List Rec) (hinv : AccInv a seen) :
    a.unique = (seen.map (·.digest)).dedup.length := by
  rw [hinv.uniq]
  apply List.Perm.length_eq
  rw [List.perm_ext_iff_of_nodup hinv.nodup (List.nodup_dedup _)]
  intro d
  rw [hinv.mem d, List.mem_dedup]

/-! ### inversion into table column signatures -/

def DictAdmits (d : List ColSig) (st : Int) : Prop := ∃ e ∈ d, ColAdmits e st

def DictWF (d : List ColSig) : Prop := (∀ e ∈ d, ColWF e) ∧ (d.map ColSig.serialType).Nodup

theorem colWF_range (c : ColSig) (h : ColWF c) : -2 ≤ c.serialType ∧ c.serialType ≤ 9 ∧ 1 ≤ c.count := by
  cases c with
  | fixed t n => obtain ⟨a, b, c⟩ := h; exact ⟨by simp only [ColSig.serialType]; omega, b, c⟩
  | var s n vls =>
    obtain ⟨a, b, _⟩ := h
    simp only [ColSig.serialType, ColSig.count]
    rcases a with a | a <;> subst a <;> exact ⟨by decide, by decide, b⟩

theorem dictMerge_ne_nil (d d' : List (Int × Nat)) (h : d ≠ []) : dictMerge d d' ≠ [] := by
  cases d with
  | nil => exact absurd rfl h
  | cons e rest =>
    intro hm
    have : e.1 ∈ keys (dictMerge (e :: rest) d') := (dictMerge_keys _ _ _).2 (Or.inl (by simp [keys]))
    rw [hm] at this
    simp [keys] at this

theorem tcAdd_spec : ∀ (d d' : List ColSig) (c : ColSig), DictWF d → ColWF c → tcAdd d c = .ok d' →
    DictWF d' ∧ (∀ st, ColAdmits c st → DictAdmits d' st) ∧ (∀ st, DictAdmits d st → DictAdmits d' st) ∧
    sumCounts d' = sumCounts d + c.count ∧
    (∀ x, x ∈ d'.map ColSig.serialType ↔ x ∈ d.map ColSig.serialType ∨ x = c.serialType) := by
  intro d
  induction d with
  | nil =>
    intro d' c _ hc h
    have hd' : d' = [c] := by
      cases c with
      | fixed st n => simp only [tcAdd] at h; cases h; rfl
      | var s n vls =>
        simp only [tcAdd] at h
        split at h
        · cases h
        · cases h; rfl
    subst hd'
    refine ⟨⟨?_, by simp⟩, ?_, ?_, by simp [sumCounts], by simp⟩
    · intro e he; simp only [List.mem_singleton] at he; subst he; exact hc
    · intro st hst; exact ⟨c, List.mem_cons_self .., hst⟩
    · rintro st ⟨e, he, _⟩; cases he
  | cons e rest ih =>
    intro d' c hd hc h
    have he := hd.1 e (List.mem_cons_self ..)
    have hrestWF : DictWF rest :=
      ⟨fun x hx => hd.1 x (List.mem_cons_of_mem _ hx), (List.nodup_cons.1 (by simpa using hd.2)).2⟩
    have heNot : e.serialType ∉ rest.map ColSig.serialType := (List.nodup_cons.1 (by simpa using hd.2)).1
    unfold tcAdd at h
    by_cases hk : e.serialType = c.serialType
    · rw [if_pos hk] at h
      cases e with
      | fixed st n =>
        cases c with
        | fixed st' n' =>
          simp only at h
          cases h
          simp only [ColSig.serialType] at hk
          subst hk
          obtain ⟨e0, e9, e1⟩ := he
          refine ⟨⟨?_, by simpa [ColSig.serialType] using hd.2⟩, ?_, ?_, ?_, ?_⟩
          · intro x hx
            rcases List.mem_cons.1 hx with hx | hx
            · subst hx; exact ⟨e0, e9, by omega⟩
            · exact hd.1 x (List.mem_cons_of_mem _ hx)
          · intro st' hst'; exact ⟨_, List.mem_cons_self .., hst'⟩
          · rintro st' ⟨x, hx, hxa⟩
            rcases List.mem_cons.1 hx with hx | hx
            · subst hx; exact ⟨_, List.mem_cons_self .., hxa⟩
            · exact ⟨x, List.mem_cons_of_mem _ hx, hxa⟩
          · simp only [sumCounts, ColSig.count]; omega
          · intro x; simp only [List.map_cons, List.mem_cons, ColSig.serialType]
            constructor
            · intro h'; exact Or.inl h'
            · rintro (h' | h'); exact h'; exact Or.inl h'
        | var s' n' vls' => simp only at h; cases h
      | var s n vls =>
        cases c with
        | fixed st' n' => simp only at h; cases h
        | var s' n' vls' =>
          simp only at h
          split at h
          · cases h
          · cases h
            simp only [ColSig.serialType] at hk
            subst hk
            obtain ⟨es, e1, ene, etot, ekeys⟩ := he
            obtain ⟨_, c1, cne, ctot, ckeys⟩ := hc
            refine ⟨⟨?_, by simpa [ColSig.serialType] using hd.2⟩, ?_, ?_, ?_, ?_⟩
            · intro x hx
              rcases List.mem_cons.1 hx with hx | hx
              · subst hx
                refine ⟨es, by omega, dictMerge_ne_nil _ _ ene, by rw [dictMerge_total, etot, ctot], ?_⟩
                intro k hk'
                rcases (dictMerge_keys _ _ _).1 hk' with hk' | hk'
                · exact ekeys k hk'
                · exact ckeys k hk'
              · exact hd.1 x (List.mem_cons_of_mem _ hx)
            · rintro st' ⟨a, b, c'⟩
              exact ⟨_, List.mem_cons_self .., ⟨a, b, (dictMerge_keys _ _ _).2 (Or.inr c')⟩⟩
            · rintro st' ⟨x, hx, hxa⟩
              rcases List.mem_cons.1 hx with hx | hx
              · subst hx
                obtain ⟨a, b, c'⟩ := hxa
                exact ⟨_, List.mem_cons_self .., ⟨a, b, (dictMerge_keys _ _ _).2 (Or.inl c')⟩⟩
              · exact ⟨x, List.mem_cons_of_mem _ hx, hxa⟩
            · simp only [sumCounts, ColSig.count]; omega
            · intro x; simp only [List.map_cons, List.mem_cons, ColSig.serialType]
              constructor
              · intro h'; exact Or.inl h'
              · rintro (h' | h'); exact h'; exact Or.inl h'
    · rw [if_neg hk] at h
      split at h
      · cases h
      · rename_i rest' hrest'
        cases h
        obtain ⟨a1, a2, a3, a4, a5⟩ := ih rest' c hrestWF hc hrest'
        refine ⟨⟨?_, ?_⟩, ?_, ?_, ?_, ?_⟩
        · intro x hx
          rcases List.mem_cons.1 hx with hx | hx
          · subst hx; exact he
          · exact a1.1 x hx
        · simp only [List.map_cons]
          refine List.nodup_cons.2 ⟨?_, a1.2⟩
          intro hmem
          rcases (a5 _).1 hmem with h' | h'
          · exact heNot h'
          · exact hk h'
        · intro st hst
          obtain ⟨x, hx, hxa⟩ := a2 st hst
          exact ⟨x, List.mem_cons_of_mem _ hx, hxa⟩
        · rintro st ⟨x, hx, hxa⟩
          rcases List.mem_cons.1 hx with hx | hx
          · subst hx; exact ⟨_, List.mem_cons_self .., hxa⟩
          · obtain ⟨y, hy, hya⟩ := a3 st ⟨x, hx, hxa⟩
            exact ⟨y, List.mem_cons_of_mem _ hy, hya⟩
        · simp only [sumCounts]; rw [a4]; omega
        · intro x
          simp only [List.map_cons, List.mem_cons]
          rw [a5 x]
          constructor
          · rintro (h' | h' | h'); exact Or.inl (Or.inl h'); exact Or.inl (Or.inr h'); exact Or.inr h'
          · rintro ((h' | h') | h'); exact Or.inl h'; exact Or.inr (Or.inl h'); exact Or.inr (Or.inr h')

theorem tcFold_spec : ∀ (cs d d' : List ColSig), DictWF d → (∀ c ∈ cs, ColWF c) → tcFold d cs = .ok d' →
    DictWF d' ∧ (∀ c ∈ cs, ∀ st, ColAdmits c st → DictAdmits d' st) ∧
    (∀ st, DictAdmits d st → DictAdmits d' st) ∧ sumCounts d' = sumCounts d + sumCounts cs := by
  intro cs
  induction cs with
  | nil => intro d d' hd _ h; simp only [tcFold] at h; cases h; exact ⟨hd, by simp, fun _ h => h, by simp [sumCounts]⟩
  | cons c cs ih =>
    intro d d' hd hcs h
    simp only [tcFold] at h
    split at h
    · cases h
    · rename_i d1 hd1
      obtain ⟨a1, a2, a3, a4, _⟩ := tcAdd_spec d d1 c hd (hcs c (List.mem_cons_self ..)) hd1
      obtain ⟨b1, b2, b3, b4⟩ := ih d1 d' a1 (fun x hx => hcs x (List.mem_cons_of_mem _ hx)) h
      refine ⟨b1, ?_, fun st h => b3 st (a3 st h), by rw [b4, a4]; simp only [sumCounts]; omega⟩
      intro x hx st hst
      rcases List.mem_cons.1 hx with hx | hx
      · subst hx; exact b3 st (a2 st hst)
      · exact b2 x hx st hst

theorem tableCol_spec (i : Nat) (cs : List ColSig) (tc : TableCol) (hcs : ∀ c ∈ cs, ColWF c)
    (h : tableCol i cs = .ok tc) :
    DictWF tc.sigs ∧ tc.count = sumCounts tc.sigs ∧ tc.count = sumCounts cs ∧
    (∀ c ∈ cs, ∀ st, ColAdmits c st → DictAdmits tc.sigs st) := by
  unfold tableCol at h
  split at h
  · cases h
  · rename_i d hd
    simp only at h
    split at h
    · cases h
    · cases h
      obtain ⟨a1, a2, _, a4⟩ := tcFold_spec cs [] d ⟨by simp, by simp⟩ hcs hd
      simp only [sumCounts, Nat.zero_add] at a4
      exact ⟨a1, a4.symm, rfl, a2⟩

theorem sumCounts_pos (cs : List ColSig) (hcs : ∀ c ∈ cs, ColWF c) (hne : cs ≠ []) : 1 ≤ sumCounts cs := by
  cases cs with
  | nil => exact absurd rfl hne
  | cons c rest =>
    have := (colWF_range c (hcs c (List.mem_cons_self ..))).2.2
    simp only [sumCounts]; omega

/-! ### the signature properties of one table column signature -/

theorem focused_of_admits (tc : TableCol) (hwf : DictWF tc.sigs) (st : Int) (h : DictAdmits tc.sigs st) :
    st ∈ tc.focused ∧ serialTypeSignature st ∈ tc.simplified := by
  obtain ⟨e, he, hea⟩ := h
  constructor
  · unfold TableCol.focused sortInts
    rw [(isort_perm _ _).mem_iff, List.mem_flatMap]
    refine ⟨e, he, ?_⟩
    cases e with
    | fixed t n => simp only [ColAdmits] at hea; simp [ColSig.focusedTypes, hea]
    | var s n vls => exact hea.2.2
  · unfold TableCol.simplified sortInts
    rw [(isort_perm _ _).mem_iff, List.mem_map]
    refine ⟨e, he, ?_⟩
    cases e with
    | fixed t n =>
      simp only [ColAdmits] at hea
      obtain ⟨h0, h9, _⟩ := hwf.1 _ he
      subst hea
      simp only [ColSig.serialType]
      unfold serialTypeSignature
      rw [if_neg (by omega)]
    | var s n vls => exact hea.2.1.symm

theorem simplified_facts (tc : TableCol) (hwf : DictWF tc.sigs) :
    (∀ x ∈ tc.simplified, -2 ≤ x ∧ x ≤ 9) ∧ tc.simplified.Nodup ∧ (tc.sigs ≠ [] → tc.simplified ≠ []) := by
  have hp : tc.simplified.Perm (tc.sigs.map ColSig.serialType) := isort_perm _ _
  refine ⟨?_, hp.nodup_iff.2 hwf.2, ?_⟩
  · intro x hx
    obtain ⟨e, he, hex⟩ := List.mem_map.1 (hp.mem_iff.1 hx)
    have := colWF_range e (hwf.1 e he)
    subst hex; exact ⟨this.1, this.2.1⟩
  · intro hne hs
    have := hp.length_eq
    rw [hs] at this
    simp only [List.length_nil, List.length_map] at this
    exact hne (List.length_eq_zero_iff.1 this.symm)

theorem simplifiedProb_sum (tc : TableCol) (hcount : tc.count = sumCounts tc.sigs) :
    (tc.simplifiedProb.map (·.2.1)).sum = tc.count ∧ ∀ e ∈ tc.simplifiedProb, e.2.2 = tc.count := by
  have hp : tc.simplifiedProb.Perm (tc.sigs.map fun c => (c.serialType, c.count, tc.count)) := isort_perm _ _
  constructor
  · rw [(hp.map _).sum_nat, hcount]
    simp only [List.map_map]
    generalize tc.sigs = d
    induction d with
    | nil => rfl
    | cons c d ih => simp only [List.map_cons, List.sum_cons, sumCounts, Function.comp]; rw [← ih]; rfl
  · intro e he
    obtain ⟨c, _, hc⟩ := List.mem_map.1 (hp.mem_iff.1 he)
    subst hc; rfl

theorem focusedProb_sum (tc : TableCol) (hwf : DictWF tc.sigs) (hcount : tc.count = sumCounts tc.sigs) :
    (tc.focusedProb.map (·.2.1)).sum = tc.count ∧ ∀ e ∈ tc.focusedProb, e.2.2 = tc.count := by
  have hp : tc.focusedProb.Perm ((tc.sigs.flatMap ColSig.focusedCounts).map fun e => (e.1, e.2, tc.count)) :=
    isort_perm _ _
  constructor
  · rw [(hp.map _).sum_nat]
    simp only [List.map_map]
    have hfun : ((fun x : Int × Nat × Nat => x.2.1) ∘ fun e : Int × Nat => (e.1, e.2, tc.count)) = fun e => e.2 := rfl
    rw [hfun, hcount]
    have hall : ∀ e ∈ tc.sigs, ColWF e := hwf.1
    generalize tc.sigs = d at hall
    induction d with
    | nil => rfl
    | cons c d ih =>
      have hc := hall c (List.mem_cons_self ..)
      have ih' := ih (fun x hx => hall x (List.mem_cons_of_mem _ hx))
      simp only [List.flatMap_cons, List.map_append, List.sum_append, sumCounts]
      rw [ih']
      congr 1
      cases c with
      | fixed t n => simp [ColSig.focusedCounts, ColSig.count]
      | var s n vls =>
        obtain ⟨_, _, _, htot, _⟩ := hc
        simp only [ColSig.focusedCounts, ColSig.count]
        rw [← htot]
        rfl
  · intro e he
    obtain ⟨c, _, hc⟩ := List.mem_map.1 (hp.mem_iff.1 he)
    subst hc; rfl

/-! ### positional lemmas -/

theorem forall₂_left {α β : Type} {R : α → β → Prop} : ∀ {l1 : List α} {l2 : List β}, List.Forall₂ R l1 l2 →
    ∀ (i : Nat) (a : α), l1[i]? = some a → ∃ b, l2[i]? = some b ∧ R a b := by
  intro l1 l2 h
  induction h with
  | nil => intro i a ha; simp at ha
  | cons hab _ ih =>
    intro i a ha
    cases i with
    | zero => simp only [List.getElem?_cons_zero, Option.some.injEq] at ha; subst ha; exact ⟨_, by simp, hab⟩
    | succ i => simp only [List.getElem?_cons_succ] at ha ⊢; exact ih i a ha

theorem forall₂_right {α β : Type} {R : α → β → Prop} : ∀ {l1 : List α} {l2 : List β}, List.Forall₂ R l1 l2 →
    ∀ (i : Nat) (b : β), l2[i]? = some b → ∃ a, l1[i]? = some a ∧ R a b := by
  intro l1 l2 h
  induction h with
  | nil => intro i b hb; simp at hb
  | cons hab _ ih =>
    intro i b hb
    cases i with
    | zero => simp only [List.getElem?_cons_zero, Option.some.injEq] at hb; subst hb; exact ⟨_, by simp, hab⟩
    | succ i => simp only [List.getElem?_cons_succ] at hb ⊢; exact ih i b hb

theorem forall₂_of_index {α β : Type} {R : α → β → Prop} : ∀ (l1 : List α) (l2 : List β), l1.length = l2.length →
    (∀ (i : Nat) (a : α) (b : β), l1[i]? = some a → l2[i]? = some b → R a b) → List.Forall₂ R l1 l2 := by
  intro l1
  induction l1 with
  | nil => intro l2 hl _; cases l2 with | nil => exact List.Forall₂.nil | cons => simp at hl
  | cons a l1 ih =>
    intro l2 hl h
    cases l2 with
    | nil => simp at hl
    | cons b l2 =>
      refine List.Forall₂.cons (h 0 a b (by simp) (by simp)) (ih l2 (by simpa using hl) ?_)
      intro i a' b' ha hb
      exact h (i + 1) a' b' (by simpa using ha) (by simpa using hb)

theorem maxCols_ge (rows : List RowSig) (rs : RowSig) (h : rs ∈ rows) : rs.cols.length ≤ maxCols rows := by
  induction rows with
  | nil => cases h
  | cons x rest ih =>
    simp only [maxCols]
    rcases List.mem_cons.1 h with h | h
    · subst h; exact Nat.le_max_left ..
    · exact Nat.le_trans (ih h) (Nat.le_max_right ..)

theorem maxCols_witness (rows : List RowSig) (i : Nat) (h : i < maxCols rows) :
    ∃ rs ∈ rows, i < rs.cols.length := by
  induction rows with
  | nil => simp [maxCols] at h
  | cons x rest ih =>
    simp only [maxCols] at h
    by_cases hx : i < x.cols.length
    · exact ⟨x, List.mem_cons_self .., hx⟩
    · have : i < maxCols rest := by omega
      obtain ⟨rs, hrs, hl⟩ := ih this
      exact ⟨rs, List.mem_cons_of_mem _ hrs, hl⟩

theorem columnOf_mem (rows : List RowSig) (i : Nat) (c : ColSig) :
    c ∈ columnOf rows i ↔ ∃ rs ∈ rows, rs.cols[i]? = some c := by
  unfold columnOf
  rw [List.mem_filterMap]

theorem tableColsFrom_spec (rows : List RowSig) : ∀ (is : List Nat) (tcs : List TableCol),
    tableColsFrom rows is = .ok tcs →
    List.Forall₂ (fun i tc => tableCol i (columnOf rows i) = .ok tc) is tcs := by
  intro is
  induction is with
  | nil => intro tcs h; simp only [tableColsFrom] at h; cases h; exact List.Forall₂.nil
  | cons i is ih =>
    intro tcs h
    simp only [tableColsFrom] at h
    split at h
    · cases h
    · rename_i tc htc
      split at h
      · cases h
      · rename_i tcs' htcs'
        cases h
        exact List.Forall₂.cons htc (ih tcs' htcs')

/-! ### what a successful `build` means -/

structure BuildInv (inp : Input) (vs : List (List Rec)) (sig : Sig) (a : Acc) : Prop where
  run : runVersions inp.colAffs.length Acc.init vs = .ok a
  schema : (if inp.kind = .ordinary then schemaCols inp.colAffs else .ok []) = .ok sig.schema
  unique : sig.unique = a.unique
  total : sig.total = a.total
  cols : (a.total = 0 ∧ sig.tableCols = []) ∨
    tableColsFrom a.rows (List.range (maxCols a.rows)) = .ok sig.tableCols
  ncols : sig.numberOfColumns = max sig.schema.length sig.tableCols.length
  same : sig.schema.length ≠ 0 → sig.tableCols.length ≠ 0 → sig.schema.length = sig.tableCols.length

theorem finish_inv (schema : List SchemaCol) (rows : List RowSig) (tcs : List TableCol) (total unique : Nat)
    (altered : Option Bool) (bd : Option (List (Nat × Nat × Nat × Nat))) (sig : Sig)
    (h : finish schema rows tcs total unique altered bd = .ok sig) :
    sig.schema = schema ∧ sig.tableCols = tcs ∧ sig.total = total ∧ sig.unique = unique ∧
    sig.numberOfColumns = max schema.length tcs.length ∧
    (schema.length ≠ 0 → tcs.length ≠ 0 → schema.length = tcs.length) := by
  unfold finish at h
  split at h
  · cases h
  · rename_i hc
    cases h
    refine ⟨rfl, rfl, rfl, rfl, rfl, ?_⟩
    intro h1 h2
    by_contra h3
    exact hc ⟨h1, h2, h3⟩

theorem build_inv (inp : Input) (vs : List (List Rec)) (sig : Sig) (hv : inp.versions = some vs)
    (hk : inp.kind ≠ .virtualTable) (hb : build inp = .ok sig) : ∃ a, BuildInv inp vs sig a := by
  unfold build at hb
  split at hb
  · cases hb
  · rename_i schema hschema
    rw [if_neg hk] at hb
    split at hb
    · rename_i hnone; rw [hv] at hnone; cases hnone
    · rename_i versions hsome
      rw [hv] at hsome
      cases hsome
      split at hb
      · cases hb
      · split at hb
        · cases hb
        · rename_i a ha
          split at hb
          · cases hb
          · rename_i n _
            split at hb
            · cases hb
            · simp only at hb
              split at hb
              · split at hb
                · cases hb
                · rename_i hz
                  obtain ⟨f1, f2, f3, f4, f5, f6⟩ := finish_inv _ _ _ _ _ _ _ _ hb
                  have hz' : a.total = 0 := by
                    by_contra h0; exact hz (Or.inl h0)
                  exact ⟨a, ⟨ha, by rw [f1]; exact hschema, f4, f3, Or.inl ⟨hz', f2⟩, by rw [f5, f1, f2], by rw [f1, f2]; exact f6⟩⟩
              · split at hb
                · cases hb
                · rename_i tcs htcs
                  obtain ⟨f1, f2, f3, f4, f5, f6⟩ := finish_inv _ _ _ _ _ _ _ _ hb
                  exact ⟨a, ⟨ha, by rw [f1]; exact hschema, f4, f3, Or.inr (by rw [f2]; exact htcs), by rw [f5, f1, f2],
                    by rw [f1, f2]; exact f6⟩⟩

/-- everything the soundness theorems need about one examined row -/
theorem row_admitted (inp : Input) (vs : List (List Rec)) (sig : Sig) (hv : inp.versions = some vs)
    (hk : inp.kind ≠ .virtualTable) (hb : build inp = .ok sig) (hd : DigestFaithful vs.flatten)
    (r : Rec) (hr : r ∈ vs.flatten) :
    r.types.length ≤ sig.tableCols.length ∧
    ∀ (i : Nat) (t : Int), r.types[i]? = some t →
      ((0 ≤ t ∧ t ≤ 9) ∨ 12 ≤ t) ∧
      ∃ tc, sig.tableCols[i]? = some tc ∧ DictWF tc.sigs ∧ tc.sigs ≠ [] ∧
        t ∈ tc.focused ∧ serialTypeSignature t ∈ tc.simplified := by
  obtain ⟨a, binv⟩ := build_inv inp vs sig hv hk hb
  have ainv : AccInv a vs.flatten := by
    simpa using runVersions_inv _ vs Acc.init a [] accInv_init binv.run
  obtain ⟨rs, hrs, hadm⟩ := all_covered a _ ainv hd r hr
  have hlen : rs.cols.length = r.types.length := hadm.length_eq
  rcases binv.cols with ⟨ht0, _⟩ | htcs
  · have := ainv.tot
    rw [ht0] at this
    have hnil : vs.flatten = [] := List.length_eq_zero_iff.1 this.symm
    rw [hnil] at hr; cases hr
  · have hf := tableColsFrom_spec _ _ _ htcs
    have hl : sig.tableCols.length = maxCols a.rows := by
      have := hf.length_eq; simpa using this.symm
    have hle : r.types.length ≤ maxCols a.rows := hlen ▸ maxCols_ge _ _ hrs
    refine ⟨by omega, ?_⟩
    intro i t hit
    obtain ⟨c, hc, hca⟩ := forall₂_right hadm i t hit
    have hcwf : ColWF c := ((ainv.rowsWF rs hrs).1 c (List.mem_of_getElem? hc)).1
    have hi : i < r.types.length := by
      by_contra hge
      rw [List.getElem?_eq_none (by omega)] at hit; cases hit
    have hrange : (List.range (maxCols a.rows))[i]? = some i := by
      rw [List.getElem?_range (by omega)]
    obtain ⟨tc, htc, htcb⟩ := forall₂_left hf i i hrange
    have hcolwf : ∀ x ∈ columnOf a.rows i, ColWF x := by
      intro x hx
      obtain ⟨rs', hrs', hx'⟩ := (columnOf_mem _ _ _).1 hx
      exact ((ainv.rowsWF rs' hrs').1 x (List.mem_of_getElem? hx')).1
    obtain ⟨t1, t2, t3, t4⟩ := tableCol_spec i _ tc hcolwf htcb
    have hcmem : c ∈ columnOf a.rows i := (columnOf_mem _ _ _).2 ⟨rs, hrs, hc⟩
    have hdad : DictAdmits tc.sigs t := t4 c hcmem t hca
    have hne : tc.sigs ≠ [] := by
      obtain ⟨e, he, _⟩ := hdad
      intro hnil; rw [hnil] at he; cases he
    obtain ⟨g1, g2⟩ := focused_of_admits tc t1 t hdad
    refine ⟨?_, tc, htc, t1, hne, g1, g2⟩
    cases c with
    | fixed t' n =>
      simp only [ColAdmits] at hca
      obtain ⟨h0, h9, _⟩ := hcwf
      subst hca; exact Or.inl ⟨h0, h9⟩
    | var s n vls => exact Or.inr hca.1

/-! ### the property theorems -/

theorem focused_sound (inp : Input) (vs : List (List Rec)) (sig : Sig) (hv : inp.versions = some vs)
    (hk : inp.kind ≠ .virtualTable) (hb : build inp = .ok sig) (hd : DigestFaithful vs.flatten) :
    ∀ r ∈ vs.flatten, ∀ (i : Nat) (t : Int), r.types[i]? = some t →
      ∃ col, sig.focused[i]? = some col ∧ t ∈ col := by
  intro r hr i t hit
  obtain ⟨_, tc, htc, _, _, hf, _⟩ := (row_admitted inp vs sig hv hk hb hd r hr).2 i t hit
  exact ⟨tc.focused, by simp [Sig.focused, htc], hf⟩

theorem simplified_sound (inp : Input) (vs : List (List Rec)) (sig : Sig) (hv : inp.versions = some vs)
    (hk : inp.kind ≠ .virtualTable) (hb : build inp = .ok sig) (hd : DigestFaithful vs.flatten) :
    ∀ r ∈ vs.flatten, ∀ (i : Nat) (t : Int), r.types[i]? = some t →
      ∃ col, sig.simplified[i]? = some col ∧ serialTypeSignature t ∈ col := by
  intro r hr i t hit
  obtain ⟨_, tc, htc, _, _, _, hs⟩ := (row_admitted inp vs sig hv hk hb hd r hr).2 i t hit
  exact ⟨tc.simplified, by simp [Sig.simplified, htc], hs⟩

theorem counts (inp : Input) (vs : List (List Rec)) (sig : Sig) (hv : inp.versions = some vs)
    (hk : inp.kind ≠ .virtualTable) (hb : build inp = .ok sig) :
    sig.unique = (vs.flatten.map (·.digest)).dedup.length ∧ sig.total = vs.flatten.length := by
  obtain ⟨a, binv⟩ := build_inv inp vs sig hv hk hb
  have ainv : AccInv a vs.flatten := by
    simpa using runVersions_inv _ vs Acc.init a [] accInv_init binv.run
  exact ⟨by rw [binv.unique]; exact unique_eq_dedup a _ ainv, by rw [binv.total]; exact ainv.tot⟩

/-- every table column signature of a built signature: well-formed, non-empty, count = Σ -/
theorem tableCols_wf (inp : Input) (vs : List (List Rec)) (sig : Sig) (hv : inp.versions = some vs)
    (hk : inp.kind ≠ .virtualTable) (hb : build inp = .ok sig) :
    ∀ tc ∈ sig.tableCols, DictWF tc.sigs ∧ tc.count = sumCounts tc.sigs ∧ 1 ≤ tc.count := by
  obtain ⟨a, binv⟩ := build_inv inp vs sig hv hk hb
  have ainv : AccInv a vs.flatten := by
    simpa using runVersions_inv _ vs Acc.init a [] accInv_init binv.run
  intro tc htc
  rcases binv.cols with ⟨_, hnil⟩ | htcs
  · rw [hnil] at htc; cases htc
  · have hf := tableColsFrom_spec _ _ _ htcs
    obtain ⟨j, hj⟩ := List.getElem?_of_mem htc
    obtain ⟨i, hi, hib⟩ := forall₂_right hf j tc hj
    have hlt : i < maxCols a.rows := by
      have hjl : j < (List.range (maxCols a.rows)).length := by
        by_contra hge
        rw [List.getElem?_eq_none (by omega)] at hi; cases hi
      rw [List.getElem?_range (by simpa using hjl)] at hi
      cases hi
      simpa using hjl
    have hcolwf : ∀ x ∈ columnOf a.rows i, ColWF x := by
      intro x hx
      obtain ⟨rs', hrs', hx'⟩ := (columnOf_mem _ _ _).1 hx
      exact ((ainv.rowsWF rs' hrs').1 x (List.mem_of_getElem? hx')).1
    obtain ⟨t1, t2, t3, _⟩ := tableCol_spec i _ tc hcolwf hib
    obtain ⟨rs, hrs, hl⟩ := maxCols_witness _ _ hlt
    have hne : columnOf a.rows i ≠ [] := by
      have : rs.cols[i] ∈ columnOf a.rows i :=
        (columnOf_mem _ _ _).2 ⟨rs, hrs, List.getElem?_eq_getElem hl⟩
      intro hnil; rw [hnil] at this; cases this
    exact ⟨t1, t2, by rw [t3]; exact sumCounts_pos _ hcolwf hne⟩

/-- exact: numerators add up to the common denominator, which is not zero -/
theorem probabilities_sum_one (inp : Input) (vs : List (List Rec)) (sig : Sig) (hv : inp.versions = some vs)
    (hk : inp.kind ≠ .virtualTable) (hb : build inp = .ok sig) :
    ∀ tc ∈ sig.tableCols, tc.count ≠ 0 ∧
      (tc.simplifiedProb.map (·.2.1)).sum = tc.count ∧ (∀ e ∈ tc.simplifiedProb, e.2.2 = tc.count) ∧
      (tc.focusedProb.map (·.2.1)).sum = tc.count ∧ (∀ e ∈ tc.focusedProb, e.2.2 = tc.count) := by
  intro tc htc
  obtain ⟨w1, w2, w3⟩ := tableCols_wf inp vs sig hv hk hb tc htc
  obtain ⟨s1, s2⟩ := simplifiedProb_sum tc w2
  obtain ⟨f1, f2⟩ := focusedProb_sum tc w1 w2
  exact ⟨by omega, s1, s2, f1, f2⟩

/-! ### the regular expression -/

/-- no column holds the empty blob (serial type 12) unless its simplified signature also lists
text: the hypothesis the swapped blob/text alternatives force -/
def NoLoneEmptyBlob (simplified : List (List Int)) (types : List Int) : Prop :=
  ∀ (i : Nat) (col : List Int), types[i]? = some 12 → simplified[i]? = some col → (-2 : Int) ∈ col

theorem genColumns_admits : ∀ (cols : List (List Int)) (ts : List Int),
    List.Forall₂ (fun c t => ∃ p, Regex.genColumn c = .ok p ∧ Proofs.Regex.Admits p (Spec.putVarint t.toNat)) cols ts →
    ∃ ps, Regex.genColumns cols = .ok ps ∧
      List.Forall₂ Proofs.Regex.Admits ps (ts.map fun t => Spec.putVarint t.toNat) := by
  intro cols ts h
  induction h with
  | nil => exact ⟨[], rfl, List.Forall₂.nil⟩
  | cons hab _ ih =>
    obtain ⟨p, hp, hpa⟩ := hab
    obtain ⟨ps, hps, hpsa⟩ := ih
    refine ⟨p :: ps, ?_, List.Forall₂.cons hpa hpsa⟩
    simp only [Regex.genColumns, hp, hps]

theorem regex_admits_partial (inp : Input) (vs : List (List Rec)) (sig : Sig) (hv : inp.versions = some vs)
    (hk : inp.kind ≠ .virtualTable) (hb : build inp = .ok sig) (hd : DigestFaithful vs.flatten)
    (r : Rec) (hr : r ∈ vs.flatten) (hfull : r.types.length = sig.numberOfColumns)
    (h56 : ∀ t ∈ r.types, t < 2 ^ 56) (hlone : NoLoneEmptyBlob sig.simplified r.types) :
    ∃ p, Regex.genSignature sig.simplified false = .ok p ∧
      Regex.fullMatch p (Proofs.Regex.header r.types) = true := by
  obtain ⟨hle, hcols⟩ := row_admitted inp vs sig hv hk hb hd r hr
  obtain ⟨a, binv⟩ := build_inv inp vs sig hv hk hb
  have hlen : sig.simplified.length = r.types.length := by
    have h1 := binv.ncols
    simp only [Sig.simplified, List.length_map]
    omega
  have hall : List.Forall₂ (fun c t => ∃ p, Regex.genColumn c = .ok p ∧
      Proofs.Regex.Admits p (Spec.putVarint t.toNat)) sig.simplified r.types := by
    apply forall₂_of_index _ _ hlen
    intro i c t hc ht
    obtain ⟨hvalid, tc, htc, hwf, hne, _, hs⟩ := hcols i t ht
    have hc' : c = tc.simplified := by
      simp only [Sig.simplified, List.getElem?_map, htc, Option.map_some, Option.some.injEq] at hc
      exact hc.symm
    obtain ⟨q1, q2, q3⟩ := simplified_facts tc hwf
    subst hc'
    exact Proofs.Regex.genColumn_admits _ (q3 hne) q1 q2 t hvalid (h56 t (List.mem_of_getElem? ht)) hs
      (fun h12 => hlone i _ (h12 ▸ ht) hc)
  obtain ⟨ps, hps, hpsa⟩ := genColumns_admits _ _ hall
  refine ⟨.seq ps, by simp only [Regex.genSignature, Bool.false_eq_true, if_false, hps], ?_⟩
  have := Proofs.Regex.fullMatch_of_admits ps _ hpsa
  simpa [Proofs.Regex.header, List.flatMap_def] using this

/-- the header handed to the matcher is SQLite's: bytes, `Spec.varintLen` bytes per serial type
(`Proofs.Codec.spec_put_bytes`, `spec_put_length`) -/
theorem header_bytes (types : List Int) :
    (∀ x ∈ Proofs.Regex.header types, x < 256) ∧
    (Proofs.Regex.header types).length = (types.map fun t => Spec.varintLen t.toNat).sum := by
  constructor
  · intro x hx
    obtain ⟨t, _, ht⟩ := List.mem_flatMap.1 hx
    exact Proofs.Codec.spec_put_bytes' _ x ht
  · induction types with
    | nil => rfl
    | cons t ts ih =>
      simp only [Proofs.Regex.header, List.flatMap_cons, List.length_append, List.map_cons, List.sum_cons,
        Proofs.Codec.spec_put_length]
      simp only [Proofs.Regex.header] at ih
      rw [ih]

/-- the full statement: every full-width examined row full-matches the generated pattern -/
def RegexAdmitsFull : Prop :=
  ∀ (inp : Input) (vs : List (List Rec)) (sig : Sig), inp.versions = some vs → inp.kind ≠ .virtualTable →
    build inp = .ok sig → DigestFaithful vs.flatten →
    ∀ r ∈ vs.flatten, r.types.length = sig.numberOfColumns → (∀ t ∈ r.types, t < 2 ^ 56) →
      ∃ p, Regex.genSignature sig.simplified false = .ok p ∧
        Regex.fullMatch p (Proofs.Regex.header r.types) = true

/-- witness: `CREATE TABLE t (b BLOB)` holding one row whose value is the empty blob -/
def witnessInput : Input := ⟨.ordinary, [.blob], some [[⟨1, [12]⟩]]⟩

theorem witness_builds : ∃ sig, build witnessInput = .ok sig ∧ sig.simplified = [[-1]] ∧ sig.numberOfColumns = 1 :=
  ⟨_, rfl, rfl, rfl⟩

theorem regex_admits_counterexample : ¬ RegexAdmitsFull := by
  intro h
  obtain ⟨sig, hsig, hsimp, hn⟩ := witness_builds
  have hdf : DigestFaithful ([[(⟨1, [12]⟩ : Rec)]] : List (List Rec)).flatten := by
    intro r hr r' hr' _
    simp only [List.flatten_cons, List.flatten_nil, List.append_nil, List.mem_singleton] at hr hr'
    rw [hr, hr']
  obtain ⟨p, hp, hm⟩ := h witnessInput _ sig rfl (by decide) hsig hdf ⟨1, [12]⟩ (by simp)
    (by rw [hn]; rfl) (by intro t ht; simp only [List.mem_singleton] at ht; subst ht; decide)
  rw [hsimp] at hp
  have hp0 : Regex.genSignature [[-1]] false = .ok (.seq [Proofs.Regex.blobPat]) := rfl
  rw [hp0] at hp
  cases hp
  have : Regex.fullMatch (.seq [Proofs.Regex.blobPat]) (Proofs.Regex.header [12]) = false := by rfl
  rw [this] at hm
  cases hm

/-! ### tables without rows: the schema-derived signature -/

theorem schemaCols_spec : ∀ (affs : List Affinity) (l : List SchemaCol), schemaCols affs = .ok l →
    List.Forall₂ (fun a sc => sc.affinity = a ∧ recommended a = .ok sc.recommended ∧ complete a = .ok sc.complete)
      affs l := by
  intro affs
  induction affs with
  | nil => intro l h; simp only [schemaCols] at h; cases h; exact List.Forall₂.nil
  | cons a as ih =>
    intro l h
    unfold schemaCols at h
    split at h
    · rename_i r c hr hc
      split at h
      · rename_i rest hrest
        cases h
        exact List.Forall₂.cons ⟨rfl, hr, hc⟩ (ih rest hrest)
      · cases h
    · cases h
    · cases h

theorem schema_fallback (inp : Input) (vs : List (List Rec)) (sig : Sig) (hv : inp.versions = some vs)
    (hk : inp.kind = .ordinary) (hb : build inp = .ok sig) (hempty : vs.flatten = []) :
    sig.tableCols = [] ∧ sig.carvingSignature = sig.recommendedSchema ∧
    sig.numberOfColumns = inp.colAffs.length ∧
    List.Forall₂ (fun a rec => recommended a = .ok rec) inp.colAffs sig.recommendedSchema := by
  obtain ⟨a, binv⟩ := build_inv inp vs sig hv (by rw [hk]; decide) hb
  have ainv : AccInv a vs.flatten := by
    simpa using runVersions_inv _ vs Acc.init a [] accInv_init binv.run
  have hrows : a.rows = [] := ainv.emp hempty
  have htc : sig.tableCols = [] := by
    rcases binv.cols with ⟨_, h⟩ | h
    · exact h
    · rw [hrows] at h
      simp only [maxCols, List.range_zero, tableColsFrom] at h
      injection h with h
      exact h.symm
  have hs := binv.schema
  rw [if_pos hk] at hs
  have hf := schemaCols_spec _ _ hs
  refine ⟨htc, by simp [Sig.carvingSignature, htc], ?_, ?_⟩
  · rw [binv.ncols, htc, hf.length_eq]; simp
  · simp only [Sig.recommendedSchema]
    rw [List.forall₂_map_right_iff]
    exact hf.imp (fun _ _ h => h.2.1)

/-- the schema-derived alternatives are storable under the column's affinity, include the class
the affinity converts to, and `complete_signature` is exactly what the affinity can store -/
theorem schema_signature_consistent (a : Affinity) (r : List Int) (h : recommended a = .ok r) :
    (∀ t ∈ r, Spec.affinityStores a t = true) ∧ (∀ t ∈ Spec.affinityPrefers a, t ∈ r) ∧ r ≠ [] := by
  cases a <;> simp only [recommended] at h <;> cases h <;> decide

theorem complete_eq_spec (a : Affinity) (c : List Int) (h : complete a = .ok c) (t : Int) :
    t ∈ c ↔ Spec.affinityStores a t = true := by
  cases a <;> simp only [complete] at h <;> cases h <;>
    simp only [Spec.affinityStores, List.mem_cons, List.not_mem_nil, or_false, decide_eq_true_eq] <;> omega

end SqliteDissect.Proofs.Signature
