/-
The page census of `Version.pages` (file/version.py), property C06 (census half).

`pagesCensus` (Model/Database.lean) and `versionCensus` (Model/Wal.lean) are refactored into
"build the list of sources; fold `dictInsert` over it; run the two checks", and the accepted
dictionaries are characterised.
-/
import SqliteDissect.Proofs.Wal

namespace SqliteDissect.Proofs.Census
open SqliteDissect SqliteDissect.Model
open SqliteDissect.Proofs.Wal

/-! ### the pure pieces -/

/-- one dictionary assignment `pages[number] = class` -/
def ins (d : List (Nat × String)) (e : Nat × String) : List (Nat × String) := dictInsert d e.1 e.2

/-- the dictionary Python builds from a sequence of assignments -/
def buildDict (sources : List (Nat × String)) : List (Nat × String) := sources.foldl ins []

/-- what the freelist contributes, in insertion order: each trunk, then its leaves -/
def freelistSources (fl : List FreelistTrunk) : List (Nat × String) :=
  fl.flatMap fun t => (t.number, "FREELIST_TRUNK") :: t.leaves.map fun l => (l, "FREELIST_LEAF")

/-- what the pointer-map pages contribute -/
def ptrmapSources (pm : List PtrmapPage) : List (Nat × String) :=
  pm.map fun p => (p.number, "POINTER_MAP")

/-- what the b-trees named by the schema contribute (interior, leaf and overflow pages of each
tree, trees in schema order) -/
def treeSources (trees : List (List BPage)) : List (Nat × String) :=
  trees.flatMap treePageNumbers

/-- everything `Version.pages` inserts, in insertion order:
freelist, pointer map, schema b-tree pages, b-trees of the schema entries -/
def censusSources (fl : List FreelistTrunk) (pm : List PtrmapPage) (schemaPages : List (Nat × String))
    (trees : List (List BPage)) : List (Nat × String) :=
  freelistSources fl ++ ptrmapSources pm ++ schemaPages ++ treeSources trees

/-- the two checks at the end of `Version.pages`: the number of keys equals the database size,
and every page number 1..size is a key -/
def censusChecks (dbSize : Nat) (d : List (Nat × String)) : Bool :=
  decide (d.length = dbSize) && (List.range dbSize).all (fun i => d.any (fun e => decide (e.1 = i + 1)))

/-- checks + result (`sizeExact`: the size in pages is a whole number) -/
def censusTail (sizeExact : Bool) (dbSize : Nat) (d : List (Nat × String)) : Py (List (Nat × String)) :=
  if sizeExact && censusChecks dbSize d then .ok d else .error .parseError

/-- `Version.pages` as "parse the trees; build sources; fold; checks" -/
def censusOf (sizeExact : Bool) (dbSize : Nat) (fl : List FreelistTrunk) (pm : List PtrmapPage)
    (schema : MasterSchema) (v : VersionIf) (frames : Nat) : Py (List (Nat × String)) :=
  match schema.rootNumbers.mapM (getBTreeRoot v frames) with
  | .error e => .error e
  | .ok trees => censusTail sizeExact dbSize (buildDict (censusSources fl pm schema.pages trees))

/-! ### refactoring lemmas -/

theorem fold_freelist (fl : List FreelistTrunk) : ∀ d : List (Nat × String),
    fl.foldl (fun d t =>
      t.leaves.foldl (fun d l => dictInsert d l "FREELIST_LEAF") (dictInsert d t.number "FREELIST_TRUNK")) d
      = (freelistSources fl).foldl ins d := by
  induction fl with
  | nil => intro d; rfl
  | cons t ts ih =>
    intro d
    rw [List.foldl_cons, ih]
    simp only [freelistSources, List.flatMap_cons, List.foldl_append, List.foldl_cons, List.foldl_map]
    rfl

theorem fold_ptrmap (pm : List PtrmapPage) (d : List (Nat × String)) :
    pm.foldl (fun d p => dictInsert d p.number "POINTER_MAP") d = (ptrmapSources pm).foldl ins d := by
  simp only [ptrmapSources, List.foldl_map]; rfl

theorem bind_ok {α β : Type} (a : α) (k : α → Py β) : (Except.ok a >>= k) = k a := rfl

theorem foldlM_mapM {α β δ : Type} (f : α → Py β) (g : δ → β → δ) (rs : List α) : ∀ d : δ,
    rs.foldlM (fun d r => do
      let t ← f r
      pure (g d t)) d
    = match rs.mapM f with
      | .error e => .error e
      | .ok ts => .ok (ts.foldl g d) := by
  induction rs with
  | nil => intro d; rfl
  | cons r rs ih =>
    intro d
    rw [List.foldlM_cons, List.mapM_cons]
    cases hf : f r with
    | error e => rfl
    | ok t =>
      rw [bind_ok, bind_ok]
      show List.foldlM _ (g d t) rs = _
      rw [ih]
      cases hm : List.mapM f rs with
      | error e => rfl
      | ok ts => rfl

theorem foldl_treeSources (trees : List (List BPage)) : ∀ d : List (Nat × String),
    trees.foldl (fun d t => (treePageNumbers t).foldl
      (fun (d : List (Nat × String)) (pn : Nat × String) => dictInsert d pn.1 pn.2) d) d
      = (treeSources trees).foldl ins d := by
  induction trees with
  | nil => intro d; rfl
  | cons t ts ih =>
    intro d
    rw [List.foldl_cons, ih]
    simp only [treeSources, List.flatMap_cons, List.foldl_append]
    rfl

theorem fold_trees (f : Nat → Py (List BPage)) (rs : List Nat) (d : List (Nat × String)) :
    rs.foldlM (fun d r => do
      let t ← f r
      pure ((treePageNumbers t).foldl (fun (d : List (Nat × String)) (pn : Nat × String) => dictInsert d pn.1 pn.2) d)) d
    = match rs.mapM f with
      | .error e => .error e
      | .ok trees => .ok ((treeSources trees).foldl ins d) := by
  rw [foldlM_mapM f (fun d t => (treePageNumbers t).foldl
      (fun (d : List (Nat × String)) (pn : Nat × String) => dictInsert d pn.1 pn.2) d)]
  cases List.mapM f rs with
  | error e => rfl
  | ok trees => simp only [foldl_treeSources]

theorem tail_eq (sizeExact : Bool) (dbSize : Nat) (d : List (Nat × String)) :
    (if ¬ sizeExact ∨ d.length ≠ dbSize then (.error .parseError : Py (List (Nat × String)))
     else if (List.range dbSize).any (fun i => ¬ d.any (·.1 = i + 1)) then .error .parseError
     else pure d) = censusTail sizeExact dbSize d := by
  unfold censusTail censusChecks
  cases sizeExact
  · simp
  · by_cases hl : d.length = dbSize
    · by_cases ha : (List.range dbSize).any (fun i => ¬ d.any (·.1 = i + 1)) = true
      · have hn : ((List.range dbSize).all fun i => d.any fun e => decide (e.1 = i + 1)) = false := by
          rw [List.all_eq_false]
          rw [List.any_eq_true] at ha
          obtain ⟨i, hi, h⟩ := ha
          refine ⟨i, hi, ?_⟩
          rw [decide_eq_true_eq] at h
          exact h
        rw [if_neg (by simp [hl]), if_pos ha, hn]
        simp
      · have hn : ((List.range dbSize).all fun i => d.any fun e => decide (e.1 = i + 1)) = true := by
          rw [List.all_eq_true]
          intro i hi
          rw [List.any_eq_true] at ha
          have := fun h => ha ⟨i, hi, h⟩
          rw [decide_eq_true_eq] at this
          exact Classical.not_not.mp this
        rw [if_neg (by simp [hl]), if_neg ha, hn]
        simp [hl]; rfl
    · rw [if_pos (Or.inr hl)]
      simp [hl]

/-- **refactoring lemma**, database: `pagesCensus` is "build sources; fold; checks" -/
theorem pagesCensus_eq (db : Database) (v : VersionIf) (frames : Nat) :
    pagesCensus db v frames
      = censusOf db.dbSize.exact db.dbSize.floor db.freelist db.ptrmap db.schema v frames := by
  unfold pagesCensus censusOf
  simp only [fold_freelist, fold_ptrmap]
  have h3 : ∀ d : List (Nat × String),
      db.schema.pages.foldl (fun d pn => dictInsert d pn.1 pn.2) d = db.schema.pages.foldl ins d := fun _ => rfl
  rw [h3, fold_trees]
  cases hm : List.mapM (getBTreeRoot v frames) db.schema.rootNumbers with
  | error e => rfl
  | ok trees =>
    simp only [bind, Except.bind]
    rw [tail_eq]
    simp only [buildDict, censusSources, List.foldl_append]

/-- **refactoring lemma**, any version: `versionCensus` is "observe the schema; build sources;
fold; checks" -/
theorem versionCensus_eq (ver : Version) (v : VersionIf) (frames : Nat) :
    versionCensus ver v frames
      = match observedSchema ver v frames with
        | .error e => .error e
        | .ok rs => censusOf ver.sizeExact ver.dbSize ver.freelist ver.ptrmap rs.2 v frames := by
  unfold versionCensus censusOf
  cases ho : observedSchema ver v frames with
  | error e => rfl
  | ok rs =>
    obtain ⟨rt, schema⟩ := rs
    rw [bind_ok]
    simp only [fold_freelist, fold_ptrmap]
    have h3 : ∀ d : List (Nat × String),
        schema.pages.foldl (fun d pn => dictInsert d pn.1 pn.2) d = schema.pages.foldl ins d := fun _ => rfl
    rw [h3, fold_trees]
    cases hm : List.mapM (getBTreeRoot v frames) schema.rootNumbers with
    | error e => rfl
    | ok trees =>
      rw [bind_ok, tail_eq]
      simp only [buildDict, censusSources, List.foldl_append]

/-! ### the dictionary built from a source list -/

theorem buildDict_snoc (s : List (Nat × String)) (e : Nat × String) :
    buildDict (s ++ [e]) = dictInsert (buildDict s) e.1 e.2 := by
  simp only [buildDict, List.foldl_append, List.foldl_cons, List.foldl_nil, ins]

theorem fold_keys_nodup (s : List (Nat × String)) : ∀ d : List (Nat × String),
    (d.map (·.1)).Nodup → ((s.foldl ins d).map (·.1)).Nodup := by
  induction s with
  | nil => intro d h; exact h
  | cons e s ih => intro d h; exact ih _ (keys_nodup_dictInsert d e.1 e.2 h)

theorem buildDict_keys_nodup (s : List (Nat × String)) : ((buildDict s).map (·.1)).Nodup :=
  fold_keys_nodup s [] List.nodup_nil

theorem fold_mem_keys (s : List (Nat × String)) (p : Nat) : ∀ d : List (Nat × String),
    p ∈ (s.foldl ins d).map (·.1) ↔ p ∈ d.map (·.1) ∨ p ∈ s.map (·.1) := by
  induction s with
  | nil => intro d; simp
  | cons e s ih =>
    intro d
    rw [List.foldl_cons, ih, ins, mem_keys_dictInsert, List.map_cons, List.mem_cons]
    constructor
    · rintro ((h | h) | h)
      · exact Or.inr (Or.inl h)
      · exact Or.inl h
      · exact Or.inr (Or.inr h)
    · rintro (h | h | h)
      · exact Or.inl (Or.inr h)
      · exact Or.inl (Or.inl h)
      · exact Or.inr h

theorem buildDict_mem_keys (s : List (Nat × String)) (p : Nat) :
    p ∈ (buildDict s).map (·.1) ↔ p ∈ s.map (·.1) := by
  rw [buildDict, fold_mem_keys]; simp

/-- lookup in the built dictionary = class given by the last source entry for that page -/
theorem fold_get (s : List (Nat × String)) (p : Nat) : ∀ d : List (Nat × String),
    dictGet? (s.foldl ins d) p
      = (((s.filter (·.1 = p)).getLast?).map (·.2)).or (dictGet? d p) := by
  induction s with
  | nil => intro d; simp
  | cons e s ih =>
    intro d
    rw [List.foldl_cons, ih, ins]
    by_cases he : e.1 = p
    · rw [List.filter_cons_of_pos (by simpa using he), List.getLast?_cons]
      subst he
      rw [dictGet?_dictInsert_same]
      cases (List.filter (fun x => decide (x.1 = e.1)) s).getLast? <;> simp
    · rw [List.filter_cons_of_neg (by simpa using he),
        dictGet?_dictInsert_other _ _ _ _ (fun h => he h.symm)]

theorem buildDict_get (s : List (Nat × String)) (p : Nat) :
    dictGet? (buildDict s) p = ((s.filter (·.1 = p)).getLast?).map (·.2) := by
  rw [buildDict, fold_get, dictGet?_nil, Option.or_none]

/-- in a dictionary with unique keys, membership is lookup -/
theorem mem_iff_get (d : List (Nat × String)) (h : (d.map (·.1)).Nodup) (p : Nat) (cls : String) :
    (p, cls) ∈ d ↔ dictGet? d p = some cls := by
  induction d with
  | nil => simp [dictGet?_nil]
  | cons e d ih =>
    rw [List.map_cons, List.nodup_cons] at h
    rw [dictGet?_cons, List.mem_cons]
    by_cases he : e.1 = p
    · rw [if_pos he]
      constructor
      · rintro (h1 | h1)
        · rw [← h1]
        · exfalso; apply h.1; rw [he]
          exact List.mem_map.mpr ⟨(p, cls), h1, rfl⟩
      · intro h1
        left
        cases e
        simp only [Option.some.injEq] at h1
        simp only at he
        rw [he, h1]
    · rw [if_neg he, ← ih h.2]
      constructor
      · rintro (h1 | h1)
        · exfalso; apply he; rw [← h1]
        · exact h1
      · exact Or.inr

theorem buildDict_mem (s : List (Nat × String)) (p : Nat) (cls : String) :
    (p, cls) ∈ buildDict s ↔ (s.filter (·.1 = p)).getLast? = some (p, cls) := by
  rw [mem_iff_get _ (buildDict_keys_nodup s), buildDict_get]
  constructor
  · intro h
    rw [Option.map_eq_some_iff] at h
    obtain ⟨e, he, h2⟩ := h
    have := List.mem_of_getLast? he
    rw [List.mem_filter] at this
    have h1 : e.1 = p := by simpa using this.2
    rw [he]; cases e; simp only at h1 h2; rw [h1, h2]
  · intro h; rw [h]; rfl

theorem dictInsert_fresh (d : List (Nat × String)) (k : Nat) (x : String) (h : ∀ e ∈ d, e.1 ≠ k) :
    dictInsert d k x = d ++ [(k, x)] := by
  unfold dictInsert
  have : ¬ (d.any (fun e => decide (e.1 = k)) = true) := by
    rw [List.any_eq_true]
    rintro ⟨e, he, h'⟩
    exact h e he (by simpa using h')
  rw [if_neg this]

/-- disjoint sources: every assignment appends, the dictionary *is* the source list -/
theorem fold_disjoint (s : List (Nat × String)) : ∀ d : List (Nat × String),
    ((d ++ s).map (·.1)).Nodup → s.foldl ins d = d ++ s := by
  induction s with
  | nil => intro d _; simp
  | cons e s ih =>
    intro d h
    have hfresh : ∀ x ∈ d, x.1 ≠ e.1 := by
      intro x hx heq
      rw [List.map_append, List.nodup_append] at h
      exact h.2.2 x.1 (List.mem_map_of_mem hx) e.1 (List.mem_map_of_mem (List.mem_cons_self ..)) heq
    rw [List.foldl_cons, ins, dictInsert_fresh d _ _ hfresh, ih]
    · simp
    · simpa using h

theorem buildDict_disjoint (s : List (Nat × String)) (h : (s.map (·.1)).Nodup) : buildDict s = s := by
  rw [buildDict, fold_disjoint s [] (by simpa using h)]; rfl

/-! ### pigeonhole -/

theorem subset_of_length_le : ∀ (L K : List Nat), L.Nodup → K.Nodup → (∀ x ∈ L, x ∈ K) →
    K.length ≤ L.length → ∀ x ∈ K, x ∈ L := by
  intro L
  induction L with
  | nil =>
    intro K _ _ _ hlen x hx
    have : K = [] := List.eq_nil_of_length_eq_zero (by simpa using hlen)
    rw [this] at hx; exact hx
  | cons a L ih =>
    intro K hL hK hsub hlen x hx
    rw [List.nodup_cons] at hL
    have haK : a ∈ K := hsub a (List.mem_cons_self ..)
    have hsub' : ∀ y ∈ L, y ∈ K.erase a := by
      intro y hy
      have hne : y ≠ a := fun h => hL.1 (h ▸ hy)
      exact (List.mem_erase_of_ne hne).mpr (hsub y (List.mem_cons_of_mem _ hy))
    have hlen' : (K.erase a).length ≤ L.length := by
      rw [List.length_erase_of_mem haK]; simp only [List.length_cons] at hlen; omega
    by_cases hxa : x = a
    · rw [hxa]; exact List.mem_cons_self ..
    · exact List.mem_cons_of_mem _
        (ih (K.erase a) hL.2 (hK.erase a) hsub' hlen' x ((List.mem_erase_of_ne hxa).mpr hx))

theorem censusChecks_iff (dbSize : Nat) (d : List (Nat × String)) :
    censusChecks dbSize d = true ↔
      d.length = dbSize ∧ ∀ p, 1 ≤ p ∧ p ≤ dbSize → p ∈ d.map (·.1) := by
  unfold censusChecks
  rw [Bool.and_eq_true, decide_eq_true_eq, List.all_eq_true]
  constructor
  · rintro ⟨h1, h2⟩
    refine ⟨h1, fun p hp => ?_⟩
    have := h2 (p - 1) (List.mem_range.mpr (by omega))
    rw [any_key_iff] at this
    have e : p - 1 + 1 = p := by omega
    rwa [e] at this
  · rintro ⟨h1, h2⟩
    refine ⟨h1, fun i hi => ?_⟩
    rw [any_key_iff]
    exact h2 (i + 1) ⟨by omega, by have := List.mem_range.mp hi; omega⟩

/-- unique keys + the two checks ⇒ the keys are exactly 1..N -/
theorem keys_exact (dbSize : Nat) (d : List (Nat × String)) (hnd : (d.map (·.1)).Nodup)
    (hc : censusChecks dbSize d = true) (p : Nat) :
    p ∈ d.map (·.1) ↔ (1 ≤ p ∧ p ≤ dbSize) := by
  rw [censusChecks_iff] at hc
  refine ⟨fun hp => ?_, hc.2 p⟩
  have hL : ((List.range dbSize).map (· + 1)).Nodup := by
    exact List.Pairwise.map _ (fun a b (h : a ≠ b) => by omega) List.nodup_range
  have := subset_of_length_le ((List.range dbSize).map (· + 1)) (d.map (·.1)) hL hnd
    (fun x hx => by
      rw [List.mem_map] at hx
      obtain ⟨i, hi, rfl⟩ := hx
      exact hc.2 (i + 1) ⟨by omega, by have := List.mem_range.mp hi; omega⟩)
    (by simp [hc.1]) p hp
  rw [List.mem_map] at this
  obtain ⟨i, hi, rfl⟩ := this
  have := List.mem_range.mp hi
  omega

/-! ### accepted censuses -/

theorem censusTail_ok (sizeExact : Bool) (dbSize : Nat) (d d' : List (Nat × String))
    (h : censusTail sizeExact dbSize d = .ok d') :
    d' = d ∧ sizeExact = true ∧ censusChecks dbSize d = true := by
  unfold censusTail at h
  split at h
  · rename_i hc
    rw [Bool.and_eq_true] at hc
    injection h with h
    exact ⟨h.symm, hc⟩
  · exact nomatch h

theorem censusOf_ok (sizeExact : Bool) (dbSize : Nat) (fl : List FreelistTrunk) (pm : List PtrmapPage)
    (schema : MasterSchema) (v : VersionIf) (frames : Nat) (d : List (Nat × String))
    (h : censusOf sizeExact dbSize fl pm schema v frames = .ok d) :
    ∃ trees, schema.rootNumbers.mapM (getBTreeRoot v frames) = .ok trees ∧
      d = buildDict (censusSources fl pm schema.pages trees) ∧
      sizeExact = true ∧ censusChecks dbSize d = true := by
  unfold censusOf at h
  split at h
  · exact nomatch h
  · rename_i trees hm
    obtain ⟨h1, h2, h3⟩ := censusTail_ok _ _ _ _ h
    exact ⟨trees, hm, h1, h2, h1 ▸ h3⟩

/-- everything proved about a dictionary built from `sources` that passes the checks -/
structure Accepted (dbSize : Nat) (sources d : List (Nat × String)) : Prop where
  built : d = buildDict sources
  checks : censusChecks dbSize d = true

theorem Accepted.keys {dbSize : Nat} {sources d : List (Nat × String)} (h : Accepted dbSize sources d) :
    (d.map (·.1)).Nodup ∧ ∀ p, p ∈ d.map (·.1) ↔ (1 ≤ p ∧ p ≤ dbSize) := by
  have hnd : (d.map (·.1)).Nodup := h.built ▸ buildDict_keys_nodup sources
  exact ⟨hnd, keys_exact dbSize d hnd h.checks⟩

theorem Accepted.sources {dbSize : Nat} {sources d : List (Nat × String)} (h : Accepted dbSize sources d) :
    (∀ p, dictGet? d p = ((sources.filter (·.1 = p)).getLast?).map (·.2)) ∧
    (∀ p cls, (p, cls) ∈ d ↔ (sources.filter (·.1 = p)).getLast? = some (p, cls)) ∧
    (∀ e ∈ d, e ∈ sources) ∧
    (∀ e ∈ sources, e.1 ∈ d.map (·.1)) := by
  have hb := h.built
  subst hb
  refine ⟨buildDict_get sources, buildDict_mem sources, ?_, ?_⟩
  · intro e he
    cases e with
    | mk p cls =>
      have := (buildDict_mem sources p cls).mp he
      exact (List.mem_filter.mp (List.mem_of_getLast? this)).1
  · intro e he
    exact (buildDict_mem_keys sources e.1).mpr (List.mem_map_of_mem he)

theorem Accepted.exactly_once {dbSize : Nat} {sources d : List (Nat × String)}
    (h : Accepted dbSize sources d) (hdis : (sources.map (·.1)).Nodup) :
    sources.length = dbSize ∧ d = sources ∧ d.Perm sources ∧
    ∀ p, 1 ≤ p ∧ p ≤ dbSize → ∃ cls, sources.filter (·.1 = p) = [(p, cls)] ∧ dictGet? d p = some cls := by
  have hd : d = sources := h.built.trans (buildDict_disjoint sources hdis)
  have hc := (censusChecks_iff dbSize d).mp h.checks
  refine ⟨hd ▸ hc.1, hd, hd ▸ List.Perm.refl _, ?_⟩
  intro p hp
  have hpk : p ∈ sources.map (·.1) := hd ▸ hc.2 p hp
  -- in a list with unique keys the entries for one key form a singleton
  have hsingle : ∀ (s : List (Nat × String)), (s.map (·.1)).Nodup → p ∈ s.map (·.1) →
      ∃ cls, s.filter (·.1 = p) = [(p, cls)] := by
    intro s
    induction s with
    | nil => intro _ hm; exact absurd hm (by simp)
    | cons e s ih =>
      intro hn hm
      rw [List.map_cons, List.nodup_cons] at hn
      by_cases he : e.1 = p
      · refine ⟨e.2, ?_⟩
        rw [List.filter_cons_of_pos (by simpa using he)]
        have : s.filter (·.1 = p) = [] := by
          rw [List.filter_eq_nil_iff]
          intro a ha hap
          have hap' : a.1 = p := by simpa using hap
          exact hn.1 (he ▸ hap' ▸ List.mem_map_of_mem ha)
        rw [this]; cases e; simp only at he; rw [he]
      · rw [List.filter_cons_of_neg (by simpa using he)]
        rw [List.map_cons, List.mem_cons] at hm
        rcases hm with hm | hm
        · exact absurd hm.symm he
        · exact ih hn.2 hm
  obtain ⟨cls, hcls⟩ := hsingle sources hdis hpk
  refine ⟨cls, hcls, ?_⟩
  rw [(Accepted.sources h).1 p, hcls]; rfl

theorem accepted_of_censusOf {sizeExact : Bool} {dbSize : Nat} {fl : List FreelistTrunk}
    {pm : List PtrmapPage} {schema : MasterSchema} {v : VersionIf} {frames : Nat} {d : List (Nat × String)}
    (h : censusOf sizeExact dbSize fl pm schema v frames = .ok d) :
    sizeExact = true ∧ ∃ trees, schema.rootNumbers.mapM (getBTreeRoot v frames) = .ok trees ∧
      Accepted dbSize (censusSources fl pm schema.pages trees) d := by
  obtain ⟨trees, hm, hb, he, hc⟩ := censusOf_ok _ _ _ _ _ _ _ _ h
  exact ⟨he, trees, hm, hb, hc⟩

theorem accepted_db {db : Database} {v : VersionIf} {frames : Nat} {d : List (Nat × String)}
    (h : pagesCensus db v frames = .ok d) :
    db.dbSize.exact = true ∧
    ∃ trees, db.schema.rootNumbers.mapM (getBTreeRoot v frames) = .ok trees ∧
      Accepted db.dbSize.floor (censusSources db.freelist db.ptrmap db.schema.pages trees) d := by
  rw [pagesCensus_eq] at h
  exact accepted_of_censusOf h

theorem accepted_version {ver : Version} {v : VersionIf} {frames : Nat} {d : List (Nat × String)}
    (h : versionCensus ver v frames = .ok d) :
    ver.sizeExact = true ∧
    ∃ rt schema trees, observedSchema ver v frames = .ok (rt, schema) ∧
      schema.rootNumbers.mapM (getBTreeRoot v frames) = .ok trees ∧
      Accepted ver.dbSize (censusSources ver.freelist ver.ptrmap schema.pages trees) d := by
  rw [versionCensus_eq] at h
  split at h
  · exact nomatch h
  · rename_i rs ho
    obtain ⟨he, trees, hm, ha⟩ := accepted_of_censusOf h
    exact ⟨he, rs.1, rs.2, trees, ho, hm, ha⟩

/-! ### the property statements -/

theorem census_keys_db (db : Database) (v : VersionIf) (frames : Nat) (d : List (Nat × String))
    (h : pagesCensus db v frames = .ok d) :
    (d.map (·.1)).Nodup ∧ ∀ p, p ∈ d.map (·.1) ↔ (1 ≤ p ∧ p ≤ db.dbSize.floor) := by
  obtain ⟨_, _, _, ha⟩ := accepted_db h
  exact ha.keys

theorem census_keys_version (ver : Version) (v : VersionIf) (frames : Nat) (d : List (Nat × String))
    (h : versionCensus ver v frames = .ok d) :
    (d.map (·.1)).Nodup ∧ ∀ p, p ∈ d.map (·.1) ↔ (1 ≤ p ∧ p ≤ ver.dbSize) := by
  obtain ⟨_, _, _, _, _, _, ha⟩ := accepted_version h
  exact ha.keys

theorem census_sources_db (db : Database) (v : VersionIf) (frames : Nat) (d : List (Nat × String))
    (h : pagesCensus db v frames = .ok d) :
    db.dbSize.exact = true ∧
    ∃ trees, db.schema.rootNumbers.mapM (getBTreeRoot v frames) = .ok trees ∧
      let sources := censusSources db.freelist db.ptrmap db.schema.pages trees
      d = buildDict sources ∧
      (∀ p, dictGet? d p = ((sources.filter (·.1 = p)).getLast?).map (·.2)) ∧
      (∀ p cls, (p, cls) ∈ d ↔ (sources.filter (·.1 = p)).getLast? = some (p, cls)) ∧
      (∀ e ∈ d, e ∈ sources) ∧
      (∀ e ∈ sources, e.1 ∈ d.map (·.1)) := by
  obtain ⟨he, trees, hm, ha⟩ := accepted_db h
  exact ⟨he, trees, hm, ha.built, ha.sources⟩

theorem census_sources_version (ver : Version) (v : VersionIf) (frames : Nat) (d : List (Nat × String))
    (h : versionCensus ver v frames = .ok d) :
    ver.sizeExact = true ∧
    ∃ rt schema trees, observedSchema ver v frames = .ok (rt, schema) ∧
      schema.rootNumbers.mapM (getBTreeRoot v frames) = .ok trees ∧
      let sources := censusSources ver.freelist ver.ptrmap schema.pages trees
      d = buildDict sources ∧
      (∀ p, dictGet? d p = ((sources.filter (·.1 = p)).getLast?).map (·.2)) ∧
      (∀ p cls, (p, cls) ∈ d ↔ (sources.filter (·.1 = p)).getLast? = some (p, cls)) ∧
      (∀ e ∈ d, e ∈ sources) ∧
      (∀ e ∈ sources, e.1 ∈ d.map (·.1)) := by
  obtain ⟨he, rt, schema, trees, ho, hm, ha⟩ := accepted_version h
  exact ⟨he, rt, schema, trees, ho, hm, ha.built, ha.sources⟩

theorem census_exactly_once_db (db : Database) (v : VersionIf) (frames : Nat) (d : List (Nat × String))
    (trees : List (List BPage))
    (h : pagesCensus db v frames = .ok d)
    (ht : db.schema.rootNumbers.mapM (getBTreeRoot v frames) = .ok trees)
    (hdis : ((censusSources db.freelist db.ptrmap db.schema.pages trees).map (·.1)).Nodup) :
    let sources := censusSources db.freelist db.ptrmap db.schema.pages trees
    sources.length = db.dbSize.floor ∧ d = sources ∧ d.Perm sources ∧
    ∀ p, 1 ≤ p ∧ p ≤ db.dbSize.floor →
      ∃ cls, sources.filter (·.1 = p) = [(p, cls)] ∧ dictGet? d p = some cls := by
  obtain ⟨_, trees', hm, ha⟩ := accepted_db h
  have : trees' = trees := by rw [hm] at ht; injection ht
  subst this
  exact ha.exactly_once hdis

theorem census_exactly_once_version (ver : Version) (v : VersionIf) (frames : Nat) (d : List (Nat × String))
    (rt : List BPage) (schema : MasterSchema) (trees : List (List BPage))
    (h : versionCensus ver v frames = .ok d)
    (hs : observedSchema ver v frames = .ok (rt, schema))
    (ht : schema.rootNumbers.mapM (getBTreeRoot v frames) = .ok trees)
    (hdis : ((censusSources ver.freelist ver.ptrmap schema.pages trees).map (·.1)).Nodup) :
    let sources := censusSources ver.freelist ver.ptrmap schema.pages trees
    sources.length = ver.dbSize ∧ d = sources ∧ d.Perm sources ∧
    ∀ p, 1 ≤ p ∧ p ≤ ver.dbSize →
      ∃ cls, sources.filter (·.1 = p) = [(p, cls)] ∧ dictGet? d p = some cls := by
  obtain ⟨_, rt', schema', trees', ho, hm, ha⟩ := accepted_version h
  have h1 : (rt', schema') = (rt, schema) := by rw [ho] at hs; injection hs
  have h2 : schema' = schema := (Prod.mk.inj h1).2
  subst h2
  have : trees' = trees := by rw [hm] at ht; injection ht
  subst this
  exact ha.exactly_once hdis

/-! ### what acceptance depends on -/

theorem length_le_of_subset : ∀ (K L : List Nat), K.Nodup → (∀ x ∈ K, x ∈ L) → K.length ≤ L.length := by
  intro K
  induction K with
  | nil => intro L _ _; exact Nat.zero_le _
  | cons a K ih =>
    intro L hK hsub
    rw [List.nodup_cons] at hK
    have haL : a ∈ L := hsub a (List.mem_cons_self ..)
    have hsub' : ∀ y ∈ K, y ∈ L.erase a := by
      intro y hy
      have hne : y ≠ a := fun h => hK.1 (h ▸ hy)
      exact (List.mem_erase_of_ne hne).mpr (hsub y (List.mem_cons_of_mem _ hy))
    have := ih (L.erase a) hK.2 hsub'
    rw [List.length_erase_of_mem haL] at this
    have hpos : 0 < L.length := List.length_pos_of_mem haL
    simp only [List.length_cons]; omega

/-- the checks accept a source list iff the *set* of pages it lists is exactly 1..N — how often,
and under which classes, a page is listed plays no role -/
theorem checks_iff_keys (dbSize : Nat) (sources : List (Nat × String)) :
    censusChecks dbSize (buildDict sources) = true ↔
      ∀ p, p ∈ sources.map (·.1) ↔ (1 ≤ p ∧ p ≤ dbSize) := by
  constructor
  · intro h p
    rw [← buildDict_mem_keys]
    exact keys_exact dbSize _ (buildDict_keys_nodup sources) h p
  · intro h
    have hk : ∀ p, p ∈ (buildDict sources).map (·.1) ↔ (1 ≤ p ∧ p ≤ dbSize) := by
      intro p; rw [buildDict_mem_keys]; exact h p
    have hL : ((List.range dbSize).map (· + 1)).Nodup :=
      List.Pairwise.map _ (fun a b (h : a ≠ b) => by omega) List.nodup_range
    have hmemL : ∀ p, p ∈ (List.range dbSize).map (· + 1) ↔ (1 ≤ p ∧ p ≤ dbSize) := by
      intro p
      rw [List.mem_map]
      constructor
      · rintro ⟨i, hi, rfl⟩; have := List.mem_range.mp hi; omega
      · intro hp; exact ⟨p - 1, List.mem_range.mpr (by omega), by omega⟩
    rw [censusChecks_iff]
    refine ⟨?_, fun p hp => (hk p).mpr hp⟩
    have h1 := length_le_of_subset _ _ (buildDict_keys_nodup sources)
      (fun x hx => (hmemL x).mpr ((hk x).mp hx))
    have h2 := length_le_of_subset _ _ hL (fun x hx => (hk x).mpr ((hmemL x).mp hx))
    simp only [List.length_map, List.length_range] at h1 h2
    omega

/-! ### the converse limit: a page listed twice is accepted -/

/-- three pages; page 3 is listed as a freelist leaf *and* as an overflow page of the schema
b-tree -/
def witnessSources : List (Nat × String) :=
  [(2, "FREELIST_TRUNK"), (3, "FREELIST_LEAF"), (1, "TABLE_LEAF"), (3, "OVERFLOW")]

theorem witness_pure :
    ¬ (witnessSources.map (·.1)).Nodup ∧
    buildDict witnessSources = [(2, "FREELIST_TRUNK"), (3, "OVERFLOW"), (1, "TABLE_LEAF")] ∧
    censusChecks 3 (buildDict witnessSources) = true ∧
    dictGet? (buildDict witnessSources) 3 = some "OVERFLOW" := by
  decide

/-- the same at the level of the model: a `Database` value whose freelist and schema pages both
list page 3 (no b-trees besides the schema, so no page has to be parsed) -/
def witnessDb : Database :=
  { (default : Database) with
    dbSize := ⟨3, 1⟩
    freelist := [⟨2, 0, [3], 0⟩]
    ptrmap := []
    schema := ⟨[], [(1, "TABLE_LEAF"), (3, "OVERFLOW")], []⟩ }

theorem witness_sources_eq :
    censusSources witnessDb.freelist witnessDb.ptrmap witnessDb.schema.pages [] = witnessSources := by
  decide

theorem witness_db (v : VersionIf) (frames : Nat) :
    pagesCensus witnessDb v frames = .ok [(2, "FREELIST_TRUNK"), (3, "OVERFLOW"), (1, "TABLE_LEAF")] := by
  rw [pagesCensus_eq]
  show censusTail true 3 (buildDict (censusSources witnessDb.freelist witnessDb.ptrmap witnessDb.schema.pages [])) = _
  rw [witness_sources_eq, witness_pure.2.1]
  rfl

theorem witness_version (v : VersionIf) (frames : Nat) :
    versionCensus (versionOfDatabase witnessDb) v frames
      = .ok [(2, "FREELIST_TRUNK"), (3, "OVERFLOW"), (1, "TABLE_LEAF")] := by
  rw [versionCensus_eq]
  show censusTail true 3 (buildDict (censusSources witnessDb.freelist witnessDb.ptrmap witnessDb.schema.pages [])) = _
  rw [witness_sources_eq, witness_pure.2.1]
  rfl

end SqliteDissect.Proofs.Census
