/-
Proofs for Properties/C03.lean: the dictionary algebra `diffCells` of
VersionParserIterator.next (added / updated / deleted classification and replay).
-/
import SqliteDissect.Model.History
import SqliteDissect.Proofs.HistoryDefs

namespace SqliteDissect.Proofs.History
open SqliteDissect SqliteDissect.Model SqliteDissect.Properties.C03

abbrev Dict := List (List Nat × Cell)

/-! ### the named sub-lists of `diffCells true` -/

/-- cells whose key is not current (`added` before the update split) -/
def newL (cur cells : Dict) : Dict := cells.filter fun e => ¬ cur.any (·.1 = e.1)
/-- current cells whose key vanished (`deleted` before the update split) -/
def goneL (cur cells : Dict) : Dict := cur.filter fun e => ¬ cells.any (·.1 = e.1)
def updRowids (cur cells : Dict) : List (Option Int) :=
  ((goneL cur cells).filter fun d => ((newL cur cells).map (·.2.rowid)).contains d.2.rowid).map (·.2.rowid)
def updatedL (cur cells : Dict) : Dict :=
  (newL cur cells).filter fun a => (updRowids cur cells).contains a.2.rowid
def deletedL (cur cells : Dict) : Dict :=
  (goneL cur cells).filter fun d => ¬ (updRowids cur cells).contains d.2.rowid
def addedL (cur cells : Dict) : Dict :=
  (newL cur cells).filter fun a => ¬ (updatedL cur cells).any (·.1 = a.1)

theorem diffCells_true (cur cells : Dict) :
    diffCells true cur cells =
      ((addedL cur cells).map (·.2), (updatedL cur cells).map (·.2), (deletedL cur cells).map (·.2)) := rfl

theorem mem_newL {cur cells : Dict} {e : List Nat × Cell} :
    e ∈ newL cur cells ↔ e ∈ cells ∧ ∀ x ∈ cur, x.1 ≠ e.1 := by
  simp [newL]

theorem mem_goneL {cur cells : Dict} {e : List Nat × Cell} :
    e ∈ goneL cur cells ↔ e ∈ cur ∧ ∀ x ∈ cells, x.1 ≠ e.1 := by
  simp [goneL]

theorem mem_updRowids {cur cells : Dict} {r : Option Int} :
    r ∈ updRowids cur cells ↔
      (∃ g ∈ goneL cur cells, g.2.rowid = r) ∧ (∃ n ∈ newL cur cells, n.2.rowid = r) := by
  simp only [updRowids, List.mem_map, List.mem_filter, List.contains_iff_mem]
  constructor
  · rintro ⟨g, ⟨hg, n, hn, hnr⟩, rfl⟩
    exact ⟨⟨g, hg, rfl⟩, ⟨n, hn, hnr⟩⟩
  · rintro ⟨⟨g, hg, rfl⟩, ⟨n, hn, hnr⟩⟩
    exact ⟨g, ⟨hg, n, hn, hnr⟩, rfl⟩

theorem mem_updatedL {cur cells : Dict} {e : List Nat × Cell} :
    e ∈ updatedL cur cells ↔ e ∈ newL cur cells ∧ ∃ g ∈ goneL cur cells, g.2.rowid = e.2.rowid := by
  simp only [updatedL, List.mem_filter, List.contains_iff_mem, mem_updRowids]
  constructor
  · rintro ⟨he, hg, _⟩; exact ⟨he, hg⟩
  · rintro ⟨he, hg⟩; exact ⟨he, hg, e, he, rfl⟩

theorem mem_deletedL {cur cells : Dict} {e : List Nat × Cell} :
    e ∈ deletedL cur cells ↔ e ∈ goneL cur cells ∧ ∀ n ∈ newL cur cells, n.2.rowid ≠ e.2.rowid := by
  simp only [deletedL, List.mem_filter, List.contains_iff_mem, mem_updRowids, decide_eq_true_eq]
  constructor
  · rintro ⟨he, h⟩
    refine ⟨he, fun n hn hnr => h ⟨⟨e, he, rfl⟩, ⟨n, hn, hnr⟩⟩⟩
  · rintro ⟨he, h⟩
    refine ⟨he, ?_⟩
    rintro ⟨_, n, hn, hnr⟩
    exact h n hn hnr

theorem mem_addedL {cur cells : Dict} {e : List Nat × Cell} :
    e ∈ addedL cur cells ↔ e ∈ newL cur cells ∧ ∀ u ∈ updatedL cur cells, u.1 ≠ e.1 := by
  simp [addedL]


/-! ### generic list facts -/

theorem not_any_key {l : Dict} {k : List Nat} :
    (¬ l.any (fun x => x.1 = k) = true) ↔ ∀ x ∈ l, x.1 ≠ k := by
  simp only [List.any_eq_true, decide_eq_true_eq, not_exists, not_and, ne_eq]

theorem inj_of_nodup_map {α β : Type} (f : α → β) :
    ∀ {l : List α}, (l.map f).Nodup → ∀ a ∈ l, ∀ b ∈ l, f a = f b → a = b
  | [], _, a, ha, _, _, _ => by cases ha
  | x :: xs, h, a, ha, b, hb, hab => by
    rw [List.map_cons, List.nodup_cons] at h
    rcases List.mem_cons.1 ha with rfl | ha'
    · rcases List.mem_cons.1 hb with rfl | hb'
      · rfl
      · exact absurd (hab ▸ List.mem_map_of_mem (f := f) hb') h.1
    · rcases List.mem_cons.1 hb with rfl | hb'
      · exact absurd (hab ▸ List.mem_map_of_mem (f := f) ha') h.1
      · exact inj_of_nodup_map f h.2 a ha' b hb' hab

theorem find?_eq_some_of_unique {α : Type} {p : α → Bool} {l : List α} {c : α}
    (hc : c ∈ l) (hp : p c = true) (hu : ∀ x ∈ l, p x = true → x = c) : l.find? p = some c := by
  cases h : l.find? p with
  | none => exact absurd hp (by simpa using List.find?_eq_none.1 h c hc)
  | some x => rw [hu x (List.mem_of_find?_eq_some h) (List.find?_some h)]

/-! ### `stateOf` -/

theorem stateOf_eq_none {l : Dict} {r : Int} :
    stateOf l r = none ↔ ∀ e ∈ l, e.2.rowid ≠ some r := by
  simp [stateOf, List.find?_eq_none]

theorem stateOf_some_mem {l : Dict} {r : Int} {c : Cell} (h : stateOf l r = some c) :
    ∃ e ∈ l, e.2 = c ∧ e.2.rowid = some r := by
  simp only [stateOf, Option.map_eq_some_iff] at h
  obtain ⟨e, he, rfl⟩ := h
  exact ⟨e, List.mem_of_find?_eq_some he, rfl, by simpa using List.find?_some he⟩

theorem stateOf_eq_some {l : Dict} (hl : DictOK l) {r : Int} {e : List Nat × Cell}
    (he : e ∈ l) (hr : e.2.rowid = some r) : stateOf l r = some e.2 := by
  have : l.find? (fun e => e.2.rowid = some r) = some e := by
    apply find?_eq_some_of_unique he (by simpa using hr)
    intro x hx hxr
    exact inj_of_nodup_map _ hl.rowids_nodup x hx e he (by rw [hr]; simpa using hxr)
  simp [stateOf, this]

/-! ### the C03 theorems -/

theorem new_split {cur cells : Dict} (hn : DictOK cells) {e : List Nat × Cell}
    (he : e ∈ newL cur cells) : e ∈ addedL cur cells ∨ e ∈ updatedL cur cells := by
  by_cases hu : e ∈ updatedL cur cells
  · exact Or.inr hu
  · refine Or.inl (mem_addedL.2 ⟨he, fun u huL hk => hu ?_⟩)
    have := inj_of_nodup_map _ hn.keys_nodup u (mem_newL.1 (mem_updatedL.1 huL).1).1 e (mem_newL.1 he).1 hk
    exact this ▸ huL

theorem reported_exactly_new (cur cells : Dict) (hn : DictOK cells) (c : Cell) :
    (c ∈ (diffCells true cur cells).1 ∨ c ∈ (diffCells true cur cells).2.1) ↔
      (∃ e ∈ cells, e.2 = c ∧ ¬ cur.any (fun x => x.1 = e.1)) := by
  rw [diffCells_true]
  simp only [List.mem_map]
  constructor
  · rintro (⟨e, he, rfl⟩ | ⟨e, he, rfl⟩)
    · have := mem_newL.1 (mem_addedL.1 he).1
      exact ⟨e, this.1, rfl, not_any_key.2 this.2⟩
    · have := mem_newL.1 (mem_updatedL.1 he).1
      exact ⟨e, this.1, rfl, not_any_key.2 this.2⟩
  · rintro ⟨e, he, rfl, hk⟩
    have : e ∈ newL cur cells := mem_newL.2 ⟨he, not_any_key.1 hk⟩
    rcases new_split hn this with h | h
    · exact Or.inl ⟨e, h, rfl⟩
    · exact Or.inr ⟨e, h, rfl⟩

theorem added_updated_disjoint (cur cells : Dict) (hn : DictOK cells) (c : Cell) :
    ¬ (c ∈ (diffCells true cur cells).1 ∧ c ∈ (diffCells true cur cells).2.1) := by
  rw [diffCells_true]
  simp only [List.mem_map]
  rintro ⟨⟨a, ha, rfl⟩, ⟨u, hu, hua⟩⟩
  have ha' := mem_addedL.1 ha
  apply ha'.2 u hu
  rw [hn.key_is_digest u (mem_newL.1 (mem_updatedL.1 hu).1).1,
    hn.key_is_digest a (mem_newL.1 ha'.1).1, hua]

theorem classification (cur cells : Dict) :
    let gone := cur.filter fun e => ¬ cells.any (·.1 = e.1)
    let new := cells.filter fun e => ¬ cur.any (·.1 = e.1)
    (∀ a ∈ (diffCells true cur cells).1, ¬ gone.any (fun g => g.2.rowid = a.rowid)) ∧
    (∀ d ∈ (diffCells true cur cells).2.2, ¬ new.any (fun n => n.2.rowid = d.rowid)) ∧
    (∀ u ∈ (diffCells true cur cells).2.1, gone.any (fun g => g.2.rowid = u.rowid) ∧ new.any (fun n => n.2 = u)) := by
  intro gone new
  have hg : gone = goneL cur cells := rfl
  have hw : new = newL cur cells := rfl
  rw [diffCells_true, hg, hw]
  simp only [List.mem_map, List.any_eq_true, decide_eq_true_eq, not_exists, not_and,
    forall_exists_index, and_imp]
  refine ⟨?_, ?_, ?_⟩
  · rintro _ a ha rfl g hg hga
    have ha' := mem_addedL.1 ha
    exact ha'.2 a (mem_updatedL.2 ⟨ha'.1, g, hg, hga⟩) rfl
  · rintro _ d hd rfl n hn
    exact (mem_deletedL.1 hd).2 n hn
  · rintro _ u hu rfl
    have hu' := mem_updatedL.1 hu
    exact ⟨hu'.2, u, hu'.1, rfl⟩

/-- `classification` stated without decidable equality on `Cell` (third conjunct uses `∃ … ∈ new`
instead of `new.any (· = u)`): the form to use if the `DecidableEq Cell` instance of
Proofs/HistoryDefs.lean is not wanted. -/
theorem classification_partial (cur cells : Dict) :
    let gone := cur.filter fun e => ¬ cells.any (·.1 = e.1)
    let new := cells.filter fun e => ¬ cur.any (·.1 = e.1)
    (∀ a ∈ (diffCells true cur cells).1, ¬ gone.any (fun g => g.2.rowid = a.rowid)) ∧
    (∀ d ∈ (diffCells true cur cells).2.2, ¬ new.any (fun n => n.2.rowid = d.rowid)) ∧
    (∀ u ∈ (diffCells true cur cells).2.1,
      gone.any (fun g => g.2.rowid = u.rowid) ∧ ∃ n ∈ new, n.2 = u) := by
  intro gone new
  obtain ⟨h1, h2, h3⟩ := classification cur cells
  refine ⟨h1, h2, fun u hu => ⟨(h3 u hu).1, ?_⟩⟩
  obtain ⟨n, hn, hnu⟩ := List.any_eq_true.1 (h3 u hu).2
  exact ⟨n, hn, by simpa using hnu⟩

theorem deleted_spec (cur cells : Dict) (d : Cell) :
    d ∈ (diffCells true cur cells).2.2 ↔
      ∃ e ∈ cur, e.2 = d ∧ ¬ cells.any (fun x => x.1 = e.1) ∧
        ¬ (cells.filter fun x => ¬ cur.any (·.1 = x.1)).any (fun n => n.2.rowid = d.rowid) := by
  have hw : (cells.filter fun x => ¬ cur.any (·.1 = x.1)) = newL cur cells := rfl
  rw [diffCells_true, hw]
  simp only [List.mem_map, List.any_eq_true, decide_eq_true_eq, not_exists, not_and]
  constructor
  · rintro ⟨e, he, rfl⟩
    have he' := mem_deletedL.1 he
    have hg := mem_goneL.1 he'.1
    exact ⟨e, hg.1, rfl, hg.2, he'.2⟩
  · rintro ⟨e, he, rfl, hk, hr⟩
    exact ⟨e, mem_deletedL.2 ⟨mem_goneL.2 ⟨he, hk⟩, hr⟩, rfl⟩

theorem filter_self_none (cells : Dict) :
    (cells.filter fun e => ¬ cells.any (·.1 = e.1)) = [] := by
  rw [List.filter_eq_nil_iff]
  intro e he
  simp only [List.any_eq_true, decide_eq_true_eq, not_exists, not_and]
  exact fun h => h e he rfl

theorem unchanged_reports_nothing (cells : Dict) (isTable : Bool) :
    diffCells isTable cells cells = ([], [], []) := by
  cases isTable
  · simp only [diffCells, filter_self_none]; rfl
  · simp only [diffCells, filter_self_none]; rfl

theorem index_diff (cur cells : Dict) :
    diffCells false cur cells =
      ((cells.filter fun e => ¬ cur.any (·.1 = e.1)).map (·.2), [],
       (cur.filter fun e => ¬ cells.any (·.1 = e.1)).map (·.2)) := rfl


/-- every reported added/updated cell is the cell of a new entry of `cells` -/
theorem mem_AU {cur cells : Dict} {x : Cell}
    (hx : x ∈ (addedL cur cells).map (·.2) ++ (updatedL cur cells).map (·.2)) :
    ∃ e ∈ newL cur cells, e.2 = x := by
  rcases List.mem_append.1 hx with h | h
  · obtain ⟨e, he, rfl⟩ := List.mem_map.1 h
    exact ⟨e, (mem_addedL.1 he).1, rfl⟩
  · obtain ⟨e, he, rfl⟩ := List.mem_map.1 h
    exact ⟨e, (mem_updatedL.1 he).1, rfl⟩

theorem replay_step (cur cells : Dict) (hc : DictOK cur) (hn : DictOK cells)
    (hd : ∀ e1 ∈ cur, ∀ e2 ∈ cells, e1.1 = e2.1 → e1.2.rowid = e2.2.rowid) (r : Int) :
    applyCommit (stateOf cur) (diffCells true cur cells).1 (diffCells true cur cells).2.1
        (diffCells true cur cells).2.2 r
      = (match stateOf cells r with
         | some c => if cur.any (fun e => e.1 = c.digest) then stateOf cur r else some c
         | none => none) := by
  rw [diffCells_true]
  simp only [applyCommit]
  cases hs : stateOf cells r with
  | none =>
    have hnone := stateOf_eq_none.1 hs
    have hf : ((addedL cur cells).map (·.2) ++ (updatedL cur cells).map (·.2)).find?
        (fun c => c.rowid = some r) = none := by
      rw [List.find?_eq_none]
      intro x hx hxr
      obtain ⟨e, he, rfl⟩ := mem_AU hx
      exact hnone e (mem_newL.1 he).1 (by simpa using hxr)
    rw [hf]
    simp only
    cases hcur : stateOf cur r with
    | none => simp
    | some c1 =>
      obtain ⟨e1, he1, -, hr1⟩ := stateOf_some_mem hcur
      have hgone : e1 ∈ goneL cur cells := by
        refine mem_goneL.2 ⟨he1, fun x hx hk => ?_⟩
        exact hnone x hx (by rw [← hd e1 he1 x hx hk.symm, hr1])
      have hdel : e1 ∈ deletedL cur cells := by
        refine mem_deletedL.2 ⟨hgone, fun n hnn hnr => ?_⟩
        exact hnone n (mem_newL.1 hnn).1 (by rw [hnr, hr1])
      have : ((deletedL cur cells).map (·.2)).any (fun c => c.rowid = some r) = true := by
        rw [List.any_eq_true]
        exact ⟨e1.2, List.mem_map_of_mem hdel, by simpa using hr1⟩
      rw [this]; rfl
  | some c =>
    obtain ⟨e2, he2, rfl, hr2⟩ := stateOf_some_mem hs
    simp only
    rw [← hn.key_is_digest e2 he2]
    -- any reported added/updated cell with rowid r is e2's cell
    have huniq : ∀ x ∈ (addedL cur cells).map (·.2) ++ (updatedL cur cells).map (·.2),
        (decide (x.rowid = some r)) = true → x = e2.2 ∧ e2 ∈ newL cur cells := by
      intro x hx hxr
      obtain ⟨e, he, rfl⟩ := mem_AU hx
      have : e = e2 := inj_of_nodup_map _ hn.rowids_nodup e (mem_newL.1 he).1 e2 he2
        (by rw [hr2]; simpa using hxr)
      exact ⟨by rw [this], this ▸ he⟩
    by_cases hk : cur.any (fun e => e.1 = e2.1) = true
    · rw [if_pos hk]
      obtain ⟨e1, he1, hk1⟩ := List.any_eq_true.1 hk
      have hk1 : e1.1 = e2.1 := by simpa using hk1
      have hr1 : e1.2.rowid = some r := by rw [hd e1 he1 e2 he2 hk1, hr2]
      have hf : ((addedL cur cells).map (·.2) ++ (updatedL cur cells).map (·.2)).find?
          (fun c => c.rowid = some r) = none := by
        rw [List.find?_eq_none]
        intro x hx hxr
        exact (mem_newL.1 (huniq x hx hxr).2).2 e1 he1 hk1
      rw [hf]
      simp only
      have : ((deletedL cur cells).map (·.2)).any (fun c => c.rowid = some r) = false := by
        rw [List.any_eq_false]
        intro x hx hxr
        obtain ⟨e, he, rfl⟩ := List.mem_map.1 hx
        have hg := mem_goneL.1 (mem_deletedL.1 he).1
        have : e = e1 := inj_of_nodup_map _ hc.rowids_nodup e hg.1 e1 he1
          (by rw [hr1]; simpa using hxr)
        exact hg.2 e2 he2 (by rw [this, hk1])
      rw [this]; rfl
    · rw [if_neg hk]
      have hnew : e2 ∈ newL cur cells := mem_newL.2 ⟨he2, not_any_key.1 hk⟩
      have hmem : e2.2 ∈ (addedL cur cells).map (·.2) ++ (updatedL cur cells).map (·.2) := by
        rcases new_split hn hnew with h | h
        · exact List.mem_append_left _ (List.mem_map_of_mem h)
        · exact List.mem_append_right _ (List.mem_map_of_mem h)
      rw [find?_eq_some_of_unique hmem (by simpa using hr2) (fun x hx hxr => (huniq x hx hxr).1)]

end SqliteDissect.Proofs.History
