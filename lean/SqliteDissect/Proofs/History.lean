import SqliteDissect.Model.History
namespace SqliteDissect.Proofs.History
end SqliteDissect.Proofs.History
