import SqliteDissect.Model.Page
import SqliteDissect.Spec.PageFmt
namespace SqliteDissect.Proofs.Layout
open SqliteDissect SqliteDissect.Model

/-! ## sorting -/

theorem insertRegion_perm (r : Region) (l : List Region) : (insertRegion r l).Perm (r :: l) := by
  induction l with
  | nil => exact List.Perm.refl _
  | cons x xs ih =>
    unfold insertRegion
    split
    · exact List.Perm.refl _
    · exact ((List.Perm.cons x ih).trans (List.Perm.swap r x xs))

theorem insertRegion_sorted (r : Region) (l : List Region)
    (h : l.Pairwise (fun a b => a.1 ≤ b.1)) :
    (insertRegion r l).Pairwise (fun a b => a.1 ≤ b.1) := by
  induction l with
  | nil => simp [insertRegion]
  | cons x xs ih =>
    rw [List.pairwise_cons] at h
    unfold insertRegion
    split
    · rename_i hlt
      rw [List.pairwise_cons]
      refine ⟨?_, List.pairwise_cons.mpr h⟩
      intro b hb
      rcases List.mem_cons.mp hb with hb | hb
      · subst hb; omega
      · have := h.1 b hb; omega
    · rename_i hge
      rw [List.pairwise_cons]
      refine ⟨?_, ih h.2⟩
      intro b hb
      have hb' := (insertRegion_perm r xs).mem_iff.mp hb
      rcases List.mem_cons.mp hb' with hb' | hb'
      · subst hb'; omega
      · exact h.1 b hb'

theorem sortRegions_cons (r : Region) (l : List Region) :
    sortRegions (r :: l) = insertRegion r (sortRegions l) := rfl

theorem sortRegions_perm (rs : List Region) : (sortRegions rs).Perm rs := by
  induction rs with
  | nil => exact List.Perm.refl _
  | cons r rs ih =>
    rw [sortRegions_cons]
    exact (insertRegion_perm r _).trans (List.Perm.cons r ih)

theorem sortRegions_sorted (rs : List Region) :
    (sortRegions rs).Pairwise (fun a b => a.1 ≤ b.1) := by
  induction rs with
  | nil => simp [sortRegions]
  | cons r rs ih =>
    rw [sortRegions_cons]
    exact insertRegion_sorted r _ ih

theorem sort_spec (rs : List Region) :
    (sortRegions rs).Perm rs ∧ (sortRegions rs).Pairwise (fun a b => a.1 ≤ b.1) :=
  ⟨sortRegions_perm rs, sortRegions_sorted rs⟩

/-! ## sums -/

/-- `foldl (·+·) 0` -/
def isum (l : List Int) : Int := l.foldl (· + ·) 0

theorem foldl_add_eq (l : List Int) (a : Int) :
    l.foldl (· + ·) a = a + l.foldl (· + ·) 0 := by
  induction l generalizing a with
  | nil => simp
  | cons x xs ih =>
    simp only [List.foldl_cons]
    rw [ih (a + x), ih (0 + x)]
    omega

theorem isum_nil : isum [] = 0 := rfl

theorem isum_cons (x : Int) (l : List Int) : isum (x :: l) = x + isum l := by
  unfold isum
  simp only [List.foldl_cons]
  rw [foldl_add_eq]
  omega

theorem isum_append (l₁ l₂ : List Int) : isum (l₁ ++ l₂) = isum l₁ + isum l₂ := by
  induction l₁ with
  | nil => simp [isum_nil]
  | cons x xs ih => simp only [List.cons_append, isum_cons, ih]; omega

theorem isum_reverse (l : List Int) : isum l.reverse = isum l := by
  induction l with
  | nil => rfl
  | cons x xs ih =>
    simp only [List.reverse_cons, isum_append, isum_cons, isum_nil, ih]; omega

theorem isum_perm {l₁ l₂ : List Int} (h : l₁.Perm l₂) : isum l₁ = isum l₂ := by
  induction h with
  | nil => rfl
  | cons x _ ih => simp only [isum_cons, ih]
  | swap x y l => simp only [isum_cons]; omega
  | trans _ _ ih₁ ih₂ => exact ih₁.trans ih₂

/-- total size of a fragment list -/
def fsum (l : List Fragment) : Int := isum (l.map Fragment.byteSize)

theorem fsum_def (l : List Fragment) :
    (l.map Fragment.byteSize).foldl (· + ·) 0 = fsum l := rfl

theorem fsum_nil : fsum [] = 0 := rfl

theorem fsum_cons (f : Fragment) (l : List Fragment) : fsum (f :: l) = f.byteSize + fsum l := by
  unfold fsum; rw [List.map_cons, isum_cons]

theorem fsum_append (l₁ l₂ : List Fragment) : fsum (l₁ ++ l₂) = fsum l₁ + fsum l₂ := by
  unfold fsum; rw [List.map_append, isum_append]

theorem fsum_reverse (l : List Fragment) : fsum l.reverse = fsum l := by
  unfold fsum; rw [List.map_reverse, isum_reverse]

theorem sumSizes_def (l : List Region) : Spec.sumSizes l = isum (l.map Spec.regionSize) := rfl

theorem sumSizes_nil : Spec.sumSizes [] = 0 := rfl

theorem sumSizes_cons (r : Region) (l : List Region) :
    Spec.sumSizes (r :: l) = (r.2 - r.1) + Spec.sumSizes l := by
  rw [sumSizes_def, List.map_cons, isum_cons]; rfl

theorem sumSizes_perm {l₁ l₂ : List Region} (h : l₁.Perm l₂) :
    Spec.sumSizes l₁ = Spec.sumSizes l₂ := by
  rw [sumSizes_def, sumSizes_def]; exact isum_perm (h.map _)

/-! ## the fragment loop -/

theorem findFragments_sum (size : Int) (l : List Region) (last0 : Int) (idx : Nat)
    (acc frags : List Fragment) (last : Int)
    (h : findFragments size l last0 idx acc = .ok (frags, last)) :
    fsum frags + Spec.sumSizes l = fsum acc + last - last0 := by
  induction l generalizing last0 idx acc with
  | nil =>
    simp only [findFragments, Except.ok.injEq, Prod.mk.injEq] at h
    obtain ⟨h1, h2⟩ := h
    subst h1; subst h2
    rw [fsum_reverse, sumSizes_nil]; omega
  | cons r rest ih =>
    unfold findFragments at h
    by_cases hs : last0 ≥ size
    · simp only [hs, if_true] at h; cases h
    · simp only [hs, if_false] at h
      by_cases hr : r.1 = last0
      · simp only [hr, ne_eq, not_true_eq_false, if_false] at h
        have := ih _ _ _ h
        rw [sumSizes_cons]; omega
      · simp only [hr, ne_eq, not_false_eq_true, if_true] at h
        have := ih _ _ _ h
        rw [fsum_cons] at this
        simp only [Fragment.byteSize] at this
        rw [sumSizes_cons]; omega

theorem telescoping (size : Int) (sorted : List Region) (cs : Int) (frags : List Fragment) (last : Int)
    (h : findFragments size sorted cs 0 [] = .ok (frags, last)) :
    ((frags.map Fragment.byteSize).foldl (· + ·) 0) + Spec.sumSizes sorted = last - cs := by
  have := findFragments_sum size sorted cs 0 [] frags last h
  rw [fsum_def]; rw [fsum_nil] at this; omega

/-! ## inversion of `layoutCheck` -/

/-- the fragment list `layoutCheck` reports -/
def finalFrags (regions : List Region) (size : Nat) (frags : List Fragment) (last : Int) : List Fragment :=
  if regions ≠ [] ∧ last < (size : Int) then frags ++ [⟨frags.length, last, size⟩] else frags

theorem layoutCheck_inv (strict : Bool) (size preface cs fragHdr : Nat) (regions : List Region)
    (cellTotal fbTotal : Int) (L : LayoutResult)
    (h : layoutCheck strict size preface cs fragHdr regions cellTotal fbTotal = .ok L) :
    ∃ frags last, findFragments size (sortRegions regions) cs 0 [] = .ok (frags, last) ∧
      L.fragments = finalFrags regions size frags last ∧
      L.fragTotal = fsum L.fragments ∧
      L.accounted = (preface : Int) + ((cs : Int) - preface) + (cellTotal + fbTotal + L.fragTotal) ∧
      fragHdr ≤ 60 ∧
      (strict = true → L.fragTotal = fragHdr ∧ L.accounted = size) := by
  simp only [layoutCheck, bind, Except.bind, pure, Except.pure] at h
  cases hf : findFragments (size : Int) (sortRegions regions) (cs : Int) 0 [] with
  | error e => rw [hf] at h; cases h
  | ok p =>
    obtain ⟨frags, last⟩ := p
    rw [hf] at h
    simp only [Generated.PAGE_FRAGMENT_LIMIT] at h
    refine ⟨frags, last, rfl, ?_⟩
    have hF : finalFrags regions size frags last =
        (if regions ≠ [] ∧ last < (size : Int) then frags ++ [⟨frags.length, last, size⟩] else frags) := rfl
    generalize (if regions ≠ [] ∧ last < (size : Int) then frags ++ [⟨frags.length, last, size⟩] else frags) = F at h hF
    rw [hF]
    split at h
    · cases h
    · rename_i h60
      split at h
      · cases h
      · rename_i hft
        split at h
        · cases h
        · rename_i hacc
          simp only [Except.ok.injEq] at h
          subst h
          refine ⟨rfl, rfl, rfl, by omega, ?_⟩
          intro hs
          subst hs
          simp only [and_true, ne_eq, Decidable.not_not] at hft hacc
          exact ⟨hft, hacc⟩

theorem layoutCheck_intro (strict : Bool) (size preface cs fragHdr : Nat) (regions : List Region)
    (cellTotal fbTotal : Int) (frags : List Fragment) (last : Int)
    (hf : findFragments size (sortRegions regions) cs 0 [] = .ok (frags, last))
    (h60 : fragHdr ≤ 60)
    (hft : fsum (finalFrags regions size frags last) = fragHdr)
    (hacc : (preface : Int) + ((cs : Int) - preface) +
      (cellTotal + fbTotal + fsum (finalFrags regions size frags last)) = size) :
    layoutCheck strict size preface cs fragHdr regions cellTotal fbTotal =
      .ok ⟨finalFrags regions size frags last, fsum (finalFrags regions size frags last),
        (preface : Int) + ((cs : Int) - preface) +
          (cellTotal + fbTotal + fsum (finalFrags regions size frags last))⟩ := by
  simp only [layoutCheck, bind, Except.bind, pure, Except.pure]
  rw [hf]
  simp only [Generated.PAGE_FRAGMENT_LIMIT]
  have h60' : ¬ fragHdr > 60 := by omega
  simp only [fsum, isum, finalFrags] at hft hacc ⊢
  rw [if_neg h60']
  rw [if_neg (by rw [hft]; simp), if_neg (by rw [hacc]; simp)]

theorem strict_checks (size preface cs fragHdr : Nat) (regions : List Region) (cellTotal fbTotal : Int)
    (L : LayoutResult)
    (h : layoutCheck true size preface cs fragHdr regions cellTotal fbTotal = .ok L) :
    L.fragTotal = fragHdr ∧ fragHdr ≤ 60 ∧
      (preface : Int) + ((cs : Int) - preface) + (cellTotal + fbTotal + L.fragTotal) = size := by
  obtain ⟨frags, last, _, _, _, hacc, h60, hs⟩ := layoutCheck_inv _ _ _ _ _ _ _ _ _ h
  obtain ⟨h1, h2⟩ := hs rfl
  exact ⟨h1, h60, by rw [← hacc]; exact h2⟩

theorem strict_irrelevant (size preface cs fragHdr : Nat) (regions : List Region) (cellTotal fbTotal : Int)
    (L : LayoutResult)
    (h : layoutCheck true size preface cs fragHdr regions cellTotal fbTotal = .ok L) :
    layoutCheck false size preface cs fragHdr regions cellTotal fbTotal = .ok L := by
  obtain ⟨frags, last, hf, hfr, hft, hacc, h60, hs⟩ := layoutCheck_inv _ _ _ _ _ _ _ _ _ h
  obtain ⟨h1, h2⟩ := hs rfl
  have := layoutCheck_intro false size preface cs fragHdr regions cellTotal fbTotal frags last hf h60
    (by rw [← hfr, ← hft]; exact h1) (by rw [← hfr, ← hft, ← hacc]; exact h2)
  rw [this]
  cases L
  simp only at hfr hft hacc
  subst hfr
  subst hft
  subst hacc
  rfl

/-! ## well-formed layouts -/

/-- regions in address order from `lo`, without overlap, each non-empty, all below `size` -/
def OrdChain (size : Int) : Int → List Region → Prop
  | lo, [] => lo ≤ size
  | lo, r :: rest => lo ≤ r.1 ∧ r.1 < r.2 ∧ r.2 ≤ size ∧ OrdChain size r.2 rest

theorem ordChain_of_pairwise (size : Int) (l : List Region) (lo : Int) (hlo : lo ≤ size)
    (hp : l.Pairwise (fun a b => a.2 ≤ b.1))
    (hm : ∀ r ∈ l, r.1 < r.2 ∧ lo ≤ r.1 ∧ r.2 ≤ size) : OrdChain size lo l := by
  induction l generalizing lo with
  | nil => exact hlo
  | cons r rest ih =>
    rw [List.pairwise_cons] at hp
    have hr := hm r (List.mem_cons_self)
    refine ⟨hr.2.1, hr.1, hr.2.2, ih r.2 hr.2.2 hp.2 ?_⟩
    intro r' hr'
    have h1 := hm r' (List.mem_cons_of_mem _ hr')
    exact ⟨h1.1, hp.1 r' hr', h1.2.2⟩

theorem ordChain_sorted {size cs fragHdr : Nat} {regions : List Region}
    (hw : Spec.WellFormedLayout size cs fragHdr regions) :
    OrdChain size cs (sortRegions regions) := by
  have hperm := sortRegions_perm regions
  have hmem : ∀ r ∈ sortRegions regions, r.1 < r.2 ∧ (cs : Int) ≤ r.1 ∧ r.2 ≤ (size : Int) := by
    intro r hr
    have hr' := hperm.mem_iff.mp hr
    exact ⟨hw.nonempty r hr', hw.inside r hr'⟩
  have hdis : (sortRegions regions).Pairwise (fun a b : Region => a.2 ≤ b.1 ∨ b.2 ≤ a.1) := by
    refine (List.Perm.pairwise_iff ?_ hperm).mpr hw.disjoint
    intro a b hab
    exact hab.symm
  have hboth := (sortRegions_sorted regions).and hdis
  apply ordChain_of_pairwise
  · have := hw.cs_le; omega
  · refine List.Pairwise.imp_of_mem ?_ hboth
    intro a b ha hb hab
    have h1 := (hmem a ha).1
    have h2 := (hmem b hb).1
    omega
  · exact hmem

theorem findFragments_ordChain (size : Int) (l : List Region) (lo : Int) (idx : Nat)
    (acc : List Fragment) (h : OrdChain size lo l) :
    ∃ frags last, findFragments size l lo idx acc = .ok (frags, last) ∧ last ≤ size ∧
      (l = [] → last = lo) := by
  induction l generalizing lo idx acc with
  | nil => exact ⟨acc.reverse, lo, rfl, h, fun _ => rfl⟩
  | cons r rest ih =>
    obtain ⟨h1, h2, h3, h4⟩ := h
    unfold findFragments
    have hs : ¬ lo ≥ size := by omega
    simp only [hs, if_false]
    by_cases hr : r.1 = lo
    · simp only [hr, ne_eq, not_true_eq_false, if_false]
      obtain ⟨frags, last, e, hl, _⟩ := ih r.2 idx acc h4
      exact ⟨frags, last, e, hl, fun hn => by cases hn⟩
    · simp only [hr, ne_eq, not_false_eq_true, if_true]
      obtain ⟨frags, last, e, hl, _⟩ := ih r.2 (idx + 1) _ h4
      exact ⟨frags, last, e, hl, fun hn => by cases hn⟩

theorem tiling_chain (size : Int) (l : List Region) (lo : Int) (h : OrdChain size lo l) :
    Spec.Chain lo (Spec.tiling size l lo) size ∧ ∀ g ∈ Spec.tiling size l lo, g.1 < g.2 := by
  induction l generalizing lo with
  | nil =>
    have h : lo ≤ size := h
    unfold Spec.tiling
    by_cases hl : lo < size
    · simp only [hl, if_true]
      refine ⟨⟨rfl, rfl⟩, ?_⟩
      intro g hg
      rw [List.mem_singleton] at hg
      subst hg; exact hl
    · simp only [hl, if_false]
      refine ⟨?_, ?_⟩
      · show lo = size
        omega
      · intro g hg; cases hg
  | cons r rest ih =>
    obtain ⟨h1, h2, h3, h4⟩ := h
    obtain ⟨ihc, ihp⟩ := ih r.2 h4
    unfold Spec.tiling
    by_cases hr : r.1 = lo
    · simp only [hr, ne_eq, not_true_eq_false, if_false, List.nil_append]
      refine ⟨⟨hr, ihc⟩, ?_⟩
      intro g hg
      rcases List.mem_cons.mp hg with hg | hg
      · subst hg; exact h2
      · exact ihp g hg
    · simp only [hr, ne_eq, not_false_eq_true, if_true, List.cons_append, List.nil_append]
      refine ⟨⟨rfl, rfl, ihc⟩, ?_⟩
      intro g hg
      rcases List.mem_cons.mp hg with hg | hg
      · subst hg
        show lo < r.1
        omega
      · rcases List.mem_cons.mp hg with hg | hg
        · subst hg; exact h2
        · exact ihp g hg

/-- region covered by a fragment -/
def fragRegion (f : Fragment) : Region := (f.start, f.end_)

theorem tiling_perm (size : Int) (l : List Region) (last0 : Int) (idx : Nat)
    (acc frags : List Fragment) (last : Int)
    (h : findFragments size l last0 idx acc = .ok (frags, last)) :
    ∃ new, frags = acc.reverse ++ new ∧
      (Spec.tiling size l last0).Perm
        (l ++ (new.map fragRegion ++ (if last < size then [(last, size)] else []))) := by
  induction l generalizing last0 idx acc with
  | nil =>
    simp only [findFragments, Except.ok.injEq, Prod.mk.injEq] at h
    obtain ⟨h1, h2⟩ := h
    subst h1; subst h2
    refine ⟨[], by simp, ?_⟩
    unfold Spec.tiling
    simp only [List.map_nil, List.nil_append]
    exact List.Perm.refl _
  | cons r rest ih =>
    unfold findFragments at h
    by_cases hs : last0 ≥ size
    · simp only [hs, if_true] at h; cases h
    · simp only [hs, if_false] at h
      by_cases hr : r.1 = last0
      · simp only [hr, ne_eq, not_true_eq_false, if_false] at h
        obtain ⟨new, e, hp⟩ := ih _ _ _ h
        refine ⟨new, e, ?_⟩
        unfold Spec.tiling
        simp only [hr, ne_eq, not_true_eq_false, if_false, List.nil_append, List.cons_append]
        exact List.Perm.cons r hp
      · simp only [hr, ne_eq, not_false_eq_true, if_true] at h
        obtain ⟨new, e, hp⟩ := ih _ _ _ h
        refine ⟨⟨idx, last0, r.1⟩ :: new, ?_, ?_⟩
        · rw [e]; simp
        · unfold Spec.tiling
          simp only [hr, ne_eq, not_false_eq_true, if_true, List.nil_append, List.cons_append,
            List.map_cons]
          refine (List.Perm.swap _ _ _).trans (List.Perm.cons r ?_)
          refine (List.Perm.cons _ hp).trans ?_
          exact (List.perm_middle).symm

theorem finalFrags_sum {size cs fragHdr : Nat} {regions : List Region}
    (hw : Spec.WellFormedLayout size cs fragHdr regions) (frags : List Fragment) (last : Int)
    (hf : findFragments size (sortRegions regions) cs 0 [] = .ok (frags, last)) :
    last ≤ size ∧ (regions = [] → ¬ last < (size : Int)) ∧
    fsum (finalFrags regions size frags last) = fragHdr := by
  obtain ⟨frags', last', hf', hl, hnil⟩ :=
    findFragments_ordChain size (sortRegions regions) cs 0 [] (ordChain_sorted hw)
  rw [hf] at hf'
  simp only [Except.ok.injEq, Prod.mk.injEq] at hf'
  obtain ⟨e1, e2⟩ := hf'
  subst e1; subst e2
  have hnil' : regions = [] → ¬ last < (size : Int) := by
    intro hn
    have := hnil (by rw [hn]; rfl)
    have := hw.empty_page hn
    omega
  refine ⟨hl, hnil', ?_⟩
  have ht := findFragments_sum size (sortRegions regions) cs 0 [] frags last hf
  rw [fsum_nil, sumSizes_perm (sortRegions_perm regions)] at ht
  have hc := hw.fragcount
  unfold finalFrags
  by_cases hlt : last < (size : Int)
  · have hne : regions ≠ [] := fun hn => hnil' hn hlt
    rw [if_pos ⟨hne, hlt⟩, fsum_append, fsum_cons, fsum_nil]
    simp only [Fragment.byteSize]
    omega
  · rw [if_neg (fun hc => hlt hc.2)]
    omega

theorem accepts_wellformed (strict : Bool) (size preface cs fragHdr : Nat) (regions : List Region)
    (cellTotal fbTotal : Int)
    (hw : Spec.WellFormedLayout size cs fragHdr regions)
    (_hpre : preface ≤ cs) (htot : cellTotal + fbTotal = Spec.sumSizes regions) :
    ∃ L, layoutCheck strict size preface cs fragHdr regions cellTotal fbTotal = .ok L ∧
      L.fragTotal = fragHdr ∧ L.accounted = size := by
  obtain ⟨frags, last, hf, _, _⟩ :=
    findFragments_ordChain size (sortRegions regions) cs 0 [] (ordChain_sorted hw)
  obtain ⟨_, _, hsum⟩ := finalFrags_sum hw frags last hf
  have hacc : (preface : Int) + ((cs : Int) - preface) +
      (cellTotal + fbTotal + fsum (finalFrags regions size frags last)) = size := by
    rw [hsum, htot]
    have := hw.fragcount
    omega
  refine ⟨_, layoutCheck_intro strict size preface cs fragHdr regions cellTotal fbTotal frags last hf
    hw.fraglimit hsum hacc, hsum, hacc⟩

theorem tiles (strict : Bool) (size preface cs fragHdr : Nat) (regions : List Region)
    (cellTotal fbTotal : Int) (L : LayoutResult)
    (hw : Spec.WellFormedLayout size cs fragHdr regions)
    (h : layoutCheck strict size preface cs fragHdr regions cellTotal fbTotal = .ok L) :
    let t := Spec.tiling size (sortRegions regions) cs
    Spec.Chain cs t size ∧ (∀ g ∈ t, g.1 < g.2) ∧
      t.Perm (sortRegions regions ++ L.fragments.map fun f => (f.start, f.end_)) := by
  intro t
  obtain ⟨hc, hp⟩ := tiling_chain size (sortRegions regions) cs (ordChain_sorted hw)
  refine ⟨hc, hp, ?_⟩
  obtain ⟨frags, last, hf, hfr, _⟩ := layoutCheck_inv _ _ _ _ _ _ _ _ _ h
  obtain ⟨_, hnil, _⟩ := finalFrags_sum hw frags last hf
  obtain ⟨new, e, hperm⟩ := tiling_perm size (sortRegions regions) cs 0 [] frags last hf
  simp only [List.reverse_nil, List.nil_append] at e
  subst e
  rw [hfr]
  refine hperm.trans ?_
  unfold finalFrags
  by_cases hlt : last < (size : Int)
  · have hne : regions ≠ [] := fun hn => hnil hn hlt
    have hboth : regions ≠ [] ∧ last < (size : Int) := ⟨hne, hlt⟩
    simp only [if_pos hlt, if_pos hboth, List.map_append, List.map_cons, List.map_nil]
    exact List.Perm.refl _
  · have hboth : ¬ (regions ≠ [] ∧ last < (size : Int)) := fun hc => hlt hc.2
    simp only [if_neg hlt, if_neg hboth, List.append_nil]
    exact List.Perm.refl _

theorem example_wellformed :
    Spec.WellFormedLayout 200 100 5 [(100, 130), (132, 150), (150, 197)] where
  cs_le := by decide
  nonempty := by decide
  inside := by decide
  disjoint := by decide
  fragcount := by decide
  fraglimit := by decide
  empty_page := by intro h; cases h

/-! ## freeblock walk -/

theorem slice_WF (b : Buf) (hb : b.WF) (lo hi : Nat) : (b.slice lo hi).WF := by
  intro i hi'
  simp only [Buf.slice] at hi' ⊢
  apply hb
  omega

theorem pySlice_WF (b : Buf) (hb : b.WF) (lo hi : Int) : (pySlice b lo hi).WF := by
  unfold pySlice
  exact slice_WF b hb _ _

theorem beN2_lt (s : Buf) (hs : s.WF) (h2 : s.size = 2) : s.beN 0 2 < 65536 := by
  have h0 := hs 0 (by omega)
  have h1 := hs 1 (by omega)
  simp only [Buf.beN, Nat.zero_add, Nat.add_zero]
  omega

theorem unpackAt_err (b : Buf) (lo : Int) (n : Nat) (e : PyErr)
    (h : unpackAt b lo n = .error e) : e = .structError := by
  unfold unpackAt at h
  simp only at h
  split at h
  · cases h
  · cases h; rfl

theorem unpackAt2_lt (b : Buf) (hb : b.WF) (lo : Int) (v : Nat)
    (h : unpackAt b lo 2 = .ok v) : v < 65536 := by
  unfold unpackAt at h
  simp only at h
  split at h
  · rename_i hsz
    simp only [Except.ok.injEq] at h
    subst h
    exact beN2_lt _ (pySlice_WF b hb _ _) hsz
  · cases h

theorem parseFreeblock_cases (page : Buf) (hb : page.WF) (idx off : Nat) :
    parseFreeblock page idx off = .error .structError ∨
    ∃ next sz, parseFreeblock page idx off = .ok ⟨idx, off, next, sz⟩ ∧ next < 65536 := by
  simp only [parseFreeblock, bind, Except.bind, pure, Except.pure,
    Generated.NEXT_FREEBLOCK_OFFSET_LENGTH, Generated.FREEBLOCK_BYTE_LENGTH]
  cases h1 : unpackAt page (off : Int) 2 with
  | error e => left; rw [unpackAt_err _ _ _ _ h1]
  | ok next =>
    simp only
    cases h2 : unpackAt page ((off : Int) + ((2 : Nat) : Int)) 2 with
    | error e => left; rw [unpackAt_err _ _ _ _ h2]
    | ok sz => right; exact ⟨next, sz, rfl, unpackAt2_lt page hb _ _ h1⟩

theorem walk_no_rec (page : Buf) (hb : page.WF) (fuel idx off : Nat) (acc : List Freeblock)
    (h1 : 1 ≤ fuel) (h2 : 65536 - off ≤ fuel) :
    freeblockWalk page fuel idx off acc ≠ .error .recursionError := by
  induction fuel generalizing idx off acc with
  | zero => omega
  | succ fuel ih =>
    unfold freeblockWalk
    simp only [bind, Except.bind, pure, Except.pure]
    rcases parseFreeblock_cases page hb idx off with hp | ⟨next, sz, hp, hn⟩
    · rw [hp]; simp
    · rw [hp]
      simp only
      by_cases hz : next = 0
      · simp [hz]
      · simp only [hz, if_false]
        by_cases hle : next ≤ off
        · simp [hle]
        · simp only [hle, if_false]
          exact ih _ _ _ (by omega) (by omega)

theorem freeblock_walk_bounded (page : Buf) (hb : page.WF) (first : Nat) :
    freeblockWalk page 65537 0 first [] ≠ .error .recursionError :=
  walk_no_rec page hb 65537 0 first [] (by omega) (by omega)

theorem walk_spec (page : Buf) (hb : page.WF) (fuel idx off : Nat) (acc fbs : List Freeblock)
    (h : freeblockWalk page fuel idx off acc = .ok fbs) :
    ∃ new, fbs = acc.reverse ++ new ∧
      new.Pairwise (fun a b => a.start < b.start) ∧
      (∀ f ∈ new, f.start = off ∨ (off < f.start ∧ f.start < 65536)) ∧
      new.length + min off 65535 ≤ 65536 := by
  induction fuel generalizing idx off acc with
  | zero => unfold freeblockWalk at h; cases h
  | succ fuel ih =>
    unfold freeblockWalk at h
    simp only [bind, Except.bind, pure, Except.pure] at h
    rcases parseFreeblock_cases page hb idx off with hp | ⟨next, sz, hp, hn⟩
    · rw [hp] at h; cases h
    · rw [hp] at h
      simp only at h
      by_cases hz : next = 0
      · simp only [hz, if_true, Except.ok.injEq] at h
        subst h
        refine ⟨[⟨idx, off, 0, sz⟩], by simp, by simp, ?_, ?_⟩
        · intro f hf
          rw [List.mem_singleton] at hf
          subst hf; left; rfl
        · simp only [List.length_singleton]; omega
      · simp only [hz, if_false] at h
        by_cases hle : next ≤ off
        · simp only [hle, if_true] at h; cases h
        · simp only [hle, if_false] at h
          obtain ⟨new, e, hpw, hmem, hlen⟩ := ih _ _ _ h
          refine ⟨⟨idx, off, next, sz⟩ :: new, ?_, ?_, ?_, ?_⟩
          · rw [e]; simp
          · rw [List.pairwise_cons]
            refine ⟨?_, hpw⟩
            intro f hf
            have := hmem f hf
            show off < f.start
            omega
          · intro f hf
            rcases List.mem_cons.mp hf with hf | hf
            · subst hf; left; rfl
            · have := hmem f hf
              right; omega
          · simp only [List.length_cons]; omega

theorem freeblock_walk_ascending (page : Buf) (hb : page.WF) (first : Nat) (fbs : List Freeblock)
    (h : freeblockWalk page 65537 0 first [] = .ok fbs) :
    fbs.Pairwise (fun a b => a.start < b.start) ∧ fbs.length ≤ 65536 ∧
      (∀ f ∈ fbs, f.start < 65536 ∨ f.start = first) := by
  obtain ⟨new, e, hpw, hmem, hlen⟩ := walk_spec page hb _ _ _ _ _ h
  simp only [List.reverse_nil, List.nil_append] at e
  subst e
  refine ⟨hpw, by omega, ?_⟩
  intro f hf
  have := hmem f hf
  omega

end SqliteDissect.Proofs.Layout
