import SqliteDissect.Model.Page
import SqliteDissect.Spec.PageFmt
namespace SqliteDissect.Proofs.Layout
end SqliteDissect.Proofs.Layout
