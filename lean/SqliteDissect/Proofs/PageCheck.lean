/-
Soundness of the executable page-layout checker `Spec.pageLaidOutB` (run by the harness on pages
written by SQLite) with respect to the predicate `Spec.PageLaidOut` the theorems are stated over.
-/
import SqliteDissect.Spec.PageWrite
namespace SqliteDissect.Proofs.PageCheck
open SqliteDissect SqliteDissect.Model
open SqliteDissect.Spec

theorem freeblocksAtB_sound (bytes : List Nat) : ∀ (l : List (Nat × Nat)),
    freeblocksAtB bytes l = true → FreeblocksAt bytes l := by
  intro l
  induction l with
  | nil => intro _; trivial
  | cons f rest ih =>
    intro h
    cases rest with
    | nil =>
      simp only [freeblocksAtB, decide_eq_true_eq] at h
      exact h
    | cons g rest' =>
      simp only [freeblocksAtB, Bool.and_eq_true, decide_eq_true_eq] at h
      exact ⟨h.1.1, h.1.2, ih h.2⟩

theorem disjointB_sound : ∀ (l : List Region), disjointB l = true →
    l.Pairwise fun a b => a.2 ≤ b.1 ∨ b.2 ≤ a.1 := by
  intro l
  induction l with
  | nil => intro _; exact List.Pairwise.nil
  | cons a rest ih =>
    intro h
    simp only [disjointB, Bool.and_eq_true, List.all_eq_true, decide_eq_true_eq] at h
    exact List.Pairwise.cons h.1 (ih h.2)

theorem wellFormedLayoutB_sound (size cs fragHdr : Nat) (regions : List Region)
    (h : wellFormedLayoutB size cs fragHdr regions = true) : WellFormedLayout size cs fragHdr regions := by
  simp only [wellFormedLayoutB, Bool.and_eq_true, List.all_eq_true, decide_eq_true_eq] at h
  obtain ⟨⟨⟨⟨⟨⟨h1, h2⟩, h3⟩, h4⟩, h5⟩, h6⟩, h7⟩ := h
  exact ⟨h1, h2, h3, disjointB_sound _ h4, h5, h6, h7⟩

/-- a page the checker accepts is laid out as the specification says -/
theorem pageLaidOutB_sound (u : Nat) (bytes : List Nat) (L : PageLayout)
    (h : pageLaidOutB u bytes L = true) : PageLaidOut u bytes L := by
  simp only [pageLaidOutB, Bool.and_eq_true, List.all_eq_true, decide_eq_true_eq] at h
  obtain ⟨⟨⟨⟨⟨⟨⟨⟨⟨⟨h1, h2⟩, h3⟩, h4⟩, h5⟩, h6⟩, h7⟩, h8⟩, h9⟩, h10⟩, h11⟩ := h
  exact ⟨h1, h2, h3, h4, h5, h6, h7, freeblocksAtB_sound _ _ h8, h9, h10, wellFormedLayoutB_sound _ _ _ _ h11⟩


/-! ### the checker is exact: it accepts every laid-out page -/

theorem freeblocksAtB_complete (bytes : List Nat) : ∀ (l : List (Nat × Nat)),
    FreeblocksAt bytes l → freeblocksAtB bytes l = true := by
  intro l
  induction l with
  | nil => intro _; rfl
  | cons f rest ih =>
    intro h
    cases rest with
    | nil =>
      simp only [freeblocksAtB, decide_eq_true_eq]
      exact h
    | cons g rest' =>
      simp only [freeblocksAtB, Bool.and_eq_true, decide_eq_true_eq]
      exact ⟨⟨h.1, h.2.1⟩, ih h.2.2⟩

theorem disjointB_complete : ∀ (l : List Region),
    (l.Pairwise fun a b => a.2 ≤ b.1 ∨ b.2 ≤ a.1) → disjointB l = true := by
  intro l
  induction l with
  | nil => intro _; rfl
  | cons a rest ih =>
    intro h
    rw [List.pairwise_cons] at h
    simp only [disjointB, Bool.and_eq_true, List.all_eq_true, decide_eq_true_eq]
    exact ⟨h.1, ih h.2⟩

theorem pageLaidOutB_complete (u : Nat) (bytes : List Nat) (L : PageLayout)
    (h : PageLaidOut u bytes L) : pageLaidOutB u bytes L = true := by
  simp only [pageLaidOutB, wellFormedLayoutB, Bool.and_eq_true, List.all_eq_true, decide_eq_true_eq]
  exact ⟨⟨⟨⟨⟨⟨⟨⟨⟨⟨h.size, h.dbHeader⟩, h.header⟩, h.nptrs⟩, h.ptrArray⟩, h.kinds⟩, h.cellsAt⟩,
    freeblocksAtB_complete _ _ h.freeAt⟩, h.rightMostOk⟩, h.gap⟩,
    ⟨⟨⟨⟨⟨⟨h.layout.cs_le, h.layout.nonempty⟩, h.layout.inside⟩, disjointB_complete _ h.layout.disjoint⟩,
      h.layout.fragcount⟩, h.layout.fraglimit⟩, h.layout.empty_page⟩⟩

theorem pageLaidOutB_iff (u : Nat) (bytes : List Nat) (L : PageLayout) :
    pageLaidOutB u bytes L = true ↔ PageLaidOut u bytes L :=
  ⟨pageLaidOutB_sound u bytes L, pageLaidOutB_complete u bytes L⟩

/-! ### cells without overflow -/

instance (c : Col) : Decidable (ValidCol c) := by unfold ValidCol; infer_instance

/-- executable `CellSpec.Valid` for a cell whose payload fits on the page (page size `u`) -/
def validLocalB (u : Nat) (s : CellSpec) : Bool :=
  (match s.cols with
    | some cols => decide ((∀ c ∈ cols, ValidCol c) ∧ (typeBytes cols).length + 3 < 2 ^ 21 ∧
        (encodeRecord cols).length < 2 ^ 63)
    | none => true) &&
  (match s.rowid with
    | some r => decide (-(2 ^ 63 : Int) ≤ r ∧ r < (2 ^ 63 : Int))
    | none => true) &&
  (match s.leftChild with
    | some lc => decide (lc ≠ 0 ∧ lc < 2 ^ 32)
    | none => true) &&
  decide (s.ovfl = []) && decide (s.overflowBytes u = [])

theorem validLocalB_sound (v : VersionIf) (s : CellSpec) (h : validLocalB v.pageSize s = true) :
    s.Valid v := by
  simp only [validLocalB, Bool.and_eq_true, decide_eq_true_eq] at h
  obtain ⟨⟨⟨⟨h1, h2⟩, h3⟩, h4⟩, h5⟩ := h
  refine ⟨?_, ?_, ?_, ?_, ?_⟩
  · intro cols hc
    rw [hc] at h1
    simpa only [decide_eq_true_eq] using h1
  · intro r hr
    rw [hr] at h2
    simpa only [decide_eq_true_eq] using h2
  · intro lc hl
    rw [hl] at h3
    simpa only [decide_eq_true_eq] using h3
  · rw [h4]; intro p hp; cases hp
  · rw [h4, h5]; rfl

end SqliteDissect.Proofs.PageCheck
