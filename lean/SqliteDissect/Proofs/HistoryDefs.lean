/-
Definitions shared by Properties/C03.lean and Proofs/History.lean (moved verbatim from
Properties/C03.lean so the proof file can mention them).
-/
import SqliteDissect.Model.History

/- `Cell` derives only `Repr, Inhabited` in Model/Page.lean, but all of its field types have
decidable equality; `Properties.C03.classification` uses `n.2 = u` on cells as a `Bool`. -/
deriving instance DecidableEq for SqliteDissect.Model.Cell

namespace SqliteDissect.Properties.C03
open SqliteDissect SqliteDissect.Model

/-- a digest-keyed cell dictionary of one table b-tree version: keys are the cells' digests,
distinct; every cell has a rowid and rowids are distinct (SQLite's rowid uniqueness) -/
structure DictOK (l : List (List Nat × Cell)) : Prop where
  key_is_digest : ∀ e ∈ l, e.1 = e.2.digest
  keys_nodup : (l.map (·.1)).Nodup
  rowid_some : ∀ e ∈ l, e.2.rowid.isSome = true
  rowids_nodup : (l.map (·.2.rowid)).Nodup

/-- the table as a partial map rowid ↦ cell -/
def stateOf (l : List (List Nat × Cell)) (r : Int) : Option Cell :=
  (l.find? fun e => e.2.rowid = some r).map (·.2)

/-- replaying one commit report on a state -/
def applyCommit (s : Int → Option Cell) (A U D : List Cell) (r : Int) : Option Cell :=
  match (A ++ U).find? (fun c => c.rowid = some r) with
  | some c => some c
  | none => if D.any (fun c => c.rowid = some r) then none else s r

end SqliteDissect.Properties.C03
