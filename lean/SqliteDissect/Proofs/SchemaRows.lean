/-
Schema row → root page: a page-1 table b-tree whose leaf cells are stored schema rows
(`Spec.schemaEntryOf`) is read by `parseMasterSchema` into exactly those rows, and the root page
number the tool uses for a table is the `rootpage` column of its row.
-/
import SqliteDissect.Spec.SchemaFmt
import SqliteDissect.Model.Interface
import SqliteDissect.Proofs.TreeParse
import SqliteDissect.Proofs.Codec
import SqliteDissect.Proofs.VersionRows
import SqliteDissect.Proofs.TreeDemo
namespace SqliteDissect.Proofs.SchemaRows
open SqliteDissect SqliteDissect.Model
open SqliteDissect.Spec (CellSpec Col Elementwise TTree TreeLaidOut NodeReported SchemaEntry schemaEntryOf
  StoredSchemaRows schemaOrder schemaRoots)
open SqliteDissect.Proofs.TreeParse

theorem ok_bind {α β : Type} (x : α) (f : α → Py β) : ((Except.ok x : Py α) >>= f) = f x := rfl

/-! ### the type column -/

theorem kind_decodes (enc : Nat) (henc : enc = 1 ∨ enc = 2 ∨ enc = 3) (tb : List Nat) (ty : String)
    (h : Spec.kindOfBytes enc tb = some ty) :
    decodeAscii enc tb = .ok ty ∧ tb ≠ [] ∧
      (ty = "table" ∨ ty = "index" ∨ ty = "view" ∨ ty = "trigger") := by
  unfold Spec.kindOfBytes at h
  have hm := List.mem_of_find?_eq_some h
  have hp := List.find?_some h
  simp only [decide_eq_true_eq] at hp
  subst hp
  simp only [Spec.schemaKinds, List.mem_cons, List.not_mem_nil, or_false] at hm
  rcases henc with rfl | rfl | rfl <;> rcases hm with rfl | rfl | rfl | rfl <;> decide +kernel

/-! ### values of the stored columns -/

theorem textOf_value (c : Col) (b : List Nat) (h : Spec.textOf c = some b) :
    (Spec.reportedCol c).value = .text b := by
  unfold Spec.textOf at h
  unfold Spec.reportedCol
  split at h <;> simp_all

theorem intOrNullOf_value (c : Col) (x : Option Int) (h : Spec.intOrNullOf c = some x) :
    (Spec.reportedCol c).value = (match x with | none => Val.null | some i => .int i) := by
  unfold Spec.intOrNullOf at h
  unfold Spec.reportedCol
  split at h <;> simp_all
  · subst h; rfl
  · subst h; rfl

theorem textOrNullOf_value (c : Col) (x : Option (List Nat)) (h : Spec.textOrNullOf c = some x) :
    (Spec.reportedCol c).value = (match x with | none => Val.null | some b => .text b) := by
  unfold Spec.textOrNullOf at h
  unfold Spec.reportedCol
  split at h <;> simp_all
  · subst h; rfl
  · subst h; rfl

/-- the row sqlite-dissect builds for the entry `e` read from cell `c` of leaf page `lp` -/
def mkRow (lp : Nat) (e : SchemaEntry) (c : Cell) : SchemaRow :=
  ⟨e.rowid, e.type, e.name, e.tblName, e.rootVal, e.sql, lp, c.digest⟩

theorem mkRow_reported (lp : Nat) (e : SchemaEntry) (c : Cell) : e.ReportedAs (mkRow lp e c) :=
  ⟨rfl, rfl, rfl, rfl, rfl, rfl⟩

/-- **cell level**: a stored schema row, reported as the cell level of C01 says, is turned into
its entry by `_create_master_schema_entry_data_named_tuple` + `MasterSchemaRow.__init__` -/
theorem cell_row (u enc : Nat) (henc : enc = 1 ∨ enc = 2 ∨ enc = 3) (lp : Nat) (s : CellSpec) (c : Cell)
    (e : SchemaEntry) (hrep : s.ReportedAs u c) (he : schemaEntryOf enc s = some e) (hsup : e.Supported) :
    schemaRowOfCell enc lp c = .ok (some (mkRow lp e c)) := by
  cases s with
  | tableInterior lc key => simp [schemaEntryOf] at he
  | indexLeaf cols ov => simp [schemaEntryOf] at he
  | indexInterior lc cols ov => simp [schemaEntryOf] at he
  | tableLeaf rowid cols ov =>
    rcases cols with _ | ⟨c0, _ | ⟨c1, _ | ⟨c2, _ | ⟨c3, _ | ⟨c4, _ | ⟨c5, rest⟩⟩⟩⟩⟩⟩ <;>
      try (simp [schemaEntryOf] at he; done)
    simp only [schemaEntryOf, Option.bind_eq_bind, Option.bind_eq_some_iff] at he
    obtain ⟨tb, h0, ty, hty, name, h1, tbl, h2, root, h3, sql, h4, he⟩ := he
    simp only [Option.some.injEq] at he
    subst he
    obtain ⟨hname, htbl, hsql⟩ := hsup
    simp only at hname htbl hsql
    obtain ⟨hdec, htb, hkind⟩ := kind_decodes enc henc tb ty hty
    have hrec : c.record = some (Spec.reportedRecord [c0, c1, c2, c3, c4]) := hrep.record
    have hrid : c.rowid = some rowid := hrep.rowid
    have v0 := textOf_value c0 tb h0
    have v1 := textOf_value c1 name h1
    have v2 := textOf_value c2 tbl h2
    have v3 := intOrNullOf_value c3 root h3
    have v4 := textOrNullOf_value c4 sql h4
    unfold schemaRowOfCell
    simp only [hrec, Spec.reportedRecord, List.map_cons, List.map_nil]
    generalize Spec.reportedCol c0 = k0 at v0 ⊢
    generalize Spec.reportedCol c1 = k1 at v1 ⊢
    generalize Spec.reportedCol c2 = k2 at v2 ⊢
    generalize Spec.reportedCol c3 = k3 at v3 ⊢
    generalize Spec.reportedCol c4 = k4 at v4 ⊢
    have hne : ∀ l : List Nat, l ≠ [] → (!l.isEmpty) = true := by
      intro l hl; cases l <;> simp_all
    have hk : ¬(ty ≠ "table" ∧ ty ≠ "index" ∧ ty ≠ "view" ∧ ty ≠ "trigger") := by
      rcases hkind with h | h | h | h <;> simp [h]
    cases sql with
    | none =>
      simp [v0, v1, v2, v3, v4, valTruthy, valBytes?, hne tb htb, hne name hname, hne tbl htbl, hdec, hk,
        hrid, mkRow, SchemaEntry.rootVal, bind, Except.bind, pure, Except.pure]
      cases root <;> rfl
    | some sb =>
      have hsb : sb ≠ [] := fun h => hsql (by rw [h])
      simp [v0, v1, v2, v3, v4, valTruthy, valBytes?, hne tb htb, hne name hname, hne tbl htbl, hne sb hsb,
        hdec, hk, hrid, mkRow, SchemaEntry.rootVal, bind, Except.bind, pure, Except.pure]
      cases root <;> rfl

/-! ### generic `Elementwise` facts -/

theorem elementwise_mem_left {α β : Type} (R : α → β → Prop) : ∀ (a : List α) (b : List β),
    Elementwise R a b → ∀ x ∈ a, ∃ y ∈ b, R x y := by
  intro a
  induction a with
  | nil => intro b _ x hx; cases hx
  | cons a as ih =>
    intro b h x hx
    cases b with
    | nil => exact absurd h (by simp [Elementwise])
    | cons b bs =>
      rcases List.mem_cons.mp hx with rfl | hx
      · exact ⟨b, List.mem_cons_self, h.1⟩
      · obtain ⟨y, hy, hr⟩ := ih bs h.2 x hx
        exact ⟨y, List.mem_cons_of_mem _ hy, hr⟩

theorem elementwise_mem_right {α β : Type} (R : α → β → Prop) : ∀ (a : List α) (b : List β),
    Elementwise R a b → ∀ y ∈ b, ∃ x ∈ a, R x y := by
  intro a
  induction a with
  | nil =>
    intro b h y hy
    cases b with
    | nil => cases hy
    | cons b bs => exact absurd h (by simp [Elementwise])
  | cons a as ih =>
    intro b h y hy
    cases b with
    | nil => cases hy
    | cons b bs =>
      rcases List.mem_cons.mp hy with rfl | hy
      · exact ⟨a, List.mem_cons_self, h.1⟩
      · obtain ⟨x, hx, hr⟩ := ih bs h.2 y hy
        exact ⟨x, List.mem_cons_of_mem _ hx, hr⟩

/-- filtering both sides with predicates that agree on related elements -/
theorem elementwise_filter {α β : Type} (R : α → β → Prop) (p : α → Bool) (q : β → Bool)
    (hpq : ∀ a b, R a b → p a = q b) : ∀ (a : List α) (b : List β),
    Elementwise R a b → Elementwise R (a.filter p) (b.filter q) := by
  intro a
  induction a with
  | nil =>
    intro b h
    cases b with
    | nil => trivial
    | cons b bs => exact absurd h (by simp [Elementwise])
  | cons a as ih =>
    intro b h
    cases b with
    | nil => exact absurd h (by simp [Elementwise])
    | cons b bs =>
      have hab := hpq a b h.1
      simp only [List.filter_cons]
      cases hq : q b with
      | true => rw [hq] at hab; simp only [hab, if_true]; exact ⟨h.1, ih bs h.2⟩
      | false => rw [hq] at hab; simp only [hab]; exact ih bs h.2

/-- looking an element up by a predicate that singles it out: the last match is related to it -/
theorem lookup_last {α β : Type} (R : α → β → Prop) (xs : List α) (ys : List β)
    (h : Elementwise R xs ys) (x : α) (hx : x ∈ xs) (p : β → Bool)
    (hp1 : ∀ y, R x y → p y = true)
    (hp2 : ∀ x' ∈ xs, ∀ y, R x' y → p y = true → x' = x) :
    ∃ y, (ys.filter p).getLast? = some y ∧ R x y := by
  obtain ⟨y0, hy0, hr0⟩ := elementwise_mem_left R xs ys h x hx
  have hne : ys.filter p ≠ [] := by
    intro he
    have : y0 ∈ ys.filter p := List.mem_filter.mpr ⟨hy0, hp1 y0 hr0⟩
    rw [he] at this
    cases this
  refine ⟨(ys.filter p).getLast hne, List.getLast?_eq_some_getLast hne, ?_⟩
  have hm := List.getLast_mem hne
  obtain ⟨hmy, hpy⟩ := List.mem_filter.mp hm
  obtain ⟨x', hx', hr'⟩ := elementwise_mem_right R xs ys h _ hmy
  rw [← hp2 x' hx' _ hr' hpy]
  exact hr'

/-! ### page and tree level -/

/-- the body of the loop over the cells of one leaf page -/
def cellStep (enc lp : Nat) (a : List SchemaRow) (c : Cell) : Py (List SchemaRow) := do
  match ← schemaRowOfCell enc lp c with
  | some r => pure (a ++ [r])
  | none => pure a

theorem page_rows (u enc : Nat) (henc : enc = 1 ∨ enc = 2 ∨ enc = 3) (lp : Nat) :
    ∀ (ss : List CellSpec) (cs : List Cell) (es : List SchemaEntry) (acc : List SchemaRow),
    Elementwise (fun s c => CellSpec.ReportedAs u s c) ss cs → ss.map (schemaEntryOf enc) = es.map some →
    (∀ e ∈ es, e.Supported) →
    ∃ rows, cs.foldlM (cellStep enc lp) acc = .ok (acc ++ rows) ∧
      Elementwise SchemaEntry.ReportedAs es rows := by
  intro ss
  induction ss with
  | nil =>
    intro cs es acc h hm _
    cases cs with
    | cons c cs => exact absurd h (by simp [Elementwise])
    | nil =>
      cases es with
      | cons e es => simp at hm
      | nil => exact ⟨[], by simp [pure, Except.pure], trivial⟩
  | cons s ss ih =>
    intro cs es acc h hm hsup
    cases cs with
    | nil => exact absurd h (by simp [Elementwise])
    | cons c cs =>
      cases es with
      | nil => simp at hm
      | cons e es =>
        simp only [List.map_cons, List.cons.injEq] at hm
        obtain ⟨rows, hf, hr⟩ := ih cs es (acc ++ [mkRow lp e c]) h.2 hm.2
          (fun e' he' => hsup e' (List.mem_cons_of_mem _ he'))
        refine ⟨mkRow lp e c :: rows, ?_, mkRow_reported lp e c, hr⟩
        rw [List.foldlM_cons]
        have hstep : cellStep enc lp acc c = .ok (acc ++ [mkRow lp e c]) := by
          unfold cellStep
          rw [cell_row u enc henc lp s c e h.1 hm.1 (hsup e List.mem_cons_self)]
          rfl
        rw [hstep]
        show List.foldlM (cellStep enc lp) (acc ++ [mkRow lp e c]) cs = _
        rw [hf, List.append_assoc]
        rfl

/-- the body of the loop over the leaf pages -/
def leafStep (enc : Nat) (acc : List SchemaRow) (p : BPage) : Py (List SchemaRow) := do
  let rs ← p.cells.foldlM (cellStep enc p.number) []
  pure (acc ++ rs)

/-- the leaf cells of a list of nodes, in node order -/
def nodeLeafCells (nds : List (Nat × PageType × List CellSpec)) : List CellSpec :=
  nds.flatMap fun nd => if nd.2.1.isInterior then [] else nd.2.2

theorem tree_rows (u enc : Nat) (henc : enc = 1 ∨ enc = 2 ∨ enc = 3) :
    ∀ (nds : List (Nat × PageType × List CellSpec)) (t : List BPage) (es : List SchemaEntry)
      (acc : List SchemaRow),
    Elementwise (NodeReported u) nds t → (nodeLeafCells nds).map (schemaEntryOf enc) = es.map some →
    (∀ e ∈ es, e.Supported) →
    ∃ rows, (t.filter fun p => ¬ p.ptype.isInterior).foldlM (leafStep enc) acc = .ok (acc ++ rows) ∧
      Elementwise SchemaEntry.ReportedAs es rows := by
  intro nds
  induction nds with
  | nil =>
    intro t es acc h hm _
    cases t with
    | cons p t => exact absurd h (by simp [Elementwise])
    | nil =>
      cases es with
      | cons e es => simp [nodeLeafCells] at hm
      | nil => exact ⟨[], by simp [pure, Except.pure], trivial⟩
  | cons nd nds ih =>
    intro t es acc h hm hsup
    cases t with
    | nil => exact absurd h (by simp [Elementwise])
    | cons p t =>
      obtain ⟨⟨hnum, hty, hcells⟩, hrest⟩ := h
      simp only [nodeLeafCells, List.flatMap_cons, List.map_append] at hm
      obtain ⟨e1, e2, hsplit, hm1, hm2⟩ := List.map_eq_append_iff.mp hm.symm
      subst hsplit
      have hs1 : ∀ e ∈ e1, e.Supported := fun e he => hsup e (List.mem_append_left _ he)
      have hs2 : ∀ e ∈ e2, e.Supported := fun e he => hsup e (List.mem_append_right _ he)
      simp only [List.filter_cons, hty]
      cases hint : nd.2.1.isInterior with
      | true =>
        simp only [hint, if_true, List.map_nil] at hm1
        have : e1 = [] := by cases e1 <;> simp_all
        subst this
        simp only [decide_false, Bool.false_eq_true, if_false, not_true_eq_false,
          List.nil_append]
        exact ih t e2 acc hrest hm2.symm hs2
      | false =>
        simp only [hint, Bool.false_eq_true, if_false] at hm1
        obtain ⟨rows1, hf1, hr1⟩ := page_rows u enc henc p.number nd.2.2 p.cells e1 [] hcells hm1.symm hs1
        obtain ⟨rows2, hf2, hr2⟩ := ih t e2 (acc ++ rows1) hrest hm2.symm hs2
        refine ⟨rows1 ++ rows2, ?_, elementwise_append _ _ _ _ _ hr1 hr2⟩
        rw [if_pos (by decide), List.foldlM_cons]
        have hstep : leafStep enc acc p = .ok (acc ++ rows1) := by
          unfold leafStep
          rw [hf1]
          rfl
        rw [hstep]
        show List.foldlM (leafStep enc) (acc ++ rows1) _ = _
        rw [hf2, List.append_assoc]

theorem leaf_cells_reported' (u : Nat) (nds : List (Nat × PageType × List CellSpec)) (t : List BPage)
    (h : Elementwise (NodeReported u) nds t) :
    Elementwise (fun s c => CellSpec.ReportedAs u s c) (nodeLeafCells nds) (leafCells t) := by
  unfold leafCells nodeLeafCells
  apply elementwise_flatMap _ _ _ _ _ _ _ h
  intro nd pg hnp
  obtain ⟨_, h2, h3⟩ := hnp
  rw [h2]
  split
  · trivial
  · exact h3

theorem count_leaf_cells : ∀ (t : List BPage) (a : Nat),
    ((t.filter fun p => ¬ p.ptype.isInterior).map fun p => p.cells.length).foldl (· + ·) a =
      a + (leafCells t).length := by
  intro t
  induction t with
  | nil => intro a; simp [leafCells]
  | cons p t ih =>
    intro a
    simp only [List.filter_cons, leafCells, List.flatMap_cons, List.length_append]
    cases hp : p.ptype.isInterior with
    | true =>
      simp only [not_true_eq_false, decide_false, Bool.false_eq_true, if_false, if_true,
        List.length_nil, Nat.zero_add]
      exact ih a
    | false =>
      simp only [Bool.false_eq_true, not_false_eq_true, decide_true, if_true, if_false, List.map_cons,
        List.foldl_cons]
      have := ih (a + p.cells.length)
      unfold leafCells at this
      rw [this]
      omega

/-- the loop that collects the root page numbers -/
def rootStep (acc : List Nat) (e : SchemaRow) : Py (List Nat) :=
  match e.rootPage with
  | .null => pure acc
  | .int i => if i = 0 then pure acc else if i < 0 then (.error .outsideModel : Py (List Nat)) else pure (acc ++ [i.toNat])
  | _ => .error .outsideModel

def rootNat (e : SchemaEntry) : Option Nat :=
  match e.rootpage with
  | some r => if r = 0 then none else some r.toNat
  | none => none

theorem roots_fold : ∀ (ord : List SchemaEntry) (entries : List SchemaRow) (acc : List Nat),
    Elementwise SchemaEntry.ReportedAs ord entries → (∀ e ∈ ord, e.WellFormed) →
    entries.foldlM rootStep acc = .ok (acc ++ ord.filterMap rootNat) := by
  intro ord
  induction ord with
  | nil =>
    intro entries acc h _
    cases entries with
    | nil => simp [pure, Except.pure]
    | cons r rs => exact absurd h (by simp [Elementwise])
  | cons e ord ih =>
    intro entries acc h hwf
    cases entries with
    | nil => exact absurd h (by simp [Elementwise])
    | cons r rs =>
      rw [List.foldlM_cons]
      have hrp : r.rootPage = e.rootVal := h.1.rootPage
      have hw := hwf e List.mem_cons_self
      have ih' := fun acc' => ih rs acc' h.2 (fun e' he' => hwf e' (List.mem_cons_of_mem _ he'))
      cases hr : e.rootpage with
      | none =>
        have hstep : rootStep acc r = .ok acc := by
          unfold rootStep; rw [hrp]; simp [SchemaEntry.rootVal, hr, pure, Except.pure]
        rw [hstep]
        show List.foldlM rootStep acc rs = _
        rw [ih' acc]
        simp [rootNat, hr]
      | some x =>
        have hx : 0 ≤ x := hw x hr
        by_cases h0 : x = 0
        · have hstep : rootStep acc r = .ok acc := by
            unfold rootStep; rw [hrp]; simp [SchemaEntry.rootVal, hr, h0, pure, Except.pure]
          rw [hstep]
          show List.foldlM rootStep acc rs = _
          rw [ih' acc]
          simp [rootNat, hr, h0]
        · have hstep : rootStep acc r = .ok (acc ++ [x.toNat]) := by
            unfold rootStep; rw [hrp]
            simp [SchemaEntry.rootVal, hr, h0, Int.not_lt.mpr hx, pure, Except.pure]
          rw [hstep]
          show List.foldlM rootStep (acc ++ [x.toNat]) rs = _
          rw [ih' (acc ++ [x.toNat])]
          simp [rootNat, hr, h0]

theorem schemaRoots_eq (es : List SchemaEntry) : schemaRoots es = (schemaOrder es).filterMap rootNat := rfl

theorem reported_type_filter (k : String) (ord : List SchemaEntry) (rows : List SchemaRow)
    (h : Elementwise SchemaEntry.ReportedAs ord rows) :
    Elementwise SchemaEntry.ReportedAs (ord.filter (·.type = k)) (rows.filter (·.rowType = k)) := by
  apply elementwise_filter _ _ _ _ _ _ h
  intro a b hab
  rw [hab.rowType]

/-- `parseMasterSchema` on a non-empty page list, with the loop bodies named -/
theorem parseMasterSchema_cons (v : VersionIf) (enc : Nat) (root : BPage) (rest : List BPage) :
    parseMasterSchema v enc (root :: rest) =
      (let leaves := (root :: rest).filter fun p => ¬ p.ptype.isInterior
       if leaves.any (fun p => p.cells.isEmpty ∧ p.number ≠ 1) then .error .parseError
       else
         leaves.foldlM (leafStep enc) [] >>= fun rows =>
         let allCells : Nat := (leaves.map fun p => p.cells.length).foldl (· + ·) 0
         if allCells = 0 then
           if root.hdr.nCells ≠ 0 then .error .parseError
           else if root.hdr.cellContentOffset ≠ v.pageSize then .error .parseError
           else if root.ptype.isInterior then .error .parseError
           else pure ⟨[], treePageNumbers (root :: rest), []⟩
         else if enc = 0 then .error .parseError
         else
           let ofType := fun (t : String) => rows.filter (·.rowType = t)
           let entries := ofType "table" ++ ofType "index" ++ ofType "view" ++ ofType "trigger"
           entries.foldlM rootStep [] >>= fun roots =>
           pure ⟨entries, treePageNumbers (root :: rest), roots⟩) := rfl

/-- **schema level**: what `MasterSchema.__init__` makes of the pages of a non-empty schema b-tree
whose leaf cells are stored schema rows -/
theorem parse_schema (u enc : Nat) (henc : enc = 1 ∨ enc = 2 ∨ enc = 3)
    (nds : List (Nat × PageType × List CellSpec)) (t : List BPage) (es : List SchemaEntry)
    (hn : Elementwise (NodeReported u) nds t)
    (hm : (nodeLeafCells nds).map (schemaEntryOf enc) = es.map some) (hne : es ≠ [])
    (hsup : ∀ e ∈ es, e.Supported) (hwf : ∀ e ∈ es, e.WellFormed)
    (hleaf : ∀ nd ∈ nds, nd.2.1.isInterior = false → nd.2.2 = [] → nd.1 = 1) :
    ∃ ms, (∀ v : VersionIf, parseMasterSchema v enc t = .ok ms) ∧
      Elementwise SchemaEntry.ReportedAs (schemaOrder es) ms.entries ∧
      ms.rootNumbers = schemaRoots es ∧ ms.pages = treePageNumbers t := by
  have hrep := leaf_cells_reported' u nds t hn
  have hlen : (leafCells t).length = es.length := by
    rw [← elementwise_length _ _ _ hrep]
    have := congrArg List.length hm
    simpa using this
  have hpos : 0 < es.length := by cases es <;> simp_all
  obtain ⟨rows, hfold, hrows⟩ := tree_rows u enc henc nds t es [] hn hm hsup
  cases t with
  | nil => simp [leafCells] at hlen; omega
  | cons root rest =>
    have hany : ((root :: rest).filter fun p => ¬ p.ptype.isInterior).any
        (fun p => p.cells.isEmpty ∧ p.number ≠ 1) = false := by
      rw [List.any_eq_false]
      intro p hp
      obtain ⟨hpm, hpl⟩ := List.mem_filter.mp hp
      obtain ⟨nd, hnd, hnum, hty, hcells⟩ := elementwise_mem_right _ _ _ hn p hpm
      simp only [decide_eq_true_eq, not_and, Decidable.not_not]
      intro hempty
      have hl := elementwise_length _ _ _ hcells
      have hndc : nd.2.2 = [] := by
        have : p.cells = [] := by simpa using hempty
        rw [this] at hl
        exact List.eq_nil_of_length_eq_zero hl
      rw [hnum]
      apply hleaf nd hnd _ hndc
      rw [← hty]
      simpa using hpl
    have hcount := count_leaf_cells (root :: rest) 0
    rw [Nat.zero_add, hlen] at hcount
    have henc0 : enc ≠ 0 := by omega
    have hord : Elementwise SchemaEntry.ReportedAs (schemaOrder es)
        (rows.filter (·.rowType = "table") ++ rows.filter (·.rowType = "index") ++
          rows.filter (·.rowType = "view") ++ rows.filter (·.rowType = "trigger")) := by
      unfold schemaOrder
      exact elementwise_append _ _ _ _ _ (elementwise_append _ _ _ _ _ (elementwise_append _ _ _ _ _
        (reported_type_filter "table" es rows hrows) (reported_type_filter "index" es rows hrows))
        (reported_type_filter "view" es rows hrows)) (reported_type_filter "trigger" es rows hrows)
    have hwf' : ∀ e ∈ schemaOrder es, e.WellFormed := by
      intro e he
      unfold schemaOrder at he
      simp only [List.mem_append, List.mem_filter] at he
      rcases he with ((h | h) | h) | h <;> exact hwf e h.1
    have hroots := roots_fold _ _ [] hord hwf'
    refine ⟨⟨_, treePageNumbers (root :: rest), schemaRoots es⟩, ?_, hord, rfl, rfl⟩
    intro v
    rw [parseMasterSchema_cons]
    simp only [hany, Bool.false_eq_true, if_false]
    have hf' := hfold
    simp only [List.nil_append] at hf'
    have hr' := hroots
    simp only [List.nil_append] at hr'
    rw [hf']
    simp only [ok_bind, hcount, Nat.ne_of_gt hpos, if_false, henc0, hr', schemaRoots_eq]
    rfl

/-! ### the stored rows and their rowids -/

theorem stored_pairs (enc : Nat) : ∀ (cells : List CellSpec) (es : List SchemaEntry),
    StoredSchemaRows enc cells es → Elementwise (fun s e => schemaEntryOf enc s = some e) cells es := by
  intro cells
  induction cells with
  | nil =>
    intro es h
    cases es with
    | nil => trivial
    | cons e es => simp [StoredSchemaRows] at h
  | cons s cells ih =>
    intro es h
    cases es with
    | nil => simp [StoredSchemaRows] at h
    | cons e es =>
      simp only [StoredSchemaRows, List.map_cons, List.cons.injEq] at h
      exact ⟨h.1, ih es h.2⟩

theorem entry_rowid (enc : Nat) (s : CellSpec) (e : SchemaEntry) (h : schemaEntryOf enc s = some e) :
    s.rowid = some e.rowid := by
  cases s with
  | tableInterior lc key => simp [schemaEntryOf] at h
  | indexLeaf cols ov => simp [schemaEntryOf] at h
  | indexInterior lc cols ov => simp [schemaEntryOf] at h
  | tableLeaf rowid cols ov =>
    rcases cols with _ | ⟨c0, _ | ⟨c1, _ | ⟨c2, _ | ⟨c3, _ | ⟨c4, _ | ⟨c5, rest⟩⟩⟩⟩⟩⟩ <;>
      try (simp [schemaEntryOf] at h; done)
    simp only [schemaEntryOf, Option.bind_eq_bind, Option.bind_eq_some_iff] at h
    obtain ⟨_, _, _, _, _, _, _, _, _, _, _, _, he⟩ := h
    simp only [Option.some.injEq] at he
    subst he
    rfl

theorem nodup_map_inj {α β : Type} (f : α → β) : ∀ (l : List α), (l.map f).Nodup →
    ∀ x ∈ l, ∀ y ∈ l, f x = f y → x = y := by
  intro l
  induction l with
  | nil => intro _ x hx; cases hx
  | cons a l ih =>
    intro h x hx y hy hxy
    rw [List.map_cons, List.nodup_cons] at h
    rcases List.mem_cons.mp hx with hxa | hxl <;> rcases List.mem_cons.mp hy with hya | hyl
    · rw [hxa, hya]
    · exact absurd (List.mem_map.mpr ⟨y, hyl, by rw [← hxy, hxa]⟩) h.1
    · exact absurd (List.mem_map.mpr ⟨x, hxl, by rw [hxy, hya]⟩) h.1
    · exact ih h.2 x hxl y hyl hxy

theorem entries_rowid_inj (enc : Nat) (cells : List CellSpec) (es : List SchemaEntry)
    (hes : StoredSchemaRows enc cells es) (hnd : (cells.map (·.rowid)).Nodup) :
    ∀ x ∈ es, ∀ y ∈ es, x.rowid = y.rowid → x = y := by
  have hp := stored_pairs enc cells es hes
  have hm : cells.map (·.rowid) = es.map (fun e => some e.rowid) :=
    elementwise_map_eq _ (·.rowid) (fun e => some e.rowid) (fun s e h => entry_rowid enc s e h) _ _ hp
  rw [hm] at hnd
  intro x hx y hy hxy
  exact nodup_map_inj _ es hnd x hx y hy (by rw [hxy])

theorem mem_schemaOrder (es : List SchemaEntry) (e : SchemaEntry) :
    e ∈ schemaOrder es ↔ e ∈ es ∧ (e.type = "table" ∨ e.type = "index" ∨ e.type = "view" ∨ e.type = "trigger") := by
  unfold schemaOrder
  simp only [List.mem_append, List.mem_filter, decide_eq_true_eq]
  constructor
  · rintro (((h | h) | h) | h)
    · exact ⟨h.1, Or.inl h.2⟩
    · exact ⟨h.1, Or.inr (Or.inl h.2)⟩
    · exact ⟨h.1, Or.inr (Or.inr (Or.inl h.2))⟩
    · exact ⟨h.1, Or.inr (Or.inr (Or.inr h.2))⟩
  · rintro ⟨h, h1 | h1 | h1 | h1⟩
    · exact Or.inl (Or.inl (Or.inl ⟨h, h1⟩))
    · exact Or.inl (Or.inl (Or.inr ⟨h, h1⟩))
    · exact Or.inl (Or.inr ⟨h, h1⟩)
    · exact Or.inr ⟨h, h1⟩

/-! ### the theorems -/

/-- **schema level, from the bytes.**  (`∀ v'`: the result of a non-empty schema does not depend
on the version interface handed to `MasterSchema.__init__`.) -/
theorem schema_rows_strong (v : VersionIf) (hu : 512 ≤ v.pageSize) (hu2 : v.pageSize ≤ 65536)
    (enc : Nat) (henc : enc = 1 ∨ enc = 2 ∨ enc = 3)
    (Ts : TTree) (hp1 : Ts.page = 1) (hT : TreeLaidOut v true Ts) (frames : Nat) (hf : Ts.frames ≤ frames)
    (hpd : Ts.PagesDistinct)
    (hleaf : ∀ nd ∈ Ts.nodes true, nd.2.1.isInterior = false → nd.2.2 = [] → nd.1 = 1)
    (es : List SchemaEntry) (hes : StoredSchemaRows enc Ts.leafCells es) (hne : es ≠ [])
    (hwf : ∀ e ∈ es, e.WellFormed) (hsup : ∀ e ∈ es, e.Supported) :
    ∃ t ms, getBTreeRoot v frames 1 = .ok t ∧ (∀ v' : VersionIf, parseMasterSchema v' enc t = .ok ms) ∧
      Elementwise (NodeReported v.pageSize) (Ts.nodes true) t ∧
      Elementwise SchemaEntry.ReportedAs (schemaOrder es) ms.entries ∧
      ms.rootNumbers = schemaRoots es ∧ ms.pages = treePageNumbers t := by
  obtain ⟨t, ht, hn⟩ := tree_nodes_walk v hu hu2 true frames Ts hT hf hpd
  obtain ⟨L, hk, _, hps⟩ := root_served v true Ts hT
  have hm : (nodeLeafCells (Ts.nodes true)).map (schemaEntryOf enc) = es.map some := by
    have := leafCells_nodes true Ts
    unfold nodeLeafCells
    rw [← this]
    exact hes
  obtain ⟨ms, hms, hent, hroots, hpages⟩ := parse_schema v.pageSize enc henc _ t es hn hm hne hsup hwf hleaf
  refine ⟨t, ms, ?_, hms, hn, hent, hroots, hpages⟩
  rw [← hp1, root_dispatch v Ts.page L hps frames, hk]
  exact ht

theorem ident_reported (e : SchemaEntry) (r : SchemaRow) (h : e.ReportedAs r) : r.ident = e.ident := by
  unfold SchemaRow.ident SchemaEntry.ident
  rw [h.rowid, h.rowType, h.name, h.tableName, h.sql]

/-- what the lookups give for an entry of a schema whose rows are reported as `es`: the identity
lookup of `VersionParser`, the by-name lookup among the admitted `kinds`, the root number list -/
theorem lookups (es : List SchemaEntry) (ms : MasterSchema)
    (hent : Elementwise SchemaEntry.ReportedAs (schemaOrder es) ms.entries)
    (hroots : ms.rootNumbers = schemaRoots es)
    (hinj : ∀ x ∈ es, ∀ y ∈ es, x.rowid = y.rowid → x = y)
    (e : SchemaEntry) (he : e ∈ es)
    (hty : e.type = "table" ∨ e.type = "index" ∨ e.type = "view" ∨ e.type = "trigger")
    (r : Nat) (hr : e.rootpage = some (r : Int)) :
    rootOf ms e.ident = some (.int r) ∧
    (∀ kinds : List String, e.type ∈ kinds →
      (∀ e' ∈ es, e'.type ∈ kinds → e'.name = e.name → e' = e) →
      (entryByName kinds ms e.name).map (·.rootPage) = some (.int r)) ∧
    (r ≠ 0 → r ∈ ms.rootNumbers) := by
  have heo : e ∈ schemaOrder es := (mem_schemaOrder es e).mpr ⟨he, hty⟩
  have hval : e.rootVal = .int r := by simp [SchemaEntry.rootVal, hr]
  refine ⟨?_, ?_, ?_⟩
  · obtain ⟨y, hy, hry⟩ := lookup_last _ _ _ hent e heo (fun row => row.ident = e.ident)
      (fun y hy => by simp [ident_reported e y hy])
      (fun x' hx' y hy hp => by
        have hx := ((mem_schemaOrder es x').mp hx').1
        have h1 : x'.ident = e.ident := by rw [← ident_reported x' y hy]; simpa using hp
        have h2 : x'.rowid = e.rowid := congrArg EntryIdent.rowid h1
        exact hinj x' hx e he h2)
    unfold rootOf
    rw [hy, Option.map_some, hry.rootPage, hval]
  · intro kinds hk huniq
    obtain ⟨y, hy, hry⟩ := lookup_last _ _ _ hent e heo
      (fun row => decide (kinds.contains row.rowType = true ∧ row.name = e.name))
      (fun y hy => by
        rw [decide_eq_true_eq, hy.rowType, hy.name]
        exact ⟨List.contains_iff_mem.mpr hk, rfl⟩)
      (fun x' hx' y hy hp => by
        have hx := ((mem_schemaOrder es x').mp hx').1
        rw [decide_eq_true_eq, hy.rowType, hy.name] at hp
        exact huniq x' hx (List.contains_iff_mem.mp hp.1) hp.2)
    unfold entryByName
    rw [hy, Option.map_some, hry.rootPage, hval]
  · intro hr0
    rw [hroots, schemaRoots_eq, List.mem_filterMap]
    refine ⟨e, heo, ?_⟩
    simp [rootNat, hr, hr0]

theorem aggregate_of_lookup (v : VersionIf) (frames : Nat) (row : Option SchemaRow) (r : Nat)
    (tt : List BPage) (h : row.map (·.rootPage) = some (.int r)) (htt : getBTreeRoot v frames r = .ok tt) :
    ∃ y, row = some y ∧
      aggregateOfRow v frames y = .ok ((aggregateLeafCells tt []).1, (aggregateLeafCells tt []).2.1) := by
  obtain ⟨y, hrow, hrp⟩ := Option.map_eq_some_iff.mp h
  refine ⟨y, hrow, ?_⟩
  unfold aggregateOfRow
  simp only [hrp]
  rw [if_neg (by omega), Int.toNat_natCast, htt]
  rfl

theorem select_table_of_lookup (v : VersionIf) (frames : Nat) (ms : MasterSchema) (name : List Nat) (r : Nat)
    (tt : List BPage) (h : (tableByName ms name).map (·.rootPage) = some (.int r))
    (htt : getBTreeRoot v frames r = .ok tt) :
    selectAllFromTable v frames ms name = .ok ((aggregateLeafCells tt []).1, (aggregateLeafCells tt []).2.1) := by
  obtain ⟨y, hrow, hagg⟩ := aggregate_of_lookup v frames _ r tt h htt
  unfold selectAllFromTable
  simp only [hrow, hagg]

theorem select_index_of_lookup (v : VersionIf) (frames : Nat) (ms : MasterSchema) (name : List Nat) (r : Nat)
    (tt : List BPage) (h : (indexByName ms name).map (·.rootPage) = some (.int r))
    (htt : getBTreeRoot v frames r = .ok tt) :
    selectAllFromIndex v frames ms name = .ok ((aggregateLeafCells tt []).1, (aggregateLeafCells tt []).2.1) := by
  obtain ⟨y, hrow, hagg⟩ := aggregate_of_lookup v frames _ r tt h htt
  unfold selectAllFromIndex
  simp only [hrow, hagg]

/-- the schema part shared by the table and index statements -/
theorem schema_entry_lookup (v : VersionIf) (hu : 512 ≤ v.pageSize) (hu2 : v.pageSize ≤ 65536)
    (enc : Nat) (henc : enc = 1 ∨ enc = 2 ∨ enc = 3)
    (Ts : TTree) (hp1 : Ts.page = 1) (hT : TreeLaidOut v true Ts) (frames : Nat) (hf : Ts.frames ≤ frames)
    (hpd : Ts.PagesDistinct) (hnd : (Ts.leafCells.map (·.rowid)).Nodup)
    (hleaf : ∀ nd ∈ Ts.nodes true, nd.2.1.isInterior = false → nd.2.2 = [] → nd.1 = 1)
    (es : List SchemaEntry) (hes : StoredSchemaRows enc Ts.leafCells es)
    (hwf : ∀ e ∈ es, e.WellFormed) (hsup : ∀ e ∈ es, e.Supported)
    (e : SchemaEntry) (he : e ∈ es)
    (hty : e.type = "table" ∨ e.type = "index" ∨ e.type = "view" ∨ e.type = "trigger")
    (r : Nat) (hr : e.rootpage = some (r : Int)) :
    ∃ t ms, getBTreeRoot v frames 1 = .ok t ∧ (∀ v' : VersionIf, parseMasterSchema v' enc t = .ok ms) ∧
      rootOf ms e.ident = some (.int r) ∧
      (∀ kinds : List String, e.type ∈ kinds →
        (∀ e' ∈ es, e'.type ∈ kinds → e'.name = e.name → e' = e) →
        (entryByName kinds ms e.name).map (·.rootPage) = some (.int r)) ∧
      (r ≠ 0 → r ∈ ms.rootNumbers) := by
  have hne : es ≠ [] := by intro h; rw [h] at he; cases he
  obtain ⟨t, ms, ht, hms, _, hent, hroots, _⟩ :=
    schema_rows_strong v hu hu2 enc henc Ts hp1 hT frames hf hpd hleaf es hes hne hwf hsup
  obtain ⟨h1, h2, h3⟩ := lookups es ms hent hroots (entries_rowid_inj enc _ es hes hnd) e he hty r hr
  exact ⟨t, ms, ht, hms, h1, h2, h3⟩

/-- **schema row → root page → rows** (tables). -/
theorem table_rows_by_name (v : VersionIf) (hu : 512 ≤ v.pageSize) (hu2 : v.pageSize ≤ 65536)
    (enc : Nat) (henc : enc = 1 ∨ enc = 2 ∨ enc = 3)
    (Ts : TTree) (hp1 : Ts.page = 1) (hT : TreeLaidOut v true Ts) (frames : Nat) (hf : Ts.frames ≤ frames)
    (hpd : Ts.PagesDistinct) (hnd : (Ts.leafCells.map (·.rowid)).Nodup)
    (hleaf : ∀ nd ∈ Ts.nodes true, nd.2.1.isInterior = false → nd.2.2 = [] → nd.1 = 1)
    (es : List SchemaEntry) (hes : StoredSchemaRows enc Ts.leafCells es)
    (hwf : ∀ e ∈ es, e.WellFormed) (hsup : ∀ e ∈ es, e.Supported)
    (e : SchemaEntry) (he : e ∈ es) (hty : e.type = "table") (r : Nat) (hr : e.rootpage = some (r : Int))
    (huniq : ∀ e' ∈ es, e'.type = "table" → e'.name = e.name → e' = e)
    (T : TTree) (hTp : T.page = r) (hTl : TreeLaidOut v true T) (framesT : Nat) (hfT : T.frames ≤ framesT)
    (hpdT : T.PagesDistinct) (hndT : (T.leafCells.map (·.rowid)).Nodup) :
    ∃ t ms tt, getBTreeRoot v frames 1 = .ok t ∧ (∀ v' : VersionIf, parseMasterSchema v' enc t = .ok ms) ∧
      rootOf ms e.ident = some (.int r) ∧
      (tableByName ms e.name).map (·.rootPage) = some (.int r) ∧
      selectAllFromTable v framesT ms e.name = .ok ((aggregateLeafCells tt []).1, (aggregateLeafCells tt []).2.1) ∧
      (r ≠ 0 → r ∈ ms.rootNumbers) ∧
      getBTreeRoot v framesT r = .ok tt ∧
      (leafCells tt).map Spec.cellRow = T.leafCells.map CellSpec.row ∧
      (aggregateLeafCells tt []).1 = T.leafCells.length ∧
      (aggregateLeafCells tt []).2.1.map (fun x => Spec.cellRow x.2) = T.leafCells.map CellSpec.row := by
  obtain ⟨t, ms, ht, hms, h1, h2, h3⟩ :=
    schema_entry_lookup v hu hu2 enc henc Ts hp1 hT frames hf hpd hnd hleaf es hes hwf hsup e he (Or.inl hty) r hr
  have hl : (tableByName ms e.name).map (·.rootPage) = some (.int r) :=
    h2 ["table"] (by rw [hty]; exact List.mem_singleton.mpr rfl)
      (fun e' he' hk => huniq e' he' (List.mem_singleton.mp hk))
  obtain ⟨tt, htt, _, hrows, hcount, hdict⟩ := table_tree_rows v hu hu2 T hTl framesT hfT hpdT hndT
  rw [hTp] at htt
  exact ⟨t, ms, tt, ht, hms, h1, hl, select_table_of_lookup v framesT ms e.name r tt hl htt, h3, htt, hrows,
    hcount, hdict⟩

/-- **schema row → root page → entries** (indexes). -/
theorem index_entries_by_name (v : VersionIf) (hu : 512 ≤ v.pageSize) (hu2 : v.pageSize ≤ 65536)
    (enc : Nat) (henc : enc = 1 ∨ enc = 2 ∨ enc = 3)
    (Ts : TTree) (hp1 : Ts.page = 1) (hT : TreeLaidOut v true Ts) (frames : Nat) (hf : Ts.frames ≤ frames)
    (hpd : Ts.PagesDistinct) (hnd : (Ts.leafCells.map (·.rowid)).Nodup)
    (hleaf : ∀ nd ∈ Ts.nodes true, nd.2.1.isInterior = false → nd.2.2 = [] → nd.1 = 1)
    (es : List SchemaEntry) (hes : StoredSchemaRows enc Ts.leafCells es)
    (hwf : ∀ e ∈ es, e.WellFormed) (hsup : ∀ e ∈ es, e.Supported)
    (e : SchemaEntry) (he : e ∈ es) (hty : e.type = "index") (r : Nat) (hr : e.rootpage = some (r : Int))
    (huniq : ∀ e' ∈ es, e'.type = "index" → e'.name = e.name → e' = e)
    (T : TTree) (hTp : T.page = r) (hTl : TreeLaidOut v false T) (framesT : Nat) (hfT : T.frames ≤ framesT)
    (hpdT : T.PagesDistinct) :
    ∃ t ms tt, getBTreeRoot v frames 1 = .ok t ∧ (∀ v' : VersionIf, parseMasterSchema v' enc t = .ok ms) ∧
      rootOf ms e.ident = some (.int r) ∧
      (indexByName ms e.name).map (·.rootPage) = some (.int r) ∧
      selectAllFromIndex v framesT ms e.name = .ok ((aggregateLeafCells tt []).1, (aggregateLeafCells tt []).2.1) ∧
      (r ≠ 0 → r ∈ ms.rootNumbers) ∧
      getBTreeRoot v framesT r = .ok tt ∧
      Elementwise (fun s c => CellSpec.ReportedAs v.pageSize s c) T.allCells (tt.flatMap (·.cells)) ∧
      (tt.flatMap (·.cells)).map Spec.cellRow = T.allCells.map CellSpec.row ∧
      Elementwise (fun s c => CellSpec.ReportedAs v.pageSize s c) T.leafCells (leafCells tt) ∧
      (aggregateLeafCells tt []).1 = T.leafCells.length := by
  obtain ⟨t, ms, ht, hms, h1, h2, h3⟩ :=
    schema_entry_lookup v hu hu2 enc henc Ts hp1 hT frames hf hpd hnd hleaf es hes hwf hsup e he
      (Or.inr (Or.inl hty)) r hr
  have hl : (indexByName ms e.name).map (·.rootPage) = some (.int r) :=
    h2 ["index"] (by rw [hty]; exact List.mem_singleton.mpr rfl)
      (fun e' he' hk => huniq e' he' (List.mem_singleton.mp hk))
  obtain ⟨tt, htt, hall, hallrows, hleafs, hcount⟩ := index_tree_entries v hu hu2 T hTl framesT hfT hpdT
  rw [hTp] at htt
  exact ⟨t, ms, tt, ht, hms, h1, hl, select_index_of_lookup v framesT ms e.name r tt hl htt, h3, htt, hall,
    hallrows, hleafs, hcount⟩

/-! ### version k of a WAL history -/

open SqliteDissect.Spec (snapshotIf) in
/-- the same for version `k` of an accepted history: schema b-tree and table b-tree laid out in
SQLite's snapshot after commit `k` -/
theorem version_table_rows_by_name (cfg : Config) (db : Database) (dbv : VersionIf) (w : Wal)
    (vs : List (Version × VersionIf)) (h : versionHistory cfg db dbv (some w) = .ok vs)
    (k : Nat) (ver : Version) (v : VersionIf) (hk : vs[k]? = some (ver, v))
    (hdb0 : k = 0 → ∃ f, dbv = dbVersionIf cfg w.hdr.pageSize db.dbSize f)
    (hu : 512 ≤ w.hdr.pageSize) (hu2 : w.hdr.pageSize ≤ 65536)
    (enc : Nat) (henc : enc = 1 ∨ enc = 2 ∨ enc = 3)
    (Ts : TTree) (hp1 : Ts.page = 1)
    (hT : TreeLaidOut (snapshotIf cfg.strict dbv db.dbSize.floor w.fh w.hdr.pageSize
      (groupFrames w.frames [] []).1 k) true Ts)
    (frames : Nat) (hf : Ts.frames ≤ frames)
    (hpd : Ts.PagesDistinct) (hnd : (Ts.leafCells.map (·.rowid)).Nodup)
    (hleaf : ∀ nd ∈ Ts.nodes true, nd.2.1.isInterior = false → nd.2.2 = [] → nd.1 = 1)
    (es : List SchemaEntry) (hes : StoredSchemaRows enc Ts.leafCells es)
    (hwf : ∀ e ∈ es, e.WellFormed) (hsup : ∀ e ∈ es, e.Supported)
    (e : SchemaEntry) (he : e ∈ es) (hty : e.type = "table") (r : Nat) (hr : e.rootpage = some (r : Int))
    (huniq : ∀ e' ∈ es, e'.type = "table" → e'.name = e.name → e' = e)
    (T : TTree) (hTp : T.page = r)
    (hTl : TreeLaidOut (snapshotIf cfg.strict dbv db.dbSize.floor w.fh w.hdr.pageSize
      (groupFrames w.frames [] []).1 k) true T)
    (framesT : Nat) (hfT : T.frames ≤ framesT)
    (hpdT : T.PagesDistinct) (hndT : (T.leafCells.map (·.rowid)).Nodup) :
    ∃ t ms tt, getBTreeRoot v frames 1 = .ok t ∧ (∀ v' : VersionIf, parseMasterSchema v' enc t = .ok ms) ∧
      rootOf ms e.ident = some (.int r) ∧
      (tableByName ms e.name).map (·.rootPage) = some (.int r) ∧
      selectAllFromTable v framesT ms e.name = .ok ((aggregateLeafCells tt []).1, (aggregateLeafCells tt []).2.1) ∧
      (r ≠ 0 → r ∈ ms.rootNumbers) ∧
      getBTreeRoot v framesT r = .ok tt ∧
      (leafCells tt).map Spec.cellRow = T.leafCells.map CellSpec.row ∧
      (aggregateLeafCells tt []).1 = T.leafCells.length ∧
      (aggregateLeafCells tt []).2.1.map (fun x => Spec.cellRow x.2) = T.leafCells.map CellSpec.row := by
  obtain ⟨t, ms, tt, ht, hms, h1, h2, _, h3, htt, rest⟩ :=
    table_rows_by_name _ hu hu2 enc henc Ts hp1 hT frames hf hpd hnd hleaf es hes hwf hsup e he hty r hr huniq
      T hTp hTl framesT hfT hpdT hndT
  have htt' := (VersionRows.version_tree_eq_snapshot_tree cfg db dbv w vs h k ver v hk hdb0 framesT r tt).mpr htt
  exact ⟨t, ms, tt,
    (VersionRows.version_tree_eq_snapshot_tree cfg db dbv w vs h k ver v hk hdb0 frames 1 t).mpr ht, hms,
    h1, h2, select_table_of_lookup v framesT ms e.name r tt h2 htt', h3, htt', rest⟩

open SqliteDissect.Spec (snapshotIf) in
/-- … and for an index of version `k` -/
theorem version_index_entries_by_name (cfg : Config) (db : Database) (dbv : VersionIf) (w : Wal)
    (vs : List (Version × VersionIf)) (h : versionHistory cfg db dbv (some w) = .ok vs)
    (k : Nat) (ver : Version) (v : VersionIf) (hk : vs[k]? = some (ver, v))
    (hdb0 : k = 0 → ∃ f, dbv = dbVersionIf cfg w.hdr.pageSize db.dbSize f)
    (hu : 512 ≤ w.hdr.pageSize) (hu2 : w.hdr.pageSize ≤ 65536)
    (enc : Nat) (henc : enc = 1 ∨ enc = 2 ∨ enc = 3)
    (Ts : TTree) (hp1 : Ts.page = 1)
    (hT : TreeLaidOut (snapshotIf cfg.strict dbv db.dbSize.floor w.fh w.hdr.pageSize
      (groupFrames w.frames [] []).1 k) true Ts)
    (frames : Nat) (hf : Ts.frames ≤ frames)
    (hpd : Ts.PagesDistinct) (hnd : (Ts.leafCells.map (·.rowid)).Nodup)
    (hleaf : ∀ nd ∈ Ts.nodes true, nd.2.1.isInterior = false → nd.2.2 = [] → nd.1 = 1)
    (es : List SchemaEntry) (hes : StoredSchemaRows enc Ts.leafCells es)
    (hwf : ∀ e ∈ es, e.WellFormed) (hsup : ∀ e ∈ es, e.Supported)
    (e : SchemaEntry) (he : e ∈ es) (hty : e.type = "index") (r : Nat) (hr : e.rootpage = some (r : Int))
    (huniq : ∀ e' ∈ es, e'.type = "index" → e'.name = e.name → e' = e)
    (T : TTree) (hTp : T.page = r)
    (hTl : TreeLaidOut (snapshotIf cfg.strict dbv db.dbSize.floor w.fh w.hdr.pageSize
      (groupFrames w.frames [] []).1 k) false T)
    (framesT : Nat) (hfT : T.frames ≤ framesT) (hpdT : T.PagesDistinct) :
    ∃ t ms tt, getBTreeRoot v frames 1 = .ok t ∧ (∀ v' : VersionIf, parseMasterSchema v' enc t = .ok ms) ∧
      rootOf ms e.ident = some (.int r) ∧
      (indexByName ms e.name).map (·.rootPage) = some (.int r) ∧
      selectAllFromIndex v framesT ms e.name = .ok ((aggregateLeafCells tt []).1, (aggregateLeafCells tt []).2.1) ∧
      (r ≠ 0 → r ∈ ms.rootNumbers) ∧
      getBTreeRoot v framesT r = .ok tt ∧
      Elementwise (fun s c => CellSpec.ReportedAs w.hdr.pageSize s c) T.allCells (tt.flatMap (·.cells)) ∧
      (tt.flatMap (·.cells)).map Spec.cellRow = T.allCells.map CellSpec.row ∧
      Elementwise (fun s c => CellSpec.ReportedAs w.hdr.pageSize s c) T.leafCells (leafCells tt) ∧
      (aggregateLeafCells tt []).1 = T.leafCells.length := by
  obtain ⟨t, ms, tt, ht, hms, h1, h2, _, h3, htt, rest⟩ :=
    index_entries_by_name _ hu hu2 enc henc Ts hp1 hT frames hf hpd hnd hleaf es hes hwf hsup e he hty r hr huniq
      T hTp hTl framesT hfT hpdT
  have htt' := (VersionRows.version_tree_eq_snapshot_tree cfg db dbv w vs h k ver v hk hdb0 framesT r tt).mpr htt
  exact ⟨t, ms, tt,
    (VersionRows.version_tree_eq_snapshot_tree cfg db dbv w vs h k ver v hk hdb0 frames 1 t).mpr ht, hms,
    h1, h2, select_index_of_lookup v framesT ms e.name r tt h2 htt', h3, htt', rest⟩

/-- a commit record that did not modify the schema re-parses page 1 under itself: what
`version.master_schema` then is -/
theorem observed_schema_unmodified (ver : Version) (v : VersionIf) (frames : Nat) (t : List BPage)
    (ms : MasterSchema) (hm : ver.schemaModified = false) (ht : getBTreeRoot v frames 1 = .ok t)
    (hms : parseMasterSchema v ver.encoding t = .ok ms) : observedSchema ver v frames = .ok (t, ms) := by
  unfold observedSchema
  simp only [hm, Bool.false_eq_true, if_false, ht, ok_bind, hms]
  rfl

/-! ### non-vacuity: a 3-page stub

Page 1 (database header + table leaf) holds the schema row
`(1; 'table', 'x', 'x', 3, 'CREATE TABLE x(a,b)')` in UTF-8; page 3 is `TreeDemo.L3`, the table
leaf with the row `(1; 7, 'hi')`. -/
namespace Demo
open SqliteDissect.Spec SqliteDissect.Proofs.TreeDemo SqliteDissect.Proofs.PageCheck

def sqlX : List Nat := [67, 82, 69, 65, 84, 69, 32, 84, 65, 66, 76, 69, 32, 120, 40, 97, 44, 98, 41]

def schemaRowX : CellSpec :=
  .tableLeaf 1 [⟨23, [116, 97, 98, 108, 101]⟩, ⟨15, [120]⟩, ⟨15, [120]⟩, ⟨1, [3]⟩, ⟨51, sqlX⟩] []

def entryX : SchemaEntry := ⟨1, "table", [120], [120], some 3, some sqlX⟩

def L1 : PageLayout := packLayout 512 100 .tableLeaf [schemaRowX] 0

def schemaTbl : Nat → Option (List Nat)
  | 1 => some (packBytes 512 L1)
  | 3 => some (packBytes 512 L3)
  | _ => none

def schemaV : VersionIf := mkV 512 schemaTbl

def schemaTree : TTree := .leaf 1 [schemaRowX]
def tableTree : TTree := .leaf 3 [row1]

theorem schemaTree_leafCells : schemaTree.leafCells = [schemaRowX] := by simp [schemaTree, TTree.leafCells]
theorem tableTree_leafCells : tableTree.leafCells = [row1] := by simp [tableTree, TTree.leafCells]

theorem demo_stored : StoredSchemaRows 1 schemaTree.leafCells [entryX] := by
  rw [schemaTree_leafCells]; decide +kernel

theorem demo_page1 : PageLaidOut 512 (packBytes 512 L1) L1 := pageLaidOutB_sound _ _ _ (by decide +kernel)

theorem demo_served1 : PageServed schemaV 1 L1 :=
  ⟨_, mkV_serves 512 schemaTbl 1 _ rfl (by decide +kernel), demo_page1, rfl, by
    intro c hc
    apply validLocalB_sound
    revert c
    decide +kernel⟩

theorem demo_served3 : PageServed schemaV 3 L3 :=
  ⟨_, mkV_serves 512 schemaTbl 3 _ rfl (by decide +kernel), TreeDemo.demo_page3, rfl, by
    intro c hc
    apply validLocalB_sound
    revert c
    decide +kernel⟩

theorem demo_schema_laid_out : TreeLaidOut schemaV true schemaTree :=
  TreeLaidOut.leaf 1 _ L1 rfl rfl demo_served1

theorem demo_table_laid_out : TreeLaidOut schemaV true tableTree :=
  TreeLaidOut.leaf 3 _ L3 rfl rfl demo_served3

/-- every hypothesis of `table_rows_by_name` holds for the stub, and its conclusion is: the schema
parses to one entry, both lookups give root page 3, and the table's row is `(1; 7, 'hi')` -/
theorem demo_table_rows_by_name : ∃ t ms tt,
    getBTreeRoot schemaV 1 1 = .ok t ∧ parseMasterSchema schemaV 1 t = .ok ms ∧
    rootOf ms entryX.ident = some (.int 3) ∧ (tableByName ms [120]).map (·.rootPage) = some (.int 3) ∧
    ms.rootNumbers = [3] ∧
    getBTreeRoot schemaV 1 3 = .ok tt ∧
    (leafCells tt).map Spec.cellRow = [(some 1, some [⟨1, 1, 1, .int 7⟩, ⟨17, 1, 2, .text [104, 105]⟩])] := by
  have hmem : ∀ (P : SchemaEntry → Prop), P entryX → ∀ e ∈ [entryX], P e := by
    intro P h e he
    rw [List.mem_singleton] at he
    rw [he]; exact h
  obtain ⟨t, ms, tt, ht, hms, h1, h2, _, h3, htt, hrows, _⟩ :=
    table_rows_by_name schemaV (by decide) (by decide) 1 (Or.inl rfl) schemaTree rfl demo_schema_laid_out 1
      (by simp [schemaTree, TTree.frames]) (by simp [TTree.PagesDistinct, schemaTree, TTree.nodes])
      (by simp [schemaTree, TTree.leafCells])
      (by
        intro nd hnd _ hempty
        simp only [schemaTree, TTree.nodes, List.mem_singleton] at hnd
        rw [hnd] at hempty
        exact absurd hempty (by simp))
      [entryX] demo_stored (hmem _ (by decide)) (hmem _ (by decide))
      entryX List.mem_cons_self rfl 3 rfl (hmem _ (fun _ _ => rfl)) tableTree rfl demo_table_laid_out 1
      (by simp [tableTree, TTree.frames]) (by simp [TTree.PagesDistinct, tableTree, TTree.nodes])
      (by simp [tableTree, TTree.leafCells])
  obtain ⟨t', ms', ht', hms', _, _, hroots, _⟩ :=
    schema_rows_strong schemaV (by decide) (by decide) 1 (Or.inl rfl) schemaTree rfl demo_schema_laid_out 1
      (by simp [schemaTree, TTree.frames]) (by simp [TTree.PagesDistinct, schemaTree, TTree.nodes])
      (by
        intro nd hnd _ hempty
        simp only [schemaTree, TTree.nodes, List.mem_singleton] at hnd
        rw [hnd] at hempty
        exact absurd hempty (by simp))
      [entryX] demo_stored (by simp) (hmem _ (by decide)) (hmem _ (by decide))
  refine ⟨t, ms, tt, ht, hms schemaV, h1, ?_, ?_, htt, ?_⟩
  · exact h2
  · have heq : ms' = ms := by
      have htt' : t' = t := by rw [ht] at ht'; exact (Except.ok.inj ht').symm
      have := hms' schemaV
      rw [htt', hms schemaV] at this
      exact (Except.ok.inj this).symm
    rw [← heq, hroots]
    decide +kernel
  · rw [hrows, tableTree_leafCells]; decide +kernel

/-! ### findings: legal schema rows the tool refuses or misreports -/

/-- `CREATE TABLE ""(a)` — legal for SQLite — stores the row `(1; 'table', '', '', 3, 'CREATE TABLE ""(a)')` -/
def sqlE : List Nat := [67, 82, 69, 65, 84, 69, 32, 84, 65, 66, 76, 69, 32, 34, 34, 40, 97, 41]
def schemaRowE : CellSpec :=
  .tableLeaf 1 [⟨23, [116, 97, 98, 108, 101]⟩, ⟨13, []⟩, ⟨13, []⟩, ⟨1, [3]⟩, ⟨49, sqlE⟩] []
def entryE : SchemaEntry := ⟨1, "table", [], [], some 3, some sqlE⟩
def L1E : PageLayout := packLayout 512 100 .tableLeaf [schemaRowE] 0
def schemaTblE : Nat → Option (List Nat)
  | 1 => some (packBytes 512 L1E)
  | 3 => some (packBytes 512 L3)
  | _ => none
def schemaVE : VersionIf := mkV 512 schemaTblE

theorem demo_page1E : PageLaidOut 512 (packBytes 512 L1E) L1E := pageLaidOutB_sound _ _ _ (by decide +kernel)

theorem demo_served1E : PageServed schemaVE 1 L1E :=
  ⟨_, mkV_serves 512 schemaTblE 1 _ rfl (by decide +kernel), demo_page1E, rfl, by
    intro c hc
    apply validLocalB_sound
    revert c
    decide +kernel⟩

/-- the row is a stored schema row denoting a well-formed entry, its page is laid out as SQLite
lays it out, the b-tree is constructed — and `MasterSchema.__init__` refuses it (the model with
`MasterSchemaRowParsingError`; the code, while formatting that error's message, with
`AttributeError: … has no attribute 'row_type'`) -/
theorem empty_name_rejected :
    StoredSchemaRows 1 [schemaRowE] [entryE] ∧ entryE.WellFormed ∧ ¬ entryE.Supported ∧
    TreeLaidOut schemaVE true (.leaf 1 [schemaRowE]) ∧
    (match getBTreeRoot schemaVE 1 1 with
      | .ok t => (match parseMasterSchema schemaVE 1 t with | .error .parseError => true | _ => false)
      | .error _ => false) = true :=
  ⟨by decide +kernel, by decide, by decide, TreeLaidOut.leaf 1 _ L1E rfl rfl demo_served1E, by decide +kernel⟩

/-- a table `t` and a trigger `t` on another table (legal: triggers have their own name space):
`CREATE TABLE t(a,b)` with root page 3, `CREATE TRIGGER t AFTER INSERT ON u BEGIN SELECT 1; END` -/
def sqlT : List Nat := [67, 82, 69, 65, 84, 69, 32, 84, 65, 66, 76, 69, 32, 116, 40, 97, 44, 98, 41]
def sqlTrig : List Nat :=
  [67, 82, 69, 65, 84, 69, 32, 84, 82, 73, 71, 71, 69, 82, 32, 116, 32, 65, 70, 84, 69, 82, 32, 73, 78, 83, 69, 82,
   84, 32, 79, 78, 32, 117, 32, 66, 69, 71, 73, 78, 32, 83, 69, 76, 69, 67, 84, 32, 49, 59, 32, 69, 78, 68]
def schemaRowT : CellSpec :=
  .tableLeaf 1 [⟨23, [116, 97, 98, 108, 101]⟩, ⟨15, [116]⟩, ⟨15, [116]⟩, ⟨1, [3]⟩, ⟨51, sqlT⟩] []
def schemaRowTrig : CellSpec :=
  .tableLeaf 2 [⟨27, [116, 114, 105, 103, 103, 101, 114]⟩, ⟨15, [116]⟩, ⟨15, [117]⟩, ⟨8, []⟩, ⟨121, sqlTrig⟩] []
def entryT : SchemaEntry := ⟨1, "table", [116], [116], some 3, some sqlT⟩
def entryTrig : SchemaEntry := ⟨2, "trigger", [116], [117], some 0, some sqlTrig⟩
def L1C : PageLayout := packLayout 512 100 .tableLeaf [schemaRowT, schemaRowTrig] 0
def schemaTblC : Nat → Option (List Nat)
  | 1 => some (packBytes 512 L1C)
  | 3 => some (packBytes 512 L3)
  | _ => none
def schemaVC : VersionIf := mkV 512 schemaTblC
def schemaTreeC : TTree := .leaf 1 [schemaRowT, schemaRowTrig]

theorem demo_page1C : PageLaidOut 512 (packBytes 512 L1C) L1C := pageLaidOutB_sound _ _ _ (by decide +kernel)

theorem demo_served1C : PageServed schemaVC 1 L1C :=
  ⟨_, mkV_serves 512 schemaTblC 1 _ rfl (by decide +kernel), demo_page1C, rfl, by
    intro c hc
    apply validLocalB_sound
    revert c
    decide +kernel⟩

theorem demo_served3C : PageServed schemaVC 3 L3 :=
  ⟨_, mkV_serves 512 schemaTblC 3 _ rfl (by decide +kernel), TreeDemo.demo_page3, rfl, by
    intro c hc
    apply validLocalB_sound
    revert c
    decide +kernel⟩

theorem schemaTreeC_leafCells : schemaTreeC.leafCells = [schemaRowT, schemaRowTrig] := by
  simp [schemaTreeC, TTree.leafCells]

/-- the lookup before commit c7e48c5 (finding C01Schema-2): the dictionary was keyed by name over
*all* entries -/
def entryByNameOld (ms : MasterSchema) (name : List Nat) : Option SchemaRow :=
  (ms.entries.filter fun e => e.name = name).getLast?

theorem collision_hyps :
    StoredSchemaRows 1 schemaTreeC.leafCells [entryT, entryTrig] ∧
    (∀ e ∈ [entryT, entryTrig], e.WellFormed) ∧ (∀ e ∈ [entryT, entryTrig], e.Supported) ∧
    (∀ e' ∈ [entryT, entryTrig], e'.type = "table" → e'.name = entryT.name → e' = entryT) ∧
    TreeLaidOut schemaVC true schemaTreeC ∧ TreeLaidOut schemaVC true tableTree :=
  ⟨by rw [schemaTreeC_leafCells]; decide +kernel, by decide, by decide, by decide,
    TreeLaidOut.leaf 1 _ L1C rfl rfl demo_served1C, TreeLaidOut.leaf 3 _ L3 rfl rfl demo_served3C⟩

/-- **witness of the repaired finding.**  On the stub with the table `t` (root page 3) and the
trigger `t` (root page 0) the *old* by-name dictionary handed back the trigger's root page 0 for
the name `t` (evaluated by the kernel) -/
theorem old_lookup_shadowed :
    (match getBTreeRoot schemaVC 1 1 with
      | .ok t => (match parseMasterSchema schemaVC 1 t with
        | .ok ms => decide ((entryByNameOld ms entryT.name).map (·.rootPage) = some (.int 0))
        | .error _ => false)
      | .error _ => false) = true := by decide +kernel

/-- the repaired lookups on the same stub, evaluated by the kernel: `tableByName` and
`tableOrIndexByName` give the table's root page 3, `indexByName` finds nothing, the tracking
identity gives 3, and `selectAllFromTable` returns one cell, the row `(1; 7, 'hi')` -/
theorem new_lookup_on_collision :
    (match getBTreeRoot schemaVC 1 1 with
      | .ok t => (match parseMasterSchema schemaVC 1 t with
        | .ok ms => decide ((tableByName ms entryT.name).map (·.rootPage) = some (.int 3) ∧
            (tableOrIndexByName ms entryT.name).map (·.rootPage) = some (.int 3) ∧
            (indexByName ms entryT.name).map (·.rootPage) = none ∧
            rootOf ms entryT.ident = some (.int 3)) &&
          (match selectAllFromTable schemaVC 1 ms entryT.name with
            | .ok (n, d) => decide (n = 1 ∧ d.map (fun x => Spec.cellRow x.2) =
                [(some 1, some [⟨1, 1, 1, .int 7⟩, ⟨17, 1, 2, .text [104, 105]⟩])])
            | .error _ => false)
        | .error _ => false)
      | .error _ => false) = true := by decide +kernel

/-- … and what `table_rows_by_name` yields for it (all hypotheses hold: the trigger is not of type
table) -/
theorem collision_table_rows : ∃ t ms tt,
    getBTreeRoot schemaVC 1 1 = .ok t ∧ parseMasterSchema schemaVC 1 t = .ok ms ∧
    (tableByName ms entryT.name).map (·.rootPage) = some (.int 3) ∧
    selectAllFromTable schemaVC 1 ms entryT.name = .ok ((aggregateLeafCells tt []).1, (aggregateLeafCells tt []).2.1) ∧
    (leafCells tt).map Spec.cellRow = [(some 1, some [⟨1, 1, 1, .int 7⟩, ⟨17, 1, 2, .text [104, 105]⟩])] := by
  obtain ⟨hst, hwf, hsup, huniq, hT, hTt⟩ := collision_hyps
  obtain ⟨t, ms, tt, ht, hms, _, h2, hsel, _, _, hrows, _⟩ :=
    table_rows_by_name schemaVC (by decide) (by decide) 1 (Or.inl rfl) schemaTreeC rfl hT 1
      (by simp [schemaTreeC, TTree.frames]) (by simp [TTree.PagesDistinct, schemaTreeC, TTree.nodes])
      (by rw [schemaTreeC_leafCells]; decide)
      (by
        intro nd hnd _ hempty
        simp only [schemaTreeC, TTree.nodes, List.mem_singleton] at hnd
        rw [hnd] at hempty
        exact absurd hempty (by simp))
      [entryT, entryTrig] hst hwf hsup entryT List.mem_cons_self rfl 3 rfl huniq tableTree rfl hTt 1
      (by simp [tableTree, TTree.frames]) (by simp [TTree.PagesDistinct, tableTree, TTree.nodes])
      (by simp [tableTree, TTree.leafCells])
  refine ⟨t, ms, tt, ht, hms schemaVC, h2, hsel, ?_⟩
  rw [hrows, tableTree_leafCells]; decide +kernel


/-! ### an index found through the schema

Page 1 holds `(1; 'table','x','x',3,…)` and `(2; 'index','ix','x',7,'CREATE INDEX ix ON x(a)')`;
page 7 is `TreeDemo.page7`, the index leaf with the keys 0, 1, ''. -/

def sqlIx : List Nat :=
  [67, 82, 69, 65, 84, 69, 32, 73, 78, 68, 69, 88, 32, 105, 120, 32, 79, 78, 32, 120, 40, 97, 41]
def schemaRowIx : CellSpec :=
  .tableLeaf 2 [⟨23, [105, 110, 100, 101, 120]⟩, ⟨17, [105, 120]⟩, ⟨15, [120]⟩, ⟨1, [7]⟩, ⟨59, sqlIx⟩] []
def entryIx : SchemaEntry := ⟨2, "index", [105, 120], [120], some 7, some sqlIx⟩
def L1I : PageLayout := packLayout 512 100 .tableLeaf [schemaRowX, schemaRowIx] 0
def schemaTblI : Nat → Option (List Nat)
  | 1 => some (packBytes 512 L1I)
  | 3 => some (packBytes 512 L3)
  | 7 => some page7
  | _ => none
def schemaVI : VersionIf := mkV 512 schemaTblI
def schemaTreeI : TTree := .leaf 1 [schemaRowX, schemaRowIx]
def indexTree : TTree := .leaf 7 [key0, key1, keyE]

theorem demo_page1I : PageLaidOut 512 (packBytes 512 L1I) L1I := pageLaidOutB_sound _ _ _ (by decide +kernel)

theorem demo_served1I : PageServed schemaVI 1 L1I :=
  ⟨_, mkV_serves 512 schemaTblI 1 _ rfl (by decide +kernel), demo_page1I, rfl, by
    intro c hc
    apply validLocalB_sound
    revert c
    decide +kernel⟩

theorem demo_served7I : PageServed schemaVI 7 L7 :=
  ⟨_, mkV_serves 512 schemaTblI 7 _ rfl (by decide +kernel), TreeDemo.demo_page7, rfl, by
    intro c hc
    apply validLocalB_sound
    revert c
    decide +kernel⟩

theorem schemaTreeI_leafCells : schemaTreeI.leafCells = [schemaRowX, schemaRowIx] := by
  simp [schemaTreeI, TTree.leafCells]

/-- every hypothesis of `index_entries_by_name` holds for the stub; its conclusion: the index is
found at root page 7 and its three entries are reported -/
theorem demo_index_entries_by_name : ∃ t ms tt,
    getBTreeRoot schemaVI 1 1 = .ok t ∧ parseMasterSchema schemaVI 1 t = .ok ms ∧
    (indexByName ms entryIx.name).map (·.rootPage) = some (.int 7) ∧
    selectAllFromIndex schemaVI 1 ms entryIx.name = .ok ((aggregateLeafCells tt []).1, (aggregateLeafCells tt []).2.1) ∧
    (aggregateLeafCells tt []).1 = 3 ∧
    (tt.flatMap (·.cells)).map Spec.cellRow =
      [(none, some [⟨8, 1, 0, .int 0⟩]), (none, some [⟨9, 1, 0, .int 1⟩]), (none, some [⟨13, 1, 0, .text []⟩])] := by
  obtain ⟨t, ms, tt, ht, hms, _, h2, hsel, _, _, _, hrows, _, hcount⟩ :=
    index_entries_by_name schemaVI (by decide) (by decide) 1 (Or.inl rfl) schemaTreeI rfl
      (TreeLaidOut.leaf 1 _ L1I rfl rfl demo_served1I) 1
      (by simp [schemaTreeI, TTree.frames]) (by simp [TTree.PagesDistinct, schemaTreeI, TTree.nodes])
      (by rw [schemaTreeI_leafCells]; decide)
      (by
        intro nd hnd _ hempty
        simp only [schemaTreeI, TTree.nodes, List.mem_singleton] at hnd
        rw [hnd] at hempty
        exact absurd hempty (by simp))
      [entryX, entryIx] (by rw [schemaTreeI_leafCells]; decide +kernel) (by decide) (by decide)
      entryIx (by decide) rfl 7 rfl (by decide) indexTree rfl
      (TreeLaidOut.leaf 7 _ L7 rfl rfl demo_served7I) 1
      (by simp [indexTree, TTree.frames]) (by simp [TTree.PagesDistinct, indexTree, TTree.nodes])
  have hall : indexTree.allCells = [key0, key1, keyE] := by simp [indexTree, TTree.allCells]
  have hleafs : indexTree.leafCells = [key0, key1, keyE] := by simp [indexTree, TTree.leafCells]
  refine ⟨t, ms, tt, ht, hms schemaVI, h2, hsel, ?_, ?_⟩
  · rw [hcount, hleafs]; rfl
  · rw [hrows, hall]; decide +kernel

end Demo

end SqliteDissect.Proofs.SchemaRows
