/-
Proofs for Properties/GenHdrDiff.lean: `WriteAheadLogCommitRecord._parse_database_header_differences`
re-translated from the Python source on every run (harness/translate/hdrdiff.py ->
Generated/PyHdrDiff.lean), applied to the dictionary `compare_database_headers` produces for two
headers, is the hand-written `Model.classifyDifferences` — same exception class when either fails,
same flags otherwise.

Plan.  `diffOf` is the generated `compare_database_headers` on the Python view (`castDb`) of two model
headers.  Every intermediate value of the working dictionary is `stage ks` = `diffOf` without the keys
`ks` deleted so far; per top-level statement (`block<k>` of the generated file) a *stage lemma* gives
the closed form of the block at its stage in terms of the model header fields: the conditions under
which it raises, the next stage, the flags it sets.  The main theorem chains the stage lemmas and
compares the resulting if-chain with `classifyDifferences` condition by condition.
-/
import SqliteDissect.Generated.PyHdrDiff
import SqliteDissect.Proofs.GenHeader
import SqliteDissect.Proofs.Header
import SqliteDissect.Model.Wal

namespace SqliteDissect.Proofs.GenHdrDiff
open SqliteDissect SqliteDissect.Model SqliteDissect.Generated SqliteDissect.Generated.PyHdrDiff
open SqliteDissect.Proofs.GenHeader SqliteDissect.Proofs.Header

/-! ### dictionaries as association lists -/

def eraseP (p : String → Bool) (d : PyDiffDict) : PyDiffDict := d.filter fun e => !p e.1
def eraseAll (ks : List String) (d : PyDiffDict) : PyDiffDict := eraseP (fun k => ks.contains k) d
def lookup (d : PyDiffDict) (k : String) : Int × Int :=
  match d.find? fun e => e.1 == k with
  | some e => e.2
  | none => (0, 0)

theorem mem_nil (k : String) : pyDictMem [] k = false := rfl
theorem mem_cons (c : Bool) (k' : String) (v : Int × Int) (t : PyDiffDict) (k : String) :
    pyDictMem (pyDiffCons c k' v t) k = ((c && (k' == k)) || pyDictMem t k) := by
  unfold pyDiffCons pyDictMem
  cases c <;> simp

theorem lookup_cons (c : Bool) (k' : String) (v : Int × Int) (t : PyDiffDict) (k : String) :
    lookup (pyDiffCons c k' v t) k = if (c && (k' == k)) = true then v else lookup t k := by
  unfold pyDiffCons lookup
  cases c
  · simp
  · by_cases h : k' = k
    · simp [h]
    · simp [h]

theorem get_eq (d : PyDiffDict) (k : String) :
    pyDictGet d k = if pyDictMem d k = true then .ok (lookup d k) else .error .keyError := by
  unfold pyDictGet lookup pyDictMem
  induction d with
  | nil => rfl
  | cons e t ih =>
    cases h : (e.1 == k)
    · simp only [List.find?_cons, List.any_cons, h, Bool.false_or]
      exact ih
    · simp [List.find?_cons, h]

theorem mem_eraseP (p : String → Bool) (d : PyDiffDict) (k : String) :
    pyDictMem (eraseP p d) k = (!p k && pyDictMem d k) := by
  unfold pyDictMem eraseP
  induction d with
  | nil => simp
  | cons e t ih =>
    cases h : (e.1 == k)
    · cases h2 : p e.1
      · simp only [List.filter_cons, h2, Bool.not_false, if_true, List.any_cons, h, Bool.false_or]
        exact ih
      · simp only [List.filter_cons, h2, Bool.not_true, Bool.false_eq_true, if_false, List.any_cons, h, Bool.false_or]
        exact ih
    · have hk : e.1 = k := by simpa using h
      cases h2 : p e.1
      · simp only [List.filter_cons, h2, Bool.not_false, if_true, List.any_cons, h, Bool.true_or]
        rw [← hk, h2]; rfl
      · simp only [List.filter_cons, h2, Bool.not_true, Bool.false_eq_true, if_false, List.any_cons, h, Bool.true_or]
        rw [ih, ← hk, h2]; rfl

theorem lookup_eraseP (p : String → Bool) (d : PyDiffDict) (k : String) (h : p k = false) :
    lookup (eraseP p d) k = lookup d k := by
  unfold lookup eraseP
  induction d with
  | nil => rfl
  | cons e t ih =>
    cases h1 : (e.1 == k)
    · cases h2 : p e.1
      · simp only [List.filter_cons, h2, Bool.not_false, if_true, List.find?_cons, h1]
        exact ih
      · simp only [List.filter_cons, h2, Bool.not_true, Bool.false_eq_true, if_false, List.find?_cons, h1]
        exact ih
    · have hk : e.1 = k := by simpa using h1
      have h2 : p e.1 = false := by rw [hk]; exact h
      simp only [List.filter_cons, h2, Bool.not_false, if_true, List.find?_cons, h1]

theorem eraseP_eraseP (p q : String → Bool) (d : PyDiffDict) :
    eraseP p (eraseP q d) = eraseP (fun k => p k || q k) d := by
  unfold eraseP
  rw [List.filter_filter]
  congr 1
  funext e
  show (!p e.1 && !q e.1) = !(p e.1 || q e.1)
  cases p e.1 <;> cases q e.1 <;> rfl

theorem eraseP_of_not_mem (k : String) (d : PyDiffDict) (h : pyDictMem d k = false) :
    eraseP (fun x => [k].contains x) d = d := by
  unfold eraseP
  unfold pyDictMem at h
  rw [List.filter_eq_self]
  intro e he
  have := List.any_eq_false.mp h e he
  simpa using this

theorem del_eq (d : PyDiffDict) (k : String) :
    pyDictDel d k = if pyDictMem d k = true then .ok (eraseAll [k] d) else .error .keyError := by
  unfold pyDictDel eraseAll eraseP
  have : (fun e : String × (Int × Int) => e.1 != k) = (fun e => ![k].contains e.1) := by
    funext e
    by_cases h : e.1 = k
    · simp [h]
    · simp [h]
  rw [this]

theorem isEmpty_eraseP_cons (p : String → Bool) (c : Bool) (k : String) (v : Int × Int) (t : PyDiffDict) :
    pyDictIsEmpty (eraseP p (pyDiffCons c k v t)) = ((!c || p k) && pyDictIsEmpty (eraseP p t)) := by
  unfold pyDictIsEmpty eraseP pyDiffCons
  cases c
  · simp
  · cases h : p k
    · simp [List.filter_cons, h]
    · simp [List.filter_cons, h]
theorem isEmpty_eraseP_nil (p : String → Bool) : pyDictIsEmpty (eraseP p []) = true := rfl
theorem isEmpty_cons (c : Bool) (k : String) (v : Int × Int) (t : PyDiffDict) :
    pyDictIsEmpty (pyDiffCons c k v t) = (!c && pyDictIsEmpty t) := by
  unfold pyDictIsEmpty pyDiffCons
  cases c <;> simp

/-! ### the dictionary of two model headers and its stages -/

/-- What `compare_database_headers(previous, new)` produces for two headers the parser accepted, as a
function of the model headers: the generated reflection loop on their Python views (`castDb`: which
attribute is which model field).  Attribute by attribute:
`page_size`↦`pageSize`, `md5_hex_digest`↦`raw` (md5 is the identity on both sides: the digests differ
iff the 100 bytes differ), `file_format_write_version`↦`writeVersion`, `file_format_read_version`↦
`readVersion`, `reserved_bytes_per_page`↦`reservedBytes`, `maximum_/minimum_embedded_payload_fraction`,
`leaf_payload_fraction`↦`maxFraction`, `minFraction`, `leafFraction`, `file_change_counter`↦
`changeCounter`, `database_size_in_pages`↦`sizeInPages`, `first_freelist_trunk_page_number`↦
`firstFreelistTrunk`, `number_of_freelist_pages`↦`freelistPages`, `schema_cookie`↦`schemaCookie`,
`schema_format_number`↦`schemaFormat`, `default_page_cache_size`↦`defaultCacheSize`,
`largest_root_b_tree_page_number`↦`largestRoot`, `database_text_encoding`↦`textEncoding`, `user_version`↦
`userVersion`, `incremental_vacuum_mode`↦`incrementalVacuum`, `application_id`↦`applicationId`,
`version_valid_for_number`↦`versionValidFor`, `sqlite_version_number`↦`sqliteVersion`.
Two attributes can never differ between accepted headers and are not model fields:
`magic_header_string` (the constructor raises unless it is MAGIC_HEADER_STRING) and
`reserved_for_expansion` (it raises unless the twenty bytes are zero) — `Properties.GenHeader.
database_header_eq` proves that `castDb` of the model header IS the attribute record of the Python
object for every accepted buffer.  `bytesVal` is the (arbitrary) encoding of the byte-string values. -/
def diffOf (bytesVal : List Nat → Int) (prev next : DbHeader) : PyDiffDict :=
  compare_database_headers bytesVal (castDb prev) (castDb next)

/-- the working dictionary after the keys `ks` have been deleted -/
def stage (bv : List Nat → Int) (prev next : DbHeader) (ks : List String) : PyDiffDict :=
  eraseAll ks (diffOf bv prev next)

theorem stage_nil (bv : List Nat → Int) (prev next : DbHeader) : stage bv prev next [] = diffOf bv prev next := by
  unfold stage eraseAll eraseP
  rw [List.filter_eq_self]
  intro e _
  rfl

theorem mem_stage (bv : List Nat → Int) (prev next : DbHeader) (ks : List String) (k : String) :
    pyDictMem (stage bv prev next ks) k = (!ks.contains k && pyDictMem (diffOf bv prev next) k) := by
  unfold stage eraseAll
  exact mem_eraseP _ _ _

theorem lookup_stage (bv : List Nat → Int) (prev next : DbHeader) (ks : List String) (k : String)
    (h : ks.contains k = false) : lookup (stage bv prev next ks) k = lookup (diffOf bv prev next) k := by
  unfold stage eraseAll
  exact lookup_eraseP _ _ _ h

theorem stage_cons (bv : List Nat → Int) (prev next : DbHeader) (ks : List String) (k : String) :
    eraseAll [k] (stage bv prev next ks) = stage bv prev next (k :: ks) := by
  unfold stage eraseAll
  rw [eraseP_eraseP]
  congr 1
  funext x
  simp only [List.contains_cons, List.contains_nil, Bool.or_false]

theorem del_stage (bv : List Nat → Int) (prev next : DbHeader) (ks : List String) (k : String) :
    pyDictDel (stage bv prev next ks) k =
      if pyDictMem (stage bv prev next ks) k = true then .ok (stage bv prev next (k :: ks)) else .error .keyError := by
  rw [del_eq, stage_cons]

/-- deleting a key that is absent changes nothing: the stage reached when the deletion is skipped -/
theorem stage_skip (bv : List Nat → Int) (prev next : DbHeader) (ks : List String) (k : String)
    (h : pyDictMem (stage bv prev next ks) k = false) : stage bv prev next (k :: ks) = stage bv prev next ks := by
  rw [← stage_cons]
  unfold eraseAll
  exact eraseP_of_not_mem k _ h

/-! ### which keys `diffOf` holds, and with which values -/

section facts
variable (bv : List Nat → Int) (prev next : DbHeader)

macro "mem_fact" : tactic => `(tactic|
  (unfold diffOf compare_database_headers castDb
   simp only [mem_cons, mem_nil]
   simp
   try omega))

macro "lookup_fact" : tactic => `(tactic|
  (unfold diffOf compare_database_headers castDb
   simp only [lookup_cons]
   simp
   omega))

theorem mem_md5 : pyDictMem (diffOf bv prev next) "md5_hex_digest" = decide (prev.raw ≠ next.raw) := by mem_fact
theorem mem_cc : pyDictMem (diffOf bv prev next) "file_change_counter" =
    decide (prev.changeCounter ≠ next.changeCounter) := by mem_fact
theorem mem_vv : pyDictMem (diffOf bv prev next) "version_valid_for_number" =
    decide (prev.versionValidFor ≠ next.versionValidFor) := by mem_fact
theorem mem_sz : pyDictMem (diffOf bv prev next) "database_size_in_pages" =
    decide (prev.sizeInPages ≠ next.sizeInPages) := by mem_fact
theorem mem_ft : pyDictMem (diffOf bv prev next) "first_freelist_trunk_page_number" =
    decide (prev.firstFreelistTrunk ≠ next.firstFreelistTrunk) := by mem_fact
theorem mem_fp : pyDictMem (diffOf bv prev next) "number_of_freelist_pages" =
    decide (prev.freelistPages ≠ next.freelistPages) := by mem_fact
theorem mem_lr : pyDictMem (diffOf bv prev next) "largest_root_b_tree_page_number" =
    decide (prev.largestRoot ≠ next.largestRoot) := by mem_fact
theorem mem_ck : pyDictMem (diffOf bv prev next) "schema_cookie" =
    decide (prev.schemaCookie ≠ next.schemaCookie) := by mem_fact
theorem mem_sf : pyDictMem (diffOf bv prev next) "schema_format_number" =
    decide (prev.schemaFormat ≠ next.schemaFormat) := by mem_fact
theorem mem_te : pyDictMem (diffOf bv prev next) "database_text_encoding" =
    decide (prev.textEncoding ≠ next.textEncoding) := by mem_fact
theorem mem_uv : pyDictMem (diffOf bv prev next) "user_version" =
    decide (prev.userVersion ≠ next.userVersion) := by mem_fact
theorem mem_dc : pyDictMem (diffOf bv prev next) "default_page_cache_size" =
    decide (prev.defaultCacheSize ≠ next.defaultCacheSize) := by mem_fact
theorem mem_iv : pyDictMem (diffOf bv prev next) "incremental_vacuum_mode" =
    decide (prev.incrementalVacuum ≠ next.incrementalVacuum) := by mem_fact
theorem mem_ai : pyDictMem (diffOf bv prev next) "application_id" =
    decide (prev.applicationId ≠ next.applicationId) := by mem_fact
theorem mem_sv : pyDictMem (diffOf bv prev next) "sqlite_version_number" =
    decide (prev.sqliteVersion ≠ next.sqliteVersion) := by mem_fact

theorem lookup_cc (h : prev.changeCounter ≠ next.changeCounter) :
    lookup (diffOf bv prev next) "file_change_counter" = ((prev.changeCounter : Int), (next.changeCounter : Int)) := by
  lookup_fact
theorem lookup_vv (h : prev.versionValidFor ≠ next.versionValidFor) :
    lookup (diffOf bv prev next) "version_valid_for_number" =
      ((prev.versionValidFor : Int), (next.versionValidFor : Int)) := by
  lookup_fact
theorem lookup_sz (h : prev.sizeInPages ≠ next.sizeInPages) :
    lookup (diffOf bv prev next) "database_size_in_pages" = ((prev.sizeInPages : Int), (next.sizeInPages : Int)) := by
  lookup_fact
theorem lookup_ft (h : prev.firstFreelistTrunk ≠ next.firstFreelistTrunk) :
    lookup (diffOf bv prev next) "first_freelist_trunk_page_number" =
      ((prev.firstFreelistTrunk : Int), (next.firstFreelistTrunk : Int)) := by
  lookup_fact
theorem lookup_fp (h : prev.freelistPages ≠ next.freelistPages) :
    lookup (diffOf bv prev next) "number_of_freelist_pages" = ((prev.freelistPages : Int), (next.freelistPages : Int)) := by
  lookup_fact
theorem lookup_lr (h : prev.largestRoot ≠ next.largestRoot) :
    lookup (diffOf bv prev next) "largest_root_b_tree_page_number" = ((prev.largestRoot : Int), (next.largestRoot : Int)) := by
  lookup_fact
theorem lookup_ck (h : prev.schemaCookie ≠ next.schemaCookie) :
    lookup (diffOf bv prev next) "schema_cookie" = ((prev.schemaCookie : Int), (next.schemaCookie : Int)) := by
  lookup_fact
theorem lookup_sf (h : prev.schemaFormat ≠ next.schemaFormat) :
    lookup (diffOf bv prev next) "schema_format_number" = ((prev.schemaFormat : Int), (next.schemaFormat : Int)) := by
  lookup_fact
theorem lookup_te (h : prev.textEncoding ≠ next.textEncoding) :
    lookup (diffOf bv prev next) "database_text_encoding" = ((prev.textEncoding : Int), (next.textEncoding : Int)) := by
  lookup_fact

end facts

theorem ite_iff_congr {α : Type} {b c : Prop} [Decidable b] [Decidable c] {x y u v : α}
    (h : b ↔ c) (h2 : x = u) (h3 : y = v) : (if b then x else y) = (if c then u else v) := by
  subst h2 h3
  by_cases hb : b
  · rw [if_pos hb, if_pos (h.mp hb)]
  · rw [if_neg hb, if_neg (fun hc => hb (h.mpr hc))]

/-! ### stage lemmas: each top-level statement of the method at the stage it runs in -/

/-- both sides are the same `if` chain up to the reading of a condition as integer / natural arithmetic -/
macro "arith_ites" : tactic => `(tactic| repeat' (first | rfl | omega | (refine ite_iff_congr ?_ ?_ ?_)))

section stages
variable (bv : List Nat → Int) (prev next : DbHeader) (cs : Nat) (sm : Bool) (s : HeaderDifferenceFlags)

theorem stage1 :
    parse_database_header_differences.block1 (cs : Int) sm (diffOf bv prev next) (diffOf bv prev next) s =
      if prev.raw = next.raw then .error .parseError else .ok (stage bv prev next [], s) := by
  unfold parse_database_header_differences.block1
  rw [stage_nil, mem_md5]
  by_cases h : prev.raw = next.raw <;> simp [h]

theorem stage2 :
    parse_database_header_differences.block2 (cs : Int) sm (diffOf bv prev next) (stage bv prev next []) s =
      if prev.raw = next.raw then .error .keyError else .ok (stage bv prev next ["md5_hex_digest"], s) := by
  unfold parse_database_header_differences.block2
  rw [del_stage, mem_stage, mem_md5]
  by_cases h : prev.raw = next.raw <;> simp [h] <;> rfl

theorem stage3 :
    parse_database_header_differences.block3 (cs : Int) sm (diffOf bv prev next) (stage bv prev next ["md5_hex_digest"]) s =
      if prev.changeCounter ≠ next.changeCounter ∧ ¬ prev.versionValidFor ≠ next.versionValidFor then .error .parseError
      else if prev.versionValidFor ≠ next.versionValidFor ∧ ¬ prev.changeCounter ≠ next.changeCounter then .error .parseError
      else if prev.changeCounter ≠ next.changeCounter ∧ prev.versionValidFor ≠ next.versionValidFor ∧
          prev.changeCounter + 1 ≠ next.changeCounter then .error .parseError
      else if prev.changeCounter ≠ next.changeCounter ∧ prev.versionValidFor ≠ next.versionValidFor ∧
          prev.versionValidFor + 1 ≠ next.versionValidFor then .error .parseError
      else .ok (stage bv prev next ["version_valid_for_number", "file_change_counter", "md5_hex_digest"],
        { s with
          file_change_counter_incremented :=
            decide (prev.changeCounter ≠ next.changeCounter ∧ prev.versionValidFor ≠ next.versionValidFor) ||
              s.file_change_counter_incremented,
          version_valid_for_number_incremented :=
            decide (prev.changeCounter ≠ next.changeCounter ∧ prev.versionValidFor ≠ next.versionValidFor) ||
              s.version_valid_for_number_incremented }) := by
  unfold parse_database_header_differences.block3
  by_cases hc : prev.changeCounter = next.changeCounter <;> by_cases hv : prev.versionValidFor = next.versionValidFor
  · have e1 := stage_skip bv prev next ["md5_hex_digest"] "file_change_counter" (by simp [mem_stage, mem_cc, hc])
    have e2 := stage_skip bv prev next ["file_change_counter", "md5_hex_digest"] "version_valid_for_number"
      (by simp [mem_stage, mem_vv, hv])
    simp [mem_stage, mem_cc, mem_vv, hc, hv, e1, e2]
  · simp [mem_stage, mem_cc, mem_vv, hc, hv, get_eq, ok_bind]
  · simp [mem_stage, mem_cc, mem_vv, hc, hv, get_eq, ok_bind]
  · simp [mem_stage, mem_cc, mem_vv, hc, hv, get_eq, lookup_stage, lookup_cc bv prev next hc, lookup_vv bv prev next hv,
      del_stage, ok_bind]
    arith_ites

theorem stage4 :
    parse_database_header_differences.block4 (cs : Int) sm (diffOf bv prev next) (stage bv prev next ["version_valid_for_number", "file_change_counter", "md5_hex_digest"]) s =
      if prev.sizeInPages ≠ next.sizeInPages ∧ cs ≠ next.sizeInPages then .error .parseError
      else .ok (stage bv prev next ["database_size_in_pages", "version_valid_for_number", "file_change_counter", "md5_hex_digest"],
        { s with database_size_in_pages_modified :=
            decide (prev.sizeInPages ≠ next.sizeInPages) || s.database_size_in_pages_modified }) := by
  unfold parse_database_header_differences.block4
  by_cases h : prev.sizeInPages = next.sizeInPages
  · have e1 := stage_skip bv prev next ["version_valid_for_number", "file_change_counter", "md5_hex_digest"] "database_size_in_pages" (by simp [mem_stage, mem_sz, h])
    simp [mem_stage, mem_sz, h, e1]
  · simp [mem_stage, mem_sz, h, get_eq, lookup_stage, lookup_sz bv prev next h, del_stage, ok_bind]
    arith_ites

theorem stage5 :
    parse_database_header_differences.block5 (cs : Int) sm (diffOf bv prev next) (stage bv prev next ["database_size_in_pages", "version_valid_for_number", "file_change_counter", "md5_hex_digest"]) s =
      .ok (stage bv prev next ["first_freelist_trunk_page_number", "database_size_in_pages", "version_valid_for_number", "file_change_counter", "md5_hex_digest"],
        { s with modified_first_freelist_trunk_page_number :=
            if prev.firstFreelistTrunk ≠ next.firstFreelistTrunk then some (next.firstFreelistTrunk : Int)
            else s.modified_first_freelist_trunk_page_number }) := by
  unfold parse_database_header_differences.block5
  by_cases h : prev.firstFreelistTrunk = next.firstFreelistTrunk
  · have e1 := stage_skip bv prev next ["database_size_in_pages", "version_valid_for_number", "file_change_counter", "md5_hex_digest"] "first_freelist_trunk_page_number" (by simp [mem_stage, mem_ft, h])
    simp [mem_stage, mem_ft, h, e1]
  · simp [mem_stage, mem_ft, h, get_eq, lookup_stage, lookup_ft bv prev next h, del_stage, ok_bind]

theorem stage6 :
    parse_database_header_differences.block6 (cs : Int) sm (diffOf bv prev next) (stage bv prev next ["first_freelist_trunk_page_number", "database_size_in_pages", "version_valid_for_number", "file_change_counter", "md5_hex_digest"]) s =
      .ok (stage bv prev next ["number_of_freelist_pages", "first_freelist_trunk_page_number", "database_size_in_pages", "version_valid_for_number", "file_change_counter", "md5_hex_digest"],
        { s with modified_number_of_freelist_pages :=
            if prev.freelistPages ≠ next.freelistPages then some (next.freelistPages : Int)
            else s.modified_number_of_freelist_pages }) := by
  unfold parse_database_header_differences.block6
  by_cases h : prev.freelistPages = next.freelistPages
  · have e1 := stage_skip bv prev next ["first_freelist_trunk_page_number", "database_size_in_pages", "version_valid_for_number", "file_change_counter", "md5_hex_digest"] "number_of_freelist_pages" (by simp [mem_stage, mem_fp, h])
    simp [mem_stage, mem_fp, h, e1]
  · simp [mem_stage, mem_fp, h, get_eq, lookup_stage, lookup_fp bv prev next h, del_stage, ok_bind]

theorem stage7 :
    parse_database_header_differences.block7 (cs : Int) sm (diffOf bv prev next) (stage bv prev next ["number_of_freelist_pages", "first_freelist_trunk_page_number", "database_size_in_pages", "version_valid_for_number", "file_change_counter", "md5_hex_digest"]) s =
      if prev.largestRoot ≠ next.largestRoot ∧ prev.largestRoot ≠ 0 ∧ next.largestRoot = 0 then .error .parseError
      else if prev.largestRoot ≠ next.largestRoot ∧ prev.largestRoot = 0 ∧ next.largestRoot ≠ 0 then .error .parseError
      else .ok (stage bv prev next ["largest_root_b_tree_page_number", "number_of_freelist_pages", "first_freelist_trunk_page_number", "database_size_in_pages", "version_valid_for_number", "file_change_counter", "md5_hex_digest"],
        { s with modified_largest_root_b_tree_page_number :=
            if prev.largestRoot ≠ next.largestRoot then some (next.largestRoot : Int)
            else s.modified_largest_root_b_tree_page_number }) := by
  unfold parse_database_header_differences.block7
  by_cases h : prev.largestRoot = next.largestRoot
  · have e1 := stage_skip bv prev next ["number_of_freelist_pages", "first_freelist_trunk_page_number", "database_size_in_pages", "version_valid_for_number", "file_change_counter", "md5_hex_digest"] "largest_root_b_tree_page_number" (by simp [mem_stage, mem_lr, h])
    simp [mem_stage, mem_lr, h, e1]
  · simp [mem_stage, mem_lr, h, get_eq, lookup_stage, lookup_lr bv prev next h, del_stage, ok_bind]
    arith_ites

theorem stage8 :
    parse_database_header_differences.block8 (cs : Int) sm (diffOf bv prev next) (stage bv prev next ["largest_root_b_tree_page_number", "number_of_freelist_pages", "first_freelist_trunk_page_number", "database_size_in_pages", "version_valid_for_number", "file_change_counter", "md5_hex_digest"]) s =
      if prev.schemaCookie ≠ next.schemaCookie ∧ prev.schemaCookie > next.schemaCookie then .error .parseError
      else if prev.schemaCookie ≠ next.schemaCookie ∧ ¬ sm = true then .error .parseError
      else if ¬ prev.schemaCookie ≠ next.schemaCookie ∧ sm = true then .error .parseError
      else .ok (stage bv prev next ["schema_cookie", "largest_root_b_tree_page_number", "number_of_freelist_pages", "first_freelist_trunk_page_number", "database_size_in_pages", "version_valid_for_number", "file_change_counter", "md5_hex_digest"],
        { s with schema_cookie_modified :=
            decide (prev.schemaCookie ≠ next.schemaCookie) || s.schema_cookie_modified }) := by
  unfold parse_database_header_differences.block8
  by_cases h : prev.schemaCookie = next.schemaCookie
  · have e1 := stage_skip bv prev next ["largest_root_b_tree_page_number", "number_of_freelist_pages", "first_freelist_trunk_page_number", "database_size_in_pages", "version_valid_for_number", "file_change_counter", "md5_hex_digest"] "schema_cookie" (by simp [mem_stage, mem_ck, h])
    cases sm <;> simp [mem_stage, mem_ck, h, e1]
  · cases sm <;>
      simp [mem_stage, mem_ck, h, get_eq, lookup_stage, lookup_ck bv prev next h, del_stage, ok_bind] <;>
      arith_ites

end stages

/-- the name `_parse_database_header_differences` hands to the `database_text_encoding` property for the number in
the header (UTF_8 / UTF_16LE / UTF_16BE of constants.py) -/
def encodingName : Nat → Option String
  | 1 => some "utf-8"
  | 2 => some "utf-16-le"
  | 3 => some "utf-16-be"
  | _ => none

section stages2
variable (bv : List Nat → Int) (prev next : DbHeader) (cs : Nat) (sm : Bool) (s : HeaderDifferenceFlags)

theorem stage9 (henc : next.textEncoding ≤ 3) :
    parse_database_header_differences.block9 (cs : Int) sm (diffOf bv prev next) (stage bv prev next ["schema_cookie", "largest_root_b_tree_page_number", "number_of_freelist_pages", "first_freelist_trunk_page_number", "database_size_in_pages", "version_valid_for_number", "file_change_counter", "md5_hex_digest"]) s =
      if prev.schemaFormat ≠ next.schemaFormat ∧ ¬ prev.textEncoding ≠ next.textEncoding then .error .parseError
      else if prev.textEncoding ≠ next.textEncoding ∧ ¬ prev.schemaFormat ≠ next.schemaFormat then .error .parseError
      else if prev.schemaFormat ≠ next.schemaFormat ∧ prev.textEncoding ≠ next.textEncoding ∧ prev.schemaFormat ≠ 0 then
        .error .parseError
      else if prev.schemaFormat ≠ next.schemaFormat ∧ prev.textEncoding ≠ next.textEncoding ∧ prev.textEncoding ≠ 0 then
        .error .parseError
      else if prev.schemaFormat ≠ next.schemaFormat ∧ prev.textEncoding ≠ next.textEncoding ∧
          ¬ prev.sizeInPages ≠ next.sizeInPages then .error .parseError
      else if prev.schemaFormat ≠ next.schemaFormat ∧ prev.textEncoding ≠ next.textEncoding ∧ prev.sizeInPages ≠ 1 then
        .error .parseError
      else .ok (stage bv prev next ["database_text_encoding", "schema_format_number", "schema_cookie", "largest_root_b_tree_page_number", "number_of_freelist_pages", "first_freelist_trunk_page_number", "database_size_in_pages", "version_valid_for_number", "file_change_counter", "md5_hex_digest"],
        { s with
          schema_format_number_modified :=
            decide (prev.schemaFormat ≠ next.schemaFormat ∧ prev.textEncoding ≠ next.textEncoding) ||
              s.schema_format_number_modified,
          database_text_encoding_modified :=
            decide (prev.schemaFormat ≠ next.schemaFormat ∧ prev.textEncoding ≠ next.textEncoding) ||
              s.database_text_encoding_modified,
          database_text_encoding :=
            if prev.schemaFormat ≠ next.schemaFormat ∧ prev.textEncoding ≠ next.textEncoding then
              encodingName next.textEncoding
            else s.database_text_encoding }) := by
  unfold parse_database_header_differences.block9
  by_cases hf : prev.schemaFormat = next.schemaFormat <;> by_cases ht : prev.textEncoding = next.textEncoding
  · have e1 := stage_skip bv prev next ["schema_cookie", "largest_root_b_tree_page_number", "number_of_freelist_pages", "first_freelist_trunk_page_number", "database_size_in_pages", "version_valid_for_number", "file_change_counter", "md5_hex_digest"] "schema_format_number" (by simp [mem_stage, mem_sf, hf])
    have e2 := stage_skip bv prev next ["schema_format_number", "schema_cookie", "largest_root_b_tree_page_number", "number_of_freelist_pages", "first_freelist_trunk_page_number", "database_size_in_pages", "version_valid_for_number", "file_change_counter", "md5_hex_digest"] "database_text_encoding" (by simp [mem_stage, mem_te, ht])
    simp [mem_stage, mem_sf, mem_te, hf, ht, e1, e2]
  · simp [mem_stage, mem_sf, mem_te, hf, ht, get_eq, ok_bind]
  · simp [mem_stage, mem_sf, mem_te, hf, ht, get_eq, ok_bind]
  · by_cases hz : prev.sizeInPages = next.sizeInPages
    · simp [mem_stage, mem_sf, mem_te, mem_sz, hf, ht, hz, get_eq, lookup_stage, lookup_sf bv prev next hf,
        lookup_te bv prev next ht, del_stage, ok_bind]
      arith_ites
    · by_cases h0 : prev.textEncoding = 0
      · have h3 : next.textEncoding = 1 ∨ next.textEncoding = 2 ∨ next.textEncoding = 3 := by omega
        rcases h3 with h3 | h3 | h3 <;>
          simp [mem_stage, mem_sf, mem_te, mem_sz, hf, ht, hz, h0, h3, get_eq, lookup_stage, lookup_sf bv prev next hf,
            lookup_te bv prev next ht, lookup_sz bv prev next hz, del_stage, ok_bind, encodingName] <;>
          arith_ites
      · simp [mem_stage, mem_sf, mem_te, mem_sz, hf, ht, hz, h0, get_eq, lookup_stage, lookup_sf bv prev next hf,
          lookup_te bv prev next ht, lookup_sz bv prev next hz, del_stage, ok_bind]
        arith_ites

theorem stage10 :
    parse_database_header_differences.block10 (cs : Int) sm (diffOf bv prev next) (stage bv prev next ["database_text_encoding", "schema_format_number", "schema_cookie", "largest_root_b_tree_page_number", "number_of_freelist_pages", "first_freelist_trunk_page_number", "database_size_in_pages", "version_valid_for_number", "file_change_counter", "md5_hex_digest"]) s =
      .ok (stage bv prev next ["user_version", "database_text_encoding", "schema_format_number", "schema_cookie", "largest_root_b_tree_page_number", "number_of_freelist_pages", "first_freelist_trunk_page_number", "database_size_in_pages", "version_valid_for_number", "file_change_counter", "md5_hex_digest"],
        { s with user_version_modified := decide (prev.userVersion ≠ next.userVersion) || s.user_version_modified }) := by
  unfold parse_database_header_differences.block10
  by_cases h : prev.userVersion = next.userVersion
  · have e1 := stage_skip bv prev next ["database_text_encoding", "schema_format_number", "schema_cookie", "largest_root_b_tree_page_number", "number_of_freelist_pages", "first_freelist_trunk_page_number", "database_size_in_pages", "version_valid_for_number", "file_change_counter", "md5_hex_digest"] "user_version" (by simp [mem_stage, mem_uv, h])
    simp [mem_stage, mem_uv, h, e1]
  · simp [mem_stage, mem_uv, h, del_stage, ok_bind]

theorem stage11 :
    parse_database_header_differences.block11 (cs : Int) sm (diffOf bv prev next) (stage bv prev next ["user_version", "database_text_encoding", "schema_format_number", "schema_cookie", "largest_root_b_tree_page_number", "number_of_freelist_pages", "first_freelist_trunk_page_number", "database_size_in_pages", "version_valid_for_number", "file_change_counter", "md5_hex_digest"]) s = .ok (stage bv prev next ["default_page_cache_size", "user_version", "database_text_encoding", "schema_format_number", "schema_cookie", "largest_root_b_tree_page_number", "number_of_freelist_pages", "first_freelist_trunk_page_number", "database_size_in_pages", "version_valid_for_number", "file_change_counter", "md5_hex_digest"], s) := by
  unfold parse_database_header_differences.block11
  by_cases h : prev.defaultCacheSize = next.defaultCacheSize
  · have e1 := stage_skip bv prev next ["user_version", "database_text_encoding", "schema_format_number", "schema_cookie", "largest_root_b_tree_page_number", "number_of_freelist_pages", "first_freelist_trunk_page_number", "database_size_in_pages", "version_valid_for_number", "file_change_counter", "md5_hex_digest"] "default_page_cache_size" (by simp [mem_stage, mem_dc, h])
    simp [mem_stage, mem_dc, h, e1]
  · simp [mem_stage, mem_dc, h, del_stage, ok_bind]

theorem stage12 :
    parse_database_header_differences.block12 (cs : Int) sm (diffOf bv prev next) (stage bv prev next ["default_page_cache_size", "user_version", "database_text_encoding", "schema_format_number", "schema_cookie", "largest_root_b_tree_page_number", "number_of_freelist_pages", "first_freelist_trunk_page_number", "database_size_in_pages", "version_valid_for_number", "file_change_counter", "md5_hex_digest"]) s = .ok (stage bv prev next ["incremental_vacuum_mode", "default_page_cache_size", "user_version", "database_text_encoding", "schema_format_number", "schema_cookie", "largest_root_b_tree_page_number", "number_of_freelist_pages", "first_freelist_trunk_page_number", "database_size_in_pages", "version_valid_for_number", "file_change_counter", "md5_hex_digest"], s) := by
  unfold parse_database_header_differences.block12
  by_cases h : prev.incrementalVacuum = next.incrementalVacuum
  · have e1 := stage_skip bv prev next ["default_page_cache_size", "user_version", "database_text_encoding", "schema_format_number", "schema_cookie", "largest_root_b_tree_page_number", "number_of_freelist_pages", "first_freelist_trunk_page_number", "database_size_in_pages", "version_valid_for_number", "file_change_counter", "md5_hex_digest"] "incremental_vacuum_mode" (by simp [mem_stage, mem_iv, h])
    simp [mem_stage, mem_iv, h, e1]
  · simp [mem_stage, mem_iv, h, del_stage, ok_bind]

theorem stage13 :
    parse_database_header_differences.block13 (cs : Int) sm (diffOf bv prev next) (stage bv prev next ["incremental_vacuum_mode", "default_page_cache_size", "user_version", "database_text_encoding", "schema_format_number", "schema_cookie", "largest_root_b_tree_page_number", "number_of_freelist_pages", "first_freelist_trunk_page_number", "database_size_in_pages", "version_valid_for_number", "file_change_counter", "md5_hex_digest"]) s = .ok (stage bv prev next ["application_id", "incremental_vacuum_mode", "default_page_cache_size", "user_version", "database_text_encoding", "schema_format_number", "schema_cookie", "largest_root_b_tree_page_number", "number_of_freelist_pages", "first_freelist_trunk_page_number", "database_size_in_pages", "version_valid_for_number", "file_change_counter", "md5_hex_digest"], s) := by
  unfold parse_database_header_differences.block13
  by_cases h : prev.applicationId = next.applicationId
  · have e1 := stage_skip bv prev next ["incremental_vacuum_mode", "default_page_cache_size", "user_version", "database_text_encoding", "schema_format_number", "schema_cookie", "largest_root_b_tree_page_number", "number_of_freelist_pages", "first_freelist_trunk_page_number", "database_size_in_pages", "version_valid_for_number", "file_change_counter", "md5_hex_digest"] "application_id" (by simp [mem_stage, mem_ai, h])
    simp [mem_stage, mem_ai, h, e1]
  · simp [mem_stage, mem_ai, h, del_stage, ok_bind]

theorem stage14 :
    parse_database_header_differences.block14 (cs : Int) sm (diffOf bv prev next) (stage bv prev next ["application_id", "incremental_vacuum_mode", "default_page_cache_size", "user_version", "database_text_encoding", "schema_format_number", "schema_cookie", "largest_root_b_tree_page_number", "number_of_freelist_pages", "first_freelist_trunk_page_number", "database_size_in_pages", "version_valid_for_number", "file_change_counter", "md5_hex_digest"]) s = .ok (stage bv prev next ["sqlite_version_number", "application_id", "incremental_vacuum_mode", "default_page_cache_size", "user_version", "database_text_encoding", "schema_format_number", "schema_cookie", "largest_root_b_tree_page_number", "number_of_freelist_pages", "first_freelist_trunk_page_number", "database_size_in_pages", "version_valid_for_number", "file_change_counter", "md5_hex_digest"], s) := by
  unfold parse_database_header_differences.block14
  by_cases h : prev.sqliteVersion = next.sqliteVersion
  · have e1 := stage_skip bv prev next ["application_id", "incremental_vacuum_mode", "default_page_cache_size", "user_version", "database_text_encoding", "schema_format_number", "schema_cookie", "largest_root_b_tree_page_number", "number_of_freelist_pages", "first_freelist_trunk_page_number", "database_size_in_pages", "version_valid_for_number", "file_change_counter", "md5_hex_digest"] "sqlite_version_number" (by simp [mem_stage, mem_sv, h])
    simp [mem_stage, mem_sv, h, e1]
  · simp [mem_stage, mem_sv, h, del_stage, ok_bind]

/-- what is left after every handled and every accepted key has been deleted: the attributes of `unhandledDiffers`
(`magic_header_string` and `reserved_for_expansion` never differ) -/
theorem isEmpty_final :
    pyDictIsEmpty (stage bv prev next ["sqlite_version_number", "application_id", "incremental_vacuum_mode", "default_page_cache_size", "user_version", "database_text_encoding", "schema_format_number", "schema_cookie", "largest_root_b_tree_page_number", "number_of_freelist_pages", "first_freelist_trunk_page_number", "database_size_in_pages", "version_valid_for_number", "file_change_counter", "md5_hex_digest"]) = !unhandledDiffers prev next := by
  unfold stage eraseAll diffOf compare_database_headers castDb unhandledDiffers
  simp only [isEmpty_eraseP_cons, isEmpty_eraseP_nil]
  simp [Int.natCast_inj]

theorem stage15 :
    parse_database_header_differences.block15 (cs : Int) sm (diffOf bv prev next) (stage bv prev next ["sqlite_version_number", "application_id", "incremental_vacuum_mode", "default_page_cache_size", "user_version", "database_text_encoding", "schema_format_number", "schema_cookie", "largest_root_b_tree_page_number", "number_of_freelist_pages", "first_freelist_trunk_page_number", "database_size_in_pages", "version_valid_for_number", "file_change_counter", "md5_hex_digest"]) s =
      if unhandledDiffers prev next = true then .error .parseError else .ok (stage bv prev next ["sqlite_version_number", "application_id", "incremental_vacuum_mode", "default_page_cache_size", "user_version", "database_text_encoding", "schema_format_number", "schema_cookie", "largest_root_b_tree_page_number", "number_of_freelist_pages", "first_freelist_trunk_page_number", "database_size_in_pages", "version_valid_for_number", "file_change_counter", "md5_hex_digest"], s) := by
  unfold parse_database_header_differences.block15
  rw [isEmpty_final]
  cases unhandledDiffers prev next <;> rfl

end stages2

/-! ### the main theorem -/

/-- a header the parser accepted -/
def Accepted (h : DbHeader) : Prop := ∃ b, parseDbHeader b = .ok h

theorem accepted_encoding (h : DbHeader) (ha : Accepted h) : h.textEncoding ≤ 3 := by
  obtain ⟨b, hb⟩ := ha
  have hs := db_size b h hb
  rw [db_eq_chain b hs] at hb
  obtain ⟨_, ps, _, hc, rfl⟩ := (dbChain_ok_iff b h).mp hb
  obtain ⟨_, _, _, _, _, _, h7, _⟩ := hc
  show b.beN 56 4 ≤ 3
  rcases h7 with h7 | h7
  · omega
  · have := (contains_encodings _).mp h7.2
    omega

/-- the model's flags as the attributes the method leaves on `self` -/
def castFlags (f : HeaderFlags) : HeaderDifferenceFlags :=
  { file_change_counter_incremented := f.changeCounterIncremented,
    version_valid_for_number_incremented := f.changeCounterIncremented,
    database_size_in_pages_modified := f.sizeModified,
    modified_first_freelist_trunk_page_number := f.modFirstTrunk.map fun n => (n : Int),
    modified_number_of_freelist_pages := f.modFreelistPages.map fun n => (n : Int),
    modified_largest_root_b_tree_page_number := f.modLargestRoot.map fun n => (n : Int),
    schema_cookie_modified := f.cookieModified,
    schema_format_number_modified := f.formatModified,
    database_text_encoding_modified := f.encodingModified,
    user_version_modified := f.userVersionModified,
    database_text_encoding := f.newEncoding.bind encodingName }

def castFlagsR : Py HeaderFlags → Py HeaderDifferenceFlags
  | .ok f => .ok (castFlags f)
  | .error e => .error e

theorem diffOf_isEmpty (bv : List Nat → Int) (prev next : DbHeader) :
    pyDictIsEmpty (diffOf bv prev next) = decide (prev = next) := by
  unfold diffOf compare_database_headers castDb
  simp only [isEmpty_cons]
  cases prev
  cases next
  simp [Int.natCast_inj, pyDictIsEmpty]
  ac_rfl

theorem bind_ite {α β : Type} (c : Prop) [Decidable c] (a b : Py α) (f : α → Py β) :
    ((if c then a else b) >>= f) = if c then a >>= f else b >>= f := by
  split <;> rfl

theorem castFlagsR_ite (c : Prop) [Decidable c] (a b : Py HeaderFlags) :
    castFlagsR (if c then a else b) = if c then castFlagsR a else castFlagsR b := by
  split <;> rfl

theorem parse_differences_eq (bv : List Nat → Int) (prev next : DbHeader) (hn : Accepted next) (cs : Nat) (sm : Bool) :
    parse_database_header_differences (cs : Int) sm (diffOf bv prev next) =
      castFlagsR (classifyDifferences prev next cs sm) := by
  have henc := accepted_encoding next hn
  unfold parse_database_header_differences classifyDifferences
  by_cases he : prev = next
  · subst he
    simp only [diffOf_isEmpty, decide_true, not_true_eq_false, not_false_eq_true, if_true]
    rfl
  · have h0 : pyDictIsEmpty (diffOf bv prev next) = false := by rw [diffOf_isEmpty]; simpa using he
    simp only [h0, Bool.false_eq_true, not_false_eq_true, not_true_eq_false, if_false, he]
    simp only [stage1, stage2, stage3, stage4, stage5, stage6, stage7, stage8, stage9 bv prev next cs sm _ henc, stage10,
      stage11, stage12, stage13, stage14, stage15, bind_ite, ok_bind, error_bind]
    by_cases hraw : prev.raw = next.raw
    · simp only [hraw, if_true]
      rfl
    · simp only [hraw, if_false, castFlagsR_ite]
      repeat' (first | rfl | (refine ite_iff_congr Iff.rfl ?_ ?_))
      show Except.ok _ = Except.ok (castFlags _)
      congr 1
      simp [castFlags, HeaderDifferenceFlags.initial]
      refine ⟨?_, ?_, ?_, ?_⟩ <;> split <;> simp_all

/-- the same for the Python objects themselves: whatever two buffers the generated constructor
`DatabaseHeader(bytes)` accepts, the generated `compare_database_headers` of the two objects followed by the generated
method is the model classification of the two parsed model headers -/
theorem parse_differences_of_buffers (bv : List Nat → Int) (b1 b2 : Buf) (p n : PyHeader.DatabaseHeader)
    (hp : PyHeader.DatabaseHeader.init b1 = .ok p) (hn : PyHeader.DatabaseHeader.init b2 = .ok n)
    (cs : Nat) (sm : Bool) :
    ∃ prev next, parseDbHeader b1 = .ok prev ∧ parseDbHeader b2 = .ok next ∧
      parse_database_header_differences (cs : Int) sm (compare_database_headers bv p n) =
        castFlagsR (classifyDifferences prev next cs sm) := by
  rw [db_header_eq] at hp hn
  cases h1 : parseDbHeader b1 with
  | error e => rw [h1] at hp; cases hp
  | ok prev =>
    cases h2 : parseDbHeader b2 with
    | error e => rw [h2] at hn; cases hn
    | ok next =>
      rw [h1] at hp
      rw [h2] at hn
      cases hp
      cases hn
      exact ⟨prev, next, rfl, rfl, parse_differences_eq bv prev next ⟨b2, h2⟩ cs sm⟩

/-- `diffOf` spelled out over the model fields (the two constant attributes have disappeared) -/
theorem diffOf_eq (bv : List Nat → Int) (prev next : DbHeader) :
    diffOf bv prev next =
      (pyDiffCons (decide (prev.pageSize ≠ next.pageSize)) "page_size" (prev.pageSize, next.pageSize) <|
       pyDiffCons (decide (prev.raw ≠ next.raw)) "md5_hex_digest" (bv prev.raw, bv next.raw) <|
       pyDiffCons (decide (prev.writeVersion ≠ next.writeVersion)) "file_format_write_version"
         (prev.writeVersion, next.writeVersion) <|
       pyDiffCons (decide (prev.readVersion ≠ next.readVersion)) "file_format_read_version"
         (prev.readVersion, next.readVersion) <|
       pyDiffCons (decide (prev.reservedBytes ≠ next.reservedBytes)) "reserved_bytes_per_page"
         (prev.reservedBytes, next.reservedBytes) <|
       pyDiffCons (decide (prev.maxFraction ≠ next.maxFraction)) "maximum_embedded_payload_fraction"
         (prev.maxFraction, next.maxFraction) <|
       pyDiffCons (decide (prev.minFraction ≠ next.minFraction)) "minimum_embedded_payload_fraction"
         (prev.minFraction, next.minFraction) <|
       pyDiffCons (decide (prev.leafFraction ≠ next.leafFraction)) "leaf_payload_fraction"
         (prev.leafFraction, next.leafFraction) <|
       pyDiffCons (decide (prev.changeCounter ≠ next.changeCounter)) "file_change_counter"
         (prev.changeCounter, next.changeCounter) <|
       pyDiffCons (decide (prev.sizeInPages ≠ next.sizeInPages)) "database_size_in_pages"
         (prev.sizeInPages, next.sizeInPages) <|
       pyDiffCons (decide (prev.firstFreelistTrunk ≠ next.firstFreelistTrunk)) "first_freelist_trunk_page_number"
         (prev.firstFreelistTrunk, next.firstFreelistTrunk) <|
       pyDiffCons (decide (prev.freelistPages ≠ next.freelistPages)) "number_of_freelist_pages"
         (prev.freelistPages, next.freelistPages) <|
       pyDiffCons (decide (prev.schemaCookie ≠ next.schemaCookie)) "schema_cookie"
         (prev.schemaCookie, next.schemaCookie) <|
       pyDiffCons (decide (prev.schemaFormat ≠ next.schemaFormat)) "schema_format_number"
         (prev.schemaFormat, next.schemaFormat) <|
       pyDiffCons (decide (prev.defaultCacheSize ≠ next.defaultCacheSize)) "default_page_cache_size"
         (prev.defaultCacheSize, next.defaultCacheSize) <|
       pyDiffCons (decide (prev.largestRoot ≠ next.largestRoot)) "largest_root_b_tree_page_number"
         (prev.largestRoot, next.largestRoot) <|
       pyDiffCons (decide (prev.textEncoding ≠ next.textEncoding)) "database_text_encoding"
         (prev.textEncoding, next.textEncoding) <|
       pyDiffCons (decide (prev.userVersion ≠ next.userVersion)) "user_version" (prev.userVersion, next.userVersion) <|
       pyDiffCons (decide (prev.incrementalVacuum ≠ next.incrementalVacuum)) "incremental_vacuum_mode"
         (prev.incrementalVacuum, next.incrementalVacuum) <|
       pyDiffCons (decide (prev.applicationId ≠ next.applicationId)) "application_id"
         (prev.applicationId, next.applicationId) <|
       pyDiffCons (decide (prev.versionValidFor ≠ next.versionValidFor)) "version_valid_for_number"
         (prev.versionValidFor, next.versionValidFor) <|
       pyDiffCons (decide (prev.sqliteVersion ≠ next.sqliteVersion)) "sqlite_version_number"
         (prev.sqliteVersion, next.sqliteVersion) <|
       []) := by
  unfold diffOf compare_database_headers castDb
  simp [Int.natCast_inj, pyDiffCons]

/-! ### the hypothesis is needed: one input outside the accepted headers on which code and model differ -/

/-- a header no buffer parses to: text encoding 7 -/
def strayNext : DbHeader :=
  { (default : DbHeader) with sizeInPages := 2, schemaFormat := 4, textEncoding := 7, raw := [1] }
def strayPrev : DbHeader := { (default : DbHeader) with sizeInPages := 1, raw := [0] }

theorem stray_generated (bv : List Nat → Int) :
    parse_database_header_differences 2 false (diffOf bv strayPrev strayNext) = .error .parseError := by
  rw [diffOf_eq]
  rfl

theorem stray_model :
    classifyDifferences strayPrev strayNext 2 false =
      .ok { sizeModified := true, formatModified := true, encodingModified := true, newEncoding := some 7 } := by
  rfl

theorem stray_not_accepted : ¬ Accepted strayNext := by
  intro h
  have := accepted_encoding _ h
  exact absurd this (by decide)

end SqliteDissect.Proofs.GenHdrDiff
