/-
Concrete damaged b-trees for Properties/C18.lean: a page reached twice (two child pointers of an
interior page naming the same leaf) and a page whose child pointer names the page itself, served
by the small page writer of Proofs/TreeDemo.lean.
-/
import SqliteDissect.Proofs.TreeDemo
import SqliteDissect.Proofs.TreeWalk
namespace SqliteDissect.Proofs.TreeWalkDemo
open SqliteDissect SqliteDissect.Model SqliteDissect.Spec
open SqliteDissect.Proofs.TreeDemo

/-- interior page 2 whose only cell has left child 3 and whose right-most pointer is 3 as well -/
def Ldag : PageLayout := packLayout 512 0 .tableInterior [.tableInterior 3 1] 3

def dagTbl : Nat → Option (List Nat)
  | 2 => some (packBytes 512 Ldag)
  | 3 => some (packBytes 512 L3)
  | _ => none

/-- pages 2 (interior; both child pointers name page 3) and 3 (leaf with one row) -/
def dagV : VersionIf := mkV 512 dagTbl

/-- the same pages behind an interface that, like `dbVersionIf` of a 3-page file, knows the
offsets of pages 1 … 3 only -/
def dagV3 : VersionIf :=
  { dagV with pageOffset := fun p => if p < 1 ∨ p > 3 then .error .valueError else .ok ((p - 1) * 512) }

/-- interior page 2 whose cell's left child is page 2 itself (right-most child: leaf 3) -/
def Lcyc : PageLayout := packLayout 512 0 .tableInterior [.tableInterior 2 1] 3

def cycTbl : Nat → Option (List Nat)
  | 2 => some (packBytes 512 Lcyc)
  | 3 => some (packBytes 512 L3)
  | _ => none

def cycV : VersionIf := mkV 512 cycTbl

theorem eq_error_of_map {α β : Type} {x : Py α} {f : α → β} {e : PyErr} (h : x.map f = .error e) :
    x = .error e := by
  cases x with
  | error e' => simpa [Except.map] using h
  | ok a => simp [Except.map] at h

/-- the page numbers of a result -/
abbrev numbers (r : Py (List BPage)) : Py (List Nat) := r.map fun t => t.map (·.number)

/-- the repaired code refuses the page reached twice; the code before the repair accepted the
"tree" and listed the leaf twice -/
theorem dag_refused :
    getBTreeRoot dagV 5 2 = .error .parseError ∧
    (getBTreeRootPure dagV 5 2).map (fun t => t.map (·.number)) = .ok [2, 3, 3] := by
  have h : numbers (getBTreeRoot dagV 5 2) = .error .parseError ∧
      numbers (getBTreeRootPure dagV 5 2) = .ok [2, 3, 3] := by decide +kernel
  exact ⟨eq_error_of_map h.1, h.2⟩

/-- the log of the refused walk: pages 2 and 3 were constructed once each (most recent first) -/
theorem dag_log : (parseBTreeLog dagV 5 2 .tableInterior []).1 = [3, 2] ∧
    (parseBTreeLog dagV3 5 2 .tableInterior []).1 = [3, 2] ∧
    parseBTreeW dagV3 5 2 .tableInterior [] = .error .parseError := by
  have h : (parseBTreeLog dagV 5 2 .tableInterior []).1 = [3, 2] ∧
      (parseBTreeLog dagV3 5 2 .tableInterior []).1 = [3, 2] ∧
      numbers (parseBTreeW dagV3 5 2 .tableInterior []) = .error .parseError := by decide +kernel
  exact ⟨h.1, h.2.1, eq_error_of_map h.2.2⟩

theorem dagV3_range (p : Nat) (h : (dagV3.pageOffset p).isOk = true) : 1 ≤ p ∧ p ≤ 3 := by
  simp only [dagV3] at h
  split at h
  · exact nomatch h
  · omega

/-- a page that names itself as a child is refused at once with a parse error, whatever the
number of stack frames; the code before the repair descended until the frames ran out -/
theorem cycle_refused :
    getBTreeRoot cycV 100 2 = .error .parseError ∧
    (parseBTreeLog cycV 100 2 .tableInterior []).1 = [2] ∧
    getBTreeRootPure cycV 100 2 = .error .recursionError := by
  have h : numbers (getBTreeRoot cycV 100 2) = .error .parseError ∧
      (parseBTreeLog cycV 100 2 .tableInterior []).1 = [2] ∧
      numbers (getBTreeRootPure cycV 100 2) = .error .recursionError := by decide +kernel
  exact ⟨eq_error_of_map h.1, h.2.1, eq_error_of_map h.2.2⟩

end SqliteDissect.Proofs.TreeWalkDemo
