import SqliteDissect.Model.Codec
import SqliteDissect.Spec.Varint
import SqliteDissect.Spec.SerialType
import SqliteDissect.Proofs.Bits

/-- decidable equality on `Except` (core does not provide it); lets `decide` evaluate the
concrete examples of the property files. -/
instance {ε α} [DecidableEq ε] [DecidableEq α] : DecidableEq (Except ε α)
  | .ok a, .ok b =>
    if h : a = b then isTrue (by rw [h]) else isFalse (by intro h'; cases h'; exact h rfl)
  | .error a, .error b =>
    if h : a = b then isTrue (by rw [h]) else isFalse (by intro h'; cases h'; exact h rfl)
  | .ok _, .error _ => isFalse (by intro h; cases h)
  | .error _, .ok _ => isFalse (by intro h; cases h)

namespace SqliteDissect.Proofs.Codec
open SqliteDissect SqliteDissect.Model

/-! ### Buffers -/

theorem toList_length (b : Buf) : b.toList.length = b.size := by
  simp [Buf.toList]

theorem toList_getElem (b : Buf) (i : Nat) (h : i < b.toList.length) : b.toList[i] = b.rd i := by
  simp [Buf.toList]

theorem toList_drop (b : Buf) (i : Nat) :
    b.toList.drop i = if i < b.size then b.rd i :: b.toList.drop (i + 1) else [] := by
  by_cases h : i < b.size
  · have h' : i < b.toList.length := by rw [toList_length]; exact h
    rw [if_pos h, List.drop_eq_getElem_cons h', toList_getElem]
  · rw [if_neg h]
    apply List.drop_eq_nil_of_le
    rw [toList_length]; omega

theorem toList_mem_lt (b : Buf) (hb : b.WF) : ∀ x ∈ b.toList, x < 256 := by
  intro x hx
  simp only [Buf.toList, List.mem_map, List.mem_range] at hx
  obtain ⟨i, hi, rfl⟩ := hx
  exact hb i hi

theorem ofList_toList (l : List Nat) : (Buf.ofList l).toList = l := by
  apply List.ext_getElem
  · simp [Buf.toList, Buf.ofList]
  · intro i h1 h2
    simp [Buf.toList, Buf.ofList, List.getD_eq_getElem?_getD, h2]

theorem ofList_size (l : List Nat) : (Buf.ofList l).size = l.length := rfl

theorem ofList_WF (l : List Nat) (h : ∀ x ∈ l, x < 256) : (Buf.ofList l).WF := by
  intro i hi
  have hi' : i < l.length := hi
  simp only [Buf.ofList, List.getD_eq_getElem?_getD, List.getElem?_eq_getElem hi', Option.getD_some]
  exact h _ (List.getElem_mem hi')

theorem ofList_rd (l : List Nat) (i : Nat) (h : i < l.length) : (Buf.ofList l).rd i = l[i] := by
  simp [Buf.ofList, List.getD_eq_getElem?_getD, h]

/-! ### decode_varint -/

/-- the loop of `decode_varint` against `Spec.getVarintAux`: `k` bytes consumed,
`v = acc * 128` already shifted for the next group. -/
theorem dvLoop_spec (b : Buf) (hb : b.WF) (off : Nat) :
    ∀ (n k acc : Nat), n + k = 9 → 1 ≤ n →
      dvLoop b off n (acc * 128) k =
        match Spec.getVarintAux k acc (b.toList.drop (off + k)) with
        | some (u, m) => .ok (u, m)
        | none => .error .typeError := by
  intro n
  induction n with
  | zero => intro k acc _ h; omega
  | succ n ih =>
    intro k acc hk _
    rw [toList_drop]
    unfold dvLoop
    by_cases hlt : off + k < b.size
    · have hbyte := hb _ hlt
      simp only [hlt, if_true]
      unfold Spec.getVarintAux
      by_cases hn : n = 0
      · have hk8 : k = 8 := by omega
        subst hn
        subst hk8
        simp only [if_true]
        rw [Bits.shl1, Nat.mul_assoc, Bits.mul256_or _ _ hbyte]
      · have hk8 : ¬ k = 8 := by omega
        simp only [hn, hk8, if_false]
        have hd : b.rd (off + k) % 128 < 128 := Nat.mod_lt _ (by decide)
        rw [Bits.and_7F, Bits.mul128_or _ _ hd]
        by_cases hsmall : b.rd (off + k) < 128
        · have hz := (Bits.and_80_eq_zero _ hbyte).2 hsmall
          simp only [hz, hsmall, if_true]
          rw [Nat.mod_eq_of_lt hsmall]
        · have hz : ¬ (b.rd (off + k) &&& 0x80 = 0) := fun h => hsmall ((Bits.and_80_eq_zero _ hbyte).1 h)
          simp only [hz, hsmall, if_false]
          rw [Bits.shl7, ih (k + 1) _ (by omega) (by omega)]
          have e : b.rd (off + k) % 128 = b.rd (off + k) - 128 := by omega
          rw [e, Nat.add_assoc off k 1]
    · simp only [hlt, if_false]
      unfold Spec.getVarintAux
      rfl

/-- bounds on whatever `Spec.getVarintAux` returns -/
theorem getVarintAux_bounds : ∀ (bs : List Nat) (k acc u n : Nat),
    (∀ x ∈ bs, x < 256) → k ≤ 8 → acc < 2 ^ (7 * k) →
    Spec.getVarintAux k acc bs = some (u, n) →
    k < n ∧ n ≤ k + bs.length ∧ ((n ≤ 8 ∧ u < 2 ^ (7 * n)) ∨ (n = 9 ∧ u < 2 ^ 64)) := by
  intro bs
  induction bs with
  | nil => intro k acc u n _ _ _ h; simp [Spec.getVarintAux] at h
  | cons x rest ih =>
    intro k acc u n hbs hk hacc h
    have hx : x < 256 := hbs x (List.mem_cons_self ..)
    have hpow : 2 ^ (7 * (k + 1)) = 2 ^ (7 * k) * 128 := by
      rw [Nat.mul_succ, Nat.pow_add]
    unfold Spec.getVarintAux at h
    by_cases hk8 : k = 8
    · subst hk8
      simp only [if_true, Option.some.injEq, Prod.mk.injEq] at h
      obtain ⟨rfl, rfl⟩ := h
      simp only [Nat.reduceMul, Nat.reducePow] at hacc
      refine ⟨by omega, by simp only [List.length_cons]; omega, Or.inr ⟨rfl, ?_⟩⟩
      simp only [Nat.reducePow]
      omega
    · simp only [hk8, if_false] at h
      by_cases hsmall : x < 128
      · simp only [hsmall, if_true, Option.some.injEq, Prod.mk.injEq] at h
        obtain ⟨rfl, rfl⟩ := h
        simp only [List.length_cons]
        refine ⟨by omega, by omega, Or.inl ⟨by omega, ?_⟩⟩
        rw [hpow]; omega
      · simp only [hsmall, if_false] at h
        have := ih (k + 1) _ u n (fun y hy => hbs y (List.mem_cons_of_mem _ hy)) (by omega)
          (by rw [hpow]; omega) h
        simp only [List.length_cons]
        omega

theorem getVarint_bounds (bs : List Nat) (u n : Nat) (hbs : ∀ x ∈ bs, x < 256)
    (h : Spec.getVarint bs = some (u, n)) :
    1 ≤ n ∧ n ≤ 9 ∧ n ≤ bs.length ∧ u < 2 ^ 64 ∧ ((n ≤ 8 ∧ u < 2 ^ (7 * n)) ∨ n = 9) := by
  have := getVarintAux_bounds bs 0 0 u n hbs (by omega) (by simp) h
  obtain ⟨h1, h2, h3⟩ := this
  rcases h3 with ⟨h8, hu⟩ | ⟨h9, hu⟩
  · refine ⟨by omega, by omega, by omega, ?_, Or.inl ⟨h8, hu⟩⟩
    calc u < 2 ^ (7 * n) := hu
      _ ≤ 2 ^ 64 := Nat.pow_le_pow_right (by decide) (by omega)
  · exact ⟨by omega, by omega, by omega, hu, Or.inr h9⟩

theorem toI64_of_sign (u : Nat) (hu : u < 2 ^ 64) :
    (if u &&& (0x80000000 <<< 32) ≠ 0 then ((u : Int) - 0x10000000000000000) else (u : Int))
      = Spec.toI64 u := by
  unfold Spec.toI64
  by_cases h : 2 ^ 63 ≤ u
  · have h1 := (Bits.sign64 u hu).2 h
    have h2 : ¬ u < 2 ^ 63 := by omega
    rw [if_pos h1, if_neg h2]
    rfl
  · have h1 : ¬ (u &&& (0x80000000 <<< 32) ≠ 0) := fun hh => h ((Bits.sign64 u hu).1 hh)
    have h2 : u < 2 ^ 63 := by omega
    rw [if_neg h1, if_pos h2]

theorem decode_eq_spec (b : Buf) (hb : b.WF) (off : Nat) :
    decodeVarint b off =
      match Spec.getVarint (b.toList.drop off) with
      | some (u, n) => .ok (Spec.toI64 u, n)
      | none => .error .typeError := by
  unfold decodeVarint
  have h := dvLoop_spec b hb off 9 0 0 (by omega) (by omega)
  simp only [Nat.zero_mul, Nat.add_zero] at h
  rw [h]
  unfold Spec.getVarint
  cases hg : Spec.getVarintAux 0 0 (List.drop off b.toList) with
  | none => rfl
  | some p =>
    obtain ⟨u, n⟩ := p
    have hbs : ∀ x ∈ List.drop off b.toList, x < 256 :=
      fun x hx => toList_mem_lt b hb x (List.mem_of_mem_drop hx)
    have hu := (getVarint_bounds _ u n hbs hg).2.2.2.1
    have := toI64_of_sign u hu
    simp only [← this]
    split <;> rfl

/-! ### Spec: putVarint / getVarint -/

theorem contBytes_length : ∀ (n v : Nat), (Spec.contBytes n v).length = n := by
  intro n
  induction n with
  | zero => intro v; rfl
  | succ n ih => intro v; simp [Spec.contBytes, ih]

theorem contBytes_mem : ∀ (n v x : Nat), x ∈ Spec.contBytes n v → 128 ≤ x ∧ x < 256 := by
  intro n
  induction n with
  | zero => intro v x h; simp [Spec.contBytes] at h
  | succ n ih =>
    intro v x h
    simp only [Spec.contBytes, List.mem_append, List.mem_singleton] at h
    rcases h with h | h
    · exact ih _ _ h
    · omega

/-- the nine cases of `varintLen` -/
theorem varintLen_cases (u : Nat) :
    (Spec.varintLen u = 1 ∧ u < 2 ^ 7) ∨ (Spec.varintLen u = 2 ∧ 2 ^ 7 ≤ u ∧ u < 2 ^ 14) ∨
    (Spec.varintLen u = 3 ∧ 2 ^ 14 ≤ u ∧ u < 2 ^ 21) ∨ (Spec.varintLen u = 4 ∧ 2 ^ 21 ≤ u ∧ u < 2 ^ 28) ∨
    (Spec.varintLen u = 5 ∧ 2 ^ 28 ≤ u ∧ u < 2 ^ 35) ∨ (Spec.varintLen u = 6 ∧ 2 ^ 35 ≤ u ∧ u < 2 ^ 42) ∨
    (Spec.varintLen u = 7 ∧ 2 ^ 42 ≤ u ∧ u < 2 ^ 49) ∨ (Spec.varintLen u = 8 ∧ 2 ^ 49 ≤ u ∧ u < 2 ^ 56) ∨
    (Spec.varintLen u = 9 ∧ 2 ^ 56 ≤ u) := by
  unfold Spec.varintLen
  simp only [Nat.reducePow]
  repeat' split
  all_goals omega

theorem varintLen_pos (u : Nat) : 1 ≤ Spec.varintLen u := by
  rcases varintLen_cases u with h | h | h | h | h | h | h | h | h <;> omega

theorem varintLen_le (u : Nat) : Spec.varintLen u ≤ 9 := by
  rcases varintLen_cases u with h | h | h | h | h | h | h | h | h <;> omega

theorem varintLen_lt_pow (u : Nat) (hu : u < 2 ^ 56) :
    Spec.varintLen u ≤ 8 ∧ u < 128 ^ Spec.varintLen u ∧ (u ≠ 0 → 128 ^ (Spec.varintLen u - 1) ≤ u) := by
  simp only [Nat.reducePow] at hu
  rcases varintLen_cases u with h | h | h | h | h | h | h | h | h <;>
    (simp only [Nat.reducePow] at h; obtain ⟨hl, hb⟩ := h; rw [hl]
     simp only [Nat.reducePow, Nat.reduceSub, Nat.pow_zero]; omega)

theorem spec_put_length (u : Nat) : (Spec.putVarint u).length = Spec.varintLen u := by
  unfold Spec.putVarint
  split
  · have := varintLen_pos u
    simp only [List.length_append, contBytes_length, List.length_singleton]; omega
  · rename_i h
    simp only [List.length_append, contBytes_length, List.length_singleton]
    rcases varintLen_cases u with h' | h' | h' | h' | h' | h' | h' | h' | h' <;>
      (simp only [Nat.reducePow] at h h'; omega)

theorem spec_put_bytes' (u : Nat) : ∀ x ∈ Spec.putVarint u, x < 256 := by
  intro x hx
  unfold Spec.putVarint at hx
  split at hx <;>
    (simp only [List.mem_append, List.mem_singleton] at hx
     rcases hx with h | h
     · exact (contBytes_mem _ _ _ h).2
     · omega)

theorem spec_put_bytes (u : Nat) (_hu : u < 2 ^ 64) : ∀ x ∈ Spec.putVarint u, x < 256 :=
  spec_put_bytes' u

theorem mod_pow_succ (v m : Nat) : v % 128 ^ (m + 1) = (v / 128 % 128 ^ m) * 128 + v % 128 := by
  rw [Nat.pow_succ, Nat.mul_comm (128 ^ m) 128, Nat.mod_mul]
  rw [Nat.mul_comm 128]; omega

theorem getVarintAux_cons (k acc b : Nat) (rest : List Nat) :
    Spec.getVarintAux k acc (b :: rest) =
      if k = 8 then some (acc * 256 + b, 9)
      else if b < 128 then some (acc * 128 + b, k + 1)
      else Spec.getVarintAux (k + 1) (acc * 128 + (b - 128)) rest := by
  rw [Spec.getVarintAux]

/-- reading `m` continuation bytes -/
theorem getVarintAux_contBytes : ∀ (m k acc v : Nat) (tail : List Nat), k + m ≤ 8 →
    Spec.getVarintAux k acc (Spec.contBytes m v ++ tail) =
      Spec.getVarintAux (k + m) (acc * 128 ^ m + v % 128 ^ m) tail := by
  intro m
  induction m with
  | zero => intro k acc v tail _; simp [Spec.contBytes, Nat.mod_one]
  | succ m ih =>
    intro k acc v tail hk
    simp only [Spec.contBytes, List.append_assoc, List.singleton_append]
    rw [ih k acc (v / 128) _ (by omega), getVarintAux_cons]
    have h8 : ¬ (k + m = 8) := by omega
    have h128 : ¬ (v % 128 + 128 < 128) := by omega
    simp only [h8, h128, if_false]
    have e : v % 128 + 128 - 128 = v % 128 := by omega
    rw [mod_pow_succ, Nat.pow_succ, e, Nat.add_mul, Nat.mul_assoc]
    simp only [Nat.add_assoc]

theorem spec_get_put (u : Nat) (hu : u < 2 ^ 64) (rest : List Nat) :
    Spec.getVarint (Spec.putVarint u ++ rest) = some (u, (Spec.putVarint u).length) := by
  rw [spec_put_length]
  unfold Spec.getVarint Spec.putVarint
  by_cases h56 : u < 2 ^ 56
  · obtain ⟨hl8, hlt, _⟩ := varintLen_lt_pow u h56
    have hpos := varintLen_pos u
    simp only [h56, if_true, List.append_assoc, List.singleton_append]
    rw [getVarintAux_contBytes _ _ _ _ _ (by omega), getVarintAux_cons]
    have h8 : ¬ (Spec.varintLen u - 1 = 8) := by omega
    have hm : u % 128 < 128 := Nat.mod_lt _ (by decide)
    simp only [Nat.zero_mul, Nat.zero_add, h8, hm, if_false, if_true]
    have hdiv : u / 128 < 128 ^ (Spec.varintLen u - 1) := by
      rw [Nat.div_lt_iff_lt_mul (by decide), ← Nat.pow_succ, Nat.succ_eq_add_one]
      have : Spec.varintLen u - 1 + 1 = Spec.varintLen u := by omega
      rw [this]; exact hlt
    rw [Nat.mod_eq_of_lt hdiv]
    have : Spec.varintLen u - 1 + 1 = Spec.varintLen u := by omega
    rw [this]
    have : u / 128 * 128 + u % 128 = u := by omega
    rw [this]
  · have hlen : Spec.varintLen u = 9 := by
      rcases varintLen_cases u with h' | h' | h' | h' | h' | h' | h' | h' | h' <;>
        (simp only [Nat.reducePow] at h56 h'; omega)
    simp only [h56, if_false, List.append_assoc, List.singleton_append]
    rw [getVarintAux_contBytes _ _ _ _ _ (by omega), getVarintAux_cons]
    simp only [Nat.zero_add, if_true, Nat.zero_mul, hlen]
    simp only [Nat.reducePow] at hu h56 ⊢
    have : u / 256 % 72057594037927936 * 256 + u % 256 = u := by omega
    rw [this]

theorem spec_shortest (bs : List Nat) (hbs : ∀ x ∈ bs, x < 256) (u n : Nat)
    (h : Spec.getVarint bs = some (u, n)) : (Spec.putVarint u).length ≤ n := by
  rw [spec_put_length]
  obtain ⟨h1, h9, _, _, hcase⟩ := getVarint_bounds bs u n hbs h
  rcases hcase with ⟨h8, hu⟩ | h9
  · have hn : n = 1 ∨ n = 2 ∨ n = 3 ∨ n = 4 ∨ n = 5 ∨ n = 6 ∨ n = 7 ∨ n = 8 := by omega
    rcases hn with rfl | rfl | rfl | rfl | rfl | rfl | rfl | rfl <;>
      (simp only [Nat.reduceMul, Nat.reducePow] at hu
       rcases varintLen_cases u with h' | h' | h' | h' | h' | h' | h' | h' | h' <;>
        (simp only [Nat.reducePow] at h'; omega))
  · have := varintLen_le u; omega

theorem toI64_toU64 (i : Int) (hlo : -(2 ^ 63 : Int) ≤ i) (hhi : i < (2 ^ 63 : Int)) :
    Spec.toI64 (Spec.toU64 i) = i := by
  unfold Spec.toI64 Spec.toU64
  omega

theorem toU64_lt (i : Int) : Spec.toU64 i < 2 ^ 64 := by
  unfold Spec.toU64
  omega

theorem toU64_toI64 (u : Nat) (hu : u < 2 ^ 64) : Spec.toU64 (Spec.toI64 u) = u := by
  unfold Spec.toI64 Spec.toU64
  omega

theorem toI64_range (u : Nat) (hu : u < 2 ^ 64) :
    -(2 ^ 63 : Int) ≤ Spec.toI64 u ∧ Spec.toI64 u < (2 ^ 63 : Int) := by
  unfold Spec.toI64
  omega

/-! ### encode_varint -/

theorem ev9_eq : ∀ (n v : Nat) (acc : List Nat), ev9 n v acc = Spec.contBytes n v ++ acc := by
  intro n
  induction n with
  | zero => intro v acc; rfl
  | succ n ih =>
    intro v acc
    rw [ev9, ih, Bits.shr7, Bits.or_80, Spec.contBytes, List.append_assoc, List.singleton_append]

theorem evLoop_eq : ∀ (m fuel v : Nat) (acc : List Nat),
    v < 128 ^ m → (m ≠ 0 → 128 ^ (m - 1) ≤ v) → m ≤ fuel → acc.length + m ≤ 8 →
    evLoop fuel v acc = .ok (Spec.contBytes m v ++ acc) := by
  intro m
  induction m with
  | zero =>
    intro fuel v acc hv _ _ _
    have hv0 : v = 0 := by simpa using hv
    subst hv0
    cases fuel <;> simp [evLoop, Spec.contBytes]
  | succ m ih =>
    intro fuel v acc hv hlo hfuel hlen
    have hlo' := hlo (by omega)
    simp only [Nat.add_sub_cancel] at hlo'
    have hpos : 0 < 128 ^ m := Nat.pow_pos (by decide)
    have hv0 : v ≠ 0 := by omega
    obtain ⟨f, rfl⟩ : ∃ f, fuel = f + 1 := ⟨fuel - 1, by omega⟩
    rw [evLoop]
    have hl9 : ¬ ((((v &&& 0x7F) ||| 0x80) :: acc).length ≥ 9) := by
      simp only [List.length_cons]; omega
    simp only [hv0, hl9, if_false]
    rw [Bits.shr7, Bits.or_80]
    rw [ih f (v / 128) _ ?_ ?_ (by omega) (by simp only [List.length_cons]; omega)]
    · rw [Spec.contBytes, List.append_assoc, List.singleton_append]
    · rw [Nat.div_lt_iff_lt_mul (by decide), ← Nat.pow_succ]; exact hv
    · intro hm
      obtain ⟨m', rfl⟩ : ∃ m', m = m' + 1 := ⟨m - 1, by omega⟩
      simp only [Nat.add_sub_cancel]
      rw [Nat.le_div_iff_mul_le (by decide), ← Nat.pow_succ]; exact hlo'

theorem encode_u_eq (i : Int) (hlo : -(2 ^ 63 : Int) ≤ i) (hhi : i < (2 ^ 63 : Int)) :
    (if i < 0 then i + 0x10000000000000000 else i).toNat = Spec.toU64 i := by
  unfold Spec.toU64
  omega

theorem encode_eq_spec (i : Int) (hlo : -(2 ^ 63 : Int) ≤ i) (hhi : i < (2 ^ 63 : Int)) :
    encodeVarint i = .ok (Spec.putVarint (Spec.toU64 i)) := by
  unfold encodeVarint
  have hrange : ¬ (i > 0x7FFFFFFFFFFFFFFF ∨ i < -0x8000000000000000) := by omega
  rw [if_neg hrange]
  simp only [encode_u_eq i hlo hhi]
  generalize hu : Spec.toU64 i = u
  have hu64 : u < 2 ^ 64 := hu ▸ toU64_lt i
  unfold Spec.putVarint
  by_cases h56 : u < 2 ^ 56
  · have ht : ¬ (u &&& (0xFF000000 <<< 32) ≠ 0) := fun h => by
      have := (Bits.top8 u hu64).1 h; omega
    rw [if_neg ht, if_pos h56]
    by_cases h0 : u = 0
    · subst h0
      rfl
    · rw [if_neg h0]
      obtain ⟨hl8, hlt, hge⟩ := varintLen_lt_pow u h56
      have hpos := varintLen_pos u
      rw [evLoop_eq (Spec.varintLen u) 64 u [] hlt (fun _ => hge h0) (by omega)
        (by simp only [List.length_nil]; omega)]
      obtain ⟨m, hm⟩ : ∃ m, Spec.varintLen u = m + 1 := ⟨Spec.varintLen u - 1, by omega⟩
      simp only [hm, Nat.add_sub_cancel, List.append_nil, Spec.contBytes,
        List.getLast?_append, List.getLast?_singleton, Option.some_or,
        List.dropLast_concat]
      rw [Bits.and_7F]
      have : (u % 128 + 128) % 128 = u % 128 := by omega
      rw [this]
  · have ht : u &&& (0xFF000000 <<< 32) ≠ 0 := (Bits.top8 u hu64).2 (by omega)
    rw [if_pos ht, if_neg h56, ev9_eq, Bits.shr8, Bits.and_FF]

theorem encode_rejects (i : Int) (h : i < -(2 ^ 63 : Int) ∨ (2 ^ 63 : Int) ≤ i) :
    encodeVarint i = .error .parseError := by
  unfold encodeVarint
  have hrange : (i > 0x7FFFFFFFFFFFFFFF ∨ i < -0x8000000000000000) := by omega
  rw [if_pos hrange]

/-! ### decode ∘ encode, shortest, consumes, error kind -/

theorem decode_encode (i : Int) (hlo : -(2 ^ 63 : Int) ≤ i) (hhi : i < (2 ^ 63 : Int))
    (rest : List Nat) (hrest : ∀ x ∈ rest, x < 256) :
    ∃ bs, encodeVarint i = .ok bs ∧
      decodeVarint (Buf.ofList (bs ++ rest)) 0 = .ok (i, bs.length) := by
  refine ⟨_, encode_eq_spec i hlo hhi, ?_⟩
  have hwf : (Buf.ofList (Spec.putVarint (Spec.toU64 i) ++ rest)).WF := by
    apply ofList_WF
    intro x hx
    rcases List.mem_append.1 hx with h | h
    · exact spec_put_bytes' _ x h
    · exact hrest x h
  rw [decode_eq_spec _ hwf, List.drop_zero, ofList_toList, spec_get_put _ (toU64_lt i)]
  simp only [toI64_toU64 i hlo hhi]

theorem decode_ok_spec (b : Buf) (hb : b.WF) (off : Nat) (i : Int) (n : Nat)
    (h : decodeVarint b off = .ok (i, n)) :
    ∃ u, Spec.getVarint (b.toList.drop off) = some (u, n) ∧ i = Spec.toI64 u := by
  rw [decode_eq_spec b hb off] at h
  cases hg : Spec.getVarint (List.drop off b.toList) with
  | none => rw [hg] at h; simp at h
  | some p =>
    obtain ⟨u, m⟩ := p
    rw [hg] at h
    simp only [Except.ok.injEq, Prod.mk.injEq] at h
    exact ⟨u, by rw [h.2], h.1.symm⟩

theorem drop_mem_lt (b : Buf) (hb : b.WF) (off : Nat) : ∀ x ∈ b.toList.drop off, x < 256 :=
  fun x hx => toList_mem_lt b hb x (List.mem_of_mem_drop hx)

theorem encode_shortest (b : Buf) (hb : b.WF) (off : Nat) (i : Int) (n : Nat)
    (h : decodeVarint b off = .ok (i, n)) :
    ∃ bs, encodeVarint i = .ok bs ∧ bs.length ≤ n := by
  obtain ⟨u, hg, rfl⟩ := decode_ok_spec b hb off i n h
  have hbs := drop_mem_lt b hb off
  have hu := (getVarint_bounds _ u n hbs hg).2.2.2.1
  obtain ⟨hlo, hhi⟩ := toI64_range u hu
  refine ⟨_, encode_eq_spec _ hlo hhi, ?_⟩
  rw [toU64_toI64 u hu]
  exact spec_shortest _ hbs u n hg

theorem decode_consumes (b : Buf) (hb : b.WF) (off : Nat) (i : Int) (n : Nat)
    (h : decodeVarint b off = .ok (i, n)) :
    1 ≤ n ∧ n ≤ 9 ∧ off + n ≤ b.size ∧ -(2 ^ 63 : Int) ≤ i ∧ i < (2 ^ 63 : Int) := by
  obtain ⟨u, hg, rfl⟩ := decode_ok_spec b hb off i n h
  have hbs := drop_mem_lt b hb off
  obtain ⟨h1, h9, hlen, hu, _⟩ := getVarint_bounds _ u n hbs hg
  obtain ⟨hlo, hhi⟩ := toI64_range u hu
  rw [List.length_drop, toList_length] at hlen
  exact ⟨h1, h9, by omega, hlo, hhi⟩

theorem dvLoop_error_kind (b : Buf) (off : Nat) (e : PyErr) :
    ∀ (n v rel : Nat), dvLoop b off n v rel = .error e → e = .typeError := by
  intro n
  induction n with
  | zero => intro v rel h; simp [dvLoop] at h
  | succ n ih =>
    intro v rel h
    unfold dvLoop at h
    split at h
    · simp only at h
      split at h
      · simp at h
      · split at h
        · simp at h
        · exact ih _ _ h
    · simp only [Except.error.injEq] at h
      exact h.symm

theorem decode_error_kind (b : Buf) (off : Nat) (e : PyErr) (h : decodeVarint b off = .error e) :
    e = .typeError := by
  unfold decodeVarint at h
  split at h
  · rename_i e' he
    simp only [Except.error.injEq] at h
    subst h
    exact dvLoop_error_kind b off _ _ _ _ he
  · split at h <;> simp at h

/-! ### decode_varint_in_reverse -/

theorem pow128 (s : Nat) : 128 ^ s = 2 ^ (7 * s) := by
  rw [Nat.pow_mul]

/-- reading `m` continuation bytes backwards -/
theorem dvrLoop_cont : ∀ (m w acc : Nat) (pre suffix l : List Nat),
    l = pre ++ Spec.contBytes m w ++ suffix → suffix.length + m ≤ 9 → acc < 128 ^ suffix.length →
    dvrLoop (Buf.ofList l) l.length 9 (pre.length + m) acc =
      dvrLoop (Buf.ofList l) l.length 9 pre.length (acc + (w % 128 ^ m) * 128 ^ suffix.length) := by
  intro m
  induction m with
  | zero => intro w acc pre suffix l _ _ _; simp [Nat.mod_one]
  | succ m ih =>
    intro w acc pre suffix l hl hs hacc
    have hl' : l = pre ++ Spec.contBytes m (w / 128) ++ ((w % 128 + 128) :: suffix) := by
      rw [hl, Spec.contBytes]; simp only [List.append_assoc, List.singleton_append]
    have hlen : l.length = pre.length + m + 1 + suffix.length := by
      rw [hl']; simp only [List.length_append, contBytes_length, List.length_cons]; omega
    have hrd : (Buf.ofList l).rd (pre.length + m) = w % 128 + 128 := by
      rw [ofList_rd _ _ (by omega)]
      simp only [hl']
      rw [List.getElem_append_right (by simp [contBytes_length])]
      simp [contBytes_length]
    rw [← Nat.add_assoc, dvrLoop]
    have hinv : l.length - (pre.length + m + 1) = suffix.length := by omega
    have hmax : ¬ (suffix.length > 9) := by omega
    have hbyte : w % 128 + 128 < 256 := by omega
    have hcont : (w % 128 + 128) &&& 0x80 ≠ 0 := fun h => by
      have := (Bits.and_80_eq_zero _ hbyte).1 h; omega
    simp only [hinv, hmax, hrd, hcont, if_false, ne_eq, not_false_eq_true, if_true]
    rw [Bits.and_7F, Bits.or_shl_of_lt _ _ _ (by rw [← pow128]; exact hacc), ← pow128]
    have e1 : (w % 128 + 128) % 128 = w % 128 := by omega
    rw [e1]
    have hw : w % 128 < 128 := Nat.mod_lt _ (by decide)
    rw [ih (w / 128) _ pre ((w % 128 + 128) :: suffix) l hl'
      (by simp only [List.length_cons]; omega)
      (by simp only [List.length_cons, Nat.pow_succ]
          generalize 128 ^ suffix.length = X at hacc ⊢
          calc acc + w % 128 * X < X + w % 128 * X := by omega
            _ = (w % 128 + 1) * X := by rw [Nat.add_mul, Nat.one_mul, Nat.add_comm]
            _ ≤ 128 * X := Nat.mul_le_mul_right _ (by omega)
            _ = X * 128 := Nat.mul_comm _ _)]
    congr 1
    rw [mod_pow_succ]
    simp only [List.length_cons, Nat.pow_succ]
    generalize 128 ^ suffix.length = X
    generalize w / 128 % 128 ^ m = Y
    rw [Nat.add_mul, Nat.mul_assoc Y 128 X, Nat.mul_comm 128 X]
    omega

theorem rev_decode (v : Nat) (hv : v < 2 ^ 56) (pre : List Nat)
    (hpre : ∀ x, pre.getLast? = some x → x < 128) :
    decodeVarintRev (Buf.ofList (pre ++ Spec.putVarint v)) (pre.length + (Spec.putVarint v).length) 9
      = .ok (v, pre.length) := by
  obtain ⟨hl8, hlt, _⟩ := varintLen_lt_pow v hv
  have hpos := varintLen_pos v
  obtain ⟨m, hm⟩ : ∃ m, Spec.varintLen v = m + 1 := ⟨Spec.varintLen v - 1, by omega⟩
  have hput : Spec.putVarint v = Spec.contBytes m (v / 128) ++ [v % 128] := by
    unfold Spec.putVarint
    rw [if_pos hv, hm, Nat.add_sub_cancel]
  generalize hl : pre ++ Spec.putVarint v = l
  have hl' : l = pre ++ Spec.contBytes m (v / 128) ++ [v % 128] := by
    rw [← hl, hput, List.append_assoc]
  have hlen : l.length = pre.length + m + 1 := by
    rw [hl']; simp only [List.length_append, contBytes_length, List.length_singleton]
  have hoff : pre.length + (Spec.putVarint v).length = l.length := by
    rw [← hl, List.length_append]
  rw [hoff]
  unfold decodeVarintRev
  have h1 : ¬ (l.length > (Buf.ofList l).size) := by rw [ofList_size]; omega
  have h2 : ¬ (l.length = 0) := by omega
  rw [if_neg h1, if_neg h2]
  have hrd : (Buf.ofList l).rd (l.length - 1) = v % 128 := by
    rw [ofList_rd _ _ (by omega)]
    simp only [hl']
    rw [List.getElem_append_right (by simp [contBytes_length])]
    simp [contBytes_length]
  have hw : v % 128 < 128 := Nat.mod_lt _ (by decide)
  rw [hrd, Bits.and_7F, Nat.mod_mod]
  have e : l.length - 1 = pre.length + m := by omega
  rw [e, dvrLoop_cont m (v / 128) (v % 128) pre [v % 128] l hl' (by simp only [List.length_singleton]; omega)
    (by simpa using hw)]
  have hval : v % 128 + v / 128 % 128 ^ m * 128 ^ [v % 128].length = v := by
    simp only [List.length_singleton, Nat.pow_one]
    have := mod_pow_succ v m
    rw [← hm, Nat.mod_eq_of_lt hlt] at this
    omega
  rw [hval]
  cases hp : pre with
  | nil => simp [dvrLoop]
  | cons a t =>
    obtain ⟨p, hp'⟩ : ∃ p, pre.length = p + 1 := ⟨t.length, by rw [hp]; rfl⟩
    rw [← hp, hp', dvrLoop]
    have hinv : ¬ (l.length - (p + 1) > 9) := by omega
    have hlast : (Buf.ofList l).rd p < 128 := by
      rw [ofList_rd _ _ (by omega)]
      simp only [hl', List.append_assoc]
      rw [List.getElem_append_left (by omega)]
      apply hpre
      rw [List.getLast?_eq_getElem?]
      have : pre.length - 1 = p := by omega
      rw [this, List.getElem?_eq_getElem (by omega)]
    have hz : ¬ ((Buf.ofList l).rd p &&& 0x80 ≠ 0) := fun h => h ((Bits.and_80_eq_zero _ (by omega)).2 hlast)
    simp only [hinv, hz, if_false]

/-! ### Serial types -/

/-- the cases of `serialTypeLen` -/
theorem serialTypeLen_cases (st : Int) :
    (st < 0 ∧ Spec.serialTypeLen st = none) ∨
    (st = 0 ∧ Spec.serialTypeLen st = some 0) ∨ (st = 1 ∧ Spec.serialTypeLen st = some 1) ∨
    (st = 2 ∧ Spec.serialTypeLen st = some 2) ∨ (st = 3 ∧ Spec.serialTypeLen st = some 3) ∨
    (st = 4 ∧ Spec.serialTypeLen st = some 4) ∨ (st = 5 ∧ Spec.serialTypeLen st = some 6) ∨
    (st = 6 ∧ Spec.serialTypeLen st = some 8) ∨ (st = 7 ∧ Spec.serialTypeLen st = some 8) ∨
    (st = 8 ∧ Spec.serialTypeLen st = some 0) ∨ (st = 9 ∧ Spec.serialTypeLen st = some 0) ∨
    (st = 10 ∧ Spec.serialTypeLen st = none) ∨ (st = 11 ∧ Spec.serialTypeLen st = none) ∨
    (12 ≤ st ∧ Spec.serialTypeLen st = some ((st.toNat - 12) / 2)) := by
  have hc : st < 0 ∨ st = 0 ∨ st = 1 ∨ st = 2 ∨ st = 3 ∨ st = 4 ∨ st = 5 ∨ st = 6 ∨ st = 7 ∨ st = 8 ∨
      st = 9 ∨ st = 10 ∨ st = 11 ∨ 12 ≤ st := by omega
  rcases hc with h | h | h | h | h | h | h | h | h | h | h | h | h | h
  · left; exact ⟨h, by unfold Spec.serialTypeLen; rw [if_pos h]⟩
  iterate 12 (subst h; decide)
  · iterate 13 right
    refine ⟨h, ?_⟩
    obtain ⟨k, rfl⟩ : ∃ k : Nat, st = ((k + 12 : Nat) : Int) := ⟨(st - 12).toNat, by omega⟩
    unfold Spec.serialTypeLen
    have : ¬ (((k + 12 : Nat) : Int) < 0) := by omega
    rw [if_neg this, Int.toNat_natCast]
    rfl

theorem content_size_eq_spec (st : Int) :
    getContentSize st =
      match Spec.serialTypeLen st with
      | some n => .ok n
      | none => .error .valueError := by
  rcases serialTypeLen_cases st with h | h | h | h | h | h | h | h | h | h | h | h | h | h
  · obtain ⟨h, hs⟩ := h
    rw [hs]; unfold getContentSize
    repeat (rw [if_neg (by omega)])
  iterate 12 (obtain ⟨rfl, hs⟩ := h; rw [hs]; rfl)
  · obtain ⟨h, hs⟩ := h
    rw [hs]; unfold getContentSize
    iterate 10 (rw [if_neg (by omega)])
    by_cases hev : st % 2 = 0
    · rw [if_pos ⟨h, hev⟩]
      simp only [Except.ok.injEq]; omega
    · rw [if_neg (by omega), if_pos (by omega)]
      simp only [Except.ok.injEq]; omega

theorem spec_serialGet_defined (st : Int) (n : Nat) (c : List Nat)
    (hn : Spec.serialTypeLen st = some n) (hc : c.length = n) :
    ∃ v, Spec.serialGet st c = some v := by
  unfold Spec.serialGet
  rw [hn]
  simp only [hc, ne_eq, not_true_eq_false, if_false]
  repeat' split
  all_goals exact ⟨_, rfl⟩

theorem reserved_rejected (body : Buf) (off : Nat) :
    getRecordContent 10 body off = .error .valueError ∧
    getRecordContent 11 body off = .error .valueError ∧
    getContentSize 10 = .error .valueError ∧ getContentSize 11 = .error .valueError :=
  ⟨rfl, rfl, rfl, rfl⟩

theorem short_body_rejected (st : Int) (hst : 1 ≤ st ∧ st ≤ 7) (body : Buf) (off n : Nat)
    (hn : Spec.serialTypeLen st = some n) (hshort : body.size < off + n) :
    getRecordContent st body off = .error .structError := by
  have hc : st = 1 ∨ st = 2 ∨ st = 3 ∨ st = 4 ∨ st = 5 ∨ st = 6 ∨ st = 7 := by omega
  rcases hc with rfl | rfl | rfl | rfl | rfl | rfl | rfl <;>
    (simp [Spec.serialTypeLen] at hn
     subst hn
     have hlt : ¬ (off + _ ≤ body.size) := Nat.not_le.2 hshort
     simp only [getRecordContent, unpackN, Int.reduceEq, if_false, if_true, hlt]
     rfl)

theorem serial_signature_class (st : Int) (_hst : 0 ≤ st) :
    serialTypeSignature st =
      if st < 12 then st else if st % 2 = 0 then -1 else -2 := by
  unfold serialTypeSignature
  by_cases h : st < 12
  · rw [if_pos h, if_neg (by omega : ¬ st ≥ 12)]
  · rw [if_neg h, if_pos (by omega : st ≥ 12)]

/-! ### big-endian values -/

theorem beVal_concat (l : List Nat) (x : Nat) : Spec.beVal (l ++ [x]) = Spec.beVal l * 256 + x := by
  induction l with
  | nil => simp [Spec.beVal]
  | cons a t ih =>
    simp only [List.cons_append, Spec.beVal, ih, List.length_append, List.length_singleton,
      Nat.pow_succ]
    rw [Nat.add_mul, Nat.mul_assoc, Nat.add_assoc]

theorem beVal_lt (l : List Nat) (h : ∀ x ∈ l, x < 256) : Spec.beVal l < 256 ^ l.length := by
  induction l with
  | nil => simp [Spec.beVal]
  | cons a t ih =>
    have ha : a < 256 := h a (List.mem_cons_self ..)
    have ht := ih (fun x hx => h x (List.mem_cons_of_mem _ hx))
    simp only [Spec.beVal, List.length_cons, Nat.pow_succ]
    have : a * 256 ^ t.length ≤ 255 * 256 ^ t.length := Nat.mul_le_mul_right _ (by omega)
    omega

/-- the content slice as a map over indices -/
theorem content_eq (b : Buf) (off n : Nat) (hfit : off + n ≤ b.size) :
    (b.toList.drop off).take n = (List.range' off n).map b.rd := by
  apply List.ext_getElem
  · simp [toList_length]; omega
  · intro i h1 h2
    simp [Buf.toList]

theorem slice_toList (b : Buf) (off n : Nat) (hfit : off + n ≤ b.size) :
    (b.slice off (off + n)).toList = (List.range' off n).map b.rd := by
  have h1 : min off b.size = off := by omega
  have h2 : min (off + n) b.size = off + n := by omega
  apply List.ext_getElem
  · simp [Buf.toList, Buf.slice, h1, h2]
  · intro i _ _
    simp [Buf.toList, Buf.slice, h1]

theorem beN_eq (b : Buf) (off : Nat) : ∀ n, b.beN off n = Spec.beVal ((List.range' off n).map b.rd) := by
  intro n
  induction n with
  | zero => rfl
  | succ n ih =>
    rw [Buf.beN, ih, List.range'_concat, List.map_append, List.map_singleton, beVal_concat, Nat.one_mul]

theorem content_length (b : Buf) (off n : Nat) (hfit : off + n ≤ b.size) :
    ((b.toList.drop off).take n).length = n := by
  rw [content_eq b off n hfit]; simp

theorem content_mem (b : Buf) (hb : b.WF) (off n : Nat) : ∀ x ∈ (b.toList.drop off).take n, x < 256 :=
  fun x hx => drop_mem_lt b hb off x (List.mem_of_mem_take hx)

theorem unpackN_ok (b : Buf) (off n : Nat) (hfit : off + n ≤ b.size) :
    unpackN b off n = .ok (Spec.beVal ((b.toList.drop off).take n)) := by
  rw [unpackN, if_pos hfit, beN_eq, content_eq b off n hfit]

theorem twosVal_eq (c : List Nat) (w : Nat) (hc : c.length = w) :
    Spec.twosVal c = if Spec.beVal c < 2 ^ (8 * w - 1) then (Spec.beVal c : Int)
      else (Spec.beVal c : Int) - (2 ^ (8 * w) : Nat) := by
  unfold Spec.twosVal; rw [hc]

/-- sign conversions used by `get_record_content`, against `twosVal` -/
theorem toSigned_twos (c : List Nat) (w : Nat) (hc : c.length = w) :
    toSigned (8 * w) (Spec.beVal c) = Spec.twosVal c := by
  rw [twosVal_eq c w hc]
  unfold toSigned
  by_cases h : Spec.beVal c < 2 ^ (8 * w - 1)
  · rw [if_pos h, if_neg (by omega)]
  · rw [if_neg h, if_pos (by omega)]

theorem sign24_twos (c : List Nat) (hc : c.length = 3) (hb : ∀ x ∈ c, x < 256) :
    (if Spec.beVal c &&& 0x800000 ≠ 0 then (Spec.beVal c : Int) - 0x1000000 else (Spec.beVal c : Int))
      = Spec.twosVal c := by
  rw [twosVal_eq c 3 hc]
  have hlt := beVal_lt c hb
  rw [hc] at hlt
  have := Bits.sign24 (Spec.beVal c) (by simpa using hlt)
  by_cases h : Spec.beVal c < 2 ^ (8 * 3 - 1)
  · rw [if_pos h, if_neg (fun hh => by have := this.1 hh; simp only [Nat.reducePow, Nat.reduceMul, Nat.reduceSub] at *; omega)]
  · rw [if_neg h, if_pos (this.2 (by simp only [Nat.reducePow, Nat.reduceMul, Nat.reduceSub] at *; omega))]
    simp only [Nat.reduceMul, Nat.reducePow]; omega

theorem sign48_twos (c : List Nat) (hc : c.length = 6) (hb : ∀ x ∈ c, x < 256) :
    (if Spec.beVal c &&& 0x800000000000 ≠ 0 then (Spec.beVal c : Int) - 0x1000000000000 else (Spec.beVal c : Int))
      = Spec.twosVal c := by
  rw [twosVal_eq c 6 hc]
  have hlt := beVal_lt c hb
  rw [hc] at hlt
  have := Bits.sign48 (Spec.beVal c) (by simpa using hlt)
  by_cases h : Spec.beVal c < 2 ^ (8 * 6 - 1)
  · rw [if_pos h, if_neg (fun hh => by have := this.1 hh; simp only [Nat.reducePow, Nat.reduceMul, Nat.reduceSub] at *; omega)]
  · rw [if_neg h, if_pos (this.2 (by simp only [Nat.reducePow, Nat.reduceMul, Nat.reduceSub] at *; omega))]
    simp only [Nat.reduceMul, Nat.reducePow]; omega

theorem record_content_eq_spec (st : Int) (body : Buf) (hb : body.WF) (off n : Nat)
    (hn : Spec.serialTypeLen st = some n) (hfit : off + n ≤ body.size) :
    getRecordContent st body off =
      match Spec.serialGet st ((body.toList.drop off).take n) with
      | some v => .ok (n, v)
      | none => .error .valueError := by
  have hlen := content_length body off n hfit
  have hmem := content_mem body hb off n
  have hun := unpackN_ok body off n hfit
  generalize hc : (body.toList.drop off).take n = c at hlen hmem hun
  unfold Spec.serialGet
  rw [hn]
  simp only [hlen, ne_eq, not_true_eq_false, if_false]
  rcases serialTypeLen_cases st with h | h | h | h | h | h | h | h | h | h | h | h | h | h
  · rw [h.2] at hn; cases hn
  · obtain ⟨rfl, hs⟩ := h; rw [hs] at hn; cases hn; rfl
  · obtain ⟨rfl, hs⟩ := h; rw [hs] at hn; cases hn
    simp only [getRecordContent, Int.reduceEq, Int.reduceLE, if_false, if_true, hun]
    rw [← toSigned_twos c 1 hlen]; rfl
  · obtain ⟨rfl, hs⟩ := h; rw [hs] at hn; cases hn
    simp only [getRecordContent, Int.reduceEq, Int.reduceLE, if_false, if_true, hun]
    rw [← toSigned_twos c 2 hlen]; rfl
  · obtain ⟨rfl, hs⟩ := h; rw [hs] at hn; cases hn
    simp only [getRecordContent, Int.reduceEq, Int.reduceLE, if_false, if_true, hun]
    rw [← sign24_twos c hlen hmem]; rfl
  · obtain ⟨rfl, hs⟩ := h; rw [hs] at hn; cases hn
    simp only [getRecordContent, Int.reduceEq, Int.reduceLE, if_false, if_true, hun]
    rw [← toSigned_twos c 4 hlen]; rfl
  · obtain ⟨rfl, hs⟩ := h; rw [hs] at hn; cases hn
    simp only [getRecordContent, Int.reduceEq, Int.reduceLE, if_false, if_true, hun]
    rw [← sign48_twos c hlen hmem]; rfl
  · obtain ⟨rfl, hs⟩ := h; rw [hs] at hn; cases hn
    simp only [getRecordContent, Int.reduceEq, Int.reduceLE, if_false, if_true, hun]
    rw [← toSigned_twos c 8 hlen]; rfl
  · obtain ⟨rfl, hs⟩ := h; rw [hs] at hn; cases hn
    simp only [getRecordContent, Int.reduceEq, Int.reduceLE, if_false, if_true, hun]
    rfl
  · obtain ⟨rfl, hs⟩ := h; rw [hs] at hn; cases hn; rfl
  · obtain ⟨rfl, hs⟩ := h; rw [hs] at hn; cases hn; rfl
  · rw [h.2] at hn; cases hn
  · rw [h.2] at hn; cases hn
  · obtain ⟨h12, hs⟩ := h
    rw [hs] at hn
    have hn' : n = (st.toNat - 12) / 2 := (Option.some.inj hn).symm
    have hn'' : ((st - 12) / 2).toNat = n ∧ ((st - 13) / 2).toNat = n ∨ st % 2 = 0 := by omega
    have e0 : ¬ st = 0 := by omega
    have e1 : ¬ st = 1 := by omega
    have e2 : ¬ st = 2 := by omega
    have e3 : ¬ st = 3 := by omega
    have e4 : ¬ st = 4 := by omega
    have e5 : ¬ st = 5 := by omega
    have e6 : ¬ st = 6 := by omega
    have e7 : ¬ st = 7 := by omega
    have e8 : ¬ st = 8 := by omega
    have e9 : ¬ st = 9 := by omega
    have e10 : ¬ (st = 10 ∨ st = 11) := by omega
    have e11 : ¬ st ≤ 6 := by omega
    have e12 : st ≥ 12 := h12
    simp only [getRecordContent, e0, e1, e2, e3, e4, e5, e6, e7, e8, e9, e10, e11, e12, if_false, true_and]
    by_cases hev : st % 2 = 0
    · have e : ((st - 12) / 2).toNat = n := by omega
      simp only [hev, if_true, e]
      rw [slice_toList body off n hfit, ← content_eq body off n hfit, hc]
    · have e : ((st - 13) / 2).toNat = n := by omega
      have hodd : st % 2 = 1 := by omega
      have e13 : st ≥ 13 := by omega
      simp only [hev, if_false, e, e13, true_and]
      simp only [hodd, if_true]
      rw [slice_toList body off n hfit, ← content_eq body off n hfit, hc]

/-! ### two's complement round trip -/

theorem twosBytes_length : ∀ (w : Nat) (i : Int), (Spec.twosBytes w i).length = w := by
  intro w
  induction w with
  | zero => intro i; rfl
  | succ w ih => intro i; simp [Spec.twosBytes, ih]

theorem twosBytes_mem : ∀ (w : Nat) (i : Int), ∀ x ∈ Spec.twosBytes w i, x < 256 := by
  intro w
  induction w with
  | zero => intro i x h; simp [Spec.twosBytes] at h
  | succ w ih =>
    intro i x h
    simp only [Spec.twosBytes, List.mem_append, List.mem_singleton] at h
    rcases h with h | h
    · exact ih _ _ h
    · omega

theorem int_emod_mul (i X : Int) (hX : 0 < X) : i % (256 * X) = i % 256 + 256 * (i / 256 % X) := by
  have h1 := Int.mul_ediv_add_emod (i / 256) X
  have h2 := Int.emod_nonneg (i / 256) (Int.ne_of_gt hX)
  have h3 := Int.emod_lt_of_pos (i / 256) hX
  have hb : 0 < 256 * X := by omega
  have := (Int.ediv_emod_unique (a := i) (r := i % 256 + 256 * (i / 256 % X)) (q := i / 256 / X) hb).2
    ⟨by rw [Int.mul_assoc]; omega, by omega, by omega⟩
  exact this.2

theorem beVal_twosBytes : ∀ (w : Nat) (i : Int),
    (Spec.beVal (Spec.twosBytes w i) : Int) = i % (256 : Int) ^ w := by
  intro w
  induction w with
  | zero => intro i; simp [Spec.twosBytes, Spec.beVal, Int.emod_one]
  | succ w ih =>
    intro i
    rw [Spec.twosBytes, beVal_concat]
    have h := ih (i / 256)
    have hp : (0 : Int) < 256 ^ w := Int.pow_pos (by decide)
    rw [Int.pow_succ, Int.mul_comm, int_emod_mul i _ hp, ← h]
    omega

theorem spec_twos_roundtrip (w : Nat) (hw : w = 1 ∨ w = 2 ∨ w = 3 ∨ w = 4 ∨ w = 6 ∨ w = 8) (i : Int)
    (hlo : -(2 ^ (8 * w - 1) : Int) ≤ i) (hhi : i < (2 ^ (8 * w - 1) : Int)) :
    Spec.twosVal (Spec.twosBytes w i) = i ∧ (Spec.twosBytes w i).length = w ∧
      ∀ x ∈ Spec.twosBytes w i, x < 256 := by
  refine ⟨?_, twosBytes_length w i, twosBytes_mem w i⟩
  rw [twosVal_eq _ w (twosBytes_length w i)]
  have h := beVal_twosBytes w i
  generalize Spec.beVal (Spec.twosBytes w i) = u at h
  rcases hw with rfl | rfl | rfl | rfl | rfl | rfl <;>
    (simp only [Nat.reduceMul, Nat.reduceSub, Int.reducePow, Nat.reducePow] at hlo hhi h ⊢
     split <;> omega)

theorem int_roundtrip (st : Int) (w : Nat)
    (hst : (st = 1 ∧ w = 1) ∨ (st = 2 ∧ w = 2) ∨ (st = 3 ∧ w = 3) ∨ (st = 4 ∧ w = 4) ∨ (st = 5 ∧ w = 6) ∨ (st = 6 ∧ w = 8))
    (i : Int) (hlo : -(2 ^ (8 * w - 1) : Int) ≤ i) (hhi : i < (2 ^ (8 * w - 1) : Int)) :
    getRecordContent st (Buf.ofList (Spec.twosBytes w i)) 0 = .ok (w, .int i) := by
  have hw : w = 1 ∨ w = 2 ∨ w = 3 ∨ w = 4 ∨ w = 6 ∨ w = 8 := by omega
  obtain ⟨hval, hlen, hmem⟩ := spec_twos_roundtrip w hw i hlo hhi
  have hn : Spec.serialTypeLen st = some w := by
    rcases hst with ⟨rfl, rfl⟩ | ⟨rfl, rfl⟩ | ⟨rfl, rfl⟩ | ⟨rfl, rfl⟩ | ⟨rfl, rfl⟩ | ⟨rfl, rfl⟩ <;> rfl
  rw [record_content_eq_spec st _ (ofList_WF _ hmem) 0 w hn (by rw [ofList_size, hlen]; omega)]
  rw [List.drop_zero, ofList_toList, List.take_of_length_le (by omega)]
  unfold Spec.serialGet
  rw [hn]
  simp only [hlen, ne_eq, not_true_eq_false, if_false, hval]
  rcases hst with ⟨rfl, rfl⟩ | ⟨rfl, rfl⟩ | ⟨rfl, rfl⟩ | ⟨rfl, rfl⟩ | ⟨rfl, rfl⟩ | ⟨rfl, rfl⟩ <;> rfl

/-! ### calculate_body_content_size -/

theorem serialTypeLen_some (st : Int) (h0 : 0 ≤ st) (h10 : st ≠ 10) (h11 : st ≠ 11) :
    ∃ k, Spec.serialTypeLen st = some k := by
  rcases serialTypeLen_cases st with h | h | h | h | h | h | h | h | h | h | h | h | h | h
  · omega
  iterate 10 exact ⟨_, h.2⟩
  · omega
  · omega
  · exact ⟨_, h.2⟩

theorem flat_mem (sts : List Int) :
    ∀ x ∈ sts.flatMap (fun st => Spec.putVarint (Spec.toU64 st)), x < 256 := by
  intro x hx
  obtain ⟨st, _, hst⟩ := List.mem_flatMap.1 hx
  exact spec_put_bytes' _ x hst

theorem cbcsLoop_flat : ∀ (sts : List Int) (pre l : List Nat) (fuel acc : Nat),
    (∀ st ∈ sts, 0 ≤ st ∧ st < (2 ^ 63 : Int) ∧ st ≠ 10 ∧ st ≠ 11) →
    (∀ x ∈ pre, x < 256) →
    l = pre ++ sts.flatMap (fun st => Spec.putVarint (Spec.toU64 st)) →
    (sts.flatMap (fun st => Spec.putVarint (Spec.toU64 st))).length ≤ fuel →
    cbcsLoop (Buf.ofList l) fuel pre.length acc =
      .ok (acc + (sts.map fun st => (Spec.serialTypeLen st).getD 0).sum) := by
  intro sts
  induction sts with
  | nil =>
    intro pre l fuel acc _ _ hl _
    have hsz : ¬ (pre.length < (Buf.ofList l).size) := by
      rw [ofList_size, hl]; simp
    cases fuel <;> simp [cbcsLoop, hsz]
  | cons st rest ih =>
    intro pre l fuel acc hsts hpre hl hfuel
    obtain ⟨h0, h63, h10, h11⟩ := hsts st (List.mem_cons_self ..)
    have hrest : ∀ s ∈ rest, 0 ≤ s ∧ s < (2 ^ 63 : Int) ∧ s ≠ 10 ∧ s ≠ 11 :=
      fun s hs => hsts s (List.mem_cons_of_mem _ hs)
    generalize hP : Spec.putVarint (Spec.toU64 st) = P at *
    have hPlen : 1 ≤ P.length := by
      rw [← hP, spec_put_length]; exact varintLen_pos _
    have hPmem : ∀ x ∈ P, x < 256 := by rw [← hP]; exact spec_put_bytes' _
    rw [List.flatMap_cons, hP] at hl hfuel
    rw [List.length_append] at hfuel
    obtain ⟨f, rfl⟩ : ∃ f, fuel = f + 1 := ⟨fuel - 1, by omega⟩
    have hwf : (Buf.ofList l).WF := by
      apply ofList_WF
      rw [hl]
      intro x hx
      rcases List.mem_append.1 hx with h | h
      · exact hpre x h
      · rcases List.mem_append.1 h with h | h
        · exact hPmem x h
        · exact flat_mem rest x h
    have hsize : (Buf.ofList l).size = pre.length + P.length +
        (rest.flatMap (fun st => Spec.putVarint (Spec.toU64 st))).length := by
      rw [ofList_size, hl]; simp only [List.length_append]; omega
    have hdec : decodeVarint (Buf.ofList l) pre.length = .ok (st, P.length) := by
      rw [decode_eq_spec _ hwf, ofList_toList, hl, List.drop_left, ← hP,
        spec_get_put _ (toU64_lt st)]
      simp only [toI64_toU64 st (by omega) h63]
    obtain ⟨k, hk⟩ := serialTypeLen_some st h0 h10 h11
    have hcs : getContentSize st = .ok k := by rw [content_size_eq_spec, hk]
    rw [cbcsLoop]
    have hlt : pre.length < (Buf.ofList l).size := by omega
    have hgt : ¬ (pre.length + P.length > (Buf.ofList l).size) := by omega
    simp only [hlt, if_true, hdec, hcs, hgt, if_false]
    have hl' : l = (pre ++ P) ++ rest.flatMap (fun st => Spec.putVarint (Spec.toU64 st)) := by
      rw [hl, List.append_assoc]
    have := ih (pre ++ P) l f (acc + k) hrest
      (fun x hx => by
        rcases List.mem_append.1 hx with h | h
        · exact hpre x h
        · exact hPmem x h)
      hl' (by omega)
    rw [List.length_append] at this
    rw [this, List.map_cons, List.sum_cons, hk, Option.getD_some, Nat.add_assoc]

theorem body_size_sum (sts : List Int)
    (hsts : ∀ st ∈ sts, 0 ≤ st ∧ st < (2 ^ 63 : Int) ∧ st ≠ 10 ∧ st ≠ 11) :
    calcBodyContentSize (Buf.ofList (sts.flatMap fun st => Spec.putVarint (Spec.toU64 st))) =
      .ok ((sts.map fun st => (Spec.serialTypeLen st).getD 0).sum) := by
  unfold calcBodyContentSize
  have := cbcsLoop_flat sts [] _ (Buf.ofList (sts.flatMap fun st => Spec.putVarint (Spec.toU64 st))).size 0
    hsts (by simp) (List.nil_append _).symm (by rw [ofList_size]; exact Nat.le_refl _)
  simpa using this

end SqliteDissect.Proofs.Codec
