/-
C02 + C01 end to end: the interface of version `k` of an accepted history serves every page of
SQLite's snapshot after the `k`-th commit (`Spec.snapshotIf`) exactly as the snapshot does, so a
b-tree is constructed from the version exactly as from the snapshot, and the rows of a table laid
out in the snapshot are the rows reported for the version.
-/
import SqliteDissect.Spec.SnapshotIf
import SqliteDissect.Proofs.WalContent
import SqliteDissect.Proofs.SkipWal
import SqliteDissect.Proofs.TreeParse
import SqliteDissect.Proofs.PageCheck

namespace SqliteDissect.Proofs.VersionRows
open SqliteDissect SqliteDissect.Model
open SqliteDissect.Proofs.Wal SqliteDissect.Proofs.WalHistory SqliteDissect.Proofs.WalTruncate
open SqliteDissect.Proofs.WalContent SqliteDissect.Proofs.TreeFrame
open SqliteDissect.Spec (CellSpec TTree TreeLaidOut Elementwise snapshotIf snapshotSize)

/-! ### the size of the snapshot is the size of the version -/

theorem snapshotSize_zero (n : Nat) (gs : List (List Frame)) : snapshotSize n gs 0 = n := by
  simp [snapshotSize]

theorem version_size (cfg : Config) (db : Database) (dbv : VersionIf) (w : Wal)
    (vs : List (Version × VersionIf)) (h : versionHistory cfg db dbv (some w) = .ok vs)
    (k : Nat) (ver : Version) (v : VersionIf) (hk : vs[k]? = some (ver, v)) :
    ver.dbSize = snapshotSize db.dbSize.floor (groupFrames w.frames [] []).1 k := by
  cases k with
  | zero =>
    obtain ⟨h0, -⟩ := history_interfaces cfg db dbv w vs h
    rw [h0] at hk
    simp only [Option.some.injEq, Prod.mk.injEq] at hk
    rw [snapshotSize_zero, ← hk.1]
    rfl
  | succ k =>
    obtain ⟨-, hcom⟩ := history_versions_committed cfg db dbv w vs h
    obtain ⟨init, last, fd, hg, -, -, -, -, -, -, hsz, -⟩ := hcom k ver v hk
    unfold snapshotSize
    rw [List.take_add_one, hg, hsz]
    simp

/-! ### version `k+1` against the snapshot, page by page -/

theorem wal_branch (fh : FileH) (ps off nb f : Nat) (hf : 1 ≤ f) :
    (if off ≥ ps ∨ off + nb > ps then (.error .valueError : Py Buf)
      else fh.read (Spec.frameImageOffset ps f + off) nb) =
    (if off ≥ ps then (.error .valueError : Py Buf)
      else if off + nb > ps then .error .valueError
      else do
        let po ← (.ok (Generated.WAL_HEADER_LENGTH + Generated.WAL_FRAME_HEADER_LENGTH * f + ps * (f - 1)) : Py Nat)
        fh.read (po + off) nb) := by
  rw [frame_offset ps f hf]
  by_cases h1 : off ≥ ps
  · rw [if_pos (Or.inl h1), if_pos h1]
  · by_cases h2 : off + nb > ps
    · rw [if_pos (Or.inr h2), if_neg h1, if_pos h2]
    · rw [if_neg (by omega), if_neg h1, if_neg h2]
      rfl

theorem agree_commit (cfg : Config) (db : Database) (dbv : VersionIf) (w : Wal)
    (vs : List (Version × VersionIf)) (h : versionHistory cfg db dbv (some w) = .ok vs)
    (k : Nat) (ver : Version) (v : VersionIf) (hk : vs[k + 1]? = some (ver, v))
    (p : Nat) (hp1 : 1 ≤ p) (hp2 : p ≤ ver.dbSize) :
    Agree (snapshotIf cfg.strict dbv db.dbSize.floor w.fh w.hdr.pageSize (groupFrames w.frames [] []).1 (k + 1))
      v p := by
  have hsz := version_size cfg db dbv w vs h (k + 1) ver v hk
  obtain ⟨hv, hf1, hcase⟩ := version_lookup cfg db dbv w vs h k ver v hk p
  obtain ⟨-, hidx⟩ := (history_indices cfg db dbv w vs h).2 (k + 1) ver v hk
  obtain ⟨-, hpvi⟩ := hidx p
  have hr : ¬ (p < 1 ∨ p > snapshotSize db.dbSize.floor (groupFrames w.frames [] []).1 (k + 1)) := by
    rw [← hsz]; omega
  have hr' : ¬ (p < 1 ∨ p > ver.dbSize) := by omega
  rw [hv]
  rcases hcase with ⟨hl, hpv⟩ | ⟨f, j, hl, hpv, hpf, hown⟩
  · have ht := (latestTxn_none_iff _ p).mpr hl
    by_cases hdb : p ≤ db.dbSize.floor
    · rw [if_pos ⟨hp1, hdb⟩] at hpv
      refine ⟨?_, ?_, ?_⟩
      · funext off n
        simp only [snapshotIf, walVersionIf, hl, hpv, if_neg hr, if_pos hdb, if_true]
      · simp only [snapshotIf, walVersionIf, ht, hpv, if_pos (And.intro hp1 hdb)]
      · simp only [snapshotIf, walVersionIf, hl, hpv, if_neg hr, if_neg hr', if_pos hdb, if_true]
    · rw [if_neg (fun hc => hdb hc.2)] at hpv
      refine ⟨?_, ?_, ?_⟩
      · funext off n
        simp only [snapshotIf, walVersionIf, hl, hpv, if_neg hr, if_neg hdb]
      · simp only [snapshotIf, walVersionIf, ht, hpv, if_neg (fun hc : 1 ≤ p ∧ p ≤ db.dbSize.floor => hdb hc.2)]
      · simp only [snapshotIf, walVersionIf, hl, hpv, if_neg hr, if_neg hr', if_neg hdb]
  · have hf : 1 ≤ f := hf1 p f hpf
    have ht : Spec.latestTxn ((groupFrames w.frames [] []).1.take (k + 1)) p = some (j + 1) := by
      cases htx : Spec.latestTxn ((groupFrames w.frames [] []).1.take (k + 1)) p with
      | none =>
        rw [(latestTxn_none_iff _ p).mp htx] at hl
        exact nomatch hl
      | some j' =>
        rw [htx, hpv] at hpvi
        simp only [Option.some.injEq] at hpvi
        rw [hpvi]
    have hj0 : ¬ (j + 1 = 0) := by omega
    refine ⟨?_, ?_, ?_⟩
    · funext off n
      simp only [snapshotIf, walVersionIf, hl, hpv, hpf, if_neg hr, if_neg hr', if_neg hj0, if_neg hown]
      exact wal_branch w.fh w.hdr.pageSize off _ f hf
    · simp only [snapshotIf, walVersionIf, ht, hpv]
    · simp only [snapshotIf, walVersionIf, hl, hpv, hpf, if_neg hr, if_neg hr', if_neg hj0, if_neg hown]
      rw [frame_offset _ f hf]

/-! ### version 0 against the snapshot before the first transaction -/

theorem agree_db (cfg : Config) (strict : Bool) (ps : Nat) (dsize : DbSize) (f : FileH) (wf : FileH)
    (gs : List (List Frame)) (p : Nat) (hp1 : 1 ≤ p) (hp2 : p ≤ dsize.floor) :
    Agree (snapshotIf strict (dbVersionIf cfg ps dsize f) dsize.floor wf ps gs 0) (dbVersionIf cfg ps dsize f) p := by
  have hr : ¬ (p < 1 ∨ p > dsize.floor) := by omega
  have hl : Spec.latestFrame ((gs.take 0).flatten) p = none := by simp [Spec.latestFrame]
  have ht : Spec.latestTxn (gs.take 0) p = none := by simp [Spec.latestTxn]
  refine ⟨?_, ?_, ?_⟩
  · funext off n
    simp only [snapshotIf, snapshotSize_zero, hl, if_neg hr, if_pos hp2]
  · simp only [snapshotIf, dbVersionIf, ht]
  · simp only [snapshotIf, dbVersionIf, snapshotSize_zero, hl, if_neg hr, if_pos hp2]

/-! ### the link between version `k` and the snapshot after commit `k` -/

theorem snapshot_served_bounds (strict : Bool) (dbv : VersionIf) (n : Nat) (fh : FileH) (ps : Nat)
    (gs : List (List Frame)) (k p : Nat) (h : Served (snapshotIf strict dbv n fh ps gs k) p) :
    1 ≤ p ∧ p ≤ snapshotSize n gs k := by
  obtain ⟨⟨o, ho⟩, -⟩ := h
  simp only [snapshotIf] at ho
  split at ho
  · exact nomatch ho
  · omega

/-- everything the tree-level statements need: same page size and parser option, pages inside the
size are served identically, and neither side serves a page outside it -/
structure Linked (s v : VersionIf) (size : Nat) : Prop where
  ps : s.pageSize = v.pageSize
  strict : s.strict = v.strict
  agree : ∀ p, 1 ≤ p → p ≤ size → Agree s v p
  inS : ∀ p, Served s p → 1 ≤ p ∧ p ≤ size
  inV : ∀ p, Served v p → 1 ≤ p ∧ p ≤ size

theorem version_linked (cfg : Config) (db : Database) (dbv : VersionIf) (w : Wal)
    (vs : List (Version × VersionIf)) (h : versionHistory cfg db dbv (some w) = .ok vs)
    (k : Nat) (ver : Version) (v : VersionIf) (hk : vs[k]? = some (ver, v))
    (hdb0 : k = 0 → ∃ f, dbv = dbVersionIf cfg w.hdr.pageSize db.dbSize f) :
    Linked (snapshotIf cfg.strict dbv db.dbSize.floor w.fh w.hdr.pageSize (groupFrames w.frames [] []).1 k) v
      (snapshotSize db.dbSize.floor (groupFrames w.frames [] []).1 k) := by
  have hsz := version_size cfg db dbv w vs h k ver v hk
  cases k with
  | zero =>
    obtain ⟨f, rfl⟩ := hdb0 rfl
    obtain ⟨h0, -⟩ := history_interfaces cfg db _ w vs h
    rw [h0] at hk
    simp only [Option.some.injEq, Prod.mk.injEq] at hk
    obtain ⟨-, rfl⟩ := hk
    refine ⟨rfl, rfl, ?_, fun p hs => snapshot_served_bounds _ _ _ _ _ _ _ p hs, ?_⟩
    · intro p h1 h2
      rw [snapshotSize_zero] at h2
      exact agree_db cfg cfg.strict _ _ f w.fh _ p h1 h2
    · intro p hs
      rw [snapshotSize_zero]
      exact SkipWal.db_served_bounds cfg _ _ f p hs
  | succ k =>
    obtain ⟨hv, -, -⟩ := version_lookup cfg db dbv w vs h k ver v hk 0
    refine ⟨by rw [hv]; rfl, by rw [hv]; rfl, ?_, fun p hs => snapshot_served_bounds _ _ _ _ _ _ _ p hs, ?_⟩
    · intro p h1 h2
      rw [← hsz] at h2
      exact agree_commit cfg db dbv w vs h k ver v hk p h1 h2
    · intro p hs
      rw [← hsz]
      rw [hv] at hs
      exact SkipWal.wal_served_bounds _ _ _ _ _ _ _ _ p hs

/-! ### trees -/

theorem linked_tree_forth (s v : VersionIf) (size : Nat) (L : Linked s v size) (frames r : Nat) (t : List BPage)
    (h : getBTreeRoot s frames r = .ok t) : getBTreeRoot v frames r = .ok t := by
  obtain ⟨cls, -, hp⟩ := getBTreeRoot_ok s frames r t h
  refine getBTreeRoot_frame s v L.ps L.strict frames r t h ?_
  intro p hp'
  obtain ⟨h1, h2⟩ := L.inS p (parseBTree_served s frames r cls t hp p hp')
  exact L.agree p h1 h2

theorem linked_tree_back (s v : VersionIf) (size : Nat) (L : Linked s v size) (frames r : Nat) (t : List BPage)
    (h : getBTreeRoot v frames r = .ok t) : getBTreeRoot s frames r = .ok t := by
  obtain ⟨cls, -, hp⟩ := getBTreeRoot_ok v frames r t h
  refine getBTreeRoot_frame v s L.ps.symm L.strict.symm frames r t h ?_
  intro p hp'
  obtain ⟨h1, h2⟩ := L.inV p (parseBTree_served v frames r cls t hp p hp')
  exact (L.agree p h1 h2).symm

/-- the b-tree rooted at `r` is constructed from version `k` exactly as from the snapshot after
commit `k`: the same list of pages, cell for cell and field for field -/
theorem version_tree_eq_snapshot_tree (cfg : Config) (db : Database) (dbv : VersionIf) (w : Wal)
    (vs : List (Version × VersionIf)) (h : versionHistory cfg db dbv (some w) = .ok vs)
    (k : Nat) (ver : Version) (v : VersionIf) (hk : vs[k]? = some (ver, v))
    (hdb0 : k = 0 → ∃ f, dbv = dbVersionIf cfg w.hdr.pageSize db.dbSize f)
    (frames r : Nat) (t : List BPage) :
    getBTreeRoot v frames r = .ok t ↔
      getBTreeRoot (snapshotIf cfg.strict dbv db.dbSize.floor w.fh w.hdr.pageSize
        (groupFrames w.frames [] []).1 k) frames r = .ok t := by
  have L := version_linked cfg db dbv w vs h k ver v hk hdb0
  exact ⟨linked_tree_back _ _ _ L frames r t, linked_tree_forth _ _ _ L frames r t⟩

/-! ### rows -/

/-- **C02 + C01.**  The rows of a table b-tree stored in SQLite's snapshot after commit `k` are the
rows reported for version `k` -/
theorem version_rows (cfg : Config) (db : Database) (dbv : VersionIf) (w : Wal)
    (vs : List (Version × VersionIf)) (h : versionHistory cfg db dbv (some w) = .ok vs)
    (k : Nat) (ver : Version) (v : VersionIf) (hk : vs[k]? = some (ver, v))
    (hdb0 : k = 0 → ∃ f, dbv = dbVersionIf cfg w.hdr.pageSize db.dbSize f)
    (hu : 512 ≤ w.hdr.pageSize) (hu2 : w.hdr.pageSize ≤ 65536)
    (T : TTree)
    (hT : TreeLaidOut (snapshotIf cfg.strict dbv db.dbSize.floor w.fh w.hdr.pageSize
      (groupFrames w.frames [] []).1 k) true T)
    (frames : Nat) (hf : T.frames ≤ frames) (hpd : T.PagesDistinct)
    (hnd : (T.leafCells.map (·.rowid)).Nodup) :
    ∃ t, getBTreeRoot v frames T.page = .ok t ∧
      Elementwise (fun s c => CellSpec.ReportedAs w.hdr.pageSize s c) T.leafCells (leafCells t) ∧
      (leafCells t).map Spec.cellRow = T.leafCells.map CellSpec.row ∧
      (aggregateLeafCells t []).1 = T.leafCells.length ∧
      (aggregateLeafCells t []).2.1.map (fun e => Spec.cellRow e.2) = T.leafCells.map CellSpec.row := by
  obtain ⟨t, ht, rest⟩ := TreeParse.table_tree_rows _ hu hu2 T hT frames hf hpd hnd
  exact ⟨t, (version_tree_eq_snapshot_tree cfg db dbv w vs h k ver v hk hdb0 frames T.page t).mpr ht, rest⟩

/-- the same for the entries of an index b-tree (C14) -/
theorem version_index_entries (cfg : Config) (db : Database) (dbv : VersionIf) (w : Wal)
    (vs : List (Version × VersionIf)) (h : versionHistory cfg db dbv (some w) = .ok vs)
    (k : Nat) (ver : Version) (v : VersionIf) (hk : vs[k]? = some (ver, v))
    (hdb0 : k = 0 → ∃ f, dbv = dbVersionIf cfg w.hdr.pageSize db.dbSize f)
    (hu : 512 ≤ w.hdr.pageSize) (hu2 : w.hdr.pageSize ≤ 65536)
    (T : TTree)
    (hT : TreeLaidOut (snapshotIf cfg.strict dbv db.dbSize.floor w.fh w.hdr.pageSize
      (groupFrames w.frames [] []).1 k) false T)
    (frames : Nat) (hf : T.frames ≤ frames) (hpd : T.PagesDistinct) :
    ∃ t, getBTreeRoot v frames T.page = .ok t ∧
      Elementwise (fun s c => CellSpec.ReportedAs w.hdr.pageSize s c) T.allCells (t.flatMap (·.cells)) ∧
      (t.flatMap (·.cells)).map Spec.cellRow = T.allCells.map CellSpec.row ∧
      Elementwise (fun s c => CellSpec.ReportedAs w.hdr.pageSize s c) T.leafCells (leafCells t) ∧
      (aggregateLeafCells t []).1 = T.leafCells.length := by
  obtain ⟨t, ht, rest⟩ := TreeParse.index_tree_entries _ hu hu2 T hT frames hf hpd
  exact ⟨t, (version_tree_eq_snapshot_tree cfg db dbv w vs h k ver v hk hdb0 frames T.page t).mpr ht, rest⟩

/-! ### the snapshot interface in terms of `snapshotPage` / `snapshotBytes` -/

theorem snapshotIf_whole (strict : Bool) (dbv : VersionIf) (n : Nat) (fh : FileH) (ps : Nat)
    (gs : List (List Frame)) (k p : Nat) (hp : 1 ≤ p ∧ p ≤ snapshotSize n gs k) (hps : 0 < ps)
    (hcov : p ≤ n ∨ Spec.latestFrame ((gs.take k).flatten) p ≠ none) :
    (snapshotIf strict dbv n fh ps gs k).getData p 0 none =
      Spec.snapshotPage (fun q => dbv.getData q 0 none) fh ps gs k p := by
  have hr : ¬ (p < 1 ∨ p > snapshotSize n gs k) := by omega
  simp only [snapshotIf, Spec.snapshotPage, if_neg hr]
  cases hl : Spec.latestFrame ((gs.take k).flatten) p with
  | none =>
    rcases hcov with hc | hc
    · simp only [if_pos hc]
    · exact absurd hl hc
  | some f =>
    simp only [Nat.sub_zero, Nat.add_zero, Nat.zero_add]
    rw [if_neg (by omega)]

theorem snapshotIf_part (strict : Bool) (dbv : VersionIf) (n : Nat) (fh : FileH) (ps : Nat)
    (gs : List (List Frame)) (k p : Nat) (hp : 1 ≤ p ∧ p ≤ snapshotSize n gs k)
    (hcov : p ≤ n ∨ Spec.latestFrame ((gs.take k).flatten) p ≠ none)
    (off len : Nat) (hlen : 0 < len) (hoff : off + len ≤ ps) :
    (snapshotIf strict dbv n fh ps gs k).getData p off (some len) =
      Spec.snapshotBytes (fun q o l => dbv.getData q o (some l)) fh ps gs k p off len := by
  have hr : ¬ (p < 1 ∨ p > snapshotSize n gs k) := by omega
  obtain ⟨l, rfl⟩ : ∃ l, len = l + 1 := ⟨len - 1, by omega⟩
  simp only [snapshotIf, Spec.snapshotBytes, if_neg hr]
  cases hl : Spec.latestFrame ((gs.take k).flatten) p with
  | none =>
    rcases hcov with hc | hc
    · simp only [if_pos hc]
    · exact absurd hl hc
  | some f =>
    simp only
    rw [if_neg (by omega)]

/-! ### tools for concrete instances -/

/-- a page whose latest frame's image can be read whole from the log is served by the snapshot
with exactly those bytes -/
theorem snapshotIf_serves_wal (strict : Bool) (dbv : VersionIf) (n : Nat) (fh : FileH) (ps : Nat)
    (gs : List (List Frame)) (k p f : Nat) (b : Buf) (bytes : List Nat)
    (hp : 1 ≤ p ∧ p ≤ snapshotSize n gs k) (hps : 0 < ps)
    (hl : Spec.latestFrame ((gs.take k).flatten) p = some f)
    (hr : fh.read (Spec.frameImageOffset ps f) ps = .ok b) (hb : b.toList = bytes) (hlen : bytes.length = ps) :
    Spec.Serves (snapshotIf strict dbv n fh ps gs k) p bytes := by
  have hrange : ¬ (p < 1 ∨ p > snapshotSize n gs k) := by omega
  have hsz : b.size = ps := by rw [← hlen, ← hb, Codec.toList_length]
  refine ⟨hlen, ?_, ?_, ?_, ?_⟩
  · cases ht : Spec.latestTxn (gs.take k) p with
    | none =>
      rw [(latestTxn_none_iff _ p).mp ht] at hl
      exact nomatch hl
    | some j => exact ⟨j, by simp only [snapshotIf, ht]⟩
  · exact ⟨Spec.frameImageOffset ps f, by simp only [snapshotIf, if_neg hrange, hl]⟩
  · refine ⟨b, ?_, hb, by rw [hsz, hlen]⟩
    rw [snapshotIf_whole strict dbv n fh ps gs k p hp hps (Or.inr (by rw [hl]; simp))]
    simp only [Spec.snapshotPage, hl]
    exact hr
  · intro off len hlen' hoff
    have hoff' : off + len ≤ ps := hoff
    refine ⟨b.slice off (off + len), ?_, ?_, ?_⟩
    · rw [snapshotIf_part strict dbv n fh ps gs k p hp (Or.inr (by rw [hl]; simp)) off len hlen' hoff']
      simp only [Spec.snapshotBytes, hl]
      exact read_sub fh _ ps off len b hr hlen' hoff'
    · rw [Record.slice_toList' b off (off + len) (by omega) (by omega), hb, Nat.add_sub_cancel_left]
    · simp only [Buf.slice]; omega

theorem valid_of_local (v : VersionIf) (u : Nat) (hu : v.pageSize = u) (s : CellSpec)
    (h : PageCheck.validLocalB u s = true) : s.Valid v := by
  subst hu
  exact PageCheck.validLocalB_sound v s h

end SqliteDissect.Proofs.VersionRows
