/-
The schema a version of an accepted history reports when its commit record modified the schema:
`makeCommitRecord` parses page 1's tree and the master schema under the record's own interface
with `cfg.frames`, and stores exactly that in the `Version` — so `observedSchema` (what
`version.master_schema` is observed to be) *is* the parse of the version's own page-1 tree.
-/
import SqliteDissect.Proofs.WalHistory
import SqliteDissect.Proofs.WalContent
import SqliteDissect.Proofs.SchemaRows
import SqliteDissect.Proofs.Config

namespace SqliteDissect.Proofs.CommitSchema
open SqliteDissect SqliteDissect.Model
open SqliteDissect.Proofs.WalHistory

/-- what `makeCommitRecord` stores as root tree and schema when it found the schema modified -/
theorem commit_record_schema (cfg : Config) (dbv : VersionIf) (wal : Wal) (number : Nat) (frames : List Frame)
    (prev : Version) (lastHdr : DbHeader) (lastSchema : MasterSchema) (lastRoot : List BPage) (enc : Nat)
    (ver : Version) (v : VersionIf)
    (h : makeCommitRecord cfg dbv wal number frames prev lastHdr lastSchema lastRoot enc = .ok (ver, v)) :
    (ver.schemaModified = true →
      getBTreeRoot v cfg.frames 1 = .ok ver.rootTree ∧
      parseMasterSchema v ver.encoding ver.rootTree = .ok ver.schema) ∧
    (ver.schemaModified = false → ver.rootTree = lastRoot ∧ ver.schema = lastSchema) := by
  unfold makeCommitRecord at h
  split at h
  · exact nomatch h
  split at h
  · exact nomatch h
  split at h
  · exact nomatch h
  obtain ⟨⟨fd, committed, csize⟩, hr, h⟩ := bind_ok _ _ _ h
  simp only at h
  split at h
  · exact nomatch h
  rename_i hcom
  obtain ⟨⟨ubt, ownHdr, rootMod⟩, -, h⟩ := bind_ok _ _ _ h
  simp only at h
  split at h
  · exact nomatch h
  obtain ⟨flags, -, h⟩ := bind_ok _ _ _ h
  obtain ⟨⟨rootTree, schema, ubt'⟩, hsch, h⟩ := bind_ok _ _ _ h
  simp only at h
  obtain ⟨fl, -, h⟩ := bind_ok _ _ _ h
  split at h
  · exact nomatch h
  obtain ⟨pm, -, h⟩ := bind_ok _ _ _ h
  have hfin : ∀ (x : Version × VersionIf) (c : Py (List (Nat × String))),
      (if cfg.storeInMemory = true then (do let _ ← c; pure x) else (pure x : Py _)) = .ok (ver, v) → x = (ver, v) := by
    intro x c hx
    split at hx
    · obtain ⟨_, -, hx⟩ := bind_ok _ _ _ hx
      exact Except.ok.inj hx
    · exact Except.ok.inj hx
  have hx := hfin _ _ h
  injection hx with hv1 hv2
  subst hv1 hv2
  simp only
  constructor
  · intro hm
    rw [if_pos (of_decide_eq_true hm)] at hsch
    obtain ⟨rt, hrt, hsch⟩ := bind_ok _ _ _ hsch
    obtain ⟨ms, hms, hsch⟩ := bind_ok _ _ _ hsch
    simp only [pure, Except.pure, Except.ok.injEq, Prod.mk.injEq] at hsch
    obtain ⟨rfl, rfl, -⟩ := hsch
    exact ⟨hrt, hms⟩
  · intro hm
    rw [if_neg (of_decide_eq_false hm)] at hsch
    simp only [pure, Except.pure, Except.ok.injEq, Prod.mk.injEq] at hsch
    exact ⟨hsch.1.symm, hsch.2.1.symm⟩

/-- every commit record of the history with a modified schema stores the parse of its own page-1
tree -/
def SchemaInv (cfg : Config) (vs : List (Version × VersionIf)) : Prop :=
  ∀ (k : Nat) (ver : Version) (v : VersionIf), vs[k + 1]? = some (ver, v) → ver.schemaModified = true →
    getBTreeRoot v cfg.frames 1 = .ok ver.rootTree ∧
    parseMasterSchema v ver.encoding ver.rootTree = .ok ver.schema

theorem schemaInv_fold (cfg : Config) (dbv : VersionIf) (w : Wal) (gs : List (List Frame)) :
    ∀ (st st' : HSt), SchemaInv cfg st.1 → gs.foldlM (hStep cfg dbv w) st = .ok st' → SchemaInv cfg st'.1 := by
  induction gs with
  | nil =>
    intro st st' hi h
    simp only [List.foldlM_nil, pure, Except.pure, Except.ok.injEq] at h
    subst h; exact hi
  | cons g gs ih =>
    intro st st' hi h
    rw [List.foldlM_cons] at h
    obtain ⟨st1, h1, h2⟩ := bind_ok _ _ _ h
    refine ih st1 st' ?_ h2
    obtain ⟨pv, pvi, cv, cvi, hl, hm, hst⟩ := hStep_ok cfg dbv w st st1 g h1
    have hs := (commit_record_schema _ _ _ _ _ _ _ _ _ _ _ _ hm).1
    intro k ver v hk hmod
    rw [hst] at hk
    by_cases hlt : k + 1 < st.1.length
    · rw [List.getElem?_append_left hlt] at hk
      exact hi k ver v hk hmod
    · have hlen := (List.getElem?_eq_some_iff.mp hk).1
      simp only [List.length_append, List.length_singleton] at hlen
      have hk' : k + 1 = st.1.length := by omega
      rw [hk', List.getElem?_append_right (Nat.le_refl _)] at hk
      simp only [Nat.sub_self, List.getElem?_cons_zero, Option.some.injEq, Prod.mk.injEq] at hk
      obtain ⟨rfl, rfl⟩ := hk
      exact hs hmod

/-- **the schema a version reports is the parse of its own page-1 tree** (schema-modifying commit
records, and the database file itself when it was opened with the same frames) -/
theorem observed_schema_modified (cfg : Config) (db : Database) (dbv : VersionIf) (w : Wal)
    (vs : List (Version × VersionIf)) (h : versionHistory cfg db dbv (some w) = .ok vs)
    (k : Nat) (ver : Version) (v : VersionIf) (hk : vs[k]? = some (ver, v))
    (hm : ver.schemaModified = true)
    (hdb0 : k = 0 → getBTreeRoot dbv cfg.frames 1 = .ok db.rootTree ∧
      parseMasterSchema dbv db.encoding db.rootTree = .ok db.schema) :
    getBTreeRoot v cfg.frames 1 = .ok ver.rootTree ∧
    parseMasterSchema v ver.encoding ver.rootTree = .ok ver.schema ∧
    observedSchema ver v cfg.frames = .ok (ver.rootTree, ver.schema) := by
  have hobs : observedSchema ver v cfg.frames = .ok (ver.rootTree, ver.schema) := by
    unfold observedSchema
    rw [if_pos hm]
  cases k with
  | zero =>
    obtain ⟨h0, -⟩ := WalContent.history_interfaces cfg db dbv w vs h
    rw [h0] at hk
    simp only [Option.some.injEq, Prod.mk.injEq] at hk
    obtain ⟨rfl, rfl⟩ := hk
    obtain ⟨h1, h2⟩ := hdb0 rfl
    exact ⟨h1, h2, hobs⟩
  | succ k =>
    rw [versionHistory_eq] at h
    obtain ⟨st', hf, h⟩ := bind_ok _ _ _ h
    split at h
    · exact nomatch h
    simp only [pure, Except.pure, Except.ok.injEq] at h
    subst h
    have inv := schemaInv_fold cfg dbv w _ _ st' (by intro k ver v hk; simp at hk) hf
    obtain ⟨h1, h2⟩ := inv k ver v hk hm
    exact ⟨h1, h2, hobs⟩

/-- the hypothesis about version 0 holds of what `openDatabase` returns -/
theorem openDatabase_schema (cfg : Config) (file : Buf) (db : Database) (dbv : VersionIf)
    (h : openDatabase cfg file = .ok (db, dbv)) :
    getBTreeRoot dbv cfg.frames 1 = .ok db.rootTree ∧
    parseMasterSchema dbv db.encoding db.rootTree = .ok db.schema := by
  rw [Config.openDatabase_eq_core] at h
  unfold Config.openCore at h
  dsimp only at h
  split at h
  · exact nomatch h
  obtain ⟨hdr, -, h⟩ := bind_ok _ _ _ h
  obtain ⟨dsize, -, h⟩ := bind_ok _ _ _ h
  obtain ⟨fl, -, h⟩ := bind_ok _ _ _ h
  obtain ⟨st, -, h⟩ := bind_ok _ _ _ h
  split at h
  · exact nomatch h
  obtain ⟨pm, -, h⟩ := bind_ok _ _ _ h
  obtain ⟨upd, -, h⟩ := bind_ok _ _ _ h
  obtain ⟨rootTree, hrt, h⟩ := bind_ok _ _ _ h
  obtain ⟨ms, hms, h⟩ := bind_ok _ _ _ h
  obtain ⟨upd2, -, h⟩ := bind_ok _ _ _ h
  have hx : ∀ (x : Database × VersionIf) (c : Py (List (Nat × String))),
      (if cfg.storeInMemory = true then (do let _ ← c; pure x) else (pure x : Py _)) = .ok (db, dbv) → x = (db, dbv) := by
    intro x c hx
    split at hx
    · obtain ⟨_, -, hx⟩ := bind_ok _ _ _ hx
      exact Except.ok.inj hx
    · exact Except.ok.inj hx
  have := hx _ _ h
  injection this with h1 h2
  subst h1 h2
  exact ⟨hrt, hms⟩

open SqliteDissect.Spec (CellSpec Elementwise TTree TreeLaidOut NodeReported SchemaEntry StoredSchemaRows
  schemaOrder schemaRoots snapshotIf) in
/-- **C02 + C01, schema level.**  What version `k` of an accepted history reports as its schema
(`observedSchema`: the stored schema of a schema-modifying commit record or of the database file,
the re-parse of page 1 otherwise) are the schema rows stored in SQLite's snapshot after commit `k` -/
theorem version_schema_rows (cfg : Config) (db : Database) (dbv : VersionIf) (w : Wal)
    (vs : List (Version × VersionIf)) (h : versionHistory cfg db dbv (some w) = .ok vs)
    (k : Nat) (ver : Version) (v : VersionIf) (hk : vs[k]? = some (ver, v))
    (hdb0 : k = 0 → ∃ f, dbv = dbVersionIf cfg w.hdr.pageSize db.dbSize f)
    (hdb0s : k = 0 → getBTreeRoot dbv cfg.frames 1 = .ok db.rootTree ∧
      parseMasterSchema dbv db.encoding db.rootTree = .ok db.schema)
    (hu : 512 ≤ w.hdr.pageSize) (hu2 : w.hdr.pageSize ≤ 65536)
    (henc : ver.encoding = 1 ∨ ver.encoding = 2 ∨ ver.encoding = 3)
    (Ts : TTree) (hp1 : Ts.page = 1)
    (hT : TreeLaidOut (snapshotIf cfg.strict dbv db.dbSize.floor w.fh w.hdr.pageSize
      (groupFrames w.frames [] []).1 k) true Ts)
    (hf : Ts.frames ≤ cfg.frames) (hpd : Ts.PagesDistinct)
    (hleaf : ∀ nd ∈ Ts.nodes true, nd.2.1.isInterior = false → nd.2.2 = [] → nd.1 = 1)
    (es : List SchemaEntry) (hes : StoredSchemaRows ver.encoding Ts.leafCells es) (hne : es ≠ [])
    (hwf : ∀ e ∈ es, e.WellFormed) (hsup : ∀ e ∈ es, e.Supported) :
    ∃ t ms, observedSchema ver v cfg.frames = .ok (t, ms) ∧
      Elementwise (NodeReported w.hdr.pageSize) (Ts.nodes true) t ∧
      Elementwise SchemaEntry.ReportedAs (schemaOrder es) ms.entries ∧
      ms.rootNumbers = schemaRoots es ∧ ms.pages = treePageNumbers t ∧
      (ver.schemaModified = true → t = ver.rootTree ∧ ms = ver.schema) := by
  obtain ⟨t, ms, ht, hms, hn, hent, hroots, hpages⟩ :=
    SchemaRows.schema_rows_strong _ hu hu2 ver.encoding henc Ts hp1 hT cfg.frames hf hpd hleaf es hes hne hwf hsup
  have ht' := (VersionRows.version_tree_eq_snapshot_tree cfg db dbv w vs h k ver v hk hdb0 cfg.frames 1 t).mpr ht
  cases hsm : ver.schemaModified with
  | false =>
    exact ⟨t, ms, SchemaRows.observed_schema_unmodified ver v cfg.frames t ms hsm ht' (hms v), hn, hent, hroots,
      hpages, fun h' => nomatch h'⟩
  | true =>
    obtain ⟨h1, h2, h3⟩ := observed_schema_modified cfg db dbv w vs h k ver v hk hsm hdb0s
    have e1 : t = ver.rootTree := Except.ok.inj (ht'.symm.trans h1)
    have e2 : ms = ver.schema := by
      have := hms v
      rw [e1, h2] at this
      exact (Except.ok.inj this).symm
    exact ⟨t, ms, by rw [e1, e2]; exact h3, hn, hent, hroots, hpages, fun _ => ⟨e1, e2⟩⟩

end SqliteDissect.Proofs.CommitSchema
