/-
A literal database file / write-ahead log pair whose only transaction rewrites page 1 with a
changed schema (for Properties/C02Schema.lean and Properties/C13History.lean): 3 pages of 512 bytes;
page 1 = database header (change counter 5, schema cookie 1, freelist: trunk page 2 without leaves) +
the schema leaf of
Proofs/SchemaRows.lean `Demo.L1` (table `x`, root page 3); the log holds one commit frame for page 1:
header with change counter 6 and cookie 2, schema leaf `Demo.L1C` (table `t` and a trigger).
-/
import SqliteDissect.Proofs.CommitSchema
import SqliteDissect.Proofs.Codec
import SqliteDissect.Proofs.ConfigHistory
namespace SqliteDissect.Proofs.CommitSchemaDemo
open SqliteDissect SqliteDissect.Model SqliteDissect.Spec
open SqliteDissect.Proofs.TreeDemo SqliteDissect.Proofs.SchemaRows.Demo

def hdrBytes (cc cookie : Nat) : List Nat :=
  [83, 81, 76, 105, 116, 101, 32, 102, 111, 114, 109, 97, 116, 32, 51, 0] ++ [2, 0, 1, 1, 0, 64, 32, 32] ++ be32 cc ++ be32 3 ++ be32 2 ++ be32 1 ++ be32 cookie ++
    be32 4 ++ be32 0 ++ be32 0 ++ be32 1 ++ be32 0 ++ be32 0 ++ be32 0 ++ List.replicate 20 0 ++ be32 cc ++
    be32 3040001

def page1A : List Nat := hdrBytes 5 1 ++ (packBytes 512 L1).drop 100
def page1B : List Nat := hdrBytes 6 2 ++ (packBytes 512 L1C).drop 100

def dbFile : Buf := Buf.ofList (page1A ++ List.replicate 512 0 ++ packBytes 512 L3)

def walFile : Buf :=
  Buf.ofList ([0x37, 0x7f, 0x06, 0x82, 0x00, 0x2d, 0xe2, 0x18, 0, 0, 2, 0, 0, 0, 0, 0, 0, 0, 0, 1, 0, 0, 0, 2,
      0, 0, 0, 0, 0, 0, 0, 0]
    ++ [0, 0, 0, 1, 0, 0, 0, 3, 0, 0, 0, 1, 0, 0, 0, 2, 0, 0, 0, 0, 0, 0, 0, 0] ++ page1B)

/-- the names of the schema entries of every version, with the schema-modified flags, under `cfg` -/
def observe (cfg : Config) : Py (List (Bool × List (List Nat))) :=
  (ConfigHistory.historyOfFiles cfg dbFile walFile).map fun vs =>
    vs.map fun p => (p.1.schemaModified, p.1.schema.entries.map SchemaRow.name)

def expected : Py (List (Bool × List (List Nat))) := .ok [(true, [[120]]), (true, [[116], [116]])]

/-- the pair is accepted under every combination of `strict` and `storeInMemory`, with the same
result: version 0 reports table `x`, version 1 (schema modified) table `t` and the trigger `t` -/
theorem observe_default : observe {} = expected := by decide +kernel
theorem observe_relaxed : observe { strict := false } = expected := by decide +kernel
theorem observe_in_memory : observe { storeInMemory := true } = expected := by decide +kernel
theorem observe_in_memory_relaxed : observe { storeInMemory := true, strict := false } = expected := by
  decide +kernel

/-- an accepted observation comes from an accepted history -/
theorem observe_ok (cfg : Config) (r : List (Bool × List (List Nat))) (h : observe cfg = .ok r) :
    ∃ vs, ConfigHistory.historyOfFiles cfg dbFile walFile = .ok vs ∧
      r = vs.map fun p => (p.1.schemaModified, p.1.schema.entries.map SchemaRow.name) := by
  unfold observe at h
  cases hh : ConfigHistory.historyOfFiles cfg dbFile walFile with
  | error e => rw [hh] at h; exact nomatch h
  | ok vs =>
    rw [hh] at h
    exact ⟨vs, rfl, (Except.ok.inj h).symm⟩

theorem historyOfFiles_ok (cfg : Config) (vs : List (Version × VersionIf))
    (h : ConfigHistory.historyOfFiles cfg dbFile walFile = .ok vs) :
    ∃ db dbv w, openDatabase cfg dbFile = .ok (db, dbv) ∧ openWal cfg.givenWalSize walFile = .ok w ∧
      versionHistory cfg db dbv (some w) = .ok vs := by
  unfold ConfigHistory.historyOfFiles at h
  obtain ⟨⟨db, dbv⟩, hdb, h⟩ := Config.bind_ok h
  obtain ⟨w, hw, h⟩ := Config.bind_ok h
  exact ⟨db, dbv, w, hdb, hw, h⟩

theorem two_of_map {α β : Type} (f : α → β) (l : List α) (x y : β) (h : l.map f = [x, y]) :
    ∃ a b, l = [a, b] ∧ f a = x ∧ f b = y := by
  match l, h with
  | [a, b], h =>
    simp only [List.map_cons, List.map_nil, List.cons.injEq, and_true] at h
    exact ⟨a, b, rfl, h.1, h.2⟩

/-- the accepted history of the pair under `cfg` (for the four configurations evaluated above):
two versions, the second a commit record with the schema-modified flag set and the entries `t`, `t` -/
theorem demo_history (cfg : Config) (h : observe cfg = expected) :
    ∃ db dbv w a ver v, openDatabase cfg dbFile = .ok (db, dbv) ∧ openWal cfg.givenWalSize walFile = .ok w ∧
      versionHistory cfg db dbv (some w) = .ok [a, (ver, v)] ∧ ver.schemaModified = true ∧
      ver.schema.entries.map SchemaRow.name = [[116], [116]] := by
  obtain ⟨vs, hvs, hr⟩ := observe_ok cfg [(true, [[120]]), (true, [[116], [116]])] h
  obtain ⟨db, dbv, w, h1, h2, h3⟩ := historyOfFiles_ok cfg vs hvs
  obtain ⟨a, b, rfl, -, hb⟩ := two_of_map _ vs _ _ hr.symm
  obtain ⟨ver, v⟩ := b
  simp only [Prod.mk.injEq] at hb
  exact ⟨db, dbv, w, a, ver, v, h1, h2, h3, hb.1, hb.2⟩

/-! ### the hypotheses of `CommitSchema.version_schema_rows` for the commit record of the pair -/

open SqliteDissect.Proofs.PageCheck in
theorem page1B_laid : PageLaidOut 512 page1B L1C := pageLaidOutB_sound _ _ _ (by decide +kernel)

/-- facts about an accepted pair the kernel evaluates -/
def factsOf (db : Database) (w : Wal) (ver : Version) : Bool :=
  decide (db.dbSize.floor = 3 ∧ w.hdr.pageSize = 512 ∧ ver.encoding = 1 ∧
    (1 ≤ 1 ∧ 1 ≤ snapshotSize 3 (groupFrames w.frames [] []).1 1) ∧
    Spec.latestFrame (((groupFrames w.frames [] []).1.take 1).flatten) 1 = some 1 ∧
    (w.fh.read (Spec.frameImageOffset 512 1) 512).map Buf.toList = .ok page1B)

def factsCheck : Py Bool := do
  let (db, dbv) ← openDatabase {} dbFile
  let w ← openWal none walFile
  let vs ← versionHistory {} db dbv (some w)
  match vs[1]? with
  | some (ver, _) => pure (factsOf db w ver)
  | none => pure false

theorem factsCheck_true : factsCheck = .ok true := by decide +kernel

/-- **non-vacuity of `version_schema_rows`**: for the commit record of the pair (`k = 1`, schema
modified) all hypotheses hold with the schema tree `Demo.schemaTreeC` (one leaf, page 1, the rows of
table `t` and of the trigger) laid out in the snapshot after commit 1, and the conclusion is about
the stored schema of the version -/
theorem demo_version_schema_rows :
    ∃ db dbv w vs ver v, openDatabase {} dbFile = .ok (db, dbv) ∧ openWal none walFile = .ok w ∧
      versionHistory {} db dbv (some w) = .ok vs ∧ vs[1]? = some (ver, v) ∧ ver.schemaModified = true ∧
      TreeLaidOut (snapshotIf true dbv db.dbSize.floor w.fh w.hdr.pageSize (groupFrames w.frames [] []).1 1)
        true schemaTreeC ∧
      observedSchema ver v ({} : Config).frames = .ok (ver.rootTree, ver.schema) ∧
      Elementwise SchemaEntry.ReportedAs (schemaOrder [entryT, entryTrig]) ver.schema.entries ∧
      ver.schema.rootNumbers = schemaRoots [entryT, entryTrig] := by
  obtain ⟨db, dbv, w, a, ver, v, h1, h2, h3, hm, -⟩ := demo_history {} observe_default
  have hc := factsCheck_true
  unfold factsCheck at hc
  obtain ⟨⟨db', dbv'⟩, e1, hc⟩ := Config.bind_ok hc
  obtain ⟨w', e2, hc⟩ := Config.bind_ok hc
  have e1' : (db', dbv') = (db, dbv) := Except.ok.inj (e1.symm.trans h1)
  have e2' : w' = w := Except.ok.inj (e2.symm.trans h2)
  injection e1' with e1a e1b
  subst db' dbv' w'
  obtain ⟨vs', e3, hc⟩ := Config.bind_ok hc
  have e3' : vs' = [a, (ver, v)] := Except.ok.inj (e3.symm.trans h3)
  subst vs'
  simp only [List.getElem?_cons_succ, List.getElem?_cons_zero, pure, Except.pure, Except.ok.injEq] at hc
  unfold factsOf at hc
  rw [decide_eq_true_eq] at hc
  obtain ⟨hsz, hps, henc, hr, hl, hread⟩ := hc
  have hT : TreeLaidOut (snapshotIf true dbv db.dbSize.floor w.fh w.hdr.pageSize (groupFrames w.frames [] []).1 1)
      true schemaTreeC := by
    rw [hps, hsz]
    cases hb : w.fh.read (Spec.frameImageOffset 512 1) 512 with
    | error e => rw [hb] at hread; exact nomatch hread
    | ok b =>
      rw [hb] at hread
      have hbl : b.toList = page1B := by injection hread
      refine TreeLaidOut.leaf 1 _ L1C rfl rfl ⟨page1B, ?_, page1B_laid, rfl, ?_⟩
      · exact VersionRows.snapshotIf_serves_wal true dbv 3 w.fh 512 _ 1 1 1 b _ hr (by decide) hl hb hbl
          (by decide +kernel)
      · intro c hc
        refine VersionRows.valid_of_local _ 512 rfl c ?_
        revert c
        decide +kernel
  have hst : StoredSchemaRows 1 schemaTreeC.leafCells [entryT, entryTrig] := by
    have : schemaTreeC.leafCells = [schemaRowT, schemaRowTrig] := by simp [schemaTreeC, TTree.leafCells]
    rw [this]; decide +kernel
  have hwf : ∀ e ∈ [entryT, entryTrig], e.WellFormed := by decide
  have hsup : ∀ e ∈ [entryT, entryTrig], e.Supported := by decide
  obtain ⟨t, ms, hobs, -, hent, hroots, -, heq⟩ :=
    CommitSchema.version_schema_rows {} db dbv w _ h3 1 ver v rfl (fun h => nomatch h) (fun h => nomatch h)
      (by omega) (by omega) (Or.inl henc) schemaTreeC rfl hT (by simp [schemaTreeC, TTree.frames])
      (by simp [TTree.PagesDistinct, schemaTreeC, TTree.nodes])
      (by
        intro nd hnd _ hnil
        simp only [schemaTreeC, TTree.nodes, List.mem_singleton] at hnd
        subst hnd
        rfl)
      [entryT, entryTrig] (by rw [henc]; exact hst) (by simp) hwf hsup
  obtain ⟨e1, e2⟩ := heq hm
  subst e1 e2
  exact ⟨db, dbv, w, _, ver, v, h1, h2, h3, rfl, hm, hT, hobs, hent, hroots⟩

/-! ### the converse of the `storeInMemory` theorem fails

The same pair with page 2 claimed by nothing (no freelist in either header): on demand the history
is accepted — nothing ever looks at page 2 — while the in-memory configuration runs the page census
in `Database.__init__` and refuses the file. -/

def hdrLoose (cc cookie : Nat) : List Nat :=
  [83, 81, 76, 105, 116, 101, 32, 102, 111, 114, 109, 97, 116, 32, 51, 0] ++ [2, 0, 1, 1, 0, 64, 32, 32] ++
    be32 cc ++ be32 3 ++ be32 0 ++ be32 0 ++ be32 cookie ++
    be32 4 ++ be32 0 ++ be32 0 ++ be32 1 ++ be32 0 ++ be32 0 ++ be32 0 ++ List.replicate 20 0 ++ be32 cc ++
    be32 3040001

def dbFileLoose : Buf :=
  Buf.ofList (hdrLoose 5 1 ++ (packBytes 512 L1).drop 100 ++ List.replicate 512 0 ++ packBytes 512 L3)

def walFileLoose : Buf :=
  Buf.ofList ([0x37, 0x7f, 0x06, 0x82, 0x00, 0x2d, 0xe2, 0x18, 0, 0, 2, 0, 0, 0, 0, 0, 0, 0, 0, 1, 0, 0, 0, 2,
      0, 0, 0, 0, 0, 0, 0, 0]
    ++ [0, 0, 0, 1, 0, 0, 0, 3, 0, 0, 0, 1, 0, 0, 0, 2, 0, 0, 0, 0, 0, 0, 0, 0]
    ++ hdrLoose 6 2 ++ (packBytes 512 L1C).drop 100)

def observeLoose (cfg : Config) : Py (List (Bool × List (List Nat))) :=
  (ConfigHistory.historyOfFiles cfg dbFileLoose walFileLoose).map fun vs =>
    vs.map fun p => (p.1.schemaModified, p.1.schema.entries.map SchemaRow.name)

theorem loose_on_demand : observeLoose {} = expected := by decide +kernel
theorem loose_in_memory : observeLoose { storeInMemory := true } = .error .parseError := by decide +kernel

end SqliteDissect.Proofs.CommitSchemaDemo
