/-
Helper lemmas for Properties/C07Rows.lean: the schema-row classes other than the ordinary table
(Model/SchemaRows.lean).
-/
import SqliteDissect.Model.SchemaRows
import SqliteDissect.Proofs.SchemaQuoted
import SqliteDissect.Proofs.SchemaBracket

namespace SqliteDissect.Proofs.C07Rows
open SqliteDissect SqliteDissect.Model.Schema SqliteDissect.Model.SchemaRows SqliteDissect.Spec.Ddl
open SqliteDissect.Proofs.Schema (errorOf)

/-! ### the vocabulary of the statements -/

/-- only whitespace (`str.isspace`) -/
def Ws (g : Str) : Prop := ∀ c ∈ g, isSpace c = true

/-- no two neighbouring characters of the class `[\t\r\f\v ]` (what the whitespace collapse rewrites) -/
def noBlankRun : Str → Bool
  | a :: b :: rest => !(isBlank a && isBlank b) && noBlankRun (b :: rest)
  | _ => true

/-- a character of a name written without quotes, as far as the name reader is concerned: no
whitespace, none of the characters at which the reader stops or fails, not the first character of a
quoted form -/
def plainChar (c : Char) : Bool :=
  !isSpace c && c != '(' && c != '-' && c != '/' && c != '.' && c != '[' && c != '`' && c != '\'' && c != '"'

def PlainName (n : Str) : Prop := n ≠ [] ∧ ∀ c ∈ n, plainChar c = true

/-- the spellings of the name `n` in a statement: quoted with `"`, `'` or back-ticks (the quote
character doubled inside), in brackets, or as it is -/
inductive Written (n : Str) : Str → Prop
  | quoted (q : Char) (hq : isQuote q = true) : Written n (quoteName q n)
  | bracket (h : ']' ∉ n) : Written n ('[' :: n ++ [']'])
  | plain (h : PlainName n) : Written n n

/-- none of the 19 code points whose case mapping contains an ASCII letter -/
def InModel (s : Str) : Prop := s.any caseFoldsToAscii = false

/-- a gap between two tokens: whitespace and whole comments - whitespace, then any number of block comments
(`/*` b `*/`, no `*/` inside b) and line comments (`--` b newline), each followed by a gap -/
inductive Gap : Str → Prop
  | ws (w : Str) (h : Ws w) : Gap w
  | block (w b rest : Str) (hw : Ws w) (hb : hasSub starSlash b = false) (hr : Gap rest) :
      Gap (w ++ '/' :: '*' :: (b ++ '*' :: '/' :: rest))
  | line (w b rest : Str) (hw : Ws w) (hb : '\n' ∉ b) (hr : Gap rest) :
      Gap (w ++ '-' :: '-' :: (b ++ '\n' :: rest))

/-- how the statement may go on after the indexed columns and a gap: it ends, or WHERE (any capitalisation)
and anything follows, or a comment that only the end of the statement closes (repair of C07-21) -/
inductive TailEnd : Str → Prop
  | nothing : TailEnd []
  | whereClause (t : Str) (ht : upper (t.take 5) = kWHERE) : TailEnd t
  | openLine (b : Str) (hb : '\n' ∉ b) : TailEnd ('-' :: '-' :: b)
  | openBlock (b : Str) (hb : hasSub starSlash b = false) : TailEnd ('/' :: '*' :: b)

/-- what may follow the closing parenthesis of the indexed columns -/
def IndexTailOk (t : Str) : Prop := ∃ g e, Gap g ∧ TailEnd e ∧ t = g ++ e

/-- the text from the opening parenthesis of the indexed columns on: the scanner finds a closing
parenthesis and what follows it is an `IndexTailOk` -/
def IndexColsOk (r : Str) : Prop :=
  r.head? = some '(' ∧ ∃ close, closingParen r = .ok close ∧ IndexTailOk (r.drop (close + 1))

/-- the text from the opening parenthesis of the module arguments on: the scanner finds a closing
parenthesis and only whitespace follows it -/
def ModuleArgsOk (r : Str) : Prop :=
  r.head? = some '(' ∧ ∃ close, closingParen r = .ok close ∧ lstrip (r.drop (close + 1)) = []

def indexHead (unique : Bool) : Str := (if unique then createUniqueIndex else createIndex) ++ [' ']

def virtualHead : Str := createVirtualTable ++ [' ']

/-- `CREATE [UNIQUE] INDEX ` name gap ON gap table gap rest, as one text -/
def indexSql (unique : Bool) (wi g1 : Str) (o n : Char) (g2 wt g3 r : Str) : Str :=
  indexHead unique ++ (wi ++ (g1 ++ o :: n :: (g2 ++ (wt ++ (g3 ++ r)))))

/-- `CREATE VIRTUAL TABLE ` name gap USING gap module gap rest, as one text -/
def virtualSql (wn g1 us g2 wm g3 r : Str) : Str :=
  virtualHead ++ (wn ++ (g1 ++ (us ++ (g2 ++ (wm ++ (g3 ++ r))))))

/-! ### view and trigger rows -/

theorem viewRow_ok (name tbl : Str) (root : Option Int) (sql : Option Str) (hn : name ≠ []) (ht : tbl ≠ []) :
    viewRow ⟨kView, name, tbl, root, sql⟩ =
      .ok ⟨⟨kView, name, tbl, root, normSql sql⟩, sqlHasComments (normSql sql), .view⟩ := by
  cases name with
  | nil => exact absurd rfl hn
  | cons a as =>
    cases tbl with
    | nil => exact absurd rfl ht
    | cons b bs => rfl

theorem triggerRow_ok (name tbl : Str) (root : Option Int) (sql : Option Str) (hn : name ≠ []) (ht : tbl ≠ []) :
    triggerRow ⟨kTrigger, name, tbl, root, sql⟩ =
      .ok ⟨⟨kTrigger, name, tbl, root, normSql sql⟩, sqlHasComments (normSql sql), .trigger⟩ := by
  cases name with
  | nil => exact absurd rfl hn
  | cons a as =>
    cases tbl with
    | nil => exact absurd rfl ht
    | cons b bs => rfl

theorem viewRow_empty_name (tbl : Str) (root : Option Int) (sql : Option Str) :
    viewRow ⟨kView, [], tbl, root, sql⟩ = .error .attributeError := rfl

theorem triggerRow_empty_name (tbl : Str) (root : Option Int) (sql : Option Str) :
    triggerRow ⟨kTrigger, [], tbl, root, sql⟩ = .error .attributeError := rfl

/-! ### what a constructor that succeeds reports -/

theorem rowInit_row (r : Row) (b : Base) (h : rowInit r = .ok b) :
    b.row = { r with sql := normSql r.sql } ∧ b.hasComments = sqlHasComments (normSql r.sql) := by
  unfold rowInit at h
  split at h
  · cases h
  · cases h; exact ⟨rfl, rfl⟩

theorem ok_bind {α β : Type} (x : α) (f : α → Py β) : ((Except.ok x : Py α) >>= f) = f x := rfl
theorem err_bind {α β : Type} (e : PyErr) (f : α → Py β) : ((Except.error e : Py α) >>= f) = .error e := rfl

theorem bind_ok_inv {α β : Type} {x : Py α} {f : α → Py β} {y : β} (h : (x >>= f) = .ok y) :
    ∃ a, x = .ok a ∧ f a = .ok y := by
  cases x with
  | error e => cases h
  | ok a => exact ⟨a, rfl, h⟩

def normRow (r : Row) : Row := { r with sql := normSql r.sql }

theorem viewRow_reports (r : Row) (e : Entry) (h : viewRow r = .ok e) : e.row = normRow r ∧ e.detail = .view := by
  unfold viewRow at h
  obtain ⟨b, hb, h⟩ := bind_ok_inv h
  obtain ⟨h1, _⟩ := rowInit_row r b hb
  split at h
  · cases h
  · cases h; exact ⟨h1, rfl⟩

theorem triggerRow_reports (r : Row) (e : Entry) (h : triggerRow r = .ok e) : e.row = normRow r ∧ e.detail = .trigger := by
  unfold triggerRow at h
  obtain ⟨b, hb, h⟩ := bind_ok_inv h
  obtain ⟨h1, _⟩ := rowInit_row r b hb
  split at h
  · cases h
  · cases h; exact ⟨h1, rfl⟩

theorem indexRow_reports (r : Row) (ts : Tables) (e : Entry) (h : indexRow r ts = .ok e) : e.row = normRow r := by
  unfold indexRow at h
  split at h
  · cases h
  · obtain ⟨b, hb, h⟩ := bind_ok_inv h
    obtain ⟨h1, _⟩ := rowInit_row r b hb
    split at h
    · cases h
    · simp only at h
      split at h
      · cases h
      · split at h
        · cases h
        · split at h
          · cases h
          · split at h
            · cases h
            · cases h
            · split at h
              · cases h; exact h1
              · obtain ⟨x, _, h⟩ := bind_ok_inv h
                cases h; exact h1

theorem virtualRow_reports (r : Row) (e : Entry) (h : virtualRow r = .ok e) : e.row = normRow r := by
  unfold virtualRow at h
  split at h
  · cases h
  · obtain ⟨b, hb, h⟩ := bind_ok_inv h
    unfold tableRowInit at hb
    obtain ⟨b0, hb0, hb⟩ := bind_ok_inv hb
    obtain ⟨h1, _⟩ := rowInit_row r b0 hb0
    have hbb : b = b0 := by
      split at hb
      · cases hb
      · split at hb
        · cases hb
        · cases hb; rfl
    subst hbb
    obtain ⟨x, _, h⟩ := bind_ok_inv h
    cases h; exact h1

theorem ordinaryRow_reports (r : Row) (e : Entry) (h : ordinaryRow r = .ok e) : e.row = normRow r := by
  unfold ordinaryRow at h
  obtain ⟨t, _, h⟩ := bind_ok_inv h
  cases h; rfl

theorem tableEntry_reports (r : Row) (e : Entry) (h : tableEntry r = .ok e) : e.row = normRow r := by
  unfold tableEntry at h
  split at h
  · cases h
  · split at h
    · exact ordinaryRow_reports r e h
    · split at h
      · exact virtualRow_reports r e h
      · cases h

/-! ### `MasterSchema.__init__`: the entries are the rows -/

theorem foldlM_tableStep (rows : List Row) : ∀ (acc res : List Entry × Tables),
    rows.foldlM tableStep acc = .ok res → res.1.map (·.row) = acc.1.map (·.row) ++ rows.map normRow := by
  induction rows with
  | nil => intro acc res h; cases h; simp
  | cons r rs ih =>
    intro acc res h
    rw [List.foldlM_cons] at h
    obtain ⟨acc', h1, h2⟩ := bind_ok_inv h
    have := ih acc' res h2
    unfold tableStep at h1
    obtain ⟨e, he, h1⟩ := bind_ok_inv h1
    split at h1
    · cases h1
    · cases h1
      rw [this]
      simp [tableEntry_reports r e he]

theorem foldlM_indexStep (ts : Tables) (rows : List Row) : ∀ (acc res : List Entry),
    rows.foldlM (indexStep ts) acc = .ok res → res.map (·.row) = acc.map (·.row) ++ rows.map normRow := by
  induction rows with
  | nil => intro acc res h; cases h; simp
  | cons r rs ih =>
    intro acc res h
    rw [List.foldlM_cons] at h
    obtain ⟨acc', h1, h2⟩ := bind_ok_inv h
    have := ih acc' res h2
    unfold indexStep at h1
    obtain ⟨e, he, h1⟩ := bind_ok_inv h1
    cases h1
    rw [this]
    simp [indexRow_reports r ts e he]

theorem foldlM_viewStep (ts : Tables) (rows : List Row) : ∀ (acc res : List Entry × List Str),
    rows.foldlM (viewStep ts) acc = .ok res → res.1.map (·.row) = acc.1.map (·.row) ++ rows.map normRow := by
  induction rows with
  | nil => intro acc res h; cases h; simp
  | cons r rs ih =>
    intro acc res h
    rw [List.foldlM_cons] at h
    obtain ⟨acc', h1, h2⟩ := bind_ok_inv h
    have := ih acc' res h2
    unfold viewStep at h1
    obtain ⟨e, he, h1⟩ := bind_ok_inv h1
    split at h1
    · cases h1
    · split at h1
      · cases h1
      · cases h1
        rw [this]
        simp [(viewRow_reports r e he).1]

theorem foldlM_triggerStep (rows : List Row) : ∀ (acc res : List Entry),
    rows.foldlM triggerStep acc = .ok res → res.map (·.row) = acc.map (·.row) ++ rows.map normRow := by
  induction rows with
  | nil => intro acc res h; cases h; simp
  | cons r rs ih =>
    intro acc res h
    rw [List.foldlM_cons] at h
    obtain ⟨acc', h1, h2⟩ := bind_ok_inv h
    have := ih acc' res h2
    unfold triggerStep at h1
    obtain ⟨e, he, h1⟩ := bind_ok_inv h1
    cases h1
    rw [this]
    simp [(triggerRow_reports r e he).1]

/-- whenever the schema is accepted, its entries are the rows of the four known types - tables,
then indexes, views, triggers, each group in the order of the rows - with the five columns unchanged -/
theorem buildEntries_rows (rows : List Row) (es : List Entry) (h : buildEntries rows = .ok es) :
    es.map (·.row) =
      (rowsOfType kTable rows ++ rowsOfType kIndex rows ++ rowsOfType kView rows ++ rowsOfType kTrigger rows).map normRow := by
  unfold buildEntries at h
  obtain ⟨⟨ts, tables⟩, h1, h⟩ := bind_ok_inv h
  obtain ⟨is, h2, h⟩ := bind_ok_inv h
  obtain ⟨⟨vs, vn⟩, h3, h⟩ := bind_ok_inv h
  obtain ⟨gs, h4, h⟩ := bind_ok_inv h
  cases h
  have e1 := foldlM_tableStep _ _ _ h1
  have e2 := foldlM_indexStep tables _ _ _ h2
  have e3 := foldlM_viewStep tables _ _ _ h3
  have e4 := foldlM_triggerStep _ _ _ h4
  simp only [List.map_nil, List.nil_append] at e1 e2 e3 e4
  simp only [List.map_append, e1, e2, e3, e4]

/-! ### characters -/

theorem blank_space (c : Char) (h : isBlank c = true) : isSpace c = true := by
  simp only [isBlank, Bool.or_eq_true, beq_iff_eq] at h
  rcases h with (((h | h) | h) | h) | h <;> subst h <;> decide

theorem not_space_not_blank (c : Char) (h : isSpace c = false) : isBlank c = false := by
  cases hb : isBlank c with
  | false => rfl
  | true => rw [blank_space c hb] at h; cases h

theorem plain_not_space (c : Char) (h : plainChar c = true) : isSpace c = false := by
  simp only [plainChar, Bool.and_eq_true, Bool.not_eq_true'] at h
  exact h.1.1.1.1.1.1.1.1

theorem plain_not_blank (c : Char) (h : plainChar c = true) : isBlank c = false :=
  not_space_not_blank c (plain_not_space c h)

/-- a letter: what `upperC c = X` leaves for `c` when `X` is an ASCII capital -/
def letter (c : Char) : Prop := (65 ≤ c.toNat ∧ c.toNat ≤ 90) ∨ (97 ≤ c.toNat ∧ c.toNat ≤ 122)

theorem upperC_letter (c X : Char) (hX : 65 ≤ X.toNat ∧ X.toNat ≤ 90) (h : upperC c = X) : letter c := by
  unfold upperC at h
  split at h
  · rename_i hc
    simp only [Bool.and_eq_true, decide_eq_true_eq] at hc
    exact Or.inr hc
  · subst h; exact Or.inl hX

theorem letter_not_space (c : Char) (h : letter c) : isSpace c = false := by
  unfold letter at h
  simp only [isSpace, Bool.or_eq_false_iff, Bool.and_eq_false_iff, decide_eq_false_iff_not, beq_eq_false_iff_ne, ne_eq]
  omega

theorem letter_ne (c x : Char) (h : letter c) (hx : ¬ letter x) : c ≠ x := by
  intro e; subst e; exact hx h

theorem letter_plain (c : Char) (h : letter c) : plainChar c = true := by
  have h1 := letter_not_space c h
  have : c ≠ '(' ∧ c ≠ '-' ∧ c ≠ '/' ∧ c ≠ '.' ∧ c ≠ '[' ∧ c ≠ '`' ∧ c ≠ '\'' ∧ c ≠ '"' := by
    refine ⟨?_, ?_, ?_, ?_, ?_, ?_, ?_, ?_⟩ <;> exact letter_ne c _ h (by unfold letter; decide)
  obtain ⟨a1, a2, a3, a4, a5, a6, a7, a8⟩ := this
  simp only [plainChar, h1, Bool.not_false, Bool.true_and, Bool.and_eq_true, bne_iff_ne, ne_eq]
  exact ⟨⟨⟨⟨⟨⟨⟨a1, a2⟩, a3⟩, a4⟩, a5⟩, a6⟩, a7⟩, a8⟩

/-! ### the whitespace collapse -/

theorem collapseGo_append_nonblank (p : Char → Bool) (c : Char) (b : Str) (hc : p c = false) :
    ∀ (a : Str) (st : Option (Char × Bool)),
      collapseGo p st (a ++ c :: b) = collapseGo p st a ++ c :: collapseGo p none b := by
  intro a
  induction a with
  | nil =>
    intro st
    cases st with
    | none => simp [collapseGo, hc]
    | some xm => obtain ⟨x, m⟩ := xm; simp [collapseGo, hc]
  | cons x xs ih =>
    intro st
    cases st with
    | none =>
      simp only [List.cons_append, collapseGo]
      split
      · exact ih _
      · rw [ih]; rfl
    | some xm =>
      obtain ⟨y, m⟩ := xm
      simp only [List.cons_append, collapseGo]
      split
      · exact ih _
      · rw [ih]; simp

theorem collapse_append_nonblank (p : Char → Bool) (a : Str) (c : Char) (b : Str) (hc : p c = false) :
    collapse p (a ++ c :: b) = collapse p a ++ c :: collapse p b :=
  collapseGo_append_nonblank p c b hc a none

theorem collapse_cons_nonblank (p : Char → Bool) (c : Char) (b : Str) (hc : p c = false) :
    collapse p (c :: b) = c :: collapse p b := by
  have := collapse_append_nonblank p [] c b hc
  simpa [collapse, collapseGo] using this

/-- the collapse works on the two sides of a non-blank character separately -/
theorem collapse_append_head (p : Char → Bool) (a b : Str) (hb : ∀ c tl, b = c :: tl → p c = false) (hne : b ≠ []) :
    collapse p (a ++ b) = collapse p a ++ collapse p b := by
  cases b with
  | nil => exact absurd rfl hne
  | cons c tl =>
    have hc := hb c tl rfl
    rw [collapse_append_nonblank p a c tl hc, collapse_cons_nonblank p c tl hc]

theorem collapse_prefix_nonblank (p : Char → Bool) (rest : Str) :
    ∀ w : Str, (∀ c ∈ w, p c = false) → collapse p (w ++ rest) = w ++ collapse p rest
  | [], _ => rfl
  | x :: xs, h => by
      have hx := h x (List.mem_cons_self ..)
      rw [List.cons_append, collapse_cons_nonblank p x _ hx,
        collapse_prefix_nonblank p rest xs (fun c hc => h c (List.mem_cons_of_mem _ hc))]
      rfl

/-- `noBlankRun` with the state "the previous character was blank" -/
def noBlankRunGo : Bool → Str → Bool
  | _, [] => true
  | pb, c :: cs => !(pb && isBlank c) && noBlankRunGo (isBlank c) cs

theorem noBlankRun_eq : ∀ (s : Str), noBlankRun s = noBlankRunGo false s
  | [] => rfl
  | [a] => by simp [noBlankRun, noBlankRunGo]
  | a :: b :: rest => by
      have ih := noBlankRun_eq (b :: rest)
      simp only [noBlankRun, noBlankRunGo, Bool.false_and, Bool.not_false, Bool.true_and] at ih ⊢
      rw [ih]

theorem collapseGo_noRun : ∀ (s : Str) (pb : Bool), noBlankRunGo pb s = true →
    (pb = false → collapseGo isBlank none s = s) ∧
    (∀ x, pb = true → collapseGo isBlank (some (x, false)) s = x :: s)
  | [], pb, _ => ⟨fun _ => rfl, fun x _ => by simp [collapseGo]⟩
  | c :: cs, pb, h => by
      simp only [noBlankRunGo, Bool.and_eq_true, Bool.not_eq_true', Bool.and_eq_false_iff] at h
      obtain ⟨h1, h2⟩ := h
      have ih := collapseGo_noRun cs (isBlank c) h2
      refine ⟨fun hpb => ?_, fun x hpb => ?_⟩
      · cases hc : isBlank c with
        | true => simp only [collapseGo, hc, if_true]; exact ih.2 c hc
        | false =>
          simp only [collapseGo, hc, Bool.false_eq_true, if_false]
          rw [ih.1 hc]
      · subst hpb
        have hc : isBlank c = false := by simpa using h1
        simp only [collapseGo, hc, Bool.false_eq_true, if_false]
        rw [ih.1 hc]

theorem collapse_noBlankRun (s : Str) (h : noBlankRun s = true) : collapse isBlank s = s := by
  rw [noBlankRun_eq] at h
  exact (collapseGo_noRun s false h).1 rfl

theorem noBlankRunGo_escape (q : Char) (hq : isBlank q = false) : ∀ (n : Str) (pb : Bool),
    noBlankRunGo pb n = true → noBlankRunGo pb (escapeQuote q n) = true
  | [], _, _ => rfl
  | c :: cs, pb, h => by
      simp only [noBlankRunGo, Bool.and_eq_true] at h
      obtain ⟨h1, h2⟩ := h
      unfold escapeQuote
      split
      · rename_i hcq
        have e : c = q := by simpa using hcq
        have hcb : isBlank c = false := e ▸ hq
        rw [hcb] at h2
        simp only [noBlankRunGo, hq, Bool.and_false, Bool.not_false, Bool.true_and]
        exact noBlankRunGo_escape q hq cs false h2
      · simp only [noBlankRunGo, Bool.and_eq_true]
        exact ⟨h1, noBlankRunGo_escape q hq cs _ h2⟩

theorem collapseGo_nonempty (p : Char → Bool) : ∀ (s : Str) (st : Option (Char × Bool)),
    collapseGo p st s = [] → s = [] ∧ st = none
  | [], none, _ => ⟨rfl, rfl⟩
  | [], some (x, m), h => by simp [collapseGo] at h
  | x :: xs, none, h => by
      simp only [collapseGo] at h
      split at h
      · have := (collapseGo_nonempty p xs _ h).2; cases this
      · cases h
  | x :: xs, some (y, m), h => by
      simp only [collapseGo] at h
      split at h
      · have := (collapseGo_nonempty p xs _ h).2; cases this
      · cases h

theorem collapseGo_mem (p : Char → Bool) : ∀ (s : Str) (st : Option (Char × Bool)) (c : Char),
    c ∈ collapseGo p st s → c ∈ s ∨ c = ' ' ∨ ∃ x m, st = some (x, m) ∧ c = x
  | [], none, c, h => by simp [collapseGo] at h
  | [], some (x, m), c, h => by
      simp only [collapseGo, List.mem_singleton] at h
      cases m <;> simp_all
  | y :: ys, none, c, h => by
      simp only [collapseGo] at h
      split at h
      · rcases collapseGo_mem p ys _ c h with h | h | ⟨x, m, h1, h2⟩
        · exact Or.inl (List.mem_cons_of_mem _ h)
        · exact Or.inr (Or.inl h)
        · cases h1; exact Or.inl (h2 ▸ List.mem_cons_self ..)
      · rcases List.mem_cons.mp h with h | h
        · exact Or.inl (h ▸ List.mem_cons_self ..)
        · rcases collapseGo_mem p ys _ c h with h | h | ⟨x, m, h1, _⟩
          · exact Or.inl (List.mem_cons_of_mem _ h)
          · exact Or.inr (Or.inl h)
          · cases h1
  | y :: ys, some (z, m), c, h => by
      simp only [collapseGo] at h
      split at h
      · rcases collapseGo_mem p ys _ c h with h | h | ⟨x, m', h1, h2⟩
        · exact Or.inl (List.mem_cons_of_mem _ h)
        · exact Or.inr (Or.inl h)
        · cases h1; exact Or.inr (Or.inr ⟨z, m, rfl, h2⟩)
      · rcases List.mem_cons.mp h with h | h
        · cases m
          · exact Or.inr (Or.inr ⟨z, false, rfl, by simpa using h⟩)
          · exact Or.inr (Or.inl (by simpa using h))
        · rcases List.mem_cons.mp h with h | h
          · exact Or.inl (h ▸ List.mem_cons_self ..)
          · rcases collapseGo_mem p ys _ c h with h | h | ⟨x, m, h1, _⟩
            · exact Or.inl (List.mem_cons_of_mem _ h)
            · exact Or.inr (Or.inl h)
            · cases h1

/-- the collapse of a gap is a gap, empty only if the gap is -/
theorem collapse_ws (g : Str) (h : Ws g) : Ws (collapse isBlank g) ∧ (g ≠ [] → collapse isBlank g ≠ []) := by
  refine ⟨fun c hc => ?_, fun hne e => hne (collapseGo_nonempty isBlank g none e).1⟩
  rcases collapseGo_mem isBlank g none c hc with h1 | h1 | ⟨x, m, h1, _⟩
  · exact h c h1
  · subst h1; decide
  · cases h1


/-! ### the fuel of the comment loop -/

theorem parseComment_shorter (s c r : Str) (h : parseComment s = .ok (c, r)) : r.length < s.length := by
  have hne : s ≠ [] := by
    intro e; subst e; simp [parseComment, dashDash, slashStar] at h
  have hpos : 0 < s.length := List.length_pos_iff.mpr hne
  unfold parseComment at h
  split at h
  · split at h
    · cases h; exact hpos
    · cases h; rw [List.length_drop]; omega
  · split at h
    · split at h
      · cases h; exact hpos
      · cases h; rw [List.length_drop]; omega
    · cases h

theorem dropWhile_length_le (p : Char → Bool) : ∀ s : Str, (s.dropWhile p).length ≤ s.length
  | [] => Nat.le_refl _
  | c :: cs => by
      rw [List.dropWhile_cons]
      split
      · exact Nat.le_succ_of_le (dropWhile_length_le p cs)
      · exact Nat.le_refl _

theorem lstrip_length_le (s : Str) : (lstrip s).length ≤ s.length := dropWhile_length_le _ s

/-- any fuel above the length of the text gives the same answer: the fuel of `takeComments` (the length
plus one, in every use) is never what ends the loop -/
theorem takeComments_fuel : ∀ (f1 f2 : Nat) (s : Str) (acc : List Str), s.length < f1 → s.length < f2 →
    takeComments f1 s acc = takeComments f2 s acc
  | 0, _, _, _, h, _ => absurd h (Nat.not_lt_zero _)
  | _ + 1, 0, _, _, _, h => absurd h (Nat.not_lt_zero _)
  | f1 + 1, f2 + 1, s, acc, h1, h2 => by
      unfold takeComments
      split
      · cases hp : parseComment s with
        | error e => rfl
        | ok cr =>
          obtain ⟨c, r⟩ := cr
          have := parseComment_shorter s c r hp
          have hl := lstrip_length_le r
          simp only [ok_bind]
          exact takeComments_fuel f1 f2 (lstrip r) _ (by omega) (by omega)
      · rfl

/-! ### comments -/

theorem findSub_char (x : Char) (r : Str) : ∀ a : Str, x ∉ a → findSub [x] (a ++ x :: r) = some a.length
  | [], _ => by simp [findSub, List.isPrefixOf]
  | c :: cs, h => by
      have hc : c ≠ x := fun e => h (e ▸ List.mem_cons_self ..)
      have hx : (x == c) = false := by simpa using fun e => hc e.symm
      have ih := findSub_char x r cs (fun hm => h (List.mem_cons_of_mem _ hm))
      simp only [List.cons_append, findSub, List.isPrefixOf, hx, Bool.false_and, Bool.false_eq_true, if_false, ih,
        Option.map_some, List.length_cons]

theorem findSub_char_none (x : Char) : ∀ a : Str, x ∉ a → findSub [x] a = none
  | [], _ => by simp [findSub]
  | c :: cs, h => by
      have hc : c ≠ x := fun e => h (e ▸ List.mem_cons_self ..)
      have hx : (x == c) = false := by simpa using fun e => hc e.symm
      have ih := findSub_char_none x cs (fun hm => h (List.mem_cons_of_mem _ hm))
      simp only [findSub, List.isPrefixOf, hx, Bool.false_and, Bool.false_eq_true, if_false, ih, Option.map_none]

theorem findSub_none_of_hasSub (k : Str) (hk : k ≠ []) : ∀ s : Str, hasSub k s = false → findSub k s = none
  | [], _ => by
      cases k with
      | nil => exact absurd rfl hk
      | cons a as => simp [findSub]
  | c :: cs, h => by
      rw [hasSub] at h
      simp only [Bool.or_eq_false_iff] at h
      rw [findSub]
      simp only [h.1, Bool.false_eq_true, if_false, findSub_none_of_hasSub k hk cs h.2, Option.map_none]

/-- `parse_comment_from_sql_segment` on `--` b newline rest (b without a newline) -/
theorem parseComment_line (b rest : Str) (hb : '\n' ∉ b) :
    parseComment ('-' :: '-' :: (b ++ '\n' :: rest)) = .ok ('-' :: '-' :: (b ++ ['\n']), rest) := by
  have hf : findSub newline ('-' :: '-' :: (b ++ '\n' :: rest)) = some (b.length + 2) := by
    have := findSub_char '\n' rest ('-' :: '-' :: b) (by
      intro h
      simp only [List.mem_cons] at h
      rcases h with h | h | h
      · cases h
      · cases h
      · exact hb h)
    simpa [newline] using this
  have e1 : dashDash.isPrefixOf ('-' :: '-' :: (b ++ '\n' :: rest)) = true := by simp [dashDash, List.isPrefixOf]
  have e4 : ('-' :: '-' :: (b ++ '\n' :: rest)) = ('-' :: '-' :: (b ++ ['\n'])) ++ rest := by simp
  have e5 : ('-' :: '-' :: (b ++ ['\n'])).length = b.length + 2 + 1 := by simp
  rw [parseComment]
  simp only [e1, if_true, hf]
  rw [e4, ← e5, List.take_left', List.drop_left']
  · rfl
  · rfl

/-- a `--` comment that only the end of the text ends (repair of C07-21) -/
theorem parseComment_openLine (b : Str) (hb : '\n' ∉ b) :
    parseComment ('-' :: '-' :: b) = .ok ('-' :: '-' :: b, []) := by
  have hf : findSub newline ('-' :: '-' :: b) = none :=
    findSub_char_none '\n' _ (by
      intro h
      simp only [List.mem_cons] at h
      rcases h with h | h | h
      · cases h
      · cases h
      · exact hb h)
  have e1 : dashDash.isPrefixOf ('-' :: '-' :: b) = true := by simp [dashDash, List.isPrefixOf]
  rw [parseComment]
  simp only [e1, if_true, hf]

/-- a `/*` comment that is never closed (repair of C07-21) -/
theorem parseComment_openBlock (b : Str) (hb : hasSub starSlash b = false) :
    parseComment ('/' :: '*' :: b) = .ok ('/' :: '*' :: b, []) := by
  have hf : findSub starSlash (('/' :: '*' :: b).drop 2) = none :=
    findSub_none_of_hasSub starSlash (by decide) b hb
  have e1 : dashDash.isPrefixOf ('/' :: '*' :: b) = false := by simp [dashDash, List.isPrefixOf]
  have e2 : slashStar.isPrefixOf ('/' :: '*' :: b) = true := by simp [slashStar, List.isPrefixOf]
  rw [parseComment]
  simp only [e1, Bool.false_eq_true, if_false, e2, if_true, hf]

theorem startsWithComment_head (c : Char) (tl : Str) (h1 : c ≠ '-') (h2 : c ≠ '/') :
    startsWithComment (c :: tl) = false := by
  have e1 : ('-' == c) = false := by simpa using fun e => h1 e.symm
  have e2 : ('/' == c) = false := by simpa using fun e => h2 e.symm
  simp [startsWithComment, dashDash, slashStar, List.isPrefixOf, e1, e2]

theorem takeComments_none (fuel : Nat) (s : Str) (acc : List Str) (h : startsWithComment s = false) :
    takeComments (fuel + 1) s acc = .ok (s, acc) := by
  simp [takeComments, h]

theorem lstrip_ws (t : Str) (ht : ∀ c tl, t = c :: tl → isSpace c = false) :
    ∀ g : Str, Ws g → lstrip (g ++ t) = t
  | [], _ => by
      cases t with
      | nil => rfl
      | cons c tl => exact Proofs.Schema.lstrip_of_head c tl (ht c tl rfl)
  | x :: xs, hg => by
      rw [List.cons_append, Proofs.Schema.lstrip_cons_space x _ (hg x (List.mem_cons_self ..))]
      exact lstrip_ws t ht xs (fun c hc => hg c (List.mem_cons_of_mem _ hc))

/-- skipping a gap: `lstrip` and the comment loop on a gap followed by `t` (which does not begin with
whitespace) arrive at `t` with the gap's comments collected -/
theorem takeComments_gap (g : Str) (hg : Gap g) : ∀ (t : Str) (acc : List Str), (∀ c tl, t = c :: tl → isSpace c = false) →
    ∃ cs, takeComments ((lstrip (g ++ t)).length + 1) (lstrip (g ++ t)) acc = takeComments (t.length + 1) t (acc ++ cs) := by
  induction hg with
  | ws w h =>
      intro t acc ht
      refine ⟨[], ?_⟩
      rw [lstrip_ws t ht w h, List.append_nil]
  | block w b rest hw hb _ ih =>
      intro t acc ht
      obtain ⟨cs, hcs⟩ := ih t (acc ++ [rstrip ('/' :: '*' :: b ++ ['*', '/'])]) ht
      refine ⟨rstrip ('/' :: '*' :: b ++ ['*', '/']) :: cs, ?_⟩
      have e : (w ++ '/' :: '*' :: (b ++ '*' :: '/' :: rest)) ++ t = w ++ ('/' :: '*' :: b ++ '*' :: '/' :: (rest ++ t)) := by simp
      have hl : lstrip (w ++ ('/' :: '*' :: b ++ '*' :: '/' :: (rest ++ t))) = '/' :: '*' :: b ++ '*' :: '/' :: (rest ++ t) :=
        lstrip_ws _ (fun c tl e => by simp only [List.cons_append, List.cons.injEq] at e; rw [← e.1]; decide) w hw
      have hp := Proofs.Schema.parseComment_block b (rest ++ t) hb
      have hs : startsWithComment ('/' :: '*' :: b ++ '*' :: '/' :: (rest ++ t)) = true := by
        simp [startsWithComment, slashStar, List.isPrefixOf]
      rw [e, hl, takeComments]
      simp only [hs, if_true, hp, ok_bind]
      rw [takeComments_fuel _ ((lstrip (rest ++ t)).length + 1) (lstrip (rest ++ t)) _
        (by have := lstrip_length_le (rest ++ t); simp only [List.length_append, List.length_cons] at this ⊢; omega)
        (Nat.lt_succ_self _), hcs]
      simp
  | line w b rest hw hb _ ih =>
      intro t acc ht
      obtain ⟨cs, hcs⟩ := ih t (acc ++ [rstrip ('-' :: '-' :: (b ++ ['\n']))]) ht
      refine ⟨rstrip ('-' :: '-' :: (b ++ ['\n'])) :: cs, ?_⟩
      have e : (w ++ '-' :: '-' :: (b ++ '\n' :: rest)) ++ t = w ++ ('-' :: '-' :: (b ++ '\n' :: (rest ++ t))) := by simp
      have hl : lstrip (w ++ ('-' :: '-' :: (b ++ '\n' :: (rest ++ t)))) = '-' :: '-' :: (b ++ '\n' :: (rest ++ t)) :=
        lstrip_ws _ (fun c tl e => by simp only [List.cons.injEq] at e; rw [← e.1]; decide) w hw
      have hp := parseComment_line b (rest ++ t) hb
      have hs : startsWithComment ('-' :: '-' :: (b ++ '\n' :: (rest ++ t))) = true := by
        simp [startsWithComment, dashDash, List.isPrefixOf]
      rw [e, hl, takeComments]
      simp only [hs, if_true, hp, ok_bind]
      rw [takeComments_fuel _ ((lstrip (rest ++ t)).length + 1) (lstrip (rest ++ t)) _
        (by have := lstrip_length_le (rest ++ t); simp only [List.length_append, List.length_cons] at this ⊢; omega)
        (Nat.lt_succ_self _), hcs]
      simp

/-! ### reading a name -/

theorem plain_facts (x : Char) (h : plainChar x = true) :
    isSpace x = false ∧ x ≠ '(' ∧ x ≠ '-' ∧ x ≠ '/' ∧ x ≠ '.' ∧ x ≠ '[' ∧ x ≠ '`' ∧ x ≠ '\'' ∧ x ≠ '"' := by
  simp only [plainChar, Bool.and_eq_true, Bool.not_eq_true', bne_iff_ne, ne_eq] at h
  obtain ⟨⟨⟨⟨⟨⟨⟨⟨a0, a1⟩, a2⟩, a3⟩, a4⟩, a5⟩, a6⟩, a7⟩, a8⟩ := h
  exact ⟨a0, a1, a2, a3, a4, a5, a6, a7, a8⟩

/-- where a name written without quotes may stop: at whitespace, at "(", or at the beginning of a comment -/
def Stop (c : Char) (tl : Str) : Prop :=
  isSpace c = true ∨ c = '(' ∨ (c = '-' ∧ tl.head? = some '-') ∨ (c = '/' ∧ tl.head? = some '*')

/-- the text after a name written without quotes begins with a `Stop` -/
def Term (rest : Str) : Prop := ∃ c tl, rest = c :: tl ∧ Stop c tl

theorem unquotedName_plain (e : Bool) (c : Char) (tl : Str) (hc : Stop c tl) :
    ∀ (n acc : Str), (∀ x ∈ n, plainChar x = true) → unquotedName e acc (n ++ c :: tl) = .ok (acc.reverse ++ n, c :: tl)
  | [], acc, _ => by
      rcases hc with h | h | ⟨h, hd⟩ | ⟨h, hd⟩
      · have := Proofs.Schema.space_not_comment c h
        simp [unquotedName, h, this.1, this.2]
      · subst h; simp [unquotedName]
      · subst h
        cases tl with
        | nil => cases hd
        | cons d ds =>
          have : d = '-' := by simpa using hd
          subst this; simp [unquotedName]
      · subst h
        cases tl with
        | nil => cases hd
        | cons d ds =>
          have : d = '*' := by simpa using hd
          subst this; simp [unquotedName]
  | x :: xs, acc, h => by
      obtain ⟨a0, a1, a2, a3, a4, _⟩ := plain_facts x (h x (List.mem_cons_self ..))
      have h1 : (isSpace x || x == '(' || x == '-' || x == '/') = false := by simp [a0, a1, a2, a3]
      have h2 : (x == '.') = false := by simp [a4]
      simp only [List.cons_append, unquotedName, h1, h2, Bool.false_eq_true, if_false]
      rw [unquotedName_plain e c tl hc xs (x :: acc) (fun y hy => h y (List.mem_cons_of_mem _ hy))]
      simp

/-- with `name_may_end_statement` a name written without quotes may also be the last thing in the text -/
theorem unquotedName_plain_end : ∀ (n acc : Str), (∀ x ∈ n, plainChar x = true) →
    unquotedName true acc n = .ok (acc.reverse ++ n, [])
  | [], acc, _ => by simp [unquotedName]
  | x :: xs, acc, h => by
      obtain ⟨a0, a1, a2, a3, a4, _⟩ := plain_facts x (h x (List.mem_cons_self ..))
      have h1 : (isSpace x || x == '(' || x == '-' || x == '/') = false := by simp [a0, a1, a2, a3]
      have h2 : (x == '.') = false := by simp [a4]
      simp only [unquotedName, h1, h2, Bool.false_eq_true, if_false]
      rw [unquotedName_plain_end xs (x :: acc) (fun y hy => h y (List.mem_cons_of_mem _ hy))]
      simp

theorem quotedName_plain (a : Char) (tl : Str) (h : plainChar a = true) : quotedName (a :: tl) = none := by
  obtain ⟨_, _, _, _, _, a5, a6, a7, a8⟩ := plain_facts a h
  simp [quotedName, isQuoteChar, a5, a6, a7, a8]

theorem quote_facts (q : Char) (hq : isQuote q = true) : isSpace q = false ∧ isBlank q = false := by
  simp only [isQuote, Bool.or_eq_true, beq_iff_eq] at hq
  rcases hq with (h | h) | h <;> subst h <;> decide

theorem rowName_quoted (e : Bool) (q : Char) (hq : isQuote q = true) (name r : Str) (hr : r.head? ≠ some q) :
    rowNameAndRest (quoteName q name ++ r) e = .ok (name, r) := by
  have h := Proofs.Schema.quotedName_quoteName q hq name r hr
  have ht : quoteName q name ++ r = q :: (escapeQuote q name ++ q :: r) := by simp [quoteName]
  have hd : (quoteName q name ++ r).drop (quoteName q name).length = r := List.drop_left' rfl
  rw [ht] at h hd
  rw [ht, rowNameAndRest]
  simp only [h, hd]

theorem rowName_bracket (e : Bool) (n r : Str) (hn : ']' ∉ n) :
    rowNameAndRest ('[' :: n ++ ']' :: r) e = .ok (n, r) := by
  have h := Proofs.Schema.quotedName_bracket n r hn
  have hd := Proofs.Schema.drop_bracket n r
  simp only [List.cons_append] at h hd ⊢
  rw [rowNameAndRest]
  simp only [h, hd]

/-- the name reader on any spelling of `n`, followed by a `Term` when written plainly (or, with
`name_may_end_statement`, by nothing) and not by its own quote character when quoted -/
theorem rowName_written (e : Bool) (n w rest : Str) (hw : Written n w)
    (hplain : w = n → Term rest ∨ (rest = [] ∧ e = true))
    (hq : ∀ q, isQuote q = true → rest.head? ≠ some q) :
    rowNameAndRest (w ++ rest) e = .ok (n, rest) := by
  cases hw with
  | quoted q hq' => exact rowName_quoted e q hq' n rest (hq q hq')
  | bracket h =>
      have := rowName_bracket e n rest h
      simpa using this
  | plain h =>
      obtain ⟨hne, hall⟩ := h
      cases n with
      | nil => exact absurd rfl hne
      | cons a as =>
        have hqn : ∀ tl, quotedName (a :: tl) = none := fun tl => quotedName_plain a tl (hall a (List.mem_cons_self ..))
        rcases hplain rfl with ⟨c, tl, hr, hc⟩ | ⟨hr, he⟩
        · subst hr
          have hu := unquotedName_plain e c tl hc (a :: as) [] hall
          simp only [List.cons_append] at hu ⊢
          rw [rowNameAndRest]
          simp only [hqn]
          simpa using hu
        · subst hr; subst he
          have hu := unquotedName_plain_end (a :: as) [] hall
          simp only [List.append_nil]
          rw [rowNameAndRest]
          simp only [hqn]
          simpa using hu

theorem written_head (n w : Str) (hw : Written n w) :
    ∃ c tl, w = c :: tl ∧ isSpace c = false ∧ isBlank c = false ∧ c ≠ '-' ∧ c ≠ '/' := by
  cases hw with
  | quoted q hq =>
      refine ⟨q, _, rfl, (quote_facts q hq).1, (quote_facts q hq).2, ?_, ?_⟩ <;> (intro e; subst e; cases hq)
  | bracket h => exact ⟨'[', _, rfl, by decide, by decide, by decide, by decide⟩
  | plain h =>
      obtain ⟨hne, hall⟩ := h
      cases n with
      | nil => exact absurd rfl hne
      | cons a as =>
        obtain ⟨a0, _, a2, a3, _⟩ := plain_facts a (hall a (List.mem_cons_self ..))
        exact ⟨a, as, rfl, a0, not_space_not_blank a a0, a2, a3⟩

theorem lowerNe_self (a : Str) : lowerNe a a = .ok false := by simp [lowerNe]

/-- how a non-empty gap begins -/
theorem gap_head (g : Str) (hg : Gap g) (hne : g ≠ []) : ∃ c tl, g = c :: tl ∧ Stop c tl := by
  induction hg with
  | ws w h =>
      cases w with
      | nil => exact absurd rfl hne
      | cons x xs => exact ⟨x, xs, rfl, Or.inl (h x (List.mem_cons_self ..))⟩
  | block w b rest hw hb hr _ =>
      cases w with
      | nil => exact ⟨'/', _, rfl, Or.inr (Or.inr (Or.inr ⟨rfl, rfl⟩))⟩
      | cons x xs => exact ⟨x, _, rfl, Or.inl (hw x (List.mem_cons_self ..))⟩
  | line w b rest hw hb hr _ =>
      cases w with
      | nil => exact ⟨'-', _, rfl, Or.inr (Or.inr (Or.inl ⟨rfl, rfl⟩))⟩
      | cons x xs => exact ⟨x, _, rfl, Or.inl (hw x (List.mem_cons_self ..))⟩

theorem stop_append (c : Char) (tl t : Str) (h : Stop c tl) : Stop c (tl ++ t) := by
  rcases h with h | h | ⟨h, hd⟩ | ⟨h, hd⟩
  · exact Or.inl h
  · exact Or.inr (Or.inl h)
  · cases tl with
    | nil => cases hd
    | cons d ds => exact Or.inr (Or.inr (Or.inl ⟨h, hd⟩))
  · cases tl with
    | nil => cases hd
    | cons d ds => exact Or.inr (Or.inr (Or.inr ⟨h, hd⟩))

/-- a gap followed by a text that begins with the character `c0`: its first character is a `Stop` or `c0` -/
theorem gap_then (g : Str) (hg : Gap g) (c0 : Char) (t' : Str) :
    ∃ c tl, g ++ c0 :: t' = c :: tl ∧ (Stop c tl ∨ (g = [] ∧ c = c0)) := by
  cases g with
  | nil => exact ⟨c0, t', rfl, Or.inr ⟨rfl, rfl⟩⟩
  | cons x xs =>
      obtain ⟨c, tl, e, hs⟩ := gap_head (x :: xs) hg (by simp)
      exact ⟨c, tl ++ c0 :: t', by rw [e]; rfl, Or.inl (stop_append c tl _ hs)⟩

theorem quote_not_letter (q : Char) (hq : isQuote q = true) : ¬ letter q := by
  simp only [isQuote, Bool.or_eq_true, beq_iff_eq] at hq
  rcases hq with (h | h) | h <;> subst h <;> (unfold letter; decide)

theorem stop_not_quote (q c : Char) (tl : Str) (hq : isQuote q = true) (hc : Stop c tl) : c ≠ q := by
  intro e; subst e
  rcases hc with h | h | ⟨h, _⟩ | ⟨h, _⟩
  · rw [(quote_facts c hq).1] at h; cases h
  · subst h; cases hq
  · subst h; cases hq
  · subst h; cases hq

/-- after a name and a gap comes `c0` (a letter or "("): the hypotheses of `rowName_written` -/
theorem after_name (g : Str) (hg : Gap g) (c0 : Char) (t' : Str) (hc0 : letter c0 ∨ c0 = '(') :
    (g ≠ [] ∨ c0 = '(' → Term (g ++ c0 :: t')) ∧ ∀ q, isQuote q = true → (g ++ c0 :: t').head? ≠ some q := by
  obtain ⟨c, tl, e, hs⟩ := gap_then g hg c0 t'
  refine ⟨fun h => ?_, fun q hq => ?_⟩
  · rcases hs with hs | ⟨hg0, hcc⟩
    · exact ⟨c, tl, e, hs⟩
    · rcases h with h | h
      · exact absurd hg0 h
      · exact ⟨c, tl, e, Or.inr (Or.inl (hcc.trans h))⟩
  · rw [e]
    simp only [List.head?_cons, ne_eq, Option.some.injEq]
    rcases hs with hs | ⟨_, hcc⟩
    · exact stop_not_quote q c tl hq hs
    · subst hcc
      rcases hc0 with h | h
      · intro e2; subst e2; exact quote_not_letter c hq h
      · subst h; intro e2; subst e2; cases hq

theorem parenthesised_of_close (r : Str) (close : Nat) (hh : r.head? = some '(') (hc : closingParen r = .ok close) :
    parenthesised (r.take (close + 1)) = true := by
  have hp := Proofs.Schema.closing_paren_points r close hc
  have hlt : close < r.length := by
    rcases Nat.lt_or_ge close r.length with h | h
    · exact h
    · rw [List.getElem?_eq_none h] at hp; cases hp
  have hlen : (r.take (close + 1)).length = close + 1 := by rw [List.length_take]; omega
  have hl : (r.take (close + 1)).getLast? = some ')' := by
    rw [List.getLast?_eq_getElem?, hlen, Nat.add_sub_cancel, List.getElem?_take]
    simp [hp]
  have hd : (r.take (close + 1)).head? = some '(' := by
    rw [List.head?_take]; simp [hh]
  simp [parenthesised, hl, hd]

/-! ### the whitespace collapse and comments -/

theorem single_prefix (y : Char) (o : Str) : [y].isPrefixOf o = (o.head? == some y) := by
  cases o with
  | nil => rfl
  | cons b bs =>
      simp only [List.isPrefixOf, Bool.and_true, List.head?_cons]
      by_cases h : y = b
      · subst h; simp
      · have h1 : (y == b) = false := by simpa using h
        have h2 : (b == y) = false := by simpa using fun e : b = y => h e.symm
        simp [h1, h2]

theorem pair_hasSub (x y a : Char) (o : Str) :
    hasSub [x, y] (a :: o) = ((x == a && (o.head? == some y)) || hasSub [x, y] o) := by
  rw [hasSub, List.isPrefixOf, single_prefix]

/-- the collapse neither makes nor breaks a pair of neighbouring non-blank characters (`*/`, for one) -/
theorem collapse_pair (x y : Char) (hx : isBlank x = false) (hy : isBlank y = false) : ∀ s : Str,
    (hasSub [x, y] (collapseGo isBlank none s) = hasSub [x, y] s ∧
      ((collapseGo isBlank none s).head? == some y) = (s.head? == some y)) ∧
    (∀ c m, isBlank c = true → hasSub [x, y] (collapseGo isBlank (some (c, m)) s) = hasSub [x, y] s ∧
      ∃ d o, collapseGo isBlank (some (c, m)) s = d :: o ∧ isBlank d = true)
  | [] => by
      refine ⟨⟨rfl, rfl⟩, fun c m hc => ?_⟩
      have hd : isBlank (if m then ' ' else c) = true := by cases m <;> simp [hc] <;> decide
      refine ⟨?_, _, [], rfl, hd⟩
      simp only [collapseGo, pair_hasSub, List.head?_nil]
      simp [hasSub]
  | a :: as => by
      obtain ⟨⟨ih1, ih2⟩, ih3⟩ := collapse_pair x y hx hy as
      have ne_of_blank : ∀ d : Char, isBlank d = true → (x == d) = false ∧ ((some d == some y) = false) := by
        intro d hd
        constructor
        · simp only [beq_eq_false_iff_ne, ne_eq]; intro e; subst e; rw [hx] at hd; cases hd
        · simp only [beq_eq_false_iff_ne, ne_eq, Option.some.injEq]; intro e; subst e; rw [hy] at hd; cases hd
      cases ha : isBlank a with
      | true =>
          refine ⟨⟨?_, ?_⟩, fun c m hc => ?_⟩
          · simp only [collapseGo, ha, if_true]
            rw [(ih3 a false ha).1, pair_hasSub, (ne_of_blank a ha).1]; simp
          · simp only [collapseGo, ha, if_true]
            obtain ⟨d, o, e, hd⟩ := (ih3 a false ha).2
            rw [e]
            simp only [List.head?_cons, (ne_of_blank d hd).2, (ne_of_blank a ha).2]
          · simp only [collapseGo, ha, if_true]
            refine ⟨?_, (ih3 c true hc).2⟩
            rw [(ih3 c true hc).1, pair_hasSub, (ne_of_blank a ha).1]; simp
      | false =>
          have key : hasSub [x, y] (a :: collapseGo isBlank none as) = hasSub [x, y] (a :: as) := by
            rw [pair_hasSub, pair_hasSub, ih1, ih2]
          refine ⟨⟨?_, ?_⟩, fun c m hc => ?_⟩
          · simp only [collapseGo, ha, Bool.false_eq_true, if_false]; exact key
          · simp only [collapseGo, ha, Bool.false_eq_true, if_false, List.head?_cons]
          · have hd : isBlank (if m then ' ' else c) = true := by cases m <;> simp [hc] <;> decide
            simp only [collapseGo, ha, Bool.false_eq_true, if_false]
            refine ⟨?_, _, _, rfl, hd⟩
            rw [pair_hasSub, (ne_of_blank _ hd).1, key]; simp

theorem collapse_starSlash (b : Str) (h : hasSub starSlash b = false) : hasSub starSlash (collapse isBlank b) = false := by
  have := (collapse_pair '*' '/' (by decide) (by decide) b).1.1
  unfold collapse starSlash at *
  rw [this]; exact h

theorem collapse_no_newline (b : Str) (h : '\n' ∉ b) : '\n' ∉ collapse isBlank b := by
  intro hm
  rcases collapseGo_mem isBlank b none '\n' hm with h1 | h1 | ⟨x, m, h1, _⟩
  · exact h h1
  · cases h1
  · cases h1

/-- the collapse of a gap is a gap (with the comments collapsed inside), empty only if the gap is -/
theorem collapse_gap (g : Str) (hg : Gap g) : Gap (collapse isBlank g) := by
  induction hg with
  | ws w h => exact .ws _ (collapse_ws w h).1
  | block w b rest hw hb _ ih =>
      have e : collapse isBlank (w ++ '/' :: '*' :: (b ++ '*' :: '/' :: rest)) =
          collapse isBlank w ++ '/' :: '*' :: (collapse isBlank b ++ '*' :: '/' :: collapse isBlank rest) := by
        rw [collapse_append_nonblank isBlank w '/' _ (by decide), collapse_cons_nonblank isBlank '*' _ (by decide),
          collapse_append_nonblank isBlank b '*' _ (by decide), collapse_cons_nonblank isBlank '/' _ (by decide)]
      rw [e]
      exact .block _ _ _ (collapse_ws w hw).1 (collapse_starSlash b hb) ih
  | line w b rest hw hb _ ih =>
      have e : collapse isBlank (w ++ '-' :: '-' :: (b ++ '\n' :: rest)) =
          collapse isBlank w ++ '-' :: '-' :: (collapse isBlank b ++ '\n' :: collapse isBlank rest) := by
        rw [collapse_append_nonblank isBlank w '-' _ (by decide), collapse_cons_nonblank isBlank '-' _ (by decide),
          collapse_append_nonblank isBlank b '\n' _ (by decide)]
      rw [e]
      exact .line _ _ _ (collapse_ws w hw).1 (collapse_no_newline b hb) ih

theorem collapse_ne (g : Str) (h : g ≠ []) : collapse isBlank g ≠ [] :=
  fun e => h (collapseGo_nonempty isBlank g none e).1

/-! ### index rows -/

theorem paren_solid (R : Str) (hR : R.head? = some '(') :
    (∀ c tl, R = c :: tl → isSpace c = false) ∧ startsWithComment R = false ∧ ∃ R', R = '(' :: R' := by
  cases R with
  | nil => cases hR
  | cons a as =>
      have : a = '(' := by simpa using hR
      subst this
      exact ⟨(fun c tl e => by cases e; decide), startsWithComment_head _ as (by decide) (by decide), as, rfl⟩

/-- the end of an index statement after the gap that follows the indexed columns -/
theorem tailEnd_ok (e : Str) (he : TailEnd e) (acc : List Str) :
    (∀ c tl, e = c :: tl → isSpace c = false) ∧
    ∃ p cs, (do
        let (rem, cs) ← takeComments (e.length + 1) e acc
        if rem.isEmpty then (.ok (false, cs) : Py (Bool × List Str))
        else if upper (rem.take 5) != kWHERE then .error .parseError
        else .ok (true, cs)) = .ok (p, acc ++ cs) := by
  induction he with
  | nothing =>
      refine ⟨(fun c tl e => by cases e), false, [], ?_⟩
      simp [takeComments, startsWithComment, dashDash, slashStar, ok_bind]
  | whereClause t ht =>
      cases t with
      | nil => simp [upper, kWHERE] at ht
      | cons c tl =>
        have hcW : upperC c = 'W' := by
          have := congrArg List.head? ht
          simpa [upper, kWHERE] using this
        have hl := upperC_letter c 'W' (by decide) hcW
        have hs : startsWithComment (c :: tl) = false :=
          startsWithComment_head c tl (letter_ne c _ hl (by unfold letter; decide)) (letter_ne c _ hl (by unfold letter; decide))
        refine ⟨(fun c' tl' e => by cases e; exact letter_not_space _ hl), true, [], ?_⟩
        rw [takeComments_none _ _ _ hs]
        have ht' : upper (c :: List.take 4 tl) = kWHERE := by simpa using ht
        simp [ok_bind, ht']
  | openLine b hb =>
      refine ⟨(fun c tl e => by cases e; decide), false, [rstrip ('-' :: '-' :: b)], ?_⟩
      have hs : startsWithComment ('-' :: '-' :: b) = true := by simp [startsWithComment, dashDash, List.isPrefixOf]
      rw [takeComments]
      simp only [hs, if_true, parseComment_openLine b hb, ok_bind]
      simp [lstrip, takeComments, startsWithComment, dashDash, slashStar, ok_bind]
  | openBlock b hb =>
      refine ⟨(fun c tl e => by cases e; decide), false, [rstrip ('/' :: '*' :: b)], ?_⟩
      have hs : startsWithComment ('/' :: '*' :: b) = true := by simp [startsWithComment, slashStar, List.isPrefixOf]
      rw [takeComments]
      simp only [hs, if_true, parseComment_openBlock b hb, ok_bind]
      simp [lstrip, takeComments, startsWithComment, dashDash, slashStar, ok_bind]

theorem indexTail_ok (t : Str) (h : IndexTailOk t) (acc : List Str) : ∃ p cs, indexTail t acc = .ok (p, acc ++ cs) := by
  obtain ⟨g, e, hg, he, rfl⟩ := h
  obtain ⟨hsolid, _⟩ := tailEnd_ok e he acc
  obtain ⟨cs1, h1⟩ := takeComments_gap g hg e acc hsolid
  obtain ⟨_, p, cs2, h2⟩ := tailEnd_ok e he (acc ++ cs1)
  refine ⟨p, cs1 ++ cs2, ?_⟩
  rw [List.append_assoc] at h2
  unfold indexTail
  dsimp only
  rw [h1]
  exact h2

/-- a gap, then the parenthesised indexed columns and what may follow them -/
theorem indexCols_ok (G3 R : Str) (hG3 : Gap G3) (h : IndexColsOk R) (acc : List Str) :
    ∃ p cs, indexCols (lstrip (G3 ++ R)) acc = .ok (p, acc ++ cs) := by
  obtain ⟨hh, close, hc, ht⟩ := h
  obtain ⟨hsolid, hs, _⟩ := paren_solid R hh
  obtain ⟨cs1, h1⟩ := takeComments_gap G3 hG3 R acc hsolid
  obtain ⟨p, cs2, h2⟩ := indexTail_ok _ ht (acc ++ cs1)
  have hp := parenthesised_of_close R close hh hc
  refine ⟨p, cs1 ++ cs2, ?_⟩
  unfold indexCols
  rw [h1, takeComments_none _ R _ hs]
  simp only [ok_bind, hc, hp, Bool.not_true, Bool.false_eq_true, if_false, h2, List.append_assoc]

/-- the index name, ON and the table name, with a gap (whitespace, comments) after each -/
theorem indexNames_ok (name tbl Wi Wt G1 G2 G3 R : Str) (o n : Char)
    (hWi : Written name Wi) (hWt : Written tbl Wt) (hG1 : Gap G1) (hG1ne : Wi = name → G1 ≠ [])
    (ho : upperC o = 'O') (hn : upperC n = 'N') (hG2 : Gap G2) (hG3 : Gap G3) (hR : R.head? = some '(') :
    ∃ cs, indexNames name tbl (Wi ++ (G1 ++ o :: n :: (G2 ++ (Wt ++ (G3 ++ R))))) = .ok (lstrip (G3 ++ R), cs) := by
  have lo := upperC_letter o 'O' (by decide) ho
  obtain ⟨_, _, R', hR'⟩ := paren_solid R hR
  obtain ⟨ht1, hq1⟩ := after_name G1 hG1 o (n :: (G2 ++ (Wt ++ (G3 ++ R)))) (Or.inl lo)
  have h1 : rowNameAndRest (Wi ++ (G1 ++ o :: n :: (G2 ++ (Wt ++ (G3 ++ R))))) =
      .ok (name, G1 ++ o :: n :: (G2 ++ (Wt ++ (G3 ++ R)))) :=
    rowName_written false name Wi _ hWi (fun e => Or.inl (ht1 (Or.inl (hG1ne e)))) hq1
  have so : ∀ c tl, o :: n :: (G2 ++ (Wt ++ (G3 ++ R))) = c :: tl → isSpace c = false :=
    fun c tl e => by cases e; exact letter_not_space _ lo
  obtain ⟨cs1, h2⟩ := takeComments_gap G1 hG1 (o :: n :: (G2 ++ (Wt ++ (G3 ++ R)))) [] so
  have s2 : startsWithComment (o :: n :: (G2 ++ (Wt ++ (G3 ++ R)))) = false :=
    startsWithComment_head o _ (letter_ne o _ lo (by unfold letter; decide)) (letter_ne o _ lo (by unfold letter; decide))
  rw [takeComments_none _ _ _ s2, List.nil_append] at h2
  have h3 : upper ((o :: n :: (G2 ++ (Wt ++ (G3 ++ R)))).take 2) = kON := by
    simp [upper, kON, ho, hn]
  obtain ⟨w0, wt, hw, hws, _, hw1, hw2⟩ := written_head tbl Wt hWt
  have sw : ∀ c tl, Wt ++ (G3 ++ R) = c :: tl → isSpace c = false :=
    fun c tl e => by rw [hw] at e; cases e; exact hws
  obtain ⟨cs2, h4⟩ := takeComments_gap G2 hG2 (Wt ++ (G3 ++ R)) cs1 sw
  have s4 : startsWithComment (Wt ++ (G3 ++ R)) = false := by
    rw [hw]; exact startsWithComment_head w0 _ hw1 hw2
  rw [takeComments_none _ _ _ s4] at h4
  have h4' : takeComments ((lstrip ((o :: n :: (G2 ++ (Wt ++ (G3 ++ R)))).drop 2)).length + 1)
      (lstrip ((o :: n :: (G2 ++ (Wt ++ (G3 ++ R)))).drop 2)) cs1 = .ok (Wt ++ (G3 ++ R), cs1 ++ cs2) := h4
  obtain ⟨ht5, hq5⟩ := after_name G3 hG3 '(' R' (Or.inr rfl)
  rw [← hR'] at ht5 hq5
  have h5 : rowNameAndRest (Wt ++ (G3 ++ R)) = .ok (tbl, G3 ++ R) :=
    rowName_written false tbl Wt _ hWt (fun _ => Or.inl (ht5 (Or.inr rfl))) hq5
  refine ⟨cs1 ++ cs2, ?_⟩
  unfold indexNames
  simp only [h1, ok_bind, h2, h3, bne_self_eq_false, Bool.false_eq_true, if_false, h4', h5, lowerNe_self]

theorem indexPrefix_head (u : Bool) (x : Str) :
    indexPrefix (indexHead u ++ x) = .ok (u, (indexHead u).length - 1) ∧
      (indexHead u ++ x).drop ((indexHead u).length - 1 + 1) = x := by
  cases u <;> simp [indexPrefix, indexHead, createIndex, createUniqueIndex, List.isPrefixOf]

theorem indexCmd_shape (u : Bool) (name tbl Wi Wt G1 G2 G3 R : Str) (o n : Char)
    (hWi : Written name Wi) (hWt : Written tbl Wt) (hG1 : Gap G1) (hG1ne : Wi = name → G1 ≠ [])
    (ho : upperC o = 'O') (hn : upperC n = 'N') (hG2 : Gap G2) (hG3 : Gap G3) (hR : IndexColsOk R) :
    ∃ p cs, indexCmd name tbl (indexSql u Wi G1 o n G2 Wt G3 R) = .ok (u, p, cs) := by
  obtain ⟨h1, h2⟩ := indexPrefix_head u (Wi ++ (G1 ++ o :: n :: (G2 ++ (Wt ++ (G3 ++ R)))))
  obtain ⟨cs1, h3⟩ := indexNames_ok name tbl Wi Wt G1 G2 G3 R o n hWi hWt hG1 hG1ne ho hn hG2 hG3 hR.1
  obtain ⟨p, cs2, hp⟩ := indexCols_ok G3 R hG3 hR cs1
  refine ⟨p, cs1 ++ cs2, ?_⟩
  unfold indexCmd indexSql
  simp only [h1, ok_bind, h2, h3, hp]

theorem noBlankRun_escape (q : Char) (hq : isQuote q = true) (n : Str) (h : noBlankRun n = true) :
    noBlankRun (escapeQuote q n) = true := by
  rw [noBlankRun_eq] at h ⊢
  exact noBlankRunGo_escape q (quote_facts q hq).2 n false h

/-- the collapse leaves a name spelling alone when the name has no blank run -/
theorem collapse_written (n w rest : Str) (hw : Written n w) (hnb : noBlankRun n = true) :
    collapse isBlank (w ++ rest) = w ++ collapse isBlank rest := by
  cases hw with
  | quoted q hq =>
      have hb := (quote_facts q hq).2
      have e : quoteName q n ++ rest = (q :: escapeQuote q n) ++ q :: rest := by simp [quoteName]
      rw [e, collapse_append_nonblank isBlank _ q rest hb, collapse_cons_nonblank isBlank q _ hb,
        collapse_noBlankRun _ (noBlankRun_escape q hq n hnb)]
      simp [quoteName]
  | bracket h =>
      have e : ('[' :: n ++ [']']) ++ rest = ('[' :: n) ++ ']' :: rest := by simp
      rw [e, collapse_append_nonblank isBlank _ ']' rest (by decide), collapse_cons_nonblank isBlank '[' _ (by decide),
        collapse_noBlankRun _ hnb]
      simp
  | plain h => exact collapse_prefix_nonblank isBlank rest n (fun c hc => plain_not_blank c (h.2 c hc))

theorem collapse_indexHead (u : Bool) : collapse isBlank (indexHead u) = indexHead u := by
  cases u <;> decide

theorem letter_not_blank (c : Char) (h : letter c) : isBlank c = false :=
  not_space_not_blank c (letter_not_space c h)

theorem collapse_indexSql (u : Bool) (name tbl Wi Wt G1 G2 G3 R : Str) (o n : Char)
    (hWi : Written name Wi) (hWt : Written tbl Wt) (hnb1 : noBlankRun name = true) (hnb2 : noBlankRun tbl = true)
    (ho : upperC o = 'O') (hn : upperC n = 'N') (hR : R.head? = some '(') :
    collapse isBlank (indexSql u Wi G1 o n G2 Wt G3 R) =
      indexSql u Wi (collapse isBlank G1) o n (collapse isBlank G2) Wt (collapse isBlank G3) (collapse isBlank R) := by
  have lo := letter_not_blank o (upperC_letter o 'O' (by decide) ho)
  have ln := letter_not_blank n (upperC_letter n 'N' (by decide) hn)
  obtain ⟨i0, it, hi, _, hib, _⟩ := written_head name Wi hWi
  obtain ⟨w0, wt, hw, _, hwb, _⟩ := written_head tbl Wt hWt
  obtain ⟨_, _, R', hR'⟩ := paren_solid R hR
  unfold indexSql
  rw [collapse_append_head isBlank _ _ (fun c tl e => by rw [hi] at e; cases e; exact hib) (by rw [hi]; simp),
    collapse_indexHead, collapse_written name Wi _ hWi hnb1,
    collapse_append_nonblank isBlank G1 o _ lo, collapse_cons_nonblank isBlank n _ ln,
    collapse_append_head isBlank G2 _ (fun c tl e => by rw [hw] at e; cases e; exact hwb) (by rw [hw]; simp),
    collapse_written tbl Wt _ hWt hnb2,
    collapse_append_head isBlank G3 R (fun c tl e => by rw [hR'] at e; cases e; decide) (by rw [hR']; simp)]

theorem indexSql_ne (u : Bool) (wi g1 : Str) (o n : Char) (g2 wt g3 r : Str) :
    ∃ c cs, indexSql u wi g1 o n g2 wt g3 r = c :: cs := by
  cases u <;> exact ⟨'C', _, rfl⟩

/-- `IndexRow.__init__` on a CREATE INDEX row of the stated shape -/
theorem indexRow_shape (u : Bool) (name tbl Wi Wt G1 G2 G3 R : Str) (o n : Char) (root : Option Int)
    (tables : Tables) (wr : Bool) (hname : name ≠ []) (htbl : tbl ≠ [])
    (hWi : Written name Wi) (hWt : Written tbl Wt) (hnb1 : noBlankRun name = true) (hnb2 : noBlankRun tbl = true)
    (hG1 : Gap G1) (hG1ne : Wi = name → G1 ≠ []) (ho : upperC o = 'O') (hn : upperC n = 'N') (hG2 : Gap G2) (hG3 : Gap G3)
    (hR : R.head? = some '(') (hcols : IndexColsOk (collapse isBlank R))
    (hm1 : InModel name) (hm2 : InModel tbl) (hm3 : InModel (indexSql u Wi G1 o n G2 Wt G3 R))
    (hint : sqlitePrefix.isPrefixOf name = false) (htab : tables.find tbl = some (some wr)) :
    ∃ p cs, indexRow ⟨kIndex, name, tbl, root, some (indexSql u Wi G1 o n G2 Wt G3 R)⟩ tables =
      .ok ⟨⟨kIndex, name, tbl, root, some (indexSql u Wi G1 o n G2 Wt G3 R)⟩,
           sqlHasComments (some (indexSql u Wi G1 o n G2 Wt G3 R)), .index false u p cs⟩ := by
  have hc := collapse_indexSql u name tbl Wi Wt G1 G2 G3 R o n hWi hWt hnb1 hnb2 ho hn hR
  obtain ⟨p, cs, hp⟩ := indexCmd_shape u name tbl Wi Wt (collapse isBlank G1) (collapse isBlank G2) (collapse isBlank G3)
    (collapse isBlank R) o n hWi hWt (collapse_gap G1 hG1) (fun e => collapse_ne G1 (hG1ne e)) ho hn
    (collapse_gap G2 hG2) (collapse_gap G3 hG3) hcols
  rw [← hc] at hp
  obtain ⟨c, cs', hsql⟩ := indexSql_ne u Wi G1 o n G2 Wt G3 R
  refine ⟨p, cs, ?_⟩
  obtain ⟨a, as, rfl⟩ : ∃ a as, name = a :: as := by
    cases name with
    | nil => exact absurd rfl hname
    | cons a as => exact ⟨a, as, rfl⟩
  obtain ⟨b, bs, rfl⟩ : ∃ b bs, tbl = b :: bs := by
    cases tbl with
    | nil => exact absurd rfl htbl
    | cons b bs => exact ⟨b, bs, rfl⟩
  unfold InModel at hm1 hm2 hm3
  unfold indexRow
  simp only [Option.getD_some, hm1, hm2, hm3, Bool.or_self, Bool.false_eq_true, if_false]
  have hinit : rowInit ⟨kIndex, a :: as, b :: bs, root, some (indexSql u Wi G1 o n G2 Wt G3 R)⟩ =
      .ok ⟨⟨kIndex, a :: as, b :: bs, root, some (indexSql u Wi G1 o n G2 Wt G3 R)⟩,
           sqlHasComments (some (indexSql u Wi G1 o n G2 Wt G3 R))⟩ := by
    rw [hsql]; rfl
  simp only [hinit, ok_bind, bne_self_eq_false, Bool.false_eq_true, if_false, hint, Bool.false_and, Option.isSome_some,
    Option.isNone_some, Bool.not_false, Bool.true_and, htab, Option.getD_some, indexBody, hp]


/-! ### virtual table rows -/

theorem using_word : ∀ (w : Str), upper w = kUSING →
    ∃ c1 c2 c3 c4 c5, w = [c1, c2, c3, c4, c5] ∧ letter c1 ∧ letter c2 ∧ letter c3 ∧ letter c4 ∧ letter c5
  | [c1, c2, c3, c4, c5], h => by
      simp only [upper, kUSING, List.map_cons, List.map_nil, List.cons.injEq, and_true] at h
      obtain ⟨h1, h2, h3, h4, h5⟩ := h
      exact ⟨c1, c2, c3, c4, c5, rfl, upperC_letter _ _ (by decide) h1, upperC_letter _ _ (by decide) h2,
        upperC_letter _ _ (by decide) h3, upperC_letter _ _ (by decide) h4, upperC_letter _ _ (by decide) h5⟩
  | [], h => by simp [upper, kUSING] at h
  | [_], h => by simp [upper, kUSING] at h
  | [_, _], h => by simp [upper, kUSING] at h
  | [_, _, _], h => by simp [upper, kUSING] at h
  | [_, _, _, _], h => by simp [upper, kUSING] at h
  | _ :: _ :: _ :: _ :: _ :: _ :: _, h => by simp [upper, kUSING] at h

theorem virtualName_ok (name Wn G1 U rest : Str) (hWn : Written name Wn) (hG1 : Gap G1) (hG1ne : Wn = name → G1 ≠ [])
    (hU : upper U = kUSING) (hint : sqlitePrefix.isPrefixOf name = false) :
    virtualName name name (virtualHead ++ (Wn ++ (G1 ++ (U ++ rest)))) = .ok (lstrip (G1 ++ (U ++ rest))) := by
  obtain ⟨c1, c2, c3, c4, c5, rfl, l1, _⟩ := using_word U hU
  obtain ⟨w0, wt, hw, hws, _⟩ := written_head name Wn hWn
  have h0 : lstrip ((virtualHead ++ (Wn ++ (G1 ++ ([c1, c2, c3, c4, c5] ++ rest)))).drop createVirtualTable.length) =
      Wn ++ (G1 ++ ([c1, c2, c3, c4, c5] ++ rest)) := by
    have : (virtualHead ++ (Wn ++ (G1 ++ ([c1, c2, c3, c4, c5] ++ rest)))).drop createVirtualTable.length =
        [' '] ++ (Wn ++ (G1 ++ ([c1, c2, c3, c4, c5] ++ rest))) := by
      simp [virtualHead, createVirtualTable]
    rw [this]
    exact lstrip_ws _ (fun c tl e => by rw [hw] at e; cases e; exact hws) [' '] (by intro c hc; simp at hc; subst hc; decide)
  obtain ⟨ht1, hq1⟩ := after_name G1 hG1 c1 ([c2, c3, c4, c5] ++ rest) (Or.inl l1)
  have h1 : rowNameAndRest (Wn ++ (G1 ++ ([c1, c2, c3, c4, c5] ++ rest))) = .ok (name, G1 ++ ([c1, c2, c3, c4, c5] ++ rest)) :=
    rowName_written false name Wn _ hWn (fun e => Or.inl (ht1 (Or.inl (hG1ne e)))) hq1
  unfold virtualName
  simp only [h0, h1, ok_bind, lowerNe_self, Bool.false_eq_true, if_false, hint]

/-- USING, the module name in any spelling, and the module arguments - or nothing (repair of C07-22) -/
theorem virtualModule_ok (m G1 U G2 Wm G3 R : Str) (hG1 : Gap G1) (hU : upper U = kUSING) (hG2 : Gap G2)
    (hWm : Written m Wm) (hG3 : Gap G3) (hR : R = [] ∨ ModuleArgsOk R) :
    ∃ cs, virtualModule (lstrip (G1 ++ (U ++ (G2 ++ (Wm ++ (G3 ++ R)))))) = .ok (m, cs) := by
  obtain ⟨c1, c2, c3, c4, c5, rfl, l1, _⟩ := using_word U hU
  obtain ⟨w0, wt, hw, hws, _, hn1, hn2⟩ := written_head m Wm hWm
  -- the gap before USING
  have su : ∀ c tl, [c1, c2, c3, c4, c5] ++ (G2 ++ (Wm ++ (G3 ++ R))) = c :: tl → isSpace c = false :=
    fun c tl e => by simp only [List.cons_append, List.cons.injEq] at e; rw [← e.1]; exact letter_not_space _ l1
  obtain ⟨cs1, h1⟩ := takeComments_gap G1 hG1 _ [] su
  have s0 : startsWithComment ([c1, c2, c3, c4, c5] ++ (G2 ++ (Wm ++ (G3 ++ R)))) = false :=
    startsWithComment_head c1 _ (letter_ne c1 _ l1 (by unfold letter; decide)) (letter_ne c1 _ l1 (by unfold letter; decide))
  rw [takeComments_none _ _ _ s0, List.nil_append] at h1
  have h2 : upper (([c1, c2, c3, c4, c5] ++ (G2 ++ (Wm ++ (G3 ++ R)))).take 5) = kUSING := by
    simpa using hU
  -- the gap after USING
  have sw : ∀ c tl, Wm ++ (G3 ++ R) = c :: tl → isSpace c = false :=
    fun c tl e => by rw [hw] at e; cases e; exact hws
  obtain ⟨cs2, h3⟩ := takeComments_gap G2 hG2 (Wm ++ (G3 ++ R)) cs1 sw
  have s1 : startsWithComment (Wm ++ (G3 ++ R)) = false := by
    rw [hw]; exact startsWithComment_head w0 _ hn1 hn2
  rw [takeComments_none _ _ _ s1] at h3
  have h3' : takeComments ((lstrip (([c1, c2, c3, c4, c5] ++ (G2 ++ (Wm ++ (G3 ++ R)))).drop 5)).length + 1)
      (lstrip (([c1, c2, c3, c4, c5] ++ (G2 ++ (Wm ++ (G3 ++ R)))).drop 5)) cs1 = .ok (Wm ++ (G3 ++ R), cs1 ++ cs2) := h3
  -- the module name and what follows it
  rcases hR with hR | hR
  · subst hR
    have h4 : rowNameAndRest (Wm ++ (G3 ++ [])) true = .ok (m, G3 ++ []) := by
      apply rowName_written true m Wm _ hWm
      · intro _
        cases G3 with
        | nil => exact Or.inr ⟨rfl, rfl⟩
        | cons x xs =>
            obtain ⟨c, tl, e, hs⟩ := gap_head (x :: xs) hG3 (by simp)
            exact Or.inl ⟨c, tl, by simpa using e, hs⟩
      · intro q hq
        cases G3 with
        | nil => simp
        | cons x xs =>
            obtain ⟨c, tl, e, hs⟩ := gap_head (x :: xs) hG3 (by simp)
            rw [List.append_nil, e]
            simp only [List.head?_cons, ne_eq, Option.some.injEq]
            exact stop_not_quote q c tl hq hs
    obtain ⟨cs3, h5⟩ := takeComments_gap G3 hG3 [] (cs1 ++ cs2) (fun c tl e => by cases e)
    have h5' : takeComments 1 [] (cs1 ++ cs2 ++ cs3) = .ok ([], cs1 ++ cs2 ++ cs3) := by
      simp [takeComments, startsWithComment, dashDash, slashStar]
    have h5 := h5.trans h5'
    refine ⟨cs1 ++ cs2 ++ cs3, ?_⟩
    unfold virtualModule
    simp only [h1, ok_bind, h2, bne_self_eq_false, Bool.false_eq_true, if_false, h3', h4, h5, List.isEmpty_nil, if_true]
  · obtain ⟨hh, close, hc, ht⟩ := hR
    obtain ⟨hsolid, hs, R', hR'⟩ := paren_solid R hh
    obtain ⟨ht4, hq4⟩ := after_name G3 hG3 '(' R' (Or.inr rfl)
    rw [← hR'] at ht4 hq4
    have h4 : rowNameAndRest (Wm ++ (G3 ++ R)) true = .ok (m, G3 ++ R) :=
      rowName_written true m Wm _ hWm (fun _ => Or.inl (ht4 (Or.inr rfl))) hq4
    obtain ⟨cs3, h5⟩ := takeComments_gap G3 hG3 R (cs1 ++ cs2) hsolid
    rw [takeComments_none _ R _ hs] at h5
    have hp := parenthesised_of_close R close hh hc
    have hne : R.isEmpty = false := by rw [hR']; rfl
    refine ⟨cs1 ++ cs2 ++ cs3, ?_⟩
    unfold virtualModule
    simp only [h1, ok_bind, h2, bne_self_eq_false, Bool.false_eq_true, if_false, h3', h4, h5, hne, hc, hp, Bool.not_true, ht,
      List.isEmpty_nil, Bool.not_true]

theorem collapse_virtualHead : collapse isBlank virtualHead = virtualHead := by decide

theorem collapse_virtualSql (name m Wn Wm G1 U G2 G3 R : Str) (hWn : Written name Wn) (hWm : Written m Wm)
    (hnb1 : noBlankRun name = true) (hnb2 : noBlankRun m = true) (hU : upper U = kUSING) :
    collapse isBlank (virtualSql Wn G1 U G2 Wm G3 R) =
      virtualSql Wn (collapse isBlank G1) U (collapse isBlank G2) Wm (collapse isBlank (G3 ++ R)) [] := by
  obtain ⟨c1, c2, c3, c4, c5, hUe, l1, l2, l3, l4, l5⟩ := using_word U hU
  have hUb : ∀ c ∈ U, isBlank c = false := by
    intro c hc
    rw [hUe] at hc
    simp only [List.mem_cons, List.not_mem_nil, or_false] at hc
    rcases hc with h | h | h | h | h <;> subst h <;> exact letter_not_blank _ ‹_›
  obtain ⟨i0, it, hi, _, hib, _⟩ := written_head name Wn hWn
  obtain ⟨w0, wt, hw, _, hwb, _⟩ := written_head m Wm hWm
  unfold virtualSql
  rw [collapse_append_head isBlank _ _ (fun c tl e => by rw [hi] at e; cases e; exact hib) (by rw [hi]; simp),
    collapse_virtualHead, collapse_written name Wn _ hWn hnb1,
    collapse_append_head isBlank G1 _ (fun c tl e => by rw [hUe] at e; cases e; exact letter_not_blank _ l1) (by rw [hUe]; simp),
    collapse_prefix_nonblank isBlank _ U hUb,
    collapse_append_head isBlank G2 _ (fun c tl e => by rw [hw] at e; cases e; exact hwb) (by rw [hw]; simp),
    collapse_written m Wm _ hWm hnb2]
  simp

/-- `VirtualTableRow.__init__` on a CREATE VIRTUAL TABLE row of the stated shape: accepted, the columns
unchanged, the module name found -/
theorem virtualRow_shape (name m Wn Wm G1 U G2 G3 R : Str) (root : Option Int) (hname : name ≠ [])
    (hWn : Written name Wn) (hWm : Written m Wm) (hnb1 : noBlankRun name = true) (hnb2 : noBlankRun m = true)
    (hG1 : Gap G1) (hG1ne : Wn = name → G1 ≠ []) (hU : upper U = kUSING) (hG2 : Gap G2) (hG3 : Gap G3)
    (hR : R = [] ∨ (R.head? = some '(' ∧ ModuleArgsOk (collapse isBlank R)))
    (hm1 : InModel name) (hm3 : InModel (virtualSql Wn G1 U G2 Wm G3 R))
    (hint : sqlitePrefix.isPrefixOf name = false) :
    ∃ cs, virtualRow ⟨kTable, name, name, root, some (virtualSql Wn G1 U G2 Wm G3 R)⟩ =
      .ok ⟨⟨kTable, name, name, root, some (virtualSql Wn G1 U G2 Wm G3 R)⟩,
           sqlHasComments (some (virtualSql Wn G1 U G2 Wm G3 R)), .virtualTable m cs⟩ := by
  have hc := collapse_virtualSql name m Wn Wm G1 U G2 G3 R hWn hWm hnb1 hnb2 hU
  -- the collapsed tail: a gap and the module arguments, or a gap alone
  have htail : ∃ G3' R', Gap G3' ∧ (R' = [] ∨ ModuleArgsOk R') ∧ collapse isBlank (G3 ++ R) = G3' ++ R' := by
    rcases hR with h | ⟨hh, ha⟩
    · subst h
      exact ⟨collapse isBlank G3, [], collapse_gap G3 hG3, Or.inl rfl, by simp⟩
    · obtain ⟨_, _, R', hR'⟩ := paren_solid R hh
      refine ⟨collapse isBlank G3, collapse isBlank R, collapse_gap G3 hG3, Or.inr ha, ?_⟩
      exact collapse_append_head isBlank G3 R (fun c tl e => by rw [hR'] at e; cases e; decide) (by rw [hR']; simp)
  obtain ⟨G3', R', hG3', hR'', etail⟩ := htail
  have hn := virtualName_ok name Wn (collapse isBlank G1) U
    (collapse isBlank G2 ++ (Wm ++ (G3' ++ R'))) hWn (collapse_gap G1 hG1)
    (fun e => collapse_ne G1 (hG1ne e)) hU hint
  obtain ⟨cs, hmod⟩ := virtualModule_ok m (collapse isBlank G1) U (collapse isBlank G2) Wm G3' R' (collapse_gap G1 hG1) hU
    (collapse_gap G2 hG2) hWm hG3' hR''
  have hcmd : virtualCmd name name (collapse isBlank (virtualSql Wn G1 U G2 Wm G3 R)) = .ok (m, cs) := by
    rw [hc, etail]
    unfold virtualCmd virtualSql
    simp only [List.append_nil]
    simp only [hn, ok_bind, hmod]
  have hpre : createVirtualTable.isPrefixOf (virtualSql Wn G1 U G2 Wm G3 R) = true := by
    simp [virtualSql, virtualHead, createVirtualTable, List.isPrefixOf]
  obtain ⟨c, cs', hsql⟩ : ∃ c cs, virtualSql Wn G1 U G2 Wm G3 R = c :: cs := ⟨'C', _, rfl⟩
  obtain ⟨a, as, rfl⟩ : ∃ a as, name = a :: as := by
    cases name with
    | nil => exact absurd rfl hname
    | cons a as => exact ⟨a, as, rfl⟩
  refine ⟨cs, ?_⟩
  unfold InModel at hm1 hm3
  unfold virtualRow
  simp only [Option.getD_some, hm1, hm3, Bool.or_self, Bool.false_eq_true, if_false]
  have hinit : tableRowInit ⟨kTable, a :: as, a :: as, root, some (virtualSql Wn G1 U G2 Wm G3 R)⟩ =
      .ok ⟨⟨kTable, a :: as, a :: as, root, some (virtualSql Wn G1 U G2 Wm G3 R)⟩,
           sqlHasComments (some (virtualSql Wn G1 U G2 Wm G3 R))⟩ := by
    rw [hsql]; rfl
  simp only [hinit, ok_bind, Option.getD_some, virtualBody, hpre, Bool.not_true, Bool.false_eq_true, if_false, hcmd]

/-! ### internal schema objects -/

theorem indexRow_internal (name tbl : Str) (root : Option Int) (tables : Tables) (wr : Bool)
    (hpre : autoindexPrefix.isPrefixOf name = true) (htbl : tbl ≠ []) (hm1 : InModel name) (hm2 : InModel tbl)
    (htab : tables.find tbl = some (some wr)) :
    indexRow ⟨kIndex, name, tbl, root, none⟩ tables =
      .ok ⟨⟨kIndex, name, tbl, root, none⟩, false, .index true false false []⟩ := by
  obtain ⟨t, rfl⟩ := List.isPrefixOf_iff_prefix.mp hpre
  obtain ⟨b, bs, rfl⟩ : ∃ b bs, tbl = b :: bs := by
    cases tbl with
    | nil => exact absurd rfl htbl
    | cons b bs => exact ⟨b, bs, rfl⟩
  have hs : sqlitePrefix.isPrefixOf (autoindexPrefix ++ t) = true := by
    simp [sqlitePrefix, autoindexPrefix, List.isPrefixOf]
  have ha : autoindexPrefix.isPrefixOf (autoindexPrefix ++ t) = true := hpre
  unfold InModel at hm1 hm2
  unfold indexRow
  simp only [hm1, hm2, Option.getD_none, List.any_nil, Bool.or_self, Bool.false_eq_true, if_false]
  have hinit : rowInit ⟨kIndex, autoindexPrefix ++ t, b :: bs, root, none⟩ =
      .ok ⟨⟨kIndex, autoindexPrefix ++ t, b :: bs, root, none⟩, false⟩ := rfl
  simp only [hinit, ok_bind, bne_self_eq_false, Bool.false_eq_true, if_false, hs, ha, Bool.not_true, Bool.and_false,
    Option.isSome_none, Option.isNone_none, Bool.and_true, Bool.not_true, htab, if_true]

/-- an index whose name begins with "sqlite_" but not with "sqlite_autoindex_" is refused -/
theorem indexRow_reserved_name (name tbl : Str) (root : Option Int) (sql : Option Str) (tables : Tables)
    (h1 : sqlitePrefix.isPrefixOf name = true) (h2 : autoindexPrefix.isPrefixOf name = false) (htbl : tbl ≠ [])
    (hm1 : InModel name) (hm2 : InModel tbl) (hm3 : InModel (sql.getD [])) :
    indexRow ⟨kIndex, name, tbl, root, sql⟩ tables = .error .parseError := by
  obtain ⟨t, rfl⟩ := List.isPrefixOf_iff_prefix.mp h1
  obtain ⟨b, bs, rfl⟩ : ∃ b bs, tbl = b :: bs := by
    cases tbl with
    | nil => exact absurd rfl htbl
    | cons b bs => exact ⟨b, bs, rfl⟩
  unfold InModel at hm1 hm2 hm3
  unfold indexRow
  simp only [hm1, hm2, hm3, Bool.or_self, Bool.false_eq_true, if_false]
  have hinit : rowInit ⟨kIndex, sqlitePrefix ++ t, b :: bs, root, sql⟩ =
      .ok ⟨⟨kIndex, sqlitePrefix ++ t, b :: bs, root, normSql sql⟩, sqlHasComments (normSql sql)⟩ := rfl
  simp only [hinit, ok_bind, bne_self_eq_false, Bool.false_eq_true, if_false, h1, h2, Bool.not_false, Bool.and_self, if_true]

/-! ### the indexed columns without quotes and comments -/

/-- a plain column list (`balance`: parentheses nest, none of the characters that start a comment or a
quoted string) without blank runs, followed by an `IndexTailOk`: the scanner accepts it -/
theorem indexColsOk_balanced (body tail : Str) (hb : balance 0 body = some 0)
    (hnb : noBlankRun ('(' :: body ++ ')' :: tail) = true) (ht : IndexTailOk tail) :
    IndexColsOk (collapse isBlank ('(' :: body ++ ')' :: tail)) := by
  rw [collapse_noBlankRun _ hnb]
  refine ⟨rfl, body.length + 1, Proofs.Schema.closing_paren_balanced body tail hb, ?_⟩
  have : ('(' :: body ++ ')' :: tail).drop (body.length + 1 + 1) = tail := by
    have e : '(' :: body ++ ')' :: tail = ('(' :: body ++ [')']) ++ tail := by simp
    rw [e]; exact List.drop_left' (by simp)
  rw [this]; exact ht

/-! ### witnesses -/

/-- `CREATE INDEX i /* c */ ON t (a)` -/
def sqlCommentBeforeOn : Str :=
  ['C','R','E','A','T','E',' ','I','N','D','E','X',' ','i',' ','/','*',' ','c',' ','*','/',' ','O','N',' ','t',' ','(','a',')']

/-- `CREATE INDEX i ON /* c */ t (a)` -/
def sqlCommentAfterOn : Str :=
  ['C','R','E','A','T','E',' ','I','N','D','E','X',' ','i',' ','O','N',' ','/','*',' ','c',' ','*','/',' ','t',' ','(','a',')']

/-- `CREATE INDEX i ON t (a) -- c` -/
def sqlTrailingLineComment : Str :=
  ['C','R','E','A','T','E',' ','I','N','D','E','X',' ','i',' ','O','N',' ','t',' ','(','a',')',' ','-','-',' ','c']

/-- `CREATE INDEX i ON t (a/2)` -/
def sqlSlashExpr : Str :=
  ['C','R','E','A','T','E',' ','I','N','D','E','X',' ','i',' ','O','N',' ','t',' ','(','a','/','2',')']

/-- `CREATE INDEX "i  x" ON t (a)` -/
def sqlBlankRunName : Str :=
  ['C','R','E','A','T','E',' ','I','N','D','E','X',' ','"','i',' ',' ','x','"',' ','O','N',' ','t',' ','(','a',')']

/-- `CREATE INDEX "" ON t (a)` -/
def sqlEmptyIndexName : Str :=
  ['C','R','E','A','T','E',' ','I','N','D','E','X',' ','"','"',' ','O','N',' ','t',' ','(','a',')']

/-- `CREATE VIRTUAL TABLE v USING dbstat` -/
def sqlNoArgs : Str :=
  ['C','R','E','A','T','E',' ','V','I','R','T','U','A','L',' ','T','A','B','L','E',' ','v',' ','U','S','I','N','G',' ','d','b','s','t','a','t']

/-- `CREATE VIEW "" AS SELECT 1` -/
def sqlEmptyView : Str :=
  ['C','R','E','A','T','E',' ','V','I','E','W',' ','"','"',' ','A','S',' ','S','E','L','E','C','T',' ','1']

/-- `CREATE TRIGGER "" AFTER INSERT ON t BEGIN SELECT 1; END` -/
def sqlEmptyTrigger : Str :=
  ['C','R','E','A','T','E',' ','T','R','I','G','G','E','R',' ','"','"',' ','A','F','T','E','R',' ','I','N','S','E','R','T',' ','O','N',' ','t',' ','B','E','G','I','N',' ','S','E','L','E','C','T',' ','1',';',' ','E','N','D']

/-- `CREATE UNIQUE INDEX "i ""8" <NL>  On [u v]<TAB>("d e" COLLATE NOCASE DESC, lower(b))<NL>where b > ')'` -/
def sqlExIndex : Str :=
  ['C','R','E','A','T','E',' ','U','N','I','Q','U','E',' ','I','N','D','E','X',' ','"','i',' ','"','"','8','"',' ','\n',' ',' ','O','n',' ','[','u',' ','v',']','\t','(','"','d',' ','e','"',' ','C','O','L','L','A','T','E',' ','N','O','C','A','S','E',' ','D','E','S','C',',',' ','l','o','w','e','r','(','b',')',')','\n','w','h','e','r','e',' ','b',' ','>',' ','\'',')','\'']

/-- `CREATE VIRTUAL TABLE 'v w'  using<NL>"fts5" (x, tokenize = 'porter ascii', prefix='2,3')` -/
def sqlExVirtual : Str :=
  ['C','R','E','A','T','E',' ','V','I','R','T','U','A','L',' ','T','A','B','L','E',' ','\'','v',' ','w','\'',' ',' ','u','s','i','n','g','\n','"','f','t','s','5','"',' ','(','x',',',' ','t','o','k','e','n','i','z','e',' ','=',' ','\'','p','o','r','t','e','r',' ','a','s','c','i','i','\'',',',' ','p','r','e','f','i','x','=','\'','2',',','3','\'',')']

/-- `CREATE VIEW "v 2" (x, y) AS SELECT a, b/2 FROM t WHERE b <> ';' -- c` -/
def sqlExView : Str :=
  ['C','R','E','A','T','E',' ','V','I','E','W',' ','"','v',' ','2','"',' ','(','x',',',' ','y',')',' ','A','S',' ','S','E','L','E','C','T',' ','a',',',' ','b','/','2',' ','F','R','O','M',' ','t',' ','W','H','E','R','E',' ','b',' ','<','>',' ','\'',';','\'',' ','-','-',' ','c']

/-- `CREATE TRIGGER tr AFTER INSERT ON t BEGIN UPDATE t SET a = CASE WHEN a THEN 1 ELSE 2 END; SELECT ';'; END` -/
def sqlExTrigger : Str :=
  ['C','R','E','A','T','E',' ','T','R','I','G','G','E','R',' ','t','r',' ','A','F','T','E','R',' ','I','N','S','E','R','T',' ','O','N',' ','t',' ','B','E','G','I','N',' ','U','P','D','A','T','E',' ','t',' ','S','E','T',' ','a',' ','=',' ','C','A','S','E',' ','W','H','E','N',' ','a',' ','T','H','E','N',' ','1',' ','E','L','S','E',' ','2',' ','E','N','D',';',' ','S','E','L','E','C','T',' ','\'',';','\'',';',' ','E','N','D']

/-- `CREATE INDEX i ON t (a) /* c` -/
def sqlTrailingBlockComment : Str :=
  ['C','R','E','A','T','E',' ','I','N','D','E','X',' ','i',' ','O','N',' ','t',' ','(','a',')',' ','/','*',' ','c']

/-- `CREATE VIRTUAL TABLE "v  w" USING fts5(x)` -/
def sqlBlankRunVirtual : Str :=
  ['C','R','E','A','T','E',' ','V','I','R','T','U','A','L',' ','T','A','B','L','E',' ','"','v',' ',' ','w','"',' ','U','S','I','N','G',' ','f','t','s','5','(','x',')']

/-- `CREATE INDEX i/* a  b */<NL>-- c<NL> ON/**/t -- d<NL> (a) /* e */ -- f` -/
def sqlExGaps : Str :=
  ['C','R','E','A','T','E',' ','I','N','D','E','X',' ','i','/','*',' ','a',' ',' ','b',' ','*','/','\n','-','-',' ','c','\n',' ','O','N','/','*','*','/','t',' ','-','-',' ','d','\n',' ','(','a',')',' ','/','*',' ','e',' ','*','/',' ','-','-',' ','f']

def tablesT : Tables := [(['t'], some false)]

/-- the former witness of C07-20: a comment between the index name and ON - accepted, the comment kept -/
theorem witness_comment_before_on :
    (indexRow ⟨kIndex, ['i'], ['t'], some 3, some sqlCommentBeforeOn⟩ tablesT).toOption =
      some ⟨⟨kIndex, ['i'], ['t'], some 3, some sqlCommentBeforeOn⟩, true, .index false false false [['/', '*', ' ', 'c', ' ', '*', '/']]⟩ := by
  decide +kernel

/-- the former witness of C07-20: a comment between ON and the table name -/
theorem witness_comment_after_on :
    (indexRow ⟨kIndex, ['i'], ['t'], some 3, some sqlCommentAfterOn⟩ tablesT).toOption =
      some ⟨⟨kIndex, ['i'], ['t'], some 3, some sqlCommentAfterOn⟩, true, .index false false false [['/', '*', ' ', 'c', ' ', '*', '/']]⟩ := by
  decide +kernel

/-- the former witnesses of C07-21: a `--` comment, a `/*` comment, that the end of the statement ends -/
theorem witness_trailing_line_comment :
    (indexRow ⟨kIndex, ['i'], ['t'], some 3, some sqlTrailingLineComment⟩ tablesT).toOption =
      some ⟨⟨kIndex, ['i'], ['t'], some 3, some sqlTrailingLineComment⟩, true, .index false false false [['-', '-', ' ', 'c']]⟩ := by
  decide +kernel

theorem witness_trailing_block_comment :
    (indexRow ⟨kIndex, ['i'], ['t'], some 3, some sqlTrailingBlockComment⟩ tablesT).toOption =
      some ⟨⟨kIndex, ['i'], ['t'], some 3, some sqlTrailingBlockComment⟩, true, .index false false false [['/', '*', ' ', 'c']]⟩ := by
  decide +kernel

/-- the former witness of C07-22: a virtual table whose module takes no arguments -/
theorem witness_no_module_arguments :
    (virtualRow ⟨kTable, ['v'], ['v'], some 0, some sqlNoArgs⟩).toOption =
      some ⟨⟨kTable, ['v'], ['v'], some 0, some sqlNoArgs⟩, true, .virtualTable ['d', 'b', 's', 't', 'a', 't'] []⟩ := by
  decide +kernel

/-- C07-09 on an index: "/" in an indexed expression -/
theorem witness_slash_expression :
    errorOf (indexRow ⟨kIndex, ['i'], ['t'], some 3, some sqlSlashExpr⟩ tablesT) = some .parseError := by decide +kernel

/-- C07-13 on an index: a whitespace run inside the quoted index name -/
theorem witness_blank_run_name :
    errorOf (indexRow ⟨kIndex, ['i', ' ', ' ', 'x'], ['t'], some 3, some sqlBlankRunName⟩ tablesT) = some .parseError := by
  decide +kernel

/-- C07-13 on a virtual table: a whitespace run inside the quoted table name -/
theorem witness_blank_run_virtual :
    errorOf (virtualRow ⟨kTable, ['v', ' ', ' ', 'w'], ['v', ' ', ' ', 'w'], some 0, some sqlBlankRunVirtual⟩) = some .parseError := by
  decide +kernel

/-- C07-19 on an index: the empty index name -/
theorem witness_empty_index_name :
    errorOf (indexRow ⟨kIndex, [], ['t'], some 3, some sqlEmptyIndexName⟩ tablesT) = some .attributeError := by decide +kernel

/-! ### the full statements are still false (C07-13) -/

def IndexRowsFull : Prop :=
  ∀ (u : Bool) (name tbl Wi Wt G1 G2 G3 R : Str) (o n : Char) (root : Option Int) (tables : Tables) (wr : Bool),
    name ≠ [] → tbl ≠ [] →
    Written name Wi → Written tbl Wt → Gap G1 → (Wi = name → G1 ≠ []) → upperC o = 'O' → upperC n = 'N' → Gap G2 → Gap G3 →
    R.head? = some '(' → IndexColsOk (collapse isBlank R) →
    InModel name → InModel tbl → InModel (indexSql u Wi G1 o n G2 Wt G3 R) →
    sqlitePrefix.isPrefixOf name = false → tables.find tbl = some (some wr) →
    ∃ p cs, indexRow ⟨kIndex, name, tbl, root, some (indexSql u Wi G1 o n G2 Wt G3 R)⟩ tables =
      .ok ⟨⟨kIndex, name, tbl, root, some (indexSql u Wi G1 o n G2 Wt G3 R)⟩,
           sqlHasComments (some (indexSql u Wi G1 o n G2 Wt G3 R)), .index false u p cs⟩

theorem ws_single (c : Char) (h : isSpace c = true) : Ws [c] := by
  intro x hx; simp at hx; subst hx; exact h

theorem indexRowsFull_false : ¬ IndexRowsFull := by
  intro h
  have hw := witness_blank_run_name
  have e : sqlBlankRunName = indexSql false (quoteName '"' ['i', ' ', ' ', 'x']) [' '] 'O' 'N' [' '] ['t'] [' '] ['(', 'a', ')'] := by
    decide
  obtain ⟨p, cs, hp⟩ := h false ['i', ' ', ' ', 'x'] ['t'] (quoteName '"' ['i', ' ', ' ', 'x']) ['t'] [' '] [' '] [' '] ['(', 'a', ')'] 'O' 'N'
    (some 3) tablesT false (by decide) (by decide) (.quoted '"' rfl) (.plain ⟨by decide, by decide⟩)
    (.ws _ (ws_single ' ' (by decide))) (by intro _; decide) (by decide) (by decide) (.ws _ (ws_single ' ' (by decide)))
    (.ws _ (ws_single ' ' (by decide))) rfl
    ⟨by decide, 2, by rfl, [], [], .ws _ (by intro c hc; cases hc), .nothing, by decide⟩ (by unfold InModel; decide) (by unfold InModel; decide)
    (by unfold InModel; decide +kernel) (by decide) (by decide)
  rw [← e] at hp
  rw [hp] at hw
  cases hw

def VirtualRowsFull : Prop :=
  ∀ (name m Wn Wm G1 U G2 G3 R : Str) (root : Option Int), name ≠ [] →
    Written name Wn → Written m Wm →
    Gap G1 → (Wn = name → G1 ≠ []) → upper U = kUSING → Gap G2 → Gap G3 →
    (R = [] ∨ (R.head? = some '(' ∧ ModuleArgsOk (collapse isBlank R))) →
    InModel name → InModel (virtualSql Wn G1 U G2 Wm G3 R) → sqlitePrefix.isPrefixOf name = false →
    ∃ cs, virtualRow ⟨kTable, name, name, root, some (virtualSql Wn G1 U G2 Wm G3 R)⟩ =
      .ok ⟨⟨kTable, name, name, root, some (virtualSql Wn G1 U G2 Wm G3 R)⟩,
           sqlHasComments (some (virtualSql Wn G1 U G2 Wm G3 R)), .virtualTable m cs⟩

theorem virtualRowsFull_false : ¬ VirtualRowsFull := by
  intro h
  have hw := witness_blank_run_virtual
  have e : sqlBlankRunVirtual = virtualSql (quoteName '"' ['v', ' ', ' ', 'w']) [' '] kUSING [' '] ['f', 't', 's', '5'] [] ['(', 'x', ')'] := by
    decide
  obtain ⟨cs, hp⟩ := h ['v', ' ', ' ', 'w'] ['f', 't', 's', '5'] (quoteName '"' ['v', ' ', ' ', 'w']) ['f', 't', 's', '5'] [' '] kUSING [' '] []
    ['(', 'x', ')'] (some 0) (by decide) (.quoted '"' rfl) (.plain ⟨by decide, by decide⟩)
    (.ws _ (ws_single ' ' (by decide))) (by intro _; decide) (by decide) (.ws _ (ws_single ' ' (by decide)))
    (.ws _ (by intro c hc; cases hc)) (Or.inr ⟨rfl, by decide, 2, by rfl, by decide⟩)
    (by unfold InModel; decide) (by unfold InModel; decide +kernel) (by decide)
  rw [← e] at hp
  rw [hp] at hw
  cases hw

end SqliteDissect.Proofs.C07Rows
