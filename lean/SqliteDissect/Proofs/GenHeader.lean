/-
Proofs for Properties/GenHeader.lean: the constructors of the four header classes, re-translated
from the Python source on every run (harness/translate/pyfun.py -> Generated/PyHeader.lean), equal
the hand-written `Model/Header.lean` parsers — field by field, error class by error class, check
by check in the order the constructors make them.

`cast*` reads a model header as the structure of Python attributes: natural numbers as `Int`,
`md5_hex_digest` as the raw bytes (md5 is modelled as the identity on both sides), and the two
attributes the models do not keep because a successful parse fixes them (`magic_header_string`
is MAGIC_HEADER_STRING, `reserved_for_expansion` is twenty zero bytes).
-/
import SqliteDissect.Proofs.GenFun
import SqliteDissect.Generated.PyHeader
import SqliteDissect.Model.Header

namespace SqliteDissect.Proofs.GenHeader
open SqliteDissect SqliteDissect.Model SqliteDissect.Generated SqliteDissect.Proofs.GenFun

/-! ### reads at literal offsets of a buffer of known size -/

theorem slice_lit (b : Buf) (lo hi : Nat) (l h : Int) (hl : l = (lo : Int)) (hh : h = (hi : Int)) :
    pySliceBuf b l h = (b.slice lo hi).toList := by
  subst hl hh
  exact pySliceBuf_nat b lo hi

/-- `unpack(">H" | ">I", b[off:off+n])[0]` inside the buffer -/
theorem unpack_lit (b : Buf) (off n : Nat) (l h : Int) (hl : l = (off : Int)) (hh : h = ((off + n : Nat) : Int))
    (hn : 0 < n) (hin : off + n ≤ b.size) :
    pyUnpackBE false n (pySliceBuf b l h) = .ok ((b.beN off n : Nat) : Int) := by
  subst hl hh
  rw [pySliceBuf_nat, pyUnpackBE_slice false b off n hn]
  unfold unpackN
  rw [if_pos hin]
  rfl

theorem ord_lit (b : Buf) (i : Nat) (l h : Int) (hl : l = (i : Int)) (hh : h = ((i + 1 : Nat) : Int))
    (hin : i < b.size) : pyOrdSlice b l h = .ok ((b.rd i : Nat) : Int) := by
  subst hl hh
  have := pyOrdSlice_nat b i
  rw [if_pos hin] at this
  rw [← this]
  congr 1

theorem u32_ok (b : Buf) (off : Nat) (h : off + 4 ≤ b.size) : b.u32 off = .ok (b.beN off 4) := by
  unfold Buf.u32; rw [if_pos h]
theorem u16_ok (b : Buf) (off : Nat) (h : off + 2 ≤ b.size) : b.u16 off = .ok (b.beN off 2) := by
  unfold Buf.u16; rw [if_pos h]

/-! ### DatabaseHeader -/

/-- the page-size check chain, generated form and model form -/
theorem page_size_chain (p : Nat) :
    (if (p : Int) = (Generated.MAXIMUM_PAGE_SIZE_INDICATOR : Int) then Except.ok (Generated.MAXIMUM_PAGE_SIZE : Int)
      else if (p : Int) < (Generated.MINIMUM_PAGE_SIZE_LIMIT : Int) then Except.error PyErr.parseError
      else if (p : Int) > (Generated.MAXIMUM_PAGE_SIZE_LIMIT : Int) then Except.error PyErr.parseError
      else if pyAnd (p : Int) ((p : Int) - 1) ≠ 0 then Except.error PyErr.parseError
      else Except.ok (p : Int) : Py Int) =
    castN (if p = Generated.MAXIMUM_PAGE_SIZE_INDICATOR then pure Generated.MAXIMUM_PAGE_SIZE
      else if p < Generated.MINIMUM_PAGE_SIZE_LIMIT then Except.error PyErr.parseError
      else if p > Generated.MAXIMUM_PAGE_SIZE_LIMIT then Except.error PyErr.parseError
      else if ¬ isPowerOfTwo p = true then Except.error PyErr.parseError else pure p) := by
  by_cases h1 : p = Generated.MAXIMUM_PAGE_SIZE_INDICATOR
  · have : (p : Int) = (Generated.MAXIMUM_PAGE_SIZE_INDICATOR : Int) := by omega
    rw [if_pos this, if_pos h1]; rfl
  · have : ¬ (p : Int) = (Generated.MAXIMUM_PAGE_SIZE_INDICATOR : Int) := by omega
    rw [if_neg this, if_neg h1]
    by_cases h2 : p < Generated.MINIMUM_PAGE_SIZE_LIMIT
    · have : (p : Int) < (Generated.MINIMUM_PAGE_SIZE_LIMIT : Int) := by omega
      rw [if_pos this, if_pos h2]; rfl
    · have : ¬ (p : Int) < (Generated.MINIMUM_PAGE_SIZE_LIMIT : Int) := by omega
      rw [if_neg this, if_neg h2]
      by_cases h3 : p > Generated.MAXIMUM_PAGE_SIZE_LIMIT
      · have : (p : Int) > (Generated.MAXIMUM_PAGE_SIZE_LIMIT : Int) := by omega
        rw [if_pos this, if_pos h3]; rfl
      · have : ¬ (p : Int) > (Generated.MAXIMUM_PAGE_SIZE_LIMIT : Int) := by omega
        rw [if_neg this, if_neg h3]
        have hp : 1 ≤ p := by
          simp only [Generated.MINIMUM_PAGE_SIZE_LIMIT] at h2; omega
        have e : (p : Int) - 1 = ((p - 1 : Nat) : Int) := by omega
        rw [e, pyAnd_nat]
        by_cases h4 : p &&& (p - 1) = 0
        · have g : ¬ (((p &&& (p - 1) : Nat) : Int) ≠ 0) := by omega
          have m : ¬ ¬ isPowerOfTwo p = true := by
            unfold isPowerOfTwo
            simp only [decide_eq_true_eq, Classical.not_not]
            exact ⟨by omega, h4⟩
          rw [if_neg g, if_neg m]; rfl
        · have g : (((p &&& (p - 1) : Nat) : Int) ≠ 0) := by omega
          have m : ¬ isPowerOfTwo p = true := by
            unfold isPowerOfTwo
            simp only [decide_eq_true_eq]
            intro hh; exact h4 hh.2
          rw [if_pos g, if_pos m]; rfl

theorem mem_map_cast (x : Nat) (L : List Nat) :
    ((x : Int) ∈ List.map (fun n : Nat => (n : Int)) L) ↔ L.contains x = true := by
  rw [List.contains_iff_mem, List.mem_map]
  constructor
  · rintro ⟨a, ha, e⟩
    have : a = x := by omega
    exact this ▸ ha
  · intro h; exact ⟨x, h, rfl⟩

/-- the schema-format / text-encoding check, generated form (one nested statement) and model form (two checks) -/
theorem schema_chain (sf te : Nat) :
    (if (sf : Int) = 0 ∧ (te : Int) = 0 then Except.ok ()
      else if ¬ (sf : Int) ∈ List.map (fun n : Nat => (n : Int)) Generated.VALID_SCHEMA_FORMATS
        then Except.error PyErr.parseError
      else if ¬ (te : Int) ∈ List.map (fun n : Nat => (n : Int)) Generated.DATABASE_TEXT_ENCODINGS
        then Except.error PyErr.parseError
      else Except.ok () : Py Unit) =
    (if ¬ (sf = 0 ∧ te = 0) ∧ ¬ Generated.VALID_SCHEMA_FORMATS.contains sf = true then Except.error PyErr.parseError
      else if ¬ (sf = 0 ∧ te = 0) ∧ ¬ Generated.DATABASE_TEXT_ENCODINGS.contains te = true
        then Except.error PyErr.parseError
      else Except.ok ()) := by
  simp only [mem_map_cast]
  by_cases h0 : sf = 0 ∧ te = 0
  · have : (sf : Int) = 0 ∧ (te : Int) = 0 := by omega
    rw [if_pos this]
    have n1 : ¬ (¬ (sf = 0 ∧ te = 0) ∧ ¬ Generated.VALID_SCHEMA_FORMATS.contains sf = true) := fun h => h.1 h0
    have n2 : ¬ (¬ (sf = 0 ∧ te = 0) ∧ ¬ Generated.DATABASE_TEXT_ENCODINGS.contains te = true) := fun h => h.1 h0
    rw [if_neg n1, if_neg n2]
  · have : ¬ ((sf : Int) = 0 ∧ (te : Int) = 0) := by omega
    rw [if_neg this]
    by_cases h1 : Generated.VALID_SCHEMA_FORMATS.contains sf = true
    · have n1 : ¬ (¬ (sf = 0 ∧ te = 0) ∧ ¬ Generated.VALID_SCHEMA_FORMATS.contains sf = true) := fun h => h.2 h1
      rw [if_neg (Classical.not_not.mpr h1), if_neg n1]
      by_cases h2 : Generated.DATABASE_TEXT_ENCODINGS.contains te = true
      · have n2 : ¬ (¬ (sf = 0 ∧ te = 0) ∧ ¬ Generated.DATABASE_TEXT_ENCODINGS.contains te = true) := fun h => h.2 h2
        rw [if_neg (Classical.not_not.mpr h2), if_neg n2]
      · rw [if_pos h2, if_pos ⟨h0, h2⟩]
    · rw [if_pos h1, if_pos ⟨h0, h1⟩]

/-- the reserved-for-expansion check on a 20-byte slice -/
theorem zeros_check (l : List Nat) (hl : l.length = 20) :
    (pyZerosHexMatch 40 l = true ↔ ¬ (l.any fun x => decide (x ≠ 0)) = true) ∧
      (pyZerosHexMatch 40 l = true → l = List.replicate 20 0) := by
  unfold pyZerosHexMatch
  have e : (l.length * 2 == 40) = true := by rw [hl]; rfl
  rw [e, Bool.true_and]
  constructor
  · simp only [List.all_eq_true, List.any_eq_true, beq_iff_eq, decide_eq_true_eq, not_exists, not_and, Classical.not_not]
  · intro h
    simp only [List.all_eq_true, beq_iff_eq] at h
    rw [← hl]
    exact List.eq_replicate_iff.mpr ⟨rfl, h⟩


def castDb (h : DbHeader) : PyHeader.DatabaseHeader :=
  { magic_header_string := Generated.MAGIC_HEADER_STRING, page_size := h.pageSize,
    file_format_write_version := h.writeVersion, file_format_read_version := h.readVersion,
    reserved_bytes_per_page := h.reservedBytes, maximum_embedded_payload_fraction := h.maxFraction,
    minimum_embedded_payload_fraction := h.minFraction, leaf_payload_fraction := h.leafFraction,
    file_change_counter := h.changeCounter, database_size_in_pages := h.sizeInPages,
    first_freelist_trunk_page_number := h.firstFreelistTrunk, number_of_freelist_pages := h.freelistPages,
    schema_cookie := h.schemaCookie, schema_format_number := h.schemaFormat,
    default_page_cache_size := h.defaultCacheSize, largest_root_b_tree_page_number := h.largestRoot,
    database_text_encoding := h.textEncoding, user_version := h.userVersion,
    incremental_vacuum_mode := h.incrementalVacuum, application_id := h.applicationId,
    reserved_for_expansion := List.replicate 20 0, version_valid_for_number := h.versionValidFor,
    sqlite_version_number := h.sqliteVersion, md5_hex_digest := h.raw }

def castDbR : Py DbHeader → Py PyHeader.DatabaseHeader
  | .ok h => .ok (castDb h)
  | .error e => .error e

theorem db_header_eq (b : Buf) :
    PyHeader.DatabaseHeader.init b = castDbR (parseDbHeader b) := by
  unfold PyHeader.DatabaseHeader.init parseDbHeader pyLenBuf
  by_cases hsz : b.size = 100
  · have c1 : ¬ ((b.size : Int) ≠ (Generated.SQLITE_DATABASE_HEADER_LENGTH : Int)) := by
      simp only [Generated.SQLITE_DATABASE_HEADER_LENGTH]; omega
    have c2 : ¬ (b.size ≠ Generated.SQLITE_DATABASE_HEADER_LENGTH) := by
      simp only [Generated.SQLITE_DATABASE_HEADER_LENGTH]; omega
    rw [if_neg c1, if_neg c2]
    have s0 : pySliceBuf b 0 16 = _ := slice_lit b 0 16 _ _ rfl rfl
    have s1 : pySliceBuf b 72 92 = _ := slice_lit b 72 92 _ _ rfl rfl
    have r16 : pyUnpackBE false 2 (pySliceBuf b 16 18) = _ := unpack_lit b 16 2 _ _ rfl rfl (by decide) (by omega)
    have o18 : pyOrdSlice b 18 19 = _ := ord_lit b 18 _ _ rfl rfl (by omega)
    have o19 : pyOrdSlice b 19 20 = _ := ord_lit b 19 _ _ rfl rfl (by omega)
    have o20 : pyOrdSlice b 20 21 = _ := ord_lit b 20 _ _ rfl rfl (by omega)
    have o21 : pyOrdSlice b 21 22 = _ := ord_lit b 21 _ _ rfl rfl (by omega)
    have o22 : pyOrdSlice b 22 23 = _ := ord_lit b 22 _ _ rfl rfl (by omega)
    have o23 : pyOrdSlice b 23 24 = _ := ord_lit b 23 _ _ rfl rfl (by omega)
    have r24 : pyUnpackBE false 4 (pySliceBuf b 24 28) = _ := unpack_lit b 24 4 _ _ rfl rfl (by decide) (by omega)
    have r28 : pyUnpackBE false 4 (pySliceBuf b 28 32) = _ := unpack_lit b 28 4 _ _ rfl rfl (by decide) (by omega)
    have r32 : pyUnpackBE false 4 (pySliceBuf b 32 36) = _ := unpack_lit b 32 4 _ _ rfl rfl (by decide) (by omega)
    have r36 : pyUnpackBE false 4 (pySliceBuf b 36 40) = _ := unpack_lit b 36 4 _ _ rfl rfl (by decide) (by omega)
    have r40 : pyUnpackBE false 4 (pySliceBuf b 40 44) = _ := unpack_lit b 40 4 _ _ rfl rfl (by decide) (by omega)
    have r44 : pyUnpackBE false 4 (pySliceBuf b 44 48) = _ := unpack_lit b 44 4 _ _ rfl rfl (by decide) (by omega)
    have r48 : pyUnpackBE false 4 (pySliceBuf b 48 52) = _ := unpack_lit b 48 4 _ _ rfl rfl (by decide) (by omega)
    have r52 : pyUnpackBE false 4 (pySliceBuf b 52 56) = _ := unpack_lit b 52 4 _ _ rfl rfl (by decide) (by omega)
    have r56 : pyUnpackBE false 4 (pySliceBuf b 56 60) = _ := unpack_lit b 56 4 _ _ rfl rfl (by decide) (by omega)
    have r60 : pyUnpackBE false 4 (pySliceBuf b 60 64) = _ := unpack_lit b 60 4 _ _ rfl rfl (by decide) (by omega)
    have r64 : pyUnpackBE false 4 (pySliceBuf b 64 68) = _ := unpack_lit b 64 4 _ _ rfl rfl (by decide) (by omega)
    have r68 : pyUnpackBE false 4 (pySliceBuf b 68 72) = _ := unpack_lit b 68 4 _ _ rfl rfl (by decide) (by omega)
    have r92 : pyUnpackBE false 4 (pySliceBuf b 92 96) = _ := unpack_lit b 92 4 _ _ rfl rfl (by decide) (by omega)
    have r96 : pyUnpackBE false 4 (pySliceBuf b 96 100) = _ := unpack_lit b 96 4 _ _ rfl rfl (by decide) (by omega)
    have ordAt_ok : ∀ i, i < 100 → ordAt b i = .ok (b.rd i) := by
      intro i hi; unfold ordAt; rw [if_pos (by omega)]
    rw [s0, s1, r16, o18, o19, o20, o21, o22, o23, r24, r28, r32, r36, r40, r44, r48, r52, r56, r60, r64, r68, r92, r96,
      u16_ok b 16 (by omega), ordAt_ok 18 (by omega), ordAt_ok 19 (by omega), ordAt_ok 20 (by omega),
      ordAt_ok 21 (by omega), ordAt_ok 22 (by omega), ordAt_ok 23 (by omega),
      u32_ok b 24 (by omega), u32_ok b 28 (by omega), u32_ok b 32 (by omega), u32_ok b 36 (by omega),
      u32_ok b 40 (by omega), u32_ok b 44 (by omega), u32_ok b 48 (by omega), u32_ok b 52 (by omega),
      u32_ok b 56 (by omega), u32_ok b 60 (by omega), u32_ok b 64 (by omega), u32_ok b 68 (by omega),
      u32_ok b 92 (by omega), u32_ok b 96 (by omega)]
    simp only [bind, Except.bind]
    have hlen : (b.slice 72 92).toList.length = 20 := by rw [slice_toList_length]; omega
    have hmd5 : pyMd5 b.toList = b.toList := rfl
    rw [hmd5]
    generalize b.toList = raw
    generalize (b.slice 72 92).toList = rz at hlen ⊢
    generalize (b.slice 0 16).toList = mg
    generalize b.beN 16 2 = ps0
    generalize b.rd 18 = wv
    generalize b.rd 19 = rv
    generalize b.rd 20 = rb
    generalize b.rd 21 = mx
    generalize b.rd 22 = mn
    generalize b.rd 23 = lf
    generalize b.beN 24 4 = cc
    generalize b.beN 28 4 = sz
    generalize b.beN 32 4 = ft
    generalize b.beN 36 4 = fp
    generalize b.beN 40 4 = sc
    generalize b.beN 44 4 = sf
    generalize b.beN 48 4 = dc
    generalize b.beN 52 4 = lr
    generalize b.beN 56 4 = te
    generalize b.beN 60 4 = uv
    generalize b.beN 64 4 = iv
    generalize b.beN 68 4 = ai
    generalize b.beN 92 4 = vv
    generalize b.beN 96 4 = sv
    clear s0 s1 r16 o18 o19 o20 o21 o22 o23 r24 r28 r32 r36 r40 r44 r48 r52 r56 r60 r64 r68 r92 r96 ordAt_ok
    -- magic
    by_cases hm : mg ≠ Generated.MAGIC_HEADER_STRING
    · rw [if_pos hm, if_pos hm]; rfl
    rw [if_neg hm, if_neg hm]
    have hmg : mg = Generated.MAGIC_HEADER_STRING := Classical.not_not.mp hm
    -- page size
    rw [page_size_chain, schema_chain]
    cases (if ps0 = Generated.MAXIMUM_PAGE_SIZE_INDICATOR then pure Generated.MAXIMUM_PAGE_SIZE
      else if ps0 < Generated.MINIMUM_PAGE_SIZE_LIMIT then Except.error PyErr.parseError
      else if ps0 > Generated.MAXIMUM_PAGE_SIZE_LIMIT then Except.error PyErr.parseError
      else if ¬ isPowerOfTwo ps0 = true then Except.error PyErr.parseError else pure ps0 : Py Nat) with
    | error e => rfl
    | ok ps =>
      simp only [castN]
      -- write / read version
      by_cases h18 : wv ≠ Generated.ROLLBACK_JOURNALING_MODE ∧ wv ≠ Generated.WAL_JOURNALING_MODE
      · have g : ¬ ((wv : Int) = (Generated.ROLLBACK_JOURNALING_MODE : Int) ∨
            (wv : Int) = (Generated.WAL_JOURNALING_MODE : Int)) := by omega
        rw [if_pos g, if_pos h18]; rfl
      have g18 : ¬ ¬ ((wv : Int) = (Generated.ROLLBACK_JOURNALING_MODE : Int) ∨
          (wv : Int) = (Generated.WAL_JOURNALING_MODE : Int)) := by omega
      rw [if_neg g18, if_neg h18]
      by_cases h19 : rv ≠ Generated.ROLLBACK_JOURNALING_MODE ∧ rv ≠ Generated.WAL_JOURNALING_MODE
      · have g : ¬ ((rv : Int) = (Generated.ROLLBACK_JOURNALING_MODE : Int) ∨
            (rv : Int) = (Generated.WAL_JOURNALING_MODE : Int)) := by omega
        rw [if_pos g, if_pos h19]; rfl
      have g19 : ¬ ¬ ((rv : Int) = (Generated.ROLLBACK_JOURNALING_MODE : Int) ∨
          (rv : Int) = (Generated.WAL_JOURNALING_MODE : Int)) := by omega
      rw [if_neg g19, if_neg h19]
      -- reserved bytes, payload fractions
      by_cases h20 : rb ≠ 0
      · have g : (rb : Int) ≠ 0 := by omega
        rw [if_pos g, if_pos h20]; rfl
      have g20 : ¬ (rb : Int) ≠ 0 := by omega
      rw [if_neg g20, if_neg h20]
      by_cases h21 : mx ≠ Generated.MAXIMUM_EMBEDDED_PAYLOAD_FRACTION
      · have g : (mx : Int) ≠ (Generated.MAXIMUM_EMBEDDED_PAYLOAD_FRACTION : Int) := by omega
        rw [if_pos g, if_pos h21]; rfl
      have g21 : ¬ (mx : Int) ≠ (Generated.MAXIMUM_EMBEDDED_PAYLOAD_FRACTION : Int) := by omega
      rw [if_neg g21, if_neg h21]
      by_cases h22 : mn ≠ Generated.MINIMUM_EMBEDDED_PAYLOAD_FRACTION
      · have g : (mn : Int) ≠ (Generated.MINIMUM_EMBEDDED_PAYLOAD_FRACTION : Int) := by omega
        rw [if_pos g, if_pos h22]; rfl
      have g22 : ¬ (mn : Int) ≠ (Generated.MINIMUM_EMBEDDED_PAYLOAD_FRACTION : Int) := by omega
      rw [if_neg g22, if_neg h22]
      by_cases h23 : lf ≠ Generated.LEAF_PAYLOAD_FRACTION
      · have g : (lf : Int) ≠ (Generated.LEAF_PAYLOAD_FRACTION : Int) := by omega
        rw [if_pos g, if_pos h23]; rfl
      have g23 : ¬ (lf : Int) ≠ (Generated.LEAF_PAYLOAD_FRACTION : Int) := by omega
      rw [if_neg g23, if_neg h23]
      -- schema format / text encoding
      by_cases hs1 : ¬ (sf = 0 ∧ te = 0) ∧ ¬ Generated.VALID_SCHEMA_FORMATS.contains sf = true
      · rw [if_pos hs1, if_pos hs1]; rfl
      rw [if_neg hs1, if_neg hs1]
      by_cases hs2 : ¬ (sf = 0 ∧ te = 0) ∧ ¬ Generated.DATABASE_TEXT_ENCODINGS.contains te = true
      · rw [if_pos hs2, if_pos hs2]; rfl
      rw [if_neg hs2, if_neg hs2]
      simp only []
      -- incremental vacuum needs a largest root
      by_cases hv : lr = 0 ∧ iv ≠ 0
      · have g : ¬ (lr : Int) ≠ 0 ∧ (iv : Int) ≠ 0 := by omega
        rw [if_pos g, if_pos hv]; rfl
      have gv : ¬ (¬ (lr : Int) ≠ 0 ∧ (iv : Int) ≠ 0) := by omega
      rw [if_neg gv, if_neg hv]
      -- reserved for expansion
      obtain ⟨hz1, hz2⟩ := zeros_check rz hlen
      by_cases hz : (rz.any fun x => decide (x ≠ 0)) = true
      · have g : ¬ pyZerosHexMatch 40 rz = true := fun h => (hz1.mp h) hz
        rw [if_pos g, if_pos hz]; rfl
      have gz : ¬ ¬ pyZerosHexMatch 40 rz = true := fun h => h (hz1.mpr hz)
      rw [if_neg gz, if_neg hz]
      have hrz : rz = List.replicate 20 0 := hz2 (hz1.mpr hz)
      subst hmg hrz
      rfl
  · have c1 : (b.size : Int) ≠ (Generated.SQLITE_DATABASE_HEADER_LENGTH : Int) := by
      simp only [Generated.SQLITE_DATABASE_HEADER_LENGTH]; omega
    have c2 : b.size ≠ Generated.SQLITE_DATABASE_HEADER_LENGTH := by
      simp only [Generated.SQLITE_DATABASE_HEADER_LENGTH]; omega
    rw [if_pos c1, if_pos c2]
    rfl

/-! ### WriteAheadLogFrameHeader -/

def castFrame (h : FrameHeader) (raw : List Nat) : PyHeader.WriteAheadLogFrameHeader :=
  { page_number := h.pageNumber, page_size_after_commit := h.sizeAfterCommit, salt_1 := h.salt1, salt_2 := h.salt2,
    checksum_1 := h.checksum1, checksum_2 := h.checksum2, md5_hex_digest := raw }

def castFrameR (b : Buf) : Py FrameHeader → Py PyHeader.WriteAheadLogFrameHeader
  | .ok h => .ok (castFrame h b.toList)
  | .error e => .error e

theorem frame_header_eq (b : Buf) :
    PyHeader.WriteAheadLogFrameHeader.init b = castFrameR b (parseFrameHeader b) := by
  unfold PyHeader.WriteAheadLogFrameHeader.init parseFrameHeader pyLenBuf
  by_cases hsz : b.size = 24
  · have c1 : ¬ ((b.size : Int) ≠ (Generated.WAL_FRAME_HEADER_LENGTH : Int)) := by
      simp only [Generated.WAL_FRAME_HEADER_LENGTH]; omega
    have c2 : ¬ (b.size ≠ Generated.WAL_FRAME_HEADER_LENGTH) := by
      simp only [Generated.WAL_FRAME_HEADER_LENGTH]; omega
    rw [if_neg c1, if_neg c2]
    have r0 : pyUnpackBE false 4 (pySliceBuf b 0 4) = _ := unpack_lit b 0 4 _ _ rfl rfl (by decide) (by omega)
    have r1 : pyUnpackBE false 4 (pySliceBuf b 4 8) = _ := unpack_lit b 4 4 _ _ rfl rfl (by decide) (by omega)
    have r2 : pyUnpackBE false 4 (pySliceBuf b 8 12) = _ := unpack_lit b 8 4 _ _ rfl rfl (by decide) (by omega)
    have r3 : pyUnpackBE false 4 (pySliceBuf b 12 16) = _ := unpack_lit b 12 4 _ _ rfl rfl (by decide) (by omega)
    have r4 : pyUnpackBE false 4 (pySliceBuf b 16 20) = _ := unpack_lit b 16 4 _ _ rfl rfl (by decide) (by omega)
    have r5 : pyUnpackBE false 4 (pySliceBuf b 20 24) = _ := unpack_lit b 20 4 _ _ rfl rfl (by decide) (by omega)
    rw [r0, r1, r2, r3, r4, r5, u32_ok b 0 (by omega), u32_ok b 4 (by omega), u32_ok b 8 (by omega),
      u32_ok b 12 (by omega), u32_ok b 16 (by omega), u32_ok b 20 (by omega)]
    rfl
  · have c1 : (b.size : Int) ≠ (Generated.WAL_FRAME_HEADER_LENGTH : Int) := by
      simp only [Generated.WAL_FRAME_HEADER_LENGTH]; omega
    have c2 : b.size ≠ Generated.WAL_FRAME_HEADER_LENGTH := by
      simp only [Generated.WAL_FRAME_HEADER_LENGTH]; omega
    rw [if_pos c1, if_pos c2]
    rfl

/-! ### WriteAheadLogHeader -/

def castWal (h : WalHeader) (raw : List Nat) : PyHeader.WriteAheadLogHeader :=
  { magic_number := h.magic, file_format_version := h.formatVersion, page_size := h.pageSize,
    checkpoint_sequence_number := h.checkpointSeq, salt_1 := h.salt1, salt_2 := h.salt2,
    checksum_1 := h.checksum1, checksum_2 := h.checksum2, md5_hex_digest := raw }

def castWalR (b : Buf) : Py WalHeader → Py PyHeader.WriteAheadLogHeader
  | .ok h => .ok (castWal h b.toList)
  | .error e => .error e

theorem wal_header_eq (b : Buf) :
    PyHeader.WriteAheadLogHeader.init b = castWalR b (parseWalHeader b) := by
  unfold PyHeader.WriteAheadLogHeader.init parseWalHeader pyLenBuf
  by_cases hsz : b.size = 32
  · have c1 : ¬ ((b.size : Int) ≠ (Generated.WAL_HEADER_LENGTH : Int)) := by
      simp only [Generated.WAL_HEADER_LENGTH]; omega
    have c2 : ¬ (b.size ≠ Generated.WAL_HEADER_LENGTH) := by
      simp only [Generated.WAL_HEADER_LENGTH]; omega
    rw [if_neg c1, if_neg c2]
    have r0 : pyUnpackBE false 4 (pySliceBuf b 0 4) = _ := unpack_lit b 0 4 _ _ rfl rfl (by decide) (by omega)
    have r1 : pyUnpackBE false 4 (pySliceBuf b 4 8) = _ := unpack_lit b 4 4 _ _ rfl rfl (by decide) (by omega)
    have r2 : pyUnpackBE false 4 (pySliceBuf b 8 12) = _ := unpack_lit b 8 4 _ _ rfl rfl (by decide) (by omega)
    have r3 : pyUnpackBE false 4 (pySliceBuf b 12 16) = _ := unpack_lit b 12 4 _ _ rfl rfl (by decide) (by omega)
    have r4 : pyUnpackBE false 4 (pySliceBuf b 16 20) = _ := unpack_lit b 16 4 _ _ rfl rfl (by decide) (by omega)
    have r5 : pyUnpackBE false 4 (pySliceBuf b 20 24) = _ := unpack_lit b 20 4 _ _ rfl rfl (by decide) (by omega)
    have r6 : pyUnpackBE false 4 (pySliceBuf b 24 28) = _ := unpack_lit b 24 4 _ _ rfl rfl (by decide) (by omega)
    have r7 : pyUnpackBE false 4 (pySliceBuf b 28 32) = _ := unpack_lit b 28 4 _ _ rfl rfl (by decide) (by omega)
    rw [r0, r1, r2, r3, r4, r5, r6, r7, u32_ok b 0 (by omega), u32_ok b 4 (by omega), u32_ok b 8 (by omega),
      u32_ok b 12 (by omega), u32_ok b 16 (by omega), u32_ok b 20 (by omega), u32_ok b 24 (by omega),
      u32_ok b 28 (by omega)]
    simp only [bind, Except.bind]
    generalize b.beN 0 4 = magic
    generalize b.beN 4 4 = fv
    by_cases hm : magic ≠ Generated.WAL_MAGIC_NUMBER_BIG_ENDIAN ∧ magic ≠ Generated.WAL_MAGIC_NUMBER_LITTLE_ENDIAN
    · have : ¬ ((magic : Int) = (Generated.WAL_MAGIC_NUMBER_BIG_ENDIAN : Int) ∨
          (magic : Int) = (Generated.WAL_MAGIC_NUMBER_LITTLE_ENDIAN : Int)) := by omega
      rw [if_pos this, if_pos hm]; rfl
    · have : ¬ ¬ ((magic : Int) = (Generated.WAL_MAGIC_NUMBER_BIG_ENDIAN : Int) ∨
          (magic : Int) = (Generated.WAL_MAGIC_NUMBER_LITTLE_ENDIAN : Int)) := by omega
      rw [if_neg this, if_neg hm]
      by_cases hv : fv ≠ Generated.WAL_FILE_FORMAT_VERSION
      · have : (fv : Int) ≠ (Generated.WAL_FILE_FORMAT_VERSION : Int) := by omega
        rw [if_pos this, if_pos hv]; rfl
      · have : ¬ (fv : Int) ≠ (Generated.WAL_FILE_FORMAT_VERSION : Int) := by omega
        rw [if_neg this, if_neg hv]; rfl
  · have c1 : (b.size : Int) ≠ (Generated.WAL_HEADER_LENGTH : Int) := by
      simp only [Generated.WAL_HEADER_LENGTH]; omega
    have c2 : b.size ≠ Generated.WAL_HEADER_LENGTH := by
      simp only [Generated.WAL_HEADER_LENGTH]; omega
    rw [if_pos c1, if_pos c2]
    rfl

/-! ### RollbackJournalHeader -/

def castJournal (h : JournalHeader) (raw : List Nat) : PyHeader.RollbackJournalHeader :=
  { header_string := h.headerString, page_count := h.pageCount, random_nonce_for_checksum := h.nonce,
    initial_size_of_database_in_pages := h.initialSize, disk_sector_size := h.sectorSize,
    size_of_pages_in_journal := h.pageSize, page_size := h.pageSize, md5_hex_digest := raw }

def castJournalR (b : Buf) : Py JournalHeader → Py PyHeader.RollbackJournalHeader
  | .ok h => .ok (castJournal h b.toList)
  | .error e => .error e

theorem journal_header_eq (b : Buf) :
    PyHeader.RollbackJournalHeader.init b = castJournalR b (parseJournalHeader b) := by
  unfold PyHeader.RollbackJournalHeader.init parseJournalHeader pyLenBuf
  by_cases hsz : b.size = 28
  · have c1 : ¬ ((b.size : Int) ≠ (Generated.ROLLBACK_JOURNAL_HEADER_LENGTH : Int)) := by
      simp only [Generated.ROLLBACK_JOURNAL_HEADER_LENGTH]; omega
    have c2 : ¬ (b.size ≠ Generated.ROLLBACK_JOURNAL_HEADER_LENGTH) := by
      simp only [Generated.ROLLBACK_JOURNAL_HEADER_LENGTH]; omega
    rw [if_neg c1, if_neg c2]
    have s0 : pySliceBuf b 0 8 = _ := slice_lit b 0 8 _ _ rfl rfl
    have s1 : pySliceBuf b 8 12 = _ := slice_lit b 8 12 _ _ rfl rfl
    have r2 : pyUnpackBE false 4 (pySliceBuf b 8 12) = _ := unpack_lit b 8 4 _ _ rfl rfl (by decide) (by omega)
    have r3 : pyUnpackBE false 4 (pySliceBuf b 12 16) = _ := unpack_lit b 12 4 _ _ rfl rfl (by decide) (by omega)
    have r4 : pyUnpackBE false 4 (pySliceBuf b 16 20) = _ := unpack_lit b 16 4 _ _ rfl rfl (by decide) (by omega)
    have r5 : pyUnpackBE false 4 (pySliceBuf b 20 24) = _ := unpack_lit b 20 4 _ _ rfl rfl (by decide) (by omega)
    have r6 : pyUnpackBE false 4 (pySliceBuf b 24 28) = _ := unpack_lit b 24 4 _ _ rfl rfl (by decide) (by omega)
    rw [r2, r3, r4, r5, r6, s0, s1, u32_ok b 8 (by omega), u32_ok b 12 (by omega), u32_ok b 16 (by omega),
      u32_ok b 20 (by omega), u32_ok b 24 (by omega)]
    simp only [bind, Except.bind]
    by_cases ha : (b.slice 8 12).toList = Generated.ROLLBACK_JOURNAL_HEADER_ALL_CONTENT
    · rw [if_pos ha]; rfl
    · rw [if_neg ha]; rfl
  · have c1 : (b.size : Int) ≠ (Generated.ROLLBACK_JOURNAL_HEADER_LENGTH : Int) := by
      simp only [Generated.ROLLBACK_JOURNAL_HEADER_LENGTH]; omega
    have c2 : b.size ≠ Generated.ROLLBACK_JOURNAL_HEADER_LENGTH := by
      simp only [Generated.ROLLBACK_JOURNAL_HEADER_LENGTH]; omega
    rw [if_pos c1, if_pos c2]
    rfl

end SqliteDissect.Proofs.GenHeader
