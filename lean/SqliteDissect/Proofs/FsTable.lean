import SqliteDissect.Generated.FsEffects
import SqliteDissect.Generated.Options

/-!
Decision procedures over the generated table of file-system call sites (`Generated.fsEffects`) and the
generated option table; every lemma here is closed by `decide` over the *whole* table, so a regenerated
table with a new `open(evidence, "r+b")` or `sqlite3.connect(evidence)` fails on the next build.
-/
namespace SqliteDissect.Proofs.FsTable
open SqliteDissect.Generated

def readOnlyMode (m : FsMode) : Bool := m == .read || m == .stat
def mutatingMode (m : FsMode) : Bool := m == .write || m == .create || m == .delete

/-- the table-level checks, as Booleans -/
def evidenceReadOnly (t : List FsEffect) : Bool :=
  t.all fun e => !e.prov.contains .EVIDENCE || readOnlyMode e.mode

def underOutputOrLog (e : FsEffect) : Bool := e.prov.all (fun p => p == .OUTPUT || p == .LOG)

/-- a spool file of openpyxl's write-only worksheets in the system temporary directory -/
def xlsxTempFile (e : FsEffect) : Bool :=
  e.api == .tempFile && e.prov == [.TEMP] && e.file == "sqlite_dissect/export/xlsx_export.py"

def writesUnderOutputStrict (t : List FsEffect) : Bool :=
  t.all fun e => !mutatingMode e.mode || underOutputOrLog e

def writesUnderOutput (t : List FsEffect) : Bool :=
  t.all fun e => !mutatingMode e.mode || underOutputOrLog e || xlsxTempFile e

def tempOnlyXlsx (t : List FsEffect) : Bool :=
  t.all fun e => !(e.prov.contains .TEMP || e.api == .tempFile) || xlsxTempFile e

def noSqliteConnectOnEvidence (t : List FsEffect) : Bool :=
  t.all fun e => !(e.api == .sqliteConnect) || e.prov.all (fun p => p == .OUTPUT)

def evidenceOpenModes (t : List FsEffect) : Bool :=
  t.all fun e => !(e.api == .open && e.prov.contains .EVIDENCE) || e.openModes.all (fun m => m == "r" || m == "rb")

def fullyClassified (t : List FsEffect) : Bool :=
  t.all fun e => !e.prov.contains .OTHER && !(e.api == .other) && !e.prov.isEmpty && !e.openModes.contains "?"

theorem evidenceReadOnly_table : evidenceReadOnly fsEffects = true := by decide
theorem writesUnderOutput_table : writesUnderOutput fsEffects = true := by decide
theorem writesUnderOutputStrict_table : writesUnderOutputStrict fsEffects = false := by decide
theorem tempOnlyXlsx_table : tempOnlyXlsx fsEffects = true := by decide
theorem noSqliteConnectOnEvidence_table : noSqliteConnectOnEvidence fsEffects = true := by decide
theorem evidenceOpenModes_table : evidenceOpenModes fsEffects = true := by decide
theorem fullyClassified_table : fullyClassified fsEffects = true := by decide

theorem evidence_read_only (e : FsEffect) (he : e ∈ fsEffects) (hp : Prov.EVIDENCE ∈ e.prov) :
    e.mode = .read ∨ e.mode = .stat := by
  have h := evidenceReadOnly_table
  unfold evidenceReadOnly at h
  rw [List.all_eq_true] at h
  have := h e he
  simp [readOnlyMode, hp] at this
  exact this

theorem writes_under_output (e : FsEffect) (he : e ∈ fsEffects)
    (hm : e.mode = .write ∨ e.mode = .create ∨ e.mode = .delete) (hx : xlsxTempFile e = false)
    (p : Prov) (hp : p ∈ e.prov) : p = .OUTPUT ∨ p = .LOG := by
  have h := writesUnderOutput_table
  unfold writesUnderOutput at h
  rw [List.all_eq_true] at h
  have := h e he
  have hm' : mutatingMode e.mode = true := by
    rcases hm with h1 | h1 | h1 <;> simp [mutatingMode, h1]
  simp [hm', hx, underOutputOrLog] at this
  exact this p hp

theorem writes_under_output_strict_fails :
    ∃ e ∈ fsEffects, (e.mode = .write ∨ e.mode = .create ∨ e.mode = .delete) ∧ Prov.TEMP ∈ e.prov := by
  have h : (fsEffects.any fun e => mutatingMode e.mode && e.prov.contains .TEMP) = true := by decide
  rw [List.any_eq_true] at h
  obtain ⟨e, he, hh⟩ := h
  rw [Bool.and_eq_true] at hh
  refine ⟨e, he, ?_, ?_⟩
  · have h1 := hh.1
    simp only [mutatingMode, Bool.or_eq_true, beq_iff_eq] at h1
    rcases h1 with (h1 | h1) | h1
    · exact Or.inl h1
    · exact Or.inr (Or.inl h1)
    · exact Or.inr (Or.inr h1)
  · simpa using hh.2

theorem temp_only_xlsx (e : FsEffect) (he : e ∈ fsEffects) (ht : Prov.TEMP ∈ e.prov ∨ e.api = .tempFile) :
    xlsxTempFile e = true := by
  have h := tempOnlyXlsx_table
  unfold tempOnlyXlsx at h
  rw [List.all_eq_true] at h
  have := h e he
  rcases ht with ht | ht <;> simp [ht] at this <;> exact this

theorem no_sqlite_connect_on_evidence (e : FsEffect) (he : e ∈ fsEffects) (ha : e.api = .sqliteConnect) :
    Prov.EVIDENCE ∉ e.prov ∧ ∀ p ∈ e.prov, p = .OUTPUT := by
  have h := noSqliteConnectOnEvidence_table
  unfold noSqliteConnectOnEvidence at h
  rw [List.all_eq_true] at h
  have := h e he
  simp [ha] at this
  refine ⟨?_, this⟩
  intro hc
  have := this _ hc
  cases this

theorem evidence_opened_rb_only (e : FsEffect) (he : e ∈ fsEffects) (ha : e.api = .open)
    (hp : Prov.EVIDENCE ∈ e.prov) (m : String) (hm : m ∈ e.openModes) : m = "r" ∨ m = "rb" := by
  have h := evidenceOpenModes_table
  unfold evidenceOpenModes at h
  rw [List.all_eq_true] at h
  have := h e he
  simp [ha, hp] at this
  exact this m hm

theorem every_site_classified (e : FsEffect) (he : e ∈ fsEffects) :
    Prov.OTHER ∉ e.prov ∧ e.api ≠ .other ∧ e.prov ≠ [] := by
  have h := fullyClassified_table
  unfold fullyClassified at h
  rw [List.all_eq_true] at h
  have := h e he
  simp at this
  exact ⟨this.1.1.1, this.1.1.2, this.1.2⟩

/-! ### the option table has the shape `Model.Cli` assumes -/

def optByDest (d : String) : Option CliOption := cliOptions.find? (fun o => o.dest == d)

theorem option_table_as_modelled :
    cliMutexGroups = [["no_journal", "rollback_journal", "wal"], ["exempted_tables", "tables"], ["log_level"]]
    ∧ (optByDest "export").map (fun o => (o.nargs, o.choices, o.default)) =
        some ("*", ["text", "csv", "sqlite", "xlsx", "case"], "list:text")
    ∧ (optByDest "file_prefix").map (·.default) = some "str:"
    ∧ (optByDest "directory").map (·.default) = some "none"
    ∧ (optByDest "log_file").map (·.default) = some "none"
    ∧ (optByDest "log_level").map (·.default) = some "str:off"
    ∧ (optByDest "carve").map (fun o => (o.action, o.default)) = some ("store_true", "bool:false")
    ∧ (optByDest "carve_freelists").map (fun o => (o.action, o.default)) = some ("store_true", "bool:false")
    ∧ (optByDest "no_journal").map (fun o => (o.action, o.default)) = some ("store_true", "bool:false")
    ∧ (optByDest "signatures").map (fun o => (o.action, o.default)) = some ("store_true", "bool:false")
    ∧ (optByDest "wal").map (·.default) = some "none"
    ∧ (optByDest "rollback_journal").map (·.default) = some "none"
    ∧ (optByDest "tables").map (·.default) = some "none"
    ∧ (optByDest "exempted_tables").map (·.default) = some "none"
    ∧ (optByDest "sqlite_path").map (fun o => (o.positional, o.required)) = some (true, true)
    ∧ (cliOptions.filter (·.isConfigFile)).map (·.dest) = ["config"]
    ∧ cliOptions.length = 21 := by decide

end SqliteDissect.Proofs.FsTable
