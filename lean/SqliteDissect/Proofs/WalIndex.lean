/-
Proofs about Model/WalIndex.lean: the WAL-index header parser (normal form, fields at offsets,
acceptance rule, error classes) and the scan (read bound, fuel adequacy, totality, result
specification).
-/
import SqliteDissect.Model.WalIndex
import SqliteDissect.Spec.WalIndexFmt
import SqliteDissect.Proofs.Header

namespace SqliteDissect.Proofs.WalIndex
open SqliteDissect SqliteDissect.Model
open SqliteDissect.Proofs.Header (ok_bind error_bind pure_eq size_ofList rd_ofList beN_ofList ordAt_eq u32_eq)

/-! ### slices and little-endian reads -/

theorem slice_size (b : Buf) (lo hi : Nat) (h1 : lo ≤ hi) (h2 : hi ≤ b.size) :
    (b.slice lo hi).size = hi - lo := by
  simp only [Buf.slice]
  omega

theorem slice_rd (b : Buf) (lo hi i : Nat) (h : lo ≤ b.size) : (b.slice lo hi).rd i = b.rd (lo + i) := by
  simp only [Buf.slice]
  rw [Nat.min_eq_left h]

theorem leN_slice (b : Buf) (lo hi : Nat) (h : lo ≤ b.size) (n : Nat) :
    ∀ off, (b.slice lo hi).leN off n = b.leN (lo + off) n := by
  induction n with
  | zero => intro off; rfl
  | succ n ih =>
    intro off
    simp only [Buf.leN, ih, slice_rd b lo hi off h]
    rfl

theorem beN_slice (b : Buf) (lo hi : Nat) (h : lo ≤ b.size) (off n : Nat) :
    (b.slice lo hi).beN off n = b.beN (lo + off) n := by
  induction n with
  | zero => rfl
  | succ n ih =>
    simp only [Buf.beN, ih, slice_rd b lo hi (off + n) h, Nat.add_assoc]

theorem leN_ofList (bs : List Nat) (n : Nat) : ∀ off, (Buf.ofList bs).leN off n = Spec.le bs off n := by
  induction n with
  | zero => intro off; rfl
  | succ n ih => intro off; simp only [Buf.leN, Spec.le, ih, rd_ofList]

theorem u32le_eq (b : Buf) (off : Nat) (h : off + 4 ≤ b.size) : b.u32le off = .ok (b.leN off 4) := by
  simp only [Buf.u32le, h, if_true]

theorem u16le_eq (b : Buf) (off : Nat) (h : off + 2 ≤ b.size) : b.u16le off = .ok (b.leN off 2) := by
  simp only [Buf.u16le, h, if_true]

/-- four little-endian bytes, written out -/
theorem le4 (bs : List Nat) (off : Nat) :
    Spec.le bs off 4 = bs.getD off 0 + 256 * bs.getD (off + 1) 0 + 65536 * bs.getD (off + 2) 0
      + 16777216 * bs.getD (off + 3) 0 := by
  simp only [Spec.le, Nat.add_assoc, Nat.reduceAdd]
  omega

theorem le2 (bs : List Nat) (off : Nat) :
    Spec.le bs off 2 = bs.getD off 0 + 256 * bs.getD (off + 1) 0 := by
  simp only [Spec.le]
  omega

/-! ### the sub-header -/

/-- the sub-header whose bytes start at `base` of `b` -/
def subOf (b : Buf) (base idx : Nat) : WalIndexSubHeader :=
  { index := idx, bigEndian := false, fileFormatVersion := b.leN base 4, unusedPadding := b.leN (base + 4) 4,
    changeCounter := b.leN (base + 8) 4, initialized := b.rd (base + 12), checksumsBigEndian := b.rd (base + 13),
    pageSize := b.leN (base + 14) 2, lastValidFrame := b.leN (base + 16) 4, dbSizeInPages := b.leN (base + 20) 4,
    frameChecksum1 := b.leN (base + 24) 4, frameChecksum2 := b.leN (base + 28) 4, salt1 := b.leN (base + 32) 4,
    salt2 := b.leN (base + 36) 4, checksum1 := b.leN (base + 40) 4, checksum2 := b.leN (base + 44) 4 }

/-- outcome of parsing the copy at `base` -/
def subOutcome (b : Buf) (base idx : Nat) : Py WalIndexSubHeader :=
  if b.leN base 4 = 3007000 then .ok (subOf b base idx)
  else if b.beN base 4 = 3007000 then .error .notImplemented
  else .error .parseError

theorem sub_eq (b : Buf) (base idx : Nat) (hidx : idx ≤ 2) (hb : base + 48 ≤ b.size) :
    parseWalIndexSubHeader idx (b.slice base (base + 48)) = subOutcome b base idx := by
  have hsz : (b.slice base (base + 48)).size = 48 := by
    rw [slice_size b base (base + 48) (by omega) hb]; omega
  have hlo : base ≤ b.size := by omega
  unfold parseWalIndexSubHeader subOutcome
  rw [u32le_eq _ 0 (by omega), u32le_eq _ 4 (by omega), u32le_eq _ 8 (by omega), ordAt_eq _ 12 (by omega),
    ordAt_eq _ 13 (by omega), u16le_eq _ 14 (by omega), u32le_eq _ 16 (by omega), u32le_eq _ 20 (by omega),
    u32le_eq _ 24 (by omega), u32le_eq _ 28 (by omega), u32le_eq _ 32 (by omega), u32le_eq _ 36 (by omega),
    u32le_eq _ 40 (by omega), u32le_eq _ 44 (by omega), u32_eq _ 0 (by omega)]
  simp only [leN_slice b base (base + 48) hlo, beN_slice b base (base + 48) hlo,
    slice_rd b base (base + 48) _ hlo, hsz, Nat.add_zero]
  by_cases h1 : b.leN base 4 = 3007000
  · simp [h1, ok_bind, pure_eq, subOf, Nat.not_lt.mpr hidx]
  · by_cases h2 : b.beN base 4 = 3007000
    · simp [h1, h2, ok_bind, Nat.not_lt.mpr hidx]
    · simp [h1, h2, ok_bind, Nat.not_lt.mpr hidx]

/-! ### checkpoint info and the whole header -/

def ckOf (b : Buf) (base : Nat) (be : Bool) : WalIndexCheckpointInfo :=
  { bigEndian := be, backfilled := b.leN base 4,
    readerMarks := [b.leN (base + 4) 4, b.leN (base + 8) 4, b.leN (base + 12) 4, b.leN (base + 16) 4,
      b.leN (base + 20) 4] }

theorem ck_eq (b : Buf) (base : Nat) (be : Bool) (hb : base + 24 ≤ b.size) :
    parseWalIndexCheckpointInfo (b.slice base (base + 24)) be = .ok (ckOf b base be) := by
  have hsz : (b.slice base (base + 24)).size = 24 := by
    rw [slice_size b base (base + 24) (by omega) hb]; omega
  have hlo : base ≤ b.size := by omega
  unfold parseWalIndexCheckpointInfo
  simp only [Generated.WAL_INDEX_READER_MARK_LENGTH,
    Generated.WAL_INDEX_NUMBER_OF_FRAMES_BACKFILLED_IN_DATABASE_LENGTH, Nat.reduceMul, Nat.reduceAdd]
  rw [u32le_eq _ 0 (by omega), u32le_eq _ 4 (by omega), u32le_eq _ 8 (by omega), u32le_eq _ 12 (by omega),
    u32le_eq _ 16 (by omega), u32le_eq _ 20 (by omega)]
  simp [leN_slice b base (base + 24) hlo, hsz, ok_bind, pure_eq, ckOf]

/-- the header object when both copies pass -/
def hdrOf (b : Buf) : WalIndexHeader :=
  { subHeaders := [subOf b 0 0, subOf b 48 1], pageSize := b.leN 14 2, bigEndian := false,
    checkpoint := ckOf b 96 false, lockReserved := (b.slice 120 136).toList, raw := b.toList }

/-- the parser with all reads resolved -/
def hdrOutcome (b : Buf) : Py WalIndexHeader :=
  if b.size ≠ 136 then .error .valueError
  else if b.leN 0 4 ≠ 3007000 then
    (if b.beN 0 4 = 3007000 then .error .notImplemented else .error .parseError)
  else if b.leN 48 4 ≠ 3007000 then
    (if b.beN 48 4 = 3007000 then .error .notImplemented else .error .parseError)
  else .ok (hdrOf b)

theorem hdr_eq (b : Buf) : parseWalIndexHeader b = hdrOutcome b := by
  unfold parseWalIndexHeader hdrOutcome
  by_cases hs : b.size = 136
  · simp only [Generated.WAL_INDEX_HEADER_LENGTH, Generated.WAL_INDEX_SUB_HEADER_LENGTH,
      Generated.WAL_INDEX_NUMBER_OF_SUB_HEADERS, Generated.WAL_INDEX_CHECKPOINT_INFO_LENGTH,
      Generated.WAL_INDEX_LOCK_RESERVED_LENGTH, Nat.reduceMul, Nat.reduceAdd, hs, ne_eq, not_true_eq_false,
      if_false]
    rw [show b.slice 0 48 = b.slice 0 (0 + 48) from rfl, show b.slice 48 96 = b.slice 48 (48 + 48) from rfl,
      show b.slice 96 120 = b.slice 96 (96 + 24) from rfl,
      sub_eq b 0 0 (by omega) (by omega), sub_eq b 48 1 (by omega) (by omega)]
    unfold subOutcome
    by_cases h0 : b.leN 0 4 = 3007000
    · by_cases h1 : b.leN 48 4 = 3007000
      · simp only [h0, h1, if_true, ok_bind, not_true_eq_false, if_false]
        rw [show (subOf b 0 0).bigEndian = false from rfl, ck_eq b 96 false (by omega)]
        simp [ok_bind, pure_eq, hdrOf, subOf]
      · by_cases h2 : b.beN 48 4 = 3007000 <;> simp [h0, h1, h2, ok_bind, error_bind]
    · by_cases h2 : b.beN 0 4 = 3007000 <;> simp [h0, h2, error_bind]
  · simp [hs]

/-! ### header theorems -/

theorem toList_ofList (bs : List Nat) : (Buf.ofList bs).toList = bs := by
  apply List.ext_getElem
  · simp [Buf.toList, size_ofList]
  · intro i h1 h2
    simp [Buf.toList, rd_ofList, List.getD_eq_getElem?_getD, h2]

theorem hdr_size (b : Buf) (h : WalIndexHeader) (hp : parseWalIndexHeader b = .ok h) : b.size = 136 := by
  rw [hdr_eq] at hp
  unfold hdrOutcome at hp
  by_cases hs : b.size = 136
  · exact hs
  · simp [hs] at hp

/-- accepted ⇒ both versions are right and the object is `hdrOf` -/
theorem hdr_ok (b : Buf) (h : WalIndexHeader) (hp : parseWalIndexHeader b = .ok h) :
    b.size = 136 ∧ b.leN 0 4 = 3007000 ∧ b.leN 48 4 = 3007000 ∧ h = hdrOf b := by
  have hs := hdr_size b h hp
  rw [hdr_eq] at hp
  unfold hdrOutcome at hp
  by_cases h0 : b.leN 0 4 = 3007000
  · by_cases h1 : b.leN 48 4 = 3007000
    · simp [hs, h0, h1] at hp
      exact ⟨hs, h0, h1, hp.symm⟩
    · by_cases h2 : b.beN 48 4 = 3007000 <;> simp [hs, h0, h1, h2] at hp
  · by_cases h2 : b.beN 0 4 = 3007000 <;> simp [hs, h0, h2] at hp

theorem hdr_accepts (b : Buf) (hs : b.size = 136) (h0 : b.leN 0 4 = 3007000) (h1 : b.leN 48 4 = 3007000) :
    parseWalIndexHeader b = .ok (hdrOf b) := by
  rw [hdr_eq]
  unfold hdrOutcome
  simp [hs, h0, h1]

theorem walindex_fields_at_offsets (bs : List Nat) (h : WalIndexHeader)
    (hp : parseWalIndexHeader (Buf.ofList bs) = .ok h) :
    bs.length = 136 ∧
    ∃ s0 s1, h.subHeaders = [s0, s1] ∧
      s0.index = 0 ∧ s0.bigEndian = false ∧ s0.fields = Spec.walIndexSubFields bs 0 ∧
      s1.index = 1 ∧ s1.bigEndian = false ∧ s1.fields = Spec.walIndexSubFields bs 48 ∧
      h.pageSize = Spec.le bs 14 2 ∧ h.bigEndian = false ∧
      h.checkpoint.bigEndian = false ∧ h.checkpoint.backfilled = Spec.le bs 96 4 ∧
      h.checkpoint.readerMarks =
        [Spec.le bs 100 4, Spec.le bs 104 4, Spec.le bs 108 4, Spec.le bs 112 4, Spec.le bs 116 4] ∧
      h.lockReserved = (bs.drop 120).take 16 ∧ h.raw = bs := by
  obtain ⟨hs, _, _, rfl⟩ := hdr_ok _ h hp
  rw [size_ofList] at hs
  refine ⟨hs, subOf (Buf.ofList bs) 0 0, subOf (Buf.ofList bs) 48 1, rfl, rfl, rfl, ?_, rfl, rfl, ?_, ?_, rfl,
    rfl, ?_, ?_, ?_, ?_⟩
  · simp [WalIndexSubHeader.fields, subOf, Spec.walIndexSubFields, leN_ofList, rd_ofList]
  · simp [WalIndexSubHeader.fields, subOf, Spec.walIndexSubFields, leN_ofList, rd_ofList]
  · simp [hdrOf, leN_ofList]
  · simp [hdrOf, ckOf, leN_ofList]
  · simp [hdrOf, ckOf, leN_ofList]
  · simp only [hdrOf]
    rw [Header.slice_toList_ofList bs 120 136 (by omega) (by omega)]
  · simp only [hdrOf, toList_ofList]

theorem walindex_accepts_iff_valid (bs : List Nat) :
    (∃ h, parseWalIndexHeader (Buf.ofList bs) = .ok h) ↔ Spec.validWalIndexHeader bs = true := by
  unfold Spec.validWalIndexHeader Spec.walIndexHeaderLength Spec.walIndexVersion
  rw [decide_eq_true_iff]
  constructor
  · rintro ⟨h, hp⟩
    obtain ⟨hs, h0, h1, _⟩ := hdr_ok _ h hp
    rw [leN_ofList] at h0 h1
    exact ⟨hs, h0, h1⟩
  · rintro ⟨hs, h0, h1⟩
    exact ⟨_, hdr_accepts _ hs (by rw [leN_ofList]; exact h0) (by rw [leN_ofList]; exact h1)⟩

/-- which error, and why: wrong length → `ValueError`; otherwise the first copy (in file order) whose
little-endian version is wrong decides: big-endian 3007000 → `NotImplementedError`, anything else →
`HeaderParsingError` -/
theorem walindex_error_class (bs : List Nat) (e : PyErr)
    (hp : parseWalIndexHeader (Buf.ofList bs) = .error e) :
    (bs.length ≠ 136 ∧ e = .valueError) ∨
    (bs.length = 136 ∧ ∃ base, Spec.firstBadCopy bs = some base ∧
      ((Spec.be bs base 4 = 3007000 ∧ e = .notImplemented) ∨ (Spec.be bs base 4 ≠ 3007000 ∧ e = .parseError))) := by
  rw [hdr_eq] at hp
  unfold hdrOutcome at hp
  simp only [size_ofList, leN_ofList, beN_ofList] at hp
  by_cases hs : bs.length = 136
  · right
    refine ⟨hs, ?_⟩
    unfold Spec.firstBadCopy Spec.walIndexVersion
    by_cases h0 : Spec.le bs 0 4 = 3007000
    · by_cases h1 : Spec.le bs 48 4 = 3007000
      · simp [hs, h0, h1] at hp
      · refine ⟨48, by simp [h0, h1], ?_⟩
        by_cases h2 : Spec.be bs 48 4 = 3007000
        · simp [hs, h0, h1, h2] at hp; exact Or.inl ⟨h2, hp.symm⟩
        · simp [hs, h0, h1, h2] at hp; exact Or.inr ⟨h2, hp.symm⟩
    · refine ⟨0, by simp [h0], ?_⟩
      by_cases h2 : Spec.be bs 0 4 = 3007000
      · simp [hs, h0, h2] at hp; exact Or.inl ⟨h2, hp.symm⟩
      · simp [hs, h0, h2] at hp; exact Or.inr ⟨h2, hp.symm⟩
  · left
    simp [hs] at hp
    exact ⟨hs, hp.symm⟩

theorem walindex_error_kinds (b : Buf) (e : PyErr) (hp : parseWalIndexHeader b = .error e) :
    e = .valueError ∨ e = .parseError ∨ e = .notImplemented := by
  rw [hdr_eq] at hp
  unfold hdrOutcome at hp
  split at hp
  · cases hp; exact Or.inl rfl
  · split at hp
    · split at hp <;> cases hp
      · exact Or.inr (Or.inr rfl)
      · exact Or.inr (Or.inl rfl)
    · split at hp
      · split at hp <;> cases hp
        · exact Or.inr (Or.inr rfl)
        · exact Or.inr (Or.inl rfl)
      · cases hp

/-! ### the scan: one step of each loop with the reads resolved -/

theorem readData_ok (file : Buf) (off n : Nat) (h : off + n ≤ file.size) (hn : 0 < n) :
    readData file off n = .ok (file.slice off (off + n)) := by
  unfold readData
  rw [if_neg (by omega), if_neg (by omega)]

theorem readData_eof (file : Buf) (off n : Nat) (h : file.size < off + n) :
    readData file off n = .error .eofError := by
  unfold readData
  by_cases h1 : off ≥ file.size
  · rw [if_pos h1]
  · rw [if_neg h1, if_pos (by omega)]

theorem scanWords_succ (file : Buf) (fuel start : Nat) (acc : List Nat) (reads : Nat) :
    scanWords file (fuel + 1) start acc reads =
      if start + 4 ≤ file.size then
        if file.leN start 4 = 0 then (reads + 1, .ok (acc.reverse, start))
        else scanWords file fuel (start + 4) (file.leN start 4 :: acc) (reads + 1)
      else (reads + 1, .error .eofError) := by
  rw [scanWords]
  by_cases h : start + 4 ≤ file.size
  · rw [readData_ok file start 4 h (by omega), if_pos h]
    have hsz : (file.slice start (start + 4)).size = 4 := by
      rw [slice_size file start (start + 4) (by omega) h]; omega
    simp only [u32le_eq _ 0 (by omega : 0 + 4 ≤ (file.slice start (start + 4)).size),
      leN_slice file start (start + 4) (by omega), Nat.add_zero]
  · rw [readData_eof file start 4 (by omega), if_neg h]

theorem scanU16_zero (file : Buf) (off : Nat) (acc : List (Nat × Nat)) (reads : Nat) :
    scanU16 file 0 off acc reads =
      if off < file.size then (reads, .error .outsideModel) else (reads, .ok acc.reverse) := by
  rw [scanU16]

theorem scanU16_succ (file : Buf) (fuel off : Nat) (acc : List (Nat × Nat)) (reads : Nat) :
    scanU16 file (fuel + 1) off acc reads =
      if off < file.size then
        if off + 2 ≤ file.size then
          scanU16 file fuel (off + 2)
            (if file.leN off 2 ≠ 0 then (off, file.leN off 2) :: acc else acc) (reads + 1)
        else (reads + 1, .error .eofError)
      else (reads, .ok acc.reverse) := by
  rw [scanU16]
  by_cases h0 : off < file.size
  · rw [if_pos h0, if_pos h0]
    by_cases h : off + 2 ≤ file.size
    · rw [if_pos h]
      have hsz : (file.slice off (off + 2)).size = 2 := by
        rw [slice_size file off (off + 2) (by omega) h]; omega
      simp only [readData_ok file off 2 h (by omega),
        u16le_eq _ 0 (by omega : 0 + 2 ≤ (file.slice off (off + 2)).size),
        leN_slice file off (off + 2) (by omega), Nat.add_zero]
    · rw [if_neg h]
      simp only [readData_eof file off 2 (by omega)]
  · rw [if_neg h0, if_neg h0]

/-! ### read bounds (no assumption on the fuel: the bound is unconditional) -/

theorem scanWords_reads_le (file : Buf) : ∀ (fuel start : Nat) (acc : List Nat) (reads : Nat),
    (scanWords file fuel start acc reads).1 ≤ reads + (file.size - start) / 4 + 1 := by
  intro fuel
  induction fuel with
  | zero => intro start acc reads; rw [scanWords]; omega
  | succ fuel ih =>
    intro start acc reads
    rw [scanWords_succ]
    by_cases h : start + 4 ≤ file.size
    · rw [if_pos h]
      by_cases hz : file.leN start 4 = 0
      · rw [if_pos hz]; show reads + 1 ≤ _; omega
      · rw [if_neg hz]
        have := ih (start + 4) (file.leN start 4 :: acc) (reads + 1)
        omega
    · rw [if_neg h]; show reads + 1 ≤ _; omega

theorem scanU16_reads_le (file : Buf) : ∀ (fuel off : Nat) (acc : List (Nat × Nat)) (reads : Nat),
    (scanU16 file fuel off acc reads).1 ≤ reads + (file.size - off + 1) / 2 := by
  intro fuel
  induction fuel with
  | zero =>
    intro off acc reads
    rw [scanU16_zero]
    split <;> (show reads ≤ _; omega)
  | succ fuel ih =>
    intro off acc reads
    rw [scanU16_succ]
    by_cases h0 : off < file.size
    · rw [if_pos h0]
      by_cases h : off + 2 ≤ file.size
      · rw [if_pos h]
        have := ih (off + 2) (if file.leN off 2 ≠ 0 then (off, file.leN off 2) :: acc else acc) (reads + 1)
        omega
      · rw [if_neg h]; show reads + 1 ≤ _; omega
    · rw [if_neg h0]; show reads ≤ _; omega

/-- the zero word the first loop stops at is inside the file, at or after `start` -/
theorem scanWords_zero_pos (file : Buf) : ∀ (fuel start : Nat) (acc : List Nat) (reads r : Nat)
    (es : List Nat) (z : Nat), scanWords file fuel start acc reads = (r, .ok (es, z)) →
    start ≤ z ∧ z + 4 ≤ file.size := by
  intro fuel
  induction fuel with
  | zero => intro start acc reads r es z h; rw [scanWords] at h; cases h
  | succ fuel ih =>
    intro start acc reads r es z h
    rw [scanWords_succ] at h
    by_cases h4 : start + 4 ≤ file.size
    · rw [if_pos h4] at h
      by_cases hz : file.leN start 4 = 0
      · rw [if_pos hz] at h
        cases h
        omega
      · rw [if_neg hz] at h
        have := ih _ _ _ _ _ _ h
        omega
    · rw [if_neg h4] at h; cases h

theorem walindex_scan_bounded (file : Buf) :
    (walIndexScanCounted file).1 ≤ (file.size - 136) / 4 + file.size / 2 + 2 := by
  unfold walIndexScanCounted
  split
  · show 0 ≤ _; omega
  · simp only [Generated.WAL_INDEX_HEADER_LENGTH]
    have hw := scanWords_reads_le file (file.size / 4 + 1) 136 [] 0
    split
    · rename_i r1 e heq
      rw [heq] at hw
      show r1 ≤ _
      simp only at hw
      omega
    · rename_i r1 entries z heq
      rw [heq] at hw
      simp only at hw
      have hz := scanWords_zero_pos file _ _ _ _ _ _ _ heq
      have hu := scanU16_reads_le file (file.size / 2 + 1) z [] r1
      split
      · rename_i r2 e heq2
        rw [heq2] at hu
        show r2 ≤ _
        simp only at hu
        omega
      · rename_i r2 found heq2
        rw [heq2] at hu
        show r2 ≤ _
        simp only at hu
        omega

/-! ### what the two loops compute (with the fuel `walIndexScanCounted` gives them) -/

def slotsOf (file : Buf) (off n : Nat) : List (Nat × Nat) :=
  Spec.nonZeroSlots (fun o => file.leN o 2) off n

theorem slotsOf_zero (file : Buf) (off : Nat) : slotsOf file off 0 = [] := rfl

theorem slotsOf_succ (file : Buf) (off n : Nat) :
    slotsOf file off (n + 1) =
      (if file.leN off 2 ≠ 0 then [(off, file.leN off 2)] else []) ++ slotsOf file (off + 2) n := by
  unfold slotsOf Spec.nonZeroSlots
  rw [List.range_succ_eq_map, List.map_cons, List.map_map, List.filter_cons]
  have hf : ((fun k => (off + 2 * k, file.leN (off + 2 * k) 2)) ∘ Nat.succ) =
      fun k => (off + 2 + 2 * k, file.leN (off + 2 + 2 * k) 2) := by
    funext k
    simp only [Function.comp, Nat.succ_eq_add_one]
    rw [show off + 2 * (k + 1) = off + 2 + 2 * k by omega]
  rw [hf]
  simp only [Nat.mul_zero, Nat.add_zero]
  by_cases hz : file.leN off 2 = 0
  · simp [hz]
  · simp [hz]

/-- first loop, success: what the entries and the stop offset are -/
theorem scanWords_ok_spec (file : Buf) : ∀ (fuel start : Nat) (acc : List Nat) (reads r : Nat)
    (es : List Nat) (z : Nat), scanWords file fuel start acc reads = (r, .ok (es, z)) →
    ∃ new : List Nat, es = acc.reverse ++ new ∧ z = start + 4 * new.length ∧ z + 4 ≤ file.size ∧
      file.leN z 4 = 0 ∧
      (∀ (i : Nat) (h : i < new.length), new[i] = file.leN (start + 4 * i) 4 ∧ new[i] ≠ 0) ∧
      r = reads + new.length + 1 := by
  intro fuel
  induction fuel with
  | zero => intro start acc reads r es z h; rw [scanWords] at h; cases h
  | succ fuel ih =>
    intro start acc reads r es z h
    rw [scanWords_succ] at h
    by_cases h4 : start + 4 ≤ file.size
    · rw [if_pos h4] at h
      by_cases hz : file.leN start 4 = 0
      · rw [if_pos hz] at h
        cases h
        exact ⟨[], by simp, by simp, h4, hz, by intro i h; simp at h, by simp⟩
      · rw [if_neg hz] at h
        obtain ⟨new, hes, hzz, hzs, hz0, hel, hr⟩ := ih _ _ _ _ _ _ h
        refine ⟨file.leN start 4 :: new, ?_, ?_, hzs, hz0, ?_, ?_⟩
        · rw [hes]; simp
        · rw [hzz]; simp only [List.length_cons]; omega
        · intro i hi
          cases i with
          | zero => simp; exact hz
          | succ i =>
            simp only [List.length_cons] at hi
            have := hel i (by omega)
            simp only [List.getElem_cons_succ]
            rw [show start + 4 * (i + 1) = start + 4 + 4 * i by omega]
            exact this
        · rw [hr]; simp only [List.length_cons]; omega
    · rw [if_neg h4] at h; cases h

/-- first loop, failure (with enough fuel): always `EOFError`, no zero word on the u32 grid -/
theorem scanWords_err_spec (file : Buf) : ∀ (fuel start : Nat) (acc : List Nat) (reads r : Nat)
    (e : PyErr), (file.size - start) / 4 < fuel → scanWords file fuel start acc reads = (r, .error e) →
    e = .eofError ∧ (∀ k, start + 4 * k + 4 ≤ file.size → file.leN (start + 4 * k) 4 ≠ 0) ∧
      r = reads + (file.size - start) / 4 + 1 := by
  intro fuel
  induction fuel with
  | zero => intro start acc reads r e hf h; omega
  | succ fuel ih =>
    intro start acc reads r e hf h
    rw [scanWords_succ] at h
    by_cases h4 : start + 4 ≤ file.size
    · rw [if_pos h4] at h
      by_cases hz : file.leN start 4 = 0
      · rw [if_pos hz] at h; cases h
      · rw [if_neg hz] at h
        obtain ⟨he, hall, hr⟩ := ih _ _ _ _ _ (by omega) h
        refine ⟨he, ?_, by omega⟩
        intro k hk
        cases k with
        | zero => simpa using hz
        | succ k =>
          rw [show start + 4 * (k + 1) = start + 4 + 4 * k by omega]
          exact hall k (by omega)
    · rw [if_neg h4] at h
      cases h
      refine ⟨rfl, ?_, by omega⟩
      intro k hk
      omega

/-- second loop with enough fuel -/
theorem scanU16_spec (file : Buf) : ∀ (fuel off : Nat) (acc : List (Nat × Nat)) (reads : Nat),
    (file.size - off + 1) / 2 ≤ fuel →
    scanU16 file fuel off acc reads =
      if (file.size - off) % 2 = 0 then
        (reads + (file.size - off) / 2, .ok (acc.reverse ++ slotsOf file off ((file.size - off) / 2)))
      else (reads + (file.size - off) / 2 + 1, .error .eofError) := by
  intro fuel
  induction fuel with
  | zero =>
    intro off acc reads hf
    rw [scanU16_zero]
    have : file.size - off = 0 := by omega
    rw [if_neg (by omega), this]
    simp [slotsOf, Spec.nonZeroSlots]
  | succ fuel ih =>
    intro off acc reads hf
    rw [scanU16_succ]
    by_cases h0 : off < file.size
    · rw [if_pos h0]
      by_cases h : off + 2 ≤ file.size
      · rw [if_pos h, ih _ _ _ (by omega)]
        have h1 : (file.size - (off + 2)) % 2 = (file.size - off) % 2 := by omega
        have h2 : (file.size - off) / 2 = (file.size - (off + 2)) / 2 + 1 := by omega
        rw [h1, h2, slotsOf_succ]
        by_cases hp : (file.size - off) % 2 = 0
        · rw [if_pos hp, if_pos hp]
          by_cases hv : file.leN off 2 = 0
          · simp [hv]; omega
          · simp [hv]; omega
        · rw [if_neg hp, if_neg hp]
          congr 1
          omega
      · rw [if_neg h]
        have : file.size - off = 1 := by omega
        rw [this]
        simp
    · rw [if_neg h0]
      have : file.size - off = 0 := by omega
      rw [this]
      simp [slotsOf, Spec.nonZeroSlots]

/-- complete description of a successful scan -/
theorem walindex_scan_ok_spec (file : Buf) (reads : Nat) (r : ScanResult)
    (h : walIndexScanCounted file = (reads, .ok r)) :
    parseWalIndexHeader (file.slice 0 136) = .ok r.header ∧
    r.zeroOffset = 136 + 4 * r.entries.length ∧ r.zeroOffset + 4 ≤ file.size ∧
    file.leN r.zeroOffset 4 = 0 ∧
    (∀ (i : Nat) (hi : i < r.entries.length),
      r.entries[i] = file.leN (136 + 4 * i) 4 ∧ r.entries[i] ≠ 0) ∧
    file.size % 2 = 0 ∧
    r.found = slotsOf file r.zeroOffset ((file.size - r.zeroOffset) / 2) ∧
    reads = r.entries.length + 1 + (file.size - r.zeroOffset) / 2 := by
  unfold walIndexScanCounted at h
  simp only [Generated.WAL_INDEX_HEADER_LENGTH] at h
  split at h
  · cases h
  · rename_i hdr hh
    split at h
    · cases h
    · rename_i r1 entries z heq
      obtain ⟨new, hes, hz, hzs, hz0, hel, hr1⟩ := scanWords_ok_spec file _ _ _ _ _ _ _ heq
      simp only [List.reverse_nil, List.nil_append] at hes
      subst hes
      rw [scanU16_spec file _ z [] r1 (by omega)] at h
      by_cases hp : (file.size - z) % 2 = 0
      · rw [if_pos hp] at h
        simp only [Prod.mk.injEq, Except.ok.injEq, List.reverse_nil, List.nil_append] at h
        obtain ⟨hreads, hres⟩ := h
        subst hres
        exact ⟨hh, hz, hzs, hz0, hel, by omega, rfl, by dsimp only; omega⟩
      · rw [if_neg hp] at h
        simp only [Prod.mk.injEq] at h
        obtain ⟨_, h2⟩ := h
        cases h2

/-- complete description of a failing scan: the header's error with no read at all, or `EOFError`
because there is no zero word on the u32 grid after the header, or `EOFError` at the last (odd)
byte of the file -/
theorem walindex_scan_err_spec (file : Buf) (reads : Nat) (e : PyErr)
    (h : walIndexScanCounted file = (reads, .error e)) :
    (parseWalIndexHeader (file.slice 0 136) = .error e ∧ reads = 0) ∨
    ((∃ hdr, parseWalIndexHeader (file.slice 0 136) = .ok hdr) ∧ e = .eofError ∧
      (((∀ k, 136 + 4 * k + 4 ≤ file.size → file.leN (136 + 4 * k) 4 ≠ 0) ∧
          reads = (file.size - 136) / 4 + 1) ∨
       (∃ n, (∀ i, i < n → file.leN (136 + 4 * i) 4 ≠ 0) ∧ 136 + 4 * n + 4 ≤ file.size ∧
          file.leN (136 + 4 * n) 4 = 0 ∧ file.size % 2 = 1 ∧
          reads = n + 1 + (file.size - (136 + 4 * n)) / 2 + 1))) := by
  unfold walIndexScanCounted at h
  simp only [Generated.WAL_INDEX_HEADER_LENGTH] at h
  split at h
  · rename_i e' hh
    simp only [Prod.mk.injEq, Except.error.injEq] at h
    obtain ⟨h1, h2⟩ := h
    subst h2
    exact Or.inl ⟨hh, h1.symm⟩
  · rename_i hdr hh
    right
    refine ⟨⟨hdr, hh⟩, ?_⟩
    split at h
    · rename_i r1 e' heq
      simp only [Prod.mk.injEq, Except.error.injEq] at h
      obtain ⟨h1, h2⟩ := h
      subst h1 h2
      obtain ⟨he, hall, hr⟩ := scanWords_err_spec file _ _ _ _ _ _ (by omega) heq
      exact ⟨he, Or.inl ⟨hall, by omega⟩⟩
    · rename_i r1 entries z heq
      obtain ⟨new, hes, hz, hzs, hz0, hel, hr1⟩ := scanWords_ok_spec file _ _ _ _ _ _ _ heq
      rw [scanU16_spec file _ z [] r1 (by omega)] at h
      by_cases hp : (file.size - z) % 2 = 0
      · rw [if_pos hp] at h
        simp only [Prod.mk.injEq] at h
        obtain ⟨_, h2⟩ := h
        cases h2
      · rw [if_neg hp] at h
        simp only [Prod.mk.injEq, Except.error.injEq] at h
        obtain ⟨h1, h2⟩ := h
        refine ⟨h2.symm, Or.inr ⟨new.length, ?_, by omega, by rw [← hz]; exact hz0, by omega, by omega⟩⟩
        intro i hi
        have := hel i hi
        rw [← this.1]
        exact this.2

/-- the scan always ends, with a result or with one of four exception classes; in particular the
fuel the model gives its loops is never exhausted (`outsideModel` is not in the list) -/
theorem walindex_scan_total (file : Buf) :
    (∃ r, walIndexScan file = .ok r) ∨
    walIndexScan file = .error .valueError ∨ walIndexScan file = .error .parseError ∨
    walIndexScan file = .error .notImplemented ∨ walIndexScan file = .error .eofError := by
  unfold walIndexScan
  generalize hq : walIndexScanCounted file = q
  obtain ⟨reads, res⟩ := q
  cases res with
  | ok r => exact Or.inl ⟨r, rfl⟩
  | error e =>
    right
    rcases walindex_scan_err_spec file reads e hq with ⟨hh, _⟩ | ⟨_, he, _⟩
    · rcases walindex_error_kinds _ e hh with h | h | h <;> subst h <;> simp
    · subst he; simp

/-- a sharper bound than `walindex_scan_bounded` (attained by a 141-byte file, see C18Scan) -/
theorem walindex_scan_bounded_tight (file : Buf) :
    (walIndexScanCounted file).1 ≤ (file.size - 136) / 2 + 2 := by
  generalize hq : walIndexScanCounted file = q
  obtain ⟨reads, res⟩ := q
  show reads ≤ _
  cases res with
  | ok r =>
    obtain ⟨_, hz, hzs, _, _, _, _, hr⟩ := walindex_scan_ok_spec file reads r hq
    omega
  | error e =>
    rcases walindex_scan_err_spec file reads e hq with ⟨_, h0⟩ | ⟨_, _, ⟨_, hr⟩ | ⟨n, _, hn, _, _, hr⟩⟩
    · omega
    · omega
    · omega

end SqliteDissect.Proofs.WalIndex
