/-
Bridges between the bit operations used by the Python code and plain arithmetic.
-/
namespace SqliteDissect.Proofs.Bits

theorem and_7F (x : Nat) : x &&& 0x7F = x % 128 :=
  Nat.and_two_pow_sub_one_eq_mod x 7

theorem and_FF (x : Nat) : x &&& 0xFF = x % 256 :=
  Nat.and_two_pow_sub_one_eq_mod x 8

theorem shl7 (x : Nat) : x <<< 7 = x * 128 := by
  rw [Nat.shiftLeft_eq]

theorem shl1 (x : Nat) : x <<< 1 = x * 2 := by
  rw [Nat.shiftLeft_eq]

theorem shr7 (x : Nat) : x >>> 7 = x / 128 := by
  rw [Nat.shiftRight_eq_div_pow]

theorem shr8 (x : Nat) : x >>> 8 = x / 256 := by
  rw [Nat.shiftRight_eq_div_pow]

/-- `a * 2^i ||| d = a * 2^i + d` when `d` fits below the shift -/
theorem mul_pow_or (a d i : Nat) (hd : d < 2 ^ i) : (a * 2 ^ i) ||| d = a * 2 ^ i + d := by
  rw [← Nat.shiftLeft_eq, Nat.shiftLeft_add_eq_or_of_lt hd]

theorem mul128_or (a d : Nat) (hd : d < 128) : (a * 128) ||| d = a * 128 + d :=
  mul_pow_or a d 7 hd

theorem mul256_or (a d : Nat) (hd : d < 256) : (a * 256) ||| d = a * 256 + d :=
  mul_pow_or a d 8 hd

/-- adding a field above an accumulator that fits below it -/
theorem or_shl_of_lt (acc d i : Nat) (h : acc < 2 ^ i) : acc ||| (d <<< i) = acc + d * 2 ^ i := by
  rw [Nat.or_comm, ← Nat.shiftLeft_add_eq_or_of_lt h, Nat.shiftLeft_eq, Nat.add_comm]

theorem or_80 (x : Nat) : (x &&& 0x7F) ||| 0x80 = x % 128 + 128 := by
  rw [and_7F, Nat.or_comm]
  have h : x % 128 < 2 ^ 7 := Nat.mod_lt _ (by decide)
  have := Nat.shiftLeft_add_eq_or_of_lt h 1
  simp only [Nat.shiftLeft_eq, Nat.reducePow, Nat.one_mul] at this
  omega

/-- a contiguous mask of `w` ones starting at bit `k` extracts the field `u / 2^k % 2^w` -/
theorem and_field (u k w : Nat) : u &&& ((2 ^ w - 1) <<< k) = (u / 2 ^ k % 2 ^ w) * 2 ^ k := by
  have hlow : (u &&& ((2 ^ w - 1) <<< k)) % 2 ^ k = 0 := by
    rw [← Nat.and_two_pow_sub_one_eq_mod, Nat.and_assoc]
    have : ((2 ^ w - 1) <<< k) &&& (2 ^ k - 1) = 0 := by
      rw [Nat.and_two_pow_sub_one_eq_mod, Nat.shiftLeft_eq, Nat.mul_mod_left]
    rw [this, Nat.and_zero]
  have hhigh : (u &&& ((2 ^ w - 1) <<< k)) / 2 ^ k = u / 2 ^ k % 2 ^ w := by
    rw [← Nat.shiftRight_eq_div_pow, Nat.shiftRight_and_distrib, Nat.shiftLeft_shiftRight,
      Nat.and_two_pow_sub_one_eq_mod, Nat.shiftRight_eq_div_pow]
  have := Nat.div_add_mod (u &&& ((2 ^ w - 1) <<< k)) (2 ^ k)
  rw [hlow, hhigh, Nat.add_zero, Nat.mul_comm] at this
  exact this.symm

/-- `decode_varint` sign test -/
theorem sign64 (u : Nat) (hu : u < 2 ^ 64) : u &&& (0x80000000 <<< 32) ≠ 0 ↔ 2 ^ 63 ≤ u := by
  have h := and_field u 63 1
  have e : (0x80000000 <<< 32 : Nat) = (2 ^ 1 - 1) <<< 63 := by decide
  rw [e, h]
  simp only [Nat.reducePow] at hu ⊢
  omega

/-- `encode_varint` nine-byte test -/
theorem top8 (u : Nat) (hu : u < 2 ^ 64) : u &&& (0xFF000000 <<< 32) ≠ 0 ↔ 2 ^ 56 ≤ u := by
  have h := and_field u 56 8
  have e : (0xFF000000 <<< 32 : Nat) = (2 ^ 8 - 1) <<< 56 := by decide
  rw [e, h]
  simp only [Nat.reducePow] at hu ⊢
  omega

theorem sign24 (u : Nat) (hu : u < 2 ^ 24) : u &&& 0x800000 ≠ 0 ↔ 2 ^ 23 ≤ u := by
  have h := and_field u 23 1
  have e : (0x800000 : Nat) = (2 ^ 1 - 1) <<< 23 := by decide
  rw [e, h]
  simp only [Nat.reducePow] at hu ⊢
  omega

theorem sign48 (u : Nat) (hu : u < 2 ^ 48) : u &&& 0x800000000000 ≠ 0 ↔ 2 ^ 47 ≤ u := by
  have h := and_field u 47 1
  have e : (0x800000000000 : Nat) = (2 ^ 1 - 1) <<< 47 := by decide
  rw [e, h]
  simp only [Nat.reducePow] at hu ⊢
  omega

/-- the continuation-bit test on a byte -/
theorem and_80_eq_zero (x : Nat) (hx : x < 256) : x &&& 0x80 = 0 ↔ x < 128 := by
  have h := and_field x 7 1
  have e : (0x80 : Nat) = (2 ^ 1 - 1) <<< 7 := by decide
  rw [e, h]
  simp only [Nat.reducePow]
  omega

end SqliteDissect.Proofs.Bits
