/-
Proofs for Properties/GenFun.lean: every function of `Generated/PyFun.lean` (re-translated from the
Python source on every run by harness/translate/pyfun.py) equals the hand-written model function
the property theorems are about.

The `cast*`/`drop*` definitions say how a model result is read in the types of the generated code
(the generated code computes in `Int`, the models in `Nat` where a value cannot be negative; a
generated loop returns the final values of all variables the loop assigns).  The proofs never
refer to the names of the Python variables: renaming a local in the source changes only bound
names in `PyFun.lean` and leaves every proof below valid.
-/
import SqliteDissect.Generated.PyFun
import SqliteDissect.Model.Codec
import SqliteDissect.Model.Page
import SqliteDissect.Model.Regex
import SqliteDissect.Proofs.Bits

namespace SqliteDissect.Proofs.GenFun
open SqliteDissect SqliteDissect.Model SqliteDissect.Generated

/-! ### prelude operations on non-negative arguments -/

theorem pyAnd_nat (a b : Nat) : pyAnd (a : Int) (b : Int) = ((a &&& b : Nat) : Int) := rfl
theorem pyOr_nat (a b : Nat) : pyOr (a : Int) (b : Int) = ((a ||| b : Nat) : Int) := rfl
theorem pyShlNat_nat (a k : Nat) : pyShlNat (a : Int) k = ((a <<< k : Nat) : Int) := by
  unfold pyShlNat
  rw [Nat.shiftLeft_eq, Int.natCast_mul, Int.natCast_pow]
  rfl

theorem pyOrdSlice_nat (b : Buf) (i : Nat) :
    pyOrdSlice b (i : Int) ((i : Int) + 1) =
      if i < b.size then .ok ((b.rd i : Nat) : Int) else .error .typeError := by
  unfold pyOrdSlice pySliceIdx
  have h1 : ¬ ((i : Int) < 0) := by omega
  have h2 : ¬ ((i : Int) + 1 < 0) := by omega
  simp only [h1, h2, if_false]
  have e1 : (i : Int).toNat = i := by omega
  have e2 : ((i : Int) + 1).toNat = i + 1 := by omega
  rw [e1, e2]
  by_cases h : i < b.size
  · have : min (i + 1) b.size - min i b.size = 1 := by omega
    rw [if_pos this, if_pos h]
    have : min i b.size = i := by omega
    rw [this]
  · have : ¬ (min (i + 1) b.size - min i b.size = 1) := by omega
    rw [if_neg this, if_neg h]

/-- the loop result `(value, consumed)` of the model in the order and type of the generated loop
state `(varint_relative_offset, unsigned_integer_value)` -/
def castDvLoop : Py (Nat × Nat) → Py (Int × Int)
  | .ok (v, r) => .ok ((r : Int), (v : Int))
  | .error e => .error e

theorem dv_loop (b : Buf) (off : Nat) : ∀ (n : Nat) (x : Int) (R U : Nat), x + (n : Int) = 10 →
    PyFun.decode_varint_loop1 b (off : Int) n x (R : Int) (U : Int) = castDvLoop (dvLoop b off n U R) := by
  intro n
  induction n with
  | zero => intro x R U _; rfl
  | succ n ih =>
    intro x R U hx
    unfold PyFun.decode_varint_loop1 dvLoop
    rw [← Int.natCast_add, pyOrdSlice_nat]
    by_cases hlt : off + R < b.size
    · simp only [if_pos hlt, bind, Except.bind]
      have hR : (R : Int) + 1 = ((R + 1 : Nat) : Int) := by omega
      by_cases hn : n = 0
      · have hx9 : x = 9 := by omega
        subst hn
        simp only [if_pos hx9, if_true]
        rw [pyShlNat_nat, pyOr_nat, hR]
        rfl
      · have hx9 : ¬ x = 9 := by omega
        simp only [if_neg hx9, if_neg hn]
        rw [show (0x80 : Int) = ((0x80 : Nat) : Int) from rfl, show (0x7F : Int) = ((0x7F : Nat) : Int) from rfl,
          pyAnd_nat, pyAnd_nat, pyOr_nat, pyShlNat_nat, hR]
        by_cases hm : b.rd (off + R) &&& 0x80 = 0
        · have : ((b.rd (off + R) &&& 0x80 : Nat) : Int) = 0 := by omega
          simp only [if_pos this, if_pos hm]
          rfl
        · have : ¬ ((b.rd (off + R) &&& 0x80 : Nat) : Int) = 0 := by omega
          simp only [if_neg this, if_neg hm]
          exact ih (x + 1) (R + 1) _ (by omega)
    · simp only [if_neg hlt, bind, Except.bind]
      rfl

/-- `(value, consumed)` of the model as the pair of Python integers -/
def castIN : Py (Int × Nat) → Py (Int × Int)
  | .ok (v, n) => .ok (v, (n : Int))
  | .error e => .error e

theorem decode_varint_eq (b : Buf) (off : Nat) :
    PyFun.decode_varint b (off : Int) = castIN (decodeVarint b off) := by
  unfold PyFun.decode_varint decodeVarint
  have h := dv_loop b off 9 1 0 0 (by omega)
  have e9 : Int.toNat (10 - 1) = 9 := rfl
  rw [e9]
  simp only [Int.natCast_zero] at h
  dsimp only
  rw [h]
  cases hd : dvLoop b off 9 0 0 with
  | error e => rfl
  | ok r =>
    obtain ⟨v, n⟩ := r
    simp only [castDvLoop, bind, Except.bind]
    rw [show (0x80000000 : Int) = ((0x80000000 : Nat) : Int) from rfl, pyShlNat_nat, pyAnd_nat]
    generalize v &&& (0x80000000 <<< 32) = c
    by_cases hs : c = 0
    · subst hs
      simp [castIN]
    · simp [hs, castIN]

/-! ### get_serial_type_signature, get_content_size, the regex table -/

theorem get_serial_type_signature_eq (st : Int) :
    PyFun.get_serial_type_signature st = .ok (serialTypeSignature st) := by
  unfold PyFun.get_serial_type_signature serialTypeSignature
  have h2 : Int.fmod st 2 = st % 2 := Int.fmod_eq_emod_of_nonneg st (by omega)
  simp only [h2, BLOB_SIGNATURE_IDENTIFIER, TEXT_SIGNATURE_IDENTIFIER]
  split
  · split
    · rfl
    · split
      · rfl
      · omega
  · rfl

/-- a model result in `Nat` read as the Python integer the generated code returns -/
def castN : Py Nat → Py Int
  | .ok n => .ok (n : Int)
  | .error e => .error e

theorem get_content_size_eq (st : Int) :
    PyFun.get_content_size st = castN (getContentSize st) := by
  have h2 : Int.fmod st 2 = st % 2 := Int.fmod_eq_emod_of_nonneg st (by omega)
  rcases (by omega : st = 0 ∨ st = 1 ∨ st = 2 ∨ st = 3 ∨ st = 4 ∨ st = 5 ∨ st = 6 ∨ st = 7 ∨ st = 8 ∨ st = 9 ∨
      (st < 0 ∨ st = 10 ∨ st = 11) ∨ (12 ≤ st ∧ st % 2 = 0) ∨ (13 ≤ st ∧ st % 2 = 1)) with
    h | h | h | h | h | h | h | h | h | h | h | h | h
  iterate 10 (subst h; rfl)
  · have hs : ¬ st = 0 ∧ ¬ st = 1 ∧ ¬ st = 2 ∧ ¬ st = 3 ∧ ¬ st = 4 ∧ ¬ st = 5 ∧ ¬ st = 6 ∧ ¬ st = 7 ∧ ¬ st = 8 ∧
        ¬ st = 9 ∧ ¬ (st ≥ 12 ∧ st % 2 = 0) ∧ ¬ (st ≥ 13 ∧ st % 2 = 1) := by omega
    obtain ⟨c0, c1, c2, c3, c4, c5, c6, c7, c8, c9, ca, cb⟩ := hs
    unfold PyFun.get_content_size getContentSize
    simp only [h2, c0, c1, c2, c3, c4, c5, c6, c7, c8, c9, ca, cb, if_false, castN]
  · have hs : ¬ st = 0 ∧ ¬ st = 1 ∧ ¬ st = 2 ∧ ¬ st = 3 ∧ ¬ st = 4 ∧ ¬ st = 5 ∧ ¬ st = 6 ∧ ¬ st = 7 ∧ ¬ st = 8 ∧
        ¬ st = 9 ∧ (st ≥ 12 ∧ st % 2 = 0) := by omega
    obtain ⟨c0, c1, c2, c3, c4, c5, c6, c7, c8, c9, ca⟩ := hs
    unfold PyFun.get_content_size getContentSize
    simp only [h2, c0, c1, c2, c3, c4, c5, c6, c7, c8, c9, ca, if_false, if_true, and_self, castN]
    have e : pyFloatAsInt (pyTrueDivLit (st - 12) 2) = .ok ((st - 12) / 2) := by
      unfold pyFloatAsInt pyTrueDivLit
      have : (2 : Int) ≠ 0 ∧ (st - 12) % 2 = 0 := by omega
      rw [if_pos this]
    rw [e]
    show Except.ok ((st - 12) / 2) = Except.ok (((st - 12) / 2).toNat : Int)
    congr 1; omega
  · have hs : ¬ st = 0 ∧ ¬ st = 1 ∧ ¬ st = 2 ∧ ¬ st = 3 ∧ ¬ st = 4 ∧ ¬ st = 5 ∧ ¬ st = 6 ∧ ¬ st = 7 ∧ ¬ st = 8 ∧
        ¬ st = 9 ∧ ¬ (st ≥ 12 ∧ st % 2 = 0) ∧ (st ≥ 13 ∧ st % 2 = 1) := by omega
    obtain ⟨c0, c1, c2, c3, c4, c5, c6, c7, c8, c9, ca, cb⟩ := hs
    unfold PyFun.get_content_size getContentSize
    simp only [h2, c0, c1, c2, c3, c4, c5, c6, c7, c8, c9, if_false, if_neg ca, if_pos cb, castN]
    have e : pyIntOfRat (pyTrueDivLit (st - 13) 2) = (st - 13) / 2 := by
      unfold pyIntOfRat pyTrueDivLit
      exact Int.tdiv_eq_ediv_of_nonneg (show (0 : Int) ≤ st - 13 by omega)
    rw [e]
    congr 1
    have : 0 ≤ (st - 13) / 2 := by omega
    exact (Int.toNat_of_nonneg this).symm

/-- the printed form of a model pattern -/
def castPat : Py Regex.Pat → Py (List Nat)
  | .ok p => .ok (Regex.print p)
  | .error e => .error e

theorem regex_eq (t : Int) :
    PyFun.generate_regex_for_simplified_serial_type t = castPat (Regex.genSimplified t) := by
  rcases (by omega : t = -2 ∨ t = -1 ∨ t = 0 ∨ t = 1 ∨ t = 2 ∨ t = 3 ∨ t = 4 ∨ t = 5 ∨ t = 6 ∨ t = 7 ∨ t = 8 ∨ t = 9 ∨
      (t < -2 ∨ 9 < t)) with h | h | h | h | h | h | h | h | h | h | h | h | h
  iterate 12 (subst h; rfl)
  have hs : ¬ t = -2 ∧ ¬ t = -1 ∧ ¬ (0 ≤ t ∧ t ≤ 9) := by omega
  obtain ⟨c0, c1, c2⟩ := hs
  unfold PyFun.generate_regex_for_simplified_serial_type Regex.genSimplified
  simp only [if_neg c0, if_neg c1, if_neg c2, castPat]

/-! ### calculate_expected_overflow -/

/-- `calcExpectedOverflow`'s `none` stands for Python's ZeroDivisionError at `page_size = 4` -/
def castOvfl : Option (Nat × Int) → Py (Int × Int)
  | some (a, b) => .ok ((a : Int), b)
  | none => .error .zeroDivision

/-- ceiling division the Python way: `-(-n // c)` -/
theorem neg_fdiv_neg (n c : Nat) (hc : 0 < c) (hn : 0 < n) :
    -(Int.fdiv (-(n : Int)) (c : Int)) = (((n + c - 1) / c : Nat) : Int) := by
  rw [Int.fdiv_eq_ediv_of_nonneg _ (by omega)]
  have h1 := Nat.div_add_mod (n + c - 1) c
  have h2 := Nat.mod_lt (n + c - 1) hc
  generalize hq : (n + c - 1) / c = q at *
  generalize hr : (n + c - 1) % c = r at *
  -- -n = (-q) * c + (c - 1 - r)
  have key : (-(n : Int)) / (c : Int) = -(q : Int) := by
    have e : (-(n : Int)) = ((c : Int) - 1 - r) + (c : Int) * (-(q : Int)) := by
      have : (c * q + r : Nat) = n + c - 1 := h1
      have h3 : ((c * q + r : Nat) : Int) = ((n + c - 1 : Nat) : Int) := by rw [this]
      rw [Int.natCast_sub (by omega)] at h3
      simp only [Int.natCast_add, Int.natCast_mul, Int.natCast_one] at h3
      rw [Int.mul_neg]
      omega
    rw [e, Int.add_mul_ediv_left _ _ (by omega : (c : Int) ≠ 0)]
    rw [Int.ediv_eq_zero_of_lt (by omega) (by omega)]
    omega
  rw [key]; omega

theorem calculate_expected_overflow_eq (n : Int) (ps : Nat) (h : n ≤ 0 ∨ 4 ≤ ps) :
    PyFun.calculate_expected_overflow n ps = castOvfl (calcExpectedOverflow n ps) := by
  unfold PyFun.calculate_expected_overflow calcExpectedOverflow
  have hg : Generated.OVERFLOW_HEADER_LENGTH = 4 := rfl
  rw [hg]
  by_cases hn : n > 0
  · rw [if_pos hn, if_pos hn]
    by_cases h4 : ps ≤ 4
    · have : ps = 4 := by omega
      subst this
      simp [pyFloorDiv, castOvfl, bind, Except.bind]
    · rw [if_neg h4]
      have hc : (ps : Int) - ((4 : Nat) : Int) = ((ps - 4 : Nat) : Int) := by omega
      obtain ⟨m, rfl⟩ : ∃ m : Nat, n = (m : Int) := ⟨n.toNat, by omega⟩
      have hm : 0 < m := by omega
      have hd : pyFloorDiv (-(m : Int)) ((ps : Int) - ((4 : Nat) : Int)) =
          .ok (-((((m + (ps - 4) - 1) / (ps - 4) : Nat)) : Int)) := by
        unfold pyFloorDiv
        rw [if_neg (by omega), hc]
        have := neg_fdiv_neg m (ps - 4) (by omega) hm
        congr 1; omega
      simp only [hd, bind, Except.bind, Int.toNat_natCast, castOvfl]
      congr 2
      · omega
      · rw [hc]
        have hq : 0 < (m + (ps - 4) - 1) / (ps - 4) := Nat.div_pos (by omega) (by omega)
        generalize (m + (ps - 4) - 1) / (ps - 4) = q at *
        rw [Int.neg_neg, Int.natCast_mul, Int.natCast_sub hq]
        rfl
  · rw [if_neg hn, if_neg hn]; rfl

/-! ### local payload of the three payload-bearing cell constructors -/

/-- what the cell constructors do with `localPayload`'s triple `(b, has_overflow, m)`: the
`bytes_on_first_page < m` rejection, then `(b, has_overflow)` -/
def castLocal (r : Int × Bool × Int) : Py (Int × Bool) :=
  if r.2.1 = true ∧ r.1 < r.2.2 then .error .parseError else .ok (r.1, r.2.1)

theorem tdiv_255 (q : Int) :
    Int.tdiv (q - 23 * 255) 255 =
      (if q ≥ 0 then
        (if q / 255 - 23 ≥ 0 ∨ decide (q % 255 = 0) = true then q / 255 - 23 else q / 255 - 23 + 1)
      else -((-q) / 255) - 23) := by
  by_cases h : q - 23 * 255 ≥ 0
  · rw [Int.tdiv_eq_ediv_of_nonneg h]
    have : q ≥ 0 := by omega
    rw [if_pos this]
    have : q / 255 - 23 ≥ 0 := by omega
    rw [if_pos (Or.inl this)]
    omega
  · have e : q - 23 * 255 = -(23 * 255 - q) := by omega
    rw [e, Int.neg_tdiv, Int.tdiv_eq_ediv_of_nonneg (by omega)]
    split
    · split
      · rename_i h1 h2
        simp only [decide_eq_true_eq] at h2
        omega
      · rename_i h1 h2
        simp only [decide_eq_true_eq] at h2
        omega
    · omega

theorem payloadConst_gen (u k : Nat) :
    pyIntOfRat (PyRat.subInt (pyTrueDivLit (((u : Int) - 12) * (k : Int)) 255) 23) = payloadConst u k := by
  unfold pyIntOfRat PyRat.subInt pyTrueDivLit payloadConst
  exact tdiv_255 _

theorem local_gen (u : Nat) (hu : 4 < u) (limit p : Int) :
    (do
      let has_overflow : Bool := false
      let bytes_on_first_page : Int := p
      if p > limit then
        let m : Int := pyIntOfRat (PyRat.subInt (pyTrueDivLit (((u : Int) - 12) * 32) 255) 23)
        let t1 ← pyMod (p - m) ((u : Int) - 4)
        let bytes_on_first_page : Int := m + t1
        let bytes_on_first_page : Int := if bytes_on_first_page > limit then (let bytes_on_first_page : Int := m; bytes_on_first_page) else bytes_on_first_page
        let has_overflow : Bool := true
        if bytes_on_first_page < m then
          .error .parseError
        else
          .ok (bytes_on_first_page, has_overflow)
      else
        .ok (bytes_on_first_page, has_overflow) : Py (Int × Bool)) = castLocal (localPayload u limit p) := by
  have hm : pyIntOfRat (PyRat.subInt (pyTrueDivLit (((u : Int) - 12) * 32) 255) 23) = payloadConst u 32 :=
    payloadConst_gen u 32
  unfold localPayload castLocal
  by_cases hp : p > limit
  · simp only [if_pos hp, hm]
    have hd : pyMod (p - payloadConst u 32) ((u : Int) - 4) = .ok ((p - payloadConst u 32) % ((u : Int) - 4)) := by
      unfold pyMod
      rw [if_neg (by omega), Int.fmod_eq_emod_of_nonneg _ (by omega)]
    simp only [hd, bind, Except.bind, true_and]
  · simp only [if_neg hp]
    simp

theorem tableLeafLocal_eq (u : Nat) (hu : 4 < u) (p : Int) :
    PyFun.tableLeafLocal u p = castLocal (localPayload u ((u : Int) - 35) p) :=
  local_gen u hu ((u : Int) - 35) p

theorem indexLeafLocal_eq (u : Nat) (hu : 4 < u) (p : Int) :
    PyFun.indexLeafLocal u p = castLocal (localPayload u (payloadConst u 64) p) := by
  rw [← payloadConst_gen u 64]
  exact local_gen u hu (pyIntOfRat (PyRat.subInt (pyTrueDivLit (((u : Int) - 12) * 64) 255) 23)) p

theorem indexInteriorLocal_eq (u : Nat) (hu : 4 < u) (p : Int) :
    PyFun.indexInteriorLocal u p = castLocal (localPayload u (payloadConst u 64) p) := by
  rw [← payloadConst_gen u 64]
  exact local_gen u hu (pyIntOfRat (PyRat.subInt (pyTrueDivLit (((u : Int) - 12) * 64) 255) 23)) p

/-! ### decode_varint with a possibly negative offset (Page model's `decodeVarintI`) -/

/-- the prelude's `ord(b[lo:hi])` is the one-byte read through the Page model's `pySlice` -/
theorem pyOrdSlice_pySlice (b : Buf) (lo hi : Int) :
    pyOrdSlice b lo hi =
      if (pySlice b lo hi).size = 1 then .ok (((pySlice b lo hi).rd 0 : Nat) : Int) else .error .typeError := by
  have norm : ∀ x : Int,
      min (if x < 0 then (if x + (b.size : Int) < 0 then 0 else (x + (b.size : Int)).toNat)
        else (if x > (b.size : Int) then b.size else x.toNat)) b.size = pySliceIdx b.size x := by
    intro x
    unfold pySliceIdx
    split <;> split <;> omega
  unfold pyOrdSlice pySlice Buf.slice
  simp only [norm, Nat.add_zero]

theorem dv_loop_int (b : Buf) (off : Int) : ∀ (n : Nat) (x : Int) (R U : Nat), x + (n : Int) = 10 →
    PyFun.decode_varint_loop1 b off n x (R : Int) (U : Int) = castDvLoop (decodeVarintI.go b off n U R) := by
  intro n
  induction n with
  | zero => intro x R U _; rfl
  | succ n ih =>
    intro x R U hx
    unfold PyFun.decode_varint_loop1 decodeVarintI.go
    rw [pyOrdSlice_pySlice]
    dsimp only
    generalize pySlice b (off + ↑R) (off + ↑R + 1) = s
    by_cases hlt : s.size = 1
    · simp only [if_pos hlt, bind, Except.bind]
      have hR : (R : Int) + 1 = ((R + 1 : Nat) : Int) := by omega
      by_cases hn : n = 0
      · have hx9 : x = 9 := by omega
        subst hn
        simp only [if_pos hx9, if_true]
        rw [pyShlNat_nat, pyOr_nat, hR]
        rfl
      · have hx9 : ¬ x = 9 := by omega
        simp only [if_neg hx9, if_neg hn]
        rw [show (0x80 : Int) = ((0x80 : Nat) : Int) from rfl, show (0x7F : Int) = ((0x7F : Nat) : Int) from rfl,
          pyAnd_nat, pyAnd_nat, pyOr_nat, pyShlNat_nat, hR]
        generalize s.rd 0 &&& 0x80 = c
        by_cases hm : c = 0
        · subst hm
          simp only [Int.natCast_zero, if_true]
          rfl
        · have : ¬ ((c : Nat) : Int) = 0 := by omega
          simp only [if_neg this, if_neg hm]
          exact ih (x + 1) (R + 1) _ (by omega)
    · simp only [if_neg hlt, bind, Except.bind]
      rfl

theorem decode_varint_eq_int (b : Buf) (off : Int) :
    PyFun.decode_varint b off = castIN (decodeVarintI b off) := by
  by_cases h0 : off ≥ 0
  · have e := decode_varint_eq b off.toNat
    rw [Int.toNat_of_nonneg h0] at e
    unfold decodeVarintI
    rw [if_pos h0]
    exact e
  · unfold PyFun.decode_varint decodeVarintI
    rw [if_neg h0]
    have h := dv_loop_int b off 9 1 0 0 (by omega)
    have e9 : Int.toNat (10 - 1) = 9 := rfl
    rw [e9]
    simp only [Int.natCast_zero] at h
    dsimp only
    rw [h]
    cases decodeVarintI.go b off 9 0 0 with
    | error e => rfl
    | ok r =>
      obtain ⟨v, n⟩ := r
      simp only [castDvLoop, bind, Except.bind]
      rw [show (0x80000000 : Int) = ((0x80000000 : Nat) : Int) from rfl, pyShlNat_nat, pyAnd_nat]
      generalize v &&& (0x80000000 <<< 32) = c
      by_cases hs : c = 0
      · subst hs
        simp [castIN]
      · simp [hs, castIN]

/-! ### decode_varint_in_reverse -/

/-- `(value, start offset)` of the model loop as the generated loop's `(unsigned_integer_value,
varint_inverted_relative_offset)`: the start offset is `offset - inverted offset` -/
def castDvr (offset : Nat) : Py (Nat × Nat) → Py (Int × Int)
  | .ok (v, s) => .ok ((v : Int), (offset : Int) - (s : Int))
  | .error e => .error e

/-- the generated loop state without the scratch variable `varint_byte` -/
def dropFirst : Py (Int × Int × Int) → Py (Int × Int)
  | .ok (_, a, b) => .ok (a, b)
  | .error e => .error e

theorem dvr_loop (b : Buf) (offset max : Nat) (hsz : offset ≤ b.size) :
    ∀ (k fuel : Nat) (vb iv : Int) (U : Nat), k ≤ offset → k < fuel → iv = (offset : Int) - (k : Int) →
      dropFirst (PyFun.decode_varint_in_reverse_loop1 (max : Int) b (offset : Int) fuel vb (U : Int) iv) =
        castDvr offset (dvrLoop b offset max k U) := by
  intro k
  induction k with
  | zero =>
    intro fuel vb iv U _ hf hiv
    obtain ⟨f, rfl⟩ : ∃ f, fuel = f + 1 := ⟨fuel - 1, by omega⟩
    unfold PyFun.decode_varint_in_reverse_loop1 dvrLoop
    have : ¬ ((offset : Int) - iv - 1 ≥ 0) := by omega
    simp only [if_neg this, dropFirst, castDvr]
    congr 2 <;> omega
  | succ k ih =>
    intro fuel vb iv U hk hf hiv
    obtain ⟨f, rfl⟩ : ∃ f, fuel = f + 1 := ⟨fuel - 1, by omega⟩
    unfold PyFun.decode_varint_in_reverse_loop1 dvrLoop
    have h1 : (offset : Int) - iv - 1 ≥ 0 := by omega
    simp only [if_pos h1]
    have hinv : iv = ((offset - (k + 1) : Nat) : Int) := by omega
    by_cases hmx : offset - (k + 1) > max
    · have : iv > (max : Int) := by omega
      simp only [if_pos this, if_pos hmx, dropFirst, castDvr]
    · have : ¬ iv > (max : Int) := by omega
      simp only [if_neg this, if_neg hmx]
      have e1 : (offset : Int) - 1 - iv = ((k : Nat) : Int) := by omega
      have e2 : (offset : Int) - iv = ((k : Nat) : Int) + 1 := by omega
      rw [e1, e2, pyOrdSlice_nat, if_pos (by omega : k < b.size)]
      simp only [bind, Except.bind]
      rw [show (0x80 : Int) = ((0x80 : Nat) : Int) from rfl, show (0x7F : Int) = ((0x7F : Nat) : Int) from rfl,
        pyAnd_nat, pyAnd_nat]
      generalize b.rd k &&& 0x80 = c
      by_cases hm : c = 0
      · subst hm
        simp only [Int.natCast_zero, ne_eq, not_true_eq_false, if_false, dropFirst, castDvr]
        congr 2 <;> omega
      · have : ((c : Int) ≠ 0) := by omega
        simp only [if_pos this, ne_eq, hm, not_false_eq_true, if_true]
        have hs : pyShl ((b.rd k &&& 0x7F : Nat) : Int) (7 * iv) =
            .ok (((b.rd k &&& 0x7F) <<< (7 * (offset - (k + 1))) : Nat) : Int) := by
          unfold pyShl
          rw [if_neg (by omega), pyShlNat_nat]
          congr 3; omega
        simp only [hs, pyOr_nat]
        exact ih f _ (iv + 1) _ (by omega) (by omega) (by omega)

/-- a pair of naturals of the model as the pair of Python integers -/
def castNN : Py (Nat × Nat) → Py (Int × Int)
  | .ok (a, b) => .ok ((a : Int), (b : Int))
  | .error e => .error e

theorem pyOrdSlice_hi0 (b : Buf) (lo : Int) : pyOrdSlice b lo 0 = .error .typeError := by
  unfold pyOrdSlice pySliceIdx
  have : ¬ ((0 : Int) < 0) := by omega
  simp only [this, if_false]
  have : ¬ (min (0 : Int).toNat b.size - (if lo < 0 then (lo + ↑b.size).toNat else min lo.toNat b.size) = 1) := by
    have : min (0 : Int).toNat b.size = 0 := by simp
    omega
  rw [if_neg this]

theorem bind_dropFirst (r : Py (Int × Int × Int)) (g : Int → Int → Py (Int × Int)) :
    (r >>= fun x => match x with | (_, a, c) => g a c) = (dropFirst r >>= fun x => match x with | (a, c) => g a c) := by
  cases r with
  | error e => rfl
  | ok x => rfl

theorem decode_varint_in_reverse_eq (b : Buf) (offset max fuel : Nat) (hf : offset ≤ fuel) :
    PyFun.decode_varint_in_reverse fuel b (offset : Int) (max : Int) = castNN (decodeVarintRev b offset max) := by
  unfold PyFun.decode_varint_in_reverse decodeVarintRev pyLenBuf
  by_cases hsz : offset > b.size
  · have : (offset : Int) > (b.size : Int) := by omega
    simp only [if_pos this, if_pos hsz, castNN]
  · have : ¬ (offset : Int) > (b.size : Int) := by omega
    simp only [if_neg this, if_neg hsz]
    by_cases h0 : offset = 0
    · subst h0
      have : ((0 : Nat) : Int) - 0 = 0 := by omega
      rw [this, pyOrdSlice_hi0]
      rfl
    · simp only [if_neg h0]
      have e1 : (offset : Int) - 1 - 0 = ((offset - 1 : Nat) : Int) := by omega
      have e2 : (offset : Int) - 0 = ((offset - 1 : Nat) : Int) + 1 := by omega
      rw [e1, e2, pyOrdSlice_nat, if_pos (by omega : offset - 1 < b.size)]
      simp only [bind, Except.bind]
      rw [show (0x7F : Int) = ((0x7F : Nat) : Int) from rfl, pyAnd_nat,
        show (0 : Int) = ((0 : Nat) : Int) from rfl, pyOr_nat, Nat.zero_or]
      have hl := dvr_loop b offset max (by omega) (offset - 1) fuel ((b.rd (offset - 1) &&& 0x7F : Nat) : Int)
        (((0 : Nat) : Int) + 1) (b.rd (offset - 1) &&& 0x7F) (by omega) (by omega) (by omega)
      have hb := bind_dropFirst (PyFun.decode_varint_in_reverse_loop1 (max : Int) b (offset : Int) fuel
        ((b.rd (offset - 1) &&& 0x7F : Nat) : Int) ((b.rd (offset - 1) &&& 0x7F : Nat) : Int) (((0 : Nat) : Int) + 1))
        (fun a c => .ok (a, (offset : Int) - c))
      simp only [bind, Except.bind] at hb
      rw [hb, hl]
      cases dvrLoop b offset max (offset - 1) (b.rd (offset - 1) &&& 0x7F) with
      | error e => rfl
      | ok r =>
        obtain ⟨v, s⟩ := r
        simp only [castDvr, castNN]
        congr 2; omega

/-! ### encode_varint -/

theorem pyShrNat_nat (a k : Nat) : pyShrNat (a : Int) k = ((a >>> k : Nat) : Int) := rfl

theorem pyInsert0_nat (l : List Nat) (v : Nat) (hv : v < 256) : pyInsert0 l (v : Int) = .ok (v :: l) := by
  unfold pyInsert0
  rw [if_pos (by omega)]
  rfl

/-- one byte of the varint body, as the generated code computes it -/
theorem body_byte (v : Nat) :
    pyOr (pyAnd (v : Int) 0x7F) 0x80 = (((v &&& 0x7F) ||| 0x80 : Nat) : Int) ∧ ((v &&& 0x7F) ||| 0x80) < 256 := by
  refine ⟨rfl, ?_⟩
  rw [Bits.or_80]; omega

theorem ev_loop1 : ∀ (n : Nat) (x : Int) (acc : List Nat) (v : Nat),
    ∃ v' : Int, PyFun.encode_varint_loop1 n x acc (v : Int) = .ok (ev9 n v acc, v') := by
  intro n
  induction n with
  | zero => intro x acc v; exact ⟨_, rfl⟩
  | succ n ih =>
    intro x acc v
    unfold PyFun.encode_varint_loop1 ev9
    obtain ⟨h1, h2⟩ := body_byte v
    rw [h1, pyInsert0_nat _ _ h2, pyShrNat_nat]
    exact ih (x + 1) _ _

/-- the generated `while` state without the exhausted `value` -/
def dropSnd : Py (List Nat × Int) → Py (List Nat)
  | .ok (a, _) => .ok a
  | .error e => .error e

theorem pyLenBytes_cons (x : Nat) (l : List Nat) : pyLenBytes (x :: l) = ((l.length + 1 : Nat) : Int) := rfl

theorem ev_loop2 : ∀ (d f1 f2 : Nat) (acc : List Nat) (v : Nat), 8 ≤ acc.length + d → d < f1 → d < f2 →
    dropSnd (PyFun.encode_varint_loop2 f1 acc (v : Int)) = evLoop f2 v acc := by
  intro d
  induction d with
  | zero =>
    intro f1 f2 acc v hl h1 h2
    obtain ⟨g1, rfl⟩ : ∃ g, f1 = g + 1 := ⟨f1 - 1, by omega⟩
    obtain ⟨g2, rfl⟩ : ∃ g, f2 = g + 1 := ⟨f2 - 1, by omega⟩
    unfold PyFun.encode_varint_loop2 evLoop
    by_cases hv : v = 0
    · subst hv; rfl
    · have : (v : Int) ≠ 0 := by omega
      simp only [if_pos this, if_neg hv]
      obtain ⟨e1, e2⟩ := body_byte v
      rw [e1, pyInsert0_nat _ _ e2]
      simp only [bind, Except.bind, List.length_cons]
      rw [pyLenBytes_cons]
      have c1 : ((acc.length + 1 : Nat) : Int) ≥ 9 := by omega
      have c2 : acc.length + 1 ≥ 9 := by omega
      rw [if_pos c1, if_pos c2]
      rfl
  | succ d ih =>
    intro f1 f2 acc v hl h1 h2
    obtain ⟨g1, rfl⟩ : ∃ g, f1 = g + 1 := ⟨f1 - 1, by omega⟩
    obtain ⟨g2, rfl⟩ : ∃ g, f2 = g + 1 := ⟨f2 - 1, by omega⟩
    unfold PyFun.encode_varint_loop2 evLoop
    by_cases hv : v = 0
    · subst hv; rfl
    · have : (v : Int) ≠ 0 := by omega
      simp only [if_pos this, if_neg hv]
      obtain ⟨e1, e2⟩ := body_byte v
      rw [e1, pyInsert0_nat _ _ e2]
      simp only [bind, Except.bind, List.length_cons]
      rw [pyLenBytes_cons]
      by_cases hc : acc.length + 1 ≥ 9
      · have c1 : ((acc.length + 1 : Nat) : Int) ≥ 9 := by omega
        rw [if_pos c1, if_pos hc]
        rfl
      · have c1 : ¬ ((acc.length + 1 : Nat) : Int) ≥ 9 := by omega
        rw [if_neg c1, if_neg hc, pyShrNat_nat]
        exact ih g1 g2 _ _ (by simp only [List.length_cons]; omega) (by omega) (by omega)

theorem pyLastByte_eq (l : List Nat) :
    pyLastByte l = match l.getLast? with | some x => .ok ((x : Nat) : Int) | none => .error .indexError := rfl

theorem pyPackB_nat (v : Nat) (hv : v < 256) : pyPackB (v : Int) = .ok [v] := by
  unfold pyPackB
  rw [if_pos (by omega)]
  rfl

theorem bind_dropSnd (r : Py (List Nat × Int)) (g : List Nat → Py (List Nat)) :
    (r >>= fun x => match x with | (a, _) => g a) = (dropSnd r >>= g) := by
  cases r with
  | error e => rfl
  | ok x => rfl

theorem encode_varint_eq (fuel : Nat) (hf : 9 ≤ fuel) (value : Int) :
    PyFun.encode_varint fuel value = encodeVarint value := by
  unfold PyFun.encode_varint encodeVarint
  dsimp only
  have hshl : pyShlNat 1 64 = 0x10000000000000000 := by decide
  rw [hshl]
  by_cases hr : value > 0x7FFFFFFFFFFFFFFF ∨ value < -0x8000000000000000
  · have : value > 0x7FFFFFFFFFFFFFFF ∨ value < 0x7FFFFFFFFFFFFFFF + 1 - 0x10000000000000000 := by omega
    rw [if_pos this, if_pos hr]
  · have : ¬ (value > 0x7FFFFFFFFFFFFFFF ∨ value < 0x7FFFFFFFFFFFFFFF + 1 - 0x10000000000000000) := by omega
    rw [if_neg this, if_neg hr]
    have hval : (value + if value < 0 then 0x10000000000000000 else 0) =
        (((if value < 0 then value + 0x10000000000000000 else value).toNat : Nat) : Int) := by
      split <;> omega
    rw [hval]
    generalize (if value < 0 then value + 0x10000000000000000 else value).toNat = u
    rw [show (0xFF000000 : Int) = ((0xFF000000 : Nat) : Int) from rfl, pyShlNat_nat, pyAnd_nat]
    generalize htop : u &&& (0xFF000000 <<< 32) = top
    by_cases ht : top = 0
    · have : ¬ ((top : Int) ≠ 0) := by omega
      have ht' : ¬ (top ≠ 0) := by omega
      rw [if_neg this, if_neg ht']
      by_cases hu : u = 0
      · have : (u : Int) = 0 := by omega
        rw [if_pos this, if_pos hu]
      · have : ¬ (u : Int) = 0 := by omega
        rw [if_neg this, if_neg hu]
        have hl := ev_loop2 8 fuel 64 [] u (by simp) (by omega) (by omega)
        have hb := bind_dropSnd (PyFun.encode_varint_loop2 fuel [] (u : Int)) (fun byte_array => do
          let t1 ← pyLastByte byte_array
          let t2 ← pyPackB (pyAnd t1 0x7F)
          .ok (pyDropLast byte_array ++ t2))
        refine Eq.trans hb ?_
        rw [hl]
        cases evLoop 64 u [] with
        | error e => rfl
        | ok acc =>
          simp only [bind, Except.bind, pyLastByte_eq]
          cases acc.getLast? with
          | none => rfl
          | some l =>
            simp only []
            rw [show (0x7F : Int) = ((0x7F : Nat) : Int) from rfl, pyAnd_nat,
              pyPackB_nat _ (by rw [Bits.and_7F]; omega)]
            rfl
    · have : ((top : Int) ≠ 0) := by omega
      have ht' : (top ≠ 0) := by omega
      rw [if_pos this, if_pos ht']
      rw [show (0xFF : Int) = ((0xFF : Nat) : Int) from rfl, pyAnd_nat,
        pyInsert0_nat _ _ (by rw [Bits.and_FF]; omega), pyShrNat_nat]
      obtain ⟨v', hv'⟩ := ev_loop1 8 0 [u &&& 0xFF] (u >>> 8)
      simp only [bind, Except.bind]
      have e8 : Int.toNat (8 - 0) = 8 := rfl
      rw [e8, hv']

/-! ### slices and struct.unpack -/

theorem pySliceIdx_nat (len n : Nat) : pySliceIdx len (n : Int) = min n len := by
  unfold pySliceIdx
  rw [if_neg (by omega)]
  congr 1

/-- a slice with non-negative bounds is the model's `Buf.slice` -/
theorem pySliceBuf_nat (b : Buf) (lo hi : Nat) :
    pySliceBuf b (lo : Int) (hi : Int) = (b.slice lo hi).toList := by
  unfold pySliceBuf Buf.slice Buf.toList
  simp only [pySliceIdx_nat]

theorem pyBE_append (l : List Nat) (x : Nat) : pyBE (l ++ [x]) = pyBE l * 256 + x := by
  unfold pyBE
  rw [List.foldl_append]
  rfl

theorem pyBE_range (rd : Nat → Nat) (off : Nat) : ∀ n, pyBE ((List.range n).map fun i => rd (off + i)) =
    Buf.beN ⟨0, rd⟩ off n := by
  intro n
  induction n with
  | zero => rfl
  | succ n ih =>
    rw [List.range_succ, List.map_append, List.map_singleton, pyBE_append, ih]
    rfl

theorem beN_congr (b : Buf) (off n : Nat) : Buf.beN ⟨0, b.rd⟩ off n = b.beN off n := by
  induction n with
  | zero => rfl
  | succ n ih => simp only [Buf.beN, ih]

/-- the bytes of an in-range slice and their big-endian value -/
theorem slice_toList_length (b : Buf) (lo hi : Nat) : (b.slice lo hi).toList.length = min hi b.size - min lo b.size := by
  simp [Buf.toList, Buf.slice]

theorem slice_toList_be (b : Buf) (off n : Nat) (h : off + n ≤ b.size) :
    pyBE (b.slice off (off + n)).toList = b.beN off n := by
  unfold Buf.slice Buf.toList
  have e1 : min off b.size = off := by omega
  have e2 : min (off + n) b.size - off = n := by omega
  simp only [e1, e2]
  rw [pyBE_range, beN_congr]

/-- `unpack(fmt, body[off:off+n])[0]` is the model's `unpackN` (then the sign reading) -/
theorem pyUnpackBE_slice (signed : Bool) (b : Buf) (off n : Nat) (hn : 0 < n) :
    pyUnpackBE signed n (b.slice off (off + n)).toList =
      match unpackN b off n with
      | .ok u => .ok (if signed then toSigned (8 * n) u else (u : Int))
      | .error e => .error e := by
  unfold pyUnpackBE unpackN
  rw [slice_toList_length]
  by_cases h : off + n ≤ b.size
  · rw [if_pos (by omega), if_pos h, slice_toList_be b off n h]
    cases signed with
    | false => simp
    | true =>
      simp only [true_and, toSigned, if_true]
      split <;> rfl
  · rw [if_neg (by omega), if_neg h]

theorem unpack_at (signed : Bool) (b : Buf) (off n : Nat) (hn : 0 < n) :
    pyUnpackBE signed n (pySliceBuf b (off : Int) ((off : Int) + (n : Int))) =
      match unpackN b off n with
      | .ok u => .ok (if signed then toSigned (8 * n) u else (u : Int))
      | .error e => .error e := by
  rw [← Int.natCast_add, pySliceBuf_nat, pyUnpackBE_slice signed b off n hn]

/-- zero padding in front does not change the big-endian value -/
theorem pyBE_zero_cons (l : List Nat) : pyBE (0 :: l) = pyBE l := by
  unfold pyBE
  rfl

theorem unpack_padded (b : Buf) (off n pad : Nat) (hn : 0 < n) (zs : List Nat) (hz : zs = List.replicate pad 0) :
    pyUnpackBE false (pad + n) (zs ++ pySliceBuf b (off : Int) ((off : Int) + (n : Int))) =
      match unpackN b off n with
      | .ok u => .ok (u : Int)
      | .error e => .error e := by
  subst hz
  rw [← Int.natCast_add, pySliceBuf_nat]
  unfold pyUnpackBE unpackN
  rw [List.length_append, List.length_replicate, slice_toList_length]
  have hbe : ∀ (p : Nat) (l : List Nat), pyBE (List.replicate p 0 ++ l) = pyBE l := by
    intro p l
    induction p with
    | zero => rfl
    | succ p ih => rw [List.replicate_succ, List.cons_append, pyBE_zero_cons, ih]
  by_cases h : off + n ≤ b.size
  · rw [if_pos (by omega), if_pos h, hbe, slice_toList_be b off n h]
    simp
  · rw [if_neg (by omega), if_neg h]

theorem unpackDouble_at (b : Buf) (off : Nat) :
    pyUnpackDouble (pySliceBuf b (off : Int) ((off : Int) + 8)) = unpackN b off 8 := by
  have e : (off : Int) + 8 = ((off + 8 : Nat) : Int) := by omega
  rw [e, pySliceBuf_nat]
  unfold pyUnpackDouble unpackN
  rw [slice_toList_length]
  by_cases h : off + 8 ≤ b.size
  · rw [if_pos (by omega), if_pos h, slice_toList_be b off 8 h]
  · rw [if_neg (by omega), if_neg h]

theorem sign_fix (u m : Nat) (k : Int) :
    (if pyAnd (u : Int) (m : Int) ≠ 0 then (u : Int) - k else (u : Int)) =
      (if u &&& m ≠ 0 then (u : Int) - k else (u : Int)) := by
  rw [pyAnd_nat]
  generalize u &&& m = c
  by_cases hc : c = 0
  · subst hc; simp
  · have : (c : Int) ≠ 0 := by omega
    rw [if_pos this, if_pos hc]

/-! ### get_record_content -/

/-- a model value as the Python value: blobs and texts are both `bytes` at this level (the caller decodes) -/
def castVal : Val → PyVal
  | .null => .none
  | .int i => .int i
  | .real b => .float64 b
  | .blob l => .bytes l
  | .text l => .bytes l

def castRec : Py (Nat × Val) → Py (Int × PyVal)
  | .ok (n, v) => .ok ((n : Int), castVal v)
  | .error e => .error e

theorem get_record_content_eq (st : Int) (body : Buf) (off : Nat) :
    PyFun.get_record_content st body (off : Int) = castRec (getRecordContent st body off) := by
  have h2 : Int.fmod st 2 = st % 2 := Int.fmod_eq_emod_of_nonneg st (by omega)
  have u1 : pyUnpackBE true 1 (pySliceBuf body ↑off (↑off + 1)) = _ := unpack_at true body off 1 (by decide)
  have u2 : pyUnpackBE true 2 (pySliceBuf body ↑off (↑off + 2)) = _ := unpack_at true body off 2 (by decide)
  have u4 : pyUnpackBE true 4 (pySliceBuf body ↑off (↑off + 4)) = _ := unpack_at true body off 4 (by decide)
  have u8 : pyUnpackBE true 8 (pySliceBuf body ↑off (↑off + 8)) = _ := unpack_at true body off 8 (by decide)
  have u3 : pyUnpackBE false 4 ([0] ++ pySliceBuf body ↑off (↑off + 3)) = _ :=
    unpack_padded body off 3 1 (by decide) [0] rfl
  have u6 : pyUnpackBE false 8 (([0] ++ [0]) ++ pySliceBuf body ↑off (↑off + 6)) = _ :=
    unpack_padded body off 6 2 (by decide) ([0] ++ [0]) rfl
  have ud := unpackDouble_at body off
  rcases (by omega : st = 0 ∨ st = 1 ∨ st = 2 ∨ st = 3 ∨ st = 4 ∨ st = 5 ∨ st = 6 ∨ st = 7 ∨ st = 8 ∨ st = 9 ∨
      (st = 10 ∨ st = 11) ∨ st < 0 ∨ (12 ≤ st ∧ st % 2 = 0) ∨ (13 ≤ st ∧ st % 2 = 1)) with
    h | h | h | h | h | h | h | h | h | h | h | h | h | h
  · have hk : (st = 0) = True := eq_true h
    simp only [PyFun.get_record_content, getRecordContent, hk, if_true]
    rfl
  · have hk : (st = 1) = True := eq_true h
    have hs : (st = 0) = False := by apply eq_false; omega
    have c0 := hs
    simp only [PyFun.get_record_content, getRecordContent, hk, c0, if_false, if_true]
    rw [u1]
    cases unpackN body off _ <;> rfl
  · have hk : (st = 2) = True := eq_true h
    have hs : (st = 0) = False ∧ (st = 1) = False := by
      refine ⟨?_, ?_⟩ <;> (apply eq_false; omega)
    obtain ⟨c0, c1⟩ := hs
    simp only [PyFun.get_record_content, getRecordContent, hk, c0, c1, if_false, if_true]
    rw [u2]
    cases unpackN body off _ <;> rfl
  · have hk : (st = 3) = True := eq_true h
    have hs : (st = 0) = False ∧ (st = 1) = False ∧ (st = 2) = False := by
      refine ⟨?_, ?_, ?_⟩ <;> (apply eq_false; omega)
    obtain ⟨c0, c1, c2⟩ := hs
    simp only [PyFun.get_record_content, getRecordContent, hk, c0, c1, c2, if_false, if_true]
    rw [u3]
    cases unpackN body off 3 with
    | error e => rfl
    | ok u =>
      have := sign_fix u 0x800000 0x1000000
      simp only [bind, Except.bind, castRec, castVal, pure, Except.pure]
      exact congrArg (fun v => Except.ok ((3 : Int), PyVal.int v)) this
  · have hk : (st = 4) = True := eq_true h
    have hs : (st = 0) = False ∧ (st = 1) = False ∧ (st = 2) = False ∧ (st = 3) = False := by
      refine ⟨?_, ?_, ?_, ?_⟩ <;> (apply eq_false; omega)
    obtain ⟨c0, c1, c2, c3⟩ := hs
    simp only [PyFun.get_record_content, getRecordContent, hk, c0, c1, c2, c3, if_false, if_true]
    rw [u4]
    cases unpackN body off _ <;> rfl
  · have hk : (st = 5) = True := eq_true h
    have hs : (st = 0) = False ∧ (st = 1) = False ∧ (st = 2) = False ∧ (st = 3) = False ∧ (st = 4) = False := by
      refine ⟨?_, ?_, ?_, ?_, ?_⟩ <;> (apply eq_false; omega)
    obtain ⟨c0, c1, c2, c3, c4⟩ := hs
    simp only [PyFun.get_record_content, getRecordContent, hk, c0, c1, c2, c3, c4, if_false, if_true]
    rw [u6]
    cases unpackN body off 6 with
    | error e => rfl
    | ok u =>
      have := sign_fix u 0x800000000000 0x1000000000000
      simp only [bind, Except.bind, castRec, castVal, pure, Except.pure]
      exact congrArg (fun v => Except.ok ((6 : Int), PyVal.int v)) this
  · have hk : (st = 6) = True := eq_true h
    have hs : (st = 0) = False ∧ (st = 1) = False ∧ (st = 2) = False ∧ (st = 3) = False ∧ (st = 4) = False ∧ (st = 5) = False := by
      refine ⟨?_, ?_, ?_, ?_, ?_, ?_⟩ <;> (apply eq_false; omega)
    obtain ⟨c0, c1, c2, c3, c4, c5⟩ := hs
    simp only [PyFun.get_record_content, getRecordContent, hk, c0, c1, c2, c3, c4, c5, if_false, if_true]
    rw [u8]
    cases unpackN body off _ <;> rfl
  · have hk : (st = 7) = True := eq_true h
    have hs : (st = 0) = False ∧ (st = 1) = False ∧ (st = 2) = False ∧ (st = 3) = False ∧ (st = 4) = False ∧ (st = 5) = False ∧ (st = 6) = False := by
      refine ⟨?_, ?_, ?_, ?_, ?_, ?_, ?_⟩ <;> (apply eq_false; omega)
    obtain ⟨c0, c1, c2, c3, c4, c5, c6⟩ := hs
    simp only [PyFun.get_record_content, getRecordContent, hk, c0, c1, c2, c3, c4, c5, c6, if_false, if_true]
    rw [ud]
    cases unpackN body off 8 <;> rfl
  · have hk : (st = 8) = True := eq_true h
    have hs : (st = 0) = False ∧ (st = 1) = False ∧ (st = 2) = False ∧ (st = 3) = False ∧ (st = 4) = False ∧ (st = 5) = False ∧ (st = 6) = False ∧ (st = 7) = False := by
      refine ⟨?_, ?_, ?_, ?_, ?_, ?_, ?_, ?_⟩ <;> (apply eq_false; omega)
    obtain ⟨c0, c1, c2, c3, c4, c5, c6, c7⟩ := hs
    simp only [PyFun.get_record_content, getRecordContent, hk, c0, c1, c2, c3, c4, c5, c6, c7, if_false, if_true]
    rfl
  · have hk : (st = 9) = True := eq_true h
    have hs : (st = 0) = False ∧ (st = 1) = False ∧ (st = 2) = False ∧ (st = 3) = False ∧ (st = 4) = False ∧ (st = 5) = False ∧ (st = 6) = False ∧ (st = 7) = False ∧ (st = 8) = False := by
      refine ⟨?_, ?_, ?_, ?_, ?_, ?_, ?_, ?_, ?_⟩ <;> (apply eq_false; omega)
    obtain ⟨c0, c1, c2, c3, c4, c5, c6, c7, c8⟩ := hs
    simp only [PyFun.get_record_content, getRecordContent, hk, c0, c1, c2, c3, c4, c5, c6, c7, c8, if_false, if_true]
    rfl
  · -- reserved serial types 10 and 11
    have hs : (st = 0) = False ∧ (st = 1) = False ∧ (st = 2) = False ∧ (st = 3) = False ∧ (st = 4) = False ∧
        (st = 5) = False ∧ (st = 6) = False ∧ (st = 7) = False ∧ (st = 8) = False ∧ (st = 9) = False := by
      refine ⟨?_, ?_, ?_, ?_, ?_, ?_, ?_, ?_, ?_, ?_⟩ <;> (apply eq_false; omega)
    obtain ⟨c0, c1, c2, c3, c4, c5, c6, c7, c8, c9⟩ := hs
    simp only [PyFun.get_record_content, getRecordContent, c0, c1, c2, c3, c4, c5, c6, c7, c8, c9, if_false,
      if_pos h]
    rfl
  · -- negative serial types
    have hs : (st = 0) = False ∧ (st = 1) = False ∧ (st = 2) = False ∧ (st = 3) = False ∧ (st = 4) = False ∧
        (st = 5) = False ∧ (st = 6) = False ∧ (st = 7) = False ∧ (st = 8) = False ∧ (st = 9) = False := by
      refine ⟨?_, ?_, ?_, ?_, ?_, ?_, ?_, ?_, ?_, ?_⟩ <;> (apply eq_false; omega)
    obtain ⟨c0, c1, c2, c3, c4, c5, c6, c7, c8, c9⟩ := hs
    have ca : ¬ (st = 10 ∨ st = 11) := by omega
    have cb : ¬ (st ≥ 12 ∧ st % 2 = 0) := by omega
    have cc : ¬ (st ≥ 13 ∧ st % 2 = 1) := by omega
    simp only [PyFun.get_record_content, getRecordContent, c0, c1, c2, c3, c4, c5, c6, c7, c8, c9, if_false,
      if_neg ca, h2, if_neg cb, if_neg cc]
    rfl
  · -- blobs
    have hs : (st = 0) = False ∧ (st = 1) = False ∧ (st = 2) = False ∧ (st = 3) = False ∧ (st = 4) = False ∧
        (st = 5) = False ∧ (st = 6) = False ∧ (st = 7) = False ∧ (st = 8) = False ∧ (st = 9) = False := by
      refine ⟨?_, ?_, ?_, ?_, ?_, ?_, ?_, ?_, ?_, ?_⟩ <;> (apply eq_false; omega)
    obtain ⟨c0, c1, c2, c3, c4, c5, c6, c7, c8, c9⟩ := hs
    have ca : ¬ (st = 10 ∨ st = 11) := by omega
    have cb : st ≥ 12 ∧ st % 2 = 0 := by omega
    simp only [PyFun.get_record_content, getRecordContent, c0, c1, c2, c3, c4, c5, c6, c7, c8, c9, if_false,
      if_neg ca, h2, if_pos cb]
    have e : pyIntOfRat (pyTrueDivLit (st - 12) 2) = (((st - 12) / 2).toNat : Int) := by
      unfold pyIntOfRat pyTrueDivLit
      rw [Int.tdiv_eq_ediv_of_nonneg (show (0 : Int) ≤ st - 12 by omega)]
      have : 0 ≤ (st - 12) / 2 := by omega
      exact (Int.toNat_of_nonneg this).symm
    rw [e, ← Int.natCast_add, pySliceBuf_nat]
    rfl
  · -- texts
    have hs : (st = 0) = False ∧ (st = 1) = False ∧ (st = 2) = False ∧ (st = 3) = False ∧ (st = 4) = False ∧
        (st = 5) = False ∧ (st = 6) = False ∧ (st = 7) = False ∧ (st = 8) = False ∧ (st = 9) = False := by
      refine ⟨?_, ?_, ?_, ?_, ?_, ?_, ?_, ?_, ?_, ?_⟩ <;> (apply eq_false; omega)
    obtain ⟨c0, c1, c2, c3, c4, c5, c6, c7, c8, c9⟩ := hs
    have ca : ¬ (st = 10 ∨ st = 11) := by omega
    have cb : ¬ (st ≥ 12 ∧ st % 2 = 0) := by omega
    have cc : st ≥ 13 ∧ st % 2 = 1 := by omega
    simp only [PyFun.get_record_content, getRecordContent, c0, c1, c2, c3, c4, c5, c6, c7, c8, c9, if_false,
      if_neg ca, h2, if_neg cb, if_pos cc]
    have e : pyIntOfRat (pyTrueDivLit (st - 13) 2) = (((st - 13) / 2).toNat : Int) := by
      unfold pyIntOfRat pyTrueDivLit
      rw [Int.tdiv_eq_ediv_of_nonneg (show (0 : Int) ≤ st - 13 by omega)]
      have : 0 ≤ (st - 13) / 2 := by omega
      exact (Int.toNat_of_nonneg this).symm
    rw [e, ← Int.natCast_add, pySliceBuf_nat]
    rfl

/-! ### calculate_body_content_size -/

theorem dvLoop_mono (b : Buf) (off : Nat) : ∀ (k v rel u n : Nat), dvLoop b off k v rel = .ok (u, n) → rel ≤ n := by
  intro k
  induction k with
  | zero =>
    intro v rel u n h
    simp only [dvLoop, Except.ok.injEq, Prod.mk.injEq] at h
    omega
  | succ k ih =>
    intro v rel u n h
    unfold dvLoop at h
    split at h
    · dsimp only at h
      split at h
      · simp only [Except.ok.injEq, Prod.mk.injEq] at h; omega
      · split at h
        · simp only [Except.ok.injEq, Prod.mk.injEq] at h; omega
        · have := ih _ _ _ _ h; omega
    · cases h

theorem dvLoop_pos (b : Buf) (off : Nat) (k v rel u n : Nat) (h : dvLoop b off (k + 1) v rel = .ok (u, n)) :
    rel + 1 ≤ n := by
  unfold dvLoop at h
  split at h
  · dsimp only at h
    split at h
    · simp only [Except.ok.injEq, Prod.mk.injEq] at h; omega
    · split at h
      · simp only [Except.ok.injEq, Prod.mk.injEq] at h; omega
      · exact dvLoop_mono b off _ _ _ _ _ h
  · cases h

theorem decodeVarint_pos (b : Buf) (off : Nat) (v : Int) (n : Nat) (h : decodeVarint b off = .ok (v, n)) : 1 ≤ n := by
  unfold decodeVarint at h
  cases hd : dvLoop b off 9 0 0 with
  | error e => rw [hd] at h; cases h
  | ok r =>
    obtain ⟨u, m⟩ := r
    rw [hd] at h
    have := dvLoop_pos b off 8 0 0 u m hd
    dsimp only at h
    split at h <;> (simp only [Except.ok.injEq, Prod.mk.injEq] at h; omega)

/-- the generated `while` state `(body_content_size, start_offset)` without the exhausted offset -/
def dropOff : Py (Int × Int) → Py Int
  | .ok (a, _) => .ok a
  | .error e => .error e

theorem cbcs_loop (hdr : Buf) : ∀ (d f1 f2 start acc : Nat), hdr.size ≤ start + d → d < f1 → d ≤ f2 →
    dropOff (PyFun.calculate_body_content_size_loop1 hdr f1 (acc : Int) (start : Int)) =
      castN (cbcsLoop hdr f2 start acc) := by
  intro d
  induction d with
  | zero =>
    intro f1 f2 start acc hd h1 _
    obtain ⟨g1, rfl⟩ : ∃ g, f1 = g + 1 := ⟨f1 - 1, by omega⟩
    have hlt : ¬ start < hdr.size := by omega
    have hlt' : ¬ (start : Int) < pyLenBuf hdr := by unfold pyLenBuf; omega
    unfold PyFun.calculate_body_content_size_loop1
    rw [if_neg hlt']
    cases f2 <;> (unfold cbcsLoop; rw [if_neg hlt]; rfl)
  | succ d ih =>
    intro f1 f2 start acc hd h1 h2
    obtain ⟨g1, rfl⟩ : ∃ g, f1 = g + 1 := ⟨f1 - 1, by omega⟩
    obtain ⟨g2, rfl⟩ : ∃ g, f2 = g + 1 := ⟨f2 - 1, by omega⟩
    unfold PyFun.calculate_body_content_size_loop1 cbcsLoop
    by_cases hlt : start < hdr.size
    · have hlt' : (start : Int) < pyLenBuf hdr := by unfold pyLenBuf; omega
      rw [if_pos hlt', if_pos hlt, decode_varint_eq]
      cases hv : decodeVarint hdr start with
      | error e => rfl
      | ok r =>
        obtain ⟨st, n⟩ := r
        have hn := decodeVarint_pos hdr start st n hv
        simp only [castIN, bind, Except.bind]
        rw [get_content_size_eq]
        cases getContentSize st with
        | error e => rfl
        | ok sz =>
          simp only [castN]
          by_cases hov : start + n > hdr.size
          · have : (start : Int) + (n : Int) > pyLenBuf hdr := by unfold pyLenBuf; omega
            rw [if_pos this, if_pos hov]; rfl
          · have : ¬ (start : Int) + (n : Int) > pyLenBuf hdr := by unfold pyLenBuf; omega
            rw [if_neg this, if_neg hov, ← Int.natCast_add, ← Int.natCast_add]
            exact ih g1 g2 (start + n) (acc + sz) (by omega) (by omega) (by omega)
    · have hlt' : ¬ (start : Int) < pyLenBuf hdr := by unfold pyLenBuf; omega
      rw [if_neg hlt', if_neg hlt]; rfl

theorem calculate_body_content_size_eq (hdr : Buf) (fuel : Nat) (hf : hdr.size < fuel) :
    PyFun.calculate_body_content_size fuel hdr = castN (calcBodyContentSize hdr) := by
  unfold PyFun.calculate_body_content_size calcBodyContentSize
  have h := cbcs_loop hdr hdr.size fuel hdr.size 0 0 (by omega) hf (by omega)
  simp only [Int.natCast_zero] at h
  rw [← h]
  dsimp only
  cases PyFun.calculate_body_content_size_loop1 hdr fuel 0 0 with
  | error e => rfl
  | ok r => rfl

end SqliteDissect.Proofs.GenFun
