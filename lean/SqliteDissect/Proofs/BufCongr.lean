/-
The cell constructors read a page buffer only below its size: two buffers with the same size
and the same bytes below it (`BufEq`, e.g. a buffer and `Buf.ofList` of its `toList`) are parsed
identically.  Used to carry the cell-level round trips (stated over `Buf.ofList`) over to whatever
buffer the version interface returns for a page.
-/
import SqliteDissect.Proofs.Record
namespace SqliteDissect.Proofs.BufCongr
open SqliteDissect SqliteDissect.Model
open SqliteDissect.Proofs.Codec SqliteDissect.Proofs.Record

/-- same size, same bytes below the size -/
def BufEq (a b : Buf) : Prop := a.size = b.size ∧ ∀ i, i < a.size → a.rd i = b.rd i

theorem BufEq.rfl' (a : Buf) : BufEq a a := ⟨rfl, fun _ _ => rfl⟩

theorem BufEq.symm {a b : Buf} (h : BufEq a b) : BufEq b a :=
  ⟨h.1.symm, fun i hi => (h.2 i (by rw [h.1]; exact hi)).symm⟩

theorem bufEq_of_toList (a b : Buf) (h : a.toList = b.toList) : BufEq a b := by
  have hs : a.size = b.size := by rw [← toList_length a, ← toList_length b, h]
  refine ⟨hs, fun i hi => ?_⟩
  have h1 : i < a.toList.length := by rw [toList_length]; exact hi
  have h2 : i < b.toList.length := by rw [toList_length, ← hs]; exact hi
  rw [← toList_getElem a i h1, ← toList_getElem b i h2]
  simp only [h]

theorem bufEq_ofList (a : Buf) : BufEq a (Buf.ofList a.toList) :=
  bufEq_of_toList _ _ (by rw [ofList_toList])

theorem toList_congr {a b : Buf} (h : BufEq a b) : a.toList = b.toList := by
  obtain ⟨hs, hr⟩ := h
  unfold Buf.toList
  rw [← hs]
  apply List.map_congr_left
  intro i hi
  exact hr i (List.mem_range.1 hi)

theorem slice_congr {a b : Buf} (h : BufEq a b) (lo hi : Nat) : BufEq (a.slice lo hi) (b.slice lo hi) := by
  obtain ⟨hs, hr⟩ := h
  refine ⟨by simp only [Buf.slice, hs], fun i hi' => ?_⟩
  simp only [Buf.slice] at hi' ⊢
  rw [← hs]
  apply hr
  omega

theorem pySlice_congr {a b : Buf} (h : BufEq a b) (lo hi : Int) :
    BufEq (pySlice a lo hi) (pySlice b lo hi) := by
  have hs := h.1
  unfold pySlice
  simp only [hs]
  exact slice_congr h _ _

theorem beN_congr {a b : Buf} (h : BufEq a b) (off : Nat) : ∀ n, off + n ≤ a.size →
    a.beN off n = b.beN off n := by
  intro n
  induction n with
  | zero => intro _; rfl
  | succ n ih =>
    intro hle
    simp only [Buf.beN]
    rw [ih (by omega), h.2 (off + n) (by omega)]

theorem unpackAt_congr {a b : Buf} (h : BufEq a b) (lo : Int) (n : Nat) :
    unpackAt a lo n = unpackAt b lo n := by
  have hp := pySlice_congr h lo (lo + n)
  unfold unpackAt
  simp only []
  rw [← hp.1]
  by_cases hsz : (pySlice a lo (lo + n)).size = n
  · rw [if_pos hsz, if_pos hsz, beN_congr hp 0 n (by omega)]
  · rw [if_neg hsz, if_neg hsz]

theorem dvLoop_congr {a b : Buf} (h : BufEq a b) (off : Nat) : ∀ (n v rel : Nat),
    dvLoop a off n v rel = dvLoop b off n v rel := by
  intro n
  induction n with
  | zero => intro v rel; rfl
  | succ n ih =>
    intro v rel
    simp only [dvLoop]
    rw [← h.1]
    by_cases hlt : off + rel < a.size
    · simp only [hlt, if_true, h.2 _ hlt, ih]
    · simp only [hlt, if_false]

theorem decodeVarint_congr {a b : Buf} (h : BufEq a b) (off : Nat) :
    decodeVarint a off = decodeVarint b off := by
  unfold decodeVarint
  rw [dvLoop_congr h]

theorem go_congr {a b : Buf} (h : BufEq a b) (off : Int) : ∀ (n v rel : Nat),
    decodeVarintI.go a off n v rel = decodeVarintI.go b off n v rel := by
  intro n
  induction n with
  | zero => intro v rel; rfl
  | succ n ih =>
    intro v rel
    have hp := pySlice_congr h (off + rel) (off + rel + 1)
    simp only [decodeVarintI.go]
    rw [← hp.1]
    by_cases hsz : (pySlice a (off + rel) (off + rel + 1)).size = 1
    · simp only [hsz, if_true, hp.2 0 (by omega), ih]
    · simp only [hsz, if_false]

theorem decodeVarintI_congr {a b : Buf} (h : BufEq a b) (off : Int) :
    decodeVarintI a off = decodeVarintI b off := by
  unfold decodeVarintI
  rw [decodeVarint_congr h, go_congr h]

theorem append_congr {a b c d : Buf} (h : BufEq a b) (h' : BufEq c d) :
    BufEq (a.append c) (b.append d) := by
  refine ⟨by simp only [Buf.append, h.1, h'.1], fun i hi => ?_⟩
  simp only [Buf.append] at hi ⊢
  rw [← h.1]
  by_cases hlt : i < a.size
  · simp only [hlt, if_true]; exact h.2 i hlt
  · simp only [hlt, if_false]; exact h'.2 _ (by omega)

theorem unpackN_congr {a b : Buf} (h : BufEq a b) (off n : Nat) : unpackN a off n = unpackN b off n := by
  unfold unpackN
  rw [← h.1]
  by_cases hle : off + n ≤ a.size
  · rw [if_pos hle, if_pos hle, beN_congr h off n hle]
  · rw [if_neg hle, if_neg hle]

theorem getRecordContent_congr {a b : Buf} (h : BufEq a b) (st : Int) (off : Nat) :
    getRecordContent st a off = getRecordContent st b off := by
  have e1 : ∀ off n, unpackN a off n = unpackN b off n := unpackN_congr h
  have e2 : ∀ lo hi, (a.slice lo hi).toList = (b.slice lo hi).toList :=
    fun lo hi => toList_congr (slice_congr h lo hi)
  unfold getRecordContent
  simp only [e1, e2]

theorem recordCols_congr {a b : Buf} (h : BufEq a b) (hs bs : Int) : ∀ (fuel : Nat) (hoff : Int)
    (boff : Nat) (acc : List RecordCol),
    recordCols a hs bs fuel hoff boff acc = recordCols b hs bs fuel hoff boff acc := by
  intro fuel
  induction fuel with
  | zero => intro _ _ _; rfl
  | succ fuel ih =>
    intro hoff boff acc
    have e1 : ∀ off, decodeVarintI a off = decodeVarintI b off := decodeVarintI_congr h
    have e2 : ∀ st off, getRecordContent st (pySlice a hs bs) off = getRecordContent st (pySlice b hs bs) off :=
      fun st off => getRecordContent_congr (pySlice_congr h hs bs) st off
    simp only [recordCols, e1, e2, ih]

theorem parseRecord_congr {a b : Buf} (h : BufEq a b) (po ps bf : Int) (ov : Buf) :
    parseRecord a po ps bf ov = parseRecord b po ps bf ov := by
  have e1 : ∀ off, decodeVarintI a off = decodeVarintI b off := decodeVarintI_congr h
  have hap : ∀ lo hi, BufEq ((pySlice a lo hi).append ov) ((pySlice b lo hi).append ov) :=
    fun lo hi => append_congr (pySlice_congr h lo hi) (BufEq.rfl' ov)
  have e2 : ∀ lo hi, ((pySlice a lo hi).append ov).size = ((pySlice b lo hi).append ov).size :=
    fun lo hi => (hap lo hi).1
  have e3 : ∀ lo hi, ((pySlice a lo hi).append ov).toList = ((pySlice b lo hi).append ov).toList :=
    fun lo hi => toList_congr (hap lo hi)
  have e4 : ∀ lo hi x y f o bo acc, recordCols ((pySlice a lo hi).append ov) x y f o bo acc
      = recordCols ((pySlice b lo hi).append ov) x y f o bo acc :=
    fun lo hi x y f o bo acc => recordCols_congr (hap lo hi) x y f o bo acc
  unfold parseRecord
  simp only [e1, e2, e3, e4]

theorem parsePayloadCell_congr {a b : Buf} (h : BufEq a b) (v : VersionIf) (kind : CellKind)
    (index start : Nat) (lc : Option Nat) (rowid : Option Int) (p : Int) (pl : Nat) :
    parsePayloadCell v kind a index start lc rowid p pl
      = parsePayloadCell v kind b index start lc rowid p pl := by
  have e1 : ∀ lo n, unpackAt a lo n = unpackAt b lo n := unpackAt_congr h
  have e2 : ∀ lo hi, (pySlice a lo hi).toList = (pySlice b lo hi).toList :=
    fun lo hi => toList_congr (pySlice_congr h lo hi)
  have e3 : ∀ po ps bf ov, parseRecord a po ps bf ov = parseRecord b po ps bf ov :=
    parseRecord_congr h
  unfold parsePayloadCell
  simp only [e1, e2, e3]

theorem parseCellLocal_congr {a b : Buf} (h : BufEq a b) (v : VersionIf) (kind : CellKind)
    (index start : Nat) :
    parseCellLocal v kind a index start = parseCellLocal v kind b index start := by
  have e1 : ∀ lo n, unpackAt a lo n = unpackAt b lo n := unpackAt_congr h
  have e2 : ∀ lo hi, (pySlice a lo hi).toList = (pySlice b lo hi).toList :=
    fun lo hi => toList_congr (pySlice_congr h lo hi)
  have e3 : ∀ off, decodeVarint a off = decodeVarint b off := decodeVarint_congr h
  have e4 : ∀ kind index start lc rowid p pl, parsePayloadCell v kind a index start lc rowid p pl
      = parsePayloadCell v kind b index start lc rowid p pl :=
    fun kind index start lc rowid p pl => parsePayloadCell_congr h v kind index start lc rowid p pl
  cases kind <;> simp only [parseCellLocal, e1, e2, e3, e4]

/-- the form used by the page-level proofs -/
theorem parseCellLocal_ofList (v : VersionIf) (kind : CellKind) (page : Buf) (bytes : List Nat)
    (hb : page.toList = bytes) (index start : Nat) :
    parseCellLocal v kind page index start = parseCellLocal v kind (Buf.ofList bytes) index start := by
  subst hb
  exact parseCellLocal_congr (bufEq_ofList page) v kind index start

end SqliteDissect.Proofs.BufCongr
