import SqliteDissect.Spec.HeaderStep

namespace SqliteDissect.Proofs.HeaderStep
open SqliteDissect SqliteDissect.Model

theorem classify_identical (h : DbHeader) (cs : Nat) (sm : Bool) :
    classifyDifferences h h cs sm = .ok {} := by
  unfold classifyDifferences
  rw [if_pos rfl]
  rfl

theorem ite_err {α : Type} {c : Prop} [Decidable c] {e : PyErr} {r : Py α} {x : α}
    (h : (if c then (Except.error e : Py α) else r) = .ok x) : ¬ c ∧ r = .ok x := by
  by_cases hc : c
  · simp [hc] at h
  · simp [hc] at h; exact ⟨hc, h⟩

theorem classify_sound (prev next : DbHeader) (cs : Nat) (sm : Bool) (fl : HeaderFlags)
    (h : classifyDifferences prev next cs sm = .ok fl) :
    prev = next ∨ Spec.HeaderStep prev next cs sm := by
  by_cases heq : prev = next
  · exact Or.inl heq
  · right
    unfold classifyDifferences at h
    rw [if_neg heq] at h
    obtain ⟨_, h⟩ := ite_err h
    obtain ⟨c1, h⟩ := ite_err h
    obtain ⟨c2, h⟩ := ite_err h
    obtain ⟨c3, h⟩ := ite_err h
    obtain ⟨c4, h⟩ := ite_err h
    obtain ⟨s1, h⟩ := ite_err h
    obtain ⟨l1, h⟩ := ite_err h
    obtain ⟨l2, h⟩ := ite_err h
    obtain ⟨k1, h⟩ := ite_err h
    obtain ⟨k2, h⟩ := ite_err h
    obtain ⟨k3, h⟩ := ite_err h
    obtain ⟨f1, h⟩ := ite_err h
    obtain ⟨f2, h⟩ := ite_err h
    obtain ⟨f3, h⟩ := ite_err h
    obtain ⟨f4, h⟩ := ite_err h
    obtain ⟨f5, h⟩ := ite_err h
    obtain ⟨f6, h⟩ := ite_err h
    obtain ⟨u1, h⟩ := ite_err h
    simp only [unhandledDiffers, decide_eq_true_eq] at u1
    clear h heq
    constructor
    · by_cases a : prev.changeCounter = next.changeCounter <;> by_cases b : prev.versionValidFor = next.versionValidFor
      · exact Or.inl ⟨a, b⟩
      · exact absurd ⟨b, fun x => x a⟩ c2
      · exact absurd ⟨a, fun x => x b⟩ c1
      · exact Or.inr ⟨Decidable.byContradiction fun x => c3 ⟨a, b, x⟩, Decidable.byContradiction fun x => c4 ⟨a, b, x⟩⟩
    · by_cases a : prev.sizeInPages = next.sizeInPages
      · exact Or.inl a
      · exact Or.inr (Decidable.byContradiction fun x => s1 ⟨a, x⟩)
    · clear c1 c2 c3 c4 s1 k1 k2 k3 f1 f2 f3 f4 f5 f6 u1
      omega
    · clear c1 c2 c3 c4 s1 l1 l2 k2 k3 f1 f2 f3 f4 f5 f6 u1
      omega
    · constructor
      · intro hk; cases hsm : sm with | true => rfl | false => exact absurd ⟨hk, by simp [hsm]⟩ k2
      · intro hs hk; exact k3 ⟨fun x => x hk, hs⟩
    · by_cases a : prev.schemaFormat = next.schemaFormat <;> by_cases b : prev.textEncoding = next.textEncoding
      · exact Or.inl ⟨a, b⟩
      · exact absurd ⟨b, fun x => x a⟩ f2
      · exact absurd ⟨a, fun x => x b⟩ f1
      · right
        refine ⟨a, b, ?_, ?_, ?_, ?_⟩
        · exact Decidable.byContradiction fun x => f3 ⟨a, b, x⟩
        · exact Decidable.byContradiction fun x => f4 ⟨a, b, x⟩
        · exact Decidable.byContradiction fun x => f6 ⟨a, b, x⟩
        · intro x; exact f5 ⟨a, b, fun y => y x⟩
    · clear c1 c2 c3 c4 s1 l1 l2 k1 k2 k3 f1 f2 f3 f4 f5 f6
      omega

/-- completeness of acceptance: every legal transition between two different headers is accepted,
and the flags say which fields moved -/
theorem classify_accepts (prev next : DbHeader) (cs : Nat) (sm : Bool)
    (hne : prev ≠ next) (hraw : prev.raw ≠ next.raw) (hs : Spec.HeaderStep prev next cs sm) :
    ∃ fl, classifyDifferences prev next cs sm = .ok fl ∧
      fl.changeCounterIncremented = decide (prev.changeCounter ≠ next.changeCounter) ∧
      fl.sizeModified = decide (prev.sizeInPages ≠ next.sizeInPages) ∧
      fl.cookieModified = decide (prev.schemaCookie ≠ next.schemaCookie) ∧
      fl.userVersionModified = decide (prev.userVersion ≠ next.userVersion) ∧
      fl.modFreelistPages = (if prev.freelistPages ≠ next.freelistPages then some next.freelistPages else none) ∧
      fl.modFirstTrunk = (if prev.firstFreelistTrunk ≠ next.firstFreelistTrunk then some next.firstFreelistTrunk else none) ∧
      fl.newEncoding = (if prev.textEncoding ≠ next.textEncoding then some next.textEncoding else none) := by
  obtain ⟨hc, hsz, hav, hck, hcs, hfe, hfx⟩ := hs
  unfold classifyDifferences
  rw [if_neg hne, if_neg hraw]
  rw [if_neg (by rcases hc with ⟨a, b⟩ | ⟨a, b⟩ <;> omega)]
  rw [if_neg (by rcases hc with ⟨a, b⟩ | ⟨a, b⟩ <;> omega)]
  rw [if_neg (by rcases hc with ⟨a, b⟩ | ⟨a, b⟩ <;> omega)]
  rw [if_neg (by rcases hc with ⟨a, b⟩ | ⟨a, b⟩ <;> omega)]
  rw [if_neg (by rcases hsz with a | a <;> omega)]
  rw [if_neg (by omega), if_neg (by omega)]
  rw [if_neg (by omega)]
  rw [if_neg (by intro ⟨a, b⟩; exact b (hcs.mp a))]
  rw [if_neg (by intro ⟨a, b⟩; exact a (hcs.mpr b))]
  rw [if_neg (by rcases hfe with ⟨a, b⟩ | ⟨a, b, _⟩ <;> intro ⟨x, y⟩ <;> first | exact x a | exact y b)]
  rw [if_neg (by rcases hfe with ⟨a, b⟩ | ⟨a, b, _⟩ <;> intro ⟨x, y⟩ <;> first | exact x b | exact y a)]
  rw [if_neg (by rcases hfe with ⟨a, b⟩ | ⟨a, b, c, _⟩ <;> intro ⟨x, y, z⟩ <;> first | exact x a | exact z c)]
  rw [if_neg (by rcases hfe with ⟨a, b⟩ | ⟨a, b, c, d, _⟩ <;> intro ⟨x, y, z⟩ <;> first | exact x a | exact z d)]
  rw [if_neg (by rcases hfe with ⟨a, b⟩ | ⟨a, b, c, d, e, f⟩ <;> intro ⟨x, y, z⟩ <;> first | exact x a | exact z f)]
  rw [if_neg (by rcases hfe with ⟨a, b⟩ | ⟨a, b, c, d, e, f⟩ <;> intro ⟨x, y, z⟩ <;> first | exact x a | exact z e)]
  rw [if_neg (by simp only [unhandledDiffers, decide_eq_true_eq]; omega)]
  refine ⟨_, rfl, ?_, rfl, rfl, rfl, rfl, rfl, ?_⟩
  · rcases hc with ⟨a, b⟩ | ⟨a, b⟩ <;> simp <;> omega
  · rcases hfe with ⟨a, b⟩ | ⟨a, b, _⟩ <;> simp [a, b]

theorem check_iff (prev next : DbHeader) (cs : Nat) (sm : Bool) :
    Spec.headerStepB prev next cs sm = true ↔ Spec.HeaderStep prev next cs sm := by
  unfold Spec.headerStepB
  simp only [Bool.and_eq_true, decide_eq_true_eq]
  constructor
  · rintro ⟨⟨⟨⟨⟨⟨a, b⟩, c⟩, d⟩, e⟩, f⟩, g⟩
    exact ⟨a, b, c, d, e, f, g⟩
  · rintro ⟨a, b, c, d, e, f, g⟩
    exact ⟨⟨⟨⟨⟨⟨a, b⟩, c⟩, d⟩, e⟩, f⟩, g⟩

end SqliteDissect.Proofs.HeaderStep
