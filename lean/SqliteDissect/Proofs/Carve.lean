/-
Helper lemmas and proofs for C08 / C09 (carving completes / carved records are backed / no re-report /
the digest / the rollback journal carver), against the model of the repaired carving code.
Statements are fixed by the orchestrating agent; proofs to be supplied.
-/
import SqliteDissect.Model.Carve
import SqliteDissect.Proofs.Codec

namespace SqliteDissect.Proofs.Carve
open SqliteDissect SqliteDissect.Model SqliteDissect.Model.Carve

/-! ### generic helpers -/

theorem bind_ok {ε α β : Type} {x : Except ε α} {f : α → Except ε β} {b : β}
    (h : (x >>= f) = .ok b) : ∃ a, x = .ok a ∧ f a = .ok b := by
  cases x with
  | error e => cases h
  | ok a => exact ⟨a, rfl, h⟩

def errOf {α : Type} : Py α → Option PyErr
  | .error e => some e
  | .ok _ => none

theorem of_errOf {α : Type} {x : Py α} {e : PyErr} (h : errOf x = some e) : x = .error e := by
  cases x with
  | error e' => simp [errOf] at h; rw [h]
  | ok a => simp [errOf] at h

/-! ### completes -/

/-- a signature the carver can work with: some column, both patterns can be generated, and the
column count is that of the simplified signature -/
def SigOk (sig : CarveSig) : Prop :=
  ∃ fc simplified pf pp, chosenSignature sig = .ok (fc, simplified) ∧
    Regex.genSignature simplified false = .ok pf ∧ Regex.genSignature simplified true = .ok pp ∧
    sig.numberOfColumns = simplified.length

/-- two one-byte-integer columns, region `01 01 05 06 00 01 01 07 08`: a full match at offset 0 and a
second one -/
def sig11 : CarveSig := ⟨2, 5, [[1], [1]], [], [[(1, 5, 5)], [(1, 5, 5)]]⟩
def dataNone : Buf := Buf.ofList [1, 1, 5, 6, 0, 1, 1, 7, 8]

/-- `x` completed with exactly `n` cells -/
def okLen (x : Py (List CarvedCell)) (n : Nat) : Bool :=
  match x with
  | .ok cells => decide (cells.length = n)
  | .error _ => false

theorem of_okLen {x : Py (List CarvedCell)} {n : Nat} (h : okLen x n = true) :
    ∃ cells, x = .ok cells ∧ cells.length = n := by
  cases x with
  | error e => cases h
  | ok cells => exact ⟨cells, rfl, by simpa [okLen] using h⟩

/-- former witness 1 (`int >= None`): the lower bound is assigned now -/
theorem fixed_none_compare :
    ∃ cells, carveUnallocated sig11 1024 2 1024 100 dataNone = .ok cells ∧ cells.length = 2 := by
  apply of_okLen; decide +kernel

/-- former witness 2 (`"" += bytes`): columns (4-byte int, 1-byte int), freeblock content `01 05`, size 6 -/
def sig41 : CarveSig := ⟨2, 5, [[4], [1]], [], [[(4, 5, 5)], [(1, 5, 5)]]⟩
theorem fixed_str_plus_bytes :
    ∃ cells, carveFreeblocks sig41 1024 [⟨2, 0, 200, 204, 6, Buf.ofList [1, 5], 1024⟩] = .ok cells ∧
      cells.length = 1 := by
  apply of_okLen; decide +kernel

/-- former witness 3 (`bytearray.encode`): single NULL column, empty unallocated region -/
def sig0 : CarveSig := ⟨1, 5, [[0]], [], [[(0, 5, 5)]]⟩
theorem fixed_bytearray :
    ∃ cells, carveUnallocated sig0 1024 2 1024 100 Buf.empty = .ok cells ∧ cells.length = 1 := by
  apply of_okLen; decide +kernel

/-- former witness 4 (unpacking a returned exception object): columns (blob, NULL), freeblock content
`ff ff ff ff ff ff ff 05 00` -/
def sigB0 : CarveSig := ⟨2, 8, [[-1], [0]], [], [[(-1, 8, 8)], [(0, 8, 8)]]⟩
theorem fixed_error_object :
    ∃ cells, carveFreeblocks sigB0 4096
        [⟨2, 0, 12, 16, 13, Buf.ofList [255, 255, 255, 255, 255, 255, 255, 5, 0], 4096⟩] = .ok cells ∧
      cells.length = 1 := by
  apply of_okLen; decide +kernel

/-- the input of the former `ord()` escape (single NULL column, freeblock content `02 c0`) now carves -/
theorem fixed_ord_empty :
    ∃ cells, carveFreeblocks sig0 65536 [⟨2, 0, 8, 12, 6, Buf.ofList [2, 0xc0], 65536⟩] = .ok cells ∧
      cells.length = 2 := by
  apply of_okLen; decide +kernel

theorem sigOk_sig11 : SigOk sig11 :=
  ⟨[1], [[1], [1]], .seq [.lit 1, .lit 1], .seq [.lit 1], rfl, rfl, rfl, rfl⟩

theorem dataNone_WF : dataNone.WF := by
  apply Codec.ofList_WF
  decide

theorem uncarvedLoop_some (len n : Nat) : ∀ (ms : List (Nat × Nat)) (idx : Nat) (last : Option Nat),
    idx ≠ 0 → last.isSome = true → ∀ iv ∈ uncarvedLoop len n ms idx last, iv.1.isSome = true := by
  intro ms
  induction ms with
  | nil => intro idx last _ _ iv hiv; simp [uncarvedLoop] at hiv
  | cons se rest ih =>
    obtain ⟨s, e⟩ := se
    intro idx last hidx hlast iv hiv
    unfold uncarvedLoop at hiv
    have h1 : ¬ (idx = 0 ∧ idx ≠ n - 1) := fun h => hidx h.1
    have h2 : ¬ (idx = 0 ∧ idx = n - 1) := fun h => hidx h.1
    rw [if_neg h1, if_neg h2] at hiv
    split at hiv
    · rcases List.mem_cons.mp hiv with rfl | hiv
      · exact hlast
      · exact ih (idx + 1) (some e) (by omega) rfl iv hiv
    · rcases List.mem_cons.mp hiv with rfl | hiv
      · exact hlast
      · split at hiv
        · rcases List.mem_cons.mp hiv with rfl | hiv
          · rfl
          · exact ih (idx + 1) last (by omega) hlast iv hiv
        · exact ih (idx + 1) last (by omega) hlast iv hiv

/-- after the repair every uncarved interval has a lower bound, whatever the full matches are -/
theorem uncarved_bounded (len : Nat) (ms : List (Nat × Nat)) :
    ∀ iv ∈ uncarved len ms, iv.1.isSome = true := by
  intro iv hiv
  unfold uncarved at hiv
  cases ms with
  | nil => simp at hiv; rw [hiv]; rfl
  | cons se rest =>
    obtain ⟨s, e⟩ := se
    simp only [List.isEmpty_cons, Bool.false_eq_true, if_false] at hiv
    unfold uncarvedLoop at hiv
    by_cases hn : rest.length = 0
    · have hrest : rest = [] := List.length_eq_zero_iff.mp hn
      subst hrest
      simp [uncarvedLoop] at hiv
      rcases hiv with rfl | hiv
      · rfl
      · rw [hiv.2]; rfl
    · have h1 : (0 = 0 ∧ 0 ≠ ((s, e) :: rest).length - 1) := ⟨rfl, by simp; omega⟩
      rw [if_pos h1] at hiv
      by_cases hs : s = 0
      · simp only [hs, ne_eq, not_true_eq_false, if_false] at hiv
        exact uncarvedLoop_some len _ rest (0 + 1) (some e) (by omega) rfl iv hiv
      · simp only [hs, ne_eq, not_false_eq_true, if_true] at hiv
        rcases List.mem_cons.mp hiv with rfl | hiv
        · rfl
        · exact uncarvedLoop_some len _ rest (0 + 1) (some e) (by omega) rfl iv hiv

/-- a candidate constructor that never lets an exception escape -/
def NoEscape (mk : Nat → Nat → Nat → Py (Option CarvedCell)) : Prop :=
  ∀ s e co, ∃ r, mk s e co = .ok r

theorem reverseLoop_ok (mk : Nat → Nat → Nat → Py (Option CarvedCell)) (h : NoEscape mk) :
    ∀ (ms : List (Nat × Nat)) (co : Nat), ∃ cells, reverseLoop mk ms co = .ok cells := by
  intro ms
  induction ms with
  | nil => intro co; exact ⟨[], rfl⟩
  | cons se rest ih =>
    obtain ⟨s, e⟩ := se
    intro co
    obtain ⟨r, hr⟩ := h s e co
    unfold reverseLoop
    rw [hr]
    cases r with
    | none => exact ih co
    | some c =>
      obtain ⟨cs, hcs⟩ := ih s
      simp only [hcs]
      exact ⟨_, rfl⟩

theorem partialInner_ok (mk : Nat → Nat → Nat → Py (Option CarvedCell)) (h : NoEscape mk) (s e : Nat) :
    ∀ (ivs : List (Option Nat × Nat)), (∀ iv ∈ ivs, iv.1.isSome = true) →
    ∀ pc, ∃ r, partialInner mk s e ivs pc = .ok r := by
  intro ivs
  induction ivs with
  | nil => intro _ pc; exact ⟨_, rfl⟩
  | cons iv rest ih =>
    obtain ⟨lo, hi⟩ := iv
    intro hiv pc
    have hlo := hiv (lo, hi) (List.mem_cons_self)
    have ih' := ih (fun iv hm => hiv iv (List.mem_cons_of_mem _ hm))
    cases lo with
    | none => simp at hlo
    | some lo =>
      unfold partialInner
      simp only
      split
      · obtain ⟨r, hr⟩ := h s e (min hi pc)
        rw [hr]
        cases r with
        | none => exact ih' pc
        | some c =>
          obtain ⟨⟨cs, pc'⟩, hcs⟩ := ih' s
          simp only [hcs]
          exact ⟨_, rfl⟩
      · exact ih' pc

theorem partialOuter_ok (mk : Nat → Nat → Nat → Py (Option CarvedCell)) (h : NoEscape mk)
    (ivs : List (Option Nat × Nat)) (hiv : ∀ iv ∈ ivs, iv.1.isSome = true) :
    ∀ (pms : List (Nat × Nat)) (pc : Nat), ∃ cells, partialOuter mk ivs pms pc = .ok cells := by
  intro pms
  induction pms with
  | nil => intro pc; exact ⟨_, rfl⟩
  | cons se rest ih =>
    obtain ⟨s, e⟩ := se
    intro pc
    obtain ⟨⟨cs, pc'⟩, hr⟩ := partialInner_ok mk h s e ivs hiv pc
    obtain ⟨cs', hr'⟩ := ih pc'
    unfold partialOuter
    simp only [hr, hr']
    exact ⟨_, rfl⟩

/-- the candidate constructors of `carveUnallocated` -/
def mkFull (sig : CarveSig) (ps pn po rs : Nat) (data : Buf) : Nat → Nat → Nat → Py (Option CarvedCell) :=
  fun s e cutoff => tryCarve (po + rs + s) pn 0
    { loc := .unallocated, data, s, e, cutoff, nCols := sig.numberOfColumns, sig,
      firstCol := none, fbSize := none, pageSize := ps }

def mkPartial (sig : CarveSig) (fc : List Int) (ps pn po rs : Nat) (data : Buf) :
    Nat → Nat → Nat → Py (Option CarvedCell) :=
  fun s e cutoff => tryCarve (po + (rs + s)) pn 0
    { loc := .unallocated, data, s, e, cutoff, nCols := sig.numberOfColumns, sig,
      firstCol := some fc, fbSize := none, pageSize := ps }

theorem carveUnallocated_eq (sig : CarveSig) (fc : List Int) (simplified : List (List Int)) (pf pp : Regex.Pat)
    (hc : chosenSignature sig = .ok (fc, simplified))
    (hpf : Regex.genSignature simplified false = .ok pf) (hpp : Regex.genSignature simplified true = .ok pp)
    (ps pn po rs : Nat) (data : Buf) :
    carveUnallocated sig ps pn po rs data =
      (match reverseLoop (mkFull sig ps pn po rs data) (Regex.finditer pf data.toList).reverse data.size with
       | .error e => .error e
       | .ok full =>
         match partialOuter (mkPartial sig fc ps pn po rs data)
             (uncarved data.size (Regex.finditer pf data.toList)).reverse
             (Regex.finditer pp data.toList).reverse data.size with
         | .error e => .error e
         | .ok part => .ok (full ++ part)) := by
  unfold carveUnallocated
  simp only [hc, bind, Except.bind, hpf, hpp]
  unfold mkFull mkPartial
  cases reverseLoop _ (Regex.finditer pf data.toList).reverse data.size with
  | error e => rfl
  | ok full =>
    simp only
    cases partialOuter _ (uncarved data.size (Regex.finditer pf data.toList)).reverse
        (Regex.finditer pp data.toList).reverse data.size with
    | error e => rfl
    | ok part => rfl

/-- PARTIAL: with the remaining defect class excluded by hypothesis (every candidate constructor
absorbs its exceptions) carving completes -/
theorem completes_partial (sig : CarveSig) (fc : List Int) (simplified : List (List Int)) (pf pp : Regex.Pat)
    (hc : chosenSignature sig = .ok (fc, simplified))
    (hpf : Regex.genSignature simplified false = .ok pf) (hpp : Regex.genSignature simplified true = .ok pp)
    (ps pn po rs : Nat) (data : Buf)
    (hfull : NoEscape (mkFull sig ps pn po rs data))
    (hpart : NoEscape (mkPartial sig fc ps pn po rs data)) :
    ∃ cells, carveUnallocated sig ps pn po rs data = .ok cells := by
  rw [carveUnallocated_eq sig fc simplified pf pp hc hpf hpp]
  obtain ⟨full, hf⟩ := reverseLoop_ok _ hfull (Regex.finditer pf data.toList).reverse data.size
  have hiv : ∀ iv ∈ (uncarved data.size (Regex.finditer pf data.toList)).reverse, iv.1.isSome = true := by
    intro iv hm
    exact uncarved_bounded _ _ iv (List.mem_reverse.mp hm)
  obtain ⟨part, hp⟩ := partialOuter_ok _ hpart _ hiv (Regex.finditer pp data.toList).reverse data.size
  simp only [hf, hp]
  exact ⟨_, rfl⟩

/-! ### completes, restricted to the candidates actually processed -/

/-- the candidate constructor absorbs its exceptions on the candidates of `ms` -/
def NoEscapeOn (mk : Nat → Nat → Nat → Py (Option CarvedCell)) (ms : List (Nat × Nat)) : Prop :=
  ∀ se ∈ ms, ∀ co, ∃ r, mk se.1 se.2 co = .ok r

theorem NoEscapeOn_reverse (mk : Nat → Nat → Nat → Py (Option CarvedCell)) (ms : List (Nat × Nat))
    (h : NoEscapeOn mk ms) : NoEscapeOn mk ms.reverse :=
  fun se hse co => h se (List.mem_reverse.mp hse) co

theorem reverseLoop_ok_on (mk : Nat → Nat → Nat → Py (Option CarvedCell)) (ms : List (Nat × Nat))
    (h : NoEscapeOn mk ms) :
    ∀ (co : Nat), ∃ cells, reverseLoop mk ms co = .ok cells := by
  induction ms with
  | nil => intro co; exact ⟨[], rfl⟩
  | cons se rest ih =>
    obtain ⟨s, e⟩ := se
    have ih' := ih (fun se hse co => h se (List.mem_cons_of_mem _ hse) co)
    intro co
    obtain ⟨r, hr⟩ := h (s, e) List.mem_cons_self co
    unfold reverseLoop
    simp only at hr
    rw [hr]
    cases r with
    | none => exact ih' co
    | some c =>
      obtain ⟨cs, hcs⟩ := ih' s
      simp only [hcs]
      exact ⟨_, rfl⟩

theorem partialInner_ok_on (mk : Nat → Nat → Nat → Py (Option CarvedCell)) (s e : Nat)
    (h : ∀ co, ∃ r, mk s e co = .ok r) :
    ∀ (ivs : List (Option Nat × Nat)), (∀ iv ∈ ivs, iv.1.isSome = true) →
    ∀ pc, ∃ r, partialInner mk s e ivs pc = .ok r := by
  intro ivs
  induction ivs with
  | nil => intro _ pc; exact ⟨_, rfl⟩
  | cons iv rest ih =>
    obtain ⟨lo, hi⟩ := iv
    intro hiv pc
    have hlo := hiv (lo, hi) (List.mem_cons_self)
    have ih' := ih (fun iv hm => hiv iv (List.mem_cons_of_mem _ hm))
    cases lo with
    | none => simp at hlo
    | some lo =>
      unfold partialInner
      simp only
      split
      · obtain ⟨r, hr⟩ := h (min hi pc)
        rw [hr]
        cases r with
        | none => exact ih' pc
        | some c =>
          obtain ⟨⟨cs, pc'⟩, hcs⟩ := ih' s
          simp only [hcs]
          exact ⟨_, rfl⟩
      · exact ih' pc

theorem partialOuter_ok_on (mk : Nat → Nat → Nat → Py (Option CarvedCell)) (ivs : List (Option Nat × Nat))
    (hiv : ∀ iv ∈ ivs, iv.1.isSome = true) (pms : List (Nat × Nat)) (h : NoEscapeOn mk pms) :
    ∀ (pc : Nat), ∃ cells, partialOuter mk ivs pms pc = .ok cells := by
  induction pms with
  | nil => intro pc; exact ⟨_, rfl⟩
  | cons se rest ih =>
    obtain ⟨s, e⟩ := se
    have ih' := ih (fun se hse co => h se (List.mem_cons_of_mem _ hse) co)
    intro pc
    obtain ⟨⟨cs, pc'⟩, hr⟩ :=
      partialInner_ok_on mk s e (fun co => h (s, e) List.mem_cons_self co) ivs hiv pc
    obtain ⟨cs', hr'⟩ := ih' pc'
    unfold partialOuter
    simp only [hr, hr']
    exact ⟨_, rfl⟩

/-- PARTIAL: as `completes_partial`, with the absorption hypothesis only on the matches the two loops
actually process -/
theorem completes_partial_on (sig : CarveSig) (fc : List Int) (simplified : List (List Int)) (pf pp : Regex.Pat)
    (hc : chosenSignature sig = .ok (fc, simplified))
    (hpf : Regex.genSignature simplified false = .ok pf) (hpp : Regex.genSignature simplified true = .ok pp)
    (ps pn po rs : Nat) (data : Buf)
    (hfull : NoEscapeOn (mkFull sig ps pn po rs data) (Regex.finditer pf data.toList))
    (hpart : NoEscapeOn (mkPartial sig fc ps pn po rs data) (Regex.finditer pp data.toList)) :
    ∃ cells, carveUnallocated sig ps pn po rs data = .ok cells := by
  rw [carveUnallocated_eq sig fc simplified pf pp hc hpf hpp]
  obtain ⟨full, hf⟩ := reverseLoop_ok_on _ _ (NoEscapeOn_reverse _ _ hfull) data.size
  have hiv : ∀ iv ∈ (uncarved data.size (Regex.finditer pf data.toList)).reverse, iv.1.isSome = true := by
    intro iv hm
    exact uncarved_bounded _ _ iv (List.mem_reverse.mp hm)
  obtain ⟨part, hp⟩ := partialOuter_ok_on _ _ hiv _ (NoEscapeOn_reverse _ _ hpart) data.size
  simp only [hf, hp]
  exact ⟨_, rfl⟩

/-- the constructor result is caught (or is a record) -/
def absorbed : CM CarvedRec → Bool
  | .ok _ => true
  | .error .cellCarving => true
  | .error (.py .valueError) => true
  | .error (.py _) => false

theorem tryCarve_ok_of (fo pn ix : Nat) (i : RecIn) (h : absorbed (carvedRecord i) = true) :
    ∃ r, tryCarve fo pn ix i = .ok r := by
  unfold tryCarve
  split
  · exact ⟨_, rfl⟩
  · exact ⟨_, rfl⟩
  · exact ⟨_, rfl⟩
  · rename_i e hne heq
    rw [heq] at h
    unfold absorbed at h
    split at h
    · rename_i h'; cases h'
    · rename_i h'; cases h'
    · rename_i h'; cases h'; exact absurd rfl hne
    · cases h

/-- `carvedRecord` does not look at the cutoff -/
theorem carvedRecord_cutoff (i : RecIn) (co : Nat) : carvedRecord { i with cutoff := co } = carvedRecord i := rfl

theorem absorbed_cutoff (i : RecIn) (co : Nat) (h : absorbed (carvedRecord i) = true) :
    absorbed (carvedRecord { i with cutoff := co }) = true := h

/-- non-vacuity of `completes_partial_on`: two one-byte-integer columns, region `00 01 01 05 06` -/
theorem completes_partial_on_nonvacuous :
    ∃ (fc : List Int) (simplified : List (List Int)) (pf pp : Regex.Pat),
      chosenSignature sig11 = .ok (fc, simplified) ∧ Regex.genSignature simplified false = .ok pf ∧
      Regex.genSignature simplified true = .ok pp ∧
      NoEscapeOn (mkFull sig11 1024 2 1024 100 (Buf.ofList [0, 1, 1, 5, 6])) (Regex.finditer pf [0, 1, 1, 5, 6]) ∧
      NoEscapeOn (mkPartial sig11 fc 1024 2 1024 100 (Buf.ofList [0, 1, 1, 5, 6])) (Regex.finditer pp [0, 1, 1, 5, 6]) := by
  have hf : Regex.finditer (.seq [.lit 1, .lit 1]) [0, 1, 1, 5, 6] = [(1, 3)] := by decide +kernel
  have hp : Regex.finditer (.seq [.lit 1]) [0, 1, 1, 5, 6] = [(1, 2), (2, 3)] := by decide +kernel
  refine ⟨[1], [[1], [1]], .seq [.lit 1, .lit 1], .seq [.lit 1], rfl, rfl, rfl, ?_, ?_⟩
  · rw [hf]
    intro se hse co
    rw [List.mem_singleton] at hse
    subst hse
    apply tryCarve_ok_of
    refine absorbed_cutoff ⟨.unallocated, Buf.ofList [0, 1, 1, 5, 6], 1, 3, 0, sig11.numberOfColumns, sig11,
        none, none, 1024⟩ co ?_
    decide +kernel
  · rw [hp]
    intro se hse co
    simp only [List.mem_cons, List.not_mem_nil, or_false] at hse
    rcases hse with rfl | rfl
    · apply tryCarve_ok_of
      refine absorbed_cutoff ⟨.unallocated, Buf.ofList [0, 1, 1, 5, 6], 1, 2, 0, sig11.numberOfColumns, sig11,
        some [1], none, 1024⟩ co ?_
      decide +kernel
    · apply tryCarve_ok_of
      refine absorbed_cutoff ⟨.unallocated, Buf.ofList [0, 1, 1, 5, 6], 2, 3, 0, sig11.numberOfColumns, sig11,
        some [1], none, 1024⟩ co ?_
      decide +kernel

/-- … and `completes_partial_on` applied to it -/
theorem completes_partial_on_instance :
    ∃ cells, carveUnallocated sig11 1024 2 1024 100 (Buf.ofList [0, 1, 1, 5, 6]) = .ok cells := by
  obtain ⟨fc, simplified, pf, pp, hc, hpf, hpp, hfull, hpart⟩ := completes_partial_on_nonvacuous
  have ht : (Buf.ofList [0, 1, 1, 5, 6]).toList = [0, 1, 1, 5, 6] := Codec.ofList_toList _
  exact completes_partial_on sig11 fc simplified pf pp hc hpf hpp 1024 2 1024 100 _
    (by rw [ht]; exact hfull) (by rw [ht]; exact hpart)

/-- the only exception classes `tryCarve` lets through are not the two the carver catches -/
theorem tryCarve_absorbs (fo pn ix : Nat) (i : RecIn) (e : PyErr) (h : tryCarve fo pn ix i = .error e) :
    e ≠ .valueError := by
  unfold tryCarve at h
  split at h
  · cases h
  · cases h
  · cases h
  · rename_i e' hne _
    cases h
    intro heq
    subst heq
    exact hne rfl

/-! ### backed -/

theorem reverseLoop_mem (mk : Nat → Nat → Nat → Py (Option CarvedCell)) :
    ∀ (ms : List (Nat × Nat)) (co : Nat) (cells : List CarvedCell), reverseLoop mk ms co = .ok cells →
    ∀ c ∈ cells, ∃ s e co2, (s, e) ∈ ms ∧ mk s e co2 = .ok (some c) := by
  intro ms
  induction ms with
  | nil => intro co cells h c hc; simp [reverseLoop] at h; subst h; simp at hc
  | cons se rest ih =>
    obtain ⟨s, e⟩ := se
    intro co cells h c hc
    unfold reverseLoop at h
    split at h
    · cases h
    · obtain ⟨s', e', co2, hm, hk⟩ := ih co cells h c hc
      exact ⟨s', e', co2, List.mem_cons_of_mem _ hm, hk⟩
    · rename_i c0 hmk
      split at h
      · cases h
      · rename_i cs hcs
        cases h
        rcases List.mem_cons.mp hc with rfl | hc
        · exact ⟨s, e, co, List.mem_cons_self, hmk⟩
        · obtain ⟨s', e', co2, hm, hk⟩ := ih s cs hcs c hc
          exact ⟨s', e', co2, List.mem_cons_of_mem _ hm, hk⟩

theorem partialInner_mem (mk : Nat → Nat → Nat → Py (Option CarvedCell)) (s e : Nat) :
    ∀ (ivs : List (Option Nat × Nat)) (pc : Nat) (cells : List CarvedCell) (pc' : Nat),
    partialInner mk s e ivs pc = .ok (cells, pc') →
    ∀ c ∈ cells, ∃ co2, mk s e co2 = .ok (some c) := by
  intro ivs
  induction ivs with
  | nil => intro pc cells pc' h c hc; simp [partialInner] at h; rw [h.1] at hc; simp at hc
  | cons iv rest ih =>
    obtain ⟨lo, hi⟩ := iv
    intro pc cells pc' h c hc
    unfold partialInner at h
    simp only at h
    split at h
    · cases h
    · split at h
      · split at h
        · cases h
        · exact ih pc cells pc' h c hc
        · rename_i c0 hmk
          split at h
          · cases h
          · rename_i cs pc'' hcs
            cases h
            rcases List.mem_cons.mp hc with rfl | hc
            · exact ⟨_, hmk⟩
            · exact ih s cs pc' hcs c hc
      · exact ih pc cells pc' h c hc

theorem partialOuter_mem (mk : Nat → Nat → Nat → Py (Option CarvedCell)) (ivs : List (Option Nat × Nat)) :
    ∀ (pms : List (Nat × Nat)) (pc : Nat) (cells : List CarvedCell), partialOuter mk ivs pms pc = .ok cells →
    ∀ c ∈ cells, ∃ s e co2, (s, e) ∈ pms ∧ mk s e co2 = .ok (some c) := by
  intro pms
  induction pms with
  | nil => intro pc cells h c hc; simp [partialOuter] at h; subst h; simp at hc
  | cons se rest ih =>
    obtain ⟨s, e⟩ := se
    intro pc cells h c hc
    unfold partialOuter at h
    split at h
    · cases h
    · rename_i cs pc' hin
      split at h
      · cases h
      · rename_i cs' hout
        cases h
        rcases List.mem_append.mp hc with hc | hc
        · obtain ⟨co2, hk⟩ := partialInner_mem mk s e ivs pc cs pc' hin c hc
          exact ⟨s, e, co2, List.mem_cons_self, hk⟩
        · obtain ⟨s', e', co2, hm, hk⟩ := ih pc' cs' hout c hc
          exact ⟨s', e', co2, List.mem_cons_of_mem _ hm, hk⟩

theorem tryCarve_shape (fo pn ix : Nat) (i : RecIn) (c : CarvedCell) (h : tryCarve fo pn ix i = .ok (some c)) :
    c.fileOffset = fo ∧ c.pageNumber = pn ∧ c.loc = i.loc ∧ c.index = ix ∧ c.matchStart = i.s ∧
    c.matchEnd = i.e ∧ carvedRecord i = .ok c.rec_ := by
  unfold tryCarve at h
  split at h
  · rename_i r hr
    cases h
    exact ⟨rfl, rfl, rfl, rfl, rfl, rfl, hr⟩
  · cases h
  · cases h
  · cases h

theorem chosen_cases (sig : CarveSig) :
    (∃ e, chosenSignature sig = .error e) ∨ ∃ fc simplified, chosenSignature sig = .ok (fc, simplified) := by
  cases h : chosenSignature sig with
  | error e => exact Or.inl ⟨e, rfl⟩
  | ok p => exact Or.inr ⟨p.1, p.2, rfl⟩

/-- every cell of `carveUnallocated` comes out of one of the two constructors on a match -/
theorem unallocated_mem (sig : CarveSig) (ps pn po rs : Nat) (data : Buf)
    (cells : List CarvedCell) (h : carveUnallocated sig ps pn po rs data = .ok cells) :
    ∀ c ∈ cells, ∃ (fo s e co2 : Nat) (fc2 : Option (List Int)) (pat : Regex.Pat), (s, e) ∈ Regex.finditer pat data.toList ∧ fo = po + rs + s ∧
      tryCarve fo pn 0
        { loc := .unallocated, data := data, s := s, e := e, cutoff := co2,
          nCols := sig.numberOfColumns, sig := sig, firstCol := fc2, fbSize := none, pageSize := ps } = .ok (some c) := by
  intro c hc
  rcases chosen_cases sig with ⟨e, he⟩ | ⟨fc, simplified, hcs⟩
  · unfold carveUnallocated at h; simp only [he, bind, Except.bind] at h; cases h
  cases hpf : Regex.genSignature simplified false with
  | error e => unfold carveUnallocated at h; simp only [hcs, hpf, bind, Except.bind] at h; cases h
  | ok pf =>
  cases hpp : Regex.genSignature simplified true with
  | error e =>
    unfold carveUnallocated at h; simp only [hcs, hpf, hpp, bind, Except.bind] at h
    split at h
    · cases h
    · cases h
  | ok pp =>
  rw [carveUnallocated_eq sig fc simplified pf pp hcs hpf hpp] at h
  split at h
  · cases h
  · rename_i full hfull
    split at h
    · cases h
    · rename_i part hpart
      cases h
      rcases List.mem_append.mp hc with hc | hc
      · obtain ⟨s, e, co2, hm, hk⟩ := reverseLoop_mem _ _ _ _ hfull c hc
        exact ⟨_, s, e, co2, none, pf, List.mem_reverse.mp hm, rfl, hk⟩
      · obtain ⟨s, e, co2, hm, hk⟩ := partialOuter_mem _ _ _ _ _ hpart c hc
        exact ⟨_, s, e, co2, some fc, pp, List.mem_reverse.mp hm, (Nat.add_assoc _ _ _).symm, hk⟩

/-- every cell carved from an unallocated region: offset arithmetic, location, and the match it
came from -/
theorem unallocated_offsets (sig : CarveSig) (ps pn po rs : Nat) (data : Buf)
    (cells : List CarvedCell) (h : carveUnallocated sig ps pn po rs data = .ok cells) :
    ∀ c ∈ cells, c.fileOffset = po + rs + c.matchStart ∧ c.loc = .unallocated ∧ c.pageNumber = pn := by
  intro c hc
  obtain ⟨fo, s, e, co2, fc2, pat, _, hfo, hk⟩ := unallocated_mem sig ps pn po rs data cells h c hc
  obtain ⟨h1, h2, h3, _, h5, _, _⟩ := tryCarve_shape _ _ _ _ _ hk
  rw [h1, h2, h3, h5, hfo]
  exact ⟨rfl, rfl, rfl⟩

theorem freeblocks_mem (sig : CarveSig) (ps : Nat) (fb : FbIn) (cells : List CarvedCell)
    (h : carveFreeblocks sig ps [fb] = .ok cells) :
    ∀ c ∈ cells, ∃ s e co2 fc pat, (s, e) ∈ Regex.finditer pat fb.content.toList ∧
      tryCarve (fb.pageOffset + fb.contentStart + s) fb.pageNumber fb.index
        { loc := .freeblock, data := fb.content, s := s, e := e, cutoff := co2,
          nCols := sig.numberOfColumns, sig := sig, firstCol := some fc, fbSize := some fb.byteSize, pageSize := ps }
        = .ok (some c) := by
  intro c hc
  rcases chosen_cases sig with ⟨e, he⟩ | ⟨fc, simplified, hcs⟩
  · unfold carveFreeblocks at h; simp only [he, bind, Except.bind] at h; cases h
  cases hpp : Regex.genSignature simplified true with
  | error e => unfold carveFreeblocks at h; simp only [hcs, hpp, bind, Except.bind] at h; cases h
  | ok pp =>
  unfold carveFreeblocks at h
  simp only [hcs, hpp, bind, Except.bind, carveFreeblocks.go, pure, Except.pure] at h
  split at h
  · cases h
  · rename_i a ha
    cases h
    rw [List.append_nil] at hc
    obtain ⟨s, e, co2, hm, hk⟩ := reverseLoop_mem _ _ _ _ ha c hc
    exact ⟨s, e, co2, fc, pp, List.mem_reverse.mp hm, hk⟩

/-- every cell carved from a freeblock reports `page offset + content start + match start`: the match
offsets are relative to the freeblock content -/
theorem freeblock_offsets (sig : CarveSig) (ps : Nat) (fb : FbIn) (cells : List CarvedCell)
    (h : carveFreeblocks sig ps [fb] = .ok cells) :
    ∀ c ∈ cells, c.fileOffset = fb.pageOffset + fb.contentStart + c.matchStart ∧ c.loc = .freeblock := by
  intro c hc
  obtain ⟨s, e, co2, fc, pat, _, hk⟩ := freeblocks_mem sig ps fb cells h c hc
  obtain ⟨h1, _, h3, _, h5, _, _⟩ := tryCarve_shape _ _ _ _ _ hk
  rw [h1, h3, h5]
  exact ⟨rfl, rfl⟩

/-- the full statement now holds: a freeblock's content starts four bytes after its start -/
theorem freeblock_offset_full (sig : CarveSig) (ps : Nat) (fb : FbIn) (cells : List CarvedCell)
    (hcs : fb.contentStart = fb.start + 4) (h : carveFreeblocks sig ps [fb] = .ok cells) :
    ∀ c ∈ cells, c.fileOffset = fb.pageOffset + (fb.start + 4) + c.matchStart := by
  intro c hc
  rw [← hcs]
  exact (freeblock_offsets sig ps fb cells h c hc).1

def fbWitness : FbIn := ⟨2, 0, 200, 204, 10, Buf.ofList [1, 0, 0, 0, 7, 9], 1024⟩

/-- the columns `cols` were read as consecutive serial-type varints of `data` from `cur`, ending
exactly at `e` -/
def HeaderAt (data : Buf) (e : Nat) : Nat → List CCol → Prop
  | cur, [] => cur = e
  | cur, c :: rest =>
    decodeVarint data cur = .ok (c.serialType, c.varintLen) ∧ cur + c.varintLen ≤ e ∧
    getContentSize c.serialType = .ok c.contentSize ∧ HeaderAt data e (cur + c.varintLen) rest

/-- body offsets are consecutive from `off` and every column that is not flagged truncated decodes
from exactly its body bytes -/
def BodiesAt (data : Buf) : Nat → List CCol → Prop
  | _, [] => True
  | off, c :: rest =>
    c.bodyOffset = off ∧
    (c.truncatedValue = false →
      off + c.contentSize ≤ data.size ∧
      ∃ v, getRecordContent c.serialType (data.slice off (off + c.contentSize)) 0 = .ok (c.contentSize, v) ∧
        c.value = .dec v) ∧
    (c.truncatedValue = true → off + c.contentSize > data.size) ∧
    BodiesAt data (off + c.contentSize) rest

theorem liftPy_ok {α : Type} {x : Py α} {a : α} (h : liftPy x = .ok a) : x = .ok a := by
  cases x with
  | error e => cases h
  | ok b => simp only [liftPy, Except.ok.injEq] at h; rw [h]

theorem contentSize_ok {st : Int} {sz : Nat} (h : contentSize st = .ok sz) : getContentSize st = .ok sz := by
  unfold contentSize at h
  split at h
  · cases h
  · split at h
    · cases h
    · rename_i heq _; cases h; exact heq

/-- `HeaderAt` on the columns before their values are read -/
def PHeaderAt (data : Buf) (e : Nat) : Nat → List PreCol → Prop
  | cur, [] => cur = e
  | cur, c :: rest =>
    decodeVarint data cur = .ok (c.serialType, c.varintLen) ∧ cur + c.varintLen ≤ e ∧
    getContentSize c.serialType = .ok c.contentSize ∧ PHeaderAt data e (cur + c.varintLen) rest

theorem headerWalk_spec (data : Buf) (e nCols : Nat) : ∀ (fuel cur n : Nat) (l : List PreCol),
    cur ≤ e → headerWalk data e nCols fuel cur n = .ok l → PHeaderAt data e cur l := by
  intro fuel
  induction fuel with
  | zero =>
    intro cur n l hle h
    unfold headerWalk at h
    split at h
    · cases h
    · cases h; show cur = e; omega
  | succ fuel ih =>
    intro cur n l hle h
    unfold headerWalk at h
    split at h
    · obtain ⟨⟨st, len⟩, hdv, h⟩ := bind_ok h
      simp only at h
      split at h
      · cases h
      · split at h
        · cases h
        · obtain ⟨sz, hsz, h⟩ := bind_ok h
          obtain ⟨rest, hrest, h⟩ := bind_ok h
          simp only [pure, Except.pure, Except.ok.injEq] at h
          subst h
          refine ⟨liftPy_ok hdv, ?_, contentSize_ok hsz, ?_⟩
          · show cur + len ≤ e; omega
          · exact ih (cur + len) _ _ (by omega) hrest
    · cases h; show cur = e; omega

/-- the fields `decodeCols` copies -/
def Rel : List PreCol → List CCol → Prop
  | [], [] => True
  | p :: ps, c :: cs =>
    (c.serialType = p.serialType ∧ c.varintLen = p.varintLen ∧ c.contentSize = p.contentSize) ∧ Rel ps cs
  | _, _ => False

theorem Rel_length : ∀ (l : List PreCol) (r : List CCol), Rel l r → r.length = l.length := by
  intro l
  induction l with
  | nil => intro r h; cases r with
    | nil => rfl
    | cons c cs => exact absurd h (by simp [Rel])
  | cons p ps ih => intro r h; cases r with
    | nil => exact absurd h (by simp [Rel])
    | cons c cs => simp only [Rel] at h; simp [ih cs h.2]

theorem Rel_header (data : Buf) (e : Nat) : ∀ (l : List PreCol) (r : List CCol) (cur : Nat), Rel l r →
    PHeaderAt data e cur l → HeaderAt data e cur r := by
  intro l
  induction l with
  | nil => intro r cur h hp; cases r with
    | nil => exact hp
    | cons c cs => exact absurd h (by simp [Rel])
  | cons p ps ih => intro r cur h hp; cases r with
    | nil => exact absurd h (by simp [Rel])
    | cons c cs =>
      simp only [Rel] at h
      obtain ⟨⟨h1, h2, h3⟩, h4⟩ := h
      obtain ⟨p1, p2, p3, p4⟩ := hp
      refine ⟨by rw [h1, h2]; exact p1, by rw [h2]; exact p2, by rw [h1, h3]; exact p3, ?_⟩
      rw [h2]; exact ih cs _ h4 p4

theorem decodeCols_spec (data : Buf) : ∀ (l : List PreCol) (idx off : Nat) (r : List CCol),
    decodeCols data l idx off = .ok r → Rel l r ∧ BodiesAt data off r := by
  intro l
  induction l with
  | nil =>
    intro idx off r h
    simp only [decodeCols, Except.ok.injEq] at h
    subst h
    exact ⟨trivial, trivial⟩
  | cons p ps ih =>
    intro idx off r h
    unfold decodeCols at h
    split at h
    · rename_i hover
      obtain ⟨r', hr', h⟩ := bind_ok h
      simp only [pure, Except.pure, Except.ok.injEq] at h
      subst h
      obtain ⟨i1, i2⟩ := ih _ _ _ hr'
      refine ⟨⟨⟨rfl, rfl, rfl⟩, i1⟩, rfl, ?_, fun _ => hover, i2⟩
      intro hh; cases hh
    · rename_i hfit
      obtain ⟨⟨sz, v⟩, hrc, h⟩ := bind_ok h
      simp only at h
      split at h
      · cases h
      · rename_i hsz
        obtain ⟨r', hr', h⟩ := bind_ok h
        simp only [pure, Except.pure, Except.ok.injEq] at h
        subst h
        obtain ⟨i1, i2⟩ := ih _ _ _ hr'
        have hsz' : sz = p.contentSize := by
          by_cases hq : sz = p.contentSize
          · exact hq
          · exact absurd hq hsz
        refine ⟨⟨⟨rfl, rfl, rfl⟩, i1⟩, rfl, fun _ => ⟨?_, v, ?_, rfl⟩, ?_, i2⟩
        · show off + p.contentSize ≤ data.size; omega
        rotate_left
        · intro hh; cases hh
        have := liftPy_ok hrc
        rw [hsz'] at this
        exact this

theorem reconstructFirst_none (i : RecIn) (a b : Nat) (r : Option PreCol) (hfc : i.firstCol = none)
    (h : reconstructFirst i a b = .ok r) : r = none := by
  unfold reconstructFirst at h
  rw [hfc] at h
  split at h
  · split at h
    · cases h; rfl
    · split at h
      · rename_i hh; cases hh
      · cases h
    · cases h
  · split at h
    · split at h
      · cases h; rfl
      · simp only at h
        obtain ⟨_, _, h⟩ := bind_ok h
        obtain ⟨⟨_, n⟩, _, h⟩ := bind_ok h
        simp only at h
        split at h <;> cases h
      · cases h
    · split at h
      · cases h; rfl
      · cases h; rfl
      · simp only at h
        cases h

/-- the record a successful constructor returns is backed by the data: the matched bytes
`[s, e)` are the serial types of its columns (all of them, or all but a reconstructed first one),
and the values are decoded from the bytes that follow -/
theorem record_backed (i : RecIn) (r : CarvedRec) (h : carvedRecord i = .ok r) (hse : i.s ≤ i.e) :
    (∃ k, k ≤ 1 ∧ HeaderAt i.data i.e i.s (r.cols.drop k) ∧ (i.firstCol = none → k = 0)) ∧
    r.bodyStart = i.e ∧ BodiesAt i.data i.e r.cols ∧ r.cols.length = i.nCols := by
  unfold carvedRecord at h
  replace h := bind_ok h; obtain ⟨sdcs0, _, h⟩ := h
  replace h := bind_ok h; obtain ⟨sdcs, _, h⟩ := h
  replace h := bind_ok h; obtain ⟨first0, hf0, h⟩ := h
  replace h := bind_ok h; obtain ⟨first1, hf1, h⟩ := h
  replace h := bind_ok h; obtain ⟨first, hf, h⟩ := h
  replace h := bind_ok h; obtain ⟨walked, hw, h⟩ := h
  simp only at h
  split at h
  · cases h
  rename_i hlen
  split at h
  · cases h
  replace h := bind_ok h; obtain ⟨ccols, hcc, h⟩ := h
  replace h := bind_ok h; obtain ⟨hv, _, h⟩ := h
  replace h := bind_ok h; obtain ⟨pv, _, h⟩ := h
  split at h
  · cases h
  simp only [pure, Except.pure, Except.ok.injEq] at h
  subst h
  obtain ⟨hrel, hbod⟩ := decodeCols_spec _ _ _ _ _ hcc
  have hph := headerWalk_spec _ _ _ _ _ _ _ hse hw
  have hlen' : (first.toList ++ walked).length = i.nCols := by
    by_cases hq : (first.toList ++ walked).length = i.nCols
    · exact hq
    · exact absurd hq hlen
  refine ⟨⟨first.toList.length, ?_, ?_, ?_⟩, rfl, hbod, ?_⟩
  · cases first <;> simp
  · show HeaderAt i.data i.e i.s (ccols.drop first.toList.length)
    cases first with
    | none => exact Rel_header _ _ _ _ _ hrel hph
    | some p =>
      cases ccols with
      | nil => exact absurd hrel (by simp [Rel])
      | cons c cs =>
        simp only [Option.toList, List.cons_append, List.nil_append, Rel] at hrel
        exact Rel_header _ _ _ _ _ hrel.2 hph
  · intro hfc
    have h0 : first0 = none := reconstructFirst_none i _ _ _ hfc hf0
    subst h0
    simp only [Option.isSome_none, Bool.false_eq_true, false_and, if_false, pure, Except.pure,
      Except.ok.injEq] at hf1
    subst hf1
    rw [hfc] at hf
    simp only [pure, Except.pure, Except.ok.injEq] at hf
    subst hf
    rfl
  · show ccols.length = i.nCols
    rw [Rel_length _ _ hrel, hlen']

theorem finditerAux_le (p : Regex.Pat) : ∀ (fuel : Nat) (s : List Nat) (pos : Nat),
    ∀ se ∈ Regex.finditerAux p fuel s pos, se.1 ≤ se.2 := by
  intro fuel
  induction fuel with
  | zero => intro s pos se h; simp [Regex.finditerAux] at h
  | succ fuel ih =>
    intro s pos se h
    unfold Regex.finditerAux at h
    split at h
    · simp only at h
      split at h
      · rcases List.mem_cons.mp h with rfl | h
        · exact Nat.le_refl _
        · split at h
          · simp at h
          · exact ih _ _ se h
      · rcases List.mem_cons.mp h with rfl | h
        · exact Nat.le_add_right _ _
        · exact ih _ _ se h
    · split at h
      · simp at h
      · exact ih _ _ se h

theorem finditer_le (p : Regex.Pat) (l : List Nat) : ∀ se ∈ Regex.finditer p l, se.1 ≤ se.2 :=
  finditerAux_le p _ _ _

/-- … hence for every carved cell of an unallocated region -/
theorem unallocated_backed (sig : CarveSig) (ps pn po rs : Nat) (data : Buf)
    (cells : List CarvedCell) (h : carveUnallocated sig ps pn po rs data = .ok cells) :
    ∀ c ∈ cells, c.matchStart ≤ c.matchEnd ∧
      (∃ k, k ≤ 1 ∧ HeaderAt data c.matchEnd c.matchStart (c.rec_.cols.drop k)) ∧
      BodiesAt data c.matchEnd c.rec_.cols := by
  intro c hc
  obtain ⟨fo, s, e, co2, fc2, pat, hm, _, hk⟩ := unallocated_mem sig ps pn po rs data cells h c hc
  obtain ⟨_, _, _, _, h5, h6, hrec⟩ := tryCarve_shape _ _ _ _ _ hk
  have hse : s ≤ e := finditer_le pat data.toList (s, e) hm
  obtain ⟨⟨k, hk1, hk2, _⟩, _, hb, _⟩ := record_backed _ _ hrec hse
  rw [h5, h6]
  exact ⟨hse, ⟨k, hk1, hk2⟩, hb⟩

/-- … and of a freeblock -/
theorem freeblock_backed (sig : CarveSig) (ps : Nat) (fb : FbIn) (cells : List CarvedCell)
    (h : carveFreeblocks sig ps [fb] = .ok cells) :
    ∀ c ∈ cells, c.matchStart ≤ c.matchEnd ∧
      (∃ k, k ≤ 1 ∧ HeaderAt fb.content c.matchEnd c.matchStart (c.rec_.cols.drop k)) ∧
      BodiesAt fb.content c.matchEnd c.rec_.cols := by
  intro c hc
  obtain ⟨s, e, co2, fc, pat, hm, hk⟩ := freeblocks_mem sig ps fb cells h c hc
  obtain ⟨_, _, _, _, h5, h6, hrec⟩ := tryCarve_shape _ _ _ _ _ hk
  have hse : s ≤ e := finditer_le pat fb.content.toList (s, e) hm
  obtain ⟨⟨k, hk1, hk2, _⟩, _, hb, _⟩ := record_backed _ _ hrec hse
  rw [h5, h6]
  exact ⟨hse, ⟨k, hk1, hk2⟩, hb⟩

/-! ### the digest -/

theorem carvedRecord_cellEnd (i : RecIn) (r : CarvedRec) (h : carvedRecord i = .ok r) :
    r.cellEnd = r.bodyEnd := by
  unfold carvedRecord at h
  replace h := bind_ok h; obtain ⟨sdcs0, _, h⟩ := h
  replace h := bind_ok h; obtain ⟨sdcs, _, h⟩ := h
  replace h := bind_ok h; obtain ⟨first0, hf0, h⟩ := h
  replace h := bind_ok h; obtain ⟨first1, hf1, h⟩ := h
  replace h := bind_ok h; obtain ⟨first, hf, h⟩ := h
  replace h := bind_ok h; obtain ⟨walked, hw, h⟩ := h
  simp only at h
  split at h
  · cases h
  split at h
  · cases h
  replace h := bind_ok h; obtain ⟨ccols, hcc, h⟩ := h
  replace h := bind_ok h; obtain ⟨hv, _, h⟩ := h
  replace h := bind_ok h; obtain ⟨pv, _, h⟩ := h
  split at h
  · cases h
  simp only [pure, Except.pure, Except.ok.injEq] at h
  subst h
  rfl

/-- what the digest is: the bytes of the region from the first matched serial type to the end of the
bodies, as far as the region reaches -/
theorem digest_is_record_bytes (fo pn ix : Nat) (i : RecIn) (c : CarvedCell)
    (h : tryCarve fo pn ix i = .ok (some c)) :
    c.digest = (i.data.slice i.s c.rec_.cellEnd).toList ∧ c.matchStart = i.s ∧
      c.rec_.cellEnd = c.rec_.bodyEnd := by
  have hrec := (tryCarve_shape fo pn ix i c h).2.2.2.2.2.2
  refine ⟨?_, ?_, carvedRecord_cellEnd i _ hrec⟩
  · unfold tryCarve at h
    split at h
    · cases h; rfl
    · cases h
    · cases h
    · cases h
  · exact (tryCarve_shape fo pn ix i c h).2.2.2.2.1

theorem unallocated_digest (sig : CarveSig) (ps pn po rs : Nat) (data : Buf) (cells : List CarvedCell)
    (h : carveUnallocated sig ps pn po rs data = .ok cells) :
    ∀ c ∈ cells, c.digest = (data.slice c.matchStart c.rec_.cellEnd).toList := by
  intro c hc
  obtain ⟨fo, s, e, co2, fc2, pat, _, _, hk⟩ := unallocated_mem sig ps pn po rs data cells h c hc
  obtain ⟨h1, h2, _⟩ := digest_is_record_bytes _ _ _ _ _ hk
  rw [h1, h2]

theorem freeblock_digest (sig : CarveSig) (ps : Nat) (fb : FbIn) (cells : List CarvedCell)
    (h : carveFreeblocks sig ps [fb] = .ok cells) :
    ∀ c ∈ cells, c.digest = (fb.content.slice c.matchStart c.rec_.cellEnd).toList := by
  intro c hc
  obtain ⟨s, e, co2, fc, pat, _, hk⟩ := freeblocks_mem sig ps fb cells h c hc
  obtain ⟨h1, h2, _⟩ := digest_is_record_bytes _ _ _ _ _ hk
  rw [h1, h2]

/-! ### no re-report -/

def keys (d : List (List Nat × CarvedCell)) : List (List Nat) := d.map (·.1)

/-- the dictionary step shared by `dedup` and `dictUpdate` -/
def dstep (d : List (List Nat × CarvedCell)) (e : List Nat × CarvedCell) : List (List Nat × CarvedCell) :=
  if d.any (·.1 = e.1) then d.map (fun x => if x.1 = e.1 then e else x) else d ++ [e]

theorem keys_map_replace (d : List (List Nat × CarvedCell)) (e : List Nat × CarvedCell) :
    keys (d.map (fun x => if x.1 = e.1 then e else x)) = keys d := by
  unfold keys
  rw [List.map_map]
  apply List.map_congr_left
  intro x _
  simp only [Function.comp]
  split
  · rename_i h; exact h.symm
  · rfl

theorem any_iff_mem_keys (d : List (List Nat × CarvedCell)) (k : List Nat) :
    d.any (·.1 = k) = true ↔ k ∈ keys d := by
  unfold keys
  simp only [List.any_eq_true, decide_eq_true_eq, List.mem_map]

theorem keys_dstep_old (d : List (List Nat × CarvedCell)) (e : List Nat × CarvedCell) (h : e.1 ∈ keys d) :
    keys (dstep d e) = keys d := by
  unfold dstep
  rw [if_pos ((any_iff_mem_keys d e.1).mpr h)]
  exact keys_map_replace d e

theorem keys_dstep_new (d : List (List Nat × CarvedCell)) (e : List Nat × CarvedCell) (h : e.1 ∉ keys d) :
    keys (dstep d e) = keys d ++ [e.1] := by
  unfold dstep
  rw [if_neg (fun hh => h ((any_iff_mem_keys d e.1).mp hh))]
  simp [keys]

theorem mem_dstep (d : List (List Nat × CarvedCell)) (e x : List Nat × CarvedCell) (h : x ∈ dstep d e) :
    x ∈ d ∨ x = e := by
  unfold dstep at h
  split at h
  · rw [List.mem_map] at h
    obtain ⟨y, hy, hxy⟩ := h
    split at hxy
    · exact Or.inr hxy.symm
    · exact Or.inl (hxy ▸ hy)
  · rcases List.mem_append.mp h with h | h
    · exact Or.inl h
    · exact Or.inr (by simpa using h)

theorem dedup_eq (seen : List (List Nat)) (cells : List CarvedCell) :
    dedup seen cells =
      ((cells.filter fun c => ¬ seen.contains c.digest).map fun c => (c.digest, c)).foldl dstep [] := by
  unfold dedup
  rw [List.foldl_map]
  rfl

theorem dictUpdate_eq (d new : List (List Nat × CarvedCell)) : dictUpdate d new = new.foldl dstep d := rfl

theorem foldl_dstep_inv (P : List Nat × CarvedCell → Prop) :
    ∀ (l d : List (List Nat × CarvedCell)), (keys d).Nodup → (∀ e ∈ d, P e) → (∀ e ∈ l, P e) →
      (keys (l.foldl dstep d)).Nodup ∧ (∀ e ∈ l.foldl dstep d, P e) ∧
      (∀ k ∈ keys (l.foldl dstep d), k ∈ keys d ∨ k ∈ keys l) := by
  intro l
  induction l with
  | nil => intro d hd hP _; exact ⟨hd, hP, fun k hk => Or.inl hk⟩
  | cons e rest ih =>
    intro d hd hP hl
    rw [List.foldl_cons]
    have hd' : (keys (dstep d e)).Nodup := by
      by_cases hk : e.1 ∈ keys d
      · rw [keys_dstep_old d e hk]; exact hd
      · rw [keys_dstep_new d e hk]
        rw [List.nodup_append]
        refine ⟨hd, by simp, ?_⟩
        intro a ha b hb
        rw [List.mem_singleton] at hb
        subst hb
        intro hab; subst hab; exact hk ha
    have hP' : ∀ x ∈ dstep d e, P x := by
      intro x hx
      rcases mem_dstep d e x hx with h | h
      · exact hP x h
      · rw [h]; exact hl e List.mem_cons_self
    obtain ⟨h1, h2, h3⟩ := ih (dstep d e) hd' hP' (fun x hx => hl x (List.mem_cons_of_mem _ hx))
    refine ⟨h1, h2, ?_⟩
    intro k hk
    rcases h3 k hk with h | h
    · by_cases hke : e.1 ∈ keys d
      · rw [keys_dstep_old d e hke] at h; exact Or.inl h
      · rw [keys_dstep_new d e hke] at h
        rcases List.mem_append.mp h with h | h
        · exact Or.inl h
        · rw [List.mem_singleton] at h
          right; unfold keys; rw [h]; simp
    · right; unfold keys at h ⊢; simp only [List.map_cons, List.mem_cons]; exact Or.inr h

theorem dedup_keys (seen : List (List Nat)) (cells : List CarvedCell) :
    (keys (dedup seen cells)).Nodup ∧ (∀ k ∈ keys (dedup seen cells), k ∉ seen) ∧
    (∀ e ∈ dedup seen cells, e.2.digest = e.1 ∧ e.2 ∈ cells) := by
  rw [dedup_eq]
  have hl : ∀ e ∈ ((cells.filter fun c => ¬ seen.contains c.digest).map fun c => (c.digest, c)),
      (e.2.digest = e.1 ∧ e.2 ∈ cells) ∧ e.1 ∉ seen := by
    intro e he
    rw [List.mem_map] at he
    obtain ⟨c, hc, rfl⟩ := he
    rw [List.mem_filter] at hc
    refine ⟨⟨rfl, hc.1⟩, ?_⟩
    have := hc.2
    simpa using this
  obtain ⟨h1, h2, h3⟩ := foldl_dstep_inv (fun e => (e.2.digest = e.1 ∧ e.2 ∈ cells) ∧ e.1 ∉ seen) _ []
    (by simp [keys]) (by simp) hl
  refine ⟨h1, ?_, fun e he => (h2 e he).1⟩
  intro k hk
  unfold keys at hk
  rw [List.mem_map] at hk
  obtain ⟨e, he, rfl⟩ := hk
  exact (h2 e he).2

/-- updating with fresh distinct keys appends them -/
theorem keys_foldl_fresh : ∀ (new d : List (List Nat × CarvedCell)), (keys new).Nodup →
    (∀ k ∈ keys new, k ∉ keys d) → keys (new.foldl dstep d) = keys d ++ keys new := by
  intro new
  induction new with
  | nil => intro d _ _; simp [keys]
  | cons e rest ih =>
    intro d hn hf
    have hn' : e.1 ∉ keys rest ∧ (keys rest).Nodup := by
      have : keys (e :: rest) = e.1 :: keys rest := rfl
      rw [this, List.nodup_cons] at hn
      exact hn
    have he : e.1 ∉ keys d := hf e.1 (by simp [keys])
    rw [List.foldl_cons, ih (dstep d e) hn'.2, keys_dstep_new d e he]
    · simp [keys]
    · intro k hk
      rw [keys_dstep_new d e he]
      intro hmem
      rcases List.mem_append.mp hmem with h | h
      · exact hf k (by unfold keys at hk ⊢; simp only [List.map_cons, List.mem_cons]; exact Or.inr hk) h
      · rw [List.mem_singleton] at h; subst h; exact hn'.1 hk

theorem nodup_append_of {α : Type} {a b : List α} (ha : a.Nodup) (hb : b.Nodup) (h : ∀ x ∈ b, x ∉ a) :
    (a ++ b).Nodup := by
  rw [List.nodup_append]
  refine ⟨ha, hb, ?_⟩
  intro x hx y hy hxy
  subst hxy
  exact h x hy hx

/-- one step of the iterator: what it reports is new with respect to everything reported before,
and is remembered -/
theorem carveStep_fresh (frames : Nat) (sig : CarveSig) (fl first : Bool) (st : CarveState) (ver : Version)
    (v : VersionIf) (root : Nat) (prev : Option Nat) (c : Commit) (cc : CarveCommit) (st' : CarveState)
    (h : carveStep frames sig fl first st ver v root prev = .ok (c, cc, st')) (hs : st.seen.Nodup) :
    (keys cc.carved).Nodup ∧ (∀ k ∈ keys cc.carved, k ∉ st.seen) ∧
    st'.seen = st.seen ++ keys cc.carved ∧ st'.seen.Nodup := by
  unfold carveStep at h
  obtain ⟨⟨c0, it⟩, _, h⟩ := bind_ok h
  simp only at h
  obtain ⟨⟨carved1, seen1⟩, h1, h⟩ := bind_ok h
  simp only at h
  -- facts on the first block
  have hA : (keys carved1).Nodup ∧ (∀ k ∈ keys carved1, k ∉ st.seen) ∧ seen1 = st.seen ++ keys carved1 := by
    split at h1
    · obtain ⟨t, _, h1⟩ := bind_ok h1
      obtain ⟨cells, _, h1⟩ := bind_ok h1
      simp only [pure, Except.pure, Except.ok.injEq, Prod.mk.injEq] at h1
      obtain ⟨rfl, rfl⟩ := h1
      obtain ⟨k1, k2, _⟩ := dedup_keys st.seen cells
      exact ⟨k1, k2, rfl⟩
    · simp only [pure, Except.pure, Except.ok.injEq, Prod.mk.injEq] at h1
      obtain ⟨rfl, rfl⟩ := h1
      exact ⟨by simp [keys], by simp [keys], by simp [keys]⟩
  obtain ⟨a1, a2, a3⟩ := hA
  have hseen1 : seen1.Nodup := by rw [a3]; exact nodup_append_of hs a1 a2
  split at h
  · obtain ⟨cells, _, h⟩ := bind_ok h
    simp only [pure, Except.pure, Except.ok.injEq, Prod.mk.injEq] at h
    obtain ⟨_, rfl, rfl⟩ := h
    obtain ⟨k1, k2, _⟩ := dedup_keys seen1 cells
    have hk : keys (dictUpdate carved1 (dedup seen1 cells)) = keys carved1 ++ keys (dedup seen1 cells) := by
      rw [dictUpdate_eq]
      apply keys_foldl_fresh _ _ k1
      intro k hk hk'
      exact k2 k hk (by rw [a3]; exact List.mem_append_right _ hk')
    simp only
    rw [hk]
    have e1 : (dedup seen1 cells).map (·.1) = keys (dedup seen1 cells) := rfl
    rw [e1]
    refine ⟨?_, ?_, ?_, ?_⟩
    · apply nodup_append_of a1 k1
      intro x hx hx'
      exact k2 x hx (by rw [a3]; exact List.mem_append_right _ hx')
    · intro k hk
      rcases List.mem_append.mp hk with hk | hk
      · exact a2 k hk
      · intro hks; exact k2 k hk (by rw [a3]; exact List.mem_append_left _ hks)
    · rw [a3, List.append_assoc]
    · exact nodup_append_of hseen1 k1 k2
  · simp only [pure, Except.pure, Except.ok.injEq, Prod.mk.injEq] at h
    obtain ⟨_, rfl, rfl⟩ := h
    exact ⟨a1, a2, a3, hseen1⟩

/-- the body of the fold in `carveHistory` -/
def histStep (frames : Nat) (sig : CarveSig) (freelist : Bool) (vs : List (Version × VersionIf)) :
    List CarveCommit × CarveState × Option Nat → Nat × Val → Py (List CarveCommit × CarveState × Option Nat) :=
  fun acc kr => do
      let (cs, st, prevRoot) := acc
      match vs.find? (fun vv => vv.1.number = kr.1), kr.2 with
      | some (ver, v), .int r =>
        if r < 0 then (.error .valueError : Py (List CarveCommit × CarveState × Option Nat))
        else
          let (_, cc, st') ← carveStep frames sig freelist prevRoot.isNone st ver v r.toNat prevRoot
          pure (cs ++ [cc], st', some r.toNat)
      | _, _ => .error .outsideModel

theorem carveHistory_eq (frames : Nat) (sig : CarveSig) (fl : Bool) (vs : List (Version × VersionIf))
    (id : EntryIdent) :
    carveHistory frames sig fl vs id =
      ((rootIndex id (constructorSchemas vs) none []).foldlM (histStep frames sig fl vs) ([], {}, none) >>=
        fun r => pure r.1) := rfl

theorem histStep_inv (frames : Nat) (sig : CarveSig) (fl : Bool) (vs : List (Version × VersionIf))
    (cs : List CarveCommit) (st : CarveState) (prev : Option Nat) (kr : Nat × Val)
    (cs' : List CarveCommit) (st' : CarveState) (prev' : Option Nat)
    (h : histStep frames sig fl vs (cs, st, prev) kr = .ok (cs', st', prev'))
    (hseen : st.seen = cs.flatMap (fun cc => keys cc.carved)) (hnd : st.seen.Nodup) :
    st'.seen = cs'.flatMap (fun cc => keys cc.carved) ∧ st'.seen.Nodup := by
  unfold histStep at h
  simp only at h
  split at h
  · split at h
    · cases h
    · obtain ⟨⟨c, cc, st''⟩, hstep, h⟩ := bind_ok h
      simp only [pure, Except.pure, Except.ok.injEq, Prod.mk.injEq] at h
      obtain ⟨rfl, rfl, _⟩ := h
      obtain ⟨_, _, h3, h4⟩ := carveStep_fresh _ _ _ _ _ _ _ _ _ _ _ _ hstep hnd
      refine ⟨?_, h4⟩
      rw [h3, hseen, List.flatMap_append]
      simp
  · cases h

theorem foldlM_inv (frames : Nat) (sig : CarveSig) (fl : Bool) (vs : List (Version × VersionIf)) :
    ∀ (idx : List (Nat × Val)) (cs : List CarveCommit) (st : CarveState) (prev : Option Nat)
      (cs' : List CarveCommit) (st' : CarveState) (prev' : Option Nat),
      idx.foldlM (histStep frames sig fl vs) (cs, st, prev) = .ok (cs', st', prev') →
      st.seen = cs.flatMap (fun cc => keys cc.carved) → st.seen.Nodup →
      st'.seen = cs'.flatMap (fun cc => keys cc.carved) ∧ st'.seen.Nodup := by
  intro idx
  induction idx with
  | nil =>
    intro cs st prev cs' st' prev' h hs hn
    simp only [List.foldlM_nil, pure, Except.pure, Except.ok.injEq, Prod.mk.injEq] at h
    obtain ⟨rfl, rfl, _⟩ := h
    exact ⟨hs, hn⟩
  | cons kr rest ih =>
    intro cs st prev cs' st' prev' h hs hn
    rw [List.foldlM_cons] at h
    obtain ⟨⟨cs1, st1, prev1⟩, hstep, h⟩ := bind_ok h
    obtain ⟨h1, h2⟩ := histStep_inv _ _ _ _ _ _ _ _ _ _ _ hstep hs hn
    exact ih cs1 st1 prev1 cs' st' prev' h h1 h2

/-- the digests reported over a whole history are pairwise distinct: nothing is reported twice -/
theorem no_rereport (frames : Nat) (sig : CarveSig) (fl : Bool) (vs : List (Version × VersionIf))
    (id : EntryIdent) (commits : List CarveCommit) (h : carveHistory frames sig fl vs id = .ok commits) :
    (commits.flatMap fun cc => keys cc.carved).Nodup := by
  rw [carveHistory_eq] at h
  obtain ⟨⟨cs, st, prev⟩, hf, h⟩ := bind_ok h
  simp only [pure, Except.pure, Except.ok.injEq] at h
  subst h
  obtain ⟨h1, h2⟩ := foldlM_inv _ _ _ _ _ _ _ _ _ _ _ hf (by rfl) (by simp)
  rw [← h1]; exact h2

/-- the freeblock of `fbWitness` (content `01 00 00 00 07 09` at page offset 204) and, in the later
version, the same bytes inside the unallocated area that starts at page offset 200 -/
def regionLater : Buf := Buf.ofList [0, 0, 0, 10, 1, 0, 0, 0, 7, 9, 0, 0]

/-- both carves give exactly one cell; same file offset, same digest -/
def rereportFixedCheck (x y : Py (List CarvedCell)) : Bool :=
  match x, y with
  | .ok [a], .ok [b] =>
    decide (a.fileOffset = b.fileOffset) && decide (a.digest = b.digest) &&
    decide (a.digest = [1, 0, 0, 0, 7, 9])
  | _, _ => false

/-- the witness of the former re-report defect: the same residue seen once as a freeblock (`fbWitness`)
and once, in a later version, inside the unallocated area (`regionLater`) now gets ONE digest -/
theorem rereport_witness_fixed :
    ∃ a b, carveFreeblocks sig41 1024 [fbWitness] = .ok [a] ∧
      carveUnallocated sig41 1024 2 1024 200 regionLater = .ok [b] ∧
      a.fileOffset = b.fileOffset ∧ a.digest = b.digest ∧ a.digest = [1, 0, 0, 0, 7, 9] := by
  have h : rereportFixedCheck (carveFreeblocks sig41 1024 [fbWitness])
      (carveUnallocated sig41 1024 2 1024 200 regionLater) = true := by decide +kernel
  unfold rereportFixedCheck at h
  split at h
  · rename_i a b ha hb
    simp only [Bool.and_eq_true, decide_eq_true_eq] at h
    obtain ⟨⟨h1, h2⟩, h3⟩ := h
    exact ⟨a, b, ha, hb, h1, h2, h3⟩
  · cases h

/-! ### no carving function raises EOFError (none of them reads a file) -/

def NE {α : Type} (x : Py α) : Prop := x ≠ .error .eofError
def NEC {α : Type} (x : CM α) : Prop := x ≠ .error (.py .eofError)

theorem NE_ok {α : Type} (a : α) : NE (.ok a : Py α) := by intro h; cases h
theorem NE_err {α : Type} (e : PyErr) (h : e ≠ .eofError) : NE (.error e : Py α) := by
  intro hh; cases hh; exact h rfl
theorem NE_pure {α : Type} (a : α) : NE (pure a : Py α) := NE_ok a
theorem NE_bind {α β : Type} {x : Py α} {f : α → Py β} (hx : NE x) (hf : ∀ a, NE (f a)) : NE (x >>= f) := by
  cases x with
  | error e => intro h; cases h; exact hx rfl
  | ok a => exact hf a
theorem NEC_ok {α : Type} (a : α) : NEC (.ok a : CM α) := by intro h; cases h
theorem NEC_pure {α : Type} (a : α) : NEC (pure a : CM α) := NEC_ok a
theorem NEC_cc {α : Type} : NEC (.error .cellCarving : CM α) := by intro h; cases h
theorem NEC_err {α : Type} (e : PyErr) (h : e ≠ .eofError) : NEC (.error (.py e) : CM α) := by
  intro hh; cases hh; exact h rfl
theorem NEC_bind {α β : Type} {x : CM α} {f : α → CM β} (hx : NEC x) (hf : ∀ a, NEC (f a)) : NEC (x >>= f) := by
  cases x with
  | error e => intro h; cases h; exact hx rfl
  | ok a => exact hf a
theorem NEC_liftPy {α : Type} {x : Py α} (hx : NE x) : NEC (liftPy x) := by
  cases x with
  | error e => intro h; cases h; exact hx rfl
  | ok a => exact NEC_ok a

theorem NE_ite {α : Type} {c : Prop} [Decidable c] {x y : Py α} (hx : NE x) (hy : NE y) :
    NE (if c then x else y) := by split <;> assumption
theorem NEC_ite {α : Type} {c : Prop} [Decidable c] {x y : CM α} (hx : NEC x) (hy : NEC y) :
    NEC (if c then x else y) := by split <;> assumption
theorem NE_retype {α β : Type} {e : PyErr} (h : NE (.error e : Py α)) : NE (.error e : Py β) := by
  intro hh; cases hh; exact h rfl

macro "ne_leaf" : tactic => `(tactic| first
  | exact NE_ok _ | exact NE_pure _ | exact NEC_ok _ | exact NEC_pure _ | exact NEC_cc
  | (apply NE_err; decide) | (apply NEC_err; decide) | assumption)

theorem dvLoop_NE (b : Buf) (off : Nat) : ∀ n v rel, NE (dvLoop b off n v rel) := by
  intro n
  induction n with
  | zero => intro v rel; unfold dvLoop; ne_leaf
  | succ n ih =>
    intro v rel; unfold dvLoop
    split
    · simp only
      split
      · ne_leaf
      · split
        · ne_leaf
        · exact ih _ _
    · ne_leaf

theorem decodeVarint_NE (b : Buf) (off : Nat) : NE (decodeVarint b off) := by
  unfold decodeVarint
  have := dvLoop_NE b off 9 0 0
  split
  · rename_i e he; rw [he] at this; exact NE_retype this
  · split <;> ne_leaf

theorem getContentSize_NE (st : Int) : NE (getContentSize st) := by
  unfold getContentSize
  repeat' (first | apply NE_ite | ne_leaf)

theorem unpackN_NE (b : Buf) (off n : Nat) : NE (unpackN b off n) := by
  unfold unpackN; split <;> ne_leaf

theorem getRecordContent_NE (st : Int) (b : Buf) (off : Nat) : NE (getRecordContent st b off) := by
  unfold getRecordContent
  repeat' (first | apply NE_ite | ne_leaf | (apply NE_bind (unpackN_NE _ _ _); intro a))

theorem cbcsLoop_NE (hdr : Buf) : ∀ fuel start acc, NE (cbcsLoop hdr fuel start acc) := by
  intro fuel
  induction fuel with
  | zero => intro s a; unfold cbcsLoop; split <;> ne_leaf
  | succ fuel ih =>
    intro s a; unfold cbcsLoop
    split
    · split
      · rename_i e he; have := decodeVarint_NE hdr s; rw [he] at this; exact NE_retype this
      · split
        · rename_i e he; have := getContentSize_NE ‹Int›; rw [he] at this; exact NE_retype this
        · split
          · ne_leaf
          · exact ih _ _
    · ne_leaf

theorem calcBodyContentSize_NE (hdr : Buf) : NE (calcBodyContentSize hdr) := cbcsLoop_NE hdr _ _ _

theorem evLoop_NE : ∀ fuel v acc, NE (evLoop fuel v acc) := by
  intro fuel
  induction fuel with
  | zero => intro v a; unfold evLoop; ne_leaf
  | succ fuel ih =>
    intro v a; unfold evLoop
    split
    · ne_leaf
    · simp only
      split
      · ne_leaf
      · exact ih _ _

theorem encodeVarint_tail_NE (u : Nat) :
    NE (match evLoop 64 u [] with
        | .error e => .error e
        | .ok acc =>
          match acc.getLast? with
          | none => (.error .indexError : Py (List Nat))
          | some l => .ok (acc.dropLast ++ [l &&& 0x7F])) := by
  have := evLoop_NE 64 u []
  split
  · rename_i e he; rw [he] at this; exact this
  · split <;> ne_leaf

theorem encodeVarint_NE (v : Int) : NE (encodeVarint v) := by
  unfold encodeVarint
  apply NE_ite
  · ne_leaf
  · simp only
    repeat' (first | apply NE_ite | ne_leaf | exact encodeVarint_tail_NE _)

theorem dvrLoop_NE (b : Buf) (offset max : Nat) : ∀ rem v, NE (dvrLoop b offset max rem v) := by
  intro rem
  induction rem with
  | zero => intro v; unfold dvrLoop; ne_leaf
  | succ rem ih =>
    intro v; unfold dvrLoop
    simp only
    repeat' (first | apply NE_ite | ne_leaf | exact ih _)

theorem decodeVarintRev_NE (b : Buf) (offset max : Nat) : NE (decodeVarintRev b offset max) := by
  unfold decodeVarintRev
  split
  · ne_leaf
  · split
    · ne_leaf
    · exact dvrLoop_NE _ _ _ _ _

theorem NE_of_eq {α β : Type} {x : Py α} {e : PyErr} (hx : NE x) (h : x = .error e) :
    NE (.error e : Py β) := by
  intro hh; cases hh; exact hx h
theorem NEC_of_eq {α β : Type} {x : CM α} {e : PyErr} (hx : NEC x) (h : x = .error (.py e)) :
    NEC (.error (.py e) : CM β) := by
  intro hh; cases hh; exact hx h

theorem genSimplified_NE (t : Int) : NE (Regex.genSimplified t) := by
  unfold Regex.genSimplified
  repeat' (first | apply NE_ite | ne_leaf)

theorem scanCol_NE : ∀ (ts : List Int) (a : Regex.Acc), NE (Regex.scanCol ts a) := by
  intro ts
  induction ts with
  | nil => intro a; unfold Regex.scanCol; ne_leaf
  | cons t ts ih =>
    intro a; unfold Regex.scanCol
    split
    · rename_i e he; exact NE_of_eq (genSimplified_NE t) he
    · repeat' (first | apply NE_ite | exact ih _)

theorem genColumn_NE (c : List Int) : NE (Regex.genColumn c) := by
  unfold Regex.genColumn
  split
  · exact genSimplified_NE _
  · apply NE_ite
    · split
      · rename_i e he; exact NE_of_eq (scanCol_NE _ _) he
      · split <;> repeat' (first | apply NE_ite | ne_leaf)
    · ne_leaf

theorem genColumns_NE : ∀ (cs : List (List Int)), NE (Regex.genColumns cs) := by
  intro cs
  induction cs with
  | nil => unfold Regex.genColumns; ne_leaf
  | cons c cs ih =>
    unfold Regex.genColumns
    split
    · rename_i e he; exact NE_of_eq (genColumn_NE c) he
    · split
      · rename_i e he; exact NE_of_eq ih he
      · ne_leaf

theorem genSignature_NE (sig : List (List Int)) (b : Bool) : NE (Regex.genSignature sig b) := by
  unfold Regex.genSignature
  split
  · rename_i e he; exact NE_of_eq (genColumns_NE _) he
  · ne_leaf

theorem chosenSignature_NE (sig : CarveSig) : NE (chosenSignature sig) := by
  unfold chosenSignature
  split <;> ne_leaf

theorem contentSize_NEC (st : Int) : NEC (contentSize st) := by
  unfold contentSize
  split
  · rename_i e he
    apply NEC_err
    intro hh; subst hh
    exact getContentSize_NE st he
  · apply NEC_ite <;> ne_leaf

theorem matchingTypes_NEC (x : Int) : ∀ l, NEC (matchingTypes x l) := by
  intro l
  induction l with
  | nil => unfold matchingTypes; ne_leaf
  | cons st rest ih =>
    unfold matchingTypes
    apply NEC_bind (contentSize_NEC st); intro sz
    apply NEC_bind ih; intro r
    ne_leaf

theorem fromFreeblockSize_NEC (fc : List Int) (fb : Int) (a b : Nat) : NEC (fromFreeblockSize fc fb a b) := by
  unfold fromFreeblockSize
  simp only
  apply NEC_bind (matchingTypes_NEC _ _); intro ms
  split <;> ne_leaf

theorem precedingByteGuard_NEC (data : Buf) (at_ : Nat) : NEC (precedingByteGuard data at_) := by
  unfold precedingByteGuard
  repeat' (first | apply NEC_ite | ne_leaf)

theorem fromPrecedingByte_NEC (fc : List Int) (data : Buf) (at_ : Nat) : NEC (fromPrecedingByte fc data at_) := by
  unfold fromPrecedingByte
  apply NEC_bind (precedingByteGuard_NEC _ _); intro _
  apply NEC_bind (NEC_liftPy (decodeVarint_NE _ _)); intro p
  simp only
  repeat' (first | apply NEC_ite | ne_leaf | (apply NEC_bind (contentSize_NEC _); intro sz))

theorem reconstructFirst_NEC (i : RecIn) (a b : Nat) : NEC (reconstructFirst i a b) := by
  unfold reconstructFirst
  apply NEC_ite
  · split
    · ne_leaf
    · split
      · exact fromFreeblockSize_NEC _ _ _ _
      · ne_leaf
    · ne_leaf
  · apply NEC_ite
    · split
      · ne_leaf
      · split
        · exact fromPrecedingByte_NEC _ _ _
        · apply NEC_bind (precedingByteGuard_NEC _ _); intro _
          apply NEC_bind (NEC_liftPy (decodeVarint_NE _ _)); intro p
          simp only
          apply NEC_ite <;> ne_leaf
      · ne_leaf
    · split
      · ne_leaf
      · ne_leaf
      · simp only
        split
        · ne_leaf
        · apply NEC_ite
          · exact fromFreeblockSize_NEC _ _ _ _
          · apply NEC_ite
            · split
              · ne_leaf
              · rename_i e _ he
                apply NEC_err
                intro hh; subst hh
                exact decodeVarintRev_NE _ _ _ he
              · ne_leaf
            · exact fromPrecedingByte_NEC _ _ _

theorem probabilisticFirst_NEC (sig : CarveSig) (fc : List Int) : NEC (probabilisticFirst sig fc) := by
  unfold probabilisticFirst
  apply NEC_bind
  · split <;> ne_leaf
  intro t0
  simp only
  apply NEC_bind
  · apply NEC_ite
    · split
      · ne_leaf
      · split <;> ne_leaf
    · ne_leaf
  intro t2
  apply NEC_bind (contentSize_NEC _); intro sz
  ne_leaf

theorem headerWalk_NEC (data : Buf) (e nCols : Nat) : ∀ fuel cur n, NEC (headerWalk data e nCols fuel cur n) := by
  intro fuel
  induction fuel with
  | zero => intro cur n; unfold headerWalk; apply NEC_ite <;> ne_leaf
  | succ fuel ih =>
    intro cur n; unfold headerWalk
    apply NEC_ite
    · apply NEC_bind (NEC_liftPy (decodeVarint_NE _ _)); intro p
      simp only
      apply NEC_ite
      · ne_leaf
      · apply NEC_ite
        · ne_leaf
        · apply NEC_bind (contentSize_NEC _); intro sz
          apply NEC_bind (ih _ _); intro rest
          ne_leaf
    · ne_leaf

theorem decodeCols_NEC (data : Buf) : ∀ l idx off, NEC (decodeCols data l idx off) := by
  intro l
  induction l with
  | nil => intro idx off; unfold decodeCols; ne_leaf
  | cons c rest ih =>
    intro idx off; unfold decodeCols
    apply NEC_ite
    · apply NEC_bind (ih _ _); intro r; ne_leaf
    · apply NEC_bind (NEC_liftPy (getRecordContent_NE _ _ _)); intro p
      simp only
      apply NEC_ite
      · ne_leaf
      · apply NEC_bind (ih _ _); intro r; ne_leaf

theorem carvedRecord_NEC (i : RecIn) : NEC (carvedRecord i) := by
  unfold carvedRecord
  simp only
  apply NEC_bind (NEC_liftPy (calcBodyContentSize_NE _)); intro sdcs0
  apply NEC_bind (by apply NEC_ite <;> ne_leaf); intro sdcs
  apply NEC_bind (reconstructFirst_NEC _ _ _); intro first0
  apply NEC_bind (by apply NEC_ite <;> ne_leaf); intro first1
  apply NEC_bind
  · split
    · ne_leaf
    · apply NEC_ite
      · ne_leaf
      · apply NEC_bind (probabilisticFirst_NEC _ _); intro c; ne_leaf
    · ne_leaf
  intro first
  apply NEC_bind (headerWalk_NEC _ _ _ _ _ _); intro walked
  apply NEC_ite
  · ne_leaf
  apply NEC_ite
  · ne_leaf
  apply NEC_bind (decodeCols_NEC _ _ _ _); intro ccols
  apply NEC_bind (NEC_liftPy (encodeVarint_NE _)); intro hv
  apply NEC_bind (NEC_liftPy (encodeVarint_NE _)); intro pv
  split <;> ne_leaf

theorem tryCarve_NE (fo pn ix : Nat) (i : RecIn) : NE (tryCarve fo pn ix i) := by
  unfold tryCarve
  split
  · ne_leaf
  · ne_leaf
  · ne_leaf
  · rename_i e _ he
    apply NE_err
    intro hh; subst hh
    exact carvedRecord_NEC i he

theorem reverseLoop_NE (mk : Nat → Nat → Nat → Py (Option CarvedCell)) (hmk : ∀ s e co, NE (mk s e co)) :
    ∀ ms co, NE (reverseLoop mk ms co) := by
  intro ms
  induction ms with
  | nil => intro co; unfold reverseLoop; ne_leaf
  | cons se rest ih =>
    obtain ⟨s, e⟩ := se
    intro co; unfold reverseLoop
    split
    · rename_i er he; exact NE_of_eq (hmk _ _ _) he
    · exact ih _
    · split
      · rename_i er he; exact NE_of_eq (ih _) he
      · ne_leaf

theorem partialInner_NE (mk : Nat → Nat → Nat → Py (Option CarvedCell)) (hmk : ∀ s e co, NE (mk s e co))
    (s e : Nat) : ∀ ivs pc, NE (partialInner mk s e ivs pc) := by
  intro ivs
  induction ivs with
  | nil => intro pc; unfold partialInner; ne_leaf
  | cons iv rest ih =>
    obtain ⟨lo, hi⟩ := iv
    intro pc; unfold partialInner
    simp only
    split
    · ne_leaf
    · apply NE_ite
      · split
        · rename_i er he; exact NE_of_eq (hmk _ _ _) he
        · exact ih _
        · split
          · rename_i er he; exact NE_of_eq (ih _) he
          · ne_leaf
      · exact ih _

theorem partialOuter_NE (mk : Nat → Nat → Nat → Py (Option CarvedCell)) (hmk : ∀ s e co, NE (mk s e co))
    (ivs : List (Option Nat × Nat)) : ∀ pms pc, NE (partialOuter mk ivs pms pc) := by
  intro pms
  induction pms with
  | nil => intro pc; unfold partialOuter; ne_leaf
  | cons se rest ih =>
    obtain ⟨s, e⟩ := se
    intro pc; unfold partialOuter
    split
    · rename_i er he; exact NE_of_eq (partialInner_NE mk hmk _ _ _ _) he
    · split
      · rename_i er he; exact NE_of_eq (ih _) he
      · ne_leaf

/-- `carveUnallocated` reads no file: it never raises EOFError -/
theorem carveUnallocated_NE (sig : CarveSig) (ps pn po rs : Nat) (data : Buf) :
    NE (carveUnallocated sig ps pn po rs data) := by
  unfold carveUnallocated
  apply NE_bind (chosenSignature_NE _); intro p
  apply NE_bind (genSignature_NE _ _); intro pat
  simp only
  apply NE_bind (reverseLoop_NE _ (fun _ _ _ => tryCarve_NE _ _ _ _) _ _); intro full
  apply NE_bind (genSignature_NE _ _); intro ppat
  apply NE_bind (partialOuter_NE _ (fun _ _ _ => tryCarve_NE _ _ _ _) _ _ _); intro part
  ne_leaf

theorem carveUnallocated_not_eof (sig : CarveSig) (ps pn po rs : Nat) (data : Buf) (e : PyErr)
    (h : carveUnallocated sig ps pn po rs data = .error e) : e ≠ .eofError := by
  intro hh; subst hh
  exact carveUnallocated_NE sig ps pn po rs data h

theorem carveJournalPage_not_eof (sig : CarveSig) (ps pn off : Nat) (content : Buf) (e : PyErr)
    (h : carveJournalPage sig ps pn off content = .error e) : e ≠ .eofError := by
  intro hh; subst hh
  revert h
  show NE (carveJournalPage sig ps pn off content)
  unfold carveJournalPage
  apply NE_ite
  · apply NE_bind (carveUnallocated_NE _ _ _ _ _ _); intro cells; ne_leaf
  · ne_leaf

/-! ### rollback journal -/

theorem read_ok (fh : FileH) (off n : Nat) (h1 : off < fh.size) (h2 : off + n ≤ fh.size) :
    fh.read off n = .ok (fh.data.slice off (off + n)) := by
  unfold FileH.read
  rw [if_neg (by omega), if_neg (by omega)]

theorem u32_not_eof (b : Buf) (off : Nat) (e : PyErr) (h : b.u32 off = .error e) : e ≠ .eofError := by
  unfold Buf.u32 at h
  split at h
  · cases h
  · cases h; intro hh; cases hh

theorem bind_error {ε α β : Type} {x : Except ε α} {f : α → Except ε β} {e : ε}
    (h : (x >>= f) = .error e) : x = .error e ∨ ∃ a, x = .ok a ∧ f a = .error e := by
  cases x with
  | error e' => left; cases h; rfl
  | ok a => exact Or.inr ⟨a, rfl, h⟩

theorem journalLoop_never_eof (sig : CarveSig) (ps : Nat) (fh : FileH)
    (hcarve : ∀ pn off content e', carveJournalPage sig ps pn off content = .error e' → e' ≠ .eofError) :
    ∀ (fuel offset : Nat) (e : PyErr), offset + (4 + ps + 4) ≤ fh.size →
      journalLoop sig ps fh fuel offset = .error e → e ≠ .eofError := by
  intro fuel
  induction fuel with
  | zero =>
    intro offset e _ h
    unfold journalLoop at h
    cases h
    intro hh; cases hh
  | succ fuel ih =>
    intro offset e hinv h
    unfold journalLoop at h
    rw [read_ok fh offset 4 (by omega) (by omega), read_ok fh (offset + 4) ps (by omega) (by omega),
      read_ok fh (offset + 4 + ps) 4 (by omega) (by omega)] at h
    simp only [bind, Except.bind] at h
    split at h
    · rename_i e1 hu
      cases h
      exact u32_not_eof _ _ _ hu
    · rename_i pn hu
      split at h
      · rename_i e1 hc1
        cases h
        exact hcarve _ _ _ _ hc1
      · rename_i c1 hc1
        split at h
        · split at h
          · cases h
          · rename_i hlt hlt4
            rw [read_ok fh (offset + (4 + ps + 4)) 4 (by omega) (by omega),
              read_ok fh (offset + (4 + ps + 4) + 4) (fh.size - 4 - (offset + (4 + ps + 4))) (by omega)
                (by omega)] at h
            simp only at h
            split at h
            · rename_i e2 hu2
              cases h
              exact u32_not_eof _ _ _ hu2
            · split at h
              · rename_i e2 hc2
                cases h
                exact hcarve _ _ _ _ hc2
              · cases h
        · rename_i hlt
          split at h
          · rename_i e2 hrec
            cases h
            exact ih _ _ (by omega) hrec
          · cases h

/-- after the repair no read goes past the end of the journal, whatever its size (the hypothesis on
`carveJournalPage` of the loop lemma is discharged by `carveJournalPage_not_eof`) -/
theorem journal_never_eof (sig : CarveSig) (ps : Nat) (fh : FileH) (e : PyErr)
    (h : carveJournal sig ps fh = .error e) : e ≠ .eofError := by
  unfold carveJournal at h
  split at h
  · rename_i hsz
    exact journalLoop_never_eof sig ps fh (fun pn off content e' => carveJournalPage_not_eof sig ps pn off content e')
      _ _ _ hsz h
  · cases h

theorem journal_header_only (sig : CarveSig) (ps : Nat) (fh : FileH) (h : fh.size < 512 + (4 + ps + 4)) :
    carveJournal sig ps fh = .ok [] := by
  unfold carveJournal
  rw [if_neg (by omega)]

end SqliteDissect.Proofs.Carve
