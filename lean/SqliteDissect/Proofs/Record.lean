import SqliteDissect.Proofs.Codec
import SqliteDissect.Spec.RecordFmt
import SqliteDissect.Model.Page
namespace SqliteDissect.Proofs.Record
open SqliteDissect SqliteDissect.Model
open SqliteDissect.Proofs.Codec

/-! ### the three small properties -/

theorem hdrSize_spec (n : Nat) (hn : n + 3 < 2 ^ 21) :
    Spec.hdrSize n = n + Spec.varintLen (Spec.hdrSize n) := by
  unfold Spec.hdrSize Spec.varintLen
  simp only [Nat.reducePow] at hn ⊢
  repeat' split
  all_goals omega

/-- the column the model reports for a stored column (same as `Properties.C01.expectedCol`) -/
def expectedCol (c : Spec.Col) : RecordCol :=
  ⟨c.st, Spec.varintLen (Spec.toU64 c.st), c.content.length, (Spec.serialGet c.st c.content).getD .null⟩

theorem expectedCol_defined (c : Spec.Col) (hv : Spec.ValidCol c) :
    ∃ v, Spec.serialGet c.st c.content = some v ∧
      (⟨c.st, Spec.varintLen (Spec.toU64 c.st), c.content.length,
        (Spec.serialGet c.st c.content).getD .null⟩ : RecordCol).value = v := by
  obtain ⟨_, _, hl, _⟩ := hv
  obtain ⟨v, hv⟩ := spec_serialGet_defined c.st c.content.length c.content hl rfl
  exact ⟨v, hv, by rw [hv]; rfl⟩

theorem record_signature (cols : List Spec.Col) (r : Record)
    (h : r.cols = cols.map fun c => (⟨c.st, Spec.varintLen (Spec.toU64 c.st), c.content.length,
        (Spec.serialGet c.st c.content).getD .null⟩ : RecordCol)) :
    r.signature = String.join (cols.map fun c => toString (serialTypeSignature c.st)) := by
  unfold Record.signature
  rw [h, List.map_map]
  rfl

/-! ### buffers -/

theorem rd_of_toList (b : Buf) (l : List Nat) (h : b.toList = l) (i : Nat) (hi : i < l.length) :
    i < b.size ∧ b.rd i = l[i] := by
  subst h
  have hi' : i < b.size := by rw [toList_length] at hi; exact hi
  exact ⟨hi', (toList_getElem b i hi).symm⟩

theorem append_toList (a b : Buf) : (a.append b).toList = a.toList ++ b.toList := by
  apply List.ext_getElem
  · simp [Buf.toList, Buf.append]
  · intro i h1 h2
    simp only [Buf.toList, Buf.append, List.getElem_map, List.getElem_range, List.getElem_append,
      List.length_map, List.length_range]
    split <;> rfl

theorem slice_toList' (b : Buf) (lo hi : Nat) (h1 : lo ≤ hi) (h2 : hi ≤ b.size) :
    (b.slice lo hi).toList = (b.toList.drop lo).take (hi - lo) := by
  have := slice_toList b lo (hi - lo) (by omega)
  rw [show lo + (hi - lo) = hi by omega] at this
  rw [this, content_eq b lo (hi - lo) (by omega)]

theorem pySlice_nat (b : Buf) (lo hi : Nat) (h2 : hi ≤ b.size) (h1 : lo ≤ hi) :
    pySlice b (lo : Int) (hi : Int) = b.slice lo hi := by
  unfold pySlice
  have a1 : ¬ ((lo : Int) < 0) := by omega
  have a2 : ¬ ((hi : Int) < 0) := by omega
  have a3 : ¬ ((lo : Int) > (b.size : Int)) := by omega
  have a4 : ¬ ((hi : Int) > (b.size : Int)) := by omega
  simp only [a1, a2, a3, a4, if_false, Int.toNat_natCast]

theorem pySlice_toList (b : Buf) (lo hi : Nat) (h1 : lo ≤ hi) (h2 : hi ≤ b.size) :
    (pySlice b (lo : Int) (hi : Int)).toList = (b.toList.drop lo).take (hi - lo) := by
  rw [pySlice_nat b lo hi h2 h1, slice_toList' b lo hi h1 h2]

/-! ### decode_varint reads only the bytes of the varint -/

theorem dvLoop_count (b : Buf) (off : Nat) : ∀ (n v rel : Nat) (r : Nat × Nat),
    dvLoop b off n v rel = .ok r → rel ≤ r.2 ∧ (0 < n → rel < r.2) := by
  intro n
  induction n with
  | zero =>
    intro v rel r h
    simp only [dvLoop, Except.ok.injEq] at h
    subst h; simp
  | succ n ih =>
    intro v rel r h
    unfold dvLoop at h
    by_cases hlt : off + rel < b.size
    · simp only [hlt, if_true] at h
      by_cases hn : n = 0
      · simp only [hn, if_true, Except.ok.injEq] at h
        subst h; simp
      · simp only [hn, if_false] at h
        by_cases hz : b.rd (off + rel) &&& 0x80 = 0
        · simp only [hz, if_true, Except.ok.injEq] at h
          subst h; simp
        · simp only [hz, if_false] at h
          have := ih _ _ _ h
          omega
    · simp only [hlt, if_false] at h
      cases h

theorem dvLoop_transfer (b1 b2 : Buf) (off1 off2 : Nat) : ∀ (n v rel : Nat) (r : Nat × Nat),
    dvLoop b1 off1 n v rel = .ok r →
    (∀ i, i < r.2 → off2 + i < b2.size ∧ b2.rd (off2 + i) = b1.rd (off1 + i)) →
    dvLoop b2 off2 n v rel = .ok r := by
  intro n
  induction n with
  | zero =>
    intro v rel r h _
    simpa only [dvLoop] using h
  | succ n ih =>
    intro v rel r h hag
    have hc := (dvLoop_count b1 off1 _ _ _ _ h).2 (Nat.succ_pos _)
    obtain ⟨hs, hr⟩ := hag rel hc
    unfold dvLoop at h ⊢
    by_cases hlt : off1 + rel < b1.size
    · simp only [hlt, if_true] at h
      simp only [hs, if_true, hr]
      by_cases hn : n = 0
      · simpa only [hn, if_true] using h
      · simp only [hn, if_false] at h ⊢
        by_cases hz : b1.rd (off1 + rel) &&& 0x80 = 0
        · simpa only [hz, if_true] using h
        · simp only [hz, if_false] at h ⊢
          exact ih _ _ _ h hag
    · simp only [hlt, if_false] at h
      cases h

/-- a canonical varint anywhere in a buffer decodes to its value, whatever surrounds it
(no well-formedness of the surrounding bytes is needed) -/
theorem decodeVarint_at (b : Buf) (p q : List Nat) (u : Nat) (hu : u < 2 ^ 64)
    (h : b.toList = p ++ Spec.putVarint u ++ q) :
    decodeVarint b p.length = .ok (Spec.toI64 u, Spec.varintLen u) := by
  have hwf : (Buf.ofList (Spec.putVarint u)).WF := ofList_WF _ (spec_put_bytes' u)
  have h1 := dvLoop_spec (Buf.ofList (Spec.putVarint u)) hwf 0 9 0 0 (by omega) (by omega)
  have hg := spec_get_put u hu []
  rw [List.append_nil] at hg
  simp only [Nat.zero_mul, Nat.add_zero, ofList_toList, List.drop_zero] at h1
  unfold Spec.getVarint at hg
  rw [hg, spec_put_length] at h1
  have h2 := dvLoop_transfer _ b 0 p.length 9 0 0 _ h1 (by
    intro i hi
    simp only at hi
    have hi' : i < (Spec.putVarint u).length := by rw [spec_put_length]; exact hi
    have hlen : p.length + i < (p ++ Spec.putVarint u ++ q).length := by
      simp only [List.length_append]; omega
    obtain ⟨a, e⟩ := rd_of_toList b _ h (p.length + i) hlen
    refine ⟨a, ?_⟩
    rw [e, Nat.zero_add, ofList_rd _ i hi']
    simp only [List.append_assoc, List.getElem_append_right (Nat.le_add_right p.length i),
      Nat.add_sub_cancel_left, List.getElem_append_left hi'])
  unfold decodeVarint
  rw [h2]
  simp only
  rw [← toI64_of_sign u hu]
  split <;> rfl

/-! ### the column loop -/

theorem typeBytes_cons (c : Spec.Col) (rest : List Spec.Col) :
    Spec.typeBytes (c :: rest) = Spec.putVarint (Spec.toU64 c.st) ++ Spec.typeBytes rest := by
  simp only [Spec.typeBytes, List.flatMap_cons]

theorem typeBytes_length_ge (cols : List Spec.Col) : cols.length ≤ (Spec.typeBytes cols).length := by
  induction cols with
  | nil => simp [Spec.typeBytes]
  | cons c rest ih =>
    rw [typeBytes_cons, List.length_append, spec_put_length, List.length_cons]
    have := varintLen_pos (Spec.toU64 c.st)
    omega

theorem decodeVarintI_nat (b : Buf) (n : Nat) : decodeVarintI b (n : Int) = decodeVarint b n := by
  unfold decodeVarintI
  rw [if_pos (by omega), Int.toNat_natCast]

/-- invariant of the `while current_header_offset < header_byte_size` loop: `hp` = header bytes
consumed so far, `bp` = body bytes consumed so far, `rest` = columns still to read -/
theorem recordCols_spec (total : Buf) (hsN szN : Nat) (hq : List Nat) :
    ∀ (rest : List Spec.Col) (hp bp : List Nat) (fuel : Nat) (acc : List RecordCol),
    (∀ c ∈ rest, Spec.ValidCol c) →
    total.toList = hp ++ Spec.typeBytes rest ++ hq →
    hp.length + (Spec.typeBytes rest).length = hsN →
    (pySlice total (hsN : Int) (szN : Int)).WF →
    (pySlice total (hsN : Int) (szN : Int)).toList = bp ++ rest.flatMap (·.content) →
    rest.length ≤ fuel →
    recordCols total (hsN : Int) (szN : Int) fuel (hp.length : Int) bp.length acc
      = .ok (acc.reverse ++ rest.map expectedCol) := by
  intro rest
  induction rest with
  | nil =>
    intro hp bp fuel acc _ _ hlen _ _ _
    simp only [Spec.typeBytes, List.flatMap_nil, List.length_nil, Nat.add_zero] at hlen
    have hnlt : ¬ ((hp.length : Int) < (hsN : Int)) := by omega
    cases fuel <;> simp [recordCols, hnlt]
  | cons c rest ih =>
    intro hp bp fuel acc hv htot hlen hwf hbody hfuel
    obtain ⟨h0, h63, hstl, _⟩ := hv c (List.mem_cons_self ..)
    have hvrest : ∀ c ∈ rest, Spec.ValidCol c := fun x hx => hv x (List.mem_cons_of_mem _ hx)
    obtain ⟨f, rfl⟩ : ∃ f, fuel = f + 1 := ⟨fuel - 1, by simp only [List.length_cons] at hfuel; omega⟩
    rw [typeBytes_cons] at htot hlen
    generalize hP : Spec.putVarint (Spec.toU64 c.st) = P at htot hlen
    have hPlen : P.length = Spec.varintLen (Spec.toU64 c.st) := by rw [← hP, spec_put_length]
    have hpos := varintLen_pos (Spec.toU64 c.st)
    rw [List.length_append] at hlen
    have hlt : (hp.length : Int) < (hsN : Int) := by omega
    -- the serial type varint
    have hdec : decodeVarintI total (hp.length : Int)
        = .ok (c.st, Spec.varintLen (Spec.toU64 c.st)) := by
      rw [decodeVarintI_nat,
        decodeVarint_at total hp (Spec.typeBytes rest ++ hq) (Spec.toU64 c.st) (toU64_lt _)
          (by rw [htot, hP, List.append_assoc, List.append_assoc, List.append_assoc]),
        toI64_toU64 c.st (by omega) h63]
    -- the content
    rw [List.flatMap_cons] at hbody
    have hsize : (pySlice total (hsN : Int) (szN : Int)).size
        = bp.length + c.content.length + (rest.flatMap (·.content)).length := by
      rw [← toList_length, hbody]; simp only [List.length_append]; omega
    have hcut : ((pySlice total (hsN : Int) (szN : Int)).toList.drop bp.length).take c.content.length
        = c.content := by
      rw [hbody, List.drop_left, List.take_left]
    obtain ⟨v, hval⟩ := spec_serialGet_defined c.st c.content.length c.content hstl rfl
    have hcont : getRecordContent c.st (pySlice total (hsN : Int) (szN : Int)) bp.length
        = .ok (c.content.length, v) := by
      rw [record_content_eq_spec c.st _ hwf bp.length c.content.length hstl (by omega), hcut, hval]
    have hnext := ih (hp ++ P) (bp ++ c.content) f
      (⟨c.st, Spec.varintLen (Spec.toU64 c.st), c.content.length, v⟩ :: acc) hvrest
      (by rw [htot]; simp only [List.append_assoc])
      (by rw [List.length_append]; omega) hwf
      (by rw [hbody]; simp only [List.append_assoc])
      (by simp only [List.length_cons] at hfuel; omega)
    rw [List.length_append, List.length_append, hPlen, Int.natCast_add] at hnext
    rw [recordCols]
    simp only [hlt, if_true, hdec, hcont, bind, Except.bind]
    rw [hnext]
    simp only [List.reverse_cons, List.append_assoc, List.map_cons, List.singleton_append,
      expectedCol, hval, Option.getD_some]

/-! ### `Record.__init__` -/

theorem WF_of_toList (b : Buf) (h : ∀ x ∈ b.toList, x < 256) : b.WF := by
  intro i hi
  have hi' : i < b.toList.length := by rw [toList_length]; exact hi
  have := h _ (List.getElem_mem hi')
  rwa [toList_getElem] at this

/-- the straight-line part of `parseRecord`, given what the two sub-computations return -/
theorem parseRecord_ok (page overflow : Buf) (off sz bf : Nat) (hs : Int) (hl : Nat)
    (cs : List RecordCol)
    (hle : bf ≤ sz) (hov : overflow.size = sz - bf)
    (hdec : decodeVarintI page (off : Int) = .ok (hs, hl))
    (hsize : ((pySlice page (off : Int) ((off : Int) + (bf : Int))).append overflow).size = sz)
    (hcols : recordCols ((pySlice page (off : Int) ((off : Int) + (bf : Int))).append overflow)
        hs (sz : Int) (sz + 1) (hl : Int) 0 [] = .ok cs) :
    parseRecord page (off : Int) (sz : Int) (bf : Int) overflow
      = .ok ⟨hs, hl, cs, ((pySlice page (off : Int) ((off : Int) + (bf : Int))).append overflow).toList⟩ := by
  unfold parseRecord
  have c1 : ¬ ((bf : Int) < (sz : Int) ∧ ¬ (decide (overflow.size ≠ 0) = true)) := by
    simp only [decide_eq_true_eq, hov]; omega
  have c2 : ¬ ((bf : Int) > (sz : Int)) := by omega
  have c3 : ¬ ((sz : Int) - (bf : Int) = 0 ∧ decide (overflow.size ≠ 0) = true) := by
    simp only [decide_eq_true_eq, hov]; omega
  have c4 : ¬ ((((pySlice page (off : Int) ((off : Int) + (bf : Int))).append overflow).size : Int)
      ≠ (sz : Int)) := by rw [hsize]; simp
  simp only [c1, c2, c3, if_false, hdec, bind, Except.bind, hsize, hcols, pure, Except.pure,
    ne_eq, not_true_eq_false]

theorem encodeRecord_length (cols : List Spec.Col) :
    (Spec.encodeRecord cols).length =
      Spec.varintLen (Spec.hdrSize (Spec.typeBytes cols).length) + (Spec.typeBytes cols).length
        + (cols.flatMap (·.content)).length := by
  unfold Spec.encodeRecord
  simp only [List.length_append, spec_put_length]

theorem encodeRecord_bytes (cols : List Spec.Col) (hv : ∀ c ∈ cols, Spec.ValidCol c) :
    ∀ x ∈ Spec.encodeRecord cols, x < 256 := by
  intro x hx
  unfold Spec.encodeRecord at hx
  rcases List.mem_append.1 hx with h | h
  · rcases List.mem_append.1 h with h | h
    · exact spec_put_bytes' _ x h
    · obtain ⟨c, _, hc⟩ := List.mem_flatMap.1 h
      exact spec_put_bytes' _ x hc
  · obtain ⟨c, hc, hx⟩ := List.mem_flatMap.1 h
    exact (hv c hc).2.2.2 x hx

theorem record_roundtrip (cols : List Spec.Col) (hv : ∀ c ∈ cols, Spec.ValidCol c)
    (hn : (Spec.typeBytes cols).length + 3 < 2 ^ 21)
    (pre post : List Nat) (b : Nat)
    (hb1 : Spec.varintLen (Spec.hdrSize (Spec.typeBytes cols).length) ≤ b)
    (hb2 : b ≤ (Spec.encodeRecord cols).length) :
    parseRecord (Buf.ofList (pre ++ (Spec.encodeRecord cols).take b ++ post)) (pre.length : Int)
        ((Spec.encodeRecord cols).length : Int) (b : Int) (Buf.ofList ((Spec.encodeRecord cols).drop b))
      = .ok ⟨(Spec.hdrSize (Spec.typeBytes cols).length : Int),
             Spec.varintLen (Spec.hdrSize (Spec.typeBytes cols).length),
             cols.map (fun c => (⟨c.st, Spec.varintLen (Spec.toU64 c.st), c.content.length,
               (Spec.serialGet c.st c.content).getD .null⟩ : RecordCol)), Spec.encodeRecord cols⟩ := by
  have hH := hdrSize_spec _ hn
  have hencLen := encodeRecord_length cols
  have hencDef : Spec.encodeRecord cols = Spec.putVarint (Spec.hdrSize (Spec.typeBytes cols).length)
      ++ Spec.typeBytes cols ++ cols.flatMap (·.content) := rfl
  have hencB := encodeRecord_bytes cols hv
  generalize hencE : Spec.encodeRecord cols = enc at *
  generalize hHE : Spec.hdrSize (Spec.typeBytes cols).length = H at *
  have hHlt : H < 2 ^ 21 := by
    rw [← hHE]; unfold Spec.hdrSize; simp only [Nat.reducePow] at hn ⊢; repeat' split
    all_goals omega
  simp only [Nat.reducePow] at hHlt
  have hPlen : (Spec.putVarint H).length = Spec.varintLen H := spec_put_length H
  -- the page
  have htakeLen : (enc.take b).length = b := by rw [List.length_take]; omega
  have hpageL : (Buf.ofList (pre ++ enc.take b ++ post)).toList = pre ++ enc.take b ++ post :=
    ofList_toList _
  have hpageSz : (Buf.ofList (pre ++ enc.take b ++ post)).size = pre.length + b + post.length := by
    rw [ofList_size]; simp only [List.length_append, htakeLen]
  -- header-size varint, read from the page
  have htake : enc.take b = Spec.putVarint H ++ (Spec.typeBytes cols ++ cols.flatMap (·.content)).take
      (b - (Spec.putVarint H).length) := by
    rw [hencDef, List.append_assoc, List.take_append, List.take_of_length_le (by omega)]
  have hdec : decodeVarintI (Buf.ofList (pre ++ enc.take b ++ post)) (pre.length : Int)
      = .ok ((H : Int), Spec.varintLen H) := by
    rw [decodeVarintI_nat, decodeVarint_at _ pre
      ((Spec.typeBytes cols ++ cols.flatMap (·.content)).take (b - (Spec.putVarint H).length) ++ post)
      H (by omega) (by rw [hpageL, htake]; simp only [List.append_assoc])]
    have : Spec.toI64 H = (H : Int) := by unfold Spec.toI64; rw [if_pos (by omega)]
    rw [this]
  -- total = local bytes + overflow
  have hcurL : (pySlice (Buf.ofList (pre ++ enc.take b ++ post)) (pre.length : Int)
      ((pre.length : Int) + (b : Int))).toList = enc.take b := by
    rw [← Int.natCast_add, pySlice_toList _ _ _ (by omega) (by omega), hpageL, List.append_assoc,
      List.drop_left, Nat.add_sub_cancel_left, List.take_left' htakeLen]
  have htotL : ((pySlice (Buf.ofList (pre ++ enc.take b ++ post)) (pre.length : Int)
      ((pre.length : Int) + (b : Int))).append (Buf.ofList (enc.drop b))).toList = enc := by
    rw [append_toList, hcurL, ofList_toList, List.take_append_drop]
  have htotSz : ((pySlice (Buf.ofList (pre ++ enc.take b ++ post)) (pre.length : Int)
      ((pre.length : Int) + (b : Int))).append (Buf.ofList (enc.drop b))).size = enc.length := by
    rw [← toList_length, htotL]
  generalize htotE : (pySlice (Buf.ofList (pre ++ enc.take b ++ post)) (pre.length : Int)
      ((pre.length : Int) + (b : Int))).append (Buf.ofList (enc.drop b)) = total at htotL htotSz
  -- the body
  have hbodyL : (pySlice total (H : Int) (enc.length : Int)).toList = [] ++ cols.flatMap (·.content) := by
    have e : (Spec.putVarint H ++ Spec.typeBytes cols).length = H := by
      rw [List.length_append, hPlen]; omega
    have hd : enc.drop H = cols.flatMap (·.content) := by
      rw [hencDef, List.drop_left' e]
    rw [pySlice_toList total H enc.length (by omega) (by omega), htotL, hd, List.nil_append,
      List.take_of_length_le (by omega)]
  have hbodyWF : (pySlice total (H : Int) (enc.length : Int)).WF := by
    apply WF_of_toList
    rw [hbodyL, List.nil_append]
    intro x hx
    exact hencB x (by rw [hencDef]; exact List.mem_append_right _ hx)
  have hcols := recordCols_spec total H enc.length (cols.flatMap (·.content)) cols
    (Spec.putVarint H) [] (enc.length + 1) [] hv (by rw [htotL, hencDef])
    (by rw [hPlen]; omega) hbodyWF hbodyL (by have := typeBytes_length_ge cols; omega)
  rw [hPlen, List.length_nil, List.reverse_nil, List.nil_append] at hcols
  have := parseRecord_ok (Buf.ofList (pre ++ enc.take b ++ post)) (Buf.ofList (enc.drop b))
    pre.length enc.length b (H : Int) (Spec.varintLen H) (cols.map expectedCol) hb2
    (by rw [ofList_size, List.length_drop]) hdec (by rw [htotE, htotSz]) (by rw [htotE]; exact hcols)
  rw [this, htotE, htotL]
  rfl

end SqliteDissect.Proofs.Record
