import SqliteDissect.Proofs.Codec
import SqliteDissect.Spec.RecordFmt
import SqliteDissect.Model.Page
namespace SqliteDissect.Proofs.Record
end SqliteDissect.Proofs.Record
