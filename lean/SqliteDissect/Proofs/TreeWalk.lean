/-
The b-tree walk that refuses a page reached twice (`parseBTreeLog` / `parseBTreeW`,
Model/Tree.lean) against the reference `parseBTree`:

* the walk succeeds exactly when the reference does and the page numbers of the result are
  pairwise distinct and not in the set the walk started with (`parseBTreeW_ok`,
  `parseBTreeW_of_pure`, `getBTreeRoot_iff`);
* the log of page constructions is duplicate free, on success and on failure, and every logged
  page is one the version serves: a walk starts at most as many page constructions as the
  version has pages, whatever the child pointers say (`log_nodup`, `constructions_le`).
-/
import SqliteDissect.Proofs.TreeBody
import SqliteDissect.Model.Wal

namespace SqliteDissect.Proofs.TreeWalk
open SqliteDissect SqliteDissect.Model SqliteDissect.Proofs.TreeFrame

/-! ### the walk monad -/

theorem bind_apply {α β : Type} (x : Walk α) (f : α → Walk β) (s : List Nat) :
    (x >>= f) s = match x s with
      | (s', .ok a) => f a s'
      | (s', .error e) => (s', .error e) := rfl

theorem pure_apply {α : Type} (a : α) (s : List Nat) : (pure a : Walk α) s = (s, .ok a) := rfl

theorem lift_apply {α : Type} (x : Py α) (s : List Nat) : Walk.lift x s = (s, x) := rfl

theorem lift_bind_eq {α β : Type} {x : Py α} {a : α} (h : x = .ok a) (f : α → Walk β) (s : List Nat) :
    (Walk.lift x >>= f) s = f a s := by
  subst h; rfl

theorem lift_bind_error {α β : Type} (e : PyErr) (f : α → Walk β) (s : List Nat) :
    (Walk.lift (.error e : Py α) >>= f) s = (s, .error e) := rfl

theorem bind_eq_of_ok {α β : Type} {x : Walk α} {s s1 : List Nat} {a : α} (h : x s = (s1, .ok a))
    (f : α → Walk β) : (x >>= f) s = f a s1 := by
  rw [bind_apply, h]

theorem enter_apply_of_not_mem {n : Nat} {s : List Nat} (h : n ∉ s) : Walk.enter n s = (n :: s, .ok ()) := by
  unfold Walk.enter
  rw [if_neg (by simpa using h)]

theorem enter_apply_of_mem {n : Nat} {s : List Nat} (h : n ∈ s) : Walk.enter n s = (s, .error .parseError) := by
  unfold Walk.enter
  rw [if_pos (by simpa using h)]

/-- inversion of a successful bind -/
theorem bind_okW {α β : Type} {x : Walk α} {f : α → Walk β} {s s' : List Nat} {b : β}
    (h : (x >>= f) s = (s', .ok b)) : ∃ a s1, x s = (s1, .ok a) ∧ f a s1 = (s', .ok b) := by
  rw [bind_apply] at h
  rcases hx : x s with ⟨s1, e | a⟩
  · rw [hx] at h
    simp only [Prod.mk.injEq, reduceCtorEq, and_false] at h
  · rw [hx] at h
    exact ⟨a, s1, rfl, h⟩

theorem lift_bind_okW {α β : Type} {x : Py α} {f : α → Walk β} {s s' : List Nat} {b : β}
    (h : (Walk.lift x >>= f) s = (s', .ok b)) : ∃ a, x = .ok a ∧ f a s = (s', .ok b) := by
  cases x with
  | error e =>
    rw [lift_bind_error] at h
    simp only [Prod.mk.injEq, reduceCtorEq, and_false] at h
  | ok a => exact ⟨a, rfl, h⟩

theorem enter_bind_okW {β : Type} {n : Nat} {f : Unit → Walk β} {s s' : List Nat} {b : β}
    (h : (Walk.enter n >>= f) s = (s', .ok b)) : n ∉ s ∧ f () (n :: s) = (s', .ok b) := by
  by_cases hn : n ∈ s
  · rw [bind_apply, enter_apply_of_mem hn] at h
    simp only [Prod.mk.injEq, reduceCtorEq, and_false] at h
  · rw [bind_apply, enter_apply_of_not_mem hn] at h
    exact ⟨hn, h⟩

theorem lift_okW {α : Type} {x : Py α} {s s' : List Nat} {a : α}
    (h : Walk.lift x s = (s', .ok a)) : x = .ok a ∧ s' = s := by
  rw [lift_apply] at h
  simp only [Prod.mk.injEq] at h
  exact ⟨h.2, h.1.symm⟩

theorem pure_okW {α : Type} {a b : α} {s s' : List Nat}
    (h : (pure a : Walk α) s = (s', .ok b)) : b = a ∧ s' = s := by
  rw [pure_apply] at h
  simp only [Prod.mk.injEq, Except.ok.injEq] at h
  exact ⟨h.2.symm, h.1.symm⟩

/-! ### the body of `parseBTreeLog` with its parts named (as for `parseBTree` in TreeBody) -/

/-- the construction of a cell's left child subtree -/
def cellSubL (v : VersionIf) (fuel : Nat) (isTable : Bool) : Option Nat → Walk (List BPage)
  | some lc => do
    let fb ← Walk.lift (v.getData lc 0 (some Generated.PAGE_TYPE_LENGTH))
    match childClass isTable fb with
    | some ccls =>
      if fuel < cellDescentFrames then (Walk.lift (.error .recursionError) : Walk (List BPage))
      else parseBTreeLog v (fuel - cellDescentFrames) lc ccls
    | none => Walk.lift (.error .parseError)
  | none => pure []

/-- one iteration of the cell loop of `parseBTreeLog v (fuel+1) _ cls` -/
def cellStepL (v : VersionIf) (fuel : Nat) (cls : PageType) (page : Buf) (ptrOff : Nat)
    (st : CellSt) (idx : Nat) : Walk CellSt := do
  let cellOff ← Walk.lift (unpackAt page (ptrOff + idx * Generated.CELL_POINTER_BYTE_LENGTH) Generated.CELL_POINTER_BYTE_LENGTH)
  let c ← Walk.lift (parseCellLocal v (cellKindOf cls) page idx cellOff)
  let sub ← cellSubL v fuel cls.isTable c.leftChild
  let sz : Int := if cellKindOf cls ≠ .tableInterior ∧ c.hasOverflow then c.end_ - c.start
                  else max c.byteSize (Generated.MINIMUM_CELL_ALLOCATION_SIZE : Int)
  pure (st.1 ++ [c], st.2.1 ++ [sub], st.2.2 + sz)

/-- the right-most descent and the assembly of the result -/
def finishL (v : VersionIf) (fuel : Nat) (cls : PageType) (hdr : PageHdr) (me : BPage)
    (subs : List (List BPage)) : Walk (List BPage) :=
  if cls.isInterior then
    match hdr.rightMost with
    | none => Walk.lift (.error .attributeError)
    | some rm =>
      if rm = 0 then Walk.lift (.error .parseError)
      else do
        let fb ← Walk.lift (v.getData rm 0 (some Generated.PAGE_TYPE_LENGTH))
        match childClass cls.isTable fb with
        | some ccls =>
          if fuel < rightMostDescentFrames then Walk.lift (.error .recursionError)
          else do
            let rsub ← parseBTreeLog v (fuel - rightMostDescentFrames) rm ccls
            pure (me :: rsub ++ subs.flatten)
        | none => Walk.lift (.error .parseError)
  else pure [me]

theorem parseBTreeLog_succ (v : VersionIf) (fuel number : Nat) (cls : PageType) :
    parseBTreeLog v (fuel + 1) number cls = (do
      let pv ← Walk.lift (v.pageVersion number)
      let off ← Walk.lift (v.pageOffset number)
      Walk.enter number
      let page ← Walk.lift (v.getData number 0 none)
      let ptype ← Walk.lift (btreePageType page)
      let hdr ← Walk.lift (parsePageHdr page cls.isInterior)
      if hdr.containsDbHeader ∧ number ≠ Generated.SQLITE_MASTER_SCHEMA_ROOT_PAGE then Walk.lift (.error .parseError)
      else do
        let st ← (List.range hdr.nCells).foldlM (cellStepL v fuel cls page (ptrOffOf hdr)) ([], [], 0)
        let fbs ← Walk.lift (fbsOf page hdr)
        let lay ← Walk.lift (layOf v.strict v.pageSize hdr st fbs)
        finishL v fuel cls hdr (mkPage number ptype hdr pv off page st fbs lay) st.2.1) := by
  rw [parseBTreeLog]
  rfl

theorem parseBTreeLog_zero (v : VersionIf) (number : Nat) (cls : PageType) :
    parseBTreeLog v 0 number cls = Walk.lift (.error .recursionError) := by
  rw [parseBTreeLog]

/-! ### what any walk does to the set (success or failure) -/

/-- `s'` extends `s` by pairwise distinct page numbers that were not in `s`, each of a page whose
offset the version looks up successfully -/
def Ext (v : VersionIf) (s s' : List Nat) : Prop :=
  ∃ new, s' = new ++ s ∧ new.Nodup ∧ (∀ x ∈ new, x ∉ s) ∧ ∀ x ∈ new, (v.pageOffset x).isOk = true

theorem Ext.refl (v : VersionIf) (s : List Nat) : Ext v s s :=
  ⟨[], rfl, List.nodup_nil, by simp, by simp⟩

theorem Ext.trans {v : VersionIf} {s s' s'' : List Nat} (h : Ext v s s') (h' : Ext v s' s'') : Ext v s s'' := by
  obtain ⟨n1, rfl, hd1, hn1, ho1⟩ := h
  obtain ⟨n2, rfl, hd2, hn2, ho2⟩ := h'
  refine ⟨n2 ++ n1, (List.append_assoc _ _ _).symm, ?_, ?_, ?_⟩
  · rw [List.nodup_append]
    refine ⟨hd2, hd1, fun a ha b hb hab => ?_⟩
    subst hab
    exact hn2 a ha (List.mem_append_left _ hb)
  · intro x hx
    rcases List.mem_append.mp hx with hx | hx
    · exact fun hs => hn2 x hx (List.mem_append_right _ hs)
    · exact hn1 x hx
  · intro x hx
    rcases List.mem_append.mp hx with hx | hx
    · exact ho2 x hx
    · exact ho1 x hx

/-- the walk `x` only ever extends the set in the sense of `Ext` -/
def Pres {α : Type} (v : VersionIf) (x : Walk α) : Prop := ∀ s, Ext v s (x s).1

theorem Pres.lift {α : Type} (v : VersionIf) (x : Py α) : Pres v (Walk.lift x) := fun s => Ext.refl v s

theorem Pres.pure {α : Type} (v : VersionIf) (a : α) : Pres v (pure a : Walk α) := fun s => Ext.refl v s

theorem Pres.bind {α β : Type} {v : VersionIf} {x : Walk α} {f : α → Walk β}
    (hx : Pres v x) (hf : ∀ a, Pres v (f a)) : Pres v (x >>= f) := by
  intro s
  have h1 := hx s
  rw [bind_apply]
  rcases hxs : x s with ⟨s1, e | a⟩
  · rw [hxs] at h1; exact h1
  · rw [hxs] at h1; exact h1.trans (hf a s1)

theorem Pres.lift_bind {α β : Type} {v : VersionIf} {x : Py α} {f : α → Walk β}
    (hf : ∀ a, x = .ok a → Pres v (f a)) : Pres v (Walk.lift x >>= f) := by
  cases x with
  | error e => exact fun s => Ext.refl v s
  | ok a => exact hf a rfl

theorem Pres.foldlM {σ ι : Type} {v : VersionIf} {f : σ → ι → Walk σ} (hf : ∀ st i, Pres v (f st i)) :
    ∀ (l : List ι) (init : σ), Pres v (l.foldlM f init) := by
  intro l
  induction l with
  | nil => intro init; exact Pres.pure v init
  | cons a l ih =>
    intro init
    rw [List.foldlM_cons]
    exact Pres.bind (hf init a) ih

theorem Pres.enter {v : VersionIf} {n : Nat} (h : (v.pageOffset n).isOk = true) : Pres v (Walk.enter n) := by
  intro s
  by_cases hn : n ∈ s
  · rw [enter_apply_of_mem hn]; exact Ext.refl v s
  · rw [enter_apply_of_not_mem hn]
    refine ⟨[n], rfl, by simp, ?_, ?_⟩
    · intro x hx; rw [List.mem_singleton] at hx; subst hx; exact hn
    · intro x hx; rw [List.mem_singleton] at hx; subst hx; exact h

theorem cellSubL_pres (v : VersionIf) (fuel : Nat) (isT : Bool)
    (ih : ∀ m, m < fuel + 1 → ∀ (n : Nat) (cls : PageType), Pres v (parseBTreeLog v m n cls))
    (lcOpt : Option Nat) : Pres v (cellSubL v fuel isT lcOpt) := by
  cases lcOpt with
  | none => exact Pres.pure v _
  | some lc =>
    simp only [cellSubL]
    refine Pres.lift_bind fun fb _ => ?_
    split
    · split
      · exact Pres.lift v _
      · exact ih _ (by omega) _ _
    · exact Pres.lift v _

theorem cellStepL_pres (v : VersionIf) (fuel : Nat) (cls : PageType) (page : Buf) (ptrOff : Nat)
    (ih : ∀ m, m < fuel + 1 → ∀ (n : Nat) (cls : PageType), Pres v (parseBTreeLog v m n cls))
    (st : CellSt) (idx : Nat) : Pres v (cellStepL v fuel cls page ptrOff st idx) := by
  unfold cellStepL
  refine Pres.lift_bind fun cellOff _ => ?_
  refine Pres.lift_bind fun c _ => ?_
  exact Pres.bind (cellSubL_pres v fuel _ ih _) fun sub => Pres.pure v _

theorem finishL_pres (v : VersionIf) (fuel : Nat) (cls : PageType) (hdr : PageHdr) (me : BPage)
    (subs : List (List BPage))
    (ih : ∀ m, m < fuel + 1 → ∀ (n : Nat) (cls : PageType), Pres v (parseBTreeLog v m n cls)) :
    Pres v (finishL v fuel cls hdr me subs) := by
  unfold finishL
  split
  · split
    · exact Pres.lift v _
    · split
      · exact Pres.lift v _
      · refine Pres.lift_bind fun fb _ => ?_
        split
        · split
          · exact Pres.lift v _
          · exact Pres.bind (ih _ (by omega) _ _) fun rsub => Pres.pure v _
        · exact Pres.lift v _
  · exact Pres.pure v _

/-- **the set only grows, by fresh served pages** — whether the walk succeeds or fails -/
theorem parseBTreeLog_pres (v : VersionIf) :
    ∀ (fuel n : Nat) (cls : PageType), Pres v (parseBTreeLog v fuel n cls) := by
  intro fuel
  induction fuel using Nat.strongRecOn with
  | ind fuel ih =>
  intro n cls
  cases fuel with
  | zero => rw [parseBTreeLog_zero]; exact Pres.lift v _
  | succ fuel =>
    rw [parseBTreeLog_succ]
    refine Pres.lift_bind fun pv _ => ?_
    refine Pres.lift_bind fun off hoff => ?_
    refine Pres.bind (Pres.enter (by rw [hoff]; rfl)) fun _ => ?_
    refine Pres.lift_bind fun page _ => ?_
    refine Pres.lift_bind fun ptype _ => ?_
    refine Pres.lift_bind fun hdr _ => ?_
    split
    · exact Pres.lift v _
    refine Pres.bind (Pres.foldlM (fun st i => cellStepL_pres v fuel cls page _ ih st i) _ _) fun st => ?_
    refine Pres.lift_bind fun fbs _ => ?_
    refine Pres.lift_bind fun lay _ => ?_
    exact finishL_pres v fuel cls hdr _ _ ih

/-! ### a successful walk is a successful reference parse, and logs exactly its pages -/

/-- `s'` is `s` extended by the numbers of the pages `ps`, in some order -/
def LogOf (s s' : List Nat) (ps : List BPage) : Prop :=
  ∃ new, s' = new ++ s ∧ new.Perm (ps.map (·.number))

theorem LogOf.nil (s : List Nat) : LogOf s s [] := ⟨[], rfl, List.Perm.refl _⟩

theorem LogOf.single (s : List Nat) (me : BPage) : LogOf s (me.number :: s) [me] :=
  ⟨[me.number], rfl, List.Perm.refl _⟩

theorem LogOf.trans {s s' s'' : List Nat} {a b : List BPage} (h : LogOf s s' a) (h' : LogOf s' s'' b) :
    LogOf s s'' (a ++ b) := by
  obtain ⟨n1, rfl, hp1⟩ := h
  obtain ⟨n2, rfl, hp2⟩ := h'
  refine ⟨n2 ++ n1, (List.append_assoc _ _ _).symm, ?_⟩
  rw [List.map_append]
  exact List.perm_append_comm.trans (hp1.append hp2)

theorem LogOf.perm {s s' : List Nat} {a b : List BPage} (h : LogOf s s' a)
    (hab : (a.map (·.number)).Perm (b.map (·.number))) : LogOf s s' b := by
  obtain ⟨n1, rfl, hp1⟩ := h
  exact ⟨n1, rfl, hp1.trans hab⟩

theorem LogOf.mem_iff {s s' : List Nat} {a : List BPage} (h : LogOf s s' a) (x : Nat) :
    x ∈ s' ↔ x ∈ a.map (·.number) ∨ x ∈ s := by
  obtain ⟨n1, rfl, hp1⟩ := h
  rw [List.mem_append, hp1.mem_iff]

/-- a successful fold in the walk monad is a successful fold of the reference step -/
theorem foldlM_okW {σ ι : Type} (f : σ → ι → Walk σ) (g : σ → ι → Py σ) (J : σ → List Nat → Prop)
    (hstep : ∀ st i s s' st', J st s → f st i s = (s', .ok st') → g st i = .ok st' ∧ J st' s') :
    ∀ (l : List ι) (init : σ) (s s' : List Nat) (fin : σ), J init s →
      l.foldlM f init s = (s', .ok fin) → l.foldlM g init = .ok fin ∧ J fin s' := by
  intro l
  induction l with
  | nil =>
    intro init s s' fin hJ h
    rw [List.foldlM_nil] at h
    obtain ⟨rfl, rfl⟩ := pure_okW h
    exact ⟨rfl, hJ⟩
  | cons a l ih =>
    intro init s s' fin hJ h
    rw [List.foldlM_cons] at h
    obtain ⟨st1, s1, h1, h⟩ := bind_okW h
    obtain ⟨hg, hJ1⟩ := hstep _ _ _ _ _ hJ h1
    obtain ⟨hfold, hJf⟩ := ih _ _ _ _ hJ1 h
    rw [List.foldlM_cons, hg, ok_bind]
    exact ⟨hfold, hJf⟩

/-- what the induction hypothesis says about smaller walks -/
def OkSpec (v : VersionIf) (m : Nat) : Prop :=
  ∀ (n : Nat) (cls : PageType) (s s' : List Nat) (ps : List BPage),
    parseBTreeLog v m n cls s = (s', .ok ps) → parseBTree v m n cls = .ok ps ∧ LogOf s s' ps

theorem cellSubL_ok (v : VersionIf) (fuel : Nat) (isT : Bool)
    (ih : ∀ m, m < fuel + 1 → OkSpec v m)
    (lcOpt : Option Nat) (s s' : List Nat) (sub : List BPage)
    (h : cellSubL v fuel isT lcOpt s = (s', .ok sub)) :
    cellSub v fuel isT lcOpt = .ok sub ∧ LogOf s s' sub := by
  cases lcOpt with
  | none =>
    simp only [cellSubL] at h
    obtain ⟨rfl, rfl⟩ := pure_okW h
    exact ⟨rfl, LogOf.nil _⟩
  | some lc =>
    simp only [cellSubL] at h
    obtain ⟨fb, hfb, h⟩ := lift_bind_okW h
    cases hccls : childClass isT fb with
    | none =>
      rw [hccls] at h
      exact absurd (lift_okW h).1 (by simp)
    | some ccls =>
      rw [hccls] at h
      simp only at h
      split at h
      · exact absurd (lift_okW h).1 (by simp)
      rename_i hfuel
      obtain ⟨hp, hl⟩ := ih _ (by omega) _ _ _ _ _ h
      refine ⟨?_, hl⟩
      simp only [cellSub]
      rw [hfb, ok_bind, hccls]
      simp only
      rw [if_neg hfuel]
      exact hp

theorem cellStepL_ok (v : VersionIf) (fuel : Nat) (cls : PageType) (page : Buf) (ptrOff : Nat)
    (ih : ∀ m, m < fuel + 1 → OkSpec v m)
    (st st' : CellSt) (idx : Nat) (s s' : List Nat)
    (h : cellStepL v fuel cls page ptrOff st idx s = (s', .ok st')) :
    cellStep v fuel cls page ptrOff st idx = .ok st' ∧
      ∃ sub, st'.2.1 = st.2.1 ++ [sub] ∧ LogOf s s' sub := by
  unfold cellStepL at h
  obtain ⟨cellOff, h1, h⟩ := lift_bind_okW h
  obtain ⟨c, h2, h⟩ := lift_bind_okW h
  obtain ⟨sub, s1, h3, h⟩ := bind_okW h
  obtain ⟨rfl, rfl⟩ := pure_okW h
  obtain ⟨h3', hl⟩ := cellSubL_ok v fuel _ ih _ _ _ _ h3
  exact ⟨cellStep_of v fuel cls page ptrOff st idx cellOff c sub h1 h2 h3', sub, rfl, hl⟩

theorem finishL_ok (v : VersionIf) (fuel : Nat) (cls : PageType) (hdr : PageHdr) (me : BPage)
    (subs : List (List BPage)) (ih : ∀ m, m < fuel + 1 → OkSpec v m)
    (s s' : List Nat) (t : List BPage) (h : finishL v fuel cls hdr me subs s = (s', .ok t)) :
    finish v fuel cls hdr me subs = .ok t ∧
      ((cls.isInterior = false ∧ t = [me] ∧ s' = s) ∨
       (cls.isInterior = true ∧ ∃ rsub, t = me :: (rsub ++ subs.flatten) ∧ LogOf s s' rsub)) := by
  unfold finishL at h
  split at h
  · rename_i hint
    cases hrm : hdr.rightMost with
    | none =>
      rw [hrm] at h
      exact absurd (lift_okW h).1 (by simp)
    | some rm =>
    rw [hrm] at h
    simp only at h
    split at h
    · exact absurd (lift_okW h).1 (by simp)
    rename_i hrm0
    obtain ⟨fb, hfb, h⟩ := lift_bind_okW h
    cases hccls : childClass cls.isTable fb with
    | none =>
      rw [hccls] at h
      exact absurd (lift_okW h).1 (by simp)
    | some ccls =>
      rw [hccls] at h
      simp only at h
      split at h
      · exact absurd (lift_okW h).1 (by simp)
      rename_i hfuel
      obtain ⟨rsub, s1, hr, h⟩ := bind_okW h
      obtain ⟨rfl, rfl⟩ := pure_okW h
      obtain ⟨hp, hl⟩ := ih _ (by omega) _ _ _ _ _ hr
      exact ⟨finish_interior v fuel cls hdr me subs rm fb ccls rsub hint hrm hrm0 hfb hccls hfuel hp,
        Or.inr ⟨hint, rsub, rfl, hl⟩⟩
  · rename_i hint
    obtain ⟨rfl, rfl⟩ := pure_okW h
    have hl : cls.isInterior = false := by simpa using hint
    exact ⟨finish_leaf v fuel cls hdr me subs hl, Or.inl ⟨hl, rfl, rfl⟩⟩

theorem mkPage_number (number : Nat) (ptype : PageType) (hdr : PageHdr) (pv off : Nat) (page : Buf) (st : CellSt)
    (fbs : List Freeblock) (lay : LayoutResult) : (mkPage number ptype hdr pv off page st fbs lay).number = number := rfl

theorem flatten_eq_nil_of_all_nil {α : Type} (subs : List (List α)) (h : ∀ s ∈ subs, s = []) : subs.flatten = [] := by
  induction subs with
  | nil => rfl
  | cons a l ih =>
    rw [List.flatten_cons, h a (by simp), ih (fun s hs => h s (by simp [hs]))]
    rfl

/-- **a successful walk**: the reference parse succeeds with the same pages, and the set grew by
exactly the numbers of these pages -/
theorem parseBTreeLog_ok (v : VersionIf) : ∀ (fuel : Nat), OkSpec v fuel := by
  intro fuel
  induction fuel using Nat.strongRecOn with
  | ind fuel ih =>
  intro n cls s s' ps h
  cases fuel with
  | zero =>
    rw [parseBTreeLog_zero] at h
    exact absurd (lift_okW h).1 (by simp)
  | succ fuel =>
    rw [parseBTreeLog_succ] at h
    obtain ⟨pv, hpv, h⟩ := lift_bind_okW h
    obtain ⟨off, hoff, h⟩ := lift_bind_okW h
    obtain ⟨hns, h⟩ := enter_bind_okW h
    obtain ⟨page, hpage, h⟩ := lift_bind_okW h
    obtain ⟨ptype, hptype, h⟩ := lift_bind_okW h
    obtain ⟨hdr, hhdr, h⟩ := lift_bind_okW h
    split at h
    · exact absurd (lift_okW h).1 (by simp)
    rename_i hroot
    obtain ⟨st, s2, hfold, h⟩ := bind_okW h
    obtain ⟨fbs, hfbs, h⟩ := lift_bind_okW h
    obtain ⟨lay, hlay, h⟩ := lift_bind_okW h
    -- the cell loop
    obtain ⟨hfold', hJ⟩ := foldlM_okW (cellStepL v fuel cls page (ptrOffOf hdr)) (cellStep v fuel cls page (ptrOffOf hdr))
      (fun st s' => LogOf (n :: s) s' st.2.1.flatten)
      (by
        intro st i sa sb st' hJ hstep
        obtain ⟨hg, sub, hsub, hl⟩ := cellStepL_ok v fuel cls page _ ih _ _ _ _ _ hstep
        refine ⟨hg, ?_⟩
        show LogOf (n :: s) sb st'.2.1.flatten
        rw [hsub, List.flatten_append, List.flatten_singleton]
        exact hJ.trans hl)
      _ _ _ _ _ (LogOf.nil (n :: s)) hfold
    obtain ⟨hfin, hcase⟩ := finishL_ok v fuel cls hdr _ _ ih _ _ _ h
    have hpure : parseBTree v (fuel + 1) n cls = .ok ps := by
      rw [parseBTree_of_parts v fuel n cls pv off page ptype hdr st fbs lay hpv hoff hpage hptype hhdr hroot hfold' hfbs hlay]
      exact hfin
    refine ⟨hpure, ?_⟩
    rcases hcase with ⟨hleaf, rfl, rfl⟩ | ⟨hint, rsub, rfl, hlr⟩
    · have hnil := fold_leaf_subs v fuel cls page (ptrOffOf hdr) hleaf _ _ _ hfold' (by simp)
      rw [flatten_eq_nil_of_all_nil _ hnil] at hJ
      obtain ⟨new, hnew, hp⟩ := hJ
      have : new = [] := by simpa using hp
      subst this
      rw [hnew, List.nil_append]
      exact LogOf.single s (mkPage n ptype hdr pv off page st fbs lay)
    · have h1 : LogOf s (n :: s) [mkPage n ptype hdr pv off page st fbs lay] :=
        LogOf.single s (mkPage n ptype hdr pv off page st fbs lay)
      have h2 := (h1.trans hJ).trans hlr
      refine h2.perm ?_
      simp only [List.map_append, List.map_cons, List.nil_append, List.cons_append]
      exact List.Perm.cons _ List.perm_append_comm

/-! ### conversely: a reference parse with pairwise distinct fresh pages is a successful walk -/

/-- a successful fold of the reference step is a successful fold in the walk monad, when a
backwards-closed property `P` of the final state makes every step go through -/
theorem foldlM_of_pureW {σ ι : Type} (f : σ → ι → Walk σ) (g : σ → ι → Py σ) (P : σ → Prop)
    (J : σ → List Nat → Prop)
    (hback : ∀ st i st', g st i = .ok st' → P st' → P st)
    (hstep : ∀ st i st' s, g st i = .ok st' → P st' → J st s → ∃ s', f st i s = (s', .ok st') ∧ J st' s') :
    ∀ (l : List ι) (init fin : σ) (s : List Nat), l.foldlM g init = .ok fin → P fin → J init s →
      ∃ s', l.foldlM f init s = (s', .ok fin) ∧ J fin s' := by
  intro l
  induction l with
  | nil =>
    intro init fin s h _ hJ
    simp only [List.foldlM_nil, pure, Except.pure, Except.ok.injEq] at h
    subst h
    exact ⟨s, rfl, hJ⟩
  | cons a l ih =>
    intro init fin s h hP hJ
    rw [List.foldlM_cons] at h
    obtain ⟨st1, h1, h⟩ := bind_ok h
    have hP1 : P st1 := foldlM_back g P hback l st1 fin h hP
    obtain ⟨s1, hf1, hJ1⟩ := hstep _ _ _ _ h1 hP1 hJ
    obtain ⟨s', hf, hJf⟩ := ih _ _ _ h hP hJ1
    exact ⟨s', by rw [List.foldlM_cons, bind_eq_of_ok hf1]; exact hf, hJf⟩

/-- the page numbers of a list of pages -/
abbrev nums (ps : List BPage) : List Nat := ps.map (·.number)

def OfPure (v : VersionIf) (m : Nat) : Prop :=
  ∀ (n : Nat) (cls : PageType) (ps : List BPage) (s : List Nat),
    parseBTree v m n cls = .ok ps → (nums ps).Nodup → (∀ x ∈ nums ps, x ∉ s) →
    ∃ s', parseBTreeLog v m n cls s = (s', .ok ps)

theorem cellSubL_of_pure (v : VersionIf) (fuel : Nat) (isT : Bool)
    (ih : ∀ m, m < fuel + 1 → OfPure v m) (lcOpt : Option Nat) (s : List Nat) (sub : List BPage)
    (h : cellSub v fuel isT lcOpt = .ok sub) (hnd : (nums sub).Nodup) (hdis : ∀ x ∈ nums sub, x ∉ s) :
    ∃ s', cellSubL v fuel isT lcOpt s = (s', .ok sub) := by
  rcases cellSub_ok _ _ _ _ _ h with ⟨rfl, rfl⟩ | ⟨lc, fb, ccls, rfl, hfb, hccls, hfuel, hp⟩
  · exact ⟨s, rfl⟩
  · obtain ⟨s', hs'⟩ := ih _ (by omega) _ _ _ s hp hnd hdis
    refine ⟨s', ?_⟩
    simp only [cellSubL]
    rw [lift_bind_eq hfb, hccls]
    simp only
    rw [if_neg hfuel]
    exact hs'

theorem nodup_cons_append {n : Nat} {a b : List Nat} (h : (n :: (a ++ b)).Nodup) :
    n ∉ a ∧ n ∉ b ∧ a.Nodup ∧ b.Nodup ∧ ∀ x ∈ a, x ∉ b := by
  rw [List.nodup_cons, List.nodup_append, List.mem_append] at h
  exact ⟨fun ha => h.1 (Or.inl ha), fun hb => h.1 (Or.inr hb), h.2.1, h.2.2.1,
    fun x hx hb => h.2.2.2 x hx x hb rfl⟩

/-- **the converse**: when the reference parse succeeds with pairwise distinct pages none of
which is in the set, the walk succeeds with the same pages -/
theorem parseBTreeLog_of_pure (v : VersionIf) : ∀ (fuel : Nat), OfPure v fuel := by
  intro fuel
  induction fuel using Nat.strongRecOn with
  | ind fuel ih =>
  intro n cls ps s h hnd hdis
  cases fuel with
  | zero => rw [parseBTree_zero] at h; exact nomatch h
  | succ fuel =>
    obtain ⟨⟨pv, off, page, ptype, hdr, st, fbs, lay, hpv, hoff, hpage, hptype, hhdr, hroot, hfoldp, hfbs, hlay, hfin⟩⟩ :=
      parseBTree_parts v fuel n cls ps h
    have ihok : ∀ m, m < fuel + 1 → OkSpec v m := fun m _ => parseBTreeLog_ok v m
    -- the head of the result is this page
    have hhead : ∃ rest, ps = mkPage n ptype hdr pv off page st fbs lay :: rest := by
      rcases finish_ok _ _ _ _ _ _ _ hfin with ⟨_, ht⟩ | ⟨_, rm, fb, ccls, rsub, _, _, _, _, _, _, ht⟩
      · exact ⟨[], ht⟩
      · exact ⟨_, ht⟩
    have hns : n ∉ s := by
      obtain ⟨rest, hrest⟩ := hhead
      apply hdis
      rw [hrest]
      simp [mkPage_number]
    -- the state of the cell loop that makes every step go through
    let Pst : CellSt → Prop := fun st =>
      (nums st.2.1.flatten).Nodup ∧ ∀ x ∈ nums st.2.1.flatten, x ∉ n :: s
    let J : CellSt → List Nat → Prop := fun st s' => LogOf (n :: s) s' st.2.1.flatten
    have hback : ∀ (st : CellSt) (i : Nat) (st' : CellSt),
        cellStep v fuel cls page (ptrOffOf hdr) st i = .ok st' → Pst st' → Pst st := by
      intro st i st' hs hP
      obtain ⟨cellOff, c, sub, _, _, _, rfl⟩ := cellStep_ok _ _ _ _ _ _ _ _ hs
      simp only [Pst, List.flatten_append, List.flatten_singleton, nums, List.map_append] at hP ⊢
      rw [List.nodup_append] at hP
      exact ⟨hP.1.1, fun x hx => hP.2 x (List.mem_append_left _ hx)⟩
    have hstep : ∀ (st : CellSt) (i : Nat) (st' : CellSt) (sa : List Nat),
        cellStep v fuel cls page (ptrOffOf hdr) st i = .ok st' → Pst st' → J st sa →
        ∃ sb, cellStepL v fuel cls page (ptrOffOf hdr) st i sa = (sb, .ok st') ∧ J st' sb := by
      intro st i st' sa hs hP hJ
      obtain ⟨cellOff, c, sub, h1, h2, h3, rfl⟩ := cellStep_ok _ _ _ _ _ _ _ _ hs
      simp only [Pst, List.flatten_append, List.flatten_singleton, nums, List.map_append] at hP
      obtain ⟨hPnd, hPdis⟩ := hP
      rw [List.nodup_append] at hPnd
      have hsubdis : ∀ x ∈ nums sub, x ∉ sa := by
        intro x hx hxa
        rcases (hJ.mem_iff x).mp hxa with hx' | hx'
        · exact hPnd.2.2 x hx' x hx rfl
        · exact hPdis x (List.mem_append_right _ hx) hx'
      obtain ⟨sb, hsb⟩ := cellSubL_of_pure v fuel _ ih _ sa sub h3 hPnd.2.1 hsubdis
      have hl := (cellSubL_ok v fuel _ ihok _ _ _ _ hsb).2
      refine ⟨sb, ?_, ?_⟩
      · unfold cellStepL
        rw [lift_bind_eq h1, lift_bind_eq h2, bind_eq_of_ok hsb]
        rfl
      · show LogOf (n :: s) sb (st.2.1 ++ [sub]).flatten
        rw [List.flatten_append, List.flatten_singleton]
        exact hJ.trans hl
    have build : ∀ (s2 : List Nat),
        (List.range hdr.nCells).foldlM (cellStepL v fuel cls page (ptrOffOf hdr)) ([], [], 0) (n :: s) = (s2, .ok st) →
        parseBTreeLog v (fuel + 1) n cls s
          = finishL v fuel cls hdr (mkPage n ptype hdr pv off page st fbs lay) st.2.1 s2 := by
      intro s2 hfold
      rw [parseBTreeLog_succ, lift_bind_eq hpv, lift_bind_eq hoff, bind_eq_of_ok (enter_apply_of_not_mem hns),
        lift_bind_eq hpage, lift_bind_eq hptype, lift_bind_eq hhdr, if_neg hroot,
        bind_eq_of_ok hfold, lift_bind_eq hfbs, lift_bind_eq hlay]
    rcases finish_ok _ _ _ _ _ _ _ hfin with ⟨hleaf, ht⟩ | ⟨hint, rm, fb, ccls, rsub, hrm, hrm0, hfb, hccls, hfuel, hrsub, ht⟩
    · have hnil := fold_leaf_subs v fuel cls page (ptrOffOf hdr) hleaf _ _ _ hfoldp (by simp)
      have hflat := flatten_eq_nil_of_all_nil _ hnil
      have hP : Pst st := by
        show (nums st.2.1.flatten).Nodup ∧ ∀ x ∈ nums st.2.1.flatten, x ∉ n :: s
        rw [hflat]; simp
      obtain ⟨s2, hfold, -⟩ := foldlM_of_pureW _ _ Pst J hback hstep _ _ _ (n :: s) hfoldp hP (LogOf.nil _)
      refine ⟨s2, ?_⟩
      rw [build s2 hfold, ht]
      unfold finishL
      rw [if_neg (by simp [hleaf])]
      rfl
    · subst ht
      simp only [nums, List.map_cons, List.map_append, mkPage_number] at hnd hdis
      obtain ⟨hn_r, hn_s, hnd_r, hnd_s, hrs⟩ := nodup_cons_append hnd
      have hP : Pst st := by
        refine ⟨hnd_s, fun x hx hxs => ?_⟩
        rcases List.mem_cons.mp hxs with rfl | hxs
        · exact hn_s hx
        · exact hdis x (List.mem_cons_of_mem _ (List.mem_append_right _ hx)) hxs
      obtain ⟨s2, hfold, hJ2⟩ := foldlM_of_pureW _ _ Pst J hback hstep _ _ _ (n :: s) hfoldp hP (LogOf.nil _)
      have hrdis : ∀ x ∈ nums rsub, x ∉ s2 := by
        intro x hx hx2
        rcases (hJ2.mem_iff x).mp hx2 with hx' | hx'
        · exact hrs x hx hx'
        · rcases List.mem_cons.mp hx' with rfl | hx'
          · exact hn_r hx
          · exact hdis x (List.mem_cons_of_mem _ (List.mem_append_left _ hx)) hx'
      obtain ⟨s3, hs3⟩ := ih _ (by simp only [rightMostDescentFrames]; omega) _ _ _ s2 hrsub hnd_r hrdis
      refine ⟨s3, ?_⟩
      rw [build s2 hfold]
      unfold finishL
      rw [if_pos hint, hrm]
      simp only
      rw [if_neg hrm0, lift_bind_eq hfb, hccls]
      simp only
      rw [if_neg hfuel, bind_eq_of_ok hs3]
      rfl

/-! ### the bridge -/

theorem parseBTreeW_eq (v : VersionIf) (fuel n : Nat) (cls : PageType) (seen : List Nat) :
    parseBTreeW v fuel n cls seen = (parseBTreeLog v fuel n cls seen).2 := rfl

/-- a successful walk is a successful reference parse whose pages are pairwise distinct and were
not in the set -/
theorem parseBTreeW_ok (v : VersionIf) (fuel n : Nat) (cls : PageType) (seen : List Nat) (ps : List BPage)
    (h : parseBTreeW v fuel n cls seen = .ok ps) :
    parseBTree v fuel n cls = .ok ps ∧ (ps.map (·.number)).Nodup ∧ ∀ p ∈ ps, p.number ∉ seen := by
  rw [parseBTreeW_eq] at h
  have hpres := parseBTreeLog_pres v fuel n cls seen
  rcases hx : parseBTreeLog v fuel n cls seen with ⟨s', r⟩
  rw [hx] at h hpres
  simp only at h
  subst h
  obtain ⟨hp, new, hnew, hperm⟩ := parseBTreeLog_ok v fuel n cls seen s' ps hx
  obtain ⟨new', hnew', hnd, hdis, -⟩ := hpres
  have : new' = new := List.append_cancel_right (hnew'.symm.trans hnew)
  subst this
  refine ⟨hp, hperm.nodup_iff.mp hnd, fun p hp' => hdis _ (hperm.mem_iff.mpr (List.mem_map_of_mem hp'))⟩

/-- and conversely -/
theorem parseBTreeW_of_pure (v : VersionIf) (fuel n : Nat) (cls : PageType) (seen : List Nat) (ps : List BPage)
    (h : parseBTree v fuel n cls = .ok ps) (hnd : (ps.map (·.number)).Nodup)
    (hdis : ∀ p ∈ ps, p.number ∉ seen) : parseBTreeW v fuel n cls seen = .ok ps := by
  obtain ⟨s', hs'⟩ := parseBTreeLog_of_pure v fuel n cls ps seen h hnd (by
    intro x hx
    obtain ⟨p, hp, rfl⟩ := List.mem_map.mp hx
    exact hdis p hp)
  rw [parseBTreeW_eq, hs']

theorem parseBTreeW_iff (v : VersionIf) (fuel n : Nat) (cls : PageType) (seen : List Nat) (ps : List BPage) :
    parseBTreeW v fuel n cls seen = .ok ps ↔
      parseBTree v fuel n cls = .ok ps ∧ (ps.map (·.number)).Nodup ∧ ∀ p ∈ ps, p.number ∉ seen :=
  ⟨parseBTreeW_ok v fuel n cls seen ps, fun h => parseBTreeW_of_pure v fuel n cls seen ps h.1 h.2.1 h.2.2⟩

/-! ### the cost of a walk: at most one page construction per page of the version -/

/-- **the log is duplicate free, on success and on failure**: it is the initial set extended by
pairwise distinct fresh page numbers, each of a page whose offset the version looks up
successfully -/
theorem log_nodup (v : VersionIf) (fuel n : Nat) (cls : PageType) (seen : List Nat) (hs : seen.Nodup) :
    (parseBTreeLog v fuel n cls seen).1.Nodup ∧
    seen <:+ (parseBTreeLog v fuel n cls seen).1 ∧
    ∀ p ∈ (parseBTreeLog v fuel n cls seen).1, p ∈ seen ∨ (v.pageOffset p).isOk = true := by
  obtain ⟨new, hnew, hnd, hdis, hoff⟩ := parseBTreeLog_pres v fuel n cls seen
  rw [hnew]
  refine ⟨?_, ⟨new, rfl⟩, ?_⟩
  · rw [List.nodup_append]
    exact ⟨hnd, hs, fun a ha b hb hab => hdis a ha (hab ▸ hb)⟩
  · intro p hp
    rcases List.mem_append.mp hp with hp | hp
    · exact Or.inr (hoff p hp)
    · exact Or.inl hp

/-- pigeonhole: pairwise distinct naturals in `[1, D]` are at most `D` many -/
theorem nodup_bounded_length_le : ∀ (D : Nat) (l : List Nat), l.Nodup → (∀ x ∈ l, 1 ≤ x ∧ x ≤ D) → l.length ≤ D := by
  intro D
  induction D with
  | zero =>
    intro l _ h
    cases l with
    | nil => exact Nat.le_refl 0
    | cons a l => have := h a (by simp); omega
  | succ D ih =>
    intro l hnd h
    have h1 : (l.erase (D + 1)).length ≤ D := by
      refine ih _ (hnd.erase _) fun x hx => ?_
      have hx' := (hnd.mem_erase_iff).mp hx
      have := h x hx'.2
      have hne := hx'.1
      omega
    have h2 : l.length ≤ (l.erase (D + 1)).length + 1 := by
      rw [List.length_erase]
      split <;> omega
    omega

/-- **at most `D` page constructions are started** by a walk over a version that serves only the
pages `1 … D`, whatever the child pointers say, whether the walk succeeds or fails -/
theorem constructions_le (v : VersionIf) (D : Nat)
    (hD : ∀ p, (v.pageOffset p).isOk = true → 1 ≤ p ∧ p ≤ D) (fuel n : Nat) (cls : PageType) :
    (parseBTreeLog v fuel n cls []).1.length ≤ D := by
  obtain ⟨hnd, -, hoff⟩ := log_nodup v fuel n cls [] List.nodup_nil
  refine nodup_bounded_length_le D _ hnd fun p hp => ?_
  rcases hoff p hp with h | h
  · exact nomatch h
  · exact hD p h

/-- a walk that succeeds logged exactly its pages -/
theorem log_of_ok (v : VersionIf) (fuel n : Nat) (cls : PageType) (seen : List Nat) (ps : List BPage)
    (h : parseBTreeW v fuel n cls seen = .ok ps) :
    ∃ new, (parseBTreeLog v fuel n cls seen).1 = new ++ seen ∧ new.Perm (ps.map (·.number)) := by
  rw [parseBTreeW_eq] at h
  rcases hx : parseBTreeLog v fuel n cls seen with ⟨s', r⟩
  rw [hx] at h
  simp only at h
  subst h
  exact (parseBTreeLog_ok v fuel n cls seen s' ps hx).2

/-- a page that is already in the set is refused -/
theorem parseBTreeLog_seen (v : VersionIf) (fuel n : Nat) (cls : PageType) (seen : List Nat) (pv off : Nat)
    (hpv : v.pageVersion n = .ok pv) (hoff : v.pageOffset n = .ok off) (h : n ∈ seen) :
    parseBTreeLog v (fuel + 1) n cls seen = (seen, .error .parseError) := by
  rw [parseBTreeLog_succ, lift_bind_eq hpv, lift_bind_eq hoff, bind_apply, enter_apply_of_mem h]

/-! ### the version interfaces of the code serve the pages `1 … D` only -/

theorem dbVersionIf_offset_range (cfg : Config) (ps : Nat) (dsize : DbSize) (f : FileH) (p : Nat)
    (h : ((dbVersionIf cfg ps dsize f).pageOffset p).isOk = true) : 1 ≤ p ∧ p ≤ dsize.floor := by
  simp only [dbVersionIf] at h
  split at h
  · exact nomatch h
  · omega

theorem walVersionIf_offset_range (strict : Bool) (dbv : VersionIf) (wal : Wal) (number dbSize : Nat)
    (pvi pfi : List (Nat × Nat)) (ownPages : List Nat) (p : Nat)
    (h : ((walVersionIf strict dbv wal number dbSize pvi pfi ownPages).pageOffset p).isOk = true) :
    1 ≤ p ∧ p ≤ dbSize := by
  simp only [walVersionIf] at h
  split at h
  · exact nomatch h
  · omega

end SqliteDissect.Proofs.TreeWalk

/-! ### `getBTreeRoot` (kept in the namespace of Proofs/TreeFrame.lean, where these lemmas were) -/

namespace SqliteDissect.Proofs.TreeFrame
open SqliteDissect SqliteDissect.Model

/-- the class `getBTreeRoot` picks from the type byte(s) of the root page -/
def rootClass (v : VersionIf) (number : Nat) : Py PageType := do
  let t ← v.getData number 0 (some Generated.PAGE_TYPE_LENGTH)
  let t ← (if t.size = 1 ∧ t.rd 0 = 0x53 then do
      if number ≠ Generated.SQLITE_MASTER_SCHEMA_ROOT_PAGE then (.error .indexError : Py Buf)
      else
        let t2 ← v.getData number Generated.SQLITE_DATABASE_HEADER_LENGTH (some Generated.PAGE_TYPE_LENGTH)
        if t2.size = 1 ∧ (t2.rd 0 = 0x05 ∨ t2.rd 0 = 0x0d) then pure t2 else .error .parseError
    else pure t)
  if t.size ≠ 1 then .error .indexError
  else
    let b := t.rd 0
    if b = 0x05 then pure .tableInterior
    else if b = 0x0d then pure .tableLeaf
    else if b = 0x02 then pure .indexInterior
    else if b = 0x0a then pure .indexLeaf
    else .error .indexError

/-- the walk starts with an empty set -/
theorem getBTreeRoot_eq (v : VersionIf) (frames number : Nat) :
    getBTreeRoot v frames number = (rootClass v number >>= fun cls => parseBTreeW v frames number cls []) := by
  unfold getBTreeRoot rootClass
  cases v.getData number 0 (some Generated.PAGE_TYPE_LENGTH) with
  | error e => rfl
  | ok t0 =>
    simp only [ok_bind]
    generalize (if t0.size = 1 ∧ t0.rd 0 = 0x53 then
        (if number ≠ Generated.SQLITE_MASTER_SCHEMA_ROOT_PAGE then (.error .indexError : Py Buf)
        else do
          let t2 ← v.getData number Generated.SQLITE_DATABASE_HEADER_LENGTH (some Generated.PAGE_TYPE_LENGTH)
          if t2.size = 1 ∧ (t2.rd 0 = 0x05 ∨ t2.rd 0 = 0x0d) then pure t2 else .error .parseError)
      else pure t0) = X
    cases X with
    | error e => rfl
    | ok t1 =>
      rw [ok_bind, ok_bind]
      by_cases c0 : t1.size ≠ 1
      · rw [if_pos c0, if_pos c0]; rfl
      rw [if_neg c0, if_neg c0]
      by_cases c1 : t1.rd 0 = 0x05
      · rw [if_pos c1, if_pos c1]; rfl
      rw [if_neg c1, if_neg c1]
      by_cases c2 : t1.rd 0 = 0x0d
      · rw [if_pos c2, if_pos c2]; rfl
      rw [if_neg c2, if_neg c2]
      by_cases c3 : t1.rd 0 = 0x02
      · rw [if_pos c3, if_pos c3]; rfl
      rw [if_neg c3, if_neg c3]
      by_cases c4 : t1.rd 0 = 0x0a
      · rw [if_pos c4, if_pos c4]; rfl
      rw [if_neg c4, if_neg c4]
      rfl

theorem getBTreeRootPure_eq (v : VersionIf) (frames number : Nat) :
    getBTreeRootPure v frames number = (rootClass v number >>= fun cls => parseBTree v frames number cls) := by
  unfold getBTreeRootPure rootClass
  cases v.getData number 0 (some Generated.PAGE_TYPE_LENGTH) with
  | error e => rfl
  | ok t0 =>
    simp only [ok_bind]
    generalize (if t0.size = 1 ∧ t0.rd 0 = 0x53 then
        (if number ≠ Generated.SQLITE_MASTER_SCHEMA_ROOT_PAGE then (.error .indexError : Py Buf)
        else do
          let t2 ← v.getData number Generated.SQLITE_DATABASE_HEADER_LENGTH (some Generated.PAGE_TYPE_LENGTH)
          if t2.size = 1 ∧ (t2.rd 0 = 0x05 ∨ t2.rd 0 = 0x0d) then pure t2 else .error .parseError)
      else pure t0) = X
    cases X with
    | error e => rfl
    | ok t1 =>
      rw [ok_bind, ok_bind]
      by_cases c0 : t1.size ≠ 1
      · rw [if_pos c0, if_pos c0]; rfl
      rw [if_neg c0, if_neg c0]
      by_cases c1 : t1.rd 0 = 0x05
      · rw [if_pos c1, if_pos c1]; rfl
      rw [if_neg c1, if_neg c1]
      by_cases c2 : t1.rd 0 = 0x0d
      · rw [if_pos c2, if_pos c2]; rfl
      rw [if_neg c2, if_neg c2]
      by_cases c3 : t1.rd 0 = 0x02
      · rw [if_pos c3, if_pos c3]; rfl
      rw [if_neg c3, if_neg c3]
      by_cases c4 : t1.rd 0 = 0x0a
      · rw [if_pos c4, if_pos c4]; rfl
      rw [if_neg c4, if_neg c4]
      rfl

/-- `getBTreeRoot` in terms of the walk -/
theorem getBTreeRoot_okW (v : VersionIf) (frames number : Nat) (t : List BPage)
    (h : getBTreeRoot v frames number = .ok t) :
    ∃ cls, rootClass v number = .ok cls ∧ parseBTreeW v frames number cls [] = .ok t := by
  rw [getBTreeRoot_eq] at h
  exact bind_ok h

theorem getBTreeRootPure_ok (v : VersionIf) (frames number : Nat) (t : List BPage)
    (h : getBTreeRootPure v frames number = .ok t) :
    ∃ cls, rootClass v number = .ok cls ∧ parseBTree v frames number cls = .ok t := by
  rw [getBTreeRootPure_eq] at h
  exact bind_ok h

/-- **the repaired `get_b_tree_root_page` succeeds exactly when the one before the repair does and
no page occurs twice in the result** -/
theorem getBTreeRoot_iff (v : VersionIf) (frames number : Nat) (t : List BPage) :
    getBTreeRoot v frames number = .ok t ↔
      getBTreeRootPure v frames number = .ok t ∧ (t.map (·.number)).Nodup := by
  rw [getBTreeRoot_eq, getBTreeRootPure_eq]
  cases rootClass v number with
  | error e => exact ⟨fun h => (nomatch h), fun h => (nomatch h.1)⟩
  | ok cls =>
    rw [ok_bind, ok_bind, TreeWalk.parseBTreeW_iff]
    exact ⟨fun h => ⟨h.1, h.2.1⟩, fun h => ⟨h.1, h.2, fun _ _ hm => nomatch hm⟩⟩

/-- a successful `getBTreeRoot` is a successful reference parse with the class the root's type
byte names -/
theorem getBTreeRoot_ok (v : VersionIf) (frames number : Nat) (t : List BPage)
    (h : getBTreeRoot v frames number = .ok t) :
    ∃ cls, rootClass v number = .ok cls ∧ parseBTree v frames number cls = .ok t :=
  getBTreeRootPure_ok v frames number t ((getBTreeRoot_iff v frames number t).mp h).1

theorem getBTreeRoot_nodup (v : VersionIf) (frames number : Nat) (t : List BPage)
    (h : getBTreeRoot v frames number = .ok t) : (t.map (·.number)).Nodup :=
  ((getBTreeRoot_iff v frames number t).mp h).2

/-- from the reference parse back to `getBTreeRoot` -/
theorem getBTreeRoot_of_parse (v : VersionIf) (frames number : Nat) (cls : PageType) (t : List BPage)
    (hc : rootClass v number = .ok cls) (hp : parseBTree v frames number cls = .ok t)
    (hnd : (t.map (·.number)).Nodup) : getBTreeRoot v frames number = .ok t := by
  rw [getBTreeRoot_iff, getBTreeRootPure_eq, hc, ok_bind]
  exact ⟨hp, hnd⟩

end SqliteDissect.Proofs.TreeFrame
