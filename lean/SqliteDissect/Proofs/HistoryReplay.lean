/-
C03 over the whole iteration: the state of `iterateEntry`'s fold after each version is the true
cell dictionary of that version, every commit's report is the `diffCells` of two consecutive true
dictionaries, and replaying the reports from the empty table reproduces every version's rows.
-/
import SqliteDissect.Proofs.TreeFrame
import SqliteDissect.Proofs.SkipWal

namespace SqliteDissect.Proofs.HistoryReplay
open SqliteDissect SqliteDissect.Model SqliteDissect.Properties.C03
open SqliteDissect.Proofs.TreeFrame (bind_ok ok_bind Agree Coherent)

/-- one resolved entry of the root index: the version, its interface, the root page number -/
abbrev Step := Version × VersionIf × Nat

/-- state of the fold of `iterateEntry`: commits so far, iterator state, previous root -/
abbrev Acc := List Commit × IterState × Option Nat

/-- what the fold of `iterateEntry` looks up for an index entry -/
def resolve (vs : List (Version × VersionIf)) (kr : Nat × Val) : Option Step :=
  match vs.find? (fun vv => vv.1.number = kr.1), kr.2 with
  | some (ver, v), .int r => if r < 0 then none else some (ver, v, r.toNat)
  | _, _ => none

/-- the body of the fold of `iterateEntry` -/
def iterStep (frames : Nat) (isTable : Bool) (vs : List (Version × VersionIf)) (acc : Acc) (kr : Nat × Val) :
    Py Acc := do
  let (cs, st, prevRoot) := acc
  match vs.find? (fun vv => vv.1.number = kr.1), kr.2 with
  | some (ver, v), .int r =>
    if r < 0 then (.error .valueError : Py Acc)
    else
      let (c, st') ← historyStep frames isTable st ver v r.toNat prevRoot
      pure (cs ++ [c], st', some r.toNat)
  | _, _ => .error .outsideModel

def iterInit : Acc := ([], {}, none)

/-- the fold of `iterateEntry` over an index list -/
def iterFold (frames : Nat) (isTable : Bool) (vs : List (Version × VersionIf)) (idx : List (Nat × Val)) : Py Acc :=
  idx.foldlM (iterStep frames isTable vs) iterInit

/-- the root index `iterateEntry` iterates over -/
def indexOf (vs : List (Version × VersionIf)) (id : EntryIdent) : List (Nat × Val) :=
  rootIndex id (constructorSchemas vs) none []

theorem iterateEntry_eq (frames : Nat) (isTable : Bool) (vs : List (Version × VersionIf)) (id : EntryIdent) :
    iterateEntry frames isTable vs id = (do
      let r ← iterFold frames isTable vs (indexOf vs id)
      pure r.1) := rfl

theorem iterStep_ok (frames : Nat) (isTable : Bool) (vs : List (Version × VersionIf)) (acc acc' : Acc)
    (kr : Nat × Val) (h : iterStep frames isTable vs acc kr = .ok acc') :
    ∃ s c st', resolve vs kr = some s ∧
      historyStep frames isTable acc.2.1 s.1 s.2.1 s.2.2 acc.2.2 = .ok (c, st') ∧
      acc' = (acc.1 ++ [c], st', some s.2.2) := by
  unfold iterStep at h
  unfold resolve
  simp only at h
  split at h
  · rename_i ver v r hfind hval
    split at h
    · exact nomatch h
    rename_i hr
    obtain ⟨⟨c, st'⟩, hs, h⟩ := bind_ok h
    simp only [pure, Except.pure, Except.ok.injEq] at h
    refine ⟨(ver, v, r.toNat), c, st', ?_, hs, h.symm⟩
    rw [if_neg hr]
  · exact nomatch h

/-! ### the true dictionary of a version -/

def cellsOf (t : List BPage) : List (List Nat × Cell) := (aggregateLeafCells t []).2.1

/-- the cell dictionary of the table at a step: `aggregate_leaf_cells` of the parse of its root
under the step's version (empty when the parse fails) -/
def cellsAt (frames : Nat) (s : Step) : List (List Nat × Cell) :=
  match getBTreeRoot s.2.1 frames s.2.2 with
  | .ok t => cellsOf t
  | .error _ => []

def pagesAt (frames : Nat) (s : Step) : List Nat :=
  match getBTreeRoot s.2.1 frames s.2.2 with
  | .ok t => treeAllPageNumbers t
  | .error _ => []

def ParsesAt (frames : Nat) (s : Step) : Prop := ∃ t, getBTreeRoot s.2.1 frames s.2.2 = .ok t

theorem cellsAt_of (frames : Nat) (s : Step) (t : List BPage) (h : getBTreeRoot s.2.1 frames s.2.2 = .ok t) :
    cellsAt frames s = cellsOf t := by
  simp only [cellsAt, h]

theorem pagesAt_of (frames : Nat) (s : Step) (t : List BPage) (h : getBTreeRoot s.2.1 frames s.2.2 = .ok t) :
    pagesAt frames s = treeAllPageNumbers t := by
  simp only [pagesAt, h]

/-- The hypothesis under which skipping is sound between two consecutive index entries with the
same root: if no page of the earlier version's tree is in the later version's `updatedBTree`,
the later version's parse is the earlier version's tree.  (`skipOK_of_lockstep`, `skipOK_wal`,
`skipOK_wal_first` derive it from b-tree level facts.) -/
def SkipOK (frames : Nat) (a b : Step) : Prop :=
  a.2.2 = b.2.2 → ∀ t, getBTreeRoot a.2.1 frames a.2.2 = .ok t →
    (treeAllPageNumbers t).any b.1.updatedBTree.contains = false →
    getBTreeRoot b.2.1 frames b.2.2 = .ok t

/-- `SkipOK` along a list of steps, starting after `prev` -/
def ChainOK (frames : Nat) : Option Step → List Step → Prop
  | _, [] => True
  | none, s :: rest => ChainOK frames (some s) rest
  | some a, s :: rest => SkipOK frames a s ∧ ChainOK frames (some s) rest

def lastStep (prev : Option Step) (l : List Step) : Option Step :=
  match l.getLast? with
  | some s => some s
  | none => prev

theorem lastStep_nil (prev : Option Step) : lastStep prev [] = prev := rfl

theorem lastStep_cons (prev : Option Step) (s : Step) (l : List Step) :
    lastStep prev (s :: l) = lastStep (some s) l := by
  unfold lastStep
  cases l with
  | nil => rfl
  | cons b l => rw [List.getLast?_cons_cons]; cases h : (b :: l).getLast? with
    | none => simp at h
    | some x => rfl

theorem lastStep_append_single (prev : Option Step) (l : List Step) (s : Step) :
    lastStep prev (l ++ [s]) = some s := by
  simp [lastStep]

theorem chain_split (frames : Nat) : ∀ (l1 : List Step) (prev : Option Step) (s : Step) (l2 : List Step),
    ChainOK frames prev (l1 ++ s :: l2) →
    ChainOK frames prev l1 ∧ (∀ a, lastStep prev l1 = some a → SkipOK frames a s) ∧
      ChainOK frames (some s) l2 := by
  intro l1
  induction l1 with
  | nil =>
    intro prev s l2 h
    cases prev with
    | none => exact ⟨trivial, (fun a ha => nomatch ha), h⟩
    | some p =>
      refine ⟨trivial, ?_, h.2⟩
      intro a ha
      rw [lastStep_nil] at ha
      cases ha
      exact h.1
  | cons b l1 ih =>
    intro prev s l2 h
    cases prev with
    | none =>
      obtain ⟨h1, h2, h3⟩ := ih (some b) s l2 h
      exact ⟨h1, fun a ha => h2 a (by rw [lastStep_cons] at ha; exact ha), h3⟩
    | some p =>
      obtain ⟨h1, h2, h3⟩ := ih (some b) s l2 h.2
      exact ⟨⟨h.1, h1⟩, fun a ha => h2 a (by rw [lastStep_cons] at ha; exact ha), h3⟩

/-! ### one step of the iterator -/

/-- the re-reading branch of `historyStep` -/
def reread (frames : Nat) (isTable : Bool) (st : IterState) (ver : Version) (v : VersionIf) (root : Nat) :
    Py (Commit × IterState) := do
  let t ← getBTreeRoot v frames root
  let pages := treeAllPageNumbers t
  let upd := pages.filter ver.updatedBTree.contains
  let (total, cells, _) := aggregateLeafCells t []
  if total ≠ cells.length then .error .parseError
  else
    let (a, u, d) := diffCells isTable st.currentCells cells
    pure ({ version := ver.number, rootPage := root, pageNumbers := pages, updatedPageNumbers := upd,
            bTreeUpdated := true, added := a, updated := u, deleted := d },
          { currentCells := cells, currentPages := pages })

def skipped (st : IterState) (ver : Version) (root : Nat) : Commit × IterState :=
  ({ version := ver.number, rootPage := root, pageNumbers := st.currentPages, updatedPageNumbers := [],
     bTreeUpdated := false, added := [], updated := [], deleted := [] }, st)

theorem historyStep_none (frames : Nat) (isTable : Bool) (st : IterState) (ver : Version) (v : VersionIf)
    (root : Nat) : historyStep frames isTable st ver v root none = reread frames isTable st ver v root := rfl

theorem historyStep_some (frames : Nat) (isTable : Bool) (st : IterState) (ver : Version) (v : VersionIf)
    (root p : Nat) : historyStep frames isTable st ver v root (some p) =
      if p ≠ root ∨ st.currentPages.any ver.updatedBTree.contains = true
      then reread frames isTable st ver v root else .ok (skipped st ver root) := by
  unfold historyStep
  by_cases h : p ≠ root ∨ st.currentPages.any ver.updatedBTree.contains = true
  · rw [if_pos h]
    simp only
    rw [if_pos (by simpa using h)]
    rfl
  · rw [if_neg h]
    simp only
    rw [if_neg (by simpa using h)]
    rfl

theorem reread_ok (frames : Nat) (isTable : Bool) (st st' : IterState) (ver : Version) (v : VersionIf)
    (root : Nat) (c : Commit) (h : reread frames isTable st ver v root = .ok (c, st')) :
    ∃ t, getBTreeRoot v frames root = .ok t ∧
      st' = { currentCells := cellsOf t, currentPages := treeAllPageNumbers t } ∧
      c.added = (diffCells isTable st.currentCells (cellsOf t)).1 ∧
      c.updated = (diffCells isTable st.currentCells (cellsOf t)).2.1 ∧
      c.deleted = (diffCells isTable st.currentCells (cellsOf t)).2.2 ∧ c.bTreeUpdated = true := by
  unfold reread at h
  obtain ⟨t, ht, h⟩ := bind_ok h
  simp only at h
  split at h
  · exact nomatch h
  simp only [pure, Except.pure, Except.ok.injEq, Prod.mk.injEq] at h
  obtain ⟨hc, hs⟩ := h
  subst hc hs
  exact ⟨t, ht, rfl, rfl, rfl, rfl, rfl⟩

/-- the two ways `historyStep` succeeds -/
theorem historyStep_cases (frames : Nat) (isTable : Bool) (st st' : IterState) (ver : Version) (v : VersionIf)
    (root : Nat) (pr : Option Nat) (c : Commit)
    (h : historyStep frames isTable st ver v root pr = .ok (c, st')) :
    (pr = some root ∧ st.currentPages.any ver.updatedBTree.contains = false ∧ st' = st ∧
      c.added = [] ∧ c.updated = [] ∧ c.deleted = [] ∧ c.bTreeUpdated = false) ∨
    (∃ t, getBTreeRoot v frames root = .ok t ∧
      st' = { currentCells := cellsOf t, currentPages := treeAllPageNumbers t } ∧
      c.added = (diffCells isTable st.currentCells (cellsOf t)).1 ∧
      c.updated = (diffCells isTable st.currentCells (cellsOf t)).2.1 ∧
      c.deleted = (diffCells isTable st.currentCells (cellsOf t)).2.2 ∧ c.bTreeUpdated = true) := by
  cases pr with
  | none =>
    rw [historyStep_none] at h
    exact Or.inr (reread_ok _ _ _ _ _ _ _ _ h)
  | some p =>
    rw [historyStep_some] at h
    split at h
    · exact Or.inr (reread_ok _ _ _ _ _ _ _ _ h)
    · rename_i hupd
      left
      simp only [skipped, Except.ok.injEq, Prod.mk.injEq] at h
      obtain ⟨hc, hs⟩ := h
      subst hc hs
      simp only [ne_eq, not_or, Decidable.not_not, Bool.not_eq_true] at hupd
      exact ⟨by rw [hupd.1], hupd.2, rfl, rfl, rfl, rfl, rfl⟩

/-! ### the invariant of the fold -/

/-- dictionary the iterator holds after `prev` -/
def curOf (frames : Nat) : Option Step → List (List Nat × Cell)
  | none => []
  | some a => cellsAt frames a

/-- state of the fold after `prev` (`none`: nothing processed yet) -/
def Inv (frames : Nat) : Option Step → Acc → Prop
  | none, acc => acc.2.2 = none ∧ acc.2.1.currentCells = []
  | some a, acc => ParsesAt frames a ∧ acc.2.1.currentCells = cellsAt frames a ∧
      acc.2.1.currentPages = pagesAt frames a ∧ acc.2.2 = some a.2.2

theorem Inv_cur (frames : Nat) (prev : Option Step) (acc : Acc) (h : Inv frames prev acc) :
    acc.2.1.currentCells = curOf frames prev := by
  cases prev with
  | none => exact h.2
  | some a => exact h.2.1

theorem inv_init (frames : Nat) : Inv frames none iterInit := ⟨rfl, rfl⟩

/-- one step: the new state is the true state of the step's version and the commit's report is the
`diffCells` of the previous and the new true dictionaries (also when the step skipped) -/
theorem iterStep_inv (frames : Nat) (isTable : Bool) (vs : List (Version × VersionIf)) (prev : Option Step)
    (acc acc' : Acc) (kr : Nat × Val) (hinv : Inv frames prev acc)
    (h : iterStep frames isTable vs acc kr = .ok acc')
    (hskip : ∀ a s, prev = some a → resolve vs kr = some s → SkipOK frames a s) :
    ∃ s c, resolve vs kr = some s ∧ Inv frames (some s) acc' ∧ acc'.1 = acc.1 ++ [c] ∧
      c.added = (diffCells isTable (curOf frames prev) (cellsAt frames s)).1 ∧
      c.updated = (diffCells isTable (curOf frames prev) (cellsAt frames s)).2.1 ∧
      c.deleted = (diffCells isTable (curOf frames prev) (cellsAt frames s)).2.2 ∧
      (c.bTreeUpdated = false → cellsAt frames s = curOf frames prev) := by
  obtain ⟨s, c, st', hres, hstep, rfl⟩ := iterStep_ok frames isTable vs acc acc' kr h
  have hcur := Inv_cur frames prev acc hinv
  refine ⟨s, c, hres, ?_⟩
  rcases historyStep_cases _ _ _ _ _ _ _ _ _ hstep with
    ⟨hpr, hnone, hst, hA, hU, hD, hB⟩ | ⟨t, ht, hst, hA, hU, hD, hB⟩
  · -- skipped
    cases prev with
    | none => rw [hinv.1] at hpr; exact nomatch hpr
    | some a =>
      obtain ⟨⟨t, ht⟩, hcells, hpages, hroot⟩ := hinv
      have hab : a.2.2 = s.2.2 := by
        rw [hroot] at hpr
        exact Option.some.inj hpr
      have hnone' : (treeAllPageNumbers t).any s.1.updatedBTree.contains = false := by
        rw [← pagesAt_of frames a t ht, ← hpages]; exact hnone
      have ht' := hskip a s rfl hres hab t ht hnone'
      have hsame : cellsAt frames s = cellsAt frames a := by
        rw [cellsAt_of frames s t ht', cellsAt_of frames a t ht]
      subst hst
      refine ⟨⟨⟨t, ht'⟩, ?_, ?_, rfl⟩, rfl, ?_, ?_, ?_, fun _ => hsame⟩
      · show acc.2.1.currentCells = _
        rw [hcells, hsame]
      · show acc.2.1.currentPages = _
        rw [hpages, pagesAt_of frames s t ht', pagesAt_of frames a t ht]
      · rw [hA, hsame]; show [] = (diffCells isTable (cellsAt frames a) (cellsAt frames a)).1
        rw [History.unchanged_reports_nothing]
      · rw [hU, hsame]; show [] = (diffCells isTable (cellsAt frames a) (cellsAt frames a)).2.1
        rw [History.unchanged_reports_nothing]
      · rw [hD, hsame]; show [] = (diffCells isTable (cellsAt frames a) (cellsAt frames a)).2.2
        rw [History.unchanged_reports_nothing]
  · -- re-read
    subst hst
    have hc := cellsAt_of frames s t ht
    refine ⟨⟨⟨t, ht⟩, hc.symm, (pagesAt_of frames s t ht).symm, rfl⟩, rfl, ?_, ?_, ?_, ?_⟩
    · rw [hA, hcur, hc]
    · rw [hU, hcur, hc]
    · rw [hD, hcur, hc]
    · intro hf; rw [hB] at hf; exact nomatch hf

/-- the steps of an index list -/
def stepsOf (vs : List (Version × VersionIf)) (idx : List (Nat × Val)) : List Step :=
  idx.filterMap (resolve vs)

theorem stepsOf_append (vs : List (Version × VersionIf)) (l1 l2 : List (Nat × Val)) :
    stepsOf vs (l1 ++ l2) = stepsOf vs l1 ++ stepsOf vs l2 := by
  simp [stepsOf]

theorem stepsOf_cons (vs : List (Version × VersionIf)) (kr : Nat × Val) (l : List (Nat × Val)) (s : Step)
    (h : resolve vs kr = some s) : stepsOf vs (kr :: l) = s :: stepsOf vs l := by
  simp [stepsOf, h]

/-- the fold: final state, number of commits, every entry resolved -/
theorem fold_inv (frames : Nat) (isTable : Bool) (vs : List (Version × VersionIf)) :
    ∀ (idx : List (Nat × Val)) (prev : Option Step) (acc acc' : Acc),
      idx.foldlM (iterStep frames isTable vs) acc = .ok acc' → Inv frames prev acc →
      ChainOK frames prev (stepsOf vs idx) →
      Inv frames (lastStep prev (stepsOf vs idx)) acc' ∧
      (∃ ext, acc'.1 = acc.1 ++ ext ∧ ext.length = idx.length) ∧
      (stepsOf vs idx).length = idx.length := by
  intro idx
  induction idx with
  | nil =>
    intro prev acc acc' h hinv _
    simp only [List.foldlM_nil, pure, Except.pure, Except.ok.injEq] at h
    subst h
    exact ⟨hinv, ⟨[], by simp, rfl⟩, rfl⟩
  | cons kr rest ih =>
    intro prev acc acc' h hinv hchain
    rw [List.foldlM_cons] at h
    obtain ⟨mid, hmid, h⟩ := bind_ok h
    have hsk : ∀ a s, prev = some a → resolve vs kr = some s → SkipOK frames a s := by
      intro a s hp hs
      rw [stepsOf_cons vs kr rest s hs, hp] at hchain
      exact hchain.1
    obtain ⟨s, c, hres, hinv', hcs, _⟩ := iterStep_inv frames isTable vs prev acc mid kr hinv hmid hsk
    rw [stepsOf_cons vs kr rest s hres] at hchain ⊢
    have hchain' : ChainOK frames (some s) (stepsOf vs rest) := by
      cases prev with
      | none => exact hchain
      | some p => exact hchain.2
    obtain ⟨i1, ⟨ext, i2, i3⟩, i4⟩ := ih (some s) mid acc' h hinv' hchain'
    refine ⟨by rw [lastStep_cons]; exact i1, ⟨c :: ext, ?_, by simp [i3]⟩, by simp [i4]⟩
    rw [i2, hcs, List.append_assoc]
    rfl

theorem iterateEntry_fold (frames : Nat) (isTable : Bool) (vs : List (Version × VersionIf)) (id : EntryIdent)
    (commits : List Commit) (h : iterateEntry frames isTable vs id = .ok commits) :
    ∃ final, iterFold frames isTable vs (indexOf vs id) = .ok final ∧ final.1 = commits := by
  rw [iterateEntry_eq] at h
  obtain ⟨final, hf, h⟩ := bind_ok h
  exact ⟨final, hf, Except.ok.inj h⟩

/-- everything about the position `pre.length` of the iteration -/
structure At (frames : Nat) (isTable : Bool) (vs : List (Version × VersionIf)) (pre : List (Nat × Val))
    (kr : Nat × Val) (commits : List Commit) (s : Step) (c : Commit) (mid : Acc) : Prop where
  resolved : resolve vs kr = some s
  fold : iterFold frames isTable vs (pre ++ [kr]) = .ok mid
  inv : Inv frames (some s) mid
  commitsSoFar : mid.1 = commits.take (pre.length + 1)
  commitsBefore : ∃ before, before.length = pre.length ∧ commits.take (pre.length + 1) = before ++ [c] ∧
    commits.take pre.length = before
  commit : commits[pre.length]? = some c
  prevInv : ∃ mid0, iterFold frames isTable vs pre = .ok mid0 ∧
    Inv frames (lastStep none (stepsOf vs pre)) mid0 ∧ mid0.1 = commits.take pre.length
  added : c.added = (diffCells isTable (curOf frames (lastStep none (stepsOf vs pre))) (cellsAt frames s)).1
  updated : c.updated = (diffCells isTable (curOf frames (lastStep none (stepsOf vs pre))) (cellsAt frames s)).2.1
  deleted : c.deleted = (diffCells isTable (curOf frames (lastStep none (stepsOf vs pre))) (cellsAt frames s)).2.2
  skippedSame : c.bTreeUpdated = false →
    cellsAt frames s = curOf frames (lastStep none (stepsOf vs pre))

theorem fold_at (frames : Nat) (isTable : Bool) (vs : List (Version × VersionIf))
    (pre : List (Nat × Val)) (kr : Nat × Val) (suf : List (Nat × Val)) (final : Acc)
    (h : iterFold frames isTable vs (pre ++ kr :: suf) = .ok final)
    (hc : ChainOK frames none (stepsOf vs (pre ++ kr :: suf))) :
    ∃ s c mid, At frames isTable vs pre kr final.1 s c mid ∧
      final.1.length = (pre ++ kr :: suf).length ∧
      (stepsOf vs (pre ++ kr :: suf)).length = (pre ++ kr :: suf).length := by
  unfold iterFold at h
  rw [List.foldlM_append] at h
  obtain ⟨mid0, h0, h⟩ := bind_ok h
  rw [List.foldlM_cons] at h
  obtain ⟨mid1, h1, h2⟩ := bind_ok h
  obtain ⟨s, _, _, hres, _, _⟩ := iterStep_ok frames isTable vs mid0 mid1 kr h1
  rw [stepsOf_append, stepsOf_cons vs kr suf s hres] at hc
  obtain ⟨hc0, hsk, hc2⟩ := chain_split frames _ none s _ hc
  obtain ⟨inv0, ⟨ext0, e0, l0⟩, n0⟩ := fold_inv frames isTable vs pre none iterInit mid0 h0 (inv_init frames) hc0
  obtain ⟨s', c, hres', inv1, e1, hA, hU, hD, hS⟩ := iterStep_inv frames isTable vs _ mid0 mid1 kr inv0 h1
    (fun a s'' ha hs'' => by
      rw [hres] at hs''
      cases hs''
      exact hsk a ha)
  rw [hres] at hres'
  cases hres'
  obtain ⟨_, ⟨ext2, e2, l2⟩, n2⟩ := fold_inv frames isTable vs suf (some s) mid1 final h2 inv1 hc2
  have hm0 : mid0.1 = ext0 := by rw [e0]; rfl
  have hfin : final.1 = ext0 ++ [c] ++ ext2 := by rw [e2, e1, hm0]
  have htake1 : final.1.take (pre.length + 1) = ext0 ++ [c] := by
    rw [hfin]
    exact List.take_left' (by simp [l0])
  have htake0 : final.1.take pre.length = ext0 := by
    rw [hfin, List.append_assoc]
    exact List.take_left' l0
  refine ⟨s, c, mid1, ⟨hres, ?_, inv1, ?_, ⟨ext0, l0, htake1, htake0⟩, ?_, ⟨mid0, h0, inv0, ?_⟩, hA, hU, hD, hS⟩, ?_, ?_⟩
  · unfold iterFold
    rw [List.foldlM_append, h0, ok_bind, List.foldlM_cons, h1, ok_bind]
    rfl
  · rw [htake1, e1, hm0]
  · rw [hfin, List.append_assoc, List.getElem?_append_right (by omega), l0]
    simp
  · rw [htake0, hm0]
  · rw [hfin]; simp [l0, l2]
  · rw [stepsOf_append, stepsOf_cons vs kr suf s hres]
    simp [n0, n2]

/-! ### replaying the reports -/

/-- the table obtained by replaying commit reports in order from the empty table -/
def replay (cs : List Commit) : Int → Option Cell :=
  cs.foldl (fun s c => applyCommit s c.added c.updated c.deleted) (fun _ => none)

theorem replay_nil : replay [] = fun _ => none := rfl

theorem replay_snoc (cs : List Commit) (c : Commit) :
    replay (cs ++ [c]) = applyCommit (replay cs) c.added c.updated c.deleted := by
  simp [replay, List.foldl_append]

theorem applyCommit_congr {α : Type} (f : Cell → α) (s s' : Int → Option Cell) (A U D : List Cell) (r : Int)
    (h : (s r).map f = (s' r).map f) :
    (applyCommit s A U D r).map f = (applyCommit s' A U D r).map f := by
  unfold applyCommit
  split
  · rfl
  · split
    · rfl
    · exact h

/-- `replay_step` through a projection `f` of cells that is determined by the digest: replaying
one report on the previous table gives the new table, as seen through `f` -/
theorem replay_step_proj {α : Type} (f : Cell → α) (cur cells : List (List Nat × Cell))
    (hc : DictOK cur) (hn : DictOK cells)
    (hd : ∀ e1 ∈ cur, ∀ e2 ∈ cells, e1.1 = e2.1 → e1.2.rowid = e2.2.rowid)
    (hf : ∀ e1 ∈ cur, ∀ e2 ∈ cells, e1.1 = e2.1 → f e1.2 = f e2.2) (r : Int) :
    (applyCommit (stateOf cur) (diffCells true cur cells).1 (diffCells true cur cells).2.1
        (diffCells true cur cells).2.2 r).map f = (stateOf cells r).map f := by
  rw [History.replay_step cur cells hc hn hd r]
  cases hs : stateOf cells r with
  | none => rfl
  | some c =>
    simp only
    obtain ⟨e2, he2, rfl, hr2⟩ := History.stateOf_some_mem hs
    split
    · rename_i hany
      rw [List.any_eq_true] at hany
      obtain ⟨e1, he1, hk⟩ := hany
      simp only [decide_eq_true_eq] at hk
      have hkey : e1.1 = e2.1 := by rw [hk, hn.key_is_digest e2 he2]
      have hr1 : e1.2.rowid = some r := by rw [hd e1 he1 e2 he2 hkey, hr2]
      rw [History.stateOf_eq_some hc he1 hr1]
      simp only [Option.map_some, hf e1 he1 e2 he2 hkey]
    · rfl

/-- the clean form: when equal digests mean equal cells, replaying one report gives exactly the
new table -/
theorem replay_step_clean (cur cells : List (List Nat × Cell)) (hc : DictOK cur) (hn : DictOK cells)
    (heq : ∀ e1 ∈ cur, ∀ e2 ∈ cells, e1.1 = e2.1 → e1.2 = e2.2) (r : Int) :
    applyCommit (stateOf cur) (diffCells true cur cells).1 (diffCells true cur cells).2.1
        (diffCells true cur cells).2.2 r = stateOf cells r := by
  have := replay_step_proj id cur cells hc hn
    (fun e1 h1 e2 h2 hk => by rw [heq e1 h1 e2 h2 hk]) heq r
  simpa using this

/-- without that: the new table up to the cells' stored bytes (the digest) -/
theorem replay_step_digest (cur cells : List (List Nat × Cell)) (hc : DictOK cur) (hn : DictOK cells)
    (hd : ∀ e1 ∈ cur, ∀ e2 ∈ cells, e1.1 = e2.1 → e1.2.rowid = e2.2.rowid) (r : Int) :
    (applyCommit (stateOf cur) (diffCells true cur cells).1 (diffCells true cur cells).2.1
        (diffCells true cur cells).2.2 r).map Cell.digest = (stateOf cells r).map Cell.digest :=
  replay_step_proj Cell.digest cur cells hc hn hd
    (fun e1 h1 e2 h2 hk => by rw [← hc.key_is_digest e1 h1, ← hn.key_is_digest e2 h2, hk]) r

theorem chain_prefix (frames : Nat) : ∀ (l1 : List Step) (prev : Option Step) (l2 : List Step),
    ChainOK frames prev (l1 ++ l2) → ChainOK frames prev l1 := by
  intro l1
  induction l1 with
  | nil => intro prev l2 _; cases prev <;> trivial
  | cons b l1 ih =>
    intro prev l2 h
    cases prev with
    | none => exact ih (some b) l2 h
    | some p => exact ⟨h.1, ih (some b) l2 h.2⟩

/-- digest-keyed dictionaries that are compatible for `replay_step_proj` -/
def Compat {α : Type} (f : Cell → α) (X Y : List (List Nat × Cell)) : Prop :=
  ∀ e1 ∈ X, ∀ e2 ∈ Y, e1.1 = e2.1 → e1.2.rowid = e2.2.rowid ∧ f e1.2 = f e2.2

theorem replay_fold {α : Type} (f : Cell → α) (frames : Nat) (vs : List (Version × VersionIf)) :
    ∀ (idx : List (Nat × Val)) (prev : Option Step) (acc acc' : Acc),
      idx.foldlM (iterStep frames true vs) acc = .ok acc' → Inv frames prev acc →
      ChainOK frames prev (stepsOf vs idx) →
      DictOK (curOf frames prev) → (∀ s ∈ stepsOf vs idx, DictOK (cellsAt frames s)) →
      (∀ s ∈ stepsOf vs idx, Compat f (curOf frames prev) (cellsAt frames s)) →
      (∀ a ∈ stepsOf vs idx, ∀ b ∈ stepsOf vs idx, Compat f (cellsAt frames a) (cellsAt frames b)) →
      (∀ r, (replay acc.1 r).map f = (stateOf (curOf frames prev) r).map f) →
      ∀ r, (replay acc'.1 r).map f = (stateOf (curOf frames (lastStep prev (stepsOf vs idx))) r).map f := by
  intro idx
  induction idx with
  | nil =>
    intro prev acc acc' h _ _ _ _ _ _ hrep
    simp only [List.foldlM_nil, pure, Except.pure, Except.ok.injEq] at h
    subst h
    exact hrep
  | cons kr rest ih =>
    intro prev acc acc' h hinv hchain hdc hds hcp hcc hrep
    rw [List.foldlM_cons] at h
    obtain ⟨mid, hmid, h⟩ := bind_ok h
    have hsk : ∀ a s, prev = some a → resolve vs kr = some s → SkipOK frames a s := by
      intro a s hp hs
      rw [stepsOf_cons vs kr rest s hs, hp] at hchain
      exact hchain.1
    obtain ⟨s, c, hres, hinv', hcs, hA, hU, hD, _⟩ := iterStep_inv frames true vs prev acc mid kr hinv hmid hsk
    rw [stepsOf_cons vs kr rest s hres] at hchain hds hcp hcc ⊢
    have hchain' : ChainOK frames (some s) (stepsOf vs rest) := by
      cases prev with
      | none => exact hchain
      | some p => exact hchain.2
    have hs_mem : s ∈ s :: stepsOf vs rest := List.mem_cons_self ..
    rw [lastStep_cons]
    refine ih (some s) mid acc' h hinv' hchain' (hds s hs_mem)
      (fun b hb => hds b (List.mem_cons_of_mem _ hb))
      (fun b hb => hcc s hs_mem b (List.mem_cons_of_mem _ hb))
      (fun a ha b hb => hcc a (List.mem_cons_of_mem _ ha) b (List.mem_cons_of_mem _ hb)) ?_
    intro r
    rw [hcs, replay_snoc, hA, hU, hD]
    rw [applyCommit_congr f (replay acc.1) (stateOf (curOf frames prev)) _ _ _ r (hrep r)]
    have hcomp := hcp s hs_mem
    exact replay_step_proj f (curOf frames prev) (cellsAt frames s) hdc (hds s hs_mem)
      (fun e1 h1 e2 h2 hk => (hcomp e1 h1 e2 h2 hk).1) (fun e1 h1 e2 h2 hk => (hcomp e1 h1 e2 h2 hk).2) r

/-! ### position `j` of an index list -/

theorem split_at {α : Type} (l : List α) (j : Nat) (hj : j < l.length) :
    l = l.take j ++ l[j] :: l.drop (j + 1) ∧ (l.take j).length = j ∧
      l.take (j + 1) = l.take j ++ [l[j]] := by
  refine ⟨?_, by simp; omega, ?_⟩
  · rw [← List.drop_eq_getElem_cons hj, List.take_append_drop]
  · rw [List.take_succ_eq_append_getElem hj]

/-! ### 1. the state of the iterator after every version -/

theorem iterate_invariant (frames : Nat) (isTable : Bool) (vs : List (Version × VersionIf)) (id : EntryIdent)
    (commits : List Commit) (h : iterateEntry frames isTable vs id = .ok commits)
    (hc : ChainOK frames none (stepsOf vs (indexOf vs id))) :
    commits.length = (indexOf vs id).length ∧
    ∀ j (hj : j < (indexOf vs id).length), ∃ s cs st pr t,
      resolve vs (indexOf vs id)[j] = some s ∧
      iterFold frames isTable vs ((indexOf vs id).take (j + 1)) = .ok (cs, st, pr) ∧
      cs = commits.take (j + 1) ∧
      getBTreeRoot s.2.1 frames s.2.2 = .ok t ∧
      st.currentCells = (aggregateLeafCells t []).2.1 ∧
      st.currentPages = treeAllPageNumbers t ∧ pr = some s.2.2 := by
  obtain ⟨final, hf, rfl⟩ := iterateEntry_fold frames isTable vs id commits h
  constructor
  · cases hidx : indexOf vs id with
    | nil =>
      rw [hidx] at hf
      simp only [iterFold, List.foldlM_nil, pure, Except.pure, Except.ok.injEq] at hf
      rw [← hf]; rfl
    | cons kr suf =>
      rw [hidx] at hf hc
      obtain ⟨_, _, _, _, hl, _⟩ := fold_at frames isTable vs [] kr suf final hf hc
      exact hl
  · intro j hj
    obtain ⟨hsplit, hlen, htake⟩ := split_at (indexOf vs id) j hj
    rw [hsplit] at hf hc
    obtain ⟨s, c, mid, hat, _, _⟩ := fold_at frames isTable vs _ _ _ final hf hc
    obtain ⟨⟨t, ht⟩, hcells, hpages, hroot⟩ := hat.inv
    refine ⟨s, mid.1, mid.2.1, mid.2.2, t, hat.resolved, ?_, ?_, ht, ?_, ?_, hroot⟩
    · rw [htake]; exact hat.fold
    · rw [hat.commitsSoFar, hlen]
    · rw [hcells, cellsAt_of frames s t ht]; rfl
    · rw [hpages, pagesAt_of frames s t ht]

/-- the dictionary the iterator holds before position `j`: the true dictionary of position
`j - 1`, empty at position 0 -/
def curBefore (frames : Nat) (vs : List (Version × VersionIf)) (idx : List (Nat × Val)) (j : Nat) :
    List (List Nat × Cell) :=
  curOf frames (lastStep none (stepsOf vs (idx.take j)))

theorem curBefore_zero (frames : Nat) (vs : List (Version × VersionIf)) (idx : List (Nat × Val)) :
    curBefore frames vs idx 0 = [] := rfl

theorem curBefore_succ (frames : Nat) (vs : List (Version × VersionIf)) (idx : List (Nat × Val)) (j : Nat)
    (hj : j < idx.length) (a : Step) (ha : resolve vs idx[j] = some a) :
    curBefore frames vs idx (j + 1) = cellsAt frames a := by
  unfold curBefore
  rw [(split_at idx j hj).2.2, stepsOf_append, stepsOf_cons vs _ [] a ha]
  show curOf frames (lastStep none (stepsOf vs (idx.take j) ++ ([a] ++ stepsOf vs []))) = _
  simp only [stepsOf, List.filterMap_nil, List.append_nil]
  rw [lastStep_append_single]
  rfl

/-- every commit's report is the `diffCells` of two consecutive true dictionaries -/
theorem commit_is_diff (frames : Nat) (isTable : Bool) (vs : List (Version × VersionIf)) (id : EntryIdent)
    (commits : List Commit) (h : iterateEntry frames isTable vs id = .ok commits)
    (hc : ChainOK frames none (stepsOf vs (indexOf vs id))) :
    ∀ j (hj : j < (indexOf vs id).length), ∃ s c,
      resolve vs (indexOf vs id)[j] = some s ∧ commits[j]? = some c ∧
      c.added = (diffCells isTable (curBefore frames vs (indexOf vs id) j) (cellsAt frames s)).1 ∧
      c.updated = (diffCells isTable (curBefore frames vs (indexOf vs id) j) (cellsAt frames s)).2.1 ∧
      c.deleted = (diffCells isTable (curBefore frames vs (indexOf vs id) j) (cellsAt frames s)).2.2 ∧
      (c.bTreeUpdated = false → cellsAt frames s = curBefore frames vs (indexOf vs id) j) := by
  obtain ⟨final, hf, rfl⟩ := iterateEntry_fold frames isTable vs id commits h
  intro j hj
  obtain ⟨hsplit, hlen, _⟩ := split_at (indexOf vs id) j hj
  rw [hsplit] at hf hc
  obtain ⟨s, c, mid, hat, _, _⟩ := fold_at frames isTable vs _ _ _ final hf hc
  refine ⟨s, c, hat.resolved, ?_, hat.added, hat.updated, hat.deleted, hat.skippedSame⟩
  rw [← hlen]
  exact hat.commit

/-! ### 2. replay over the whole history -/

/-- replaying the first `j + 1` reports gives the table of version `j`, seen through any projection
`f` of cells that equal digests determine (together with the rowid) across the history -/
theorem history_replay_proj {α : Type} (f : Cell → α) (frames : Nat) (vs : List (Version × VersionIf))
    (id : EntryIdent) (commits : List Commit) (h : iterateEntry frames true vs id = .ok commits)
    (hc : ChainOK frames none (stepsOf vs (indexOf vs id)))
    (hdict : ∀ s ∈ stepsOf vs (indexOf vs id), DictOK (cellsAt frames s))
    (hcomp : ∀ a ∈ stepsOf vs (indexOf vs id), ∀ b ∈ stepsOf vs (indexOf vs id),
      Compat f (cellsAt frames a) (cellsAt frames b)) :
    ∀ j (hj : j < (indexOf vs id).length), ∃ s, resolve vs (indexOf vs id)[j] = some s ∧
      ∀ r, (replay (commits.take (j + 1)) r).map f = (stateOf (cellsAt frames s) r).map f := by
  obtain ⟨final, hf, rfl⟩ := iterateEntry_fold frames true vs id commits h
  intro j hj
  obtain ⟨hsplit, hlen, htake⟩ := split_at (indexOf vs id) j hj
  have hsub : ∀ s ∈ stepsOf vs ((indexOf vs id).take (j + 1)), s ∈ stepsOf vs (indexOf vs id) := by
    intro s hs
    have : indexOf vs id = (indexOf vs id).take (j + 1) ++ (indexOf vs id).drop (j + 1) :=
      (List.take_append_drop _ _).symm
    rw [this, stepsOf_append]
    exact List.mem_append_left _ hs
  have hc' : ChainOK frames none (stepsOf vs ((indexOf vs id).take (j + 1))) := by
    have : indexOf vs id = (indexOf vs id).take (j + 1) ++ (indexOf vs id).drop (j + 1) :=
      (List.take_append_drop _ _).symm
    rw [this, stepsOf_append] at hc
    exact chain_prefix frames _ none _ hc
  have hf' := hf
  rw [hsplit] at hf' hc
  obtain ⟨s, c, mid, hat, _, _⟩ := fold_at frames true vs _ _ _ final hf' hc
  refine ⟨s, hat.resolved, ?_⟩
  have hfold := hat.fold
  rw [← htake] at hfold
  have key := replay_fold f frames vs ((indexOf vs id).take (j + 1)) none iterInit mid hfold (inv_init frames) hc'
    ⟨(fun e he => nomatch he), List.nodup_nil, (fun e he => nomatch he), List.nodup_nil⟩
    (fun s hs => hdict s (hsub s hs))
    (fun _ _ e1 he1 => nomatch he1)
    (fun a ha b hb => hcomp a (hsub a ha) b (hsub b hb))
    (fun r => rfl)
  intro r
  have hlast : lastStep none (stepsOf vs ((indexOf vs id).take (j + 1))) = some s := by
    rw [htake, stepsOf_append, stepsOf_cons vs _ [] s hat.resolved]
    show lastStep none (stepsOf vs ((indexOf vs id).take j) ++ ([s] ++ stepsOf vs [])) = _
    simp only [stepsOf, List.filterMap_nil, List.append_nil]
    exact lastStep_append_single _ _ _
  have := key r
  rw [hlast, hat.commitsSoFar, hlen] at this
  exact this

/-- the digest projection needs only: digests determine rowids across the history -/
theorem history_replay (frames : Nat) (vs : List (Version × VersionIf))
    (id : EntryIdent) (commits : List Commit) (h : iterateEntry frames true vs id = .ok commits)
    (hc : ChainOK frames none (stepsOf vs (indexOf vs id)))
    (hdict : ∀ s ∈ stepsOf vs (indexOf vs id), DictOK (cellsAt frames s))
    (hrow : ∀ a ∈ stepsOf vs (indexOf vs id), ∀ b ∈ stepsOf vs (indexOf vs id),
      ∀ e1 ∈ cellsAt frames a, ∀ e2 ∈ cellsAt frames b, e1.1 = e2.1 → e1.2.rowid = e2.2.rowid) :
    ∀ j (hj : j < (indexOf vs id).length), ∃ s, resolve vs (indexOf vs id)[j] = some s ∧
      ∀ r, (replay (commits.take (j + 1)) r).map Cell.digest =
        (stateOf (cellsAt frames s) r).map Cell.digest :=
  history_replay_proj Cell.digest frames vs id commits h hc hdict
    (fun a ha b hb e1 h1 e2 h2 hk => ⟨hrow a ha b hb e1 h1 e2 h2 hk, by
      rw [← (hdict a ha).key_is_digest e1 h1, ← (hdict b hb).key_is_digest e2 h2, hk]⟩)

/-- when equal digests mean equal cells (md5 as identity over whole `Cell` values), exactly -/
theorem history_replay_exact (frames : Nat) (vs : List (Version × VersionIf))
    (id : EntryIdent) (commits : List Commit) (h : iterateEntry frames true vs id = .ok commits)
    (hc : ChainOK frames none (stepsOf vs (indexOf vs id)))
    (hdict : ∀ s ∈ stepsOf vs (indexOf vs id), DictOK (cellsAt frames s))
    (heq : ∀ a ∈ stepsOf vs (indexOf vs id), ∀ b ∈ stepsOf vs (indexOf vs id),
      ∀ e1 ∈ cellsAt frames a, ∀ e2 ∈ cellsAt frames b, e1.1 = e2.1 → e1.2 = e2.2) :
    ∀ j (hj : j < (indexOf vs id).length), ∃ s, resolve vs (indexOf vs id)[j] = some s ∧
      ∀ r, replay (commits.take (j + 1)) r = stateOf (cellsAt frames s) r := by
  intro j hj
  obtain ⟨s, hs, hr⟩ := history_replay_proj (fun c : Cell => c) frames vs id commits h hc hdict
    (fun a ha b hb e1 h1 e2 h2 hk => ⟨by rw [heq a ha b hb e1 h1 e2 h2 hk], heq a ha b hb e1 h1 e2 h2 hk⟩) j hj
  exact ⟨s, hs, fun r => by simpa using hr r⟩

/-! ### 3. a row whose stored bytes are in both consecutive versions is not reported -/

theorem unchanged_not_reported_step (cur cells : List (List Nat × Cell))
    (hk : ∀ e ∈ cur, e.1 = e.2.digest) (hn : DictOK cells) (g : List Nat)
    (h1 : ∃ e ∈ cur, e.1 = g) (h2 : ∃ e ∈ cells, e.1 = g) :
    ∀ x ∈ (diffCells true cur cells).1 ++ (diffCells true cur cells).2.1 ++ (diffCells true cur cells).2.2,
      x.digest ≠ g := by
  intro x hx hg
  simp only [List.mem_append] at hx
  rcases hx with hx | hx
  · obtain ⟨e, he, rfl, hnot⟩ := (History.reported_exactly_new cur cells hn x).mp hx
    apply hnot
    obtain ⟨e1, he1, hk1⟩ := h1
    rw [List.any_eq_true]
    exact ⟨e1, he1, by simp only [decide_eq_true_eq]; rw [hk1, ← hg, hn.key_is_digest e he]⟩
  · obtain ⟨e, he, rfl, hnot, _⟩ := (History.deleted_spec cur cells x).mp hx
    apply hnot
    obtain ⟨e2, he2, hk2⟩ := h2
    rw [List.any_eq_true]
    exact ⟨e2, he2, by simp only [decide_eq_true_eq]; rw [hk2, ← hg, hk e he]⟩

theorem unchanged_not_reported (frames : Nat) (vs : List (Version × VersionIf)) (id : EntryIdent)
    (commits : List Commit) (h : iterateEntry frames true vs id = .ok commits)
    (hc : ChainOK frames none (stepsOf vs (indexOf vs id)))
    (j : Nat) (hj : j < (indexOf vs id).length) (s : Step) (c : Commit)
    (hs : resolve vs (indexOf vs id)[j] = some s) (hcj : commits[j]? = some c)
    (hk : ∀ e ∈ curBefore frames vs (indexOf vs id) j, e.1 = e.2.digest)
    (hn : DictOK (cellsAt frames s))
    (e1 : List Nat × Cell) (he1 : e1 ∈ curBefore frames vs (indexOf vs id) j)
    (e2 : List Nat × Cell) (he2 : e2 ∈ cellsAt frames s) (hkey : e1.1 = e2.1) :
    ∀ x ∈ c.added ++ c.updated ++ c.deleted, x.digest ≠ e1.1 := by
  obtain ⟨s', c', hs', hc', hA, hU, hD, _⟩ := commit_is_diff frames true vs id commits h hc j hj
  rw [hs] at hs'
  cases hs'
  rw [hcj] at hc'
  cases hc'
  rw [hA, hU, hD]
  exact unchanged_not_reported_step _ _ hk hn e1.1 ⟨e1, he1, rfl⟩ ⟨e2, he2, hkey.symm⟩

/-! ### where `SkipOK` comes from -/

/-- from the lock-step lemma: the later version's re-read succeeds with a tree that avoids the
`NonB` pages; the written pages `W` outside `NonB` are in `updatedBTree`; pages of both trees
outside `W` are served identically -/
theorem skipOK_of_lockstep (frames : Nat) (a b : Step)
    (hps : a.2.1.pageSize = b.2.1.pageSize) (hst : a.2.1.strict = b.2.1.strict)
    (hca : Coherent a.2.1) (hcb : Coherent b.2.1) (W NonB : List Nat)
    (hW : ∀ p, p ∈ W → p ∉ NonB → p ∈ b.1.updatedBTree)
    (t' : List BPage) (hnext : getBTreeRoot b.2.1 frames b.2.2 = .ok t')
    (hnew : ∀ p ∈ treeAllPageNumbers t', p ∉ NonB)
    (hag : ∀ t, getBTreeRoot a.2.1 frames a.2.2 = .ok t → ∀ p ∈ treeAllPageNumbers t,
      p ∈ treeAllPageNumbers t' → p ∉ W → Agree a.2.1 b.2.1 p) :
    SkipOK frames a b := by
  intro hroot t ht hnone
  have hold : ∀ p ∈ treeAllPageNumbers t, p ∈ W → p ∈ NonB := by
    intro p hp hw
    apply Classical.byContradiction
    intro hn
    have hu := hW p hw hn
    have : (treeAllPageNumbers t).any b.1.updatedBTree.contains = true := by
      rw [List.any_eq_true]
      exact ⟨p, hp, by simpa using hu⟩
    rw [hnone] at this
    exact nomatch this
  rw [hroot] at ht
  have := TreeFrame.getBTreeRoot_lockstep' a.2.1 b.2.1 hps hst hca hcb (· ∈ W) (· ∈ NonB) frames b.2.2 t t'
    ht hnext (fun p hp hp' hw => hag t (by rw [hroot]; exact ht) p hp hp' hw) hold hnew
  rw [hnext, this]

/-- two consecutive commit records of the WAL model: only b-tree level facts remain -/
theorem skipOK_wal (cfg : Config) (dbv : VersionIf) (wal : Wal) (number : Nat)
    (frames0 frames1 : List Frame) (pprev prev ver : Version) (v v' : VersionIf)
    (lh0 lh1 : DbHeader) (ls0 ls1 : MasterSchema) (lr0 lr1 : List BPage) (enc0 enc1 : Nat)
    (hmk0 : makeCommitRecord cfg dbv wal number frames0 pprev lh0 ls0 lr0 enc0 = .ok (prev, v))
    (hmk1 : makeCommitRecord cfg dbv wal (number + 1) frames1 prev lh1 ls1 lr1 enc1 = .ok (ver, v'))
    (hdb : Coherent dbv) (fr root root' : Nat)
    (hre : root = root' → ∃ t', getBTreeRoot v' fr root' = .ok t' ∧
      ∀ p ∈ treeAllPageNumbers t', p ≠ 1 ∧ (∀ pn ∈ ver.schema.pages, pn.1 ≠ p) ∧
        p ∉ ver.freelistNumbers ∧ p ∉ ver.ptrmap.map (·.number)) :
    SkipOK fr (prev, v, root) (ver, v', root') := by
  intro hroot t ht hnone
  have hroot' : root = root' := hroot
  subst hroot'
  obtain ⟨t', hnext, hnew⟩ := hre rfl
  have := SkipWal.skip_sound_wal cfg dbv wal number frames0 frames1 pprev prev ver v v' lh0 lh1 ls0 ls1 lr0 lr1
    enc0 enc1 hmk0 hmk1 hdb fr true
    { currentCells := cellsOf t, currentPages := treeAllPageNumbers t } _ root _ t t' ht rfl rfl hnone
    (TreeFrame.historyStep_skip fr true _ ver v' root hnone) hnext hnew
  show getBTreeRoot v' fr root = .ok t
  rw [hnext, this.1]

/-- the first commit record of a WAL against the database file -/
theorem skipOK_wal_first (cfg : Config) (ps : Nat) (dsize : DbSize) (f : FileH) (wal : Wal)
    (hwps : wal.hdr.pageSize = ps)
    (frames1 : List Frame) (prev ver : Version) (v' : VersionIf)
    (lh1 : DbHeader) (ls1 : MasterSchema) (lr1 : List BPage) (enc1 : Nat)
    (hbase : prev.pvi = (List.range dsize.floor).map fun i => (i + 1, 0))
    (hmk1 : makeCommitRecord cfg (dbVersionIf cfg ps dsize f) wal 1 frames1 prev lh1 ls1 lr1 enc1 = .ok (ver, v'))
    (fr root root' : Nat)
    (hre : root = root' → ∃ t', getBTreeRoot v' fr root' = .ok t' ∧
      ∀ p ∈ treeAllPageNumbers t', p ≠ 1 ∧ (∀ pn ∈ ver.schema.pages, pn.1 ≠ p) ∧
        p ∉ ver.freelistNumbers ∧ p ∉ ver.ptrmap.map (·.number)) :
    SkipOK fr (prev, dbVersionIf cfg ps dsize f, root) (ver, v', root') := by
  intro hroot t ht hnone
  have hroot' : root = root' := hroot
  subst hroot'
  obtain ⟨t', hnext, hnew⟩ := hre rfl
  have := SkipWal.skip_sound_wal_first cfg ps dsize f wal hwps frames1 prev ver v' lh1 ls1 lr1 enc1 hbase hmk1
    fr true { currentCells := cellsOf t, currentPages := treeAllPageNumbers t } _ root _ t t' ht rfl rfl hnone
    (TreeFrame.historyStep_skip fr true _ ver v' root hnone) hnext hnew
  show getBTreeRoot v' fr root = .ok t
  rw [hnext, this.1]

/-! ### consecutive index entries are consecutive versions -/

def Consec (l : List (Nat × Val)) : Prop :=
  ∀ i a b, l[i]? = some a → l[i + 1]? = some b → a.1 + 1 = b.1

theorem consec_snoc (l : List (Nat × Val)) (x : Nat × Val) (hl : Consec l)
    (hlast : ∀ a, l.getLast? = some a → a.1 + 1 = x.1) : Consec (l ++ [x]) := by
  intro i a b ha hb
  by_cases h1 : i + 1 < l.length
  · rw [List.getElem?_append_left (by omega)] at ha
    rw [List.getElem?_append_left h1] at hb
    exact hl i a b ha hb
  · by_cases h2 : i + 1 = l.length
    · rw [List.getElem?_append_left (by omega)] at ha
      rw [List.getElem?_append_right (by omega)] at hb
      have hb' : b = x := by
        have : i + 1 - l.length = 0 := by omega
        rw [this] at hb
        simpa using hb.symm
      subst hb'
      apply hlast
      rw [List.getLast?_eq_getElem?, ← ha]
      congr 1
      omega
    · have : (l ++ [x]).length = l.length + 1 := by simp
      have hlen := (List.getElem?_eq_some_iff.mp hb).1
      omega

theorem rootIndex_consec (id : EntryIdent) : ∀ (l : List (Nat × MasterSchema)) (ending : Option Nat)
    (acc : List (Nat × Val)), ending = acc.getLast?.map (·.1) → Consec acc →
    Consec (rootIndex id l ending acc) := by
  intro l
  induction l with
  | nil => intro ending acc _ hc; exact hc
  | cons x rest ih =>
    intro ending acc hend hc
    obtain ⟨k, ms⟩ := x
    unfold rootIndex
    cases hr : rootOf ms id with
    | none => exact ih ending acc hend hc
    | some rp =>
      simp only
      cases ending with
      | none =>
        simp only
        refine ih (some k) _ (by simp) (consec_snoc acc (k, rp) hc ?_)
        intro a ha
        rw [ha] at hend
        exact nomatch hend
      | some e =>
        simp only
        split
        · rename_i hek
          refine ih (some k) _ (by simp) (consec_snoc acc (k, rp) hc ?_)
          intro a ha
          rw [ha] at hend
          simp only [Option.map_some, Option.some.injEq] at hend
          rw [← hend]; exact hek
        · exact ih (some e) acc hend hc

/-- consecutive entries of the root index carry consecutive version numbers -/
theorem indexOf_consec (vs : List (Version × VersionIf)) (id : EntryIdent) : Consec (indexOf vs id) :=
  rootIndex_consec id _ none [] rfl (fun i a b ha => by simp at ha)
