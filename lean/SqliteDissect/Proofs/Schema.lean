/-
Helper lemmas for Properties/C07.lean (schema SQL text: affinity, closing parenthesis, scanner).
-/
import SqliteDissect.Model.Schema
import SqliteDissect.Spec.Ddl

namespace SqliteDissect.Proofs.Schema
open SqliteDissect SqliteDissect.Model.Schema

/-! ### characters and case -/

theorem toNat_ofNat_small (n : Nat) (h : n < 0xd800) : (Char.ofNat n).toNat = n := by
  unfold Char.ofNat
  have hv : n.isValidChar := Or.inl h
  simp [hv, Char.ofNatAux, Char.toNat]

theorem upperC_eq : upperC = Spec.asciiUpper := by
  funext c; rfl

theorem upper_eq (s : Str) : upper s = s.map Spec.asciiUpper := by
  simp [upper, upperC_eq]

theorem upperC_idem (c : Char) : upperC (upperC c) = upperC c := by
  unfold upperC
  split
  · rename_i h
    simp at h
    have : (Char.ofNat (c.toNat - 32)).toNat = c.toNat - 32 := toNat_ofNat_small _ (by omega)
    simp [this]
    omega
  · rfl

theorem upper_idem (s : Str) : upper (upper s) = upper s := by
  simp [upper, List.map_map, Function.comp_def, upperC_idem]

theorem map_fixed {f : Char → Char} : ∀ (l : Str), (∀ c ∈ l, f c = c) → l.map f = l
  | [], _ => rfl
  | c :: cs, h => by
      simp only [List.map_cons]
      rw [h c (by simp), map_fixed cs (fun d hd => h d (by simp [hd]))]

/-! ### substrings -/

theorem hasSub_eq (kw : Str) : ∀ s : Str, hasSub kw s = Spec.contains kw s
  | [] => rfl
  | c :: cs => by simp [hasSub, Spec.contains, hasSub_eq kw cs]

/-- a character map that never creates or destroys a keyword character -/
def Neutral (kw : Str) (f : Char → Char) : Prop := ∀ k ∈ kw, ∀ c, (k == f c) = (k == c)

theorem isPrefixOf_map {f : Char → Char} : ∀ (kw s : Str), Neutral kw f → kw.isPrefixOf (s.map f) = kw.isPrefixOf s
  | [], _, _ => by simp
  | _ :: _, [], _ => by simp
  | k :: ks, c :: cs, h => by
      have hk := h k (by simp) c
      have ih := isPrefixOf_map ks cs (fun k' hk' => h k' (by simp [hk']))
      simp only [List.map_cons, List.isPrefixOf_cons_cons]
      rw [ih, hk]

theorem contains_map {f : Char → Char} (kw : Str) (h : Neutral kw f) :
    ∀ s : Str, Spec.contains kw (s.map f) = Spec.contains kw s
  | [] => by simp [Spec.contains]
  | c :: cs => by
      have h1 := isPrefixOf_map kw (c :: cs) h
      simp only [List.map_cons] at h1
      simp only [List.map_cons, Spec.contains, h1, contains_map kw h cs]

/-! ### affinity -/

def s2u (c : Char) : Char := if c == ' ' then '_' else c

theorem spaceToUnderscore_eq (s : Str) : spaceToUnderscore s = s.map s2u := rfl

theorem neutral_s2u (kw : Str) (h1 : ' ' ∉ kw) (h2 : '_' ∉ kw) : Neutral kw s2u := by
  intro k hk c
  unfold s2u
  by_cases hc : c = ' '
  · subst hc
    have e1 : (k == ' ') = false := by simpa using fun e : k = ' ' => h1 (e ▸ hk)
    have e2 : (k == '_') = false := by simpa using fun e : k = '_' => h2 (e ▸ hk)
    simp [e1, e2]
  · simp [hc]

theorem rules_s2u (s : Str) : Spec.rules (s.map s2u) = Spec.rules s := by
  unfold Spec.rules
  rw [contains_map _ (neutral_s2u _ (by decide) (by decide)), contains_map _ (neutral_s2u _ (by decide) (by decide)),
    contains_map _ (neutral_s2u _ (by decide) (by decide)), contains_map _ (neutral_s2u _ (by decide) (by decide)),
    contains_map _ (neutral_s2u _ (by decide) (by decide)), contains_map _ (neutral_s2u _ (by decide) (by decide)),
    contains_map _ (neutral_s2u _ (by decide) (by decide)), contains_map _ (neutral_s2u _ (by decide) (by decide))]

theorem affinityRules_eq (t : Str) : affinityRules t false = Spec.rules t := by
  unfold affinityRules Spec.rules
  simp only [hasSub_eq, Bool.or_false, kINT, kCHAR, kCLOB, kTEXT, kBLOB, kREAL, kFLOA, kDOUB]

theorem lookup_mem (key : Str) : ∀ (tbl : List (Str × Str)) (v : Str), lookupType key tbl = v → v ≠ dtInvalid →
    (key, v) ∈ tbl ∧ v ≠ dtNotSpecified
  | [], v, h, hv => by simp [lookupType] at h; exact absurd h.symm hv
  | (k, w) :: rest, v, h, hv => by
      unfold lookupType at h
      by_cases hskip : (w == dtNotSpecified || w == dtInvalid) = true
      · simp only [hskip, if_true] at h
        have := lookup_mem key rest v h hv
        exact ⟨by simp [this.1], this.2⟩
      · simp only [hskip] at h
        by_cases hk : k = key
        · subst hk
          simp at h
          subst h
          refine ⟨by simp, ?_⟩
          intro e
          apply hskip
          simp [e]
        · have : (k == key) = false := by simpa using hk
          simp only [this] at h
          have := lookup_mem key rest v (by simpa using h) hv
          exact ⟨by simp [this.1], this.2⟩

/-- table fact: for every DATA_TYPE other than the markers NOT_SPECIFIED / INVALID the rules give the
same affinity on the enum value as on the name it is looked up by -/
theorem table_affinity : ∀ p ∈ DATA_TYPES, p.2 ≠ dtNotSpecified → p.2 ≠ dtInvalid → affinityRules p.2 false = Spec.rules p.1 := by
  decide +kernel

theorem table_keys_plain : ∀ p ∈ DATA_TYPES, '(' ∉ p.1 ∧ '\n' ∉ p.1 := by
  decide +kernel

theorem stripArgs_mem : ∀ (x : Str) (c : Char), c ∈ stripArgs x → c ∈ x ∨ c = '\n'
  | [], c, h => by simp [stripArgs] at h
  | a :: as, c, h => by
      unfold stripArgs at h
      split at h
      · split at h
        · simp at h; exact Or.inr h
        · simp at h
      · simp only [List.mem_cons] at h
        rcases h with rfl | h
        · simp
        · rcases stripArgs_mem as c h with h | h
          · simp [h]
          · exact Or.inr h

theorem upper_fixed (s : Str) : ∀ c ∈ upper s, Spec.asciiUpper c = c := by
  intro c hc
  simp only [upper, List.mem_map] at hc
  obtain ⟨d, _, rfl⟩ := hc
  rw [← upperC_eq]; exact upperC_idem d

theorem upper_stripArgs (d : Str) : (stripArgs (upper d)).map Spec.asciiUpper = stripArgs (upper d) := by
  apply map_fixed
  intro c hc
  rcases stripArgs_mem _ _ hc with h | h
  · exact upper_fixed d c h
  · subst h; rfl

theorem affinity_invalid_branch (d : Str) (h : getDataType d = dtInvalid) :
    columnAffinity (getDataType d) (some d) = .ok (Spec.typeAffinity d) := by
  rw [h]
  simp only [columnAffinity, beq_self_eq_true, if_true]
  rw [affinityRules_eq, Spec.typeAffinity, upper_eq]

theorem affinity_enum_branch (d : Str) (h1 : getDataType d ≠ dtInvalid) :
    columnAffinity (getDataType d) (some d) = .ok (Spec.typeAffinity (stripArgs (upper d))) := by
  have hb : (getDataType d == dtInvalid) = false := by simpa using h1
  obtain ⟨hm, hns⟩ := lookup_mem _ DATA_TYPES (getDataType d) rfl h1
  have hn : (getDataType d == dtNotSpecified) = false := by simpa using hns
  simp only [columnAffinity, hb, hn]
  have := table_affinity _ hm hns h1
  simp only at this
  rw [if_neg (by simp), this, spaceToUnderscore_eq, rules_s2u, Spec.typeAffinity, upper_stripArgs]

/-! ### declared types in SQLite's `typetoken` shape -/

def keywords : List Str := [kINT, kCHAR, kCLOB, kTEXT, kBLOB, kREAL, kFLOA, kDOUB]

/-- a name without "(" optionally followed by a parenthesised argument list in which none of the
eight affinity keywords occurs (SQLite's grammar: the arguments are one or two signed numbers) -/
structure TypeToken (name args : Str) : Prop where
  name_noparen : '(' ∉ name
  args_shape : args = [] ∨ args.head? = some '('
  args_clean : ∀ kw ∈ keywords, Spec.contains kw (args.map Spec.asciiUpper) = false

theorem isPrefixOf_append_boundary (b' : Str) : ∀ (kw x : Str), '(' ∉ kw →
    kw.isPrefixOf (x ++ '(' :: b') = kw.isPrefixOf x
  | [], _, _ => by simp
  | k :: ks, [], h => by
      have : (k == '(') = false := by simpa using fun e : k = '(' => h (by simp [e])
      simp [List.isPrefixOf, this]
  | k :: ks, c :: cs, h => by
      have ih := isPrefixOf_append_boundary b' ks cs (fun hm => h (by simp [hm]))
      simp only [List.cons_append, List.isPrefixOf_cons_cons, ih]

theorem contains_append_boundary (kw b : Str) (hne : kw ≠ []) (hp : '(' ∉ kw)
    (hb : b = [] ∨ b.head? = some '(') (hc : Spec.contains kw b = false) :
    ∀ a : Str, Spec.contains kw (a ++ b) = Spec.contains kw a := by
  rcases hb with rfl | hb
  · intro a; simp
  · obtain ⟨b', rfl⟩ : ∃ b', b = '(' :: b' := by
      cases b with
      | nil => simp at hb
      | cons x xs => simp at hb; exact ⟨xs, by rw [hb]⟩
    intro a
    induction a with
    | nil =>
        have : kw.isEmpty = false := by cases kw <;> simp_all
        simp [hc, Spec.contains, this]
    | cons c cs ih =>
        have h1 := isPrefixOf_append_boundary b' kw (c :: cs) hp
        simp only [List.cons_append] at h1 ih
        simp only [List.cons_append, Spec.contains, h1, ih]

theorem rules_append_boundary (a b : Str) (hb : b = [] ∨ b.head? = some '(')
    (hc : ∀ kw ∈ keywords, Spec.contains kw b = false) : Spec.rules (a ++ b) = Spec.rules a := by
  have hk : ∀ kw ∈ keywords, Spec.contains kw (a ++ b) = Spec.contains kw a := by
    intro kw hkw
    have h := hc kw hkw
    simp only [keywords, List.mem_cons, List.not_mem_nil, or_false] at hkw
    rcases hkw with rfl | rfl | rfl | rfl | rfl | rfl | rfl | rfl <;>
      exact contains_append_boundary _ b (by decide) (by decide) hb h a
  have e1 := hk kINT (by simp [keywords])
  have e2 := hk kCHAR (by simp [keywords])
  have e3 := hk kCLOB (by simp [keywords])
  have e4 := hk kTEXT (by simp [keywords])
  have e5 := hk kBLOB (by simp [keywords])
  have e6 := hk kREAL (by simp [keywords])
  have e7 := hk kFLOA (by simp [keywords])
  have e8 := hk kDOUB (by simp [keywords])
  simp only [kINT, kCHAR, kCLOB, kTEXT, kBLOB, kREAL, kFLOA, kDOUB] at e1 e2 e3 e4 e5 e6 e7 e8
  unfold Spec.rules
  rw [e1, e2, e3, e4, e5, e6, e7, e8]

theorem upperC_paren (c : Char) (h : upperC c = '(') : c = '(' := by
  unfold upperC at h
  split at h
  · rename_i hc
    simp at hc
    have := congrArg Char.toNat h
    rw [toNat_ofNat_small _ (by omega)] at this
    simp at this
    omega
  · exact h

theorem stripArgs_append (b : Str) : ∀ a : Str, '(' ∉ a → stripArgs (a ++ b) = a ++ stripArgs b
  | [], _ => rfl
  | c :: cs, h => by
      have hc : (c == '(') = false := by simpa using fun e : c = '(' => h (by simp [e])
      have ih := stripArgs_append b cs (fun hm => h (by simp [hm]))
      simp only [List.cons_append, stripArgs, hc, Bool.false_and, ih]
      rfl

theorem stripArgs_head (cs : Str) :
    stripArgs ('(' :: cs) = [] ∨ (stripArgs ('(' :: cs)).head? = some '\n' ∨ (stripArgs ('(' :: cs)).head? = some '(' := by
  unfold stripArgs
  split
  · split
    · right; left; rfl
    · left; rfl
  · right; right; rfl

theorem affinity_eq_spec (name args : Str) (h : TypeToken name args) :
    declaredAffinity (name ++ args) = .ok (Spec.typeAffinity (name ++ args)) := by
  have hu : upper (name ++ args) = upper name ++ upper args := by simp [upper]
  have hclean : ∀ kw ∈ keywords, Spec.contains kw (upper args) = false := by
    intro kw hkw; rw [upper_eq]; exact h.args_clean kw hkw
  have hshape : upper args = [] ∨ (upper args).head? = some '(' := by
    rcases h.args_shape with rfl | hs
    · left; rfl
    · right
      cases args with
      | nil => simp at hs
      | cons x xs => simp at hs; subst hs; rfl
  have hspec : Spec.typeAffinity (name ++ args) = Spec.rules (upper name) := by
    rw [Spec.typeAffinity, ← upper_eq, hu, rules_append_boundary _ _ hshape hclean]
  unfold declaredAffinity
  by_cases hinv : getDataType (upper (name ++ args)) = dtInvalid
  · rw [affinity_invalid_branch _ hinv, Spec.typeAffinity, ← upper_eq, upper_idem, hu,
      rules_append_boundary _ _ hshape hclean, hspec]
  · have hnp : '(' ∉ upper name := by
      intro hm
      simp only [upper, List.mem_map] at hm
      obtain ⟨c, hc, he⟩ := hm
      exact h.name_noparen (upperC_paren c he ▸ hc)
    have hstrip : stripArgs (upper (upper (name ++ args))) = upper name ++ stripArgs (upper args) := by
      rw [upper_idem, hu, stripArgs_append _ _ hnp]
    -- the lookup succeeded, so nothing of the argument list survived the regex
    have hm := (lookup_mem _ DATA_TYPES _ rfl hinv).1
    have hplain := table_keys_plain _ hm
    simp only at hplain
    have hr : stripArgs (upper args) = [] := by
      rcases hshape with he | hh
      · rw [he]; rfl
      · obtain ⟨cs, hcs⟩ : ∃ cs, upper args = '(' :: cs := by
          cases hua : upper args with
          | nil => rw [hua] at hh; simp at hh
          | cons x xs => rw [hua] at hh; simp at hh; exact ⟨xs, by rw [hh]⟩
        rw [hcs]
        rcases stripArgs_head cs with h0 | h1 | h2
        · exact h0
        · exfalso
          apply hplain.2
          rw [hstrip, hcs, spaceToUnderscore_eq]
          cases hs : stripArgs ('(' :: cs) with
          | nil => rw [hs] at h1; simp at h1
          | cons x xs => rw [hs] at h1; simp at h1; subst h1; simp [s2u]
        · exfalso
          apply hplain.1
          rw [hstrip, hcs, spaceToUnderscore_eq]
          cases hs : stripArgs ('(' :: cs) with
          | nil => rw [hs] at h2; simp at h2
          | cons x xs => rw [hs] at h2; simp at h2; subst h2; simp [s2u]
    rw [affinity_enum_branch _ hinv, hstrip, hr, List.append_nil, Spec.typeAffinity, ← upper_eq, upper_idem, hspec]

/-- the former counterexample: NOT_SPECIFIED as a type name now gets SQLite's NUMERIC -/
theorem affinity_not_specified : declaredAffinity dtNotSpecified = .ok .numeric := by
  rfl

def dateInt : Str := ['D','A','T','E','(','I','N','T',')']

/-- outside SQLite's grammar the enum detour still differs: the argument list is cut off before the
rules run, SQLite scans the whole text -/
theorem affinity_outside_grammar :
    declaredAffinity dateInt = .ok .numeric ∧ Spec.typeAffinity dateInt = .integer := by
  constructor
  · rfl
  · decide +kernel

/-! ### closing parenthesis -/

theorem closeGo_balanced (cst : Nat) : ∀ (body : Str) (d d' : Nat) (prev : Char) (idx : Nat) (tl : Str),
    Spec.Ddl.balance d body = some d' →
    ∃ prev', closeGo prev d 0 cst 0 idx (body ++ tl) = closeGo prev' d' 0 cst 0 (idx + body.length) tl
  | [], d, d', prev, idx, tl, h => by
      simp [Spec.Ddl.balance] at h
      subst h
      exact ⟨prev, by simp⟩
  | c :: cs, d, d', prev, idx, tl, h => by
      unfold Spec.Ddl.balance at h
      by_cases h1 : c = '('
      · subst h1
        simp only [beq_self_eq_true, if_true] at h
        obtain ⟨p, hp⟩ := closeGo_balanced cst cs (d + 1) d' '(' (idx + 1) tl h
        refine ⟨p, ?_⟩
        simp only [List.cons_append, closeGo, ne_eq, not_true_eq_false, if_false, beq_self_eq_true, if_true]
        rw [hp]; simp [Nat.add_assoc, Nat.add_comm 1]
      · have e1 : (c == '(') = false := by simpa using h1
        simp only [e1] at h
        by_cases h2 : c = ')'
        · subst h2
          simp only [beq_self_eq_true, if_true] at h
          by_cases hd : d = 0
          · simp [hd] at h
          · have ed : (d == 0) = false := by simpa using hd
            simp only [ed] at h
            obtain ⟨p, hp⟩ := closeGo_balanced cst cs (d - 1) d' ')' (idx + 1) tl (by simpa using h)
            refine ⟨p, ?_⟩
            simp only [List.cons_append, closeGo, ne_eq, not_true_eq_false, if_false, e1, beq_self_eq_true, if_true, ed]
            rw [hp]; simp [Nat.add_assoc, Nat.add_comm 1]
        · have e2 : (c == ')') = false := by simpa using h2
          simp only [e2] at h
          by_cases h3 : (c == '-' || c == '/' || c == '\'' || c == '"' || c == '`' || c == '[') = true
          · simp [h3] at h
          · simp only [h3] at h
            simp only [Bool.or_eq_true, not_or, Bool.not_eq_true] at h3
            obtain ⟨⟨⟨⟨⟨a1, a2⟩, a3⟩, a4⟩, a5⟩, a6⟩ := h3
            obtain ⟨p, hp⟩ := closeGo_balanced cst cs d d' c (idx + 1) tl (by simpa using h)
            refine ⟨p, ?_⟩
            simp only [List.cons_append, closeGo, ne_eq, not_true_eq_false, if_false, e1, e2, a1, a2, a3, a4, a5, a6]
            rw [hp]; simp [Nat.add_assoc, Nat.add_comm 1]

theorem closing_paren_balanced (body rest : Str) (h : Spec.Ddl.balance 0 body = some 0) :
    closingParen ('(' :: body ++ ')' :: rest) = .ok (body.length + 1) := by
  obtain ⟨p, hp⟩ := closeGo_balanced 0 body 0 0 '(' 1 (')' :: rest) h
  simp only [List.cons_append, closingParen, beq_self_eq_true, if_true]
  rw [hp]
  simp [closeGo, Nat.add_comm]

theorem points_step (prev c : Char) (cs : Str) (idx i : Nat)
    (ih : idx + 1 ≤ i + 1 ∧ (c :: cs)[i + 1 - (idx + 1)]? = some ')') :
    idx ≤ i + 1 ∧ (prev :: c :: cs)[i + 1 - idx]? = some ')' := by
  obtain ⟨h1, h2⟩ := ih
  refine ⟨by omega, ?_⟩
  have : i + 1 - idx = (i + 1 - (idx + 1)) + 1 := by omega
  rw [this, List.getElem?_cons_succ]
  exact h2

theorem closeGo_points (prev : Char) (emb cm cst lit idx : Nat) (l : Str) (hidx : 1 ≤ idx) :
    ∀ i, closeGo prev emb cm cst lit idx l = .ok i → idx ≤ i + 1 ∧ (prev :: l)[i + 1 - idx]? = some ')' := by
  fun_induction closeGo prev emb cm cst lit idx l
  all_goals intro i h
  all_goals first
    | (rename_i ih; exact points_step _ _ _ _ _ (ih (by omega) i h))
    | (cases h; done)
    | skip
  · rename_i prev' _ _ _ _ idx' hp
    cases h
    have : prev' = ')' := by simpa using hp
    subst this
    refine ⟨by omega, ?_⟩
    have : idx' - 1 + 1 - idx' = 0 := by omega
    rw [this]; rfl
  · rename_i idx' c' _ _ _ _ hc _
    cases h
    have : c' = ')' := by simpa using hc
    subst this
    refine ⟨by omega, ?_⟩
    have : idx' + 1 - idx' = 1 := by omega
    rw [this]; rfl

/-- whatever index `get_index_of_closing_parenthesis` returns holds a ")" -/
theorem closing_paren_points (s : Str) (i : Nat) (h : closingParen s = .ok i) : s[i]? = some ')' := by
  cases s with
  | nil => simp [closingParen] at h
  | cons c cs =>
      unfold closingParen at h
      by_cases hc : c = '('
      · subst hc
        simp only [beq_self_eq_true, if_true] at h
        have := (closeGo_points '(' 0 0 0 0 1 cs (by omega) i h).2
        simpa using this
      · have : (c == '(') = false := by simpa using hc
        simp [this] at h

/-! ### `Simple` column definitions -/

open SqliteDissect.Spec.Ddl

theorem ident_ranges (c : Char) (h : isIdentChar c = true) :
    (48 ≤ c.toNat ∧ c.toNat ≤ 57) ∨ (65 ≤ c.toNat ∧ c.toNat ≤ 90) ∨ (97 ≤ c.toNat ∧ c.toNat ≤ 122) ∨ c.toNat = 95 := by
  simp only [isIdentChar, Bool.or_eq_true, Bool.and_eq_true, decide_eq_true_eq, beq_iff_eq] at h
  omega

theorem ident_ne (c x : Char) (h : isIdentChar c = true) (hx : isIdentChar x = false) : c ≠ x := by
  rintro rfl; simp [h] at hx

theorem ident_not_space (c : Char) (h : isIdentChar c = true) : isSpace c = false := by
  have := ident_ranges c h
  simp only [isSpace, Bool.or_eq_false_iff, Bool.and_eq_false_iff, decide_eq_false_iff_not, beq_eq_false_iff_ne]
  omega

theorem ident_ascii (c : Char) (h : isIdentChar c = true) : c.toNat < 128 := by
  have := ident_ranges c h; omega

theorem ident_word (c : Char) : isAsciiWord c = isIdentChar c := rfl

def Ident (w : Str) : Prop := ∀ c ∈ w, isIdentChar c = true

theorem stripColumnComments_plain : ∀ (w : Str) (fuel : Nat), w.length < fuel → (∀ c ∈ w, c ≠ '/' ∧ c ≠ '-') →
    stripColumnComments fuel w = .ok w
  | [], fuel, hf, _ => by cases fuel <;> simp [stripColumnComments]
  | c :: cs, fuel, hf, h => by
      cases fuel with
      | zero => simp at hf
      | succ f =>
          have ⟨h1, h2⟩ := h c (by simp)
          have e1 : (c == '/') = false := by simpa using h1
          have e2 : (c == '-') = false := by simpa using h2
          have ih := stripColumnComments_plain cs f (by simp at hf; omega) (fun d hd => h d (by simp [hd]))
          simp [stripColumnComments, e1, e2, ih, Except.map]

theorem lstrip_of_head (c : Char) (cs : Str) (h : isSpace c = false) : lstrip (c :: cs) = c :: cs := by
  simp [lstrip, List.dropWhile, h]

theorem rstrip_of_last (xs : Str) (c : Char) (h : isSpace c = false) : rstrip (xs ++ [c]) = xs ++ [c] := by
  simp [rstrip, h]

theorem strip_word (w : Str) (hw : Ident w) : strip w = w := by
  cases w with
  | nil => rfl
  | cons c cs =>
      unfold strip
      rw [lstrip_of_head c cs (ident_not_space c (hw c (by simp)))]
      obtain ⟨xs, l, hx⟩ : ∃ xs l, c :: cs = xs ++ [l] :=
        ⟨(c :: cs).dropLast, (c :: cs).getLast (List.cons_ne_nil _ _), (List.dropLast_concat_getLast (List.cons_ne_nil _ _)).symm⟩
      rw [hx]
      apply rstrip_of_last
      apply ident_not_space
      apply hw
      rw [hx]; simp

theorem collapseGo_word (p : Char → Bool) : ∀ (w r : Str), (∀ c ∈ w, p c = false) →
    collapseGo p none (w ++ r) = w ++ collapseGo p none r
  | [], r, _ => rfl
  | c :: cs, r, h => by
      have := h c (by simp)
      simp [collapseGo, this, collapseGo_word p cs r (fun d hd => h d (by simp [hd]))]

theorem collapse_word (w : Str) (hw : Ident w) : collapse isSpace w = w := by
  have := collapseGo_word isSpace w [] (fun c hc => ident_not_space c (hw c hc))
  simpa [collapse, collapseGo] using this

theorem collapseGo_run (p : Char → Bool) (x : Char) (r : Str) (hx : p x = false) :
    ∀ (ws : Str) (c : Char) (m : Bool), (∀ w ∈ ws, p w = true) →
      collapseGo p (some (c, m)) (ws ++ x :: r) = (if m || !ws.isEmpty then ' ' else c) :: x :: collapseGo p none r
  | [], c, m, _ => by simp [collapseGo, hx]
  | w :: ws, c, m, h => by
      have hw := h w (by simp)
      have ih := collapseGo_run p x r hx ws c true (fun v hv => h v (by simp [hv]))
      simp only [List.cons_append, collapseGo, hw, if_true, ih]
      simp

/-- what a whitespace run between two tokens becomes: one space if it has two or more characters,
otherwise the character itself -/
def sepOf (ws : Str) : Char := match ws with
  | [w] => w
  | _ => ' '

theorem sepOf_space (ws : Str) (hne : ws ≠ []) (h : ∀ w ∈ ws, isSpace w = true) : isSpace (sepOf ws) = true := by
  cases ws with
  | nil => exact absurd rfl hne
  | cons w rest =>
      cases rest with
      | nil => exact h w (by simp)
      | cons v rest' => show isSpace ' ' = true; decide

theorem collapse_sep (a ws b : Str) (ha : Ident a) (hws : ∀ w ∈ ws, isSpace w = true) (hne : ws ≠ [])
    (hb : Ident b) (hbne : b ≠ []) :
    collapse isSpace (a ++ ws ++ b) = a ++ sepOf ws :: b := by
  unfold collapse
  rw [List.append_assoc, collapseGo_word isSpace a _ (fun c hc => ident_not_space c (ha c hc))]
  cases b with
  | nil => exact absurd rfl hbne
  | cons x xs =>
      have hx := ident_not_space x (hb x (by simp))
      have hxs := collapseGo_word isSpace xs [] (fun c hc => ident_not_space c (hb c (by simp [hc])))
      simp only [List.append_nil] at hxs
      have hnone : collapseGo isSpace none xs = xs := by simpa [collapseGo] using hxs
      match ws, hne, hws with
      | [w], _, h =>
          have hw := h w (by simp)
          simp [collapseGo, hw, hx, hnone, sepOf]
      | w :: v :: rest, _, h =>
          have hw := h w (by simp)
          have := collapseGo_run isSpace x xs hx (v :: rest) w false (fun u hu => h u (by simp [hu]))
          simp only [List.cons_append] at this
          have step : collapseGo isSpace none (w :: v :: (rest ++ x :: xs)) =
              collapseGo isSpace (some (w, false)) (v :: (rest ++ x :: xs)) := by
            rw [collapseGo]; simp [hw]
          simp only [List.cons_append]
          rw [step, this, hnone]
          simp [sepOf]

theorem takeWhile_word (p : Char → Bool) (sep : Char) (b : Str) (hsep : p sep = false) :
    ∀ a : Str, (∀ c ∈ a, p c = true) → (a ++ sep :: b).takeWhile p = a
  | [], _ => by simp [List.takeWhile, hsep]
  | c :: cs, h => by
      simp [List.takeWhile, h c (by simp), takeWhile_word p sep b hsep cs (fun d hd => h d (by simp [hd]))]

theorem takeWhile_all (p : Char → Bool) : ∀ a : Str, (∀ c ∈ a, p c = true) → a.takeWhile p = a
  | [], _ => rfl
  | c :: cs, h => by
      simp [List.takeWhile, h c (by simp), takeWhile_all p cs (fun d hd => h d (by simp [hd]))]

theorem quotedName_ident (c : Char) (tl : Str) (h : isIdentChar c = true) : quotedName (c :: tl) = none := by
  have h1 := ident_ne c '`' h (by decide)
  have h2 := ident_ne c '[' h (by decide)
  have h3 := ident_ne c '\'' h (by decide)
  have h4 := ident_ne c '"' h (by decide)
  simp [quotedName, isQuoteChar, h1, h2, h3, h4]

theorem nameAndRest_two (a b : Str) (sep : Char) (hsep : isSpace sep = true) (ha : Ident a) (hane : a ≠ []) (hb : Ident b) :
    columnNameAndRest (a ++ sep :: b) = .ok (a, b) := by
  have htw : ((a ++ sep :: b).takeWhile fun x => !isSpace x) = a :=
    takeWhile_word _ sep b (by simp [hsep]) a (fun c hc => by simp [ident_not_space c (ha c hc)])
  cases a with
  | nil => exact absurd rfl hane
  | cons c cs =>
      have hq := quotedName_ident c (cs ++ sep :: b) (ha c (by simp))
      have e1 : (c :: (cs ++ sep :: b)).take (c :: cs).length = c :: cs := by
        rw [show c :: (cs ++ sep :: b) = (c :: cs) ++ sep :: b by rfl, List.take_left']
        rfl
      have e2 : (c :: (cs ++ sep :: b)).drop ((c :: cs).length + 1) = b := by
        rw [show c :: (cs ++ sep :: b) = ((c :: cs) ++ [sep]) ++ b by simp, List.drop_left']
        simp
      simp only [List.cons_append] at htw
      simp only [columnNameAndRest, List.cons_append, hq, htw]
      have hn1 : ((c :: cs).length != 0) = true := by simp
      have hn2 : ((c :: cs).length != (c :: (cs ++ sep :: b)).length) = true := by simp
      simp only [hn1, hn2, Bool.and_self, if_true, e1, e2, strip_word b hb]

theorem nameAndRest_one (a : Str) (ha : Ident a) (hane : a ≠ []) : columnNameAndRest a = .ok (a, []) := by
  have htw : (a.takeWhile fun x => !isSpace x) = a :=
    takeWhile_all _ a (fun c hc => by simp [ident_not_space c (ha c hc)])
  cases a with
  | nil => exact absurd rfl hane
  | cons c cs =>
      have hq := quotedName_ident c cs (ha c (by simp))
      simp only [columnNameAndRest, hq, htw]
      simp

theorem nextSegGo_word : ∀ (w : Str) (idx : Nat), w ≠ [] → Ident w → nextSegGo idx w = .ok (idx + w.length - 1)
  | [], _, h, _ => absurd rfl h
  | [c], idx, _, hw => by
      have h1 : (c == '(') = false := by simpa using ident_ne c '(' (hw c (by simp)) (by decide)
      have h2 := ident_not_space c (hw c (by simp))
      simp [nextSegGo, h1, h2]
  | c :: d :: rest, idx, _, hw => by
      have h1 : (c == '(') = false := by simpa using ident_ne c '(' (hw c (by simp)) (by decide)
      have h2 := ident_not_space c (hw c (by simp))
      have ih := nextSegGo_word (d :: rest) (idx + 1) (by simp) (fun x hx => hw x (by simp [hx]))
      rw [nextSegGo]
      simp only [h1, h2, List.isEmpty_cons, Bool.false_eq_true, if_false]
      rw [ih]
      simp only [List.length_cons]
      congr 1
      omega

theorem squeeze_word (q : Char) : ∀ w : Str, (∀ c ∈ w, c ≠ q ∧ isSpace c = false) → squeeze q false w = w
  | [], _ => rfl
  | c :: cs, h => by
      have ⟨h1, h2⟩ := h c (by simp)
      have e : (c == q) = false := by simpa using h1
      simp [squeeze, e, h2, squeeze_word q cs (fun d hd => h d (by simp [hd]))]

/-- the bridge between Spec's keyword test and the code's preface test, for ASCII text -/
theorem isPreface_false (seg : Str) (hascii : ∀ c ∈ seg, c.toNat < 128) :
    ∀ kws : List Str, beginsWithKeyword kws seg = false → isPreface kws seg = .ok false
  | [], _ => rfl
  | p :: ps, h => by
      simp only [beginsWithKeyword, List.any_cons, Bool.or_eq_false_iff] at h
      obtain ⟨hp, hps⟩ := h
      have ih := isPreface_false seg hascii ps (by simpa [beginsWithKeyword] using hps)
      unfold isPreface
      rw [upper_eq]
      by_cases hpre : p.isPrefixOf (seg.map Spec.asciiUpper) = true
      · simp only [hpre, Bool.true_and, Bool.not_eq_false'] at hp
        simp only [hpre, if_true]
        cases hd : seg.drop p.length with
        | nil => rw [hd] at hp; simp at hp
        | cons c rest =>
            rw [hd] at hp
            simp only at hp
            have hc : c ∈ seg := List.mem_of_mem_drop (by rw [hd]; simp)
            simp only [wordClass, hascii c hc, if_true, ident_word, hp]
            simp [ih, bind, Except.bind]
      · simp only [hpre]
        simpa using ih

theorem upperC_nonupper (c x : Char) (hx : ¬(65 ≤ x.toNat ∧ x.toNat ≤ 90)) (h : upperC c = x) : c = x := by
  unfold upperC at h
  split at h
  · rename_i hc
    simp at hc
    have := congrArg Char.toNat h
    rw [toNat_ofNat_small _ (by omega)] at this
    omega
  · exact h

theorem columnKeywords_eq : Spec.Ddl.columnKeywords = COLUMN_PREFACES := rfl

theorem tableKeywords_eq : Spec.Ddl.tableKeywords = TABLE_PREFACES := rfl

theorem segmentLoop_end (fuel : Nat) (d : Option Str) (dt : Str) : segmentLoop fuel [] d dt = .ok (d, dt, false) := by
  cases fuel <;> simp [segmentLoop]

theorem segmentLoop_word (t : Str) (ht : Ident t) (hne : t ≠ [])
    (hkw : beginsWithKeyword Spec.Ddl.columnKeywords t = false) (fuel : Nat) :
    segmentLoop (fuel + 1) t none dtNotSpecified = .ok (some (upper t), getDataType (upper t), false) := by
  have hlen : 1 ≤ t.length := by cases t with
    | nil => exact absurd rfl hne
    | cons _ _ => simp
  have hpre : isPreface COLUMN_PREFACES t = .ok false := by
    apply isPreface_false t (fun c hc => ident_ascii c (ht c hc))
    rw [← columnKeywords_eq]; exact hkw
  have hseg : nextSegmentEnd t = .ok (t.length - 1) := by
    cases t with
    | nil => exact absurd rfl hne
    | cons c cs =>
        have := nextSegGo_word (c :: cs) 0 hne ht
        simp only [nextSegmentEnd, ident_not_space c (ht c (by simp)), Bool.false_eq_true, if_false, this]
        simp
  have htake : t.take (t.length - 1 + 1) = t := by
    rw [show t.length - 1 + 1 = t.length by omega, List.take_length]
  have hdrop : t.drop (t.length - 1 + 1) = [] := by
    rw [show t.length - 1 + 1 = t.length by omega, List.drop_length]
  have hsq : upper (strip (squeeze ')' false (squeeze '(' false t))) = upper t := by
    rw [squeeze_word '(' t (fun c hc => ⟨ident_ne c '(' (ht c hc) (by decide), ident_not_space c (ht c hc)⟩),
      squeeze_word ')' t (fun c hc => ⟨ident_ne c ')' (ht c hc) (by decide), ident_not_space c (ht c hc)⟩),
      strip_word t ht]
  have h1 : ¬ (t.length - 1 > t.length) := by omega
  rw [segmentLoop]
  have hie : t.isEmpty = false := by cases t <;> simp_all
  simp only [hie, Bool.false_eq_true, if_false, hseg, bind, Except.bind, h1, htake, hpre,
    Bool.not_false, if_true, hdrop, hsq, segmentLoop_end]

theorem strip_ends (x : Str) (c l : Char) (cs xs : Str) (h1 : x = c :: cs) (h2 : x = xs ++ [l])
    (hc : isSpace c = false) (hl : isSpace l = false) : strip x = x := by
  unfold strip
  rw [h1, lstrip_of_head c cs hc, ← h1, h2]
  exact rstrip_of_last xs l hl

theorem s2u_upper_word (t : Str) (ht : Ident t) : spaceToUnderscore (upper t) = upper t := by
  rw [spaceToUnderscore_eq]
  apply map_fixed
  intro c hc
  simp only [upper, List.mem_map] at hc
  obtain ⟨c0, hc0, rfl⟩ := hc
  have : upperC c0 ≠ ' ' := fun e => ident_ne c0 ' ' (ht c0 hc0) (by decide) (upperC_nonupper c0 ' ' (by decide) e)
  simp [s2u, this]

theorem space_not_comment (c : Char) (h : isSpace c = true) : c ≠ '/' ∧ c ≠ '-' := by
  constructor
  · rintro rfl; revert h; decide
  · rintro rfl; revert h; decide

/-- name, any non-empty run of whitespace, one-word type -/
theorem parseColumn_ws (name ws t : Str) (hname : Ident name) (hnne : name ≠ []) (ht : Ident t) (htne : t ≠ [])
    (hws : ∀ w ∈ ws, isSpace w = true) (hwne : ws ≠ [])
    (hkw : beginsWithKeyword Spec.Ddl.columnKeywords t = false) :
    parseColumn (name ++ ws ++ t) =
      .ok { name := name, derived := some (upper t), dataType := getDataType (upper t),
            affinity := Spec.typeAffinity t, hasConstraints := false } := by
  have haff := affinity_eq_spec t []
    ⟨fun hm => ident_ne '(' '(' (ht '(' hm) (by decide) rfl, Or.inl rfl, by decide⟩
  simp only [List.append_nil, declaredAffinity] at haff
  have hall : ∀ c ∈ name ++ ws ++ t, c ≠ '/' ∧ c ≠ '-' := by
    intro c hc
    simp only [List.mem_append] at hc
    rcases hc with (hc | hc) | hc
    · exact ⟨ident_ne c '/' (hname c hc) (by decide), ident_ne c '-' (hname c hc) (by decide)⟩
    · exact space_not_comment c (hws c hc)
    · exact ⟨ident_ne c '/' (ht c hc) (by decide), ident_ne c '-' (ht c hc) (by decide)⟩
  have h1 := stripColumnComments_plain (name ++ ws ++ t) ((name ++ ws ++ t).length + 1) (by omega) hall
  have hstrip : strip (name ++ ws ++ t) = name ++ ws ++ t := by
    obtain ⟨c, cs, hcs⟩ : ∃ c cs, name = c :: cs := by
      cases name with
      | nil => exact absurd rfl hnne
      | cons c cs => exact ⟨c, cs, rfl⟩
    have hl := List.dropLast_concat_getLast htne
    apply strip_ends (name ++ ws ++ t) c (t.getLast htne) (cs ++ ws ++ t) (name ++ ws ++ t.dropLast)
    · rw [hcs]; rfl
    · rw [List.append_assoc (name ++ ws), hl]
    · exact ident_not_space c (hname c (by rw [hcs]; simp))
    · exact ident_not_space _ (ht _ (List.getLast_mem htne))
  simp only [parseColumn, h1, bind, Except.bind, hstrip, collapse_sep name ws t hname hws hwne ht htne,
    nameAndRest_two name t (sepOf ws) (sepOf_space ws hwne hws) hname hnne ht,
    segmentLoop_word t ht htne hkw t.length, haff]

theorem parseColumn_simple (d : ColDef) (h : Simple d = true) :
    ∃ col, parseColumn (renderCol d) = .ok col ∧ col.name = d.name ∧ col.affinity = d.affinity := by
  obtain ⟨name, type⟩ := d
  simp only [Simple, Bool.and_eq_true, isIdent, Bool.not_eq_true', List.all_eq_true] at h
  obtain ⟨⟨⟨hne, hid⟩, _⟩, hty⟩ := h
  have hname : Ident name := hid
  have hnne : name ≠ [] := by intro e; subst e; simp at hne
  cases type with
  | none =>
      refine ⟨{ name := name, derived := none, dataType := dtNotSpecified, affinity := .blob, hasConstraints := false }, ?_, rfl, rfl⟩
      have h1 := stripColumnComments_plain name (name.length + 1) (by omega)
        (fun c hc => ⟨ident_ne c '/' (hname c hc) (by decide), ident_ne c '-' (hname c hc) (by decide)⟩)
      simp only [renderCol, parseColumn, h1, bind, Except.bind, strip_word name hname, collapse_word name hname,
        nameAndRest_one name hname hnne, segmentLoop_end]
      rfl
  | some t =>
      simp only [Bool.and_eq_true, Bool.not_eq_true', List.all_eq_true] at hty
      obtain ⟨⟨htne, htid⟩, hkw⟩ := hty
      have ht : Ident t := htid
      have htne' : t ≠ [] := by intro e; subst e; simp at htne
      have := parseColumn_ws name [' '] t hname hnne ht htne' (by decide) (by simp) hkw
      refine ⟨_, by simpa [renderCol] using this, rfl, ?_⟩
      simp [ColDef.affinity, Spec.columnAffinity, htne']

/-- the same with any non-empty whitespace run between name and type -/
theorem parseColumn_simple_ws (d : ColDef) (h : Simple d = true) (t : Str) (hty : d.type = some t)
    (ws : Str) (hwne : ws ≠ []) (hws : ∀ w ∈ ws, isSpace w = true) :
    ∃ col, parseColumn (d.name ++ ws ++ t) = .ok col ∧ col.name = d.name ∧ col.affinity = d.affinity := by
  obtain ⟨name, type⟩ := d
  simp only at hty
  subst hty
  simp only [Simple, Bool.and_eq_true, isIdent, Bool.not_eq_true', List.all_eq_true] at h
  obtain ⟨⟨⟨hne, hid⟩, _⟩, ⟨htne, htid⟩, hkw⟩ := h
  have hnne : name ≠ [] := by intro e; subst e; simp at hne
  have htne' : t ≠ [] := by intro e; subst e; simp at htne
  refine ⟨_, parseColumn_ws name ws t hid hnne htid htne' hws hwne hkw, rfl, ?_⟩
  simp [ColDef.affinity, Spec.columnAffinity, htne']

/-! ### the scanner on rendered bodies -/

def Plain (c : Char) : Prop := isIdentChar c = true ∨ c = ' '

theorem scanJump_plain (c : Char) (tl : Str) (h : Plain c) : scanJump (c :: tl) = .ok 0 := by
  have hx : ∀ x : Char, isIdentChar x = false → x ≠ ' ' → (c == x) = false := by
    intro x hx hs
    rcases h with h | h
    · simpa using ident_ne c x h hx
    · subst h; simpa using fun e : ' ' = x => hs e.symm
  simp only [scanJump, hx '-' (by decide) (by decide), hx '/' (by decide) (by decide), hx '[' (by decide) (by decide),
    hx '`' (by decide) (by decide), hx '\'' (by decide) (by decide), hx '"' (by decide) (by decide),
    hx '(' (by decide) (by decide), hx ')' (by decide) (by decide), Bool.false_eq_true, if_false, Bool.or_self]

theorem plain_ne_comma (c : Char) (h : Plain c) : (c == ',') = false := by
  rcases h with h | h
  · simpa using ident_ne c ',' h (by decide)
  · subst h; decide

theorem scan_plain_step (fuel : Nat) (st : ScanState) (cur : Str) (c : Char) (tl : Str) (h : Plain c) (htl : tl ≠ []) :
    scan (fuel + 1) st cur (c :: tl) = scan fuel st (cur ++ [c]) tl := by
  have hl : ((c :: tl).length == 1) = false := by
    cases tl with
    | nil => exact absurd rfl htl
    | cons x xs => simp
  rw [scan]
  simp only [scanJump_plain c tl h, bind, Except.bind, List.take_zero, List.append_nil, List.drop_zero, hl,
    Bool.false_eq_true, if_false, plain_ne_comma c h]
  simp

theorem scan_plain_run : ∀ (w : Str) (fuel : Nat) (st : ScanState) (cur tl : Str), (∀ c ∈ w, Plain c) → tl ≠ [] →
    scan (fuel + w.length) st cur (w ++ tl) = scan fuel st (cur ++ w) tl
  | [], fuel, st, cur, tl, _, _ => by simp
  | c :: cs, fuel, st, cur, tl, h, htl => by
      have := scan_plain_step (fuel + cs.length) st cur c (cs ++ tl) (h c (by simp)) (by simp [htl])
      simp only [List.length_cons, List.cons_append]
      rw [show fuel + (cs.length + 1) = fuel + cs.length + 1 by omega, this,
        scan_plain_run cs fuel st (cur ++ [c]) tl (fun d hd => h d (by simp [hd])) htl]
      simp

theorem scan_last (fuel : Nat) (st : ScanState) (cur : Str) (c : Char) (h : Plain c) :
    scan (fuel + 1) st cur [c] = processDefinition st (cur ++ [c]) := by
  rw [scan]
  simp only [scanJump_plain c [] h, bind, Except.bind, List.take_zero, List.append_nil, List.drop_zero,
    List.length_singleton, beq_self_eq_true, if_true]
  cases processDefinition st (cur ++ [c]) <;> rfl

theorem ident_not_blank (c : Char) (h : isIdentChar c = true) : isBlank c = false := by
  have h1 : (c == '\t') = false := by simpa using ident_ne c '\t' h (by decide)
  have h2 : (c == '\r') = false := by simpa using ident_ne c '\r' h (by decide)
  have h3 : (c == Char.ofNat 12) = false := by simpa using ident_ne c (Char.ofNat 12) h (by decide)
  have h4 : (c == Char.ofNat 11) = false := by simpa using ident_ne c (Char.ofNat 11) h (by decide)
  have h5 : (c == ' ') = false := by simpa using ident_ne c ' ' h (by decide)
  simp [isBlank, h1, h2, h3, h4, h5]

theorem endingComments_simple (c : Char) (tl : Str) (h : isIdentChar c = true) :
    endingComments (' ' :: c :: tl) = .ok (0, 0) := by
  have hb : isBlank ' ' = true := by decide
  have h1 : ('/' == c) = false := by simpa using fun e : '/' = c => ident_ne c '/' h (by decide) e.symm
  have h2 : ('-' == c) = false := by simpa using fun e : '-' = c => ident_ne c '-' h (by decide) e.symm
  simp [endingComments, List.takeWhile, hb, ident_not_blank c h, endingCommentsGo, slashStar, dashDash, List.isPrefixOf, h1, h2]

theorem scan_comma (fuel : Nat) (st : ScanState) (cur : Str) (c : Char) (tl : Str) (h : isIdentChar c = true) :
    scan (fuel + 1) st cur (',' :: ' ' :: c :: tl) =
      (processDefinition st cur).bind fun st' => scan fuel st' [] (' ' :: c :: tl) := by
  rw [scan]
  have hj : scanJump (',' :: ' ' :: c :: tl) = .ok 0 := by simp [scanJump]
  simp only [hj, bind, Except.bind, List.take_zero, List.append_nil, List.drop_zero, List.length_cons,
    beq_self_eq_true, if_true, List.drop_one, List.tail_cons, endingComments_simple c tl h, Nat.add_zero]
  have : ((tl.length + 1 + 1 + 1 == 1) = false) := by simp
  simp only [this, Bool.false_eq_true, if_false]
  cases st
  rfl

theorem renderCol_head (d : ColDef) (h : Simple d = true) :
    ∃ c tl, renderCol d = c :: tl ∧ isIdentChar c = true ∧ ∀ x ∈ renderCol d, Plain x := by
  obtain ⟨name, type⟩ := d
  simp only [Simple, Bool.and_eq_true, isIdent, Bool.not_eq_true', List.all_eq_true] at h
  obtain ⟨⟨⟨hne, hid⟩, _⟩, hty⟩ := h
  cases name with
  | nil => simp at hne
  | cons c cs =>
      cases type with
      | none => exact ⟨c, cs, rfl, hid c (by simp), fun x hx => Or.inl (hid x hx)⟩
      | some t =>
          simp only [Bool.and_eq_true, Bool.not_eq_true', List.all_eq_true] at hty
          refine ⟨c, cs ++ ' ' :: t, rfl, hid c (by simp), ?_⟩
          intro x hx
          simp only [renderCol, List.mem_append] at hx
          rcases hx with hx | hx
          · exact Or.inl (hid x hx)
          · simp only [List.mem_cons] at hx
            rcases hx with rfl | hx
            · exact Or.inr rfl
            · exact Or.inl (hty.1.2 x hx)

theorem processDefinition_simple (st : ScanState) (pre : Str) (hpre : pre = [] ∨ pre = [' ']) (d : ColDef)
    (h : Simple d = true) (htc : st.tcFound = false) :
    ∃ col, processDefinition st (pre ++ renderCol d) =
        .ok { st with defIdx := st.defIdx + 1, comments := 0, cols := col :: st.cols } ∧
      col.name = d.name ∧ col.affinity = d.affinity := by
  obtain ⟨col, hcol, hn, ha⟩ := parseColumn_simple d h
  obtain ⟨c, tl, hr, hc, hplain⟩ := renderCol_head d h
  refine ⟨col, ?_, hn, ha⟩
  have hl : lstrip (pre ++ renderCol d) = renderCol d := by
    have hs : isSpace ' ' = true := by decide
    rcases hpre with rfl | rfl
    · rw [List.nil_append, hr]; exact lstrip_of_head c tl (ident_not_space c hc)
    · rw [hr]; simp [lstrip, List.dropWhile, hs, ident_not_space c hc]
  have hsc : startsWithComment (renderCol d) = false := by
    have h1 : ('/' == c) = false := by simpa using fun e : '/' = c => ident_ne c '/' hc (by decide) e.symm
    have h2 : ('-' == c) = false := by simpa using fun e : '-' = c => ident_ne c '-' hc (by decide) e.symm
    rw [hr]; simp [startsWithComment, dashDash, slashStar, List.isPrefixOf, h1, h2]
  have hsk : ∀ n, skipComments ((pre ++ renderCol d).length + 1) (renderCol d) n = .ok (renderCol d, n) := by
    intro n; simp [skipComments, hsc]
  have htk : isPreface TABLE_PREFACES (renderCol d) = .ok false := by
    apply isPreface_false _ (fun x hx => by
      rcases hplain x hx with hx | rfl
      · exact ident_ascii x hx
      · decide)
    rw [← tableKeywords_eq]
    obtain ⟨name, type⟩ := d
    simp only [Simple, Bool.and_eq_true, Bool.not_eq_true'] at h
    exact h.1.2
  simp only [processDefinition, hl, hsk, bind, Except.bind, htk, Bool.false_eq_true, if_false, htc, hcol]

theorem renderBody_head : ∀ (ds : List ColDef), ds ≠ [] → (∀ d ∈ ds, Simple d = true) →
    ∃ c tl, renderBody ds = c :: tl ∧ isIdentChar c = true
  | [], h, _ => absurd rfl h
  | [d], _, hs => by
      obtain ⟨c, tl, hr, hc, _⟩ := renderCol_head d (hs d (by simp))
      exact ⟨c, tl, by simp [renderBody, hr], hc⟩
  | d :: d' :: rest, _, hs => by
      obtain ⟨c, tl, hr, hc, _⟩ := renderCol_head d (hs d (by simp))
      exact ⟨c, tl ++ ',' :: ' ' :: renderBody (d' :: rest), by simp [renderBody, hr], hc⟩

theorem plain_pre (pre : Str) (hpre : pre = [] ∨ pre = [' ']) (d : ColDef) (h : Simple d = true) :
    ∀ x ∈ pre ++ renderCol d, Plain x := by
  obtain ⟨_, _, _, _, hp⟩ := renderCol_head d h
  intro x hx
  simp only [List.mem_append] at hx
  rcases hx with hx | hx
  · rcases hpre with rfl | rfl
    · simp at hx
    · simp at hx; exact Or.inr hx
  · exact hp x hx

theorem scan_body : ∀ (ds : List ColDef), ds ≠ [] → (∀ d ∈ ds, Simple d = true) →
    ∀ (pre : Str), (pre = [] ∨ pre = [' ']) → ∀ (st : ScanState), st.tcFound = false →
    ∀ fuel, (pre ++ renderBody ds).length < fuel →
    ∃ st', scan fuel st [] (pre ++ renderBody ds) = .ok st' ∧ st'.tcFound = false ∧ st'.ntc = st.ntc ∧
      st'.cols.map (·.name) = (ds.map (·.name)).reverse ++ st.cols.map (·.name) ∧
      st'.cols.map (·.affinity) = (ds.map (·.affinity)).reverse ++ st.cols.map (·.affinity)
  | [], h, _, _, _, _, _, _, _ => absurd rfl h
  | [d], _, hs, pre, hpre, st, htc, fuel, hf => by
      have hd := hs d (by simp)
      obtain ⟨col, hcol, hn, ha⟩ := processDefinition_simple st pre hpre d hd htc
      obtain ⟨c, tl, hr, _, _⟩ := renderCol_head d hd
      have hwne : pre ++ renderCol d ≠ [] := by rw [hr]; simp
      have hplain := plain_pre pre hpre d hd
      obtain ⟨w0, l, hw⟩ : ∃ w0 l, pre ++ renderCol d = w0 ++ [l] :=
        ⟨_, _, (List.dropLast_concat_getLast hwne).symm⟩
      simp only [renderBody] at hf ⊢
      rw [hw] at hf hcol hplain ⊢
      simp only [List.length_append, List.length_singleton] at hf
      obtain ⟨f, rfl⟩ : ∃ f, fuel = f + 1 + w0.length := ⟨fuel - 1 - w0.length, by omega⟩
      refine ⟨{ st with defIdx := st.defIdx + 1, comments := 0, cols := col :: st.cols }, ?_, htc, rfl, ?_, ?_⟩
      · rw [scan_plain_run w0 (f + 1) st [] [l] (fun x hx => hplain x (by simp [hx])) (by simp),
          scan_last f st _ l (hplain l (by simp)), List.nil_append, hcol]
      · simp [hn]
      · simp [ha]
  | d :: d' :: rest, _, hs, pre, hpre, st, htc, fuel, hf => by
      have hd := hs d (by simp)
      have hs' : ∀ x ∈ d' :: rest, Simple x = true := fun x hx => hs x (by simp [hx])
      obtain ⟨col, hcol, hn, ha⟩ := processDefinition_simple st pre hpre d hd htc
      obtain ⟨c', tl', hb', hc'⟩ := renderBody_head (d' :: rest) (by simp) hs'
      have hplain := plain_pre pre hpre d hd
      have hbody : pre ++ renderBody (d :: d' :: rest) = (pre ++ renderCol d) ++ ',' :: ' ' :: c' :: tl' := by
        simp [renderBody, hb']
      rw [hbody] at hf ⊢
      simp only [List.length_append, List.length_cons] at hf
      obtain ⟨f, rfl⟩ : ∃ f, fuel = f + 1 + (pre ++ renderCol d).length := ⟨fuel - 1 - (pre ++ renderCol d).length, by simp; omega⟩
      have ih := scan_body (d' :: rest) (by simp) hs' [' '] (Or.inr rfl)
        { st with defIdx := st.defIdx + 1, comments := 0, cols := col :: st.cols } htc f
        (by simp [hb']; simp at hf; omega)
      obtain ⟨st', hst', h1, h2, h3, h4⟩ := ih
      refine ⟨st', ?_, h1, h2, ?_, ?_⟩
      · rw [scan_plain_run _ (f + 1) st [] _ hplain (by simp), scan_comma f st _ c' tl' hc', List.nil_append, hcol]
        simp only [Except.bind]
        rw [← hb']; exact hst'
      · rw [h3]; simp [hn]
      · rw [h4]; simp [ha]

theorem split_render (ds : List ColDef) (hne : ds ≠ []) (h : ∀ d ∈ ds, Simple d = true) :
    ∃ st, scan ((renderBody ds).length + 1) {} [] (renderBody ds) = .ok st ∧ st.ntc = 0 ∧
      st.cols.reverse.map (·.name) = ds.map (·.name) ∧
      st.cols.reverse.map (·.affinity) = ds.map (·.affinity) := by
  obtain ⟨st, h1, _, h3, h4, h5⟩ := scan_body ds hne h [] (Or.inl rfl) {} rfl ((renderBody ds).length + 1) (by simp)
  refine ⟨st, by simpa using h1, h3, ?_, ?_⟩
  · rw [List.map_reverse, h4]; simp
  · rw [List.map_reverse, h5]; simp

end SqliteDissect.Proofs.Schema
