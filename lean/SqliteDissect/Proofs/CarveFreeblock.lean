/-
Helper lemmas and proofs for Properties/C09Freeblock.lean: recall through the freeblock / partial
pattern.  A table-leaf cell written by the specification writers (`Spec.writeTableLeafCell` over
`Spec.encodeRecord`) whose first four bytes were replaced by a freeblock header is carved by
`Model.Carve.carveFreeblocks` with its stored values.
-/
import SqliteDissect.Proofs.CarveRecall
import SqliteDissect.Proofs.CarveCompletes
import SqliteDissect.Spec.CellWrite

namespace SqliteDissect.Proofs.CarveFreeblock
open SqliteDissect SqliteDissect.Model SqliteDissect.Model.Carve
open SqliteDissect.Proofs.Codec SqliteDissect.Proofs.Record SqliteDissect.Proofs.CarveRecall

/-! ### the record constructor on a record whose first serial type is not part of the match -/

/-- the region holds, from offset `s`, the serial types of the columns after the first (ending at
`e`), immediately followed by the contents of all columns, the first included -/
def TailIntactAt (data : Buf) (s e : Nat) (c0 : Spec.Col) (rest : List Spec.Col) : Prop :=
  ∃ (p q : List Nat), data.toList = p ++ Spec.typeBytes rest ++ (c0 :: rest).flatMap (·.content) ++ q ∧
    p.length = s ∧ e = s + (Spec.typeBytes rest).length

/-- the expected columns with the first one flagged `truncated_first_serial_type` (or not) -/
def markFirst (tf : Bool) : List CCol → List CCol
  | [] => []
  | c :: r => { c with truncatedFirst := tf } :: r

theorem markFirst_false_expected (e : Nat) (cols : List Spec.Col) :
    markFirst false (expectedCCols 0 e cols) = expectedCCols 0 e cols := by
  cases cols with
  | nil => rfl
  | cons c r => rfl

/-- the carved column for a stored column `c` decoded at body offset `off` through the pre-column `pc` -/
def decodedCol (idx : Nat) (pc : PreCol) (c : Spec.Col) (off : Nat) : CCol :=
  { index := idx, serialType := c.st, varintLen := pc.varintLen, contentSize := c.content.length,
    value := .dec ((Spec.serialGet c.st c.content).getD .null), truncatedValue := false,
    truncatedFirst := pc.truncatedFirst, probabilisticFirst := pc.probabilisticFirst, bodyOffset := off }

/-- one step of the value loop over a column whose bytes are present -/
theorem decodeCols_cons_ok (data : Buf) (pc : PreCol) (c : Spec.Col) (more : List PreCol)
    (bp tail : List Nat) (idx : Nat) (hv : Spec.ValidCol c)
    (hst : pc.serialType = c.st) (hcs : pc.contentSize = c.content.length)
    (htot : data.toList = bp ++ c.content ++ tail) (out : List CCol)
    (hnext : decodeCols data more (idx + 1) (bp.length + c.content.length) = .ok out) :
    decodeCols data (pc :: more) idx bp.length =
      .ok (decodedCol idx pc c bp.length :: out) := by
  obtain ⟨h0, h63, hstl, hbytes⟩ := hv
  have hsize : data.size = bp.length + c.content.length + tail.length := by
    rw [← toList_length, htot]; simp only [List.length_append]
  have hfit : ¬ (bp.length + c.content.length > data.size) := by omega
  have hsl : (data.slice bp.length (bp.length + c.content.length)).toList = c.content := by
    rw [slice_toList' data _ _ (by omega) (by omega), htot, List.append_assoc,
      List.drop_left, Nat.add_sub_cancel_left, List.take_left]
  have hslwf : (data.slice bp.length (bp.length + c.content.length)).WF := by
    apply WF_of_toList; rw [hsl]; exact hbytes
  have hslsz : (data.slice bp.length (bp.length + c.content.length)).size = c.content.length := by
    rw [← toList_length, hsl]
  obtain ⟨v, hval⟩ := spec_serialGet_defined c.st c.content.length c.content hstl rfl
  have hcont : getRecordContent c.st (data.slice bp.length (bp.length + c.content.length)) 0
      = .ok (c.content.length, v) := by
    rw [record_content_eq_spec c.st _ hslwf 0 c.content.length hstl (by omega), List.drop_zero, hsl,
      List.take_of_length_le (Nat.le_refl _), hval]
  rw [decodeCols]
  simp only [hst, hcs, hfit, if_false, hcont, liftPy, bind, Except.bind, ne_eq, not_true_eq_false,
    pure, Except.pure, hnext, hval, Option.getD_some, decodedCol]

theorem toU64_small (st : Int) (h0 : 0 ≤ st) (h : st < 128) : Spec.toU64 st = st.toNat := by
  unfold Spec.toU64
  congr 1
  apply Int.emod_eq_of_lt h0
  have : ((2 ^ 64 : Nat) : Int) = 18446744073709551616 := by decide
  omega

theorem varintLen_small (u : Nat) (h : u < 128) : Spec.varintLen u = 1 := by
  unfold Spec.varintLen
  rw [if_pos (by simp only [Nat.reducePow]; omega)]

/-- the first column the constructor settles on: the one reconstructed by the branch for the match
offset, or — when that branch leaves nothing — the fall-back's most probable serial type -/
def SettlesOn (i : RecIn) (sdSize sdcs : Nat) (pc : PreCol) : Prop :=
  reconstructFirst i sdSize sdcs = .ok (some pc) ∨
  (reconstructFirst i sdSize sdcs = .ok none ∧
    ∃ fc, i.firstCol = some fc ∧ fc.isEmpty = false ∧ probabilisticFirst i.sig fc = .ok pc)

/-- the first column as reported for a settled `pc` that has the stored serial type -/
def firstCCol (pc : PreCol) (e : Nat) (c0 : Spec.Col) : CCol :=
  { expectedCCol 0 e c0 with truncatedFirst := pc.truncatedFirst, probabilisticFirst := pc.probabilisticFirst }

/-- RECALL, record level, freeblock: when the constructor settles on a first column `pc` that has the
serial type and content size of the stored first column, it turns a partial-signature match over
the rest of the header into a carved record whose columns carry the stored serial types and values -/
theorem carvedRecord_settled (i : RecIn) (c0 : Spec.Col) (rest : List Spec.Col) (pc : PreCol)
    (hv : ∀ c ∈ c0 :: rest, Spec.ValidCol c) (h128 : c0.st < 128) (hn : rest.length + 1 = i.nCols)
    (hsize : i.data.size < 2 ^ 53) (hin : TailIntactAt i.data i.s i.e c0 rest)
    (hpst : pc.serialType = c0.st) (hpvl : pc.varintLen = 1) (hpsz : pc.contentSize = c0.content.length)
    (hset : SettlesOn i (i.e - i.s) (rest.flatMap (·.content)).length pc) :
    ∃ r, carvedRecord i = .ok r ∧
      r.cols = firstCCol pc i.e c0 :: expectedCCols 1 (i.e + c0.content.length) rest ∧
      r.truncatedBeginning = pc.truncatedFirst ∧ r.truncatedEnding = false := by
  obtain ⟨p, q, htot, hp, he⟩ := hin
  have hv0 := hv c0 (List.mem_cons_self ..)
  have hvr : ∀ c ∈ rest, Spec.ValidCol c := fun c hc => hv c (List.mem_cons_of_mem _ hc)
  rw [List.flatMap_cons] at htot
  have hdsz : i.data.size = p.length + (Spec.typeBytes rest).length + (c0.content.length +
      (rest.flatMap (·.content)).length) + q.length := by
    rw [← toList_length, htot]; simp only [List.length_append]
  have hes : i.e - i.s = (Spec.typeBytes rest).length := by omega
  have hsl : (i.data.slice i.s i.e).toList = Spec.typeBytes rest := by
    rw [slice_toList' _ _ _ (by omega) (by omega), hes, htot, List.append_assoc, List.append_assoc, ← hp,
      List.drop_left, List.take_left]
  have hsts : ∀ st ∈ rest.map (·.st), 0 ≤ st ∧ st < (2 ^ 63 : Int) ∧ st ≠ 10 ∧ st ≠ 11 := by
    intro st hst
    obtain ⟨c, hc, rfl⟩ := List.mem_map.1 hst
    obtain ⟨h0, h63, hl, _⟩ := hvr c hc
    refine ⟨h0, h63, ?_, ?_⟩
    · intro h; rw [h, show Spec.serialTypeLen 10 = none by decide] at hl; cases hl
    · intro h; rw [h, show Spec.serialTypeLen 11 = none by decide] at hl; cases hl
  have hcalc : calcBodyContentSize (i.data.slice i.s i.e) = .ok (rest.flatMap (·.content)).length := by
    rw [calcBody_ext _ _ hsl]
    have := body_size_sum (rest.map (·.st)) hsts
    rw [List.flatMap_map, sum_content rest hvr] at this
    exact this
  have hsm : ∀ c ∈ rest, c.content.length < 2 ^ 53 := fun c hc => by
    have := content_le rest c hc; omega
  have hwalk := headerWalk_spec i.data i.e i.nCols (c0.content ++ rest.flatMap (·.content) ++ q) rest p
    (i.e - i.s) 1 hvr hsm (by rw [htot]; simp only [List.append_assoc]) (by omega) (by omega) (by omega)
  rw [hp] at hwalk
  have hdcr := decodeCols_spec i.data q rest (p ++ Spec.typeBytes rest ++ c0.content) 1 hvr
    (by rw [htot]; simp only [List.append_assoc])
  have hdc := decodeCols_cons_ok i.data pc c0
    (rest.map preOf) (p ++ Spec.typeBytes rest) (rest.flatMap (·.content) ++ q) 0 hv0 hpst hpsz
    (by rw [htot]; simp only [List.append_assoc]) _
    (by simp only [List.length_append] at hdcr ⊢; exact hdcr)
  rw [List.length_append, hp, ← he] at hdc
  have henc1 := encode_eq_spec ((i.e - i.s + 1 + 1 : Nat) : Int) (by omega) (by omega)
  have henc2 := encode_eq_spec ((i.e - i.s + 1 + 1 + (c0.content.length + (rest.flatMap (·.content)).length) : Nat) : Int)
    (by omega) (by omega)
  have hnotfl : ¬ ((rest.flatMap (·.content)).length ≥ floatExact) := by
    simp only [floatExact]; omega
  have hnotfl2 : ¬ (c0.content.length + (rest.flatMap (·.content)).length ≥ floatExact) := by
    simp only [floatExact]; omega
  have hlen : (rest.map preOf).length + 1 = i.nCols := by rw [List.length_map, hn]
  have hn0 : ¬ (i.nCols = 0) := by omega
  have hvl : Spec.varintLen (Spec.toU64 c0.st) = 1 := by
    rw [toU64_small c0.st hv0.1 h128]; apply varintLen_small; omega
  have hss : ((rest.map preOf).map (·.contentSize)).sum = (rest.flatMap (·.content)).length := by
    have := sumSizes_pre rest; unfold sumSizes at this; exact this
  have hcols : decodedCol 0 pc c0 i.e = firstCCol pc i.e c0 := by
    simp only [decodedCol, firstCCol, expectedCCol, hvl, hpvl]
  rw [hcols] at hdc
  unfold carvedRecord
  rcases hset with hrec | ⟨hrec, fc, hfc, hfne, hprob⟩
  · simp only [hcalc, liftPy, bind, Except.bind, hnotfl, if_false, pure, Except.pure, hrec,
      Option.isSome_some, true_and, hn0, Option.toList_some, List.singleton_append, List.length_cons,
      List.length_nil, Nat.zero_add, hwalk, hlen, ne_eq, not_true_eq_false, sumSizes, List.map_cons,
      List.sum_cons, hss, hpsz, hnotfl2, hdc, henc1, henc2]
    refine ⟨_, rfl, rfl, ?_, ?_⟩
    · simp only [Option.any_some]
    · simp only [decide_eq_false_iff_not]
      omega
  · simp only [hcalc, liftPy, bind, Except.bind, hnotfl, if_false, pure, Except.pure, hrec,
      Option.isSome_none, Bool.false_eq_true, false_and, hfc, hfne, hprob, Option.toList_some,
      List.singleton_append, List.length_cons,
      List.length_nil, Nat.zero_add, hwalk, hlen, ne_eq, not_true_eq_false, sumSizes, List.map_cons,
      List.sum_cons, hss, hpsz, hnotfl2, hdc, henc1, henc2]
    refine ⟨_, rfl, rfl, ?_, ?_⟩
    · simp only [Option.any_some]
    · simp only [decide_eq_false_iff_not]
      omega

/-- the case in which the branch for the match offset reconstructs the stored serial type -/
theorem carvedRecord_first (i : RecIn) (c0 : Spec.Col) (rest : List Spec.Col) (tf : Bool)
    (hv : ∀ c ∈ c0 :: rest, Spec.ValidCol c) (h128 : c0.st < 128) (hn : rest.length + 1 = i.nCols)
    (hsize : i.data.size < 2 ^ 53) (hin : TailIntactAt i.data i.s i.e c0 rest)
    (hrec : reconstructFirst i (i.e - i.s) (rest.flatMap (·.content)).length =
      .ok (some { serialType := c0.st, varintLen := 1, contentSize := c0.content.length, truncatedFirst := tf })) :
    ∃ r, carvedRecord i = .ok r ∧ r.cols = markFirst tf (expectedCCols 0 i.e (c0 :: rest)) ∧
      r.truncatedBeginning = tf ∧ r.truncatedEnding = false := by
  obtain ⟨r, h1, h2, h3, h4⟩ := carvedRecord_settled i c0 rest _ hv h128 hn hsize hin rfl rfl rfl (Or.inl hrec)
  refine ⟨r, h1, ?_, h3, h4⟩
  rw [h2]
  simp only [expectedCCols, markFirst, firstCCol, Nat.zero_add]
  rfl

/-! ### the three `serial_type_definition_start_offset` branches on a freeblock -/

theorem reconstruct_offset0 (i : RecIn) (fc : List Int) (fb : Nat) (hs : i.s = 0) (hloc : i.loc = .freeblock)
    (hfb : i.fbSize = some fb) (hfc : i.firstCol = some fc) (a b : Nat) :
    reconstructFirst i a b = fromFreeblockSize fc fb a b := by
  unfold reconstructFirst
  rw [if_pos hs, hloc, hfb, hfc]

theorem reconstruct_offset1 (i : RecIn) (fc : List Int) (hs : i.s = 1) (hloc : i.loc = .freeblock)
    (hfc : i.firstCol = some fc) (a b : Nat) :
    reconstructFirst i a b = fromPrecedingByte fc i.data 0 := by
  unfold reconstructFirst
  rw [if_neg (by omega), if_pos hs, hloc, hfc]

/-- offset ≥ 2: the two bytes in front of the match are not a freeblock size that fits, and the first
column lists neither blobs nor texts -/
theorem reconstruct_offset2 (i : RecIn) (fc : List Int) (hs : 2 ≤ i.s) (hloc : i.loc = .freeblock)
    (hfc : i.firstCol = some fc) (a b : Nat)
    (hbig : 1 + a + 1 + b + 127 < i.data.beN (i.s - 2) 2)
    (hno : (-1 : Int) ∉ fc ∧ (-2 : Int) ∉ fc) :
    reconstructFirst i a b = fromPrecedingByte fc i.data (i.s - 1) := by
  unfold reconstructFirst
  rw [if_neg (by omega), if_neg (by omega), hloc, hfc]
  have hv0 : decide (i.data.beN (i.s - 2) 2 ≥ 1 + a + 1 + b ∧ i.data.beN (i.s - 2) 2 ≤ 1 + a + 1 + b + 127) = false := by
    rw [decide_eq_false_iff_not]; omega
  simp only [hv0, Bool.false_eq_true, false_and, if_false]
  rw [if_neg (by intro h; rcases h with h | h; exact hno.1 h; exact hno.2 h)]

/-- a surviving one-byte first serial type in front of the match is read and accepted when the
first column lists its class -/
theorem fromPrecedingByte_ok (fc : List Int) (data : Buf) (p q : List Nat) (st : Int) (sz : Nat)
    (h0 : 0 ≤ st) (h128 : st < 128) (htot : data.toList = p ++ Spec.putVarint (Spec.toU64 st) ++ q)
    (hmem : serialTypeSignature st ∈ fc) (hsz : getContentSize st = .ok sz) (hsmall : sz < 2 ^ 53) :
    fromPrecedingByte fc data p.length = .ok (some { serialType := st, varintLen := 1, contentSize := sz }) := by
  have hdec : decodeVarint data p.length = .ok (st, 1) := by
    rw [decodeVarint_at data p q (Spec.toU64 st) (toU64_lt _) htot, toI64_toU64 st (by omega) (by omega),
      toU64_small st h0 h128, varintLen_small _ (by omega)]
  have hput : Spec.putVarint (Spec.toU64 st) = [st.toNat] := by
    rw [toU64_small st h0 h128]; exact Proofs.Regex.put_small _ (by omega)
  rw [hput] at htot
  obtain ⟨hlt, hrd⟩ := rd_of_toList data _ htot p.length (by simp)
  have hrd' : data.rd p.length = st.toNat := by
    rw [hrd]; simp
  have hguard : precedingByteGuard data p.length = .ok () := by
    unfold precedingByteGuard
    rw [if_pos hlt, hrd', Proofs.CarveCompletes.hibit_clear _ (by omega)]
    rfl
  unfold fromPrecedingByte
  simp only [hguard, hdec, liftPy, bind, Except.bind, ne_eq, not_true_eq_false, if_false, hmem, if_true,
    contentSize_of st sz hsz hsmall, pure, Except.pure]

/-! ### the freed cell -/

/-- the freeblock `fb` is exactly the freed table-leaf cell of the row (`rowid`, `c0 :: rest`) as the
specification writers lay it out (record local to the page): its content is the cell without its
first four bytes (which hold the freeblock header now), its size the size of the cell.  At least two
columns, every serial type a one-byte varint, the header size a one-byte varint. -/
structure FreedCell (fb : FbIn) (u : Nat) (rowid : Int) (c0 : Spec.Col) (rest : List Spec.Col) : Prop where
  valid : ∀ c ∈ c0 :: rest, Spec.ValidCol c
  two : rest ≠ []
  oneByte : ∀ c ∈ c0 :: rest, c.st < 128
  hdrOne : rest.length + 2 < 128
  usable : u ≤ 65536
  local_ : (Spec.encodeRecord (c0 :: rest)).length ≤ Spec.maxLeaf u
  content : fb.content.toList = (Spec.writeTableLeafCell u rowid (Spec.encodeRecord (c0 :: rest)) 0).drop 4
  byteSize : fb.byteSize = (Spec.writeTableLeafCell u rowid (Spec.encodeRecord (c0 :: rest)) 0).length

/-- where the serial types after the first start in the freeblock content: payload-size varint,
rowid varint, one header-size byte and the first serial type byte precede them in the cell, four
bytes of which are not part of the content -/
def matchStart (rowid : Int) (cols : List Spec.Col) : Nat :=
  Spec.varintLen (Spec.encodeRecord cols).length + Spec.varintLen (Spec.toU64 rowid) - 2

theorem typeBytes_small : ∀ (cols : List Spec.Col), (∀ c ∈ cols, 0 ≤ c.st ∧ c.st < 128) →
    Spec.typeBytes cols = cols.map (fun c => c.st.toNat) := by
  intro cols
  induction cols with
  | nil => intro _; rfl
  | cons c r ih =>
    intro h
    obtain ⟨h0, h1⟩ := h c (List.mem_cons_self ..)
    rw [typeBytes_cons, ih (fun x hx => h x (List.mem_cons_of_mem _ hx)), toU64_small c.st h0 h1,
      Proofs.Regex.put_small _ (by omega)]
    rfl

theorem small_of (c0 : Spec.Col) (rest : List Spec.Col) (hv : ∀ c ∈ c0 :: rest, Spec.ValidCol c)
    (h1 : ∀ c ∈ c0 :: rest, c.st < 128) : ∀ c ∈ c0 :: rest, 0 ≤ c.st ∧ c.st < 128 :=
  fun c hc => ⟨(hv c hc).1, h1 c hc⟩

/-- the bytes of the cell -/
theorem cell_layout (u : Nat) (rowid : Int) (c0 : Spec.Col) (rest : List Spec.Col)
    (hs : ∀ c ∈ c0 :: rest, 0 ≤ c.st ∧ c.st < 128) (hh : rest.length + 2 < 128)
    (hl : (Spec.encodeRecord (c0 :: rest)).length ≤ Spec.maxLeaf u) :
    Spec.writeTableLeafCell u rowid (Spec.encodeRecord (c0 :: rest)) 0 =
      (Spec.putVarint (Spec.encodeRecord (c0 :: rest)).length ++ Spec.putVarint (Spec.toU64 rowid) ++
        [rest.length + 2] ++ [c0.st.toNat]) ++ Spec.typeBytes rest ++ (c0 :: rest).flatMap (·.content) := by
  have htb : Spec.typeBytes (c0 :: rest) = [c0.st.toNat] ++ Spec.typeBytes rest := by
    rw [typeBytes_cons, toU64_small c0.st (hs c0 (List.mem_cons_self ..)).1 (hs c0 (List.mem_cons_self ..)).2,
      Proofs.Regex.put_small _ (by have := (hs c0 (List.mem_cons_self ..)); omega)]
  have hlen : (Spec.typeBytes (c0 :: rest)).length = rest.length + 1 := by
    rw [typeBytes_small _ hs]; simp
  have henc : Spec.encodeRecord (c0 :: rest) =
      [rest.length + 2] ++ [c0.st.toNat] ++ Spec.typeBytes rest ++ (c0 :: rest).flatMap (·.content) := by
    unfold Spec.encodeRecord
    rw [hlen]
    unfold Spec.hdrSize
    rw [if_pos (by omega), Proofs.Regex.put_small _ (by omega), htb]
    simp only [List.append_assoc]
  unfold Spec.writeTableLeafCell
  simp only
  unfold Spec.localSize
  rw [if_pos hl, List.take_length, if_neg (Nat.lt_irrefl _), List.append_nil]
  rw [henc]
  simp only [List.append_assoc]

theorem cell_length (u : Nat) (rowid : Int) (c0 : Spec.Col) (rest : List Spec.Col)
    (hs : ∀ c ∈ c0 :: rest, 0 ≤ c.st ∧ c.st < 128) (hh : rest.length + 2 < 128)
    (hl : (Spec.encodeRecord (c0 :: rest)).length ≤ Spec.maxLeaf u) :
    (Spec.writeTableLeafCell u rowid (Spec.encodeRecord (c0 :: rest)) 0).length =
      Spec.varintLen (Spec.encodeRecord (c0 :: rest)).length + Spec.varintLen (Spec.toU64 rowid) + 2 +
        rest.length + (c0.content.length + (rest.flatMap (·.content)).length) := by
  rw [cell_layout u rowid c0 rest hs hh hl]
  have : (Spec.typeBytes rest).length = rest.length := by
    rw [typeBytes_small _ (fun c hc => hs c (List.mem_cons_of_mem _ hc))]; simp
  simp only [List.length_append, spec_put_length, List.length_singleton, List.flatMap_cons, this]

theorem content_bound (rest : List Spec.Col) (hv : ∀ c ∈ rest, Spec.ValidCol c) (h1 : ∀ c ∈ rest, c.st < 128) :
    (rest.flatMap (·.content)).length ≤ 57 * rest.length := by
  induction rest with
  | nil => simp
  | cons c r ih =>
    have hc := hv c (List.mem_cons_self ..)
    have h128 := h1 c (List.mem_cons_self ..)
    have hlen : c.content.length ≤ 57 := by
      obtain ⟨h0, _, hl, _⟩ := hc
      rcases serialTypeLen_cases c.st with h | h | h | h | h | h | h | h | h | h | h | h | h | h <;>
        obtain ⟨ha, hb⟩ := h <;> rw [hb] at hl <;> simp only [Option.some.injEq, reduceCtorEq] at hl <;> omega
    have := ih (fun x hx => hv x (List.mem_cons_of_mem _ hx)) (fun x hx => h1 x (List.mem_cons_of_mem _ hx))
    simp only [List.flatMap_cons, List.length_append, List.length_cons]
    omega

theorem cell_length' (u : Nat) (rowid : Int) (payload : List Nat) (hl : payload.length ≤ Spec.maxLeaf u) :
    (Spec.writeTableLeafCell u rowid payload 0).length =
      Spec.varintLen payload.length + Spec.varintLen (Spec.toU64 rowid) + payload.length := by
  unfold Spec.writeTableLeafCell
  simp only
  unfold Spec.localSize
  rw [if_pos hl, List.take_length, if_neg (Nat.lt_irrefl _), List.append_nil]
  simp only [List.length_append, spec_put_length]

section Freed
variable {fb : FbIn} {u : Nat} {rowid : Int} {c0 : Spec.Col} {rest : List Spec.Col}

theorem FreedCell.small (h : FreedCell fb u rowid c0 rest) : ∀ c ∈ c0 :: rest, 0 ≤ c.st ∧ c.st < 128 :=
  small_of c0 rest h.valid h.oneByte

theorem FreedCell.typeBytes_length (h : FreedCell fb u rowid c0 rest) : (Spec.typeBytes rest).length = rest.length := by
  rw [typeBytes_small _ (fun c hc => h.small c (List.mem_cons_of_mem _ hc))]; simp

/-- the content of the freeblock, split in front of the serial types after the first -/
theorem FreedCell.content_eq (h : FreedCell fb u rowid c0 rest) :
    fb.content.toList =
      (Spec.putVarint (Spec.encodeRecord (c0 :: rest)).length ++ Spec.putVarint (Spec.toU64 rowid) ++
        [rest.length + 2] ++ [c0.st.toNat]).drop 4 ++ Spec.typeBytes rest ++ (c0 :: rest).flatMap (·.content) := by
  have h1 := varintLen_pos (Spec.encodeRecord (c0 :: rest)).length
  have h2 := varintLen_pos (Spec.toU64 rowid)
  have hle : 4 ≤ (Spec.putVarint (Spec.encodeRecord (c0 :: rest)).length ++ Spec.putVarint (Spec.toU64 rowid) ++
        [rest.length + 2] ++ [c0.st.toNat]).length := by
    simp only [List.length_append, spec_put_length, List.length_singleton]
    omega
  have key : ∀ (A B C : List Nat), 4 ≤ A.length → (A ++ B ++ C).drop 4 = A.drop 4 ++ B ++ C := by
    intro A B C hA
    rw [List.append_assoc, List.drop_append_of_le_length hA, List.append_assoc]
  rw [h.content, cell_layout u rowid c0 rest h.small h.hdrOne h.local_, key _ _ _ hle]

theorem FreedCell.front_length (_h : FreedCell fb u rowid c0 rest) :
    ((Spec.putVarint (Spec.encodeRecord (c0 :: rest)).length ++ Spec.putVarint (Spec.toU64 rowid) ++
        [rest.length + 2] ++ [c0.st.toNat]).drop 4).length = matchStart rowid (c0 :: rest) := by
  have h1 := varintLen_pos (Spec.encodeRecord (c0 :: rest)).length
  have h2 := varintLen_pos (Spec.toU64 rowid)
  simp only [List.length_drop, List.length_append, spec_put_length, List.length_singleton, matchStart]
  omega

/-- the rest of the header and all the contents are intact in the freeblock content -/
theorem FreedCell.tail (h : FreedCell fb u rowid c0 rest) :
    TailIntactAt fb.content (matchStart rowid (c0 :: rest)) (matchStart rowid (c0 :: rest) + rest.length) c0 rest :=
  ⟨_, [], by rw [List.append_nil]; exact h.content_eq, h.front_length, by rw [h.typeBytes_length]⟩

theorem FreedCell.size (h : FreedCell fb u rowid c0 rest) : fb.content.size < 2 ^ 53 := by
  have hlen := cell_length' u rowid (Spec.encodeRecord (c0 :: rest)) h.local_
  have h1 := varintLen_le (Spec.encodeRecord (c0 :: rest)).length
  have h2 := varintLen_le (Spec.toU64 rowid)
  have hl := h.local_
  have hu := h.usable
  unfold Spec.maxLeaf at hl
  rw [← toList_length, h.content, List.length_drop, hlen]
  omega

theorem FreedCell.wf (h : FreedCell fb u rowid c0 rest) : fb.content.WF := by
  apply WF_of_toList
  intro x hx
  rw [h.content] at hx
  have hx := List.mem_of_mem_drop hx
  rw [cell_layout u rowid c0 rest h.small h.hdrOne h.local_] at hx
  simp only [List.mem_append, List.mem_singleton, List.mem_flatMap] at hx
  have hs0 := h.small c0 (List.mem_cons_self ..)
  rcases hx with ((((hx | hx) | hx) | hx) | hx) | ⟨c, hc, hx⟩
  · exact spec_put_bytes' _ x hx
  · exact spec_put_bytes' _ x hx
  · have := h.hdrOne; omega
  · omega
  · have := typeBytes_small rest (fun c hc => h.small c (List.mem_cons_of_mem _ hc))
    rw [this] at hx
    obtain ⟨c, hc, rfl⟩ := List.mem_map.1 hx
    have := h.small c (List.mem_cons_of_mem _ hc)
    omega
  · exact (h.valid c hc).2.2.2 x hx

/-- match offset ≥ 1: the first serial type is the byte in front of the match -/
theorem FreedCell.prev1 (h : FreedCell fb u rowid c0 rest) (hs : 1 ≤ matchStart rowid (c0 :: rest)) :
    ∃ p q, fb.content.toList = p ++ Spec.putVarint (Spec.toU64 c0.st) ++ q ∧
      p.length = matchStart rowid (c0 :: rest) - 1 := by
  have hs0 := h.small c0 (List.mem_cons_self ..)
  have h1 := varintLen_pos (Spec.encodeRecord (c0 :: rest)).length
  have h2 := varintLen_pos (Spec.toU64 rowid)
  refine ⟨(Spec.putVarint (Spec.encodeRecord (c0 :: rest)).length ++ Spec.putVarint (Spec.toU64 rowid) ++
        [rest.length + 2]).drop 4, Spec.typeBytes rest ++ (c0 :: rest).flatMap (·.content), ?_, ?_⟩
  · have hle : 4 ≤ (Spec.putVarint (Spec.encodeRecord (c0 :: rest)).length ++ Spec.putVarint (Spec.toU64 rowid) ++
        [rest.length + 2]).length := by
      unfold matchStart at hs
      simp only [List.length_append, spec_put_length, List.length_singleton]
      omega
    rw [h.content_eq, toU64_small c0.st hs0.1 hs0.2, Proofs.Regex.put_small c0.st.toNat (by omega),
      List.drop_append_of_le_length hle]
    simp only [List.append_assoc]
  · unfold matchStart at hs ⊢
    simp only [List.length_drop, List.length_append, spec_put_length, List.length_singleton]
    omega

/-- match offset ≥ 2: the two bytes in front of the match are the header size and the first serial type -/
theorem FreedCell.prev2 (h : FreedCell fb u rowid c0 rest) (hs : 2 ≤ matchStart rowid (c0 :: rest)) :
    fb.content.beN (matchStart rowid (c0 :: rest) - 2) 2 = (rest.length + 2) * 256 + c0.st.toNat := by
  have h1 := varintLen_pos (Spec.encodeRecord (c0 :: rest)).length
  have h2 := varintLen_pos (Spec.toU64 rowid)
  have hsplit : fb.content.toList =
      (Spec.putVarint (Spec.encodeRecord (c0 :: rest)).length ++ Spec.putVarint (Spec.toU64 rowid)).drop 4 ++
        ([rest.length + 2, c0.st.toNat] ++ (Spec.typeBytes rest ++ (c0 :: rest).flatMap (·.content))) := by
    have hle : 4 ≤ (Spec.putVarint (Spec.encodeRecord (c0 :: rest)).length ++
        Spec.putVarint (Spec.toU64 rowid)).length := by
      unfold matchStart at hs
      simp only [List.length_append, spec_put_length]
      omega
    rw [h.content_eq, List.append_assoc (Spec.putVarint _ ++ Spec.putVarint _), List.drop_append_of_le_length hle]
    simp only [List.append_assoc, List.cons_append, List.nil_append]
  have hpl : ((Spec.putVarint (Spec.encodeRecord (c0 :: rest)).length ++
      Spec.putVarint (Spec.toU64 rowid)).drop 4).length = matchStart rowid (c0 :: rest) - 2 := by
    unfold matchStart at hs ⊢
    simp only [List.length_drop, List.length_append, spec_put_length]
    omega
  obtain ⟨_, hr0⟩ := rd_of_toList fb.content _ hsplit (matchStart rowid (c0 :: rest) - 2)
    (by simp only [List.length_append, hpl, List.length_cons]; omega)
  obtain ⟨_, hr1⟩ := rd_of_toList fb.content _ hsplit (matchStart rowid (c0 :: rest) - 2 + 1)
    (by simp only [List.length_append, hpl, List.length_cons]; omega)
  rw [List.getElem_append_right (by omega)] at hr0 hr1
  simp only [hpl, Nat.sub_self, Nat.add_sub_cancel_left, List.cons_append, List.getElem_cons_zero,
    List.getElem_cons_succ] at hr0 hr1
  simp only [Buf.beN, Nat.zero_mul, Nat.zero_add, Nat.add_zero, hr0, hr1]

theorem FreedCell.byteSize_eq (h : FreedCell fb u rowid c0 rest) :
    fb.byteSize = Spec.varintLen (Spec.encodeRecord (c0 :: rest)).length + Spec.varintLen (Spec.toU64 rowid) + 2 +
        rest.length + (c0.content.length + (rest.flatMap (·.content)).length) := by
  rw [h.byteSize, cell_length u rowid c0 rest h.small h.hdrOne h.local_]

end Freed

/-! ### recall, candidate level -/

/-- the freeblock size determines the lost first column: the first column of the signature lists
only fixed-width serial types, among them the stored one, and no other listed type has the stored
content size (the hypotheses of `first_column_from_size`) -/
def SizeDetermines (fc : List Int) (c0 : Spec.Col) : Prop :=
  (∀ t ∈ fc, 0 ≤ t ∧ t ≤ 9) ∧ c0.st ∈ fc ∧ fc.Nodup ∧
    ∀ t ∈ fc, t ≠ c0.st → getContentSize t ≠ .ok c0.content.length

/-- what the code needs to get the first column back, by match offset `s0`:
offset 0 (the serial type byte is overwritten) — the freeblock size determines it;
offset ≥ 1 (the byte survived) — the first column of the signature lists its class;
offset ≥ 2 — in addition the first column lists neither blobs nor texts (otherwise the surviving
byte is never read: the code only calls `decode_varint_in_reverse` and drops its result) -/
def FirstColumnRecoverable (fc : List Int) (c0 : Spec.Col) (s0 : Nat) : Prop :=
  (s0 = 0 → SizeDetermines fc c0) ∧ (1 ≤ s0 → serialTypeSignature c0.st ∈ fc) ∧
    (2 ≤ s0 → (-1 : Int) ∉ fc ∧ (-2 : Int) ∉ fc)

theorem getContentSize_valid (c : Spec.Col) (hv : Spec.ValidCol c) : getContentSize c.st = .ok c.content.length := by
  rw [content_size_eq_spec, hv.2.2.1]

/-- the constructor arguments `carve_freeblocks` passes for the match `[s, e)` in the content of `fb` -/
def fbCandidate (sig : CarveSig) (fc : List Int) (ps : Nat) (fb : FbIn) (s e co : Nat) : RecIn :=
  { loc := .freeblock, data := fb.content, s := s, e := e, cutoff := co, nCols := sig.numberOfColumns, sig := sig,
    firstCol := some fc, fbSize := some fb.byteSize, pageSize := ps }

section Freed
variable {fb : FbIn} {u : Nat} {rowid : Int} {c0 : Spec.Col} {rest : List Spec.Col}

/-- RECALL, candidate level: the constructor call the freeblock loop makes for the match over the
remaining header of a freed cell returns the stored columns -/
theorem candidate (h : FreedCell fb u rowid c0 rest) (sig : CarveSig) (fc : List Int) (ps co : Nat)
    (hn : rest.length + 1 = sig.numberOfColumns)
    (hfirst : FirstColumnRecoverable fc c0 (matchStart rowid (c0 :: rest))) :
    ∃ r, carvedRecord (fbCandidate sig fc ps fb (matchStart rowid (c0 :: rest))
        (matchStart rowid (c0 :: rest) + rest.length) co) = .ok r ∧
      r.cols = markFirst (decide (matchStart rowid (c0 :: rest) = 0))
        (expectedCCols 0 (matchStart rowid (c0 :: rest) + rest.length) (c0 :: rest)) ∧
      r.truncatedBeginning = decide (matchStart rowid (c0 :: rest) = 0) ∧ r.truncatedEnding = false := by
  have hv0 := h.valid c0 (List.mem_cons_self ..)
  have hs0 := h.small c0 (List.mem_cons_self ..)
  have hsz0 := getContentSize_valid c0 hv0
  have hsmall0 : c0.content.length < 2 ^ 53 := by
    have := h.tail
    obtain ⟨p, q, htot, _, _⟩ := this
    have hsz := h.size
    rw [← toList_length, htot] at hsz
    simp only [List.length_append, List.flatMap_cons] at hsz
    omega
  apply carvedRecord_first _ c0 rest _ h.valid hs0.2 hn h.size h.tail
  simp only [fbCandidate, Nat.add_sub_cancel_left]
  obtain ⟨hf0, hf1, hf2⟩ := hfirst
  by_cases hz : matchStart rowid (c0 :: rest) = 0
  · -- the freeblock's own size
    obtain ⟨hfc, hst, hnd, huniq⟩ := hf0 hz
    rw [reconstruct_offset0 _ fc fb.byteSize hz rfl rfl rfl,
      first_column_from_size fc c0.st fb.byteSize rest.length (rest.flatMap (·.content)).length
        c0.content.length hfc hst hnd hsz0 ?_ huniq]
    · simp only [hz, decide_true]
    · rw [h.byteSize_eq]
      unfold matchStart at hz
      have h1 := varintLen_pos (Spec.encodeRecord (c0 :: rest)).length
      have h2 := varintLen_pos (Spec.toU64 rowid)
      omega
  · have hge : 1 ≤ matchStart rowid (c0 :: rest) := by omega
    obtain ⟨p, q, htot, hp⟩ := h.prev1 hge
    have hfp := fromPrecedingByte_ok fc fb.content p q c0.st c0.content.length hs0.1 hs0.2 htot (hf1 hge) hsz0 hsmall0
    rw [hp] at hfp
    simp only [hz, decide_false]
    by_cases h1 : matchStart rowid (c0 :: rest) = 1
    · rw [reconstruct_offset1 _ fc h1 rfl rfl]
      rw [h1] at hfp
      exact hfp
    · have h2 : 2 ≤ matchStart rowid (c0 :: rest) := by omega
      rw [reconstruct_offset2 _ fc h2 rfl rfl _ _ ?_ (hf2 h2)]
      · exact hfp
      · show 1 + rest.length + 1 + (rest.flatMap (·.content)).length + 127 <
          fb.content.beN (matchStart rowid (c0 :: rest) - 2) 2
        rw [h.prev2 h2]
        have := content_bound rest (fun c hc => h.valid c (List.mem_cons_of_mem _ hc))
          (fun c hc => h.oneByte c (List.mem_cons_of_mem _ hc))
        omega

end Freed

/-! ### recall, region level -/

theorem go_ok (per : FbIn → Py (List CarvedCell)) : ∀ (fbs : List FbIn) (cells : List CarvedCell),
    carveFreeblocks.go per fbs = .ok cells → ∀ fb ∈ fbs, ∃ a, per fb = .ok a ∧ ∀ c ∈ a, c ∈ cells := by
  intro fbs
  induction fbs with
  | nil => intro _ _ fb hfb; cases hfb
  | cons f rest ih =>
    intro cells h fb hfb
    unfold carveFreeblocks.go at h
    simp only [bind, Except.bind] at h
    split at h
    · cases h
    · rename_i a ha
      split at h
      · cases h
      · rename_i b hb
        simp only [pure, Except.pure, Except.ok.injEq] at h
        subst h
        rcases List.mem_cons.1 hfb with rfl | hin
        · exact ⟨a, ha, fun c hc => List.mem_append_left _ hc⟩
        · obtain ⟨a', ha', hsub⟩ := ih b hb fb hin
          exact ⟨a', ha', fun c hc => List.mem_append_right _ (hsub c hc)⟩

/-- RECALL, region level: if the scan of the freeblock's content with the partial pattern reports
the rest of the header of the freed cell, and carving the freeblocks completes, the result contains
a cell at that match, at the file offset of the matched bytes, carrying the stored serial types and
values; its first column is flagged as reconstructed exactly when its serial type byte was lost -/
theorem recall_freeblock_record (sig : CarveSig) (fc : List Int) (simplified : List (List Int)) (pp : Regex.Pat)
    (hc : chosenSignature sig = .ok (fc, simplified)) (hpp : Regex.genSignature simplified true = .ok pp)
    (ps : Nat) (fbs : List FbIn) (fb : FbIn) (hfb : fb ∈ fbs)
    (u : Nat) (rowid : Int) (c0 : Spec.Col) (rest : List Spec.Col)
    (hcell : FreedCell fb u rowid c0 rest) (hn : rest.length + 1 = sig.numberOfColumns)
    (hfirst : FirstColumnRecoverable fc c0 (matchStart rowid (c0 :: rest)))
    (hm : (matchStart rowid (c0 :: rest), matchStart rowid (c0 :: rest) + rest.length) ∈
      Regex.finditer pp fb.content.toList)
    (cells : List CarvedCell) (h : carveFreeblocks sig ps fbs = .ok cells) :
    ∃ c ∈ cells, c.matchStart = matchStart rowid (c0 :: rest) ∧
      c.matchEnd = matchStart rowid (c0 :: rest) + rest.length ∧
      c.fileOffset = fb.pageOffset + fb.contentStart + matchStart rowid (c0 :: rest) ∧ c.loc = .freeblock ∧
      c.rec_.cols = markFirst (decide (matchStart rowid (c0 :: rest) = 0))
        (expectedCCols 0 (matchStart rowid (c0 :: rest) + rest.length) (c0 :: rest)) ∧
      c.rec_.truncatedEnding = false := by
  unfold carveFreeblocks at h
  simp only [hc, hpp, bind, Except.bind] at h
  obtain ⟨a, ha, hsub⟩ := go_ok _ fbs cells h fb hfb
  obtain ⟨co', hco⟩ := reverseLoop_mem _ _ _ _ ha _ _ (List.mem_reverse.2 hm)
  obtain ⟨r, hr, hcols, _, hte⟩ := candidate hcell sig fc ps co' hn hfirst
  have ht := tryCarve_ok (fb.pageOffset + fb.contentStart + matchStart rowid (c0 :: rest)) fb.pageNumber fb.index _ r hr
  unfold fbCandidate at ht
  rw [ht] at hco
  rcases hco with hco | ⟨c, hc1, hc2⟩
  · cases hco
  · simp only [Except.ok.injEq, Option.some.injEq] at hc1
    subst hc1
    exact ⟨_, hsub _ hc2, rfl, rfl, rfl, rfl, hcols, hte⟩

/-- the same without assuming that carving completes (it does, C08 `completes_freeblocks`) -/
theorem recall_freeblock_total (sig : CarveSig) (fc : List Int) (simplified : List (List Int)) (pf pp : Regex.Pat)
    (hc : chosenSignature sig = .ok (fc, simplified)) (hpf : Regex.genSignature simplified false = .ok pf)
    (hpp : Regex.genSignature simplified true = .ok pp) (hnc : sig.numberOfColumns = simplified.length)
    (ps : Nat) (fbs : List FbIn) (hwf : ∀ fb ∈ fbs, fb.content.WF) (hsize : ∀ fb ∈ fbs, fb.content.size < 2 ^ 53)
    (fb : FbIn) (hfb : fb ∈ fbs)
    (u : Nat) (rowid : Int) (c0 : Spec.Col) (rest : List Spec.Col)
    (hcell : FreedCell fb u rowid c0 rest) (hn : rest.length + 1 = sig.numberOfColumns)
    (hfirst : FirstColumnRecoverable fc c0 (matchStart rowid (c0 :: rest)))
    (hm : (matchStart rowid (c0 :: rest), matchStart rowid (c0 :: rest) + rest.length) ∈
      Regex.finditer pp fb.content.toList) :
    carveFreeblocks sig ps fbs = .error .outsideModel ∨
    ∃ cells, carveFreeblocks sig ps fbs = .ok cells ∧
      ∃ c ∈ cells, c.matchStart = matchStart rowid (c0 :: rest) ∧
        c.matchEnd = matchStart rowid (c0 :: rest) + rest.length ∧
        c.fileOffset = fb.pageOffset + fb.contentStart + matchStart rowid (c0 :: rest) ∧ c.loc = .freeblock ∧
        c.rec_.cols = markFirst (decide (matchStart rowid (c0 :: rest) = 0))
          (expectedCCols 0 (matchStart rowid (c0 :: rest) + rest.length) (c0 :: rest)) ∧
        c.rec_.truncatedEnding = false := by
  rcases Proofs.CarveCompletes.completes_freeblocks sig ⟨fc, simplified, pf, pp, hc, hpf, hpp, hnc⟩ ps fbs hwf hsize with
    ⟨cells, h⟩ | h
  · exact Or.inr ⟨cells, h, recall_freeblock_record sig fc simplified pp hc hpp ps fbs fb hfb u rowid c0 rest hcell hn
      hfirst hm cells h⟩
  · exact Or.inl h

/-! ### the columns after the first, when the first is not recovered -/

section Freed
variable {fb : FbIn} {u : Nat} {rowid : Int} {c0 : Spec.Col} {rest : List Spec.Col}

/-- candidate level: whatever first column `pc` the constructor settles on — reconstructed or
guessed — as long as it is a one-byte serial type with the content size of the stored first column,
the columns after the first carry the stored serial types and values (and the first is `pc`'s
reading of the stored bytes) -/
theorem candidate_rest (h : FreedCell fb u rowid c0 rest) (sig : CarveSig) (fc : List Int) (ps co : Nat)
    (hn : rest.length + 1 = sig.numberOfColumns) (pc : PreCol)
    (hset : SettlesOn (fbCandidate sig fc ps fb (matchStart rowid (c0 :: rest))
      (matchStart rowid (c0 :: rest) + rest.length) co) rest.length (rest.flatMap (·.content)).length pc)
    (h0 : 0 ≤ pc.serialType) (h128 : pc.serialType < 128) (hvl : pc.varintLen = 1)
    (hlen : Spec.serialTypeLen pc.serialType = some c0.content.length)
    (hsz : pc.contentSize = c0.content.length) :
    ∃ r, carvedRecord (fbCandidate sig fc ps fb (matchStart rowid (c0 :: rest))
        (matchStart rowid (c0 :: rest) + rest.length) co) = .ok r ∧
      r.cols.drop 1 = (expectedCCols 0 (matchStart rowid (c0 :: rest) + rest.length) (c0 :: rest)).drop 1 ∧
      r.cols.head? = some (firstCCol pc (matchStart rowid (c0 :: rest) + rest.length) ⟨pc.serialType, c0.content⟩) ∧
      r.truncatedEnding = false := by
  have hv' : ∀ c ∈ (⟨pc.serialType, c0.content⟩ : Spec.Col) :: rest, Spec.ValidCol c := by
    intro c hc
    rcases List.mem_cons.1 hc with rfl | hc
    · exact ⟨h0, Int.lt_trans h128 (by decide), hlen, (h.valid c0 (List.mem_cons_self ..)).2.2.2⟩
    · exact h.valid c (List.mem_cons_of_mem _ hc)
  have htail : TailIntactAt fb.content (matchStart rowid (c0 :: rest)) (matchStart rowid (c0 :: rest) + rest.length)
      ⟨pc.serialType, c0.content⟩ rest := by
    obtain ⟨p, q, h1, h2, h3⟩ := h.tail
    exact ⟨p, q, by rw [h1]; simp only [List.flatMap_cons], h2, h3⟩
  obtain ⟨r, hr, hcols, _, hte⟩ := carvedRecord_settled
    (fbCandidate sig fc ps fb (matchStart rowid (c0 :: rest)) (matchStart rowid (c0 :: rest) + rest.length) co)
    ⟨pc.serialType, c0.content⟩ rest pc hv' h128 hn h.size htail rfl hvl hsz
    (by simp only [fbCandidate, Nat.add_sub_cancel_left]; exact hset)
  refine ⟨r, hr, ?_, ?_, hte⟩
  · rw [hcols]; simp only [fbCandidate, expectedCCols, List.drop_succ_cons, List.drop_zero, Nat.zero_add]
  · rw [hcols]; rfl

end Freed

/-- region level: the columns after the first are reported with their stored values whenever the
first column the constructor settles on has the stored content size -/
theorem recall_freeblock_rest (sig : CarveSig) (fc : List Int) (simplified : List (List Int)) (pp : Regex.Pat)
    (hc : chosenSignature sig = .ok (fc, simplified)) (hpp : Regex.genSignature simplified true = .ok pp)
    (ps : Nat) (fbs : List FbIn) (fb : FbIn) (hfb : fb ∈ fbs)
    (u : Nat) (rowid : Int) (c0 : Spec.Col) (rest : List Spec.Col)
    (hcell : FreedCell fb u rowid c0 rest) (hn : rest.length + 1 = sig.numberOfColumns) (pc : PreCol)
    (hset : ∀ co, SettlesOn (fbCandidate sig fc ps fb (matchStart rowid (c0 :: rest))
      (matchStart rowid (c0 :: rest) + rest.length) co) rest.length (rest.flatMap (·.content)).length pc)
    (h0 : 0 ≤ pc.serialType) (h128 : pc.serialType < 128) (hvl : pc.varintLen = 1)
    (hlen : Spec.serialTypeLen pc.serialType = some c0.content.length)
    (hsz : pc.contentSize = c0.content.length)
    (hm : (matchStart rowid (c0 :: rest), matchStart rowid (c0 :: rest) + rest.length) ∈
      Regex.finditer pp fb.content.toList)
    (cells : List CarvedCell) (h : carveFreeblocks sig ps fbs = .ok cells) :
    ∃ c ∈ cells, c.matchStart = matchStart rowid (c0 :: rest) ∧
      c.matchEnd = matchStart rowid (c0 :: rest) + rest.length ∧
      c.rec_.cols.drop 1 = (expectedCCols 0 (matchStart rowid (c0 :: rest) + rest.length) (c0 :: rest)).drop 1 ∧
      c.rec_.cols.head? = some (firstCCol pc (matchStart rowid (c0 :: rest) + rest.length) ⟨pc.serialType, c0.content⟩) := by
  unfold carveFreeblocks at h
  simp only [hc, hpp, bind, Except.bind] at h
  obtain ⟨a, ha, hsub⟩ := go_ok _ fbs cells h fb hfb
  obtain ⟨co', hco⟩ := reverseLoop_mem _ _ _ _ ha _ _ (List.mem_reverse.2 hm)
  obtain ⟨r, hr, hcols, hhead, _⟩ := candidate_rest hcell sig fc ps co' hn pc (hset co') h0 h128 hvl hlen hsz
  have ht := tryCarve_ok (fb.pageOffset + fb.contentStart + matchStart rowid (c0 :: rest)) fb.pageNumber fb.index _ r hr
  unfold fbCandidate at ht
  rw [ht] at hco
  rcases hco with hco | ⟨c, hc1, hc2⟩
  · cases hco
  · simp only [Except.ok.injEq, Option.some.injEq] at hc1
    subst hc1
    exact ⟨_, hsub _ hc2, rfl, rfl, hcols, hhead⟩

/-- offset 0, fixed-width first column, the freeblock size does not single out one listed type:
the size block leaves nothing and the fall-back decides -/
theorem fromFreeblockSize_ambiguous (fc : List Int) (fbSize sdSize sdcs sz : Nat)
    (hfc : ∀ t ∈ fc, 0 ≤ t ∧ t ≤ 9) (hsize : fbSize = 2 + (1 + sdSize + 1) + sdcs + sz)
    (hamb : (fc.filter fun t => decide (getContentSize t = .ok sz)).length ≠ 1) :
    fromFreeblockSize fc fbSize sdSize sdcs = .ok none := by
  unfold fromFreeblockSize
  have hx : ((fbSize : Int) - 2 - (1 + (sdSize : Int) + 1) - (sdcs : Int)) = (sz : Int) := by omega
  simp only [hx]
  rw [matchingTypes_small sz fc hfc]
  generalize (fc.filter fun t => decide (getContentSize t = .ok sz)) = ms at hamb
  match ms, hamb with
  | [], _ => rfl
  | [a], hamb => exact absurd rfl hamb
  | a :: b :: l, _ => rfl

theorem settles_offset0_ambiguous {fb : FbIn} {u : Nat} {rowid : Int} {c0 : Spec.Col} {rest : List Spec.Col}
    (h : FreedCell fb u rowid c0 rest) (sig : CarveSig) (fc : List Int) (ps co : Nat)
    (hz : matchStart rowid (c0 :: rest) = 0) (hfc : ∀ t ∈ fc, 0 ≤ t ∧ t ≤ 9) (hne : fc ≠ [])
    (hamb : (fc.filter fun t => decide (getContentSize t = .ok c0.content.length)).length ≠ 1)
    (pc : PreCol) (hprob : probabilisticFirst sig fc = .ok pc) :
    SettlesOn (fbCandidate sig fc ps fb (matchStart rowid (c0 :: rest)) (matchStart rowid (c0 :: rest) + rest.length) co)
      rest.length (rest.flatMap (·.content)).length pc := by
  refine Or.inr ⟨?_, fc, rfl, by simpa using hne, hprob⟩
  rw [reconstruct_offset0 _ fc fb.byteSize hz rfl rfl rfl]
  apply fromFreeblockSize_ambiguous fc fb.byteSize rest.length _ c0.content.length hfc _ hamb
  rw [h.byteSize_eq]
  unfold matchStart at hz
  have h1 := varintLen_pos (Spec.encodeRecord (c0 :: rest)).length
  have h2 := varintLen_pos (Spec.toU64 rowid)
  omega

/-! ### the scan: when the rest of the header is reported -/

theorem header_eq_typeBytes : ∀ (rest : List Spec.Col), (∀ c ∈ rest, 0 ≤ c.st ∧ c.st < 128) →
    Proofs.Regex.header (rest.map (·.st)) = Spec.typeBytes rest := by
  intro rest
  induction rest with
  | nil => intro _; rfl
  | cons c r ih =>
    intro h
    obtain ⟨h0, h1⟩ := h c (List.mem_cons_self ..)
    have := ih (fun x hx => h x (List.mem_cons_of_mem _ hx))
    rw [typeBytes_cons, ← this, toU64_small c.st h0 h1]
    simp only [Proofs.Regex.header, List.map_cons, List.flatMap_cons]

/-- The partial pattern's scan of the freeblock content reports exactly the rest of the header of
the freed cell when the pattern matches there at all (the signature lists the classes of the serial
types after the first) and matches nowhere before it: the match ends at the end of the header
(`matchAt_header_exact`), and `finditer` reports the first match (`finditer_first`). -/
theorem scan_reports_freeblock_header (simplified : List (List Int)) (pp : Regex.Pat)
    (hpp : Regex.genSignature simplified true = .ok pp)
    (fb : FbIn) (u : Nat) (rowid : Int) (c0 : Spec.Col) (rest : List Spec.Col)
    (hcell : FreedCell fb u rowid c0 rest) (hlen : simplified.length = rest.length + 1)
    (hnone : ∀ j, j < matchStart rowid (c0 :: rest) → Regex.matchAt pp (fb.content.toList.drop j) = none)
    (hadm : (Regex.matchAt pp (fb.content.toList.drop (matchStart rowid (c0 :: rest)))).isSome = true) :
    (matchStart rowid (c0 :: rest), matchStart rowid (c0 :: rest) + rest.length) ∈
      Regex.finditer pp fb.content.toList := by
  obtain ⟨p, q, htot, hp, _⟩ := hcell.tail
  have hdrop : fb.content.toList.drop (matchStart rowid (c0 :: rest)) =
      Spec.typeBytes rest ++ (c0 :: rest).flatMap (·.content) ++ q := by
    rw [htot, ← hp, List.append_assoc, List.append_assoc, List.drop_left, List.append_assoc]
  obtain ⟨out, hout⟩ := Option.isSome_iff_exists.1 hadm
  have hpp' : Regex.genSignature (simplified.drop 1) false = .ok pp := by
    unfold Regex.genSignature at hpp ⊢
    simpa using hpp
  have hsr : ∀ c ∈ rest, 0 ≤ c.st ∧ c.st < 128 := fun c hc => hcell.small c (List.mem_cons_of_mem _ hc)
  have hexact := matchAt_header_exact (simplified.drop 1) pp hpp' (rest.map (·.st))
    (by simp only [List.length_map, List.length_drop]; omega)
    (by
      intro t ht
      obtain ⟨c, hc, rfl⟩ := List.mem_map.1 ht
      have := hsr c hc
      exact ⟨this.1, Int.lt_trans this.2 (by decide)⟩)
    ((c0 :: rest).flatMap (·.content) ++ q) out
    (by
      intro x hx
      rcases List.mem_append.1 hx with hx | hx
      · obtain ⟨c, hc, hx⟩ := List.mem_flatMap.1 hx
        exact (hcell.valid c hc).2.2.2 x hx
      · have := toList_mem_lt fb.content hcell.wf x (by rw [htot]; exact List.mem_append_right _ hx)
        exact this)
    (by rw [header_eq_typeBytes rest hsr, ← List.append_assoc, ← hdrop]; exact hout)
  subst hexact
  have hlt : matchStart rowid (c0 :: rest) ≤ fb.content.toList.length := by
    rw [htot, ← hp]; simp only [List.length_append]; omega
  have hne : 0 < rest.length := List.length_pos_iff.2 hcell.two
  have hfirst := finditer_first pp fb.content.toList (matchStart rowid (c0 :: rest)) _ hlt hnone hout
    (by rw [hdrop]; simp only [List.length_append, hcell.typeBytes_length]; omega)
  have e : fb.content.toList.length - ((c0 :: rest).flatMap (·.content) ++ q).length =
      matchStart rowid (c0 :: rest) + rest.length := by
    rw [htot, ← hp]
    simp only [List.length_append, hcell.typeBytes_length]
    omega
  rw [e] at hfirst
  exact hfirst

/-! ### which cells give which match offset -/

/-- offset 0 (the first serial type byte is the fourth byte of the cell and is overwritten): payload
size and rowid are one-byte varints; offset 1: exactly one of them takes two bytes; … -/
theorem matchStart_eq (rowid : Int) (cols : List Spec.Col) (k : Nat) :
    matchStart rowid cols = k ↔
      Spec.varintLen (Spec.encodeRecord cols).length + Spec.varintLen (Spec.toU64 rowid) = k + 2 := by
  have h1 := varintLen_pos (Spec.encodeRecord cols).length
  have h2 := varintLen_pos (Spec.toU64 rowid)
  unfold matchStart
  omega

theorem matchStart_zero_iff (rowid : Int) (cols : List Spec.Col) :
    matchStart rowid cols = 0 ↔ (Spec.encodeRecord cols).length < 128 ∧ Spec.toU64 rowid < 128 := by
  rw [matchStart_eq]
  have h1 := varintLen_pos (Spec.encodeRecord cols).length
  have h2 := varintLen_pos (Spec.toU64 rowid)
  constructor
  · intro h
    constructor
    · rcases varintLen_cases (Spec.encodeRecord cols).length with h | h | h | h | h | h | h | h | h <;>
        (simp only [Nat.reducePow] at h; omega)
    · rcases varintLen_cases (Spec.toU64 rowid) with h | h | h | h | h | h | h | h | h <;>
        (simp only [Nat.reducePow] at h; omega)
  · intro ⟨ha, hb⟩
    rw [varintLen_small _ ha, varintLen_small _ hb]

/-! ### the negative side: a first column whose class the signature lists is not enough -/

/-- FULL STATEMENT (false): as `recall_freeblock_record`, with "the first column of the signature
lists the class of the stored first serial type" in place of `FirstColumnRecoverable`, and asking
only for the columns after the first -/
def RecallFreeblockFull : Prop :=
  ∀ (sig : CarveSig) (fc : List Int) (simplified : List (List Int)) (pp : Regex.Pat),
    chosenSignature sig = .ok (fc, simplified) → Regex.genSignature simplified true = .ok pp →
    ∀ (ps : Nat) (fbs : List FbIn) (fb : FbIn), fb ∈ fbs →
    ∀ (u : Nat) (rowid : Int) (c0 : Spec.Col) (rest : List Spec.Col),
    FreedCell fb u rowid c0 rest → rest.length + 1 = sig.numberOfColumns →
    serialTypeSignature c0.st ∈ fc →
    (matchStart rowid (c0 :: rest), matchStart rowid (c0 :: rest) + rest.length) ∈
      Regex.finditer pp fb.content.toList →
    ∀ (cells : List CarvedCell), carveFreeblocks sig ps fbs = .ok cells →
    ∃ c ∈ cells, c.matchStart = matchStart rowid (c0 :: rest) ∧
      c.matchEnd = matchStart rowid (c0 :: rest) + rest.length ∧
      c.rec_.cols.drop 1 = (expectedCCols 0 (matchStart rowid (c0 :: rest) + rest.length) (c0 :: rest)).drop 1

theorem validCol_of (c : Spec.Col) (h : (decide (0 ≤ c.st) && decide (c.st < 128) &&
    decide (Spec.serialTypeLen c.st = some c.content.length) && c.content.all (· < 256)) = true) : Spec.ValidCol c := by
  simp only [Bool.and_eq_true, decide_eq_true_eq, List.all_eq_true] at h
  obtain ⟨⟨⟨h0, h1⟩, h2⟩, h3⟩ := h
  exact ⟨h0, Int.lt_trans h1 (by decide), h2, fun x hx => by simpa using h3 x hx⟩

/-- a decidable check that implies `FreedCell` for a concrete freeblock -/
def freedChk (fb : FbIn) (u : Nat) (rowid : Int) (c0 : Spec.Col) (rest : List Spec.Col) : Bool :=
  (c0 :: rest).all (fun c => decide (0 ≤ c.st) && decide (c.st < 128) &&
    decide (Spec.serialTypeLen c.st = some c.content.length) && c.content.all (· < 256)) &&
  !rest.isEmpty && decide (rest.length + 2 < 128) && decide (u ≤ 65536) &&
  decide ((Spec.encodeRecord (c0 :: rest)).length ≤ Spec.maxLeaf u) &&
  decide (fb.content.toList = (Spec.writeTableLeafCell u rowid (Spec.encodeRecord (c0 :: rest)) 0).drop 4) &&
  decide (fb.byteSize = (Spec.writeTableLeafCell u rowid (Spec.encodeRecord (c0 :: rest)) 0).length)

theorem freed_of_chk (fb : FbIn) (u : Nat) (rowid : Int) (c0 : Spec.Col) (rest : List Spec.Col)
    (h : freedChk fb u rowid c0 rest = true) : FreedCell fb u rowid c0 rest := by
  unfold freedChk at h
  simp only [Bool.and_eq_true, decide_eq_true_eq, Bool.not_eq_true', List.isEmpty_eq_false_iff] at h
  obtain ⟨⟨⟨⟨⟨⟨h1, h2⟩, h3⟩, h4⟩, h5⟩, h6⟩, h7⟩ := h
  rw [List.all_eq_true] at h1
  refine ⟨fun c hc => validCol_of c (h1 c hc), h2, ?_, h3, h4, h5, h6, h7⟩
  intro c hc
  have := h1 c hc
  simp only [Bool.and_eq_true, decide_eq_true_eq] at this
  exact this.1.1.2

/-- The witness (known finding C09-02), bytes as SQLite 3.40.1 wrote them: CREATE TABLE t(a TEXT, b INTEGER),
rows ('xy',5), ('ab',7), ('cd',9), DELETE rowid 2 with secure_delete off.  Page 2 (at file offset 1024) gets one
freeblock at 1008 of 8 bytes — exactly the freed cell `06 02 03 11 01 61 62 07` — whose content is
`01 61 62 07`.  The signature of the two remaining rows is [[-2], [1]]. -/
def sigText : CarveSig := ⟨2, 2, [[-2], [1]], [], [[(-2, 1, 1)], [(1, 1, 1)]]⟩
def fbText : FbIn := ⟨2, 0, 1008, 1012, 8, Buf.ofList [1, 0x61, 0x62, 7], 1024⟩
def colAb : Spec.Col := ⟨17, [0x61, 0x62]⟩
def colSeven : Spec.Col := ⟨1, [7]⟩

theorem freed_text : FreedCell fbText 1024 2 colAb [colSeven] :=
  freed_of_chk _ _ _ _ _ (by decide +kernel)

/-- the model on the witness: the only candidate (the match `01` at offset 0) is skipped —
`get_content_size(-2)` raises `ValueError` inside the size test — and nothing is reported -/
theorem text_first_skipped : carveFreeblocks sigText 1024 [fbText] = .ok [] := by
  obtain ⟨cells, h, hl⟩ := Proofs.CarveCompletes.of_okLen
    (show Proofs.CarveCompletes.okLen (carveFreeblocks sigText 1024 [fbText]) 0 = true by decide +kernel)
  rw [h, List.length_eq_zero_iff.1 hl]

def isValueError : CM CarvedRec → Bool
  | .error (.py .valueError) => true
  | _ => false

theorem text_candidate_valueError :
    carvedRecord (fbCandidate sigText [-2] 1024 fbText 0 1 4) = .error (.py .valueError) := by
  have h : isValueError (carvedRecord (fbCandidate sigText [-2] 1024 fbText 0 1 4)) = true := by decide +kernel
  generalize carvedRecord (fbCandidate sigText [-2] 1024 fbText 0 1 4) = x at h
  unfold isValueError at h
  split at h
  · rfl
  · cases h

theorem recall_freeblock_full_false : ¬ RecallFreeblockFull := by
  intro h
  obtain ⟨c, hc, _⟩ := h sigText [-2] [[-2], [1]] (.seq [.lit 1]) rfl rfl 1024 [fbText] fbText
    (List.mem_singleton.2 rfl) 1024 2 colAb [colSeven] freed_text rfl (by decide) (by decide +kernel) []
    text_first_skipped
  cases hc

/-- A second witness, with a fixed-width first column (bytes as SQLite wrote them): CREATE TABLE t(a INTEGER,
b INTEGER), rows (5,55), (0,77), (5,99), (0,44), (1,33), DELETE rowid 2.  The freed cell `04 02 03 08 01 4d` leaves
the content `01 4d`; the signature of the remaining rows is [[1, 8, 9], [1]] with 1 the most frequent first type.
The freeblock size says the lost first column holds 0 bytes; two listed types (8 and 9) do, so the size block gives
up and the fall-back takes the most frequent type — 1, one byte wide: the first column is reported as 77 and
the second, whose byte it took, as cut off. -/
def sigAmb : CarveSig := ⟨2, 4, [[1, 8, 9], [1]], [], [[(1, 2, 4), (8, 1, 4), (9, 1, 4)], [(1, 4, 4)]]⟩
def fbAmb : FbIn := ⟨2, 0, 1011, 1015, 6, Buf.ofList [1, 0x4d], 1024⟩
def colZero : Spec.Col := ⟨8, []⟩
def col77 : Spec.Col := ⟨1, [0x4d]⟩

theorem freed_amb : FreedCell fbAmb 1024 2 colZero [col77] :=
  freed_of_chk _ _ _ _ _ (by decide +kernel)

def ambChk : Py (List CarvedCell) → Bool
  | .ok [a] => decide (a.matchStart = 0) && decide (a.matchEnd = 1) &&
      decide (a.rec_.cols.map (fun c => (c.serialType, c.value, c.truncatedValue, c.probabilisticFirst)) =
        [(1, .dec (.int 77), false, true), (1, .unset, true, false)])
  | _ => false

theorem ambChk_true : ambChk (carveFreeblocks sigAmb 1024 [fbAmb]) = true := by decide +kernel

theorem ambiguous_first_misaligns :
    ∃ a, carveFreeblocks sigAmb 1024 [fbAmb] = .ok [a] ∧ a.matchStart = 0 ∧ a.matchEnd = 1 ∧
      a.rec_.cols.map (fun c => (c.serialType, c.value, c.truncatedValue, c.probabilisticFirst)) =
        [(1, .dec (.int 77), false, true), (1, .unset, true, false)] := by
  have h := ambChk_true
  generalize carveFreeblocks sigAmb 1024 [fbAmb] = res at h
  unfold ambChk at h
  split at h
  · rename_i a
    simp only [Bool.and_eq_true, decide_eq_true_eq] at h
    exact ⟨a, rfl, h.1.1, h.1.2, h.2⟩
  · cases h

theorem recall_freeblock_full_false_fixed_width :
    ∃ (cells : List CarvedCell), carveFreeblocks sigAmb 1024 [fbAmb] = .ok cells ∧
      FreedCell fbAmb 1024 2 colZero [col77] ∧ serialTypeSignature colZero.st ∈ ([1, 8, 9] : List Int) ∧
      (matchStart 2 [colZero, col77], matchStart 2 [colZero, col77] + 1) ∈
        Regex.finditer (.seq [.lit 1]) fbAmb.content.toList ∧
      ¬ ∃ c ∈ cells, c.rec_.cols.drop 1 = (expectedCCols 0 (matchStart 2 [colZero, col77] + 1) [colZero, col77]).drop 1 := by
  obtain ⟨a, ha, _, _, hcols⟩ := ambiguous_first_misaligns
  refine ⟨[a], ha, freed_amb, by decide, by decide +kernel, ?_⟩
  rintro ⟨c, hc, hd⟩
  rw [List.mem_singleton.1 hc] at hd
  have h2 := congrArg (fun l => (l.map (fun c => c.truncatedValue))) hd
  have h3 := congrArg (fun l => (l.map (fun c => c.2.2.1)).drop 1) hcols
  simp only [List.map_map, List.map_drop] at h2 h3
  rw [show ((fun c => c.2.2.1) ∘ fun (c : CCol) => (c.serialType, c.value, c.truncatedValue, c.probabilisticFirst)) =
    fun c => c.truncatedValue from rfl] at h3
  rw [h3] at h2
  revert h2
  decide +kernel

/-! ### non-vacuity: one freed cell per match offset, bytes as SQLite 3.40.1 wrote them

All three: page size 1024, page 2 (file offset 1024), one freeblock that is exactly the freed cell. -/

/-- offset 0 — CREATE TABLE t(a INTEGER, b INTEGER); rows (7,300), (8,301), (300,302), (9,303); DELETE rowid 2.
Freed cell `06 02 03 01 02 08 01 2d` at 1008; the remaining rows list the first types 1 and 2 -/
def sigInt12 : CarveSig := ⟨2, 3, [[1, 2], [2]], [], [[(1, 2, 3), (2, 1, 3)], [(2, 3, 3)]]⟩
def fbOff0 : FbIn := ⟨2, 0, 1008, 1012, 8, Buf.ofList [2, 8, 1, 0x2d], 1024⟩
def col8 : Spec.Col := ⟨1, [8]⟩
def col301 : Spec.Col := ⟨2, [1, 0x2d]⟩

/-- offset 1 — CREATE TABLE t(a TEXT, b INTEGER); rowids 200, 201, 202 with ('xy',5), ('ab',7), ('cd',9); DELETE
rowid 201 (a two-byte rowid varint).  Freed cell `06 81 49 03 11 01 61 62 07` at 1006 -/
def fbOff1 : FbIn := ⟨2, 0, 1006, 1010, 9, Buf.ofList [0x11, 1, 0x61, 0x62, 7], 1024⟩

/-- offset 2 — CREATE TABLE t(a INTEGER, b INTEGER); rowids 20000, 20001, 20002 with (7,300), (8,301), (9,302);
DELETE rowid 20001 (a three-byte rowid varint).  Freed cell `06 81 9c 21 03 01 02 08 01 2d` at 1004 -/
def sigInt1 : CarveSig := ⟨2, 2, [[1], [2]], [], [[(1, 1, 1)], [(2, 1, 1)]]⟩
def fbOff2 : FbIn := ⟨2, 0, 1004, 1008, 10, Buf.ofList [3, 1, 2, 8, 1, 0x2d], 1024⟩

theorem freed_off0 : FreedCell fbOff0 1024 2 col8 [col301] := freed_of_chk _ _ _ _ _ (by decide +kernel)
theorem freed_off1 : FreedCell fbOff1 1024 201 colAb [colSeven] := freed_of_chk _ _ _ _ _ (by decide +kernel)
theorem freed_off2 : FreedCell fbOff2 1024 20001 col8 [col301] := freed_of_chk _ _ _ _ _ (by decide +kernel)

theorem recoverable_off0 : FirstColumnRecoverable [1, 2] col8 0 :=
  ⟨fun _ => ⟨by decide, by decide, by decide, by decide⟩, fun h => by omega, fun h => by omega⟩
theorem recoverable_off1 : FirstColumnRecoverable [-2] colAb 1 :=
  ⟨fun h => by omega, fun _ => by decide, fun h => by omega⟩
theorem recoverable_off2 : FirstColumnRecoverable [1] col8 2 :=
  ⟨fun h => by omega, fun _ => by decide, fun _ => by decide⟩

/-- the three examples satisfy every hypothesis of `recall_freeblock_record` (the scan hypothesis
through `scan_reports_freeblock_header`), and its conclusion gives the stored rows -/
theorem example_offset0 :
    matchStart 2 [col8, col301] = 0 ∧
    ∃ cells, carveFreeblocks sigInt12 1024 [fbOff0] = .ok cells ∧ ∃ c ∈ cells, c.fileOffset = 2036 ∧
      c.rec_.cols.map (fun c => (c.serialType, c.value, c.truncatedFirst)) =
        [(1, .dec (.int 8), true), (2, .dec (.int 301), false)] := by
  have hs : matchStart 2 [col8, col301] = 0 := by decide +kernel
  refine ⟨hs, ?_⟩
  obtain ⟨cells, h, _⟩ := Proofs.CarveCompletes.of_okLen
    (show Proofs.CarveCompletes.okLen (carveFreeblocks sigInt12 1024 [fbOff0]) 1 = true by decide +kernel)
  have hm := scan_reports_freeblock_header [[1, 2], [2]] (.seq [.lit 2]) rfl fbOff0 1024 2 col8 [col301] freed_off0 rfl
    (by rw [hs]; intro j hj; omega) (by decide +kernel)
  obtain ⟨c, hc, _, _, hfo, _, hcols, _⟩ := recall_freeblock_record sigInt12 [1, 2] [[1, 2], [2]] (.seq [.lit 2]) rfl rfl
    1024 [fbOff0] fbOff0 (List.mem_singleton.2 rfl) 1024 2 col8 [col301] freed_off0 rfl (by rw [hs]; exact recoverable_off0)
    hm cells h
  refine ⟨cells, h, c, hc, by rw [hfo, hs]; rfl, ?_⟩
  rw [hcols, hs]
  decide +kernel

theorem example_offset1 :
    matchStart 201 [colAb, colSeven] = 1 ∧
    ∃ cells, carveFreeblocks sigText 1024 [fbOff1] = .ok cells ∧ ∃ c ∈ cells, c.fileOffset = 2035 ∧
      c.rec_.cols.map (fun c => (c.serialType, c.value, c.truncatedFirst)) =
        [(17, .dec (.text [0x61, 0x62]), false), (1, .dec (.int 7), false)] := by
  have hs : matchStart 201 [colAb, colSeven] = 1 := by decide +kernel
  refine ⟨hs, ?_⟩
  obtain ⟨cells, h, _⟩ := Proofs.CarveCompletes.of_okLen
    (show Proofs.CarveCompletes.okLen (carveFreeblocks sigText 1024 [fbOff1]) 1 = true by decide +kernel)
  have hm := scan_reports_freeblock_header [[-2], [1]] (.seq [.lit 1]) rfl fbOff1 1024 201 colAb [colSeven] freed_off1 rfl
    (by rw [hs]; intro j hj
        have : j = 0 := by omega
        subst this; decide +kernel) (by decide +kernel)
  obtain ⟨c, hc, _, _, hfo, _, hcols, _⟩ := recall_freeblock_record sigText [-2] [[-2], [1]] (.seq [.lit 1]) rfl rfl
    1024 [fbOff1] fbOff1 (List.mem_singleton.2 rfl) 1024 201 colAb [colSeven] freed_off1 rfl
    (by rw [hs]; exact recoverable_off1) hm cells h
  refine ⟨cells, h, c, hc, by rw [hfo, hs]; rfl, ?_⟩
  rw [hcols, hs]
  decide +kernel

theorem example_offset2 :
    matchStart 20001 [col8, col301] = 2 ∧
    ∃ cells, carveFreeblocks sigInt1 1024 [fbOff2] = .ok cells ∧ ∃ c ∈ cells, c.fileOffset = 2034 ∧
      c.rec_.cols.map (fun c => (c.serialType, c.value, c.truncatedFirst)) =
        [(1, .dec (.int 8), false), (2, .dec (.int 301), false)] := by
  have hs : matchStart 20001 [col8, col301] = 2 := by decide +kernel
  refine ⟨hs, ?_⟩
  obtain ⟨cells, h, _⟩ := Proofs.CarveCompletes.of_okLen
    (show Proofs.CarveCompletes.okLen (carveFreeblocks sigInt1 1024 [fbOff2]) 1 = true by decide +kernel)
  have hm := scan_reports_freeblock_header [[1], [2]] (.seq [.lit 2]) rfl fbOff2 1024 20001 col8 [col301] freed_off2 rfl
    (by rw [hs]; intro j hj
        have : j = 0 ∨ j = 1 := by omega
        rcases this with rfl | rfl <;> decide +kernel) (by decide +kernel)
  obtain ⟨c, hc, _, _, hfo, _, hcols, _⟩ := recall_freeblock_record sigInt1 [1] [[1], [2]] (.seq [.lit 2]) rfl rfl
    1024 [fbOff2] fbOff2 (List.mem_singleton.2 rfl) 1024 20001 col8 [col301] freed_off2 rfl
    (by rw [hs]; exact recoverable_off2) hm cells h
  refine ⟨cells, h, c, hc, by rw [hfo, hs]; rfl, ?_⟩
  rw [hcols, hs]
  decide +kernel

/-! ### why the third clause of `FirstColumnRecoverable` is needed -/

/-- offset 2 with a TEXT first column, bytes as SQLite wrote them: CREATE TABLE t(a TEXT, b INTEGER); rowids 20000,
20001, 20002 with ('xy',5), ('ab',7), ('cd',9); DELETE rowid 20001.  Freed cell `06 81 9c 21 03 11 01 61 62 07` at
1004: the first serial type `11` survives as content byte 1, directly in front of the match -/
def fbOff2Text : FbIn := ⟨2, 0, 1004, 1008, 10, Buf.ofList [3, 0x11, 1, 0x61, 0x62, 7], 1024⟩

theorem freed_off2_text : FreedCell fbOff2Text 1024 20001 colAb [colSeven] :=
  freed_of_chk _ _ _ _ _ (by decide +kernel)

def unreadChk : Py (List CarvedCell) → Bool
  | .ok [a] => decide (a.matchStart = 2) && decide (a.matchEnd = 3) &&
      decide (a.rec_.cols.map (fun c => (c.serialType, c.value, c.probabilisticFirst)) =
        [(12, .dec (.blob []), true), (1, .dec (.int 97), false)])
  | _ => false

theorem unreadChk_true : unreadChk (carveFreeblocks sigText 1024 [fbOff2Text]) = true := by decide +kernel

/-- the surviving serial type byte is not read when the first column lists texts (or blobs): the
fall-back reports an empty blob (serial type 12) and the second column, read two bytes early, becomes
97 (`61`) instead of 7 -/
theorem survived_text_first_not_read :
    matchStart 20001 [colAb, colSeven] = 2 ∧
    ∃ a, carveFreeblocks sigText 1024 [fbOff2Text] = .ok [a] ∧ a.matchStart = 2 ∧ a.matchEnd = 3 ∧
      a.rec_.cols.map (fun c => (c.serialType, c.value, c.probabilisticFirst)) =
        [(12, .dec (.blob []), true), (1, .dec (.int 97), false)] := by
  refine ⟨by decide +kernel, ?_⟩
  have h := unreadChk_true
  generalize carveFreeblocks sigText 1024 [fbOff2Text] = res at h
  unfold unreadChk at h
  split at h
  · rename_i a
    simp only [Bool.and_eq_true, decide_eq_true_eq] at h
    exact ⟨a, rfl, h.1.1, h.1.2, h.2⟩
  · cases h

/-! ### non-vacuity of `recall_freeblock_rest` -/

/-- bytes as SQLite wrote them: CREATE TABLE t(a INTEGER, b INTEGER); rows (1,55), (1,77), (0,99), (1,44), (0,33);
DELETE rowid 3.  Freed cell `04 03 03 08 01 63` at 1006.  The remaining rows list the first types 8 (once) and
9 (three times), both of size 0: the first column is guessed (9, the integer 1 — the row stored 0), the second
column is reported as stored -/
def sigBool : CarveSig := ⟨2, 4, [[8, 9], [1]], [], [[(8, 1, 4), (9, 3, 4)], [(1, 4, 4)]]⟩
def fbBool : FbIn := ⟨2, 0, 1006, 1010, 6, Buf.ofList [1, 0x63], 1024⟩
def col99 : Spec.Col := ⟨1, [0x63]⟩

theorem freed_bool : FreedCell fbBool 1024 3 colZero [col99] := freed_of_chk _ _ _ _ _ (by decide +kernel)

theorem example_rest :
    ∃ cells, carveFreeblocks sigBool 1024 [fbBool] = .ok cells ∧ ∃ c ∈ cells,
      (c.rec_.cols.drop 1).map (fun c => (c.serialType, c.value)) = [(1, .dec (.int 99))] ∧
      c.rec_.cols.head?.map (fun c => (c.serialType, c.value, c.probabilisticFirst)) = some (9, .dec (.int 1), true) := by
  have hs : matchStart 3 [colZero, col99] = 0 := by decide +kernel
  obtain ⟨cells, h, _⟩ := Proofs.CarveCompletes.of_okLen
    (show Proofs.CarveCompletes.okLen (carveFreeblocks sigBool 1024 [fbBool]) 1 = true by decide +kernel)
  have hm := scan_reports_freeblock_header [[8, 9], [1]] (.seq [.lit 1]) rfl fbBool 1024 3 colZero [col99] freed_bool rfl
    (by rw [hs]; intro j hj; omega) (by decide +kernel)
  obtain ⟨c, hc, _, _, hrest, hhead⟩ := recall_freeblock_rest sigBool [8, 9] [[8, 9], [1]] (.seq [.lit 1]) rfl rfl
    1024 [fbBool] fbBool (List.mem_singleton.2 rfl) 1024 3 colZero [col99] freed_bool rfl
    { serialType := 9, varintLen := 1, contentSize := 0, truncatedFirst := true, probabilisticFirst := true }
    (fun co => settles_offset0_ambiguous freed_bool sigBool [8, 9] 1024 co hs (by decide) (by decide) (by decide) _
      (by decide +kernel))
    (by decide) (by decide) rfl (by decide) rfl hm cells h
  refine ⟨cells, h, c, hc, ?_, ?_⟩
  · rw [hrest, hs]; decide +kernel
  · rw [hhead, hs]; decide +kernel

end SqliteDissect.Proofs.CarveFreeblock
