import SqliteDissect.Proofs.Wal
namespace SqliteDissect.Proofs.WalHistory
end SqliteDissect.Proofs.WalHistory
