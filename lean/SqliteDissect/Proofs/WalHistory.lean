import SqliteDissect.Proofs.Wal
namespace SqliteDissect.Proofs.WalHistory
open SqliteDissect SqliteDissect.Model

/-! ### page source of a commit record -/

theorem wal_page_source (strict : Bool) (dbv : VersionIf) (wal : Wal) (number dbSize : Nat)
    (pvi pfi : List (Nat × Nat)) (own : List Nat) (p : Nat)
    (hps : 0 < wal.hdr.pageSize) (hp : 1 ≤ p ∧ p ≤ dbSize)
    (hf : ∀ q f, dictGet? pfi q = some f → 1 ≤ f) :
    (walVersionIf strict dbv wal number dbSize pvi pfi own).getData p 0 none =
      match dictGet? pvi p with
      | none => .error .keyError
      | some 0 => dbv.getData p 0 none
      | some (k + 1) =>
        if k + 1 = number ∧ ¬ own.contains p then .error .parseError
        else match dictGet? pfi p with
          | none => .error .keyError
          | some f => wal.fh.read (Spec.frameImageOffset wal.hdr.pageSize f) wal.hdr.pageSize := by
  unfold walVersionIf
  simp only
  cases hpv : dictGet? pvi p with
  | none => rfl
  | some pv =>
    cases pv with
    | zero => simp
    | succ k =>
      simp only [Nat.add_one_ne_zero, if_false, Nat.sub_zero, Nat.zero_add, Nat.add_zero]
      rw [if_neg (by omega), if_neg (by omega), if_neg (by omega)]
      by_cases hc : k + 1 = number ∧ ¬ own.contains p = true
      · rw [if_pos hc, if_pos hc]; rfl
      · rw [if_neg hc, if_neg hc]
        cases hpf : dictGet? pfi p with
        | none => rfl
        | some f =>
          simp only [bind, Except.bind]
          rw [Wal.frame_offset _ _ (hf p f hpf)]

/-! ### frame numbers in the index -/

theorem pfi_values_are_frame_numbers (gs : List (List Frame)) (p f : Nat)
    (h : Spec.latestFrame gs.flatten p = some f) :
    ∃ fr ∈ gs.flatten, fr.hdr.pageNumber = p ∧ f = fr.index + 1 := by
  unfold Spec.latestFrame at h
  rw [Option.map_eq_some_iff] at h
  obtain ⟨fr, hfr, hn⟩ := h
  have hmem := List.mem_of_getLast? hfr
  rw [List.mem_filter] at hmem
  exact ⟨fr, hmem.1, by simpa using hmem.2, hn.symm⟩

/-! ### commit record -/


theorem bind_ok {α β : Type} (x : Py α) (f : α → Py β) (r : β) (h : (x >>= f) = .ok r) :
    ∃ a, x = .ok a ∧ f a = .ok r := by
  cases x with
  | error e => exact nomatch h
  | ok a => exact ⟨a, rfl, h⟩

theorem commit_record_indices (cfg : Config) (dbv : VersionIf) (wal : Wal) (number : Nat) (frames : List Frame)
    (prev : Version) (lastHdr : DbHeader) (lastSchema : MasterSchema) (lastRoot : List BPage) (enc : Nat)
    (ver : Version) (v : VersionIf)
    (h : makeCommitRecord cfg dbv wal number frames prev lastHdr lastSchema lastRoot enc = .ok (ver, v)) :
    ∃ fd csize, recordFrames frames = .ok (fd, true, csize) ∧ ver.number = number ∧ ver.dbSize = csize ∧
      ver.updated = fd.map (·.1) ∧
      ver.pvi = nextPvi prev.pvi number (fd.map (·.1)) ∧ ver.pfi = nextPfi prev.pfi fd ∧
      v = walVersionIf cfg.strict dbv wal number csize ver.pvi ver.pfi (fd.map (·.1)) := by
  unfold makeCommitRecord at h
  split at h
  · exact nomatch h
  split at h
  · exact nomatch h
  split at h
  · exact nomatch h
  obtain ⟨⟨fd, committed, csize⟩, hr, h⟩ := bind_ok _ _ _ h
  simp only at h
  split at h
  · exact nomatch h
  rename_i hcom
  obtain ⟨⟨ubt, ownHdr, rootMod⟩, -, h⟩ := bind_ok _ _ _ h
  simp only at h
  split at h
  · exact nomatch h
  obtain ⟨flags, -, h⟩ := bind_ok _ _ _ h
  obtain ⟨⟨rootTree, schema, ubt'⟩, -, h⟩ := bind_ok _ _ _ h
  simp only at h
  obtain ⟨fl, -, h⟩ := bind_ok _ _ _ h
  split at h
  · exact nomatch h
  obtain ⟨pm, -, h⟩ := bind_ok _ _ _ h
  have hfin : ∀ (x : Version × VersionIf) (c : Py (List (Nat × String))),
      (if cfg.storeInMemory = true then (do let _ ← c; pure x) else (pure x : Py _)) = .ok (ver, v) → x = (ver, v) := by
    intro x c hx
    split at hx
    · obtain ⟨_, -, hx⟩ := bind_ok _ _ _ hx
      exact Except.ok.inj hx
    · exact Except.ok.inj hx
  have hx := hfin _ _ h
  have hc : committed = true := by simpa using hcom
  subst hc
  injection hx with hv1 hv2
  subst hv1 hv2
  exact ⟨fd, csize, hr, rfl, rfl, rfl, rfl, rfl, rfl⟩

/-! ### the history fold -/

abbrev HSt := List (Version × VersionIf) × (DbHeader × MasterSchema × List BPage × Nat)

/-- the body of the fold of `versionHistory` -/
def hStep (cfg : Config) (dbv : VersionIf) (w : Wal) (st : HSt) (g : List Frame) : Py HSt := do
  let (vs, (lh, ls, lrt, enc)) := st
  match vs.getLast? with
  | none => (.error .runtimeError : Py _)
  | some (pv, _) =>
    let (cv, cvi) ← makeCommitRecord cfg dbv w (vs.length) g pv lh ls lrt enc
    let lh' := if cv.hdrModified then cv.hdr else lh
    let (ls', lrt') := if cv.schemaModified then (cv.schema, cv.rootTree) else (ls, lrt)
    pure (vs ++ [(cv, cvi)], (lh', ls', lrt', cv.encoding))

theorem versionHistory_eq (cfg : Config) (db : Database) (dbv : VersionIf) (w : Wal) :
    versionHistory cfg db dbv (some w) =
      (do
        let r ← (groupFrames w.frames [] []).1.foldlM (hStep cfg dbv w)
          ([(versionOfDatabase db, dbv)], (db.hdr, db.schema, db.rootTree, db.encoding))
        if ¬ (groupFrames w.frames [] []).2.isEmpty then .error .typeError else pure r.1) := by
  rfl

theorem hStep_ok (cfg : Config) (dbv : VersionIf) (w : Wal) (st st' : HSt) (g : List Frame)
    (h : hStep cfg dbv w st g = .ok st') :
    ∃ pv pvi cv cvi, st.1.getLast? = some (pv, pvi) ∧
      makeCommitRecord cfg dbv w st.1.length g pv st.2.1 st.2.2.1 st.2.2.2.1 st.2.2.2.2 = .ok (cv, cvi) ∧
      st'.1 = st.1 ++ [(cv, cvi)] := by
  obtain ⟨vs, lh, ls, lrt, enc⟩ := st
  unfold hStep at h
  simp only at h
  split at h
  · exact nomatch h
  · rename_i pv pvi hl
    obtain ⟨⟨cv, cvi⟩, hm, h⟩ := bind_ok _ _ _ h
    refine ⟨pv, pvi, cv, cvi, hl, hm, ?_⟩
    simp only [pure, Except.pure, Except.ok.injEq] at h
    rw [← h]

def pfiStep (pfi : List (Nat × Nat)) (g : List Frame) : List (Nat × Nat) :=
  match recordFrames g with
  | .ok (fd, _, _) => nextPfi pfi fd
  | .error _ => pfi

def pviStep (pvi : List (Nat × Nat)) (gk : List Frame × Nat) : List (Nat × Nat) :=
  match recordFrames gk.1 with
  | .ok (fd, _, _) => nextPvi pvi gk.2 (fd.map (·.1))
  | .error _ => pvi

structure HInv (base : List (Nat × Nat)) (pre : List (List Frame)) (vs : List (Version × VersionIf)) : Prop where
  len : vs.length = pre.length + 1
  ok : ∀ g ∈ pre, ∃ r, recordFrames g = .ok r
  idx : ∀ (k : Nat) (ver : Version) (v : VersionIf), vs[k]? = some (ver, v) →
    ver.number = k ∧ ver.pfi = (pre.take k).foldl pfiStep [] ∧
      ver.pvi = ((pre.take k).zipIdx 1).foldl pviStep base

theorem hInv_step (cfg : Config) (dbv : VersionIf) (w : Wal) (base : List (Nat × Nat))
    (pre : List (List Frame)) (st st' : HSt) (g : List Frame)
    (hi : HInv base pre st.1) (h : hStep cfg dbv w st g = .ok st') : HInv base (pre ++ [g]) st'.1 := by
  obtain ⟨pv, pvi, cv, cvi, hl, hm, hst⟩ := hStep_ok cfg dbv w st st' g h
  obtain ⟨fd, csize, hr, hnum, -, -, hpvi, hpfi, -⟩ := commit_record_indices _ _ _ _ _ _ _ _ _ _ _ _ hm
  have hlast : st.1[pre.length]? = some (pv, pvi) := by
    rw [List.getLast?_eq_getElem?, hi.len] at hl
    simpa using hl
  obtain ⟨-, hpf, hpv⟩ := hi.idx _ _ _ hlast
  rw [List.take_length] at hpf hpv
  refine ⟨by rw [hst, List.length_append, List.length_append, hi.len]; rfl, ?_, ?_⟩
  · intro g' hg'
    rcases List.mem_append.mp hg' with hg' | hg'
    · exact hi.ok g' hg'
    · rw [List.mem_singleton] at hg'; subst hg'; exact ⟨_, hr⟩
  · intro k ver v hk
    rw [hst] at hk
    by_cases hlt : k < st.1.length
    · rw [List.getElem?_append_left hlt] at hk
      have hle : k ≤ pre.length := by have := hi.len; omega
      rw [List.take_append_of_le_length hle]
      exact hi.idx k ver v hk
    · have hk' : k = st.1.length := by
        have := (List.getElem?_eq_some_iff.mp hk).1
        simp only [List.length_append, List.length_singleton] at this
        omega
      subst hk'
      rw [List.getElem?_append_right (Nat.le_refl _)] at hk
      simp only [Nat.sub_self, List.getElem?_cons_zero, Option.some.injEq, Prod.mk.injEq] at hk
      obtain ⟨rfl, rfl⟩ := hk
      have htk : (pre ++ [g]).take st.1.length = pre ++ [g] := by
        rw [List.take_of_length_le]; rw [List.length_append, hi.len]; exact Nat.le_refl _
      rw [htk]
      refine ⟨hnum, ?_, ?_⟩
      · rw [List.foldl_append, List.foldl_cons, List.foldl_nil, hpfi, hpf]
        simp only [pfiStep, hr]
      · rw [List.zipIdx_append, List.foldl_append, hpvi, hpv, hi.len]
        simp only [List.zipIdx_cons, List.zipIdx_nil, List.foldl_cons, List.foldl_nil, pviStep, hr]
        rw [Nat.add_comm]

theorem hInv_fold (cfg : Config) (dbv : VersionIf) (w : Wal) (base : List (Nat × Nat))
    (gs : List (List Frame)) : ∀ (pre : List (List Frame)) (st st' : HSt),
    HInv base pre st.1 → gs.foldlM (hStep cfg dbv w) st = .ok st' → HInv base (pre ++ gs) st'.1 := by
  induction gs with
  | nil =>
    intro pre st st' hi h
    simp only [List.foldlM_nil, pure, Except.pure, Except.ok.injEq] at h
    subst h
    rw [List.append_nil]; exact hi
  | cons g gs ih =>
    intro pre st st' hi h
    rw [List.foldlM_cons] at h
    obtain ⟨st1, h1, h2⟩ := bind_ok _ _ _ h
    have := ih (pre ++ [g]) st1 st' (hInv_step cfg dbv w base pre st st1 g hi h1) h2
    rwa [List.append_assoc] at this

theorem hInv_init (db : Database) (dbv : VersionIf) :
    HInv (versionOfDatabase db).pvi [] [(versionOfDatabase db, dbv)] := by
  refine ⟨rfl, by simp, ?_⟩
  intro k ver v hk
  cases k with
  | zero =>
    simp only [List.getElem?_cons_zero, Option.some.injEq, Prod.mk.injEq] at hk
    obtain ⟨rfl, rfl⟩ := hk
    exact ⟨rfl, rfl, rfl⟩
  | succ k => simp at hk

theorem history_indices (cfg : Config) (db : Database) (dbv : VersionIf) (w : Wal)
    (vs : List (Version × VersionIf)) (h : versionHistory cfg db dbv (some w) = .ok vs) :
    vs.length = (groupFrames w.frames [] []).1.length + 1 ∧
    ∀ (k : Nat) (ver : Version) (v : VersionIf), vs[k]? = some (ver, v) →
      ver.number = k ∧
      ∀ p : Nat,
        dictGet? ver.pfi p = Spec.latestFrame (((groupFrames w.frames [] []).1.take k).flatten) p ∧
        dictGet? ver.pvi p =
          (match Spec.latestTxn ((groupFrames w.frames [] []).1.take k) p with
           | some j => some j
           | none => dictGet? (versionOfDatabase db).pvi p) := by
  rw [versionHistory_eq] at h
  obtain ⟨st', hf, h⟩ := bind_ok _ _ _ h
  split at h
  · exact nomatch h
  simp only [pure, Except.pure, Except.ok.injEq] at h
  subst h
  have inv := hInv_fold cfg dbv w _ _ [] _ st' (hInv_init db dbv) hf
  rw [List.nil_append] at inv
  refine ⟨inv.len, ?_⟩
  intro k ver v hk
  obtain ⟨hn, hpf, hpv⟩ := inv.idx k ver v hk
  refine ⟨hn, fun p => ?_⟩
  have hok : ∀ g ∈ (groupFrames w.frames [] []).1.take k, ∃ r, recordFrames g = .ok r :=
    fun g hg => inv.ok g (List.mem_of_mem_take hg)
  rw [hpf, hpv]
  exact ⟨Wal.page_frame_index_latest _ p hok, Wal.page_version_index_latest _ _ p hok⟩

end SqliteDissect.Proofs.WalHistory
