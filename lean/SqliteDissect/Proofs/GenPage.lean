/-
Proofs for Properties/GenPage.lean: the constructors of the b-tree page header classes
(`BTreePageHeader`, `LeafPageHeader`, `InteriorPageHeader` of file/database/header.py) and of the
WAL-index header classes (`WriteAheadLogIndexSubHeader`, `WriteAheadLogIndexCheckpointInfo`,
`WriteAheadLogIndexHeader` of file/wal_index/header.py), re-translated from the Python source on
every run (harness/translate/pyfun.py -> Generated/PyPage.lean), equal the hand-written parsers
`Model.parsePageHdr` (Model/Page.lean) and `Model.parseWalIndex*` (Model/WalIndex.lean); and the body of
`OverflowPage.__init__` (file/database/page.py) after `super().__init__`, as a function of `self.size` and of the
outcome of `get_page_data`, is what `Model.parseOverflowPage` does after the two version-interface calls of
`Page.__init__`.

`cast*` reads a model header as the structure of Python attributes.  md5 is the identity on both
sides, so an `…md5_hex_digest` attribute is the byte string that is hashed; attributes the models do
not keep are stated as the function of the input they are (`page_type` is `page[offset:offset+1]`,
`root_page_only_md5_hex_digest` is `page[100:]` exactly when the page starts with 0x53, …).
-/
import SqliteDissect.Proofs.GenHeader
import SqliteDissect.Proofs.BufCongr
import SqliteDissect.Generated.PyPage
import SqliteDissect.Model.Page
import SqliteDissect.Model.WalIndex

namespace SqliteDissect.Proofs.GenPage
open SqliteDissect SqliteDissect.Model SqliteDissect.Generated SqliteDissect.Proofs.GenFun
open SqliteDissect.Proofs.GenHeader SqliteDissect.Proofs.BufCongr

/-! ### reads at an offset that is known only as a natural number -/

theorem beN_slice (b : Buf) (lo hi off : Nat) : ∀ n, lo + off + n ≤ min hi b.size →
    (b.slice lo hi).beN off n = b.beN (lo + off) n := by
  intro n
  induction n with
  | zero => intro _; rfl
  | succ n ih =>
    intro h
    simp only [Buf.beN]
    rw [ih (by omega)]
    have : min lo b.size = lo := by omega
    simp only [Buf.slice, this, Nat.add_assoc]

/-- the Page model's `unpackAt` at a non-negative offset is the Codec model's `unpackN` -/
theorem unpackAt_nat (b : Buf) (lo n : Nat) (l : Int) (hl : l = (lo : Int)) (hn : 0 < n) :
    unpackAt b l n = unpackN b lo n := by
  subst hl
  unfold unpackAt unpackN pySlice
  have h1 : ¬ ((lo : Int) < 0) := by omega
  have h2 : ¬ ((lo : Int) + (n : Int) < 0) := by omega
  simp only [h1, h2, if_false]
  by_cases h : lo + n ≤ b.size
  · have g1 : ¬ ((lo : Int) > (b.size : Int)) := by omega
    have g2 : ¬ ((lo : Int) + (n : Int) > (b.size : Int)) := by omega
    have e1 : (lo : Int).toNat = lo := by omega
    have e2 : ((lo : Int) + (n : Int)).toNat = lo + n := by omega
    simp only [g1, g2, if_false, e1, e2]
    have hs : (b.slice lo (lo + n)).size = n := by simp only [Buf.slice]; omega
    rw [if_pos hs, if_pos h, beN_slice b lo (lo + n) 0 n (by omega)]
    rfl
  · rw [if_neg h]
    have hs : ¬ (b.slice (if (lo : Int) > (b.size : Int) then b.size else (lo : Int).toNat)
        (if (lo : Int) + (n : Int) > (b.size : Int) then b.size else ((lo : Int) + (n : Int)).toNat)).size = n := by
      simp only [Buf.slice]
      split <;> split <;> omega
    rw [if_neg hs]

/-- `unpack(">H" | ">I", b[l:h])[0]` with `l`, `h` non-negative: the Codec model's `unpackN` -/
theorem unpackBE_nat (b : Buf) (off n : Nat) (l h : Int) (hl : l = (off : Int)) (hh : h = ((off + n : Nat) : Int))
    (hn : 0 < n) : pyUnpackBE false n (pySliceBuf b l h) = castN (unpackN b off n) := by
  subst hl hh
  rw [pySliceBuf_nat, pyUnpackBE_slice false b off n hn]
  cases unpackN b off n <;> rfl

/-- `ord(b[l:h])` with `h = l + 1 ≥ 1` -/
theorem ord_nat (b : Buf) (i : Nat) (l h : Int) (hl : l = (i : Int)) (hh : h = ((i + 1 : Nat) : Int)) :
    pyOrdSlice b l h = castN (ordAt b i) := by
  subst hl hh
  have := pyOrdSlice_nat b i
  have e : ((i + 1 : Nat) : Int) = (i : Int) + 1 := by omega
  rw [e, this]
  unfold ordAt
  split <;> rfl

/-! ### BTreePageHeader -/

theorem master_iff (page : Buf) :
    pySliceBuf page 0 1 = Generated.MASTER_PAGE_HEX_ID ↔ (page.size ≥ 1 ∧ page.rd 0 = 0x53) := by
  have e : pySliceBuf page 0 1 = (page.slice 0 1).toList := slice_lit page 0 1 _ _ rfl rfl
  rw [e]
  unfold Buf.slice Buf.toList Generated.MASTER_PAGE_HEX_ID
  by_cases h : page.size ≥ 1
  · have : min 1 page.size - min 0 page.size = 1 := by omega
    simp only [this, List.range_one, List.map_cons, List.map_nil]
    simp
    omega
  · have : min 1 page.size - min 0 page.size = 0 := by omega
    simp only [this, List.range_zero, List.map_nil]
    simp
    omega

def castBTree (page : Buf) (hl : Int) (h : PageHdr) : PyPage.BTreePageHeader :=
  { offset := h.offset, header_length := hl, contains_sqlite_database_header := h.containsDbHeader,
    root_page_only_md5_hex_digest :=
      if h.containsDbHeader then some (page.slice Generated.SQLITE_DATABASE_HEADER_LENGTH page.size).toList else none,
    page_type := (page.slice h.offset (h.offset + 1)).toList,
    first_freeblock_offset := h.firstFreeblock, number_of_cells_on_page := h.nCells,
    cell_content_offset := h.cellContentOffset, number_of_fragmented_free_bytes := h.fragBytes,
    md5_hex_digest := pySliceBuf page h.offset hl }

def castBTreeR (page : Buf) (hl : Int) : Py PageHdr → Py PyPage.BTreePageHeader
  | .ok h => .ok (castBTree page hl h)
  | .error e => .error e

theorem cco_cast (c : Nat) :
    (if (c : Int) = 0 then ((Generated.MAXIMUM_PAGE_SIZE : Nat) : Int) else (c : Int)) =
      ((if c = 0 then Generated.MAXIMUM_PAGE_SIZE else c : Nat) : Int) := by
  by_cases h : c = 0
  · subst h; rfl
  · have : ¬ (c : Int) = 0 := by omega
    rw [if_neg this, if_neg h]

theorem btree_eq (page : Buf) (hl : Int) :
    PyPage.BTreePageHeader.init page hl = castBTreeR page hl (parsePageHdr page false) := by
  unfold PyPage.BTreePageHeader.init parsePageHdr
  by_cases hm : page.size ≥ 1 ∧ page.rd 0 = 0x53
  · have g : pySliceBuf page 0 1 = Generated.MASTER_PAGE_HEX_ID := (master_iff page).mpr hm
    simp only [g, hm, if_true, decide_true, and_self]
    have r1 : pyUnpackBE false 2 (pySliceBuf page (0 + (Generated.SQLITE_DATABASE_HEADER_LENGTH : Int) + 1)
        (0 + (Generated.SQLITE_DATABASE_HEADER_LENGTH : Int) + 3)) = _ := unpackBE_nat page 101 2 _ _ rfl rfl (by decide)
    have r2 : pyUnpackBE false 2 (pySliceBuf page (0 + (Generated.SQLITE_DATABASE_HEADER_LENGTH : Int) + 3)
        (0 + (Generated.SQLITE_DATABASE_HEADER_LENGTH : Int) + 5)) = _ := unpackBE_nat page 103 2 _ _ rfl rfl (by decide)
    have r3 : pyUnpackBE false 2 (pySliceBuf page (0 + (Generated.SQLITE_DATABASE_HEADER_LENGTH : Int) + 5)
        (0 + (Generated.SQLITE_DATABASE_HEADER_LENGTH : Int) + 7)) = _ := unpackBE_nat page 105 2 _ _ rfl rfl (by decide)
    have r4 : pyOrdSlice page (0 + (Generated.SQLITE_DATABASE_HEADER_LENGTH : Int) + 7)
        (0 + (Generated.SQLITE_DATABASE_HEADER_LENGTH : Int) + 8) = _ := ord_nat page 107 _ _ rfl rfl
    have m1 : unpackAt page ((Generated.SQLITE_DATABASE_HEADER_LENGTH : Int) + 1) 2 = _ :=
      unpackAt_nat page 101 2 _ rfl (by decide)
    have m2 : unpackAt page ((Generated.SQLITE_DATABASE_HEADER_LENGTH : Int) + 3) 2 = _ :=
      unpackAt_nat page 103 2 _ rfl (by decide)
    have m3 : unpackAt page ((Generated.SQLITE_DATABASE_HEADER_LENGTH : Int) + 5) 2 = _ :=
      unpackAt_nat page 105 2 _ rfl (by decide)
    rw [r1, r2, r3, r4, m1, m2, m3]
    have hf : (if Generated.SQLITE_DATABASE_HEADER_LENGTH + 7 < page.size
        then Except.ok (page.rd (Generated.SQLITE_DATABASE_HEADER_LENGTH + 7))
        else Except.error PyErr.typeError : Py Nat) = ordAt page 107 := rfl
    rw [hf]
    cases unpackN page 101 2 with
    | error e => rfl
    | ok a =>
      cases unpackN page 103 2 with
      | error e => rfl
      | ok b =>
        cases unpackN page 105 2 with
        | error e => rfl
        | ok c =>
          cases ordAt page 107 with
          | error e => rfl
          | ok d =>
            simp only [castN, bind, Except.bind, pure, Except.pure, castBTreeR, castBTree, pyMd5, pyLenBuf]
            have s1 : pySliceBuf page (Generated.SQLITE_DATABASE_HEADER_LENGTH : Int) (page.size : Int) = _ :=
              slice_lit page 100 page.size _ _ rfl rfl
            have s2 : pySliceBuf page (0 + (Generated.SQLITE_DATABASE_HEADER_LENGTH : Int))
                (0 + (Generated.SQLITE_DATABASE_HEADER_LENGTH : Int) + 1) = _ := slice_lit page 100 101 _ _ rfl rfl
            rw [s1, s2, cco_cast, Int.zero_add]
            rfl
  · have g : ¬ pySliceBuf page 0 1 = Generated.MASTER_PAGE_HEX_ID := fun h => hm ((master_iff page).mp h)
    simp only [g, hm, if_false, decide_false, Bool.false_eq_true]
    have r1 : pyUnpackBE false 2 (pySliceBuf page (0 + 1) (0 + 3)) = _ := unpackBE_nat page 1 2 _ _ rfl rfl (by decide)
    have r2 : pyUnpackBE false 2 (pySliceBuf page (0 + 3) (0 + 5)) = _ := unpackBE_nat page 3 2 _ _ rfl rfl (by decide)
    have r3 : pyUnpackBE false 2 (pySliceBuf page (0 + 5) (0 + 7)) = _ := unpackBE_nat page 5 2 _ _ rfl rfl (by decide)
    have r4 : pyOrdSlice page (0 + 7) (0 + 8) = _ := ord_nat page 7 _ _ rfl rfl
    have m1 : unpackAt page (((0 : Nat) : Int) + 1) 2 = _ := unpackAt_nat page 1 2 _ rfl (by decide)
    have m2 : unpackAt page (((0 : Nat) : Int) + 3) 2 = _ := unpackAt_nat page 3 2 _ rfl (by decide)
    have m3 : unpackAt page (((0 : Nat) : Int) + 5) 2 = _ := unpackAt_nat page 5 2 _ rfl (by decide)
    have hf : (if 0 + 7 < page.size then Except.ok (page.rd (0 + 7)) else Except.error PyErr.typeError : Py Nat) =
      ordAt page 7 := rfl
    rw [r1, r2, r3, r4, m1, m2, m3, hf]
    cases unpackN page 1 2 with
    | error e => rfl
    | ok a =>
      cases unpackN page 3 2 with
      | error e => rfl
      | ok b =>
        cases unpackN page 5 2 with
        | error e => rfl
        | ok c =>
          cases ordAt page 7 with
          | error e => rfl
          | ok d =>
            simp only [castN, bind, Except.bind, pure, Except.pure, castBTreeR, castBTree, pyMd5]
            have s2 : pySliceBuf page 0 (0 + 1) = _ := slice_lit page 0 1 _ _ rfl rfl
            rw [s2, cco_cast]
            rfl

/-! ### LeafPageHeader, InteriorPageHeader -/

theorem parsePageHdr_true (page : Buf) :
    parsePageHdr page true = (do
      let h ← parsePageHdr page false
      let rm ← unpackAt page (h.offset + Generated.RIGHT_MOST_POINTER_OFFSET) Generated.RIGHT_MOST_POINTER_LENGTH
      pure { h with headerLength := Generated.INTERIOR_PAGE_HEADER_LENGTH, rightMost := some rm }) := by
  unfold parsePageHdr
  simp only [Bool.false_eq_true, if_false, if_true]
  simp only [bind_assoc, pure_bind]

def castLeaf (page : Buf) (h : PageHdr) : PyPage.LeafPageHeader :=
  { offset := h.offset, header_length := h.headerLength, contains_sqlite_database_header := h.containsDbHeader,
    root_page_only_md5_hex_digest :=
      if h.containsDbHeader then some (page.slice Generated.SQLITE_DATABASE_HEADER_LENGTH page.size).toList else none,
    page_type := (page.slice h.offset (h.offset + 1)).toList,
    first_freeblock_offset := h.firstFreeblock, number_of_cells_on_page := h.nCells,
    cell_content_offset := h.cellContentOffset, number_of_fragmented_free_bytes := h.fragBytes,
    md5_hex_digest := (page.slice h.offset h.headerLength).toList }

def castLeafR (page : Buf) : Py PageHdr → Py PyPage.LeafPageHeader
  | .ok h => .ok (castLeaf page h)
  | .error e => .error e

/-- `right_most_pointer` is an attribute of interior headers only: a model header without one (a leaf header) is
read with 0 there — never the case for the result of `parsePageHdr page true` -/
def castInterior (page : Buf) (h : PageHdr) : PyPage.InteriorPageHeader :=
  { offset := h.offset, header_length := h.headerLength, contains_sqlite_database_header := h.containsDbHeader,
    root_page_only_md5_hex_digest :=
      if h.containsDbHeader then some (page.slice Generated.SQLITE_DATABASE_HEADER_LENGTH page.size).toList else none,
    page_type := (page.slice h.offset (h.offset + 1)).toList,
    first_freeblock_offset := h.firstFreeblock, number_of_cells_on_page := h.nCells,
    cell_content_offset := h.cellContentOffset, number_of_fragmented_free_bytes := h.fragBytes,
    md5_hex_digest := (page.slice h.offset h.headerLength).toList,
    right_most_pointer := (h.rightMost.getD 0 : Nat) }

def castInteriorR (page : Buf) : Py PageHdr → Py PyPage.InteriorPageHeader
  | .ok h => .ok (castInterior page h)
  | .error e => .error e

theorem parsePageHdr_false_len (page : Buf) (h : PageHdr) (hp : parsePageHdr page false = .ok h) :
    h.headerLength = Generated.LEAF_PAGE_HEADER_LENGTH ∧ h.rightMost = none := by
  unfold parsePageHdr at hp
  simp only [Bool.false_eq_true, if_false] at hp
  generalize (if decide (page.size ≥ 1 ∧ page.rd 0 = 0x53) = true then Generated.SQLITE_DATABASE_HEADER_LENGTH else 0) = off at hp
  cases h1 : unpackAt page (↑off + 1) 2 <;> rw [h1] at hp <;> try cases hp
  cases h2 : unpackAt page (↑off + 3) 2 <;> rw [h2] at hp <;> try cases hp
  cases h3 : unpackAt page (↑off + 5) 2 <;> rw [h3] at hp <;> try cases hp
  by_cases h4 : off + 7 < page.size
  · rw [if_pos h4] at hp
    cases hp
    exact ⟨rfl, rfl⟩
  · rw [if_neg h4] at hp
    cases hp

theorem leaf_eq (page : Buf) :
    PyPage.LeafPageHeader.init page = castLeafR page (parsePageHdr page false) := by
  unfold PyPage.LeafPageHeader.init
  rw [btree_eq]
  cases hp : parsePageHdr page false with
  | error e => rfl
  | ok h =>
    obtain ⟨hl, _⟩ := parsePageHdr_false_len page h hp
    simp only [castBTreeR, castBTree, bind, Except.bind, castLeafR, castLeaf]
    have s : pySliceBuf page (h.offset : Int) (Generated.LEAF_PAGE_HEADER_LENGTH : Int) = _ :=
      slice_lit page h.offset 8 _ _ rfl rfl
    rw [s, hl]
    rfl

theorem interior_eq (page : Buf) :
    PyPage.InteriorPageHeader.init page = castInteriorR page (parsePageHdr page true) := by
  unfold PyPage.InteriorPageHeader.init
  rw [btree_eq, parsePageHdr_true]
  cases hp : parsePageHdr page false with
  | error e => rfl
  | ok h =>
    simp only [castBTreeR, castBTree, bind, Except.bind]
    have r : pyUnpackBE false 4 (pySliceBuf page ((h.offset : Int) + (Generated.RIGHT_MOST_POINTER_OFFSET : Int))
        ((h.offset : Int) + (Generated.RIGHT_MOST_POINTER_OFFSET : Int) + (Generated.RIGHT_MOST_POINTER_LENGTH : Int))) = _ :=
      unpackBE_nat page (h.offset + 8) 4 _ _ (by simp only [Generated.RIGHT_MOST_POINTER_OFFSET]; omega)
        (by simp only [Generated.RIGHT_MOST_POINTER_OFFSET, Generated.RIGHT_MOST_POINTER_LENGTH]; omega) (by decide)
    have m : unpackAt page ((h.offset : Int) + (Generated.RIGHT_MOST_POINTER_OFFSET : Int))
        Generated.RIGHT_MOST_POINTER_LENGTH = _ :=
      unpackAt_nat page (h.offset + 8) 4 _ (by simp only [Generated.RIGHT_MOST_POINTER_OFFSET]; omega) (by decide)
    rw [r, m]
    cases unpackN page (h.offset + 8) 4 with
    | error e => rfl
    | ok rm =>
      simp only [castN, castInteriorR, castInterior, pure, Except.pure]
      have s : pySliceBuf page (h.offset : Int) (Generated.INTERIOR_PAGE_HEADER_LENGTH : Int) = _ :=
        slice_lit page h.offset 12 _ _ rfl rfl
      rw [s]
      rfl
/-- what the code hashes into `md5_hex_digest` is `page[offset:header_length]` — not `page[offset:offset +
header_length]`: on a page that carries the database header (offset 100, header length 8 or 12) that slice is
empty, so the header digest of every root page 1 is the digest of the empty string -/
theorem parsePageHdr_offset (page : Buf) (i : Bool) (h : PageHdr) (hp : parsePageHdr page i = .ok h)
    (hc : h.containsDbHeader = true) : h.offset = Generated.SQLITE_DATABASE_HEADER_LENGTH := by
  unfold parsePageHdr at hp
  generalize hd : decide (page.size ≥ 1 ∧ page.rd 0 = 0x53) = d at hp
  cases d with
  | false =>
    simp only [Bool.false_eq_true, if_false] at hp
    cases h1 : unpackAt page (((0 : Nat) : Int) + 1) 2 <;> rw [h1] at hp <;> try cases hp
    cases h2 : unpackAt page (((0 : Nat) : Int) + 3) 2 <;> rw [h2] at hp <;> try cases hp
    cases h3 : unpackAt page (((0 : Nat) : Int) + 5) 2 <;> rw [h3] at hp <;> try cases hp
    by_cases h4 : 0 + 7 < page.size
    · rw [if_pos h4] at hp
      cases i <;> simp only [Bool.false_eq_true, if_false, if_true] at hp
      · cases hp; cases hc
      · cases h5 : unpackAt page (((0 : Nat) : Int) + (Generated.RIGHT_MOST_POINTER_OFFSET : Int))
          Generated.RIGHT_MOST_POINTER_LENGTH <;> rw [h5] at hp <;> cases hp
        cases hc
    · rw [if_neg h4] at hp
      cases hp
  | true =>
    simp only [if_true] at hp
    cases h1 : unpackAt page ((Generated.SQLITE_DATABASE_HEADER_LENGTH : Int) + 1) 2 <;> rw [h1] at hp <;> try cases hp
    cases h2 : unpackAt page ((Generated.SQLITE_DATABASE_HEADER_LENGTH : Int) + 3) 2 <;> rw [h2] at hp <;> try cases hp
    cases h3 : unpackAt page ((Generated.SQLITE_DATABASE_HEADER_LENGTH : Int) + 5) 2 <;> rw [h3] at hp <;> try cases hp
    by_cases h4 : Generated.SQLITE_DATABASE_HEADER_LENGTH + 7 < page.size
    · rw [if_pos h4] at hp
      cases i <;> simp only [Bool.false_eq_true, if_false, if_true] at hp
      · cases hp; rfl
      · cases h5 : unpackAt page ((Generated.SQLITE_DATABASE_HEADER_LENGTH : Int) + (Generated.RIGHT_MOST_POINTER_OFFSET : Int))
          Generated.RIGHT_MOST_POINTER_LENGTH <;> rw [h5] at hp <;> cases hp
        rfl
    · rw [if_neg h4] at hp
      cases hp

theorem root_md5_empty (page : Buf) (r : PyPage.LeafPageHeader) (h : PyPage.LeafPageHeader.init page = .ok r)
    (hc : r.contains_sqlite_database_header = true) : r.md5_hex_digest = [] := by
  rw [leaf_eq] at h
  cases hp : parsePageHdr page false with
  | error e => rw [hp] at h; cases h
  | ok ph =>
    rw [hp] at h
    simp only [castLeafR, Except.ok.injEq] at h
    subst h
    have hc' : ph.containsDbHeader = true := hc
    have ho := parsePageHdr_offset page false ph hp hc'
    have hl := (parsePageHdr_false_len page ph hp).1
    show (page.slice ph.offset ph.headerLength).toList = []
    rw [ho, hl]
    unfold Buf.slice Buf.toList
    have : min Generated.LEAF_PAGE_HEADER_LENGTH page.size - min Generated.SQLITE_DATABASE_HEADER_LENGTH page.size = 0 := by
      simp only [Generated.LEAF_PAGE_HEADER_LENGTH, Generated.SQLITE_DATABASE_HEADER_LENGTH]; omega
    simp only [this, List.range_zero, List.map_nil]

/-! ### little-endian reads -/

theorem pyLE_cons (x : Nat) (l : List Nat) : pyLE (x :: l) = x + 256 * pyLE l := rfl

theorem pyLE_range (rd : Nat → Nat) : ∀ (n off : Nat), pyLE ((List.range n).map fun i => rd (off + i)) =
    Buf.leN ⟨0, rd⟩ off n := by
  intro n
  induction n with
  | zero => intro off; rfl
  | succ n ih =>
    intro off
    rw [List.range_succ_eq_map, List.map_cons, List.map_map, pyLE_cons]
    have e : ((fun i => rd (off + i)) ∘ Nat.succ) = fun i => rd ((off + 1) + i) := by
      funext i
      simp only [Function.comp, Nat.succ_eq_add_one]
      congr 1
      omega
    rw [e, ih (off + 1)]
    rfl

theorem leN_rd (b : Buf) : ∀ (n off : Nat), Buf.leN ⟨0, b.rd⟩ off n = b.leN off n := by
  intro n
  induction n with
  | zero => intro off; rfl
  | succ n ih => intro off; simp only [Buf.leN, ih]

theorem slice_toList_le (b : Buf) (off n : Nat) (h : off + n ≤ b.size) :
    pyLE (b.slice off (off + n)).toList = b.leN off n := by
  unfold Buf.slice Buf.toList
  have e1 : min off b.size = off := by omega
  have e2 : min (off + n) b.size - off = n := by omega
  simp only [e1, e2]
  rw [pyLE_range, leN_rd]

/-- `unpack("<H" | "<I", b[l:h])[0]` inside the buffer -/
theorem unpackLE_lit (b : Buf) (off n : Nat) (l h : Int) (hl : l = (off : Int)) (hh : h = ((off + n : Nat) : Int))
    (hin : off + n ≤ b.size) :
    pyUnpackLE false n (pySliceBuf b l h) = .ok ((b.leN off n : Nat) : Int) := by
  subst hl hh
  rw [pySliceBuf_nat]
  unfold pyUnpackLE
  rw [slice_toList_length, if_pos (by omega), slice_toList_le b off n hin]
  simp

theorem u32le_ok (b : Buf) (off : Nat) (h : off + 4 ≤ b.size) : b.u32le off = .ok (b.leN off 4) := by
  unfold Buf.u32le; rw [if_pos h]
theorem u16le_ok (b : Buf) (off : Nat) (h : off + 2 ≤ b.size) : b.u16le off = .ok (b.leN off 2) := by
  unfold Buf.u16le; rw [if_pos h]


/-! ### WriteAheadLogIndexSubHeader -/

/-- `ENDIANNESS.BIG_ENDIAN` / `ENDIANNESS.LITTLE_ENDIAN`: the members of the `Enum` of constants.py are the strings
that name them -/
def endName (bigEndian : Bool) : List Char :=
  if bigEndian then ['B', 'I', 'G', '_', 'E', 'N', 'D', 'I', 'A', 'N']
  else ['L', 'I', 'T', 'T', 'L', 'E', '_', 'E', 'N', 'D', 'I', 'A', 'N']

def castSub (raw : List Nat) (h : WalIndexSubHeader) : PyPage.WriteAheadLogIndexSubHeader :=
  { index := h.index, endianness := endName h.bigEndian, file_format_version := h.fileFormatVersion,
    unused_padding_field := h.unusedPadding, change_counter := h.changeCounter, initialized := h.initialized,
    checksums_in_big_endian := h.checksumsBigEndian, page_size := h.pageSize,
    last_valid_frame_index := h.lastValidFrame, database_size_in_pages := h.dbSizeInPages,
    frame_checksum_1 := h.frameChecksum1, frame_checksum_2 := h.frameChecksum2, salt_1 := h.salt1, salt_2 := h.salt2,
    checksum_1 := h.checksum1, checksum_2 := h.checksum2, md5_hex_digest := raw }

def castSubR (raw : List Nat) : Py WalIndexSubHeader → Py PyPage.WriteAheadLogIndexSubHeader
  | .ok h => .ok (castSub raw h)
  | .error e => .error e

theorem sub_eq (index : Nat) (b : Buf) :
    PyPage.WriteAheadLogIndexSubHeader.init (index : Int) b = castSubR b.toList (parseWalIndexSubHeader index b) := by
  unfold PyPage.WriteAheadLogIndexSubHeader.init parseWalIndexSubHeader pyLenBuf
  by_cases hi : index > Generated.WAL_INDEX_NUMBER_OF_SUB_HEADERS
  · have c : (index : Int) < 0 ∨ (index : Int) > (Generated.WAL_INDEX_NUMBER_OF_SUB_HEADERS : Int) := by omega
    rw [if_pos c, if_pos hi]; rfl
  have c : ¬ ((index : Int) < 0 ∨ (index : Int) > (Generated.WAL_INDEX_NUMBER_OF_SUB_HEADERS : Int)) := by omega
  rw [if_neg c, if_neg hi]
  by_cases hsz : b.size = 48
  · have c1 : ¬ ((b.size : Int) ≠ (Generated.WAL_INDEX_SUB_HEADER_LENGTH : Int)) := by
      simp only [Generated.WAL_INDEX_SUB_HEADER_LENGTH]; omega
    have c2 : ¬ (b.size ≠ Generated.WAL_INDEX_SUB_HEADER_LENGTH) := by
      simp only [Generated.WAL_INDEX_SUB_HEADER_LENGTH]; omega
    rw [if_neg c1, if_neg c2]
    have l0 : pyUnpackLE false 4 (pySliceBuf b 0 4) = _ := unpackLE_lit b 0 4 _ _ rfl rfl (by omega)
    have b0 : pyUnpackBE false 4 (pySliceBuf b 0 4) = _ := unpack_lit b 0 4 _ _ rfl rfl (by decide) (by omega)
    have l4 : pyUnpackLE false 4 (pySliceBuf b 4 8) = _ := unpackLE_lit b 4 4 _ _ rfl rfl (by omega)
    have l8 : pyUnpackLE false 4 (pySliceBuf b 8 12) = _ := unpackLE_lit b 8 4 _ _ rfl rfl (by omega)
    have o12 : pyOrdSlice b 12 13 = _ := ord_lit b 12 _ _ rfl rfl (by omega)
    have o13 : pyOrdSlice b 13 14 = _ := ord_lit b 13 _ _ rfl rfl (by omega)
    have l14 : pyUnpackLE false 2 (pySliceBuf b 14 16) = _ := unpackLE_lit b 14 2 _ _ rfl rfl (by omega)
    have l16 : pyUnpackLE false 4 (pySliceBuf b 16 20) = _ := unpackLE_lit b 16 4 _ _ rfl rfl (by omega)
    have l20 : pyUnpackLE false 4 (pySliceBuf b 20 24) = _ := unpackLE_lit b 20 4 _ _ rfl rfl (by omega)
    have l24 : pyUnpackLE false 4 (pySliceBuf b 24 28) = _ := unpackLE_lit b 24 4 _ _ rfl rfl (by omega)
    have l28 : pyUnpackLE false 4 (pySliceBuf b 28 32) = _ := unpackLE_lit b 28 4 _ _ rfl rfl (by omega)
    have l32 : pyUnpackLE false 4 (pySliceBuf b 32 36) = _ := unpackLE_lit b 32 4 _ _ rfl rfl (by omega)
    have l36 : pyUnpackLE false 4 (pySliceBuf b 36 40) = _ := unpackLE_lit b 36 4 _ _ rfl rfl (by omega)
    have l40 : pyUnpackLE false 4 (pySliceBuf b 40 44) = _ := unpackLE_lit b 40 4 _ _ rfl rfl (by omega)
    have l44 : pyUnpackLE false 4 (pySliceBuf b 44 48) = _ := unpackLE_lit b 44 4 _ _ rfl rfl (by omega)
    have ordAt_ok : ∀ i, i < 48 → ordAt b i = .ok (b.rd i) := by
      intro i hi; unfold ordAt; rw [if_pos (by omega)]
    rw [l0, b0, l4, l8, o12, o13, l14, l16, l20, l24, l28, l32, l36, l40, l44,
      u32le_ok b 0 (by omega), u32_ok b 0 (by omega), u32le_ok b 4 (by omega), u32le_ok b 8 (by omega),
      ordAt_ok 12 (by omega), ordAt_ok 13 (by omega), u16le_ok b 14 (by omega), u32le_ok b 16 (by omega),
      u32le_ok b 20 (by omega), u32le_ok b 24 (by omega), u32le_ok b 28 (by omega), u32le_ok b 32 (by omega),
      u32le_ok b 36 (by omega), u32le_ok b 40 (by omega), u32le_ok b 44 (by omega)]
    simp only [bind, Except.bind]
    generalize b.leN 0 4 = fv
    generalize b.beN 0 4 = fvb
    by_cases hv : fv ≠ Generated.WAL_INDEX_FILE_FORMAT_VERSION
    · have g : (fv : Int) ≠ (Generated.WAL_INDEX_FILE_FORMAT_VERSION : Int) := by omega
      rw [if_pos g, if_pos hv]
      by_cases hvb : fvb ≠ Generated.WAL_INDEX_FILE_FORMAT_VERSION
      · have g : (fvb : Int) ≠ (Generated.WAL_INDEX_FILE_FORMAT_VERSION : Int) := by omega
        rw [if_pos g, if_pos hvb]; rfl
      · have g : ¬ (fvb : Int) ≠ (Generated.WAL_INDEX_FILE_FORMAT_VERSION : Int) := by omega
        rw [if_neg g, if_neg hvb]; rfl
    · have g : ¬ (fv : Int) ≠ (Generated.WAL_INDEX_FILE_FORMAT_VERSION : Int) := by omega
      rw [if_neg g, if_neg hv]
      rfl
  · have c1 : (b.size : Int) ≠ (Generated.WAL_INDEX_SUB_HEADER_LENGTH : Int) := by
      simp only [Generated.WAL_INDEX_SUB_HEADER_LENGTH]; omega
    have c2 : b.size ≠ Generated.WAL_INDEX_SUB_HEADER_LENGTH := by
      simp only [Generated.WAL_INDEX_SUB_HEADER_LENGTH]; omega
    rw [if_pos c1, if_pos c2]
    rfl

/-- a negative index (never passed by `WriteAheadLogIndexHeader`) is a `ValueError` before anything is read -/
theorem sub_neg (i : Int) (hi : i < 0) (b : Buf) :
    PyPage.WriteAheadLogIndexSubHeader.init i b = .error .valueError := by
  unfold PyPage.WriteAheadLogIndexSubHeader.init
  rw [if_pos (Or.inl hi)]


/-! ### WriteAheadLogIndexCheckpointInfo -/

def castCk (raw : List Nat) (h : WalIndexCheckpointInfo) : PyPage.WriteAheadLogIndexCheckpointInfo :=
  { endianness := endName h.bigEndian, number_of_frames_backfilled_in_database := h.backfilled,
    reader_marks := h.readerMarks.map fun n : Nat => (n : Int), md5_hex_digest := raw }

def castCkR (raw : List Nat) : Py WalIndexCheckpointInfo → Py PyPage.WriteAheadLogIndexCheckpointInfo
  | .ok h => .ok (castCk raw h)
  | .error e => .error e

/-- the reader-mark loop: `n` more marks from index `i` on, all inside the buffer -/
theorem ck_loop (b : Buf) : ∀ (n i : Nat) (acc : List Int), (i + n) * 4 + 4 ≤ b.size →
    PyPage.WriteAheadLogIndexCheckpointInfo.init_loop1 b n (i : Int) acc =
      .ok (acc ++ (List.range n).map fun k => ((b.leN ((i + k) * 4 + 4) 4 : Nat) : Int)) := by
  intro n
  induction n with
  | zero => intro i acc _; simp [PyPage.WriteAheadLogIndexCheckpointInfo.init_loop1]
  | succ n ih =>
    intro i acc hle
    simp only [PyPage.WriteAheadLogIndexCheckpointInfo.init_loop1]
    have r : pyUnpackLE false 4 (pySliceBuf b
        ((i : Int) * (Generated.WAL_INDEX_READER_MARK_LENGTH : Int) +
          (Generated.WAL_INDEX_NUMBER_OF_FRAMES_BACKFILLED_IN_DATABASE_LENGTH : Int))
        ((i : Int) * (Generated.WAL_INDEX_READER_MARK_LENGTH : Int) +
          (Generated.WAL_INDEX_NUMBER_OF_FRAMES_BACKFILLED_IN_DATABASE_LENGTH : Int) +
          (Generated.WAL_INDEX_READER_MARK_LENGTH : Int))) = _ :=
      unpackLE_lit b (i * 4 + 4) 4 _ _
        (by simp only [Generated.WAL_INDEX_READER_MARK_LENGTH,
              Generated.WAL_INDEX_NUMBER_OF_FRAMES_BACKFILLED_IN_DATABASE_LENGTH]; omega)
        (by simp only [Generated.WAL_INDEX_READER_MARK_LENGTH,
              Generated.WAL_INDEX_NUMBER_OF_FRAMES_BACKFILLED_IN_DATABASE_LENGTH]; omega) (by omega)
    rw [r]
    simp only [bind, Except.bind]
    have e : (i : Int) + 1 = ((i + 1 : Nat) : Int) := by omega
    rw [e, ih (i + 1) _ (by omega)]
    have hm : List.map (fun k => ((b.leN ((i + 1 + k) * 4 + 4) 4 : Nat) : Int)) (List.range n) =
        List.map ((fun k => ((b.leN ((i + k) * 4 + 4) 4 : Nat) : Int)) ∘ Nat.succ) (List.range n) := by
      apply List.map_congr_left
      intro k _
      simp only [Function.comp, Nat.succ_eq_add_one]
      have : i + 1 + k = i + (k + 1) := by omega
      rw [this]
    rw [List.range_succ_eq_map, List.map_cons, List.map_map, List.append_assoc, hm]
    rfl

theorem ck_eq (b : Buf) (bigEndian : Bool) :
    PyPage.WriteAheadLogIndexCheckpointInfo.init b (endName bigEndian) =
      castCkR b.toList (parseWalIndexCheckpointInfo b bigEndian) := by
  unfold PyPage.WriteAheadLogIndexCheckpointInfo.init parseWalIndexCheckpointInfo pyLenBuf
  by_cases hsz : b.size = 24
  · have c1 : ¬ ((b.size : Int) ≠ (Generated.WAL_INDEX_CHECKPOINT_INFO_LENGTH : Int)) := by
      simp only [Generated.WAL_INDEX_CHECKPOINT_INFO_LENGTH]; omega
    have c2 : ¬ (b.size ≠ Generated.WAL_INDEX_CHECKPOINT_INFO_LENGTH) := by
      simp only [Generated.WAL_INDEX_CHECKPOINT_INFO_LENGTH]; omega
    rw [if_neg c1, if_neg c2]
    have l0 : pyUnpackLE false 4 (pySliceBuf b 0 4) = _ := unpackLE_lit b 0 4 _ _ rfl rfl (by omega)
    have e5 : Int.toNat ((Generated.WAL_INDEX_READER_MARK_SIZE : Int) - 0) = 5 := rfl
    have lp := ck_loop b 5 0 [] (by omega)
    rw [l0, e5]
    simp only [bind, Except.bind]
    rw [show (0 : Int) = ((0 : Nat) : Int) from rfl, lp]
    rw [u32le_ok b 0 (by omega), u32le_ok b _ (by simp; omega), u32le_ok b _ (by simp; omega),
      u32le_ok b _ (by simp; omega), u32le_ok b _ (by simp; omega), u32le_ok b _ (by simp; omega)]
    rfl
  · have c1 : (b.size : Int) ≠ (Generated.WAL_INDEX_CHECKPOINT_INFO_LENGTH : Int) := by
      simp only [Generated.WAL_INDEX_CHECKPOINT_INFO_LENGTH]; omega
    have c2 : b.size ≠ Generated.WAL_INDEX_CHECKPOINT_INFO_LENGTH := by
      simp only [Generated.WAL_INDEX_CHECKPOINT_INFO_LENGTH]; omega
    rw [if_pos c1, if_pos c2]
    rfl


/-! ### WriteAheadLogIndexHeader -/

theorem leN_congr {a b : Buf} (h : BufEq a b) : ∀ (n off : Nat), off + n ≤ a.size → a.leN off n = b.leN off n := by
  intro n
  induction n with
  | zero => intro _ _; rfl
  | succ n ih =>
    intro off hle
    simp only [Buf.leN]
    rw [ih (off + 1) (by omega), h.2 off (by omega)]

theorem u32le_congr {a b : Buf} (h : BufEq a b) (off : Nat) : a.u32le off = b.u32le off := by
  unfold Buf.u32le
  rw [← h.1]
  by_cases hle : off + 4 ≤ a.size
  · rw [if_pos hle, if_pos hle, leN_congr h 4 off hle]
  · rw [if_neg hle, if_neg hle]

theorem u16le_congr {a b : Buf} (h : BufEq a b) (off : Nat) : a.u16le off = b.u16le off := by
  unfold Buf.u16le
  rw [← h.1]
  by_cases hle : off + 2 ≤ a.size
  · rw [if_pos hle, if_pos hle, leN_congr h 2 off hle]
  · rw [if_neg hle, if_neg hle]

theorem u32_congr {a b : Buf} (h : BufEq a b) (off : Nat) : a.u32 off = b.u32 off := by
  unfold Buf.u32
  rw [← h.1]
  by_cases hle : off + 4 ≤ a.size
  · rw [if_pos hle, if_pos hle, beN_congr h off 4 hle]
  · rw [if_neg hle, if_neg hle]

theorem ordAt_congr {a b : Buf} (h : BufEq a b) (i : Nat) : ordAt a i = ordAt b i := by
  unfold ordAt
  rw [← h.1]
  by_cases hlt : i < a.size
  · rw [if_pos hlt, if_pos hlt, h.2 i hlt]
  · rw [if_neg hlt, if_neg hlt]

/-- the sub-header parser reads its buffer only below its size -/
theorem parseSub_congr {a b : Buf} (h : BufEq a b) (index : Nat) :
    parseWalIndexSubHeader index a = parseWalIndexSubHeader index b := by
  unfold parseWalIndexSubHeader
  simp only [u32le_congr h, u16le_congr h, u32_congr h, ordAt_congr h, h.1]

theorem parseCk_congr {a b : Buf} (h : BufEq a b) (be : Bool) :
    parseWalIndexCheckpointInfo a be = parseWalIndexCheckpointInfo b be := by
  unfold parseWalIndexCheckpointInfo
  simp only [u32le_congr h, h.1]

/-- a sub-header handed on as `bytes[lo:hi]`: the constructor sees the slice as a buffer of its own -/
theorem sub_slice (b : Buf) (index lo hi : Nat) :
    PyPage.WriteAheadLogIndexSubHeader.init (index : Int) (Buf.ofList (b.slice lo hi).toList) =
      castSubR (b.slice lo hi).toList (parseWalIndexSubHeader index (b.slice lo hi)) := by
  rw [sub_eq, Proofs.Codec.ofList_toList, ← parseSub_congr (bufEq_ofList (b.slice lo hi))]

theorem ck_slice (b : Buf) (be : Bool) (lo hi : Nat) :
    PyPage.WriteAheadLogIndexCheckpointInfo.init (Buf.ofList (b.slice lo hi).toList) (endName be) =
      castCkR (b.slice lo hi).toList (parseWalIndexCheckpointInfo (b.slice lo hi) be) := by
  rw [ck_eq, Proofs.Codec.ofList_toList, ← parseCk_congr (bufEq_ofList (b.slice lo hi))]

def castHdr (b : Buf) (h : WalIndexHeader) : PyPage.WriteAheadLogIndexHeader :=
  { sub_headers := h.subHeaders.mapIdx fun i s =>
      castSub (b.slice (i * Generated.WAL_INDEX_SUB_HEADER_LENGTH)
        (i * Generated.WAL_INDEX_SUB_HEADER_LENGTH + Generated.WAL_INDEX_SUB_HEADER_LENGTH)).toList s,
    page_size := h.pageSize, endianness := endName h.bigEndian,
    checkpoint_info := castCk (b.slice (Generated.WAL_INDEX_NUMBER_OF_SUB_HEADERS * Generated.WAL_INDEX_SUB_HEADER_LENGTH)
      (Generated.WAL_INDEX_NUMBER_OF_SUB_HEADERS * Generated.WAL_INDEX_SUB_HEADER_LENGTH +
        Generated.WAL_INDEX_CHECKPOINT_INFO_LENGTH)).toList h.checkpoint,
    lock_reserved := h.lockReserved, md5_hex_digest := h.raw }

def castHdrR (b : Buf) : Py WalIndexHeader → Py PyPage.WriteAheadLogIndexHeader
  | .ok h => .ok (castHdr b h)
  | .error e => .error e

theorem hdr_eq (b : Buf) :
    PyPage.WriteAheadLogIndexHeader.init b = castHdrR b (parseWalIndexHeader b) := by
  unfold PyPage.WriteAheadLogIndexHeader.init parseWalIndexHeader pyLenBuf
  by_cases hsz : b.size = 136
  · have c1 : ¬ ((b.size : Int) ≠ (Generated.WAL_INDEX_HEADER_LENGTH : Int)) := by
      simp only [Generated.WAL_INDEX_HEADER_LENGTH]; omega
    have c2 : ¬ (b.size ≠ Generated.WAL_INDEX_HEADER_LENGTH) := by
      simp only [Generated.WAL_INDEX_HEADER_LENGTH]; omega
    rw [if_neg c1, if_neg c2]
    have e2 : Int.toNat ((Generated.WAL_INDEX_NUMBER_OF_SUB_HEADERS : Int) - 0) = 2 := rfl
    rw [e2]
    simp only [PyPage.WriteAheadLogIndexHeader.init_loop1]
    have p0 : pySliceBuf b (0 * (Generated.WAL_INDEX_SUB_HEADER_LENGTH : Int))
        (0 * (Generated.WAL_INDEX_SUB_HEADER_LENGTH : Int) + (Generated.WAL_INDEX_SUB_HEADER_LENGTH : Int)) = _ :=
      slice_lit b (0 * Generated.WAL_INDEX_SUB_HEADER_LENGTH)
        (0 * Generated.WAL_INDEX_SUB_HEADER_LENGTH + Generated.WAL_INDEX_SUB_HEADER_LENGTH) _ _ rfl rfl
    have p1 : pySliceBuf b ((0 + 1) * (Generated.WAL_INDEX_SUB_HEADER_LENGTH : Int))
        ((0 + 1) * (Generated.WAL_INDEX_SUB_HEADER_LENGTH : Int) + (Generated.WAL_INDEX_SUB_HEADER_LENGTH : Int)) = _ :=
      slice_lit b (1 * Generated.WAL_INDEX_SUB_HEADER_LENGTH)
        (1 * Generated.WAL_INDEX_SUB_HEADER_LENGTH + Generated.WAL_INDEX_SUB_HEADER_LENGTH) _ _ rfl rfl
    have p2 : pySliceBuf b ((Generated.WAL_INDEX_NUMBER_OF_SUB_HEADERS : Int) * (Generated.WAL_INDEX_SUB_HEADER_LENGTH : Int))
        ((Generated.WAL_INDEX_NUMBER_OF_SUB_HEADERS : Int) * (Generated.WAL_INDEX_SUB_HEADER_LENGTH : Int) +
          (Generated.WAL_INDEX_CHECKPOINT_INFO_LENGTH : Int)) = _ :=
      slice_lit b (Generated.WAL_INDEX_NUMBER_OF_SUB_HEADERS * Generated.WAL_INDEX_SUB_HEADER_LENGTH)
        (Generated.WAL_INDEX_NUMBER_OF_SUB_HEADERS * Generated.WAL_INDEX_SUB_HEADER_LENGTH +
          Generated.WAL_INDEX_CHECKPOINT_INFO_LENGTH) _ _ rfl rfl
    have p3 : pySliceBuf b ((Generated.WAL_INDEX_NUMBER_OF_SUB_HEADERS : Int) * (Generated.WAL_INDEX_SUB_HEADER_LENGTH : Int) +
          (Generated.WAL_INDEX_CHECKPOINT_INFO_LENGTH : Int))
        ((Generated.WAL_INDEX_NUMBER_OF_SUB_HEADERS : Int) * (Generated.WAL_INDEX_SUB_HEADER_LENGTH : Int) +
          (Generated.WAL_INDEX_CHECKPOINT_INFO_LENGTH : Int) + (Generated.WAL_INDEX_LOCK_RESERVED_LENGTH : Int)) = _ :=
      slice_lit b (Generated.WAL_INDEX_NUMBER_OF_SUB_HEADERS * Generated.WAL_INDEX_SUB_HEADER_LENGTH +
          Generated.WAL_INDEX_CHECKPOINT_INFO_LENGTH)
        (Generated.WAL_INDEX_NUMBER_OF_SUB_HEADERS * Generated.WAL_INDEX_SUB_HEADER_LENGTH +
          Generated.WAL_INDEX_CHECKPOINT_INFO_LENGTH + Generated.WAL_INDEX_LOCK_RESERVED_LENGTH) _ _ rfl rfl
    rw [p0, p1, p2, p3]
    have h0 : PyPage.WriteAheadLogIndexSubHeader.init 0 (Buf.ofList (b.slice (0 * Generated.WAL_INDEX_SUB_HEADER_LENGTH)
        (0 * Generated.WAL_INDEX_SUB_HEADER_LENGTH + Generated.WAL_INDEX_SUB_HEADER_LENGTH)).toList) = _ :=
      sub_slice b 0 _ _
    have h1 : PyPage.WriteAheadLogIndexSubHeader.init (0 + 1) (Buf.ofList (b.slice (1 * Generated.WAL_INDEX_SUB_HEADER_LENGTH)
        (1 * Generated.WAL_INDEX_SUB_HEADER_LENGTH + Generated.WAL_INDEX_SUB_HEADER_LENGTH)).toList) = _ :=
      sub_slice b 1 _ _
    rw [h0, h1]
    cases parseWalIndexSubHeader 0 (b.slice (0 * Generated.WAL_INDEX_SUB_HEADER_LENGTH)
        (0 * Generated.WAL_INDEX_SUB_HEADER_LENGTH + Generated.WAL_INDEX_SUB_HEADER_LENGTH)) with
    | error e => rfl
    | ok s0 =>
      cases parseWalIndexSubHeader 1 (b.slice (1 * Generated.WAL_INDEX_SUB_HEADER_LENGTH)
          (1 * Generated.WAL_INDEX_SUB_HEADER_LENGTH + Generated.WAL_INDEX_SUB_HEADER_LENGTH)) with
      | error e => rfl
      | ok s1 =>
        simp only [castSubR, bind, Except.bind, List.nil_append, List.cons_append, pyListGet, List.getElem?_cons_zero]
        have hc : (castSub (b.slice (0 * Generated.WAL_INDEX_SUB_HEADER_LENGTH)
            (0 * Generated.WAL_INDEX_SUB_HEADER_LENGTH + Generated.WAL_INDEX_SUB_HEADER_LENGTH)).toList s0).endianness =
              endName s0.bigEndian := rfl
        rw [hc, ck_slice]
        cases parseWalIndexCheckpointInfo (b.slice (Generated.WAL_INDEX_NUMBER_OF_SUB_HEADERS * Generated.WAL_INDEX_SUB_HEADER_LENGTH)
            (Generated.WAL_INDEX_NUMBER_OF_SUB_HEADERS * Generated.WAL_INDEX_SUB_HEADER_LENGTH +
              Generated.WAL_INDEX_CHECKPOINT_INFO_LENGTH)) s0.bigEndian with
        | error e => rfl
        | ok ck => rfl
  · have c1 : (b.size : Int) ≠ (Generated.WAL_INDEX_HEADER_LENGTH : Int) := by
      simp only [Generated.WAL_INDEX_HEADER_LENGTH]; omega
    have c2 : b.size ≠ Generated.WAL_INDEX_HEADER_LENGTH := by
      simp only [Generated.WAL_INDEX_HEADER_LENGTH]; omega
    rw [if_pos c1, if_pos c2]
    rfl

/-! ### OverflowPage (file/database/page.py) -/

/-- what the model keeps of an `OverflowPage` -/
def castOvfl (number pv : Nat) (r : PyPage.OverflowPage) : OvflPage :=
  ⟨number, r.next_overflow_page_number.toNat,
    (r.unallocated_space_start_offset - (Generated.OVERFLOW_HEADER_LENGTH : Int)).toNat, pv⟩

theorem overflow_eq (v : VersionIf) (number : Nat) (remaining a b c : Int) :
    parseOverflowPage v number remaining = (do
      let pv ← v.pageVersion number
      let _ ← v.pageOffset number
      let r ← PyPage.OverflowPage.init a b c remaining (v.getData number 0 none) (v.pageSize : Int)
      pure (castOvfl number pv r)) := by
  unfold parseOverflowPage PyPage.OverflowPage.init
  cases v.pageVersion number with
  | error e => rfl
  | ok pv =>
    cases v.pageOffset number with
    | error e => rfl
    | ok po =>
      simp only [bind, Except.bind]
      by_cases hr : remaining ≤ 0
      · rw [if_pos hr, if_pos hr]
      · rw [if_neg hr, if_neg hr]
        cases v.getData number 0 none with
        | error e => rfl
        | ok page =>
          simp only []
          have r : pyUnpackBE false 4 (pySliceBuf page 0 (Generated.OVERFLOW_HEADER_LENGTH : Int)) = _ :=
            unpackBE_nat page 0 4 _ _ rfl rfl (by decide)
          have m : unpackAt page 0 Generated.OVERFLOW_HEADER_LENGTH = _ := unpackAt_nat page 0 4 _ rfl (by decide)
          rw [r, m]
          cases unpackN page 0 4 with
          | error e => rfl
          | ok nx =>
            simp only [castN]
            by_cases hl : remaining ≤ (v.pageSize : Int) - (Generated.OVERFLOW_HEADER_LENGTH : Int)
            · simp only [hl, decide_true, true_and, if_true]
              by_cases hn : nx = 0
              · have g : ¬ ((nx : Int) ≠ 0) := by omega
                have g' : ¬ (nx ≠ 0) := by omega
                rw [if_neg g, if_neg g']
                subst hn
                rfl
              · have g : (nx : Int) ≠ 0 := by omega
                rw [if_pos g, if_pos hn]
            · simp only [hl, decide_false, false_and, if_false, Bool.false_eq_true]
              rfl
end SqliteDissect.Proofs.GenPage
