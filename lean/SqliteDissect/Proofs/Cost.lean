/-
Step bounds for the remaining walks of the pipeline (C18): freelist trunk chain, pointer-map
pages, WAL frames, rollback-journal page records, and the whole b-tree walk.  Each bound is about
an instrumented twin of the model function whose counter / log survives exceptions; erasing the
counter gives the original function (`…_snd`).
-/
import SqliteDissect.Model.Carve
import SqliteDissect.Proofs.TreeWalk
import SqliteDissect.Proofs.Wal
import SqliteDissect.Proofs.TreeFrame
import SqliteDissect.Proofs.CellArith

namespace SqliteDissect.Proofs.Cost
open SqliteDissect SqliteDissect.Model

/-! ### the counted fold -/

theorem foldlMCounted_snd {σ ι : Type} (f : σ → ι → Py σ) : ∀ (l : List ι) (s : σ),
    (foldlMCounted f s l).2 = l.foldlM f s := by
  intro l
  induction l with
  | nil => intro s; rfl
  | cons i is ih =>
    intro s
    rw [List.foldlM_cons]
    unfold foldlMCounted
    cases f s i with
    | error e => rfl
    | ok s' => exact ih s'

theorem foldlMCounted_le {σ ι : Type} (f : σ → ι → Py σ) : ∀ (l : List ι) (s : σ),
    (foldlMCounted f s l).1 ≤ l.length := by
  intro l
  induction l with
  | nil => intro s; exact Nat.le_refl 0
  | cons i is ih =>
    intro s
    unfold foldlMCounted
    cases f s i with
    | error e => simp
    | ok s' => have := ih s'; simp only [List.length_cons]; omega

/-- every step is started when the fold succeeds -/
theorem foldlMCounted_ok {σ ι : Type} (f : σ → ι → Py σ) : ∀ (l : List ι) (s r : σ),
    (foldlMCounted f s l).2 = .ok r → (foldlMCounted f s l).1 = l.length := by
  intro l
  induction l with
  | nil => intro s r _; rfl
  | cons i is ih =>
    intro s r h
    unfold foldlMCounted at h ⊢
    cases hf : f s i with
    | error e => rw [hf] at h; exact nomatch h
    | ok s' =>
      rw [hf] at h
      simp only at h ⊢
      rw [ih s' r h, List.length_cons]

/-! ### 1. the freelist trunk chain -/

theorem ok_bind {α β : Type} (a : α) (f : α → Py β) : ((.ok a : Py α) >>= f) = f a := rfl
theorem error_bind {α β : Type} (e : PyErr) (f : α → Py β) : ((.error e : Py α) >>= f) = .error e := rfl

/-- what the log of the freelist walk satisfies, relative to the original function's result `P`
and the fuel -/
def FreelistSpec (v : VersionIf) (fuel : Nat) (L : List (Nat × Nat) × Py (List FreelistTrunk))
    (P : Py (List FreelistTrunk)) : Prop :=
  L.2 = P ∧ L.1.length ≤ fuel ∧ (∀ e ∈ L.1, e.2 ≤ v.pageSize / 4 + 1) ∧
  ∀ ts, L.2 = .ok ts → L.1 = ts.map fun t => (t.number, t.leaves.length)

theorem FreelistSpec.single_error (v : VersionIf) (fuel n k : Nat) (e : PyErr) (hk : k ≤ v.pageSize / 4 + 1) :
    FreelistSpec v (fuel + 1) ([(n, k)], .error e) (.error e) := by
  refine ⟨rfl, by simp, ?_, fun ts h => nomatch h⟩
  intro x hx
  rw [List.mem_singleton] at hx
  subst hx
  exact hk

/-- every successful leaf step appends one leaf -/
theorem leaf_fold_length (v : VersionIf) (page : Buf) : ∀ (l : List Nat) (acc leaves : List Nat),
    l.foldlM (freelistLeafStep v page) acc = .ok leaves → leaves.length = acc.length + l.length := by
  intro l
  induction l with
  | nil =>
    intro acc leaves h
    simp only [List.foldlM_nil, pure, Except.pure, Except.ok.injEq] at h
    subst h; rfl
  | cons i is ih =>
    intro acc leaves h
    rw [List.foldlM_cons] at h
    cases hs : freelistLeafStep v page acc i with
    | error e => rw [hs] at h; exact nomatch h
    | ok acc' =>
      rw [hs, ok_bind] at h
      have hlen : acc'.length = acc.length + 1 := by
        unfold freelistLeafStep at hs
        cases h1 : unpackAt page (↑i * ↑Generated.FREELIST_LEAF_PAGE_NUMBER_LENGTH + ↑Generated.FREELIST_HEADER_LENGTH)
            Generated.FREELIST_LEAF_PAGE_NUMBER_LENGTH with
        | error e => rw [h1] at hs; exact nomatch hs
        | ok m =>
          rw [h1, ok_bind] at hs
          cases h2 : v.pageVersion m with
          | error e => rw [h2] at hs; exact nomatch hs
          | ok _ =>
            rw [h2, ok_bind] at hs
            cases h3 : v.pageOffset m with
            | error e => rw [h3] at hs; exact nomatch hs
            | ok _ =>
              rw [h3, ok_bind] at hs
              cases h4 : v.getData m 0 none with
              | error e => rw [h4] at hs; exact nomatch hs
              | ok _ =>
                rw [h4, ok_bind] at hs
                simp only [pure, Except.pure, Except.ok.injEq] at hs
                rw [← hs]; simp
      rw [ih _ _ h, hlen, List.length_cons]; omega

theorem parseFreelistLog_spec (v : VersionIf) : ∀ (fuel n : Nat),
    FreelistSpec v fuel (parseFreelistLog v fuel n) (parseFreelist v fuel n) := by
  intro fuel
  induction fuel with
  | zero =>
    intro n
    exact ⟨rfl, Nat.le_refl 0, by simp [parseFreelistLog], by simp [parseFreelistLog]⟩
  | succ fuel ih =>
    intro n
    cases hpv : v.pageVersion n with
    | error e =>
      have hL : parseFreelistLog v (fuel + 1) n = ([(n, 0)], .error e) := by
        rw [parseFreelistLog]; simp only [hpv, error_bind]
      have hP : parseFreelist v (fuel + 1) n = .error e := by rw [parseFreelist, hpv]; rfl
      rw [hL, hP]; exact FreelistSpec.single_error v fuel n 0 e (Nat.zero_le _)
    | ok pv =>
    cases hoff : v.pageOffset n with
    | error e =>
      have hL : parseFreelistLog v (fuel + 1) n = ([(n, 0)], .error e) := by
        rw [parseFreelistLog]; simp only [hpv, hoff, ok_bind, error_bind]
      have hP : parseFreelist v (fuel + 1) n = .error e := by rw [parseFreelist, hpv, hoff]; rfl
      rw [hL, hP]; exact FreelistSpec.single_error v fuel n 0 e (Nat.zero_le _)
    | ok off =>
    cases hpage : v.getData n 0 none with
    | error e =>
      have hL : parseFreelistLog v (fuel + 1) n = ([(n, 0)], .error e) := by
        rw [parseFreelistLog]; simp only [hpv, hoff, hpage, ok_bind, error_bind]
      have hP : parseFreelist v (fuel + 1) n = .error e := by rw [parseFreelist, hpv, hoff, hpage]; rfl
      rw [hL, hP]; exact FreelistSpec.single_error v fuel n 0 e (Nat.zero_le _)
    | ok page =>
    cases hnext : unpackAt page 0 Generated.FREELIST_NEXT_TRUNK_PAGE_LENGTH with
    | error e =>
      have hL : parseFreelistLog v (fuel + 1) n = ([(n, 0)], .error e) := by
        rw [parseFreelistLog]; simp only [hpv, hoff, hpage, hnext, ok_bind, error_bind]
      have hP : parseFreelist v (fuel + 1) n = .error e := by
        rw [parseFreelist, hpv, hoff, hpage]; simp only [ok_bind, hnext, error_bind]
      rw [hL, hP]; exact FreelistSpec.single_error v fuel n 0 e (Nat.zero_le _)
    | ok next =>
    cases hcnt : unpackAt page Generated.FREELIST_NEXT_TRUNK_PAGE_LENGTH Generated.FREELIST_LEAF_PAGE_POINTERS_LENGTH with
    | error e =>
      have hL : parseFreelistLog v (fuel + 1) n = ([(n, 0)], .error e) := by
        rw [parseFreelistLog]; simp only [hpv, hoff, hpage, hnext, hcnt, ok_bind, error_bind]
      have hP : parseFreelist v (fuel + 1) n = .error e := by
        rw [parseFreelist, hpv, hoff, hpage]; simp only [ok_bind, hnext, hcnt, error_bind]
      rw [hL, hP]; exact FreelistSpec.single_error v fuel n 0 e (Nat.zero_le _)
    | ok cnt =>
    -- the leaf loop
    have hle := foldlMCounted_le (freelistLeafStep v page) (List.range (min cnt (v.pageSize / 4 + 1))) []
    have hsnd := foldlMCounted_snd (freelistLeafStep v page) (List.range (min cnt (v.pageSize / 4 + 1))) []
    have hokc := foldlMCounted_ok (freelistLeafStep v page) (List.range (min cnt (v.pageSize / 4 + 1))) []
    rcases hr : foldlMCounted (freelistLeafStep v page) [] (List.range (min cnt (v.pageSize / 4 + 1))) with ⟨k, res⟩
    rw [hr] at hle hsnd hokc
    simp only [List.length_range] at hle hokc
    have hk : k ≤ v.pageSize / 4 + 1 := Nat.le_trans hle (Nat.min_le_right _ _)
    have hP : parseFreelist v (fuel + 1) n = (do
        let leaves ← res
        if next ≠ 0 then do
          let _ ← v.pageVersion next
          let rest ← parseFreelist v fuel next
          pure (⟨n, next, leaves, pv⟩ :: rest)
        else pure [⟨n, next, leaves, pv⟩]) := by
      rw [parseFreelist, hpv, hoff, hpage]
      simp only [ok_bind, hnext, hcnt]
      have hsnd' : List.foldlM (freelistLeafStep v page) [] (List.range (min cnt (v.pageSize / 4 + 1))) = res :=
        hsnd.symm
      exact congrArg (fun x => x >>= _) hsnd'
    cases res with
    | error e =>
      have hL : parseFreelistLog v (fuel + 1) n = ([(n, k)], .error e) := by
        rw [parseFreelistLog]; simp only [hpv, hoff, hpage, hnext, hcnt, ok_bind, pure, Except.pure, hr]
      rw [hL, hP]; exact FreelistSpec.single_error v fuel n k e hk
    | ok leaves =>
      have hll : leaves.length = k := by
        have := leaf_fold_length v page _ _ _ hsnd.symm
        rw [hokc leaves rfl]
        simpa using this
      by_cases hn0 : next ≠ 0
      · cases hpvn : v.pageVersion next with
        | error e =>
          have hL : parseFreelistLog v (fuel + 1) n = ([(n, k)], .error e) := by
            rw [parseFreelistLog]
            simp only [hpv, hoff, hpage, hnext, hcnt, ok_bind, pure, Except.pure, hr, if_pos hn0, hpvn]
          rw [hL, hP, ok_bind, if_pos hn0, hpvn]
          exact FreelistSpec.single_error v fuel n k e hk
        | ok pvn =>
          have hL : parseFreelistLog v (fuel + 1) n = ((n, k) :: (parseFreelistLog v fuel next).1, do
              let rest ← (parseFreelistLog v fuel next).2
              pure (⟨n, next, leaves, pv⟩ :: rest)) := by
            rw [parseFreelistLog]
            simp only [hpv, hoff, hpage, hnext, hcnt, ok_bind, pure, Except.pure, hr, if_pos hn0, hpvn]
          obtain ⟨i1, i2, i3, i4⟩ := ih next
          rw [hL, hP, ok_bind, if_pos hn0, hpvn, ok_bind]
          refine ⟨by rw [i1], by simp only [List.length_cons]; omega, ?_, ?_⟩
          · intro x hx
            rcases List.mem_cons.mp hx with rfl | hx
            · exact hk
            · exact i3 x hx
          · intro ts hts
            cases hrest : (parseFreelistLog v fuel next).2 with
            | error e => rw [hrest] at hts; exact nomatch hts
            | ok rest =>
              rw [hrest, ok_bind] at hts
              simp only [pure, Except.pure, Except.ok.injEq] at hts
              subst hts
              simp only [List.map_cons, hll, i4 rest hrest]
      · have hL : parseFreelistLog v (fuel + 1) n = ([(n, k)], .ok [⟨n, next, leaves, pv⟩]) := by
          rw [parseFreelistLog]
          simp only [hpv, hoff, hpage, hnext, hcnt, ok_bind, pure, Except.pure, hr, if_neg hn0]
        rw [hL, hP, ok_bind, if_neg hn0]
        refine ⟨rfl, by simp, ?_, ?_⟩
        · intro x hx
          rw [List.mem_singleton] at hx
          subst hx
          exact hk
        · intro ts hts
          simp only [Except.ok.injEq] at hts
          subst hts
          simp [hll]

theorem parseFreelistLog_snd (v : VersionIf) (fuel n : Nat) :
    (parseFreelistLog v fuel n).2 = parseFreelist v fuel n := (parseFreelistLog_spec v fuel n).1

theorem sum_le_of_forall_le {α : Type} (f : α → Nat) (B : Nat) : ∀ (l : List α), (∀ e ∈ l, f e ≤ B) →
    (l.map f).sum ≤ l.length * B := by
  intro l
  induction l with
  | nil => intro _; simp
  | cons a l ih =>
    intro h
    have h1 := h a (by simp)
    have h2 := ih (fun e he => h e (by simp [he]))
    simp only [List.map_cons, List.sum_cons, List.length_cons, Nat.add_mul, Nat.one_mul]
    omega

/-- trunk constructions ≤ fuel; leaf steps per trunk ≤ pageSize/4 + 1; page constructions in total
(trunks and leaves) ≤ fuel * (pageSize/4 + 2) — on success and on failure -/
theorem freelist_cost (v : VersionIf) (fuel n : Nat) :
    (parseFreelistLog v fuel n).1.length ≤ fuel ∧
    (∀ e ∈ (parseFreelistLog v fuel n).1, e.2 ≤ v.pageSize / 4 + 1) ∧
    ((parseFreelistLog v fuel n).1.map fun e => e.2 + 1).sum ≤ fuel * (v.pageSize / 4 + 2) := by
  obtain ⟨-, h2, h3, -⟩ := parseFreelistLog_spec v fuel n
  refine ⟨h2, h3, ?_⟩
  have := sum_le_of_forall_le (fun e : Nat × Nat => e.2 + 1) (v.pageSize / 4 + 2) _
    (fun e he => by have := h3 e he; omega)
  exact Nat.le_trans this (Nat.mul_le_mul_right _ h2)

/-- on success the log is the list of trunks with their numbers of leaves -/
theorem freelist_ok_log (v : VersionIf) (fuel n : Nat) (ts : List FreelistTrunk)
    (h : parseFreelist v fuel n = .ok ts) :
    (parseFreelistLog v fuel n).1 = ts.map fun t => (t.number, t.leaves.length) := by
  obtain ⟨h1, -, -, h4⟩ := parseFreelistLog_spec v fuel n
  exact h4 ts (h1.trans h)

/-! ### 2. pointer-map pages -/

theorem parsePtrmapPageCounted_snd (v : VersionIf) (number k : Nat) :
    (parsePtrmapPageCounted v number k).2 = parsePtrmapPage v number k := by
  unfold parsePtrmapPageCounted parsePtrmapPage
  cases hpv : v.pageVersion number with
  | error e => rfl
  | ok pv =>
  cases hoff : v.pageOffset number with
  | error e => rfl
  | ok off =>
  cases hpage : v.getData number 0 none with
  | error e => rfl
  | ok page =>
    simp only [ok_bind]
    exact congrArg (fun x => x >>= _) (foldlMCounted_snd (ptrmapEntryStep v page number) (List.range k) [])

theorem parsePtrmapPageCounted_le (v : VersionIf) (number k : Nat) :
    (parsePtrmapPageCounted v number k).1 ≤ k := by
  unfold parsePtrmapPageCounted
  cases hpv : v.pageVersion number with
  | error e => exact Nat.zero_le _
  | ok pv =>
  cases hoff : v.pageOffset number with
  | error e => exact Nat.zero_le _
  | ok off =>
  cases hpage : v.getData number 0 none with
  | error e => exact Nat.zero_le _
  | ok page =>
    simp only [ok_bind]
    have := foldlMCounted_le (ptrmapEntryStep v page number) (List.range k) []
    simpa using this

/-- what the log of the pointer-map loop satisfies from the state `(p, n)`; the bounds need the
loop invariant `p = n * (E + 1) + 2`, written `p = n * E + n + 2` -/
def PtrmapSpec (v : VersionIf) (D E fuel p n : Nat) (acc : List PtrmapPage) : Prop :=
  (createPtrmapPagesLoopLog v D E fuel p n acc).2 = createPtrmapPagesLoop v D E fuel p n acc ∧
  (p = n * E + n + 2 →
    (∀ e ∈ (createPtrmapPagesLoopLog v D E fuel p n acc).1, e.2 ≤ E) ∧
    ((createPtrmapPagesLoopLog v D E fuel p n acc).1.map fun e => e.2 + 1).sum ≤ D + 1 - p ∧
    ((createPtrmapPagesLoopLog v D E fuel p n acc).1 = [] ∨
      (createPtrmapPagesLoopLog v D E fuel p n acc).1.length * (E + 1) + p < D + (E + 1)))

theorem createPtrmapPagesLoopLog_spec (v : VersionIf) (D E : Nat) : ∀ (fuel p n : Nat) (acc : List PtrmapPage),
    PtrmapSpec v D E fuel p n acc := by
  intro fuel
  induction fuel with
  | zero =>
    intro p n acc
    refine ⟨rfl, fun _ => ⟨by simp [createPtrmapPagesLoopLog], by simp [createPtrmapPagesLoopLog], Or.inl rfl⟩⟩
  | succ fuel ih =>
    intro p n acc
    unfold PtrmapSpec
    rw [createPtrmapPagesLoopLog, createPtrmapPagesLoop]
    by_cases hpD : p < D
    · rw [if_pos hpD, if_pos hpD]
      simp only [Nat.add_sub_cancel]
      generalize hent : (if (n + 1) * E + 2 + (n + 1) > D then (D : Int) - ((n * E : Nat) : Int) - ((n + 1 : Nat) : Int) - 1 else (E : Int)) = ent
      by_cases hneg : ent < 0
      · rw [if_pos hneg, if_pos hneg]
        exact ⟨rfl, fun _ => ⟨by simp, by simp, Or.inl rfl⟩⟩
      · rw [if_neg hneg, if_neg hneg]
        have hsnd := parsePtrmapPageCounted_snd v p ent.toNat
        have hle := parsePtrmapPageCounted_le v p ent.toNat
        rcases hr : parsePtrmapPageCounted v p ent.toNat with ⟨k, res⟩
        rw [hr] at hsnd hle
        simp only at hsnd hle
        rw [← hsnd]
        -- the entry count under the invariant
        have hentE : p = n * E + n + 2 → ent.toNat ≤ E ∧ ent.toNat + 1 + p ≤ D + 1 ∧
            ((n + 1) * E + 2 + (n + 1) = p + E + 1) ∧
            ((n + 1) * E + 2 + (n + 1) ≤ D → ent.toNat = E) := by
          intro hp
          have hmul : (n + 1) * E = n * E + E := by rw [Nat.add_mul, Nat.one_mul]
          rw [hmul] at hent ⊢
          by_cases hnx : n * E + E + 2 + (n + 1) > D
          · rw [if_pos hnx] at hent
            refine ⟨by omega, by omega, by omega, by omega⟩
          · rw [if_neg hnx] at hent
            refine ⟨by omega, by omega, by omega, by omega⟩
        cases res with
        | error e =>
          refine ⟨rfl, fun hp => ?_⟩
          obtain ⟨h1, h2, -, -⟩ := hentE hp
          refine ⟨?_, ?_, Or.inr ?_⟩
          · intro x hx; rw [List.mem_singleton] at hx; subst hx; exact Nat.le_trans hle h1
          · simp only [List.map_cons, List.map_nil, List.sum_cons, List.sum_nil]; omega
          · simp only [List.length_cons, List.length_nil]; omega
        | ok pg =>
          simp only [ok_bind]
          by_cases hnD : (n + 1) * E + 2 + (n + 1) = D
          · rw [if_pos hnD, if_pos hnD]
            refine ⟨rfl, fun hp => ?_⟩
            obtain ⟨h1, h2, -, -⟩ := hentE hp
            refine ⟨?_, ?_, Or.inr ?_⟩
            · intro x hx; rw [List.mem_singleton] at hx; subst hx; exact Nat.le_trans hle h1
            · simp only [List.map_cons, List.map_nil, List.sum_cons, List.sum_nil]; omega
            · simp only [List.length_cons, List.length_nil]; omega
          · rw [if_neg hnD, if_neg hnD]
            obtain ⟨i1, i2⟩ := ih ((n + 1) * E + 2 + (n + 1)) (n + 1) (acc ++ [pg])
            refine ⟨i1, fun hp => ?_⟩
            obtain ⟨h1, h2, h3, h4⟩ := hentE hp
            obtain ⟨j1, j2, j3⟩ := i2 (by omega)
            refine ⟨?_, ?_, Or.inr ?_⟩
            · intro x hx
              rcases List.mem_cons.mp hx with rfl | hx
              · exact Nat.le_trans hle h1
              · exact j1 x hx
            · simp only [List.map_cons, List.sum_cons]
              by_cases hnx : (n + 1) * E + 2 + (n + 1) ≤ D
              · have := h4 hnx; omega
              · omega
            · rw [List.length_cons, Nat.add_one_mul]
              rcases j3 with j3 | j3
              · rw [j3]; simp only [List.length_nil, Nat.zero_mul]; omega
              · omega
    · rw [if_neg hpD, if_neg hpD]
      exact ⟨rfl, fun _ => ⟨by simp, by simp, Or.inl rfl⟩⟩

theorem createPtrmapPagesLog_snd (v : VersionIf) (D : Nat) :
    (createPtrmapPagesLog v D).2 = createPtrmapPages v D := by
  unfold createPtrmapPagesLog createPtrmapPages
  simp only
  rw [(createPtrmapPagesLoopLog_spec v D _ _ _ _ _).1]

/-- page constructions ≤ D / (E + 1) + 1; entry steps per page ≤ E; page constructions plus entry
steps ≤ D - 1 — on success and on failure (`E` = entries per page = pageSize / 5) -/
theorem ptrmap_cost (v : VersionIf) (D : Nat) :
    (createPtrmapPagesLog v D).1.length ≤ D / (v.pageSize / Generated.POINTER_MAP_ENTRY_LENGTH + 1) + 1 ∧
    (∀ e ∈ (createPtrmapPagesLog v D).1, e.2 ≤ v.pageSize / Generated.POINTER_MAP_ENTRY_LENGTH) ∧
    ((createPtrmapPagesLog v D).1.map fun e => e.2 + 1).sum ≤ D - 1 := by
  unfold createPtrmapPagesLog
  simp only
  generalize v.pageSize / Generated.POINTER_MAP_ENTRY_LENGTH = E
  obtain ⟨-, h⟩ := createPtrmapPagesLoopLog_spec v D E (D + 1) 2 0 []
  obtain ⟨h1, h2, h3⟩ := h (by simp)
  refine ⟨?_, h1, by omega⟩
  rcases h3 with h3 | h3
  · rw [h3]; simp
  · generalize (createPtrmapPagesLoopLog v D E (D + 1) 2 0 []).1.length = m at h3
    cases m with
    | zero => exact Nat.zero_le _
    | succ m =>
      rw [Nat.add_one_mul] at h3
      have : m ≤ D / (E + 1) := (Nat.le_div_iff_mul_le (by omega : 0 < E + 1)).mpr (by omega)
      omega

theorem err_cast {α β : Type} {e e' : PyErr} (h : (.error e : Py α) = .error e') :
    (.error e : Py β) = .error e' := by
  cases h; rfl

theorem foldlM_ne_error {σ ι : Type} (f : σ → ι → Py σ) (e0 : PyErr) (hstep : ∀ s i, f s i ≠ .error e0) :
    ∀ (l : List ι) (s : σ), l.foldlM f s ≠ .error e0 := by
  intro l
  induction l with
  | nil => intro s h; exact nomatch h
  | cons i is ih =>
    intro s h
    rw [List.foldlM_cons] at h
    cases hs : f s i with
    | error e => rw [hs] at h; exact hstep s i (hs.trans h)
    | ok s' => rw [hs, ok_bind] at h; exact ih s' h

theorem unpackAt_ne_rec (b : Buf) (lo : Int) (n : Nat) : unpackAt b lo n ≠ .error .recursionError := by
  unfold unpackAt
  simp only
  split <;> simp

theorem ptrmapEntryStep_ne_rec (v : VersionIf) (page : Buf) (number : Nat) (acc : List PtrmapEntry) (i : Nat) :
    ptrmapEntryStep v page number acc i ≠ .error .recursionError := by
  unfold ptrmapEntryStep
  simp only
  split
  · simp
  split
  · simp
  split
  · simp
  split
  · simp
  intro h
  cases hu : unpackAt page (↑(i * Generated.POINTER_MAP_ENTRY_LENGTH) + 1) 4 with
  | error e => rw [hu, error_bind] at h; exact unpackAt_ne_rec _ _ _ (hu.trans (err_cast h))
  | ok parent =>
    rw [hu, ok_bind] at h
    split at h
    · exact nomatch h
    split at h
    · exact nomatch h
    · exact nomatch h

/-- `PointerMapPage.__init__` raises no `RecursionError` unless the version interface does -/
theorem parsePtrmapPage_ne_rec (v : VersionIf)
    (hv : ∀ p, v.pageVersion p ≠ .error .recursionError)
    (ho : ∀ p, v.pageOffset p ≠ .error .recursionError)
    (hd : ∀ p o n, v.getData p o n ≠ .error .recursionError) (number k : Nat) :
    parsePtrmapPage v number k ≠ .error .recursionError := by
  unfold parsePtrmapPage
  intro h
  cases hpv : v.pageVersion number with
  | error e => rw [hpv, error_bind] at h; exact hv number (hpv.trans (err_cast h))
  | ok pv =>
  rw [hpv, ok_bind] at h
  cases hoff : v.pageOffset number with
  | error e => rw [hoff, error_bind] at h; exact ho number (hoff.trans (err_cast h))
  | ok off =>
  rw [hoff, ok_bind] at h
  cases hpage : v.getData number 0 none with
  | error e => rw [hpage, error_bind] at h; exact hd number 0 none (hpage.trans (err_cast h))
  | ok page =>
  rw [hpage, ok_bind] at h
  cases hf : (List.range k).foldlM (ptrmapEntryStep v page number) [] with
  | error e =>
    have h' : (List.range k).foldlM (ptrmapEntryStep v page number) [] = .error .recursionError := by
      rw [hf]
      have : ((List.range k).foldlM (ptrmapEntryStep v page number) [] >>= fun es => (pure ⟨number, k, es⟩ : Py PtrmapPage))
          = .error .recursionError := h
      rw [hf, error_bind] at this
      exact err_cast this
    exact foldlM_ne_error _ _ (ptrmapEntryStep_ne_rec v page number) _ _ h'
  | ok es =>
    have : ((List.range k).foldlM (ptrmapEntryStep v page number) [] >>= fun es => (pure ⟨number, k, es⟩ : Py PtrmapPage))
        = .error .recursionError := h
    rw [hf] at this
    exact nomatch this

/-- **the fuel `D + 1` of the pointer-map loop is never exhausted** -/
theorem createPtrmapPagesLoop_fuel (v : VersionIf) (D E : Nat)
    (hv : ∀ p, v.pageVersion p ≠ .error .recursionError)
    (ho : ∀ p, v.pageOffset p ≠ .error .recursionError)
    (hd : ∀ p o n, v.getData p o n ≠ .error .recursionError) :
    ∀ (fuel p n : Nat) (acc : List PtrmapPage), p = n * E + n + 2 → D + 1 ≤ fuel + n → n ≤ D →
      createPtrmapPagesLoop v D E fuel p n acc ≠ .error .recursionError := by
  intro fuel
  induction fuel with
  | zero => intro p n acc _ h1 h2; omega
  | succ fuel ih =>
    intro p n acc hp h1 h2 h
    rw [createPtrmapPagesLoop] at h
    by_cases hpD : p < D
    · rw [if_pos hpD] at h
      simp only [Nat.add_sub_cancel] at h
      generalize (if (n + 1) * E + 2 + (n + 1) > D then (D : Int) - ((n * E : Nat) : Int) - ((n + 1 : Nat) : Int) - 1 else (E : Int)) = ent at h
      by_cases hneg : ent < 0
      · rw [if_pos hneg] at h; exact nomatch h
      rw [if_neg hneg] at h
      cases hpg : parsePtrmapPage v p ent.toNat with
      | error e =>
        rw [hpg, error_bind] at h
        exact parsePtrmapPage_ne_rec v hv ho hd _ _ (hpg.trans (err_cast h))
      | ok pg =>
        rw [hpg, ok_bind] at h
        by_cases hnD : (n + 1) * E + 2 + (n + 1) = D
        · rw [if_pos hnD] at h; exact nomatch h
        · rw [if_neg hnD] at h
          have hmul : (n + 1) * E = n * E + E := by rw [Nat.add_mul, Nat.one_mul]
          exact ih _ _ _ (by omega) (by omega) (by omega) h
    · rw [if_neg hpD] at h; exact nomatch h

theorem createPtrmapPages_ne_rec (v : VersionIf) (D : Nat)
    (hv : ∀ p, v.pageVersion p ≠ .error .recursionError)
    (ho : ∀ p, v.pageOffset p ≠ .error .recursionError)
    (hd : ∀ p o n, v.getData p o n ≠ .error .recursionError) :
    createPtrmapPages v D ≠ .error .recursionError := by
  unfold createPtrmapPages
  intro h
  cases hl : createPtrmapPagesLoop v D (v.pageSize / Generated.POINTER_MAP_ENTRY_LENGTH) (D + 1) 2 0 [] with
  | error e =>
    simp only [hl, error_bind] at h
    exact createPtrmapPagesLoop_fuel v D _ hv ho hd (D + 1) 2 0 [] (by simp) (by omega) (Nat.zero_le _) (hl.trans h)
  | ok pages =>
    simp only [hl, ok_bind] at h
    split at h <;> exact nomatch h

/-- the pure plan (`ptrmapPlan`): the fuel `D + 1` is never exhausted either -/
theorem ptrmapPlanLoop_fuel (D E : Nat) : ∀ (fuel p n : Nat) (acc : List (Nat × Nat)),
    p = n * E + n + 2 → D + 1 ≤ fuel + n → n ≤ D →
      ptrmapPlanLoop D E fuel p n acc ≠ .error .recursionError := by
  intro fuel
  induction fuel with
  | zero => intro p n acc _ h1 h2; omega
  | succ fuel ih =>
    intro p n acc hp h1 h2 h
    rw [ptrmapPlanLoop] at h
    by_cases hpD : p < D
    · rw [if_pos hpD] at h
      simp only at h
      by_cases hnD : (n + 1) * E + 2 + (n + 1) = D
      · rw [if_pos hnD] at h; exact nomatch h
      · rw [if_neg hnD] at h
        have hmul : (n + 1) * E = n * E + E := by rw [Nat.add_mul, Nat.one_mul]
        exact ih _ _ _ (by omega) (by omega) (by omega) h
    · rw [if_neg hpD] at h; exact nomatch h

theorem ptrmapPlan_ne_rec (D ps : Nat) : ptrmapPlan D ps ≠ .error .recursionError := by
  unfold ptrmapPlan
  intro h
  cases hl : ptrmapPlanLoop D (ps / Generated.POINTER_MAP_ENTRY_LENGTH) (D + 1) 2 0 [] with
  | error e =>
    simp only [hl, error_bind] at h
    exact ptrmapPlanLoop_fuel D _ (D + 1) 2 0 [] (by simp) (by omega) (Nat.zero_le _) (hl.trans h)
  | ok plan =>
    simp only [hl, ok_bind] at h
    split at h <;> exact nomatch h

/-! ### 3. WAL frames -/

open SqliteDissect.Proofs.Wal in
theorem openWalCounted_snd (gs : Option Nat) (file : Buf) : (openWalCounted gs file).2 = openWal gs file := by
  unfold openWalCounted openWal
  cases parseWalHeader (file.slice 0 Generated.WAL_HEADER_LENGTH) with
  | error e => rfl
  | ok hdr =>
    simp only [ok_bind]
    rw [foldlMCounted_snd]

/-- `int((size - 32) / (24 + ps))` of the model as a natural number, for every size (a file shorter
than the header has no frame) -/
theorem nFrames_toNat (n ps : Nat) :
    (Int.tdiv ((n : Int) - Generated.WAL_HEADER_LENGTH) ((Generated.WAL_FRAME_HEADER_LENGTH : Int) + ps)).toNat
      = (n - 32) / (24 + ps) := by
  by_cases hn : 32 ≤ n
  · rw [Wal.nFrames_nat n ps hn]; rfl
  · simp only [Generated.WAL_HEADER_LENGTH, Generated.WAL_FRAME_HEADER_LENGTH]
    have e : (n : Int) - ((32 : Nat) : Int) = -(((32 - n : Nat) : Int)) := by omega
    rw [e, Int.neg_tdiv]
    have h0 : (0 : Int) ≤ Int.tdiv ((32 - n : Nat) : Int) (((24 : Nat) : Int) + ps) :=
      Int.tdiv_nonneg (by omega) (by omega)
    have : n - 32 = 0 := by omega
    rw [this, Nat.zero_div]
    omega

theorem openWalCounted_fst_ok (gs : Option Nat) (file : Buf) (hdr : WalHeader)
    (h : parseWalHeader (file.slice 0 Generated.WAL_HEADER_LENGTH) = .ok hdr) :
    (openWalCounted gs file).1 = (foldlMCounted (walScanStep ⟨Wal.givenSz gs file, file⟩ hdr) {}
      (List.range ((Wal.givenSz gs file - 32) / (24 + hdr.pageSize)))).1 := by
  unfold openWalCounted
  rw [h]
  show (foldlMCounted (walScanStep ⟨Wal.givenSz gs file, file⟩ hdr) {}
    (List.range (Int.tdiv ((Wal.givenSz gs file : Int) - Generated.WAL_HEADER_LENGTH)
      ((Generated.WAL_FRAME_HEADER_LENGTH : Int) + hdr.pageSize)).toNat)).1 = _
  rw [nFrames_toNat]

theorem openWalCounted_fst_error (gs : Option Nat) (file : Buf) (e : PyErr)
    (h : parseWalHeader (file.slice 0 Generated.WAL_HEADER_LENGTH) = .error e) :
    (openWalCounted gs file).1 = 0 := by
  unfold openWalCounted
  rw [h]

/-- the frames read: at most `(size - 32) / (24 + pageSize)`, hence at most `size / 24`, whatever
the header says about the page size (`size`: the size the file handle was given or took from the
file) — on success and on failure; no frame is read when the header is refused -/
theorem wal_frames_read_le (gs : Option Nat) (file : Buf) :
    (openWalCounted gs file).1 ≤ Wal.givenSz gs file / 24 ∧
    (∀ hdr, parseWalHeader (file.slice 0 Generated.WAL_HEADER_LENGTH) = .ok hdr →
      (openWalCounted gs file).1 ≤ (Wal.givenSz gs file - 32) / (24 + hdr.pageSize)) ∧
    (∀ e, parseWalHeader (file.slice 0 Generated.WAL_HEADER_LENGTH) = .error e → (openWalCounted gs file).1 = 0) := by
  have hok : ∀ hdr, parseWalHeader (file.slice 0 Generated.WAL_HEADER_LENGTH) = .ok hdr →
      (openWalCounted gs file).1 ≤ (Wal.givenSz gs file - 32) / (24 + hdr.pageSize) := by
    intro hdr hh
    rw [openWalCounted_fst_ok gs file hdr hh]
    have hle := foldlMCounted_le (walScanStep ⟨Wal.givenSz gs file, file⟩ hdr)
      (List.range ((Wal.givenSz gs file - 32) / (24 + hdr.pageSize))) {}
    rwa [List.length_range] at hle
  refine ⟨?_, hok, openWalCounted_fst_error gs file⟩
  cases hh : parseWalHeader (file.slice 0 Generated.WAL_HEADER_LENGTH) with
  | error e => rw [openWalCounted_fst_error gs file e hh]; exact Nat.zero_le _
  | ok hdr =>
    have hdiv : (Wal.givenSz gs file - 32) / (24 + hdr.pageSize) ≤ Wal.givenSz gs file / 24 :=
      Nat.le_trans (Nat.div_le_div_left (by omega) (by omega)) (Nat.div_le_div_right (by omega))
    exact Nat.le_trans (hok hdr hh) hdiv

/-- an accepted log: exactly `(size - 32) / (24 + pageSize)` frames were read, each is a valid or
an invalid (older-salt) frame of the result -/
theorem wal_frames_read_ok (gs : Option Nat) (file : Buf) (w : Wal) (h : openWal gs file = .ok w) :
    (openWalCounted gs file).1 = (Wal.givenSz gs file - 32) / (24 + w.hdr.pageSize) ∧
    w.nFrames.toNat = (Wal.givenSz gs file - 32) / (24 + w.hdr.pageSize) ∧
    w.frames.length + w.invalid.length = (Wal.givenSz gs file - 32) / (24 + w.hdr.pageSize) := by
  obtain ⟨hdr, st, fsize, hfs, hhdr, hfold, -, -, hwh, hwf, hwi, hwn⟩ := Wal.openWal_ok gs file w h
  subst hfs
  rw [hwh, hwf, hwi, hwn, nFrames_toNat]
  rw [nFrames_toNat] at hfold
  refine ⟨?_, rfl, ?_⟩
  · rw [openWalCounted_fst_ok gs file hdr hhdr]
    have := foldlMCounted_ok (walScanStep ⟨Wal.givenSz gs file, file⟩ hdr)
      (List.range ((Wal.givenSz gs file - 32) / (24 + hdr.pageSize))) {} st
      (by rw [foldlMCounted_snd]; exact hfold)
    rw [this, List.length_range]
  · exact Wal.foldlM_range_induct (walScanStep ⟨Wal.givenSz gs file, file⟩ hdr) {}
      (fun i s => s.valid.length + s.invalid.length = i) rfl
      (by
        intro i s s' hP hs
        obtain ⟨f, -, hc⟩ := Wal.walScanStep_ok _ _ _ _ _ hs
        rcases hc with ⟨-, hv, hi, -⟩ | ⟨-, -, -, hv, hi, -⟩
        · rw [hv, hi, List.length_append, List.length_singleton]; omega
        · rw [hv, hi, List.length_append, List.length_singleton]; omega)
      _ st hfold

/-- `VersionHistory.__init__` splits the valid frames into commit records in one pass: every valid
frame is in exactly one group (or in the uncommitted rest, which makes the constructor fail) -/
theorem wal_groups_one_pass (fs : List Frame) :
    (groupFrames fs [] []).1.flatten ++ (groupFrames fs [] []).2 = fs ∧
    ((groupFrames fs [] []).1.map List.length).sum + (groupFrames fs [] []).2.length = fs.length ∧
    (groupFrames fs [] []).1.length ≤ fs.length := by
  obtain ⟨h1, h2, -⟩ := Wal.group_spec fs _ _ rfl
  refine ⟨h1, ?_, ?_⟩
  · have := congrArg List.length h1
    rw [List.length_append, List.length_flatten] at this
    exact this
  · rw [Wal.version_count]
    exact List.length_filter_le _ _

/-! ### 4. rollback-journal page records -/

open SqliteDissect.Model.Carve

theorem journalLoopCounted_snd (sig : CarveSig) (ps : Nat) (fh : FileH) : ∀ (fuel offset : Nat),
    (journalLoopCounted sig ps fh fuel offset).2 = journalLoop sig ps fh fuel offset := by
  intro fuel
  induction fuel with
  | zero => intro offset; rfl
  | succ fuel ih =>
    intro offset
    rw [journalLoopCounted, journalLoop]
    simp only
    cases h1 : (do let b ← fh.read offset 4; b.u32 0 : Py Nat) with
    | error e => simp only [error_bind]
    | ok pn =>
    cases h2 : fh.read (offset + 4) ps with
    | error e => simp only [ok_bind, error_bind]
    | ok content =>
    cases h3 : fh.read (offset + 4 + ps) 4 with
    | error e => simp only [ok_bind, error_bind]
    | ok _ =>
    cases h4 : carveJournalPage sig ps pn (offset + 4) content with
    | error e => simp only [h4, ok_bind, error_bind]
    | ok c1 =>
      simp only [h4, ok_bind]
      split
      · split
        · rfl
        · rfl
      · rw [ih]

theorem carveJournalCounted_snd (sig : CarveSig) (ps : Nat) (fh : FileH) :
    (carveJournalCounted sig ps fh).2 = carveJournal sig ps fh := by
  unfold carveJournalCounted carveJournal
  split
  · exact journalLoopCounted_snd sig ps fh _ _
  · rfl

/-- the records visited from `offset`: at most two, or one per whole record size that fits below
the end of the file -/
theorem journalLoopCounted_le (sig : CarveSig) (ps : Nat) (fh : FileH) : ∀ (fuel offset : Nat),
    (journalLoopCounted sig ps fh fuel offset).1 ≤ 2 ∨
    ∃ k, (journalLoopCounted sig ps fh fuel offset).1 = k + 1 ∧ k * (ps + 8) + offset < fh.size := by
  intro fuel
  induction fuel with
  | zero => intro offset; left; simp [journalLoopCounted]
  | succ fuel ih =>
    intro offset
    rw [journalLoopCounted]
    simp only
    cases (do
        let pn ← (do let b ← fh.read offset 4; b.u32 0 : Py Nat)
        let content ← fh.read (offset + 4) ps
        let _ ← fh.read (offset + 4 + ps) 4
        carveJournalPage sig ps pn (offset + 4) content : Py (Option JournalCommit)) with
    | error e => left; simp
    | ok c1 =>
      simp only
      split
      · split
        · left; simp
        · left; simp
      · rename_i hc
        rcases ih (offset + (4 + ps + 4)) with h | ⟨k, hk, hlt⟩
        · right
          refine ⟨(journalLoopCounted sig ps fh fuel (offset + (4 + ps + 4))).1, rfl, ?_⟩
          generalize (journalLoopCounted sig ps fh fuel (offset + (4 + ps + 4))).1 = c at h
          have : c = 0 ∨ c = 1 ∨ c = 2 := by omega
          rcases this with rfl | rfl | rfl <;> simp only [Nat.zero_mul, Nat.one_mul, Nat.two_mul] <;> omega
        · right
          refine ⟨k + 1, by rw [hk], ?_⟩
          rw [Nat.add_one_mul]
          omega

/-- **page records visited ≤ (size - 512) / (pageSize + 8) + 1**, on success and on failure -/
theorem journal_records_le (sig : CarveSig) (ps : Nat) (fh : FileH) :
    (carveJournalCounted sig ps fh).1 ≤ (fh.size - 512) / (ps + 8) + 1 := by
  unfold carveJournalCounted
  split
  · rename_i hsz
    have h1 : 1 ≤ (fh.size - 512) / (ps + 8) :=
      (Nat.le_div_iff_mul_le (by omega : 0 < ps + 8)).mpr (by omega)
    rcases journalLoopCounted_le sig ps fh (fh.size / (ps + 8) + 2) 512 with h | ⟨k, hk, hlt⟩
    · omega
    · have : k ≤ (fh.size - 512) / (ps + 8) := (Nat.le_div_iff_mul_le (by omega : 0 < ps + 8)).mpr (by omega)
      omega
  · exact Nat.zero_le _

/-- more fuel changes nothing once `offset + fuel * (pageSize + 8)` reaches the end of the file -/
theorem journalLoop_fuel_irrelevant (sig : CarveSig) (ps : Nat) (fh : FileH) : ∀ (fuel fuel' offset : Nat),
    fh.size ≤ offset + fuel * (ps + 8) → fh.size ≤ offset + fuel' * (ps + 8) → 1 ≤ fuel → 1 ≤ fuel' →
    journalLoop sig ps fh fuel offset = journalLoop sig ps fh fuel' offset := by
  intro fuel
  induction fuel with
  | zero => intro fuel' offset _ _ h; omega
  | succ fuel ih =>
    intro fuel' offset h1 h2 _ h4
    cases fuel' with
    | zero => omega
    | succ fuel' =>
      rw [journalLoop, journalLoop]
      by_cases hc : offset + (4 + ps + 4) + (4 + ps + 4) ≥ fh.size
      · simp only [if_pos hc]
      · rw [Nat.add_one_mul] at h1 h2
        have hf : 2 ≤ fuel := by
          rcases Nat.lt_or_ge fuel 2 with h | h
          · have : fuel = 0 ∨ fuel = 1 := by omega
            rcases this with rfl | rfl <;> simp only [Nat.zero_mul, Nat.one_mul] at h1 <;> omega
          · exact h
        have hf' : 2 ≤ fuel' := by
          rcases Nat.lt_or_ge fuel' 2 with h | h
          · have : fuel' = 0 ∨ fuel' = 1 := by omega
            rcases this with rfl | rfl <;> simp only [Nat.zero_mul, Nat.one_mul] at h2 <;> omega
          · exact h
        have heq := ih fuel' (offset + (4 + ps + 4)) (by omega) (by omega) (by omega) (by omega)
        simp only [if_neg hc, heq]

/-- **the fuel the model gives the journal loop is never exhausted**: any larger fuel gives the
same result (so `outsideModel` never comes from the loop bound) -/
theorem journal_fuel_adequate (sig : CarveSig) (ps : Nat) (fh : FileH) (fuel : Nat)
    (h : fh.size / (ps + 8) + 2 ≤ fuel) :
    journalLoop sig ps fh fuel 512 = journalLoop sig ps fh (fh.size / (ps + 8) + 2) 512 := by
  have hdm := Nat.div_add_mod fh.size (ps + 8)
  have hml := Nat.mod_lt fh.size (by omega : 0 < ps + 8)
  have hbase : fh.size ≤ 512 + (fh.size / (ps + 8) + 2) * (ps + 8) := by
    rw [Nat.add_mul, Nat.mul_comm (fh.size / (ps + 8))]
    omega
  have h2 : 2 ≤ fh.size / (ps + 8) + 2 := Nat.le_add_left 2 _
  refine journalLoop_fuel_irrelevant sig ps fh _ _ 512 ?_ hbase (Nat.le_trans (by decide) (Nat.le_trans h2 h))
    (Nat.le_trans (by decide) h2)
  exact Nat.le_trans hbase (Nat.add_le_add_left (Nat.mul_le_mul_right _ h) _)

/-! ### 5. the whole b-tree walk -/

open SqliteDissect.Proofs.TreeFrame

/-- a successful `unpack` of `n > 0` bytes at a non-negative offset lies inside the buffer -/
theorem unpackAt_ok_bound (b : Buf) (lo : Int) (n x : Nat) (h0 : 0 ≤ lo) (hn : 0 < n)
    (h : unpackAt b lo n = .ok x) : lo + n ≤ b.size := by
  unfold unpackAt at h
  simp only at h
  by_cases hs : (pySlice b lo (lo + n)).size = n
  · clear h
    unfold pySlice Buf.slice at hs
    simp only at hs
    repeat' split at hs
    all_goals omega
  · rw [if_neg hs] at h
    cases h

/-- every step of the freeblock walk reads four bytes inside the page at a strictly larger offset:
the walk accepts at most `page.size - 3 - off` freeblocks from offset `off` -/
theorem freeblockWalk_count (page : Buf) : ∀ (fuel idx off : Nat) (acc fbs : List Freeblock),
    freeblockWalk page fuel idx off acc = .ok fbs → fbs.length + off + 3 ≤ acc.length + page.size := by
  intro fuel
  induction fuel with
  | zero => intro idx off acc fbs h; rw [freeblockWalk] at h; exact nomatch h
  | succ fuel ih =>
    intro idx off acc fbs h
    rw [freeblockWalk] at h
    obtain ⟨fb, hfb, h⟩ := bind_ok h
    have hoff : off + 4 ≤ page.size ∧ fb.next = fb.next := by
      unfold parseFreeblock at hfb
      obtain ⟨nx, h1, hfb⟩ := bind_ok hfb
      obtain ⟨sz, h2, hfb⟩ := bind_ok hfb
      have := unpackAt_ok_bound page _ _ _ (by omega) (by decide) h2
      simp only [Generated.NEXT_FREEBLOCK_OFFSET_LENGTH, Generated.FREEBLOCK_BYTE_LENGTH] at this
      exact ⟨by omega, rfl⟩
    split at h
    · simp only [pure, Except.pure, Except.ok.injEq] at h
      subst h
      simp only [List.length_reverse, List.length_cons]
      omega
    split at h
    · exact nomatch h
    · rename_i hn0 hle
      have := ih _ _ _ _ h
      simp only [List.length_cons] at this
      omega

theorem fbsOf_count (page : Buf) (hdr : PageHdr) (fbs : List Freeblock) (h : fbsOf page hdr = .ok fbs) :
    fbs.length ≤ page.size := by
  unfold fbsOf at h
  split at h
  · have := freeblockWalk_count page _ _ _ _ _ h
    simp only [List.length_nil] at this
    omega
  · simp only [pure, Except.pure, Except.ok.injEq] at h
    subst h
    exact Nat.zero_le _

/-- the overflow pages of a parsed cell are the pages of one accepted overflow chain (or none) -/
theorem parsePayloadCell_chain (v : VersionIf) (kind : CellKind) (page : Buf) (index start : Nat)
    (lc : Option Nat) (rowid : Option Int) (p : Int) (prefixLen : Nat) (c : Cell)
    (h : parsePayloadCell v kind page index start lc rowid p prefixLen = .ok c) :
    c.overflowPages = [] ∨ ∃ first ov, parseOverflowChain v first ov = .ok c.overflowPages := by
  unfold parsePayloadCell at h
  simp only at h
  obtain ⟨ovNum, _, h⟩ := bind_ok h
  generalize calcExpectedOverflow _ _ = ce at h
  cases ce with
  | none => exact nomatch h
  | some val =>
    obtain ⟨expPages, expLast⟩ := val
    cases ovNum <;> simp only at h <;> (
      obtain ⟨chain, hch, h⟩ := bind_ok h
      by_cases hc1 : expPages ≠ (dictOfChain chain).length
      · rw [if_pos hc1] at h; exact nomatch h
      rw [if_neg hc1] at h
      revert h
      cases hgl : chain.getLast? <;> intro h <;> simp only at h <;> (
        split at h
        · exact nomatch h
        obtain ⟨ovBuf, hob, h⟩ := bind_ok h
        obtain ⟨rec_, hrec, h⟩ := bind_ok h
        have hc : c.overflowPages = chain := by
          simp only [pure, Except.pure, Except.ok.injEq] at h
          rw [← h]
        rw [hc]
        first
          | (simp only [pure, Except.pure, Except.ok.injEq] at hch
             left
             exact hch.symm)
          | exact Or.inr ⟨_, _, hch⟩))

theorem parseCellLocal_chain (v : VersionIf) (kind : CellKind) (page : Buf) (index start : Nat) (c : Cell)
    (h : parseCellLocal v kind page index start = .ok c) :
    c.overflowPages = [] ∨ ∃ first ov, parseOverflowChain v first ov = .ok c.overflowPages := by
  cases kind with
  | tableInterior => exact Or.inl ((parseCellLocal_shape v _ _ _ _ _ h).2.2 rfl)
  | tableLeaf =>
    unfold parseCellLocal at h
    simp only at h
    obtain ⟨⟨p, n1⟩, h1, h⟩ := bind_ok h
    obtain ⟨⟨rowid, n2⟩, h2, h⟩ := bind_ok h
    exact parsePayloadCell_chain v _ _ _ _ _ _ _ _ _ h
  | indexLeaf =>
    unfold parseCellLocal at h
    simp only at h
    obtain ⟨⟨p, n1⟩, h1, h⟩ := bind_ok h
    exact parsePayloadCell_chain v _ _ _ _ _ _ _ _ _ h
  | indexInterior =>
    unfold parseCellLocal at h
    simp only at h
    obtain ⟨lc, h0, h⟩ := bind_ok h
    obtain ⟨⟨p, n1⟩, h1, h⟩ := bind_ok h
    obtain ⟨c0, h2, h⟩ := bind_ok h
    split at h
    · exact nomatch h
    simp only [pure, Except.pure, Except.ok.injEq] at h
    subst h
    exact parsePayloadCell_chain v _ _ _ _ _ _ _ _ _ h2

/-- a parsed cell has at most `D` overflow pages when the version serves the pages `1 … D` only -/
theorem cell_overflow_le (v : VersionIf) (D : Nat)
    (hD : ∀ p, (v.pageOffset p).isOk = true → 1 ≤ p ∧ p ≤ D)
    (kind : CellKind) (page : Buf) (index start : Nat) (c : Cell)
    (h : parseCellLocal v kind page index start = .ok c) : c.overflowPages.length ≤ D := by
  rcases parseCellLocal_chain v kind page index start c h with h0 | ⟨first, ov, hch⟩
  · rw [h0]; exact Nat.zero_le _
  · have hnd := CellArith.overflow_walk_no_repeat v first ov _ hch
    have hs := parseOverflowChain_served v first ov _ hch
    have := TreeWalk.nodup_bounded_length_le D _ hnd (by
      intro x hx
      obtain ⟨o, ho, rfl⟩ := List.mem_map.mp hx
      obtain ⟨⟨off, hoff⟩, -⟩ := hs o ho
      exact hD _ (by rw [hoff]; rfl))
    simpa using this

/-- a property of the page assembled by one `BTreePage.__init__` (from everything that call
computed) holds of every page of the result -/
theorem parseBTree_all (v : VersionIf) (Q : BPage → Prop)
    (hme : ∀ (fuel n : Nat) (cls : PageType) (t : List BPage) (P : Parts v fuel n cls t),
      Q (mkPage n P.ptype P.hdr P.pv P.off P.page P.st P.fbs P.lay)) :
    ∀ (fuel n : Nat) (cls : PageType) (t : List BPage), parseBTree v fuel n cls = .ok t → ∀ p ∈ t, Q p := by
  intro fuel
  induction fuel using Nat.strongRecOn with
  | ind fuel ih =>
  intro n cls t h
  cases fuel with
  | zero => rw [parseBTree_zero] at h; exact nomatch h
  | succ fuel =>
    obtain ⟨P⟩ := parseBTree_parts v fuel n cls t h
    have hsubs : ∀ s ∈ P.st.2.1, ∀ p ∈ s, Q p := by
      refine foldlM_inv (cellStep v fuel cls P.page (ptrOffOf P.hdr)) (fun st => ∀ s ∈ st.2.1, ∀ p ∈ s, Q p) ?_
        _ _ _ P.hfold (by simp)
      intro s x s' hs hI
      obtain ⟨cellOff, c, sub, _, _, h3, rfl⟩ := cellStep_ok _ _ _ _ _ _ _ _ hs
      intro s0 hs0
      simp only [List.mem_append, List.mem_singleton] at hs0
      rcases hs0 with hs0 | rfl
      · exact hI s0 hs0
      · rcases cellSub_ok _ _ _ _ _ h3 with ⟨_, rfl⟩ | ⟨lc, fb, ccls, _, _, _, _, hp⟩
        · intro p hp; exact nomatch hp
        · exact ih _ (by simp only [cellDescentFrames]; omega) _ _ _ hp
    rcases finish_ok _ _ _ _ _ _ _ P.hfin with ⟨_, ht⟩ | ⟨_, rm, fb, ccls, rsub, _, _, _, _, _, hrsub, ht⟩
    · intro p hp
      rw [ht, List.mem_singleton] at hp
      subst hp
      exact hme fuel n cls _ P
    · intro p hp
      rw [ht] at hp
      rcases List.mem_cons.mp hp with rfl | hp
      · exact hme fuel n cls _ P
      · rcases List.mem_append.mp hp with hp | hp
        · exact ih _ (by simp only [rightMostDescentFrames]; omega) _ _ _ hrsub p hp
        · obtain ⟨s, hs, hps⟩ := List.mem_flatten.mp hp
          exact hsubs s hs p hps

theorem parsePageHdr_headerLength (page : Buf) (interior : Bool) (hdr : PageHdr)
    (h : parsePageHdr page interior = .ok hdr) : 8 ≤ hdr.headerLength := by
  unfold parsePageHdr at h
  simp only at h
  obtain ⟨ffb, _, h⟩ := bind_ok h
  obtain ⟨nc, _, h⟩ := bind_ok h
  obtain ⟨cco, _, h⟩ := bind_ok h
  obtain ⟨fb, _, h⟩ := bind_ok h
  split at h
  · obtain ⟨rm, _, h⟩ := bind_ok h
    simp only [pure, Except.pure, Except.ok.injEq] at h
    rw [← h]; simp
  · simp only [pure, Except.pure, Except.ok.injEq] at h
    rw [← h]; simp

/-- what one page construction of a successful parse computed, in terms of the page buffer: the
cell pointer array lies inside the page, the freeblock walk accepted at most one freeblock per
byte of the page, every cell's overflow chain has at most `D` pages -/
theorem page_cost (v : VersionIf) (D : Nat) (hD : ∀ p, (v.pageOffset p).isOk = true → 1 ≤ p ∧ p ≤ D)
    (fuel n : Nat) (cls : PageType) (t : List BPage) (P : Parts v fuel n cls t) :
    (mkPage n P.ptype P.hdr P.pv P.off P.page P.st P.fbs P.lay).cells.length ≤ (P.page.size - 8) / 2 ∧
    (mkPage n P.ptype P.hdr P.pv P.off P.page P.st P.fbs P.lay).freeblocks.length ≤ P.page.size ∧
    ∀ c ∈ (mkPage n P.ptype P.hdr P.pv P.off P.page P.st P.fbs P.lay).cells, c.overflowPages.length ≤ D := by
  show P.st.1.length ≤ (P.page.size - 8) / 2 ∧ P.fbs.length ≤ P.page.size ∧
    ∀ c ∈ P.st.1, c.overflowPages.length ≤ D
  have hptr : 8 ≤ ptrOffOf P.hdr := by
    have := parsePageHdr_headerLength _ _ _ P.hhdr
    unfold ptrOffOf
    omega
  have hinv := Wal.foldlM_range_induct (cellStep v fuel cls P.page (ptrOffOf P.hdr)) ([], [], 0)
    (fun i (st : CellSt) => st.1.length = i ∧ (0 < i → ptrOffOf P.hdr + 2 * i ≤ P.page.size) ∧
      ∀ c ∈ st.1, c.overflowPages.length ≤ D)
    ⟨rfl, fun h => absurd h (Nat.lt_irrefl 0), fun c hc => nomatch hc⟩
    (by
      intro i st st' hI hs
      obtain ⟨cellOff, c, sub, h1, h2, _, rfl⟩ := cellStep_ok _ _ _ _ _ _ _ _ hs
      have hb := unpackAt_ok_bound P.page _ _ _ (by simp only [Generated.CELL_POINTER_BYTE_LENGTH]; omega) (by decide) h1
      simp only [Generated.CELL_POINTER_BYTE_LENGTH] at hb
      refine ⟨by simp only [List.length_append, List.length_singleton, hI.1], fun _ => by omega, ?_⟩
      intro c0 hc0
      rcases List.mem_append.mp hc0 with hc0 | hc0
      · exact hI.2.2 c0 hc0
      · rw [List.mem_singleton] at hc0
        subst hc0
        exact cell_overflow_le v D hD _ _ _ _ _ h2)
    _ _ P.hfold
  obtain ⟨h1, h2, h3⟩ := hinv
  refine ⟨?_, fbsOf_count _ _ _ P.hfbs, h3⟩
  rcases Nat.eq_zero_or_pos P.hdr.nCells with h0 | h0
  · rw [h1, h0]; exact Nat.zero_le _
  · have := h2 h0
    rw [h1]
    omega

/-- **per-page bounds of an accepted b-tree**: for every page of the result, the number of cells is
at most `(pageSize - 8) / 2`, the number of freeblocks at most `pageSize`, and every cell has at
most `D` overflow pages — when the version serves whole pages no larger than its page size and
looks up the offsets of the pages `1 … D` only -/
theorem parseBTree_page_costs (v : VersionIf) (D : Nat)
    (hD : ∀ p, (v.pageOffset p).isOk = true → 1 ≤ p ∧ p ≤ D)
    (hsz : ∀ p page, v.getData p 0 none = .ok page → page.size ≤ v.pageSize)
    (fuel n : Nat) (cls : PageType) (t : List BPage) (h : parseBTree v fuel n cls = .ok t) :
    ∀ p ∈ t, p.cells.length ≤ (v.pageSize - 8) / 2 ∧ p.freeblocks.length ≤ v.pageSize ∧
      ∀ c ∈ p.cells, c.overflowPages.length ≤ D := by
  refine parseBTree_all v _ ?_ fuel n cls t h
  intro fuel n cls t P
  obtain ⟨h1, h2, h3⟩ := page_cost v D hD fuel n cls t P
  have hs := hsz n P.page P.hpage
  refine ⟨Nat.le_trans h1 (Nat.div_le_div_right (by omega)), Nat.le_trans h2 hs, h3⟩

/-- **the whole b-tree walk**: at most `D` page constructions are started, on success and on
failure; when the walk succeeds the result has at most `D` pages, each with at most
`(pageSize - 8) / 2` cells, at most `pageSize` freeblocks, and at most `D` overflow pages per cell -/
theorem btree_walk_cost (v : VersionIf) (D : Nat)
    (hD : ∀ p, (v.pageOffset p).isOk = true → 1 ≤ p ∧ p ≤ D)
    (hsz : ∀ p page, v.getData p 0 none = .ok page → page.size ≤ v.pageSize)
    (fuel n : Nat) (cls : PageType) :
    (parseBTreeLog v fuel n cls []).1.length ≤ D ∧
    ∀ ps, parseBTreeW v fuel n cls [] = .ok ps →
      ps.length ≤ D ∧
      ∀ p ∈ ps, p.cells.length ≤ (v.pageSize - 8) / 2 ∧ p.freeblocks.length ≤ v.pageSize ∧
        ∀ c ∈ p.cells, c.overflowPages.length ≤ D := by
  have hc := TreeWalk.constructions_le v D hD fuel n cls
  refine ⟨hc, fun ps hps => ⟨?_, ?_⟩⟩
  · obtain ⟨new, hnew, hperm⟩ := TreeWalk.log_of_ok v fuel n cls [] ps hps
    rw [hnew, List.append_nil, hperm.length_eq, List.length_map] at hc
    exact hc
  · exact parseBTree_page_costs v D hD hsz fuel n cls ps (TreeWalk.parseBTreeW_ok v fuel n cls [] ps hps).1

/-- the page buffers of a database file are no larger than the page size -/
theorem dbVersionIf_page_size (cfg : Config) (ps : Nat) (dsize : DbSize) (f : FileH) (p : Nat) (page : Buf)
    (h : (dbVersionIf cfg ps dsize f).getData p 0 none = .ok page) : page.size ≤ ps := by
  simp only [dbVersionIf, dbGetData] at h
  split at h
  · exact nomatch h
  split at h
  · exact nomatch h
  split at h
  · exact nomatch h
  unfold FileH.read at h
  split at h
  · exact nomatch h
  split at h
  · exact nomatch h
  simp only [Except.ok.injEq] at h
  rw [← h]
  simp only [Buf.slice]
  omega

end SqliteDissect.Proofs.Cost
