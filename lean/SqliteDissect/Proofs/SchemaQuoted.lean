/-
Helper lemmas for Properties/C07.lean, second part: quoted names with doubled quote characters
(repair 687226d) and block comments, those starting with "/*/" included (repair 41d65d3).
-/
import SqliteDissect.Proofs.Schema

namespace SqliteDissect.Proofs.Schema
open SqliteDissect SqliteDissect.Model.Schema SqliteDissect.Spec.Ddl

/-- the error class of a result (for concrete examples: `Except` has no decidable equality in core) -/
def errorOf {α : Type} : Py α → Option PyErr
  | .ok _ => none
  | .error e => some e

/-! ### the regex `^Q((?:[^Q]|QQ)*)Q` on SQLite's spelling of a name -/

theorem quotedGroup_close (q : Char) (x : Str) (hx : x.head? ≠ some q) : quotedGroup q (q :: x) = some ([], 2) := by
  cases x with
  | nil => simp [quotedGroup]
  | cons d ds =>
      have : (d == q) = false := by simpa using fun e : d = q => hx (by simp [e])
      simp [quotedGroup, this]

theorem quotedGroup_pair (q : Char) (x g : Str) (n : Nat) (h : quotedGroup q x = some (g, n)) :
    quotedGroup q (q :: q :: x) = some (q :: q :: g, n + 2) := by
  simp [quotedGroup, h]

theorem quotedGroup_other (q c : Char) (x : Str) (hc : c ≠ q) :
    quotedGroup q (c :: x) = (quotedGroup q x).map fun (g, n) => (c :: g, n + 1) := by
  have : (c == q) = false := by simpa using hc
  cases x with
  | nil => simp [quotedGroup, this]
  | cons d ds => simp [quotedGroup, this]

/-- on the doubled spelling of `name`, followed by the closing quote and anything that does not
start with another quote character, the group is the spelling and the match ends at the closing quote -/
theorem quotedGroup_escape (q : Char) (r : Str) (hr : r.head? ≠ some q) : ∀ name : Str,
    quotedGroup q (escapeQuote q name ++ q :: r) = some (escapeQuote q name, (escapeQuote q name).length + 2)
  | [] => by simpa [escapeQuote] using quotedGroup_close q r hr
  | c :: cs => by
      have ih := quotedGroup_escape q r hr cs
      by_cases hc : c = q
      · subst hc
        simp only [escapeQuote, beq_self_eq_true, if_true, List.cons_append]
        rw [quotedGroup_pair _ _ _ _ ih]
        simp
      · have e : (c == q) = false := by simpa using hc
        simp only [escapeQuote, e, Bool.false_eq_true, if_false, List.cons_append]
        rw [quotedGroup_other q c _ hc, ih]
        simp

theorem replaceDouble_other (q c : Char) (x : Str) (hc : c ≠ q) : replaceDouble q (c :: x) = c :: replaceDouble q x := by
  have : (c == q) = false := by simpa using hc
  cases x with
  | nil => simp [replaceDouble]
  | cons d ds => simp [replaceDouble, this]

/-- `.replace(QQ, Q)` undoes the doubling -/
theorem replaceDouble_escape (q : Char) : ∀ name : Str, replaceDouble q (escapeQuote q name) = name
  | [] => by simp [escapeQuote, replaceDouble]
  | c :: cs => by
      have ih := replaceDouble_escape q cs
      by_cases hc : c = q
      · subst hc
        simp [escapeQuote, replaceDouble, ih]
      · have e : (c == q) = false := by simpa using hc
        simp only [escapeQuote, e, Bool.false_eq_true, if_false]
        rw [replaceDouble_other q c _ hc, ih]

theorem isQuote_cases (q : Char) (h : isQuote q = true) : q = '"' ∨ q = '\'' ∨ q = '`' := by
  simpa [isQuote, or_assoc] using h

theorem isQuote_isQuoteChar (q : Char) (h : isQuote q = true) : isQuoteChar q = true ∧ q ≠ '[' := by
  rcases isQuote_cases q h with rfl | rfl | rfl <;> exact ⟨by decide, by decide⟩

theorem quoteName_length (q : Char) (name : Str) : (quoteName q name).length = (escapeQuote q name).length + 2 := by
  simp [quoteName]

/-- the name reader on a quoted name: the name SQLite means, and the whole quoted text consumed -/
theorem quotedName_quoteName (q : Char) (hq : isQuote q = true) (name r : Str) (hr : r.head? ≠ some q) :
    quotedName (quoteName q name ++ r) = some (some (name, (quoteName q name).length)) := by
  obtain ⟨h1, h2⟩ := isQuote_isQuoteChar q hq
  have e2 : (q == '[') = false := by simpa using h2
  have hg := quotedGroup_escape q r hr name
  have ht : quoteName q name ++ r = q :: (escapeQuote q name ++ q :: r) := by simp [quoteName]
  rw [ht, quotedName]
  simp only [e2, Bool.false_eq_true, if_false, h1, if_true, hg, Option.map_some, replaceDouble_escape, quoteName_length]

/-! ### what a quoted name must avoid (open findings C07-09, C07-13) -/

/-- no two neighbouring characters both satisfy `p` -/
def noAdj (p : Char → Bool) : Str → Bool
  | [] => true
  | [_] => true
  | a :: b :: rest => !(p a && p b) && noAdj p (b :: rest)

/-- The names for which the quoted-name theorems are proved.  Inside quotes SQLite allows every
character; the code still (1) takes a "/" or a "--" anywhere in a column definition for the start of
a comment (open finding C07-09) and (2) replaces every run of two or more whitespace characters by
one space before it looks for the name (open finding C07-13).  A single "-" and single whitespace
characters (a newline too) are fine. -/
structure QuotedSafe (name : Str) : Prop where
  no_slash : '/' ∉ name
  no_dashdash : noAdj (· == '-') name = true
  no_ws_run : noAdj isSpace name = true

theorem noAdj_tail (p : Char → Bool) (a : Char) (l : Str) (h : noAdj p (a :: l) = true) : noAdj p l = true := by
  cases l with
  | nil => rfl
  | cons b rest => simp [noAdj] at h; exact h.2

theorem noAdj_cons (p : Char → Bool) (a : Char) (l : Str) (ha : p a = false) (h : noAdj p l = true) :
    noAdj p (a :: l) = true := by
  cases l with
  | nil => rfl
  | cons b rest => simp [noAdj, ha, h]

theorem noAdj_head (p : Char → Bool) (a b : Char) (l : Str) (h : noAdj p (a :: b :: l) = true) (ha : p a = true) :
    p b = false := by
  simp [noAdj, ha] at h
  exact h.1

theorem escapeQuote_head (q d : Char) (ds : Str) : ∃ tl, escapeQuote q (d :: ds) = d :: tl := by
  by_cases h : d = q
  · subst h; exact ⟨d :: escapeQuote d ds, by simp [escapeQuote]⟩
  · have e : (d == q) = false := by simpa using h
    exact ⟨escapeQuote q ds, by simp [escapeQuote, e]⟩

theorem noAdj_escape (p : Char → Bool) (q : Char) (hq : p q = false) : ∀ name : Str, noAdj p name = true →
    noAdj p (escapeQuote q name) = true
  | [], _ => rfl
  | c :: cs, h => by
      have ih := noAdj_escape p q hq cs (noAdj_tail p c cs h)
      by_cases hc : c = q
      · subst hc
        simp only [escapeQuote, beq_self_eq_true, if_true]
        exact noAdj_cons p _ _ hq (noAdj_cons p _ _ hq ih)
      · have e : (c == q) = false := by simpa using hc
        simp only [escapeQuote, e, Bool.false_eq_true, if_false]
        cases cs with
        | nil => rfl
        | cons d ds =>
            obtain ⟨tl, htl⟩ := escapeQuote_head q d ds
            rw [htl] at ih ⊢
            simp only [noAdj, Bool.and_eq_true, Bool.not_eq_true'] at h ⊢
            exact ⟨h.1, ih⟩

theorem mem_escapeQuote (q x : Char) : ∀ name : Str, x ∈ escapeQuote q name → x ∈ name ∨ x = q
  | [], h => by simp [escapeQuote] at h
  | c :: cs, h => by
      by_cases hc : c = q
      · subst hc
        simp only [escapeQuote, beq_self_eq_true, if_true, List.mem_cons] at h
        rcases h with h | h | h
        · exact Or.inr h
        · exact Or.inr h
        · rcases mem_escapeQuote c x cs h with h | h
          · exact Or.inl (by simp [h])
          · exact Or.inr h
      · have e : (c == q) = false := by simpa using hc
        simp only [escapeQuote, e, Bool.false_eq_true, if_false, List.mem_cons] at h
        rcases h with h | h
        · exact Or.inl (by simp [h])
        · rcases mem_escapeQuote q x cs h with h | h
          · exact Or.inl (by simp [h])
          · exact Or.inr h

/-! ### the comment stripper and the whitespace collapse leave such text alone -/

theorem stripCC_safe : ∀ (a : Str), '/' ∉ a → noAdj (· == '-') a = true → ∀ (b : Str), b ≠ [] →
    (∀ c ∈ b, c ≠ '/' ∧ c ≠ '-') → ∀ fuel, (a ++ b).length < fuel →
    stripColumnComments fuel (a ++ b) = .ok (a ++ b)
  | [], _, _, b, _, hb, fuel, hf => stripColumnComments_plain b fuel (by simpa using hf) hb
  | c :: cs, hs, hd, b, hbne, hb, fuel, hf => by
      cases fuel with
      | zero => simp at hf
      | succ f =>
          have h1 : c ≠ '/' := fun e => hs (by simp [e])
          have e1 : (c == '/') = false := by simpa using h1
          have ih := stripCC_safe cs (fun hm => hs (by simp [hm])) (noAdj_tail _ c cs hd) b hbne hb f
            (by simp at hf ⊢; omega)
          by_cases h2 : c = '-'
          · subst h2
            obtain ⟨d, tl, htl, hdne⟩ : ∃ d tl, cs ++ b = d :: tl ∧ d ≠ '-' := by
              cases cs with
              | nil =>
                  cases b with
                  | nil => exact absurd rfl hbne
                  | cons d tl => exact ⟨d, tl, rfl, (hb d (by simp)).2⟩
              | cons d ds =>
                  refine ⟨d, ds ++ b, rfl, ?_⟩
                  have := noAdj_head _ _ _ _ hd (by decide)
                  simpa using this
            have e3 : (d == '-') = false := by simpa using hdne
            simp only [List.cons_append, stripColumnComments, e1, Bool.false_eq_true, if_false,
              beq_self_eq_true, if_true]
            rw [htl] at ih ⊢
            simp only [e3, Bool.false_eq_true, if_false, ih, Except.map]
          · have e2 : (c == '-') = false := by simpa using h2
            simp only [List.cons_append, stripColumnComments, e1, e2, Bool.false_eq_true, if_false, ih, Except.map]

theorem collapseGo_step (p : Char → Bool) (c y : Char) (rest : Str) (hy : p y = false) :
    collapseGo p none (c :: y :: rest) = c :: collapseGo p none (y :: rest) := by
  by_cases hc : p c = true
  · simp [collapseGo, hc, hy]
  · have : p c = false := by simpa using hc
    simp [collapseGo, this, hy]

theorem collapseGo_noAdj (p : Char → Bool) (x : Char) (r : Str) (hx : p x = false) : ∀ a : Str, noAdj p a = true →
    collapseGo p none (a ++ x :: r) = a ++ collapseGo p none (x :: r)
  | [], _ => rfl
  | [c], _ => collapseGo_step p c x r hx
  | c :: d :: rest, h => by
      have ih := collapseGo_noAdj p x r hx (d :: rest) (noAdj_tail p c _ h)
      by_cases hc : p c = true
      · have hd := noAdj_head p c d rest h hc
        have := collapseGo_step p c d (rest ++ x :: r) hd
        simp only [List.cons_append] at this ih ⊢
        rw [this, ih]
      · have hc' : p c = false := by simpa using hc
        simp only [List.cons_append] at ih ⊢
        rw [collapseGo]
        simp only [hc', Bool.false_eq_true, if_false, ih]


/-! ### `ColumnDefinition` on quoted names -/

theorem quote_facts (q : Char) (hq : isQuote q = true) : isSpace q = false ∧ q ≠ '/' ∧ q ≠ '-' := by
  rcases isQuote_cases q hq with rfl | rfl | rfl <;> exact ⟨by decide, by decide, by decide⟩

theorem lstrip_cons_space (c : Char) (l : Str) (h : isSpace c = true) : lstrip (c :: l) = lstrip l := by
  simp [lstrip, List.dropWhile, h]

/-- `_get_column_name_and_remaining_sql` on a quoted name followed by `r` (not starting with the
quote character): the name SQLite means -/
theorem columnNameAndRest_quoted (q : Char) (hq : isQuote q = true) (name r : Str) (hr : r.head? ≠ some q) :
    columnNameAndRest (quoteName q name ++ r) = .ok (name, strip r) := by
  have h := quotedName_quoteName q hq name r hr
  have ht : quoteName q name ++ r = q :: (escapeQuote q name ++ q :: r) := by simp [quoteName]
  have hd : (quoteName q name ++ r).drop (quoteName q name).length = r := List.drop_left'  rfl
  rw [ht] at h hd
  rw [ht, columnNameAndRest]
  simp only [h, hd]

/-- the text of a quoted name passes the comment stripper, `strip` and the whitespace collapse
unchanged (up to the separator run `ws`) -/
theorem quoted_text_clean (q : Char) (hq : isQuote q = true) (name : Str) (hs : QuotedSafe name) :
    (∀ (tail : Str), (∀ c ∈ tail, c ≠ '/' ∧ c ≠ '-') → ∀ fuel, (quoteName q name ++ tail).length < fuel →
      stripColumnComments fuel (quoteName q name ++ tail) = .ok (quoteName q name ++ tail)) ∧
    (∀ (x : Char) (r : Str), isSpace x = false →
      collapseGo isSpace none (quoteName q name ++ x :: r) = quoteName q name ++ collapseGo isSpace none (x :: r)) ∧
    collapseGo isSpace none (quoteName q name) = quoteName q name := by
  obtain ⟨hsp, hsl, hda⟩ := quote_facts q hq
  have hna : noAdj isSpace (q :: escapeQuote q name) = true :=
    noAdj_cons _ _ _ hsp (noAdj_escape _ q hsp name hs.no_ws_run)
  have hcol : ∀ (r : Str), collapseGo isSpace none ((q :: escapeQuote q name) ++ q :: r) =
      (q :: escapeQuote q name) ++ collapseGo isSpace none (q :: r) :=
    fun r => collapseGo_noAdj isSpace q r hsp _ hna
  refine ⟨?_, ?_, ?_⟩
  · intro tail htail fuel hf
    have ht : quoteName q name ++ tail = (q :: escapeQuote q name) ++ (q :: tail) := by simp [quoteName]
    rw [ht] at hf ⊢
    apply stripCC_safe _ _ _ _ (by simp) _ fuel hf
    · intro hm
      simp only [List.mem_cons] at hm
      rcases hm with hm | hm
      · exact hsl hm.symm
      · rcases mem_escapeQuote q '/' name hm with h | h
        · exact hs.no_slash h
        · exact hsl h.symm
    · exact noAdj_cons _ _ _ (by simpa using hda) (noAdj_escape _ q (by simpa using hda) name hs.no_dashdash)
    · intro c hc
      simp only [List.mem_cons] at hc
      rcases hc with rfl | hc
      · exact ⟨hsl, hda⟩
      · exact htail c hc
  · intro x r hx
    have ht : quoteName q name ++ x :: r = (q :: escapeQuote q name) ++ q :: x :: r := by simp [quoteName]
    rw [ht, hcol]
    have : collapseGo isSpace none (q :: x :: r) = q :: collapseGo isSpace none (x :: r) :=
      collapseGo_step isSpace q x r hx
    rw [this]
    simp [quoteName]
  · have ht : quoteName q name = (q :: escapeQuote q name) ++ q :: [] := by simp [quoteName]
    rw [ht, hcol]
    simp [collapseGo, hsp]

theorem strip_cons_space (c : Char) (l : Str) (h : isSpace c = true) : strip (c :: l) = strip l := by
  simp [strip, lstrip_cons_space c l h]

/-- quoted name, any non-empty run of whitespace, one-word type -/
theorem parseColumn_quoted_ws (q : Char) (hq : isQuote q = true) (name : Str) (hs : QuotedSafe name) (ws t : Str)
    (ht : Ident t) (htne : t ≠ []) (hws : ∀ w ∈ ws, isSpace w = true) (hwne : ws ≠ [])
    (hkw : beginsWithKeyword Spec.Ddl.columnKeywords t = false) :
    parseColumn (quoteName q name ++ ws ++ t) =
      .ok { name := name, derived := some (upper t), dataType := getDataType (upper t),
            affinity := Spec.typeAffinity t, hasConstraints := false } := by
  obtain ⟨hsp, hsl, hda⟩ := quote_facts q hq
  obtain ⟨hcc, hcg, _⟩ := quoted_text_clean q hq name hs
  have haff := affinity_eq_spec t []
    ⟨fun hm => ident_ne '(' '(' (ht '(' hm) (by decide) rfl, Or.inl rfl, by decide⟩
  simp only [List.append_nil, declaredAffinity] at haff
  have h1 := hcc (ws ++ t) (by
    intro c hc
    simp only [List.mem_append] at hc
    rcases hc with hc | hc
    · exact space_not_comment c (hws c hc)
    · exact ⟨ident_ne c '/' (ht c hc) (by decide), ident_ne c '-' (ht c hc) (by decide)⟩)
    ((quoteName q name ++ (ws ++ t)).length + 1) (by omega)
  rw [← List.append_assoc] at h1
  have hstrip : strip (quoteName q name ++ ws ++ t) = quoteName q name ++ ws ++ t := by
    have hl := List.dropLast_concat_getLast htne
    apply strip_ends (quoteName q name ++ ws ++ t) q (t.getLast htne) (escapeQuote q name ++ [q] ++ ws ++ t)
      (quoteName q name ++ ws ++ t.dropLast)
    · simp [quoteName]
    · rw [List.append_assoc (quoteName q name ++ ws), hl]
    · exact hsp
    · exact ident_not_space _ (ht _ (List.getLast_mem htne))
  have hsep := collapse_sep [] ws t (fun c hc => by simp at hc) hws hwne ht htne
  simp only [List.nil_append, collapse] at hsep
  have hcollapse : collapse isSpace (quoteName q name ++ ws ++ t) = quoteName q name ++ sepOf ws :: t := by
    unfold collapse
    -- the collapse reads the quoted name unchanged up to the separator run
    have hna : noAdj isSpace (q :: escapeQuote q name) = true :=
      noAdj_cons _ _ _ hsp (noAdj_escape _ q hsp name hs.no_ws_run)
    have e : quoteName q name ++ ws ++ t = (q :: escapeQuote q name) ++ q :: (ws ++ t) := by simp [quoteName]
    rw [e, collapseGo_noAdj isSpace q (ws ++ t) hsp _ hna, collapseGo]
    simp only [hsp, Bool.false_eq_true, if_false, hsep]
    simp [quoteName]
  have hsepsp := sepOf_space ws hwne hws
  have hname : columnNameAndRest (quoteName q name ++ sepOf ws :: t) = .ok (name, t) := by
    rw [columnNameAndRest_quoted q hq name (sepOf ws :: t) (by
      simp only [List.head?_cons, ne_eq, Option.some.injEq]
      intro e; rw [e] at hsepsp; rw [hsp] at hsepsp; exact absurd hsepsp (by decide)),
      strip_cons_space _ _ hsepsp, strip_word t ht]
  simp only [parseColumn, h1, bind, Except.bind, hstrip, hcollapse, hname,
    segmentLoop_word t ht htne hkw t.length, haff]

/-- quoted name without a type -/
theorem parseColumn_quoted_bare (q : Char) (hq : isQuote q = true) (name : Str) (hs : QuotedSafe name) :
    parseColumn (quoteName q name) =
      .ok { name := name, derived := none, dataType := dtNotSpecified, affinity := .blob, hasConstraints := false } := by
  obtain ⟨hsp, hsl, hda⟩ := quote_facts q hq
  obtain ⟨hcc, _, hcb⟩ := quoted_text_clean q hq name hs
  have h1 := hcc [] (by simp) ((quoteName q name ++ []).length + 1) (by omega)
  simp only [List.append_nil] at h1
  have hstrip : strip (quoteName q name) = quoteName q name :=
    strip_ends (quoteName q name) q q (escapeQuote q name ++ [q]) (q :: escapeQuote q name) (by simp [quoteName])
      (by simp [quoteName]) hsp hsp
  have hname : columnNameAndRest (quoteName q name) = .ok (name, []) := by
    have := columnNameAndRest_quoted q hq name [] (by simp)
    simpa [strip, lstrip, rstrip] using this
  simp only [parseColumn, h1, bind, Except.bind, hstrip, collapse, hcb, hname, segmentLoop_end]
  rfl


/-! ### the closing parenthesis behind block comments -/

theorem hasSub_snoc_star : ∀ b : Str, hasSub starSlash b = false → hasSub starSlash (b ++ ['*']) = false
  | [], _ => by decide
  | [c], h => by
      simp only [hasSub, starSlash, List.isPrefixOf, List.isEmpty_cons, Bool.or_false, List.cons_append,
        List.nil_append, Bool.and_false] at h ⊢
      simp
  | c :: d :: ds, h => by
      have ih := hasSub_snoc_star (d :: ds) (by
        rw [hasSub] at h
        simp only [Bool.or_eq_false_iff] at h
        exact h.2)
      rw [hasSub] at h
      simp only [Bool.or_eq_false_iff] at h
      simp only [List.cons_append] at ih ⊢
      rw [hasSub, ih]
      simpa [starSlash, List.isPrefixOf] using h.1

/-- one step of the scanner inside a `/*` comment -/
theorem closeGo_cm2_step (prev c : Char) (emb cst lit idx : Nat) (cs : Str) :
    closeGo prev emb 2 cst lit idx (c :: cs) =
      if (c == '/' && prev == '*' && decide (idx - 1 > cst + 1)) = true then closeGo c emb 0 cst lit (idx + 1) cs
      else closeGo c emb 2 cst lit (idx + 1) cs := by
  rw [closeGo.eq_def]
  simp

/-- the step that opens a `/*` comment: `comment_start_index` becomes the index of the "/" -/
theorem closeGo_open (prev : Char) (emb cst idx : Nat) (cs : Str) :
    closeGo prev emb 0 cst 0 idx ('/' :: '*' :: cs) = closeGo '/' emb 2 idx 0 (idx + 1) ('*' :: cs) := by
  rw [closeGo.eq_def]
  simp

/-- inside a `/*` comment (opened at `cst`, at least two characters ago): text without `*/`, then
`*/` — the comment ends exactly there -/
theorem closeGo_comment_free (emb cst lit : Nat) (tl : Str) : ∀ (w : Str) (prev : Char) (idx : Nat), cst + 1 < idx →
    hasSub starSlash (prev :: w ++ ['*']) = false →
    closeGo prev emb 2 cst lit idx (w ++ '*' :: '/' :: tl) = closeGo '/' emb 0 cst lit (idx + w.length + 2) tl
  | [], prev, idx, hi, _ => by
      have h1 : decide (idx + 1 - 1 > cst + 1) = true := by simp; omega
      have e5 : ('*' == '/') = false := by decide
      rw [List.nil_append, closeGo_cm2_step, closeGo_cm2_step]
      simp only [e5, Bool.false_and, Bool.false_eq_true, if_false, beq_self_eq_true, Bool.true_and, h1, if_true,
        List.length_nil, Nat.add_zero]
  | c :: cs, prev, idx, hi, h => by
      rw [List.cons_append, List.cons_append, hasSub] at h
      simp only [Bool.or_eq_false_iff] at h
      have ih := closeGo_comment_free emb cst lit tl cs c (idx + 1) (by omega) (by simpa using h.2)
      have hno : (c == '/' && prev == '*') = false := by
        have := h.1
        simp only [starSlash, List.isPrefixOf, Bool.and_true] at this
        rw [Bool.and_comm, show (prev == '*') = ('*' == prev) from Bool.beq_comm,
          show (c == '/') = ('/' == c) from Bool.beq_comm]
        exact this
      rw [List.cons_append, closeGo_cm2_step, hno]
      simp only [Bool.false_and, Bool.false_eq_true, if_false]
      rw [ih]
      simp [Nat.add_assoc, Nat.add_comm 1]

/-- a whole comment `/*` b `*/` (b without `*/`, a leading "/" allowed) read from outside any
comment or literal: the scanner is outside again right after it, nesting depth unchanged -/
theorem closeGo_comment (prev : Char) (emb cst idx : Nat) (b tl : Str) (hb : hasSub starSlash b = false) :
    closeGo prev emb 0 cst 0 idx ('/' :: '*' :: b ++ '*' :: '/' :: tl) =
      closeGo '/' emb 0 idx 0 (idx + b.length + 4) tl := by
  have e5 : ('*' == '/') = false := by decide
  rw [List.cons_append, List.cons_append, closeGo_open, closeGo_cm2_step]
  simp only [e5, Bool.false_and, Bool.false_eq_true, if_false]
  cases b with
  | nil =>
      have := closeGo_comment_free emb idx 0 tl [] '*' (idx + 1 + 1) (by omega) (by decide)
      simpa using this
  | cons c cs =>
      -- the first character of the comment cannot close it, "/" or not: its "*" is the opening one
      have hguard : decide (idx + 1 + 1 - 1 > idx + 1) = false := by simp
      have hfree := closeGo_comment_free emb idx 0 tl cs c (idx + 1 + 1 + 1) (by omega) (by
        have := hasSub_snoc_star (c :: cs) hb
        simpa using this)
      rw [List.cons_append, closeGo_cm2_step, hguard]
      simp only [Bool.and_false, Bool.false_eq_true, if_false]
      rw [hfree]
      simp only [List.length_cons]
      congr 1
      omega

theorem balance_append : ∀ (a b : Str) (d d' : Nat), balance d (a ++ b) = some d' →
    ∃ d1, balance d a = some d1 ∧ balance d1 b = some d'
  | [], b, d, d', h => ⟨d, rfl, h⟩
  | c :: cs, b, d, d', h => by
      rw [List.cons_append, balance] at h
      rw [balance]
      by_cases h1 : (c == '(') = true
      · simp only [h1, if_true] at h ⊢
        exact balance_append cs b _ _ h
      · simp only [h1, Bool.false_eq_true, if_false] at h ⊢
        by_cases h2 : (c == ')') = true
        · simp only [h2, if_true] at h ⊢
          by_cases h3 : (d == 0) = true
          · simp [h3] at h
          · simp only [h3, Bool.false_eq_true, if_false] at h ⊢
            exact balance_append cs b _ _ h
        · simp only [h2, Bool.false_eq_true, if_false] at h ⊢
          by_cases h3 : (c == '-' || c == '/' || c == '\'' || c == '"' || c == '`' || c == '[') = true
          · simp [h3] at h
          · simp only [h3, Bool.false_eq_true, if_false] at h ⊢
            exact balance_append cs b _ _ h

theorem closeGo_withComments : ∀ (segs : List (Str × Str)) (p : Str) (d d' : Nat) (prev : Char) (cst idx : Nat) (tl : Str),
    (∀ s ∈ segs, hasSub starSlash s.1 = false) → balance d (plainText p segs) = some d' →
    ∃ prev' cst', closeGo prev d 0 cst 0 idx (withComments p segs ++ tl) =
      closeGo prev' d' 0 cst' 0 (idx + (withComments p segs).length) tl
  | [], p, d, d', prev, cst, idx, tl, _, h => by
      obtain ⟨pv, hpv⟩ := closeGo_balanced cst p d d' prev idx tl h
      exact ⟨pv, cst, hpv⟩
  | (b, q) :: rest, p, d, d', prev, cst, idx, tl, hb, h => by
      obtain ⟨d1, hp, hq⟩ := balance_append p (plainText q rest) d d' h
      obtain ⟨pv, hpv⟩ := closeGo_balanced cst p d d1 prev idx
        ('/' :: '*' :: b ++ '*' :: '/' :: (withComments q rest ++ tl)) hp
      have hc := closeGo_comment pv d1 cst (idx + p.length) b (withComments q rest ++ tl) (hb (b, q) (by simp))
      obtain ⟨pv', cst', hrest⟩ := closeGo_withComments rest q d1 d' '/' (idx + p.length) (idx + p.length + b.length + 4) tl
        (fun s hs => hb s (by simp [hs])) hq
      refine ⟨pv', cst', ?_⟩
      have e : withComments p ((b, q) :: rest) ++ tl =
          p ++ ('/' :: '*' :: b ++ '*' :: '/' :: (withComments q rest ++ tl)) := by
        simp [withComments]
      rw [e, hpv, hc, hrest]
      congr 1
      simp [withComments]
      omega

theorem closing_paren_comments (p : Str) (segs : List (Str × Str)) (rest : Str)
    (hb : ∀ s ∈ segs, Spec.contains ['*', '/'] s.1 = false) (h : balance 0 (plainText p segs) = some 0) :
    closingParen ('(' :: withComments p segs ++ ')' :: rest) = .ok ((withComments p segs).length + 1) := by
  obtain ⟨pv, cst, hpv⟩ := closeGo_withComments segs p 0 0 '(' 0 1 (')' :: rest)
    (fun s hs => by rw [hasSub_eq]; exact hb s hs) h
  simp only [List.cons_append, closingParen, beq_self_eq_true, if_true]
  rw [hpv]
  simp [closeGo, Nat.add_comm]


/-! ### the other three comment scanners on a block comment (41d65d3) -/

theorem starSlash_prefix_false (c : Char) (cs x : Str) (h : starSlash.isPrefixOf (c :: cs) = false) :
    starSlash.isPrefixOf (c :: cs ++ '*' :: x) = false := by
  cases cs with
  | nil =>
      simp only [starSlash, List.cons_append, List.nil_append, List.isPrefixOf_cons_cons, List.isPrefixOf]
      simp
  | cons d ds => simpa [starSlash, List.isPrefixOf] using h

/-- `str.index("*/")` on text without `*/` followed by `*/`: the position right after the text -/
theorem findSub_starSlash (rest : Str) : ∀ b : Str, hasSub starSlash b = false →
    findSub starSlash (b ++ '*' :: '/' :: rest) = some b.length
  | [], _ => by simp [findSub, starSlash, List.isPrefixOf]
  | c :: cs, h => by
      rw [hasSub] at h
      simp only [Bool.or_eq_false_iff] at h
      have ih := findSub_starSlash rest cs h.2
      have hp := starSlash_prefix_false c cs ('/' :: rest) h.1
      simp only [List.cons_append] at hp ⊢
      rw [findSub]
      simp only [hp, Bool.false_eq_true, if_false, ih, Option.map_some, List.length_cons]

/-- `parse_comment_from_sql_segment` on `/*` b `*/` rest (b without `*/`, a leading "/" allowed) -/
theorem parseComment_block (b rest : Str) (hb : hasSub starSlash b = false) :
    parseComment ('/' :: '*' :: b ++ '*' :: '/' :: rest) = .ok ('/' :: '*' :: b ++ ['*', '/'], rest) := by
  have hf := findSub_starSlash rest b hb
  have e1 : dashDash.isPrefixOf ('/' :: '*' :: b ++ '*' :: '/' :: rest) = false := by simp [dashDash, List.isPrefixOf]
  have e2 : slashStar.isPrefixOf ('/' :: '*' :: b ++ '*' :: '/' :: rest) = true := by simp [slashStar, List.isPrefixOf]
  have e3 : ('/' :: '*' :: b ++ '*' :: '/' :: rest).drop 2 = b ++ '*' :: '/' :: rest := by simp
  have e4 : ('/' :: '*' :: b ++ '*' :: '/' :: rest) = ('/' :: '*' :: b ++ ['*', '/']) ++ rest := by simp
  have e5 : ('/' :: '*' :: b ++ ['*', '/']).length = b.length + 4 := by simp
  rw [parseComment]
  simp only [e1, Bool.false_eq_true, if_false, e2, if_true, e3, hf]
  rw [e4, ← e5, List.take_left', List.drop_left']
  · rfl
  · rfl

/-- the definition splitter of `OrdinaryTableRow.__init__` at the "/" of a block comment: it moves
to the last character of the comment -/
theorem scanJump_block (b rest : Str) (hb : hasSub starSlash b = false) :
    scanJump ('/' :: '*' :: b ++ '*' :: '/' :: rest) = .ok (b.length + 3) := by
  have hf := findSub_starSlash rest b hb
  have e3 : ('/' :: '*' :: b ++ '*' :: '/' :: rest).drop 2 = b ++ '*' :: '/' :: rest := by simp
  have e1 : ('/' == '-') = false := by decide
  have e4 : ('*' != '*') = false := by decide
  simp only [List.cons_append] at e3 ⊢
  rw [scanJump.eq_def]
  simp only [e1, Bool.false_eq_true, if_false, beq_self_eq_true, if_true, e4, e3, hf]

theorem stripCC_prefix : ∀ (w r : Str) (fuel : Nat), (∀ c ∈ w, c ≠ '/' ∧ c ≠ '-') →
    stripColumnComments (fuel + w.length) (w ++ r) = (stripColumnComments fuel r).map (w ++ ·)
  | [], r, fuel, _ => by
      simp only [List.nil_append, List.length_nil, Nat.add_zero]
      cases stripColumnComments fuel r <;> rfl
  | c :: cs, r, fuel, h => by
      have ⟨h1, h2⟩ := h c (by simp)
      have e1 : (c == '/') = false := by simpa using h1
      have e2 : (c == '-') = false := by simpa using h2
      have ih := stripCC_prefix cs r fuel (fun d hd => h d (by simp [hd]))
      rw [show fuel + (c :: cs).length = fuel + cs.length + 1 by simp; omega, List.cons_append]
      simp only [stripColumnComments, e1, e2, Bool.false_eq_true, if_false, ih]
      cases stripColumnComments fuel r <;> rfl

/-- the comment stripper of `ColumnDefinition.__init__`: plain text, a block comment, plain text —
the comment becomes one space -/
theorem stripCC_block (pre b post : Str) (hpre : ∀ c ∈ pre, c ≠ '/' ∧ c ≠ '-') (hpost : ∀ c ∈ post, c ≠ '/' ∧ c ≠ '-')
    (hb : hasSub starSlash b = false) (fuel : Nat) (hf : (pre ++ '/' :: '*' :: b ++ '*' :: '/' :: post).length < fuel) :
    stripColumnComments fuel (pre ++ '/' :: '*' :: b ++ '*' :: '/' :: post) = .ok (pre ++ ' ' :: post) := by
  simp only [List.length_append, List.length_cons] at hf
  obtain ⟨f, rfl⟩ : ∃ f, fuel = (f + 1) + pre.length := ⟨fuel - 1 - pre.length, by omega⟩
  have hfind := findSub_starSlash post b hb
  have hpost' := stripColumnComments_plain post f (by omega) hpost
  have e : pre ++ '/' :: '*' :: b ++ '*' :: '/' :: post = pre ++ ('/' :: '*' :: (b ++ '*' :: '/' :: post)) := by simp
  have hdrop : ('*' :: (b ++ '*' :: '/' :: post)).drop (b.length + 3) = post := by
    have : '*' :: (b ++ '*' :: '/' :: post) = ('*' :: b ++ ['*', '/']) ++ post := by simp
    rw [this]
    exact List.drop_left' (by simp)
  rw [e, stripCC_prefix pre _ (f + 1) hpre, stripColumnComments]
  simp only [beq_self_eq_true, if_true, List.drop_one, List.tail_cons, hfind, hdrop, hpost', Except.map]

theorem parseColumn_congr (T T' : Str) (h1 : stripColumnComments (T.length + 1) T = .ok T')
    (h2 : stripColumnComments (T'.length + 1) T' = .ok T') : parseColumn T = parseColumn T' := by
  simp only [parseColumn, h1, h2, bind, Except.bind]

/-- `Simple` name, optional whitespace, a block comment, optional whitespace, one-word type -/
theorem parseColumn_simple_comment (d : ColDef) (h : Simple d = true) (t : Str) (hty : d.type = some t)
    (ws1 ws2 b : Str) (hws1 : ∀ w ∈ ws1, isSpace w = true) (hws2 : ∀ w ∈ ws2, isSpace w = true)
    (hb : Spec.contains ['*', '/'] b = false) :
    ∃ col, parseColumn (d.name ++ ws1 ++ '/' :: '*' :: b ++ '*' :: '/' :: ws2 ++ t) = .ok col ∧
      col.name = d.name ∧ col.affinity = d.affinity := by
  have hb' : hasSub starSlash b = false := by rw [hasSub_eq]; exact hb
  have hd := h
  obtain ⟨name, type⟩ := d
  simp only at hty
  subst hty
  simp only [Simple, Bool.and_eq_true, isIdent, Bool.not_eq_true', List.all_eq_true] at h
  obtain ⟨⟨⟨hne, hid⟩, _⟩, ⟨htne, htid⟩, hkw⟩ := h
  have hplain1 : ∀ c ∈ name ++ ws1, c ≠ '/' ∧ c ≠ '-' := by
    intro c hc
    simp only [List.mem_append] at hc
    rcases hc with hc | hc
    · exact ⟨ident_ne c '/' (hid c hc) (by decide), ident_ne c '-' (hid c hc) (by decide)⟩
    · exact space_not_comment c (hws1 c hc)
  have hplain2 : ∀ c ∈ ws2 ++ t, c ≠ '/' ∧ c ≠ '-' := by
    intro c hc
    simp only [List.mem_append] at hc
    rcases hc with hc | hc
    · exact space_not_comment c (hws2 c hc)
    · exact ⟨ident_ne c '/' (htid c hc) (by decide), ident_ne c '-' (htid c hc) (by decide)⟩
  have e : name ++ ws1 ++ '/' :: '*' :: b ++ '*' :: '/' :: ws2 ++ t =
      (name ++ ws1) ++ '/' :: '*' :: b ++ '*' :: '/' :: (ws2 ++ t) := by simp
  have e' : (name ++ ws1) ++ ' ' :: (ws2 ++ t) = name ++ (ws1 ++ ' ' :: ws2) ++ t := by simp
  have h1 := stripCC_block (name ++ ws1) b (ws2 ++ t) hplain1 hplain2 hb'
    (((name ++ ws1) ++ '/' :: '*' :: b ++ '*' :: '/' :: (ws2 ++ t)).length + 1) (by omega)
  have hplain3 : ∀ c ∈ (name ++ ws1) ++ ' ' :: (ws2 ++ t), c ≠ '/' ∧ c ≠ '-' := by
    intro c hc
    simp only [List.mem_append, List.mem_cons] at hc
    rcases hc with hc | rfl | hc
    · exact hplain1 c (by simpa using hc)
    · exact ⟨by decide, by decide⟩
    · exact hplain2 c (by simpa using hc)
  have h2 := stripColumnComments_plain _ (((name ++ ws1) ++ ' ' :: (ws2 ++ t)).length + 1) (by omega) hplain3
  have hws : ∀ w ∈ ws1 ++ ' ' :: ws2, isSpace w = true := by
    intro w hw
    simp only [List.mem_append, List.mem_cons] at hw
    rcases hw with hw | rfl | hw
    · exact hws1 w hw
    · decide
    · exact hws2 w hw
  obtain ⟨col, hcol, hn, ha⟩ := parseColumn_simple_ws ⟨name, some t⟩ hd t rfl (ws1 ++ ' ' :: ws2) (by simp) hws
  refine ⟨col, ?_, hn, ha⟩
  rw [e, parseColumn_congr _ _ h1 h2, e']
  exact hcol


/-! ### what is still not true for quoted names -/

def nameSlash : Str := ['a', '/', 'b']
def nameTwoSpaces : Str := ['a', ' ', ' ', 'b']

/-- open finding C07-09: the column `"a/b"` is rejected (ValueError from the comment stripper) -/
theorem quoted_slash_rejected : parseColumn (quoteName '"' nameSlash) = .error .valueError := by
  have h : errorOf (parseColumn (quoteName '"' nameSlash)) = some .valueError := by decide +kernel
  cases hp : parseColumn (quoteName '"' nameSlash) with
  | ok c => rw [hp] at h; cases h
  | error e => rw [hp] at h; simp only [errorOf, Option.some.injEq] at h; rw [h]

/-- open finding C07-13: the column `"a  b"` is reported as `a b` -/
theorem quoted_two_spaces_renamed :
    (parseColumn (quoteName '"' nameTwoSpaces)).toOption.map (·.name) = some ['a', ' ', 'b'] := by
  decide +kernel

theorem columns_counterexample :
    ¬ ∀ (q : Char), isQuote q = true → ∀ (name : Str), name ≠ [] →
      ∃ col, parseColumn (quoteName q name) = .ok col ∧ col.name = name := by
  intro h
  obtain ⟨col, h1, _⟩ := h '"' (by decide) nameSlash (by decide)
  rw [quoted_slash_rejected] at h1
  cases h1

theorem columns_counterexample_whitespace :
    ¬ ∀ (q : Char), isQuote q = true → ∀ (name : Str), '/' ∉ name → '-' ∉ name →
      ∃ col, parseColumn (quoteName q name) = .ok col ∧ col.name = name := by
  intro h
  obtain ⟨col, h1, h2⟩ := h '"' (by decide) nameTwoSpaces (by decide) (by decide)
  have h3 := quoted_two_spaces_renamed
  rw [h1] at h3
  simp only [Except.toOption, Option.map_some, Option.some.injEq] at h3
  rw [h2] at h3
  exact absurd h3 (by decide)


/-! ### the statements used by Properties/C07 -/

/-- `_get_master_schema_row_name_and_remaining_sql` (table and index names) on a quoted name -/
theorem rowNameAndRest_quoted (q : Char) (hq : isQuote q = true) (name r : Str) (hr : r.head? ≠ some q) :
    rowNameAndRest (quoteName q name ++ r) = .ok (name, r) := by
  have h := quotedName_quoteName q hq name r hr
  have ht : quoteName q name ++ r = q :: (escapeQuote q name ++ q :: r) := by simp [quoteName]
  have hd : (quoteName q name ++ r).drop (quoteName q name).length = r := List.drop_left' rfl
  rw [ht] at h hd
  rw [ht, rowNameAndRest]
  simp only [h, hd]

theorem parseColumn_quoted_any_ws (q : Char) (hq : isQuote q = true) (d : ColDef) (hname : QuotedSafe d.name)
    (t : Str) (hty : d.type = some t) (ht : isIdent t = true) (hkw : beginsWithKeyword columnKeywords t = false)
    (ws : Str) (hwne : ws ≠ []) (hws : ∀ w ∈ ws, isSpace w = true) :
    ∃ col, parseColumn (quoteName q d.name ++ ws ++ t) = .ok col ∧ col.name = d.name ∧ col.affinity = d.affinity := by
  simp only [isIdent, Bool.and_eq_true, Bool.not_eq_true', List.all_eq_true] at ht
  obtain ⟨htne, htid⟩ := ht
  have htne' : t ≠ [] := by intro e; subst e; simp at htne
  refine ⟨_, parseColumn_quoted_ws q hq d.name hname ws t htid htne' hws hwne hkw, rfl, ?_⟩
  simp [ColDef.affinity, hty, Spec.columnAffinity, htne']

theorem parseColumn_quoted (q : Char) (hq : isQuote q = true) (d : ColDef) (hname : QuotedSafe d.name)
    (hty : ∀ t, d.type = some t → isIdent t = true ∧ beginsWithKeyword columnKeywords t = false) :
    ∃ col, parseColumn (renderColQ q d) = .ok col ∧ col.name = d.name ∧ col.affinity = d.affinity := by
  obtain ⟨name, type⟩ := d
  cases type with
  | none => exact ⟨_, by simpa [renderColQ] using parseColumn_quoted_bare q hq name hname, rfl, rfl⟩
  | some t =>
      obtain ⟨ht, hkw⟩ := hty t rfl
      have := parseColumn_quoted_any_ws q hq ⟨name, some t⟩ hname t rfl ht hkw [' '] (by simp) (by decide)
      simpa [renderColQ] using this


end SqliteDissect.Proofs.Schema
