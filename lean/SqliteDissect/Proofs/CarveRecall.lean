/-
Helper lemmas and proofs for C09 (intact deleted records are recovered with their values).
Statements are fixed by the orchestrating agent.
-/
import SqliteDissect.Model.Carve
import SqliteDissect.Proofs.Codec
import SqliteDissect.Proofs.Record
import SqliteDissect.Proofs.Regex

namespace SqliteDissect.Proofs.CarveRecall
open SqliteDissect SqliteDissect.Model SqliteDissect.Model.Carve
open SqliteDissect.Proofs.Codec SqliteDissect.Proofs.Record

/-- the region holds, from offset `s`, the serial types of `cols` (ending at `e`) immediately
followed by all their contents: the header and body of a record as SQLite wrote it, intact -/
def IntactAt (data : Buf) (s e : Nat) (cols : List Spec.Col) : Prop :=
  ∃ (p q : List Nat), data.toList = p ++ Spec.typeBytes cols ++ cols.flatMap (·.content) ++ q ∧
    p.length = s ∧ e = s + (Spec.typeBytes cols).length

/-- the carved column the model must report for a stored column at body offset `off` -/
def expectedCCol (idx off : Nat) (c : Spec.Col) : CCol :=
  { index := idx, serialType := c.st, varintLen := Spec.varintLen (Spec.toU64 c.st),
    contentSize := c.content.length, value := .dec ((Spec.serialGet c.st c.content).getD .null),
    truncatedValue := false, truncatedFirst := false, probabilisticFirst := false, bodyOffset := off }

/-- running body offsets -/
def expectedCCols : Nat → Nat → List Spec.Col → List CCol
  | _, _, [] => []
  | idx, off, c :: rest => expectedCCol idx off c :: expectedCCols (idx + 1) (off + c.content.length) rest

/-! ### helper lemmas for the record constructor -/

theorem contentSize_of (st : Int) (sz : Nat) (h : getContentSize st = .ok sz) (hs : sz < 2 ^ 53) :
    contentSize st = .ok sz := by
  unfold contentSize
  rw [h]
  simp only [floatExact, ge_iff_le]
  rw [if_neg (by omega)]

/-- the pre-column the header walk builds for a stored column -/
def preOf (c : Spec.Col) : PreCol :=
  { serialType := c.st, varintLen := Spec.varintLen (Spec.toU64 c.st), contentSize := c.content.length }

theorem headerWalk_spec (data : Buf) (e nCols : Nat) (hq : List Nat) :
    ∀ (rest : List Spec.Col) (hp : List Nat) (fuel n : Nat),
    (∀ c ∈ rest, Spec.ValidCol c) → (∀ c ∈ rest, c.content.length < 2 ^ 53) →
    data.toList = hp ++ Spec.typeBytes rest ++ hq →
    hp.length + (Spec.typeBytes rest).length = e →
    (Spec.typeBytes rest).length ≤ fuel → n + rest.length ≤ nCols →
    headerWalk data e nCols fuel hp.length n = .ok (rest.map preOf) := by
  intro rest
  induction rest with
  | nil =>
    intro hp fuel n _ _ _ hlen _ _
    simp only [Spec.typeBytes, List.flatMap_nil, List.length_nil, Nat.add_zero] at hlen
    have hnlt : ¬ (hp.length < e) := by omega
    cases fuel <;> simp [headerWalk, hnlt]
  | cons c rest ih =>
    intro hp fuel n hv hsm htot hlen hfuel hn
    obtain ⟨h0, h63, hstl, _⟩ := hv c (List.mem_cons_self ..)
    have hvrest : ∀ c ∈ rest, Spec.ValidCol c := fun x hx => hv x (List.mem_cons_of_mem _ hx)
    have hsmrest : ∀ c ∈ rest, c.content.length < 2 ^ 53 := fun x hx => hsm x (List.mem_cons_of_mem _ hx)
    rw [typeBytes_cons] at htot hlen hfuel
    generalize hP : Spec.putVarint (Spec.toU64 c.st) = P at htot hlen hfuel
    have hPlen : P.length = Spec.varintLen (Spec.toU64 c.st) := by rw [← hP, spec_put_length]
    have hpos := varintLen_pos (Spec.toU64 c.st)
    rw [List.length_append] at hlen hfuel
    obtain ⟨f, rfl⟩ : ∃ f, fuel = f + 1 := ⟨fuel - 1, by omega⟩
    have hlt : hp.length < e := by omega
    have hdec : decodeVarint data hp.length = .ok (c.st, Spec.varintLen (Spec.toU64 c.st)) := by
      rw [decodeVarint_at data hp (Spec.typeBytes rest ++ hq) (Spec.toU64 c.st) (toU64_lt _)
          (by rw [htot, hP, List.append_assoc, List.append_assoc, List.append_assoc]),
        toI64_toU64 c.st (by omega) h63]
    have hcs : contentSize c.st = .ok c.content.length := by
      apply contentSize_of _ _ _ (hsm c (List.mem_cons_self ..))
      rw [content_size_eq_spec, hstl]
    have hnext := ih (hp ++ P) f (n + 1) hvrest hsmrest
      (by rw [htot]; simp only [List.append_assoc])
      (by rw [List.length_append]; omega) (by omega)
      (by simp only [List.length_cons] at hn; omega)
    rw [List.length_append, hPlen] at hnext
    have hgt : ¬ (hp.length + Spec.varintLen (Spec.toU64 c.st) > e) := by omega
    have hge : ¬ (n ≥ nCols) := by simp only [List.length_cons] at hn; omega
    rw [headerWalk]
    simp only [hlt, if_true, hdec, liftPy, bind, Except.bind, hgt, hge, if_false, hcs, hnext, pure,
      Except.pure, List.map_cons, preOf]

theorem decodeCols_spec (data : Buf) (q : List Nat) :
    ∀ (rest : List Spec.Col) (bp : List Nat) (idx : Nat),
    (∀ c ∈ rest, Spec.ValidCol c) →
    data.toList = bp ++ rest.flatMap (·.content) ++ q →
    decodeCols data (rest.map preOf) idx bp.length = .ok (expectedCCols idx bp.length rest) := by
  intro rest
  induction rest with
  | nil => intro bp idx _ _; rfl
  | cons c rest ih =>
    intro bp idx hv htot
    obtain ⟨h0, h63, hstl, hbytes⟩ := hv c (List.mem_cons_self ..)
    have hvrest : ∀ c ∈ rest, Spec.ValidCol c := fun x hx => hv x (List.mem_cons_of_mem _ hx)
    rw [List.flatMap_cons] at htot
    have hsize : data.size = bp.length + c.content.length + (rest.flatMap (·.content)).length + q.length := by
      rw [← toList_length, htot]; simp only [List.length_append]; omega
    have hfit : ¬ (bp.length + c.content.length > data.size) := by omega
    have hsl : (data.slice bp.length (bp.length + c.content.length)).toList = c.content := by
      rw [slice_toList' data _ _ (by omega) (by omega), htot, List.append_assoc, List.append_assoc,
        List.drop_left, Nat.add_sub_cancel_left, List.take_left]
    have hslwf : (data.slice bp.length (bp.length + c.content.length)).WF := by
      apply WF_of_toList; rw [hsl]; exact hbytes
    have hslsz : (data.slice bp.length (bp.length + c.content.length)).size = c.content.length := by
      rw [← toList_length, hsl]
    obtain ⟨v, hval⟩ := spec_serialGet_defined c.st c.content.length c.content hstl rfl
    have hcont : getRecordContent c.st (data.slice bp.length (bp.length + c.content.length)) 0
        = .ok (c.content.length, v) := by
      rw [record_content_eq_spec c.st _ hslwf 0 c.content.length hstl (by omega), List.drop_zero, hsl,
        List.take_of_length_le (Nat.le_refl _), hval]
    have hnext := ih (bp ++ c.content) (idx + 1) hvrest (by rw [htot]; simp only [List.append_assoc])
    rw [List.length_append] at hnext
    rw [List.map_cons, decodeCols]
    simp only [preOf, hfit, if_false, hcont, liftPy, bind, Except.bind, ne_eq, not_true_eq_false,
      pure, Except.pure]
    rw [hnext]
    simp only [expectedCCols, expectedCCol, hval, Option.getD_some]


theorem dvLoop_ext (b1 b2 : Buf) (hs : b1.size = b2.size) (hr : ∀ i, i < b1.size → b1.rd i = b2.rd i)
    (off : Nat) : ∀ (n v rel : Nat), dvLoop b1 off n v rel = dvLoop b2 off n v rel := by
  intro n
  induction n with
  | zero => intro v rel; rfl
  | succ n ih =>
    intro v rel
    unfold dvLoop
    rw [← hs]
    by_cases hlt : off + rel < b1.size
    · simp only [hlt, if_true, hr _ hlt, ih]
    · simp only [hlt, if_false]

theorem decodeVarint_ext (b1 b2 : Buf) (hs : b1.size = b2.size) (hr : ∀ i, i < b1.size → b1.rd i = b2.rd i)
    (off : Nat) : decodeVarint b1 off = decodeVarint b2 off := by
  unfold decodeVarint
  rw [dvLoop_ext b1 b2 hs hr]

theorem cbcsLoop_ext (b1 b2 : Buf) (hs : b1.size = b2.size) (hr : ∀ i, i < b1.size → b1.rd i = b2.rd i) :
    ∀ (fuel start acc : Nat), cbcsLoop b1 fuel start acc = cbcsLoop b2 fuel start acc := by
  intro fuel
  induction fuel with
  | zero => intro start acc; unfold cbcsLoop; rw [hs]
  | succ f ih =>
    intro start acc
    unfold cbcsLoop
    rw [decodeVarint_ext b1 b2 hs hr, hs]
    simp only [ih]

theorem calcBody_ext (b : Buf) (l : List Nat) (h : b.toList = l) :
    calcBodyContentSize b = calcBodyContentSize (Buf.ofList l) := by
  subst h
  have hs : b.size = (Buf.ofList b.toList).size := by rw [ofList_size, toList_length]
  unfold calcBodyContentSize
  rw [← hs]
  apply cbcsLoop_ext b _ hs
  intro i hi
  have hi' : i < b.toList.length := by rw [toList_length]; exact hi
  rw [ofList_rd _ i hi', toList_getElem]

theorem sum_content (cols : List Spec.Col) (hv : ∀ c ∈ cols, Spec.ValidCol c) :
    ((cols.map (·.st)).map fun st => (Spec.serialTypeLen st).getD 0).sum = (cols.flatMap (·.content)).length := by
  induction cols with
  | nil => rfl
  | cons c rest ih =>
    have := (hv c (List.mem_cons_self ..)).2.2.1
    simp only [List.map_cons, List.sum_cons, List.flatMap_cons, List.length_append, this, Option.getD_some]
    rw [ih (fun x hx => hv x (List.mem_cons_of_mem _ hx))]

theorem sumSizes_pre (cols : List Spec.Col) :
    sumSizes (cols.map preOf) = (cols.flatMap (·.content)).length := by
  unfold sumSizes
  induction cols with
  | nil => rfl
  | cons c rest ih =>
    simp only [List.map_cons, List.sum_cons, List.flatMap_cons, List.length_append, ih, preOf]

theorem content_le (cols : List Spec.Col) : ∀ c ∈ cols, c.content.length ≤ (cols.flatMap (·.content)).length := by
  induction cols with
  | nil => intro c h; cases h
  | cons x rest ih =>
    intro c hc
    rw [List.flatMap_cons, List.length_append]
    rcases List.mem_cons.1 hc with h | h
    · subst h; omega
    · have := ih c h; omega

theorem reconstructFirst_unalloc (i : RecIn) (hloc : i.loc = .unallocated) (a b : Nat) :
    reconstructFirst i a b = .ok none := by
  unfold reconstructFirst
  rw [hloc]
  split
  · rfl
  · split <;> rfl

/-- RECALL, record level: a full-signature match over an intact record in an unallocated region is
turned into a carved record with exactly the stored serial types and values (values per the format
specification `Spec.serialGet`), nothing flagged truncated -/
theorem recall_record (i : RecIn) (cols : List Spec.Col)
    (hv : ∀ c ∈ cols, Spec.ValidCol c) (hne : cols ≠ []) (hn : cols.length = i.nCols)
    (hwf : i.data.WF) (hsize : i.data.size < 2 ^ 53)
    (hin : IntactAt i.data i.s i.e cols)
    (hloc : i.loc = .unallocated) (hfc : i.firstCol = none) :
    ∃ r, carvedRecord i = .ok r ∧ r.cols = expectedCCols 0 i.e cols ∧
      r.truncatedBeginning = false ∧ r.truncatedEnding = false := by
  have _ := hwf
  obtain ⟨p, q, htot, hp, he⟩ := hin
  have hdsz : i.data.size = p.length + (Spec.typeBytes cols).length + (cols.flatMap (·.content)).length
      + q.length := by
    rw [← toList_length, htot]; simp only [List.length_append]
  have hes : i.e - i.s = (Spec.typeBytes cols).length := by omega
  -- the serial type definition size
  have hsl : (i.data.slice i.s i.e).toList = Spec.typeBytes cols := by
    rw [slice_toList' _ _ _ (by omega) (by omega), hes, htot, List.append_assoc, List.append_assoc, ← hp,
      List.drop_left, List.take_left]
  have hsts : ∀ st ∈ cols.map (·.st), 0 ≤ st ∧ st < (2 ^ 63 : Int) ∧ st ≠ 10 ∧ st ≠ 11 := by
    intro st hst
    obtain ⟨c, hc, rfl⟩ := List.mem_map.1 hst
    obtain ⟨h0, h63, hl, _⟩ := hv c hc
    refine ⟨h0, h63, ?_, ?_⟩
    · intro h; rw [h, show Spec.serialTypeLen 10 = none by decide] at hl; cases hl
    · intro h; rw [h, show Spec.serialTypeLen 11 = none by decide] at hl; cases hl
  have hcalc : calcBodyContentSize (i.data.slice i.s i.e) = .ok (cols.flatMap (·.content)).length := by
    rw [calcBody_ext _ _ hsl]
    have := body_size_sum (cols.map (·.st)) hsts
    rw [List.flatMap_map, sum_content cols hv] at this
    exact this
  have hsm : ∀ c ∈ cols, c.content.length < 2 ^ 53 := fun c hc => by
    have := content_le cols c hc; omega
  have hwalk := headerWalk_spec i.data i.e i.nCols (cols.flatMap (·.content) ++ q) cols p
    (i.e - i.s) 0 hv hsm (by rw [htot]; simp only [List.append_assoc]) (by omega) (by omega) (by omega)
  rw [hp] at hwalk
  have hdc := decodeCols_spec i.data q cols (p ++ Spec.typeBytes cols) 0 hv htot
  rw [List.length_append, hp, ← he] at hdc
  have henc1 := encode_eq_spec ((i.e - i.s + 0 + 1 : Nat) : Int) (by omega) (by omega)
  have henc2 := encode_eq_spec ((i.e - i.s + 0 + 1 + (cols.flatMap (·.content)).length : Nat) : Int)
    (by omega) (by omega)
  have hnotfl : ¬ ((cols.flatMap (·.content)).length ≥ floatExact) := by
    simp only [floatExact]; omega
  have hlen : (cols.map preOf).length = i.nCols := by rw [List.length_map, hn]
  obtain ⟨c0, crest, hcons⟩ : ∃ c0 crest, cols.map preOf = c0 :: crest := by
    cases cols with
    | nil => exact absurd rfl hne
    | cons c r => exact ⟨_, _, rfl⟩
  unfold carvedRecord
  simp only [hcalc, liftPy, bind, Except.bind, hnotfl, if_false, pure, Except.pure,
    reconstructFirst_unalloc i hloc, Option.isSome_none, Bool.false_eq_true, false_and, hfc,
    Option.toList_none, List.length_nil, hwalk, List.nil_append, hlen, ne_eq, not_true_eq_false,
    sumSizes_pre, hdc, henc1, henc2]
  rw [hcons]
  refine ⟨_, rfl, rfl, rfl, ?_⟩
  simp only [decide_eq_false_iff_not]
  omega

theorem reconstructFirst_cutoff (i : RecIn) (co a b : Nat) :
    reconstructFirst { i with cutoff := co } a b = reconstructFirst i a b := by
  rfl

/-- the constructor does not look at the cutoff -/
theorem carvedRecord_cutoff (i : RecIn) (co : Nat) :
    carvedRecord { i with cutoff := co } = carvedRecord i := by
  rfl

/-- every match handed to the reverse loop whose constructor succeeds is in the output -/
theorem reverseLoop_mem (mk : Nat → Nat → Nat → Py (Option CarvedCell)) :
    ∀ (ms : List (Nat × Nat)) (co : Nat) (cells : List CarvedCell), reverseLoop mk ms co = .ok cells →
      ∀ s e, (s, e) ∈ ms → ∃ co', (mk s e co' = .ok none) ∨ (∃ c, mk s e co' = .ok (some c) ∧ c ∈ cells) := by
  intro ms
  induction ms with
  | nil => intro co cells _ s e h; cases h
  | cons m ms ih =>
    intro co cells h s e hm
    obtain ⟨s0, e0⟩ := m
    unfold reverseLoop at h
    cases hmk : mk s0 e0 co with
    | error er => rw [hmk] at h; cases h
    | ok o =>
      rw [hmk] at h
      cases o with
      | none =>
        simp only at h
        rcases List.mem_cons.1 hm with heq | hin
        · cases heq; exact ⟨co, Or.inl hmk⟩
        · exact ih co cells h s e hin
      | some c =>
        simp only at h
        cases hr : reverseLoop mk ms s0 with
        | error er => rw [hr] at h; cases h
        | ok cs =>
          rw [hr] at h
          simp only [Except.ok.injEq] at h
          subst h
          rcases List.mem_cons.1 hm with heq | hin
          · cases heq; exact ⟨co, Or.inr ⟨c, hmk, List.mem_cons_self ..⟩⟩
          · obtain ⟨co', h'⟩ := ih s0 cs hr s e hin
            refine ⟨co', ?_⟩
            rcases h' with h' | ⟨c', h1, h2⟩
            · exact Or.inl h'
            · exact Or.inr ⟨c', h1, List.mem_cons_of_mem _ h2⟩

theorem carveUnallocated_full (sig : CarveSig) (fc : List Int) (simplified : List (List Int)) (pf : Regex.Pat)
    (hc : chosenSignature sig = .ok (fc, simplified)) (hpf : Regex.genSignature simplified false = .ok pf)
    (ps pn po rs : Nat) (data : Buf)
    (cells : List CarvedCell) (h : carveUnallocated sig ps pn po rs data = .ok cells) :
    ∃ full part, reverseLoop (fun s e cutoff =>
      tryCarve (po + rs + s) pn 0
        { loc := .unallocated, data, s, e, cutoff, nCols := sig.numberOfColumns, sig,
          firstCol := none, fbSize := none, pageSize := ps })
      (Regex.finditer pf data.toList).reverse data.size = .ok full ∧ cells = full ++ part := by
  unfold carveUnallocated at h
  simp only [hc, hpf, bind, Except.bind] at h
  split at h
  · cases h
  · rename_i full hfull
    split at h
    · cases h
    · split at h
      · cases h
      · rename_i part _
        simp only [pure, Except.pure, Except.ok.injEq] at h
        exact ⟨full, part, hfull, h.symm⟩

theorem tryCarve_ok (fileOffset pageNumber index : Nat) (i : RecIn) (r : CarvedRec) (h : carvedRecord i = .ok r) :
    tryCarve fileOffset pageNumber index i =
      .ok (some { fileOffset, pageNumber, loc := i.loc, index, matchStart := i.s, matchEnd := i.e,
                  cutoff := i.cutoff, rec_ := r,
                  digest := (i.data.slice i.s r.cellEnd).toList }) := by
  unfold tryCarve
  rw [h]

/-- RECALL, region level: if the full pattern's scan of the region finds the record's header
`[s, e)`, the record is intact and carving completes, then the result contains a cell at `s` with
the stored values -/
theorem recall_region (sig : CarveSig) (fc : List Int) (simplified : List (List Int)) (pf : Regex.Pat)
    (hc : chosenSignature sig = .ok (fc, simplified)) (hpf : Regex.genSignature simplified false = .ok pf)
    (ps pn po rs : Nat) (data : Buf) (cols : List Spec.Col) (s e : Nat)
    (hv : ∀ c ∈ cols, Spec.ValidCol c) (hne : cols ≠ []) (hn : cols.length = sig.numberOfColumns)
    (hwf : data.WF) (hsize : data.size < 2 ^ 53) (hin : IntactAt data s e cols)
    (hm : (s, e) ∈ Regex.finditer pf data.toList)
    (cells : List CarvedCell) (h : carveUnallocated sig ps pn po rs data = .ok cells) :
    ∃ c ∈ cells, c.matchStart = s ∧ c.matchEnd = e ∧ c.fileOffset = po + rs + s ∧
      c.rec_.cols = expectedCCols 0 e cols := by
  obtain ⟨full, part, hfull, rfl⟩ := carveUnallocated_full sig fc simplified pf hc hpf ps pn po rs data cells h
  obtain ⟨co', hco⟩ := reverseLoop_mem _ _ _ _ hfull s e (List.mem_reverse.2 hm)
  obtain ⟨r, hr, hcols, _, _⟩ := recall_record
    { loc := .unallocated, data, s, e, cutoff := co', nCols := sig.numberOfColumns, sig,
      firstCol := none, fbSize := none, pageSize := ps } cols hv hne hn hwf hsize hin rfl rfl
  have ht := tryCarve_ok (po + rs + s) pn 0 _ r hr
  rw [ht] at hco
  rcases hco with hco | ⟨c, hc1, hc2⟩
  · cases hco
  · simp only [Except.ok.injEq, Option.some.injEq] at hc1
    subst hc1
    exact ⟨_, List.mem_append_left _ hc2, rfl, rfl, rfl, hcols⟩

/-! ### the scan -/

theorem finditerAux_range (p : Regex.Pat) : ∀ (fuel : Nat) (s : List Nat) (pos : Nat),
    ∀ se ∈ Regex.finditerAux p fuel s pos, pos ≤ se.1 ∧ se.1 ≤ se.2 ∧ se.2 ≤ pos + s.length := by
  intro fuel
  induction fuel with
  | zero => intro s pos se h; simp [Regex.finditerAux] at h
  | succ f ih =>
    intro s pos se h
    unfold Regex.finditerAux at h
    have htail : ∀ se ∈ (match s with
          | [] => []
          | _ :: t => Regex.finditerAux p f t (pos + 1)), pos ≤ se.1 ∧ se.1 ≤ se.2 ∧ se.2 ≤ pos + s.length := by
      intro se hse
      cases s with
      | nil => cases hse
      | cons c t =>
        have := ih t (pos + 1) se hse
        simp only [List.length_cons]
        omega
    cases hm : Regex.matchAt p s with
    | none =>
      rw [hm] at h
      exact htail se h
    | some r =>
      rw [hm] at h
      simp only at h
      by_cases hn : s.length - r.length = 0
      · rw [if_pos hn] at h
        rcases List.mem_cons.1 h with h | h
        · subst h; simp
        · exact htail se h
      · rw [if_neg hn] at h
        rcases List.mem_cons.1 h with h | h
        · subst h; simp only; omega
        · have := ih r _ se h
          omega

/-- every reported match is a range of the subject -/
theorem finditer_range (p : Regex.Pat) (l : List Nat) :
    ∀ se ∈ Regex.finditer p l, se.1 ≤ se.2 ∧ se.2 ≤ l.length := by
  intro se h
  have := finditerAux_range p _ l 0 se h
  omega

theorem finditerAux_first (p : Regex.Pat) (r : List Nat) : ∀ (k fuel : Nat) (s : List Nat) (pos : Nat),
    (∀ j, j < k → Regex.matchAt p (s.drop j) = none) →
    Regex.matchAt p (s.drop k) = some r → r.length < (s.drop k).length → k < fuel →
    (pos + k, pos + k + ((s.drop k).length - r.length)) ∈ Regex.finditerAux p fuel s pos := by
  intro k
  induction k with
  | zero =>
    intro fuel s pos _ hm hlen hf
    obtain ⟨f, rfl⟩ : ∃ f, fuel = f + 1 := ⟨fuel - 1, by omega⟩
    rw [List.drop_zero] at hm hlen
    unfold Regex.finditerAux
    rw [hm]
    simp only
    rw [if_neg (by omega)]
    simp only [List.drop_zero, Nat.add_zero]
    exact List.mem_cons_self ..
  | succ k ih =>
    intro fuel s pos hnone hm hlen hf
    obtain ⟨f, rfl⟩ : ∃ f, fuel = f + 1 := ⟨fuel - 1, by omega⟩
    have h0 := hnone 0 (by omega)
    rw [List.drop_zero] at h0
    cases s with
    | nil => simp at hlen
    | cons c t =>
      unfold Regex.finditerAux
      rw [h0]
      simp only [List.drop_succ_cons] at hm hlen ⊢
      have := ih f t (pos + 1) (fun j hj => by
        have := hnone (j + 1) (by omega)
        simpa only [List.drop_succ_cons] using this) hm hlen (by omega)
      have e : pos + 1 + k = pos + (k + 1) := by omega
      rw [e] at this
      exact this

/-- `finditer` scan lemma (first match): when the pattern matches nowhere before `s` and matches a
non-empty prefix at `s`, that match is reported -/
theorem finditer_first (p : Regex.Pat) (l : List Nat) (s : Nat) (r : List Nat) (hs : s ≤ l.length)
    (hnone : ∀ j, j < s → Regex.matchAt p (l.drop j) = none)
    (hm : Regex.matchAt p (l.drop s) = some r) (hlen : r.length < (l.drop s).length) :
    (s, l.length - r.length) ∈ Regex.finditer p l := by
  have := finditerAux_first p r s (l.length + 1) l 0 hnone hm hlen (by omega)
  have e : 0 + s + ((l.drop s).length - r.length) = l.length - r.length := by
    rw [List.length_drop] at hlen ⊢; omega
  rw [e, Nat.zero_add] at this
  exact this

/-- a varint-shaped token: one byte below 0x80, or one to seven bytes of 0x80..0xFF followed by
one below 0x80 (what every generated column pattern consumes) -/
def Token (t : List Nat) : Prop :=
  ∃ (cb : List Nat) (last : Nat), t = cb ++ [last] ∧ cb.length ≤ 7 ∧ (∀ x ∈ cb, 0x80 ≤ x ∧ x ≤ 0xFF) ∧ last < 0x80

theorem token_unique_aux : ∀ (cb1 cb2 : List Nat) (l1 l2 : Nat) (r1 r2 : List Nat),
    (∀ x ∈ cb1, 0x80 ≤ x) → (∀ x ∈ cb2, 0x80 ≤ x) → l1 < 0x80 → l2 < 0x80 →
    cb1 ++ l1 :: r1 = cb2 ++ l2 :: r2 → cb1 = cb2 ∧ l1 = l2 ∧ r1 = r2 := by
  intro cb1
  induction cb1 with
  | nil =>
    intro cb2 l1 l2 r1 r2 _ h2 hl1 _ h
    cases cb2 with
    | nil =>
      simp only [List.nil_append, List.cons.injEq] at h
      exact ⟨rfl, h.1, h.2⟩
    | cons b cb2 =>
      simp only [List.nil_append, List.cons_append, List.cons.injEq] at h
      have := h2 b (List.mem_cons_self ..)
      omega
  | cons a cb1 ih =>
    intro cb2 l1 l2 r1 r2 h1 h2 hl1 hl2 h
    cases cb2 with
    | nil =>
      simp only [List.nil_append, List.cons_append, List.cons.injEq] at h
      have := h1 a (List.mem_cons_self ..)
      omega
    | cons b cb2 =>
      simp only [List.cons_append, List.cons.injEq] at h
      obtain ⟨e1, e2, e3⟩ := ih cb2 l1 l2 r1 r2 (fun x hx => h1 x (List.mem_cons_of_mem _ hx))
        (fun x hx => h2 x (List.mem_cons_of_mem _ hx)) hl1 hl2 h.2
      exact ⟨by rw [h.1, e1], e2, e3⟩

/-- self-delimiting: a subject has at most one token as a prefix -/
theorem token_unique (t1 t2 r1 r2 : List Nat) (h1 : Token t1) (h2 : Token t2) (h : t1 ++ r1 = t2 ++ r2) :
    t1 = t2 ∧ r1 = r2 := by
  obtain ⟨cb1, l1, rfl, _, hb1, hl1⟩ := h1
  obtain ⟨cb2, l2, rfl, _, hb2, hl2⟩ := h2
  simp only [List.append_assoc, List.singleton_append] at h
  obtain ⟨e1, e2, e3⟩ := token_unique_aux cb1 cb2 l1 l2 r1 r2 (fun x hx => (hb1 x hx).1)
    (fun x hx => (hb2 x hx).1) hl1 hl2 h
  exact ⟨by rw [e1, e2], e3⟩

section Tokens
open SqliteDissect.Model.Regex

/-- every success of `p` consumes exactly one token -/
def Consumes (p : Pat) : Prop :=
  ∀ (subject : List Nat) (k : List Nat → Option (List Nat)) (out : List Nat),
    m p subject k = some out → ∃ t rest, subject = t ++ rest ∧ Token t ∧ k rest = some out

theorem token_single (b : Nat) (hb : b < 0x80) : Token [b] :=
  ⟨[], b, rfl, by simp, (by intro x hx; cases hx), hb⟩

theorem consumes_lit (b : Nat) (hb : b < 0x80) : Consumes (.lit b) := by
  intro subject k out h
  cases subject with
  | nil => simp [m] at h
  | cons c r =>
    simp only [m] at h
    by_cases hc : c = b
    · rw [if_pos hc] at h
      exact ⟨[c], r, rfl, token_single c (by omega), h⟩
    · rw [if_neg hc] at h; cases h

theorem consumes_set (bs : List Nat) (hbs : ∀ x ∈ bs, x < 0x80) : Consumes (.set bs) := by
  intro subject k out h
  cases subject with
  | nil => simp [m] at h
  | cons c r =>
    simp only [m] at h
    by_cases hc : c ∈ bs
    · rw [if_pos hc] at h
      exact ⟨[c], r, rfl, token_single c (hbs c hc), h⟩
    · rw [if_neg hc] at h; cases h

theorem consumes_cls (lo hi : Nat) (hhi : hi < 0x80) : Consumes (.cls lo hi) := by
  intro subject k out h
  cases subject with
  | nil => simp [m] at h
  | cons c r =>
    simp only [m] at h
    by_cases hc : lo ≤ c ∧ c ≤ hi
    · rw [if_pos hc] at h
      exact ⟨[c], r, rfl, token_single c (by omega), h⟩
    · rw [if_neg hc] at h; cases h

theorem repLoop_inv (k : List Nat → Option (List Nat)) (out : List Nat) :
    ∀ (hi lo : Nat) (s : List Nat), repLoop (m (.cls 0x80 0xFF)) hi lo s k = some out →
      ∃ cb rest, s = cb ++ rest ∧ cb.length ≤ hi ∧ lo ≤ cb.length ∧ (∀ x ∈ cb, 0x80 ≤ x ∧ x ≤ 0xFF) ∧
        k rest = some out := by
  intro hi
  induction hi with
  | zero =>
    intro lo s h
    simp only [repLoop] at h
    by_cases hl : lo = 0
    · rw [if_pos hl] at h
      exact ⟨[], s, rfl, by simp, by simp [hl], (by intro x hx; cases hx), h⟩
    · rw [if_neg hl] at h; cases h
  | succ hi ih =>
    intro lo s h
    unfold repLoop at h
    cases hst : m (.cls 0x80 0xFF) s (fun s' => repLoop (m (.cls 0x80 0xFF)) hi (lo - 1) s' k) with
    | some a =>
      rw [hst] at h
      simp only [Option.some.injEq] at h
      subst h
      cases s with
      | nil => simp [m] at hst
      | cons c r =>
        simp only [m] at hst
        by_cases hc : 0x80 ≤ c ∧ c ≤ 0xFF
        · rw [if_pos hc] at hst
          obtain ⟨cb, rest, e, h1, h2, h3, h4⟩ := ih (lo - 1) r hst
          refine ⟨c :: cb, rest, by rw [e]; rfl, by simp only [List.length_cons]; omega,
            by simp only [List.length_cons]; omega, ?_, h4⟩
          intro x hx
          rcases List.mem_cons.1 hx with hx | hx
          · subst hx; exact hc
          · exact h3 x hx
        · rw [if_neg hc] at hst; cases hst
    | none =>
      rw [hst] at h
      simp only at h
      by_cases hl : lo = 0
      · rw [if_pos hl] at h
        exact ⟨[], s, rfl, by simp, by simp [hl], (by intro x hx; cases hx), h⟩
      · rw [if_neg hl] at h; cases h

theorem consumes_varTail : Consumes varTail := by
  intro subject k out h
  simp only [varTail, m, mseq] at h
  obtain ⟨cb, rest, e, h1, _, h3, h4⟩ := repLoop_inv _ out 7 1 subject h
  cases rest with
  | nil => simp at h4
  | cons c r =>
    simp only at h4
    by_cases hc : 0 ≤ c ∧ c ≤ 0x7F
    · rw [if_pos hc] at h4
      exact ⟨cb ++ [c], r, by rw [e]; simp, ⟨cb, c, rfl, h1, h3, by omega⟩, h4⟩
    · rw [if_neg hc] at h4; cases h4

theorem malt_inv (s : List Nat) (k : List Nat → Option (List Nat)) (out : List Nat) :
    ∀ (ps : List Pat), malt ps s k = some out → ∃ p ∈ ps, m p s k = some out := by
  intro ps
  induction ps with
  | nil => intro h; simp [malt] at h
  | cons p ps ih =>
    intro h
    unfold malt at h
    cases hm : m p s k with
    | some a =>
      rw [hm] at h
      simp only [Option.some.injEq] at h
      subst h
      exact ⟨p, List.mem_cons_self .., hm⟩
    | none =>
      rw [hm] at h
      obtain ⟨q, hq, hq'⟩ := ih h
      exact ⟨q, List.mem_cons_of_mem _ hq, hq'⟩

theorem consumes_alt (ps : List Pat) (h : ∀ p ∈ ps, Consumes p) : Consumes (.alt ps) := by
  intro subject k out hm
  simp only [m] at hm
  obtain ⟨p, hp, hp'⟩ := malt_inv subject k out ps hm
  exact h p hp subject k out hp'

theorem consumes_blob : Consumes (.alt [.cls 0x0D 0x7F, varTail]) := by
  apply consumes_alt
  intro p hp
  simp only [List.mem_cons, List.not_mem_nil, or_false] at hp
  rcases hp with rfl | rfl
  · exact consumes_cls _ _ (by decide)
  · exact consumes_varTail

theorem consumes_text : Consumes (.alt [.cls 0x0C 0x7F, varTail]) := by
  apply consumes_alt
  intro p hp
  simp only [List.mem_cons, List.not_mem_nil, or_false] at hp
  rcases hp with rfl | rfl
  · exact consumes_cls _ _ (by decide)
  · exact consumes_varTail

theorem genSimplified_consumes (t : Int) (p : Pat) (h : genSimplified t = .ok p) :
    Consumes p ∧ (t ≠ -1 → t ≠ -2 → ∃ b, b < 0x80 ∧ print p = [b]) := by
  unfold genSimplified at h
  by_cases h2 : t = -2
  · rw [if_pos h2] at h
    simp only [Except.ok.injEq] at h
    subst h
    exact ⟨consumes_text, fun _ hh => absurd h2 hh⟩
  · rw [if_neg h2] at h
    by_cases h1 : t = -1
    · rw [if_pos h1] at h
      simp only [Except.ok.injEq] at h
      subst h
      exact ⟨consumes_blob, fun hh _ => absurd h1 hh⟩
    · rw [if_neg h1] at h
      by_cases h09 : 0 ≤ t ∧ t ≤ 9
      · rw [if_pos h09] at h
        simp only [Except.ok.injEq] at h
        subst h
        have : t.toNat < 0x80 := by omega
        exact ⟨consumes_lit _ this, fun _ _ => ⟨t.toNat, this, rfl⟩⟩
      · rw [if_neg h09] at h; cases h

/-- the accumulators of the inner loop hold only token patterns -/
def AccOK (a : Acc) : Prop :=
  (∀ x ∈ a.basic, x < 0x80) ∧ (∀ b, a.blob = some b → Consumes b) ∧ (∀ t, a.text = some t → Consumes t)

theorem scanCol_ok : ∀ (c : List Int) (a a' : Acc), AccOK a → scanCol c a = .ok a' → AccOK a' := by
  intro c
  induction c with
  | nil =>
    intro a a' ha h
    simp only [scanCol, Except.ok.injEq] at h
    subst h; exact ha
  | cons t ts ih =>
    intro a a' ha h
    unfold scanCol at h
    cases hg : genSimplified t with
    | error e => rw [hg] at h; cases h
    | ok p =>
      rw [hg] at h
      simp only at h
      obtain ⟨hcons, hprint⟩ := genSimplified_consumes t p hg
      obtain ⟨ha1, ha2, ha3⟩ := ha
      by_cases h1 : t = -1
      · rw [if_pos h1] at h
        refine ih _ a' ?_ h
        refine ⟨ha1, ?_, ha3⟩
        intro b hb
        simp only [Option.some.injEq] at hb
        subst hb; exact hcons
      · rw [if_neg h1] at h
        by_cases h2 : t = -2
        · rw [if_pos h2] at h
          refine ih _ a' ?_ h
          refine ⟨ha1, ha2, ?_⟩
          intro b hb
          simp only [Option.some.injEq] at hb
          subst hb; exact hcons
        · rw [if_neg h2] at h
          refine ih _ a' ?_ h
          refine ⟨?_, ha2, ha3⟩
          obtain ⟨b, hb, hpr⟩ := hprint h1 h2
          intro x hx
          simp only [hpr, List.mem_append, List.mem_singleton] at hx
          rcases hx with hx | hx
          · exact ha1 x hx
          · omega

theorem genColumn_consumes (c : List Int) (p : Pat) (hp : genColumn c = .ok p) : Consumes p := by
  unfold genColumn at hp
  split at hp
  · exact (genSimplified_consumes _ p hp).1
  · split at hp
    · split at hp
      · cases hp
      · rename_i a hs
        obtain ⟨ha1, ha2, ha3⟩ := scanCol_ok c _ a
          ⟨(by intro x hx; cases hx), (by intro b hb; cases hb), (by intro b hb; cases hb)⟩ hs
        split at hp
        · split at hp
          · cases hp
          · simp only [Except.ok.injEq] at hp
            subst hp
            exact consumes_set _ ha1
        · rename_i b hb ht
          split at hp
          · cases hp
          · simp only [Except.ok.injEq] at hp
            subst hp
            apply consumes_alt
            intro q hq
            simp only [List.mem_cons, List.not_mem_nil, or_false] at hq
            rcases hq with rfl | rfl
            · exact consumes_set _ ha1
            · exact ha2 _ hb
        · rename_i t hb ht
          split at hp
          · cases hp
          · simp only [Except.ok.injEq] at hp
            subst hp
            apply consumes_alt
            intro q hq
            simp only [List.mem_cons, List.not_mem_nil, or_false] at hq
            rcases hq with rfl | rfl
            · exact consumes_set _ ha1
            · exact ha3 _ ht
        · rename_i b t hb ht
          split at hp
          · simp only [Except.ok.injEq] at hp
            subst hp
            apply consumes_alt
            intro q hq
            simp only [List.mem_cons, List.not_mem_nil, or_false] at hq
            rcases hq with rfl | rfl
            · exact ha2 _ hb
            · exact ha3 _ ht
          · simp only [Except.ok.injEq] at hp
            subst hp
            apply consumes_alt
            intro q hq
            simp only [List.mem_cons, List.not_mem_nil, or_false] at hq
            rcases hq with rfl | rfl | rfl
            · exact consumes_set _ ha1
            · exact ha2 _ hb
            · exact ha3 _ ht
    · cases hp

/-- every success of a generated column pattern consumes exactly one token -/
theorem genColumn_consumes_token (c : List Int) (p : Regex.Pat) (hp : Regex.genColumn c = .ok p)
    (subject : List Nat) (hb : ∀ x ∈ subject, x < 256) (k : List Nat → Option (List Nat)) (out : List Nat)
    (h : Regex.m p subject k = some out) :
    ∃ t rest, subject = t ++ rest ∧ Token t ∧ k rest = some out := by
  have _ := hb
  exact genColumn_consumes c p hp subject k out h

theorem token_put (u : Nat) (hu : u < 2 ^ 56) : Token (Spec.putVarint u) := by
  by_cases hs : u < 128
  · rw [Proofs.Regex.put_small u hs]
    exact token_single u hs
  · obtain ⟨cb, last, e, h1, _, h3, h4⟩ := Proofs.Regex.put_big u (by omega) hu
    exact ⟨cb, last, e, h3, h1, by omega⟩

theorem mseq_header_exact (rest out : List Nat) : ∀ (sig : List (List Int)) (ps : List Pat) (types : List Int),
    genColumns sig = .ok ps → types.length = sig.length → (∀ t ∈ types, 0 ≤ t ∧ t < 2 ^ 56) →
    mseq ps (Proofs.Regex.header types ++ rest) some = some out → out = rest := by
  intro sig
  induction sig with
  | nil =>
    intro ps types hg hlen _ h
    simp only [genColumns, Except.ok.injEq] at hg
    subst hg
    have : types = [] := List.length_eq_zero_iff.1 (by simpa using hlen)
    subst this
    simp only [mseq, Proofs.Regex.header, List.flatMap_nil, List.nil_append, Option.some.injEq] at h
    exact h.symm
  | cons c cs ih =>
    intro ps types hg hlen h0 h
    unfold genColumns at hg
    cases hc : genColumn c with
    | error e => rw [hc] at hg; cases hg
    | ok p =>
      rw [hc] at hg
      simp only at hg
      cases hcs : genColumns cs with
      | error e => rw [hcs] at hg; cases hg
      | ok ps' =>
        rw [hcs] at hg
        simp only [Except.ok.injEq] at hg
        subst hg
        cases types with
        | nil => simp at hlen
        | cons t ts =>
          simp only [mseq, Proofs.Regex.header, List.flatMap_cons, List.append_assoc] at h
          obtain ⟨tok, rest', e, htok, hk⟩ := genColumn_consumes c p hc _ _ out h
          obtain ⟨ht0, ht56⟩ := h0 t (List.mem_cons_self ..)
          have hput : Token (Spec.putVarint t.toNat) := token_put _ (by
            have : (t.toNat : Int) = t := Int.toNat_of_nonneg ht0
            have h56i : t < (2 ^ 56 : Nat) := by exact_mod_cast ht56
            omega)
          obtain ⟨_, e2⟩ := token_unique _ _ _ _ hput htok e
          subst e2
          exact ih ps' ts hcs (by simp only [List.length_cons] at hlen; omega)
            (fun x hx => h0 x (List.mem_cons_of_mem _ hx)) hk

/-- "the match at `s` is exactly the n serial types": when a generated signature pattern matches at
the start of (header of `n` canonical serial types below 2^56) ++ rest, the match ends exactly at the
end of the header -/
theorem matchAt_header_exact (sig : List (List Int)) (p : Regex.Pat) (hp : Regex.genSignature sig false = .ok p)
    (types : List Int) (hlen : types.length = sig.length) (h0 : ∀ t ∈ types, 0 ≤ t ∧ t < 2 ^ 56)
    (rest out : List Nat) (hb : ∀ x ∈ rest, x < 256)
    (h : Regex.matchAt p (Proofs.Regex.header types ++ rest) = some out) :
    out = rest := by
  have _ := hb
  unfold genSignature at hp
  simp only [Bool.false_eq_true, if_false] at hp
  cases hg : genColumns sig with
  | error e => rw [hg] at hp; cases hp
  | ok ps =>
    rw [hg] at hp
    simp only [Except.ok.injEq] at hp
    subst hp
    simp only [matchAt, m] at h
    exact mseq_header_exact rest out sig ps types hg hlen h0 h

end Tokens

/-! ### freeblocks: the lost first column -/

theorem getContentSize_small (t : Int) (h0 : 0 ≤ t) (h9 : t ≤ 9) :
    ∃ k, getContentSize t = .ok k ∧ k ≤ 8 := by
  have hc : t = 0 ∨ t = 1 ∨ t = 2 ∨ t = 3 ∨ t = 4 ∨ t = 5 ∨ t = 6 ∨ t = 7 ∨ t = 8 ∨ t = 9 := by omega
  rcases hc with rfl | rfl | rfl | rfl | rfl | rfl | rfl | rfl | rfl | rfl <;>
    exact ⟨_, rfl, by decide⟩

theorem matchingTypes_small (sz : Nat) : ∀ (fc : List Int), (∀ t ∈ fc, 0 ≤ t ∧ t ≤ 9) →
    matchingTypes (sz : Int) fc = .ok (fc.filter fun t => decide (getContentSize t = .ok sz)) := by
  intro fc
  induction fc with
  | nil => intro _; rfl
  | cons t rest ih =>
    intro h
    obtain ⟨h0, h9⟩ := h t (List.mem_cons_self ..)
    obtain ⟨k, hk, hk8⟩ := getContentSize_small t h0 h9
    have hcs := contentSize_of t k hk (by simp only [Nat.reducePow]; omega)
    have ih' := ih (fun x hx => h x (List.mem_cons_of_mem _ hx))
    unfold matchingTypes
    simp only [hcs, ih', bind, Except.bind, pure, Except.pure, List.filter_cons, hk, Except.ok.injEq]
    have e : ((k : Int) = (sz : Int) ∨ t = -1 ∨ t = -2) ↔ k = sz := by omega
    simp only [e, decide_eq_true_eq]

theorem filter_unique {α : Type} (p : α → Bool) (a : α) : ∀ (l : List α), l.Nodup → a ∈ l → p a = true →
    (∀ t ∈ l, t ≠ a → p t = false) → l.filter p = [a] := by
  intro l
  induction l with
  | nil => intro _ h; cases h
  | cons x rest ih =>
    intro hnd hm hp hu
    obtain ⟨hx, hnd'⟩ := List.nodup_cons.1 hnd
    by_cases hxa : x = a
    · subst hxa
      rw [List.filter_cons, if_pos hp]
      congr 1
      apply List.filter_eq_nil_iff.2
      intro t ht
      have : t ≠ x := fun h => hx (h ▸ ht)
      rw [hu t (List.mem_cons_of_mem _ ht) this]
      simp
    · have hm' : a ∈ rest := by
        rcases List.mem_cons.1 hm with h | h
        · exact absurd h.symm hxa
        · exact h
      rw [List.filter_cons, hu x (List.mem_cons_self ..) hxa]
      simp only [Bool.false_eq_true, if_false]
      exact ih hnd' hm' hp (fun t ht => hu t (List.mem_cons_of_mem _ ht))

/-- the first column of a record deleted into a freeblock is determined by the freeblock size:
when the first column lists only fixed-width serial types and exactly one of them has the content
size that the freeblock size leaves over, that serial type is reconstructed (with that size) -/
theorem first_column_from_size (fc : List Int) (st : Int) (fbSize sdSize sdcs sz : Nat)
    (hfc : ∀ t ∈ fc, 0 ≤ t ∧ t ≤ 9) (hst : st ∈ fc) (hnd : fc.Nodup)
    (hsz : getContentSize st = .ok sz)
    (hsize : fbSize = 2 + (1 + sdSize + 1) + sdcs + sz)
    (huniq : ∀ t ∈ fc, t ≠ st → getContentSize t ≠ .ok sz) :
    fromFreeblockSize fc fbSize sdSize sdcs =
      .ok (some { serialType := st, varintLen := 1, contentSize := sz, truncatedFirst := true }) := by
  unfold fromFreeblockSize
  have hx : ((fbSize : Int) - 2 - (1 + (sdSize : Int) + 1) - (sdcs : Int)) = (sz : Int) := by omega
  simp only [hx]
  rw [matchingTypes_small sz fc hfc]
  rw [filter_unique _ st fc hnd hst (by simpa using hsz) (fun t ht hne => by simpa using huniq t ht hne)]
  simp only [bind, Except.bind, pure, Except.pure, Int.toNat_natCast]

/-- when every row stores the same first serial type (a one-element first column) and nothing
could be reconstructed, the fall-back picks that serial type -/
theorem first_column_single (sig : CarveSig) (st : Int) (sz : Nat) (h0 : 0 ≤ st ∧ st ≤ 9)
    (htot : sig.totalRecords ≠ 0) (hsz : getContentSize st = .ok sz) (hsmall : sz < 2 ^ 53) :
    probabilisticFirst sig [st] =
      .ok { serialType := st, varintLen := 1, contentSize := sz, truncatedFirst := true,
            probabilisticFirst := true } := by
  unfold probabilisticFirst
  have h2 : ¬ st = -2 := by omega
  have h1 : ¬ st = -1 := by omega
  simp only [htot, if_false, List.length_singleton, ne_eq, not_true_eq_false, false_and, bind, Except.bind,
    pure, Except.pure, h2, h1, contentSize_of st sz hsz hsmall]

/-! ### the iterator drops distinct records whose digests collide -/

/-- FULL STATEMENT (false): de-duplication never drops a carved record of a first version -/
def DedupKeepsAll : Prop :=
  ∀ (cells : List CarvedCell), (∀ a ∈ cells, ∀ b ∈ cells, a.rec_.cols = b.rec_.cols → a.fileOffset = b.fileOffset → a = b) →
    (dedup [] cells).length = cells.length

theorem dedup_counterexample : ¬ DedupKeepsAll := by
  intro h
  have := h [{ (default : CarvedCell) with fileOffset := 0 }, { (default : CarvedCell) with fileOffset := 1 }]
    (by
      intro a ha b hb _ hfo
      simp only [List.mem_cons, List.not_mem_nil, or_false] at ha hb
      rcases ha with rfl | rfl <;> rcases hb with rfl | rfl
      · rfl
      · simp at hfo
      · simp at hfo
      · rfl)
  revert this
  decide

theorem dedup_fold_distinct : ∀ (cells : List CarvedCell) (d : List (List Nat × CarvedCell)),
    (cells.map (·.digest)).Nodup → (∀ c ∈ cells, ∀ e ∈ d, e.1 ≠ c.digest) →
    cells.foldl (fun d c => if d.any (·.1 = c.digest) then d.map (fun e => if e.1 = c.digest then (c.digest, c) else e)
                else d ++ [(c.digest, c)]) d = d ++ cells.map (fun c => (c.digest, c)) := by
  intro cells
  induction cells with
  | nil => intro d _ _; simp
  | cons c rest ih =>
    intro d hnd hdis
    rw [List.map_cons, List.nodup_cons] at hnd
    have hno : d.any (·.1 = c.digest) = false := by
      rw [List.any_eq_false]
      intro e he
      simpa using hdis c (List.mem_cons_self ..) e he
    rw [List.foldl_cons, hno]
    simp only [Bool.false_eq_true, if_false]
    rw [ih _ hnd.2]
    · simp
    · intro c' hc' e he
      rcases List.mem_append.1 he with he | he
      · exact hdis c' (List.mem_cons_of_mem _ hc') e he
      · simp only [List.mem_singleton] at he
        subst he
        intro heq
        exact hnd.1 (by simp only at heq; rw [heq]; exact List.mem_map.2 ⟨c', hc', rfl⟩)

/-- what does hold: cells with pairwise distinct digests are all kept -/
theorem dedup_keeps_distinct (cells : List CarvedCell) (h : (cells.map (·.digest)).Nodup) :
    (dedup [] cells).length = cells.length ∧ (dedup [] cells).map (·.2.digest) = cells.map (·.digest) := by
  have hf : (cells.filter fun c => ¬ ([] : List (List Nat)).contains c.digest) = cells := by
    apply List.filter_eq_self.2
    intro c _
    simp
  unfold dedup
  rw [hf, dedup_fold_distinct cells [] h (by intro _ _ e he; cases he)]
  simp [Function.comp_def]

/-! ### the carver's digests after the repair -/

/-- columns (one-byte integer, four-byte integer) -/
def sig14 : CarveSig := ⟨2, 5, [[1], [4]], [], [[(1, 5, 5)], [(4, 5, 5)]]⟩
/-- two freeblocks of one page, each exactly one freed cell (10 bytes: 4-byte freeblock header + content
`04 | a | b1 b2 b3 b4`), rows (7, 0x01020305) and (9, 0x01020305): no content byte equals the serial
type `04`, so the partial pattern `\x04` matches only the stored serial type -/
def fbA5 : FbIn := ⟨2, 0, 200, 204, 10, Buf.ofList [4, 7, 1, 2, 3, 5], 1024⟩
def fbB5 : FbIn := ⟨2, 1, 300, 304, 10, Buf.ofList [4, 9, 1, 2, 3, 5], 1024⟩

def separatesChk : Py (List CarvedCell) → Bool
  | .ok [a, b] =>
    decide (a.rec_.cols.map (·.value) = [.dec (.int 7), .dec (.int 16909061)]) &&
    decide (b.rec_.cols.map (·.value) = [.dec (.int 9), .dec (.int 16909061)]) &&
    decide (a.digest ≠ b.digest) && decide ((dedup [] [a, b]).length = 2)
  | _ => false

theorem separatesChk_true : separatesChk (carveFreeblocks sig14 1024 [fbA5, fbB5]) = true := by
  decide +kernel

/-- the witness of the former collision defect: the two rows now get different digests and both survive -/
theorem digest_separates_rows :
    ∃ a b, carveFreeblocks sig14 1024 [fbA5, fbB5] = .ok [a, b] ∧
      a.rec_.cols.map (·.value) = [.dec (.int 7), .dec (.int 16909061)] ∧
      b.rec_.cols.map (·.value) = [.dec (.int 9), .dec (.int 16909061)] ∧
      a.digest ≠ b.digest ∧ (dedup [] [a, b]).length = 2 := by
  have h := separatesChk_true
  generalize carveFreeblocks sig14 1024 [fbA5, fbB5] = res at h
  unfold separatesChk at h
  split at h
  · rename_i a b
    simp only [Bool.and_eq_true, decide_eq_true_eq] at h
    exact ⟨a, b, rfl, h.1.1.1, h.1.1.2, h.1.2, h.2⟩
  · cases h

/-- what is still lost (single-column tables): the empty partial pattern matches at the start of the
full match, the fall-back guesses a two-byte integer, the bogus candidate covers exactly the real
record's bytes `01 09` and shares its digest; de-duplication keeps one cell for the two -/
def sig12 : CarveSig := ⟨1, 5, [[1, 2]], [], [[(1, 1, 5), (2, 4, 5)]]⟩

def bogusChk : Py (List CarvedCell) → Bool
  | .ok [a, x, y, b] =>
    decide (a.matchStart = 0) && decide (a.matchEnd = 1) &&
    decide (a.rec_.cols.map (·.value) = [.dec (.int 9)]) &&
    decide (b.matchStart = 0) && decide (b.matchEnd = 0) &&
    decide (b.rec_.cols.map (·.value) = [.dec (.int 265)]) &&
    decide (a.digest = b.digest) && decide ((dedup [] [a, x, y, b]).length = 3)
  | _ => false

theorem bogusChk_true : bogusChk (carveUnallocated sig12 1024 2 1024 100 (Buf.ofList [1, 9])) = true := by
  decide +kernel

theorem single_column_bogus_collision :
    ∃ a x y b, carveUnallocated sig12 1024 2 1024 100 (Buf.ofList [1, 9]) = .ok [a, x, y, b] ∧
      a.matchStart = 0 ∧ a.matchEnd = 1 ∧ a.rec_.cols.map (·.value) = [.dec (.int 9)] ∧
      b.matchStart = 0 ∧ b.matchEnd = 0 ∧ b.rec_.cols.map (·.value) = [.dec (.int 265)] ∧
      a.digest = b.digest ∧ (dedup [] [a, x, y, b]).length = 3 := by
  have h := bogusChk_true
  generalize carveUnallocated sig12 1024 2 1024 100 (Buf.ofList [1, 9]) = res at h
  unfold bogusChk at h
  split at h
  · rename_i a x y b
    simp only [Bool.and_eq_true, decide_eq_true_eq] at h
    obtain ⟨⟨⟨⟨⟨⟨⟨h1, h2⟩, h3⟩, h4⟩, h5⟩, h6⟩, h7⟩, h8⟩ := h
    exact ⟨a, x, y, b, rfl, h1, h2, h3, h4, h5, h6, h7, h8⟩
  · cases h

end SqliteDissect.Proofs.CarveRecall
